(* Proofs about Model/Archive.v (property C15). *)
From Trzsz Require Import Base.Bytes Gen.Consts Model.Archive.
From Coq Require Import Lia ZArith.

(* the literals the model's meaning depends on, pinned to the regenerated source values:
   reader and writer agree on the delimiter, the header costs one extra byte in the
   announced size, and Write reports the header plus its delimiter as consumed *)
Lemma archive_consts_ok :
  Consts.archive_split_byte = Consts.archive_newline /\
  Consts.archive_write_extra = 1 /\ Consts.archive_header_extra = 1.
Proof. repeat split; reflexivity. Qed.

Lemma ANL_SPLIT : ANL = ASPLIT.
Proof. unfold ANL, ASPLIT. symmetry. apply archive_consts_ok. Qed.

(* ---- generic list facts ---- *)
Lemma list_eqb_eq a b : list_eqb a b = true <-> a = b.
Proof.
  revert b. induction a as [|x a IH]; intros [|y b]; simpl; split; intros H; try reflexivity; try discriminate.
  - apply andb_prop in H as [H1 H2]. apply N.eqb_eq in H1. apply IH in H2. congruence.
  - injection H as -> ->. rewrite N.eqb_refl. apply IH. reflexivity.
Qed.

Lemma apath_eqb_eq a b : apath_eqb a b = true <-> a = b.
Proof.
  revert b. induction a as [|x a IH]; intros [|y b]; simpl; split; intros H; try reflexivity; try discriminate.
  - apply andb_prop in H as [H1 H2]. apply list_eqb_eq in H1. apply IH in H2. congruence.
  - injection H as -> ->. apply andb_true_intro. split; [apply list_eqb_eq|apply IH]; reflexivity.
Qed.

Lemma apath_eqb_refl a : apath_eqb a a = true.
Proof. apply apath_eqb_eq. reflexivity. Qed.

Lemma apath_eqb_neq a b : a <> b -> apath_eqb a b = false.
Proof. intros H. destruct (apath_eqb a b) eqn:E; [|reflexivity]. apply apath_eqb_eq in E. contradiction. Qed.

Lemma firstn_add {A} (a b : nat) (l : list A) : firstn (a + b) l = firstn a l ++ firstn b (skipn a l).
Proof.
  revert l. induction a as [|a IH]; intros l; [reflexivity|].
  destruct l as [|x l]; simpl; [destruct b; reflexivity|]. f_equal. apply IH.
Qed.

Lemma index_byte_none b l : index_byte b l = None -> ~ In b l.
Proof.
  induction l as [|x l IH]; simpl; [tauto|].
  destruct (x =? b) eqn:E; [discriminate|]. destruct (index_byte b l); [discriminate|].
  intros _ [H|H]; [apply N.eqb_neq in E; contradiction|]. apply IH; auto.
Qed.

Lemma index_byte_some b l i : index_byte b l = Some i ->
  l = firstn i l ++ b :: skipn (S i) l /\ ~ In b (firstn i l) /\ length (firstn i l) = i.
Proof.
  revert i. induction l as [|x l IH]; intros i; simpl; [discriminate|].
  destruct (x =? b) eqn:E.
  - intros H. injection H as <-. apply N.eqb_eq in E. subst x. simpl. auto.
  - destruct (index_byte b l) as [j|]; [|discriminate]. intros H. injection H as <-.
    destruct (IH j eq_refl) as (H1 & H2 & H3). cbn [firstn skipn app length]. repeat split.
    + f_equal. exact H1.
    + intros [H|H]; [apply N.eqb_neq in E; contradiction|]. auto.
    + f_equal. exact H3.
Qed.

Lemma index_byte_app b p q : ~ In b p -> index_byte b (p ++ b :: q) = Some (length p).
Proof.
  induction p as [|x p IH]; simpl; intros H.
  - rewrite N.eqb_refl. reflexivity.
  - destruct (x =? b) eqn:E; [apply N.eqb_eq in E; tauto|]. rewrite IH; tauto.
Qed.

Section ArchiveProofs.
Variable hdr : ameta -> list byte.
Variable parse : list byte -> option ameta.

(* ==================================================================================== *)
(* C15_size *)
Lemma astream1_length e : length (astream1 hdr e) = (length (hdr (ae_meta e)) + 1 + length (apayload e))%nat.
Proof. unfold astream1. rewrite app_length. simpl. lia. Qed.

Lemma apayload_exact e : aentry_exact e = true ->
  Z.of_nat (length (apayload e)) = if ae_dir e then 0%Z else am_size (ae_meta e).
Proof.
  unfold aentry_exact, apayload. destruct (ae_dir e); simpl; [reflexivity|].
  intros H. apply Z.eqb_eq in H. rewrite H, Nat2Z.id, firstn_all. reflexivity.
Qed.

Lemma size_ok es : Forall (fun e => aentry_exact e = true) es ->
  ar_total_size hdr es = Z.of_nat (length (astream hdr es)).
Proof.
  induction 1 as [|e es He _ IH]; [reflexivity|].
  cbn [ar_total_size astream flat_map]. fold (astream hdr es). rewrite app_length, astream1_length, IH.
  pose proof (apayload_exact e He) as Hp. unfold ae_dir in Hp.
  destruct archive_consts_ok as (_ & _ & ->).
  destruct (am_dir (ae_meta e)); lia.
Qed.

(* ==================================================================================== *)
(* the reader *)

(* what the reader is expected to deliver, and whether it then ends with EOF (true) or
   with the "EOF but left <> 0" error (false): everything up to and including the
   data of the first file that is shorter than announced *)
Fixpoint aexp (es : list aentry) : list byte * bool :=
  match es with
  | [] => ([], true)
  | e :: r =>
    if ashort e then (hdr (ae_meta e) ++ ANL :: ae_data e, false)
    else (astream1 hdr e ++ fst (aexp r), snd (aexp r))
  end.

Definition cur_short (st : arstate) : bool :=
  match ar_src st, ar_file st with
  | Some _, Some c => (Z.of_nat (length c) <? ar_left st)%Z
  | _, _ => false
  end.
Definition rem_cur (st : arstate) : list byte :=
  match ar_src st with
  | None => []
  | Some _ => ar_buf st ++ match ar_file st with Some c => firstn (Z.to_nat (ar_left st)) c | None => [] end
  end.
Definition aexp_st (st : arstate) : list byte * bool :=
  if cur_short st then (rem_cur st, false)
  else (rem_cur st ++ fst (aexp (ar_files st)), snd (aexp (ar_files st))).

Definition RInv (st : arstate) : Prop :=
  match ar_src st, ar_file st with Some _, Some _ => (0 <= ar_left st)%Z | _, _ => True end /\
  Forall (fun e => anonneg e = true) (ar_files st).

Lemma cur_step st size e : RInv st -> ar_src st = Some e -> (1 <= size)%nat ->
  match ar_cur st size with
  | ArRet (ArData out) st' => out <> [] /\ RInv st' /\ aexp_st st = (out ++ fst (aexp_st st'), snd (aexp_st st'))
  | ArRet ArErrShrink st' => aexp_st st = ([], false)
  | ArRet _ _ => False
  | ArNext st' => RInv st' /\ ar_src st' = None /\ ar_files st' = ar_files st /\ aexp_st st = aexp_st st'
  end.
Proof.
  intros [Hl Hf] Hs Hsz. unfold ar_cur. destruct (ar_buf st) as [|b bs] eqn:Hb.
  - destruct (ar_file st) as [c|] eqn:Hfile.
    + rewrite Hs in Hl.
      set (m := Z.min (Z.of_nat size) (ar_left st)).
      assert (Hm : (0 <= m)%Z) by (unfold m; lia).
      destruct (Z.ltb_spec m 0) as [?|_]; [lia|].
      set (n := Nat.min (Z.to_nat m) (length c)).
      destruct (Z.ltb_spec (Z.of_nat (length c)) (ar_left st)) as [Hshort|Hgood].
      * (* the open file is shorter than announced *)
        assert (Hcs : aexp_st st = (c, false)).
        { unfold aexp_st, cur_short, rem_cur. rewrite Hs, Hfile, Hb.
          destruct (Z.ltb_spec (Z.of_nat (length c)) (ar_left st)); [|lia].
          rewrite firstn_all2 by lia. reflexivity. }
        destruct c as [|x c].
        { (* at its end: EOF with left <> 0 *)
          assert (Hm1 : (0 < m)%Z) by (unfold m; simpl in Hshort; lia).
          destruct (Z.ltb_spec 0 m) as [_|?]; [|lia]. cbn [nonempty negb andb].
          subst n. cbn [length]. rewrite Nat.min_0_r. cbn [Z.of_nat]. rewrite Z.sub_0_r.
          destruct (Z.eqb_spec (ar_left st) 0) as [?|_]; [simpl in Hshort; lia|].
          cbn [negb]. exact Hcs. }
        cbn [nonempty negb andb]. rewrite andb_false_r.
        assert (Hn : (1 <= n <= length (x :: c))%nat) by (unfold n, m; simpl in *; lia).
        destruct (Z.eqb_spec (ar_left st - Z.of_nat n) 0) as [?|Hne]; [lia|].
        destruct n as [|n'] eqn:En; [lia|]. rewrite <- En in *.
        split; [destruct n; [lia|discriminate]|]. split.
        { split; cbn [ar_src ar_file ar_left ar_files]; [rewrite Hs; lia|exact Hf]. }
        rewrite Hcs. unfold aexp_st, cur_short, rem_cur. cbn [ar_src ar_file ar_left ar_buf ar_files].
        rewrite Hs. rewrite skipn_length.
        destruct (Z.ltb_spec (Z.of_nat (length (x :: c) - n)) (ar_left st - Z.of_nat n)) as [_|?]; [|lia].
        cbn [fst snd app]. rewrite (firstn_all2 (skipn n (x :: c))) by (rewrite skipn_length; lia).
        rewrite firstn_skipn. reflexivity.
      * (* enough data *)
        assert (Hn : n = Z.to_nat m) by (unfold n; lia).
        assert (Heof : (0 <? m)%Z && negb (nonempty c) = false).
        { destruct c; [|cbn; apply andb_false_r]. simpl in Hgood.
          destruct (Z.ltb_spec 0 m); [unfold m in *; lia|reflexivity]. }
        rewrite Heof. cbn [andb].
        assert (Hcs : aexp_st st = (firstn (Z.to_nat (ar_left st)) c ++ fst (aexp (ar_files st)), snd (aexp (ar_files st)))).
        { unfold aexp_st, cur_short, rem_cur. rewrite Hs, Hfile, Hb.
          destruct (Z.ltb_spec (Z.of_nat (length c)) (ar_left st)); [lia|]. reflexivity. }
        destruct n as [|n'] eqn:En.
        { (* nothing left in this entry: on to the next one *)
          assert (Hl0 : ar_left st = 0%Z) by (unfold m in *; lia).
          rewrite Hl0. cbn [Z.of_nat Z.sub Z.eqb]. cbn [Z.opp Z.add].
          split; [split; [exact I|exact Hf]|]. split; [reflexivity|]. split; [reflexivity|].
          rewrite Hcs, Hl0. unfold aexp_st, cur_short, rem_cur. reflexivity. }
        rewrite <- En in *.
        assert (Hnl : (Z.of_nat n <= ar_left st)%Z) by (unfold m in *; lia).
        split; [destruct c; [simpl in *; lia|destruct n; [lia|discriminate]]|].
        assert (Hsplit : firstn (Z.to_nat (ar_left st)) c =
                         firstn n c ++ firstn (Z.to_nat (ar_left st - Z.of_nat n)) (skipn n c)).
        { replace (Z.to_nat (ar_left st)) with (n + Z.to_nat (ar_left st - Z.of_nat n))%nat by lia.
          apply firstn_add. }
        destruct (Z.eqb_spec (ar_left st - Z.of_nat n) 0) as [H0|Hne].
        { split; [split; [exact I|exact Hf]|].
          rewrite Hcs, Hsplit, H0. unfold aexp_st, cur_short, rem_cur. cbn [ar_src ar_files fst snd app].
          cbn [Z.to_nat firstn]. rewrite app_nil_r. reflexivity. }
        split.
        { split; cbn [ar_src ar_file ar_left ar_files]; [rewrite Hs; lia|exact Hf]. }
        rewrite Hcs, Hsplit. unfold aexp_st, cur_short, rem_cur. cbn [ar_src ar_file ar_left ar_buf ar_files].
        rewrite Hs, skipn_length.
        destruct (Z.ltb_spec (Z.of_nat (length c - n)) (ar_left st - Z.of_nat n)) as [?|_]; [lia|].
        cbn [fst snd app]. rewrite app_assoc. reflexivity.
    + (* a directory: nothing after the header *)
      split; [split; [exact I|exact Hf]|]. split; [reflexivity|]. split; [reflexivity|].
      unfold aexp_st, cur_short, rem_cur. cbn [ar_src ar_file ar_files]. rewrite Hs, Hfile, Hb. reflexivity.
  - (* header bytes pending *)
    set (n := Nat.min size (length (b :: bs))).
    assert (Hn : (1 <= n)%nat) by (unfold n; simpl; lia).
    split; [destruct n; [lia|discriminate]|]. split.
    { split; cbn [ar_src ar_file ar_left ar_files]; [exact Hl|exact Hf]. }
    unfold aexp_st, cur_short, rem_cur. cbn [ar_src ar_file ar_left ar_buf ar_files]. rewrite Hs, Hb.
    destruct (match ar_file st with Some c => (Z.of_nat (length c) <? ar_left st)%Z | None => false end);
      cbn [fst snd]; rewrite <- (firstn_skipn n (b :: bs)) at 1; rewrite <- !app_assoc; reflexivity.
Qed.

Lemma aexp_pair es : aexp es = (fst (aexp es), snd (aexp es)).
Proof. destruct (aexp es); reflexivity. Qed.

Lemma load_step size : (1 <= size)%nat -> forall files st,
  Forall (fun e => anonneg e = true) files ->
  match ar_load hdr files st size with
  | (ArData out, st') => out <> [] /\ RInv st' /\ aexp files = (out ++ fst (aexp_st st'), snd (aexp_st st'))
  | (ArEof, _) => aexp files = ([], true)
  | (ArErrShrink, _) => aexp files = ([], false)
  | _ => False
  end.
Proof.
  intros Hsz. induction files as [|e rest IH]; intros st Hf; [reflexivity|].
  inversion Hf as [|? ? He Hrest]; subst.
  cbn [ar_load].
  set (st1 := mkAR rest (Some e) (hdr (ae_meta e) ++ [ANL])
                   (if am_dir (ae_meta e) then None else Some (ae_data e)) (am_size (ae_meta e)) _ _).
  assert (Hinv : RInv st1).
  { split; cbn [ar_src ar_file ar_left ar_files st1]; [|exact Hrest].
    unfold anonneg, ae_dir in He. destruct (am_dir (ae_meta e)); [exact I|]. simpl in He. lia. }
  assert (Hexp : aexp (e :: rest) = aexp_st st1).
  { cbn [aexp]. unfold aexp_st, cur_short, rem_cur, ashort, ae_dir. cbn [ar_src ar_file ar_left ar_files ar_buf st1].
    destruct (am_dir (ae_meta e)) eqn:Ed; cbn [negb andb].
    - unfold astream1, apayload, ae_dir. rewrite Ed, app_nil_r. reflexivity.
    - destruct (Z.ltb_spec (Z.of_nat (length (ae_data e))) (am_size (ae_meta e))) as [Hs|Hs].
      + rewrite firstn_all2 by lia. rewrite <- app_assoc. reflexivity.
      + unfold astream1, apayload, ae_dir. rewrite Ed. do 2 f_equal. rewrite <- !app_assoc. reflexivity. }
  pose proof (cur_step st1 size e Hinv eq_refl Hsz) as Hc.
  destruct (ar_cur st1 size) as [r st2|st2].
  - destruct r; try contradiction; rewrite Hexp; exact Hc.
  - destruct Hc as (Hi2 & Hs2 & Hf2 & He2).
    specialize (IH st2 Hrest). rewrite Hexp, He2.
    assert (Hx : aexp_st st2 = aexp rest).
    { unfold aexp_st, cur_short, rem_cur. rewrite Hs2, Hf2. cbn [ar_files st1 app]. symmetry. apply aexp_pair. }
    rewrite Hx. exact IH.
Qed.

Lemma read_step st size : RInv st -> (1 <= size)%nat ->
  match ar_read hdr st size with
  | (ArData out, st') => out <> [] /\ RInv st' /\ aexp_st st = (out ++ fst (aexp_st st'), snd (aexp_st st'))
  | (ArEof, _) => aexp_st st = ([], true)
  | (ArErrShrink, _) => aexp_st st = ([], false)
  | _ => False
  end.
Proof.
  intros Hinv Hsz. unfold ar_read. destruct (ar_src st) as [e|] eqn:Hs.
  - pose proof (cur_step st size e Hinv Hs Hsz) as Hc.
    destruct (ar_cur st size) as [r st2|st2].
    + destruct r; try contradiction; exact Hc.
    + destruct Hc as (Hi2 & Hs2 & Hf2 & He2).
      pose proof (load_step size Hsz (ar_files st2) st2 (proj2 Hi2)) as Hl.
      assert (Hx : aexp_st st2 = aexp (ar_files st2)).
      { unfold aexp_st, cur_short, rem_cur. rewrite Hs2. cbn [app]. symmetry. apply aexp_pair. }
      rewrite He2, Hx. exact Hl.
  - pose proof (load_step size Hsz (ar_files st) st (proj2 Hinv)) as Hl.
    assert (Hx : aexp_st st = aexp (ar_files st)).
    { unfold aexp_st, cur_short, rem_cur. rewrite Hs. cbn [app]. symmetry. apply aexp_pair. }
    rewrite Hx. exact Hl.
Qed.

Definition aend_of (ok : bool) : arend := if ok then ArEndEof else ArEndErr ArErrShrink.

Lemma run_spec dflt : (1 <= dflt)%nat -> forall fuel st sizes,
  RInv st -> Forall (fun s => 1 <= s)%nat sizes -> (length (fst (aexp_st st)) < fuel)%nat ->
  exists outs st', ar_run hdr fuel st sizes dflt = (outs, aend_of (snd (aexp_st st)), st') /\
    concat outs = fst (aexp_st st) /\ Forall (fun o => o <> []) outs.
Proof.
  intros Hd. induction fuel as [|fuel IH]; intros st sizes Hinv Hsz Hfuel; [lia|].
  cbn [ar_run]. destruct (ar_next_size sizes dflt) as [size sizes'] eqn:Hns.
  assert (Hsize : (1 <= size)%nat /\ Forall (fun s => 1 <= s)%nat sizes').
  { unfold ar_next_size in Hns. destruct sizes as [|s r]; injection Hns as <- <-.
    - split; [exact Hd|constructor].
    - inversion Hsz; subst. split; assumption. }
  destruct Hsize as [Hs1 Hs2].
  pose proof (read_step st size Hinv Hs1) as Hr.
  destruct (ar_read hdr st size) as [r st1]. destruct r as [out| | | |]; try contradiction.
  - destruct Hr as (Hne & Hinv1 & He).
    rewrite He in Hfuel. cbn [fst] in Hfuel. rewrite app_length in Hfuel.
    destruct (IH st1 sizes' Hinv1 Hs2) as (outs & st' & Hrun & Hcat & Hall).
    { destruct out; [contradiction|]. simpl in Hfuel. lia. }
    rewrite Hrun. exists (out :: outs), st'. rewrite He. cbn [fst snd concat].
    split; [reflexivity|]. split; [rewrite Hcat; reflexivity|]. constructor; assumption.
  - exists [], st1. rewrite Hr. cbn. auto.
  - exists [], st1. rewrite Hr. cbn. auto.
Qed.

Lemma aexp_length es :
  (length (fst (aexp es)) <= length (flat_map (fun e => hdr (ae_meta e) ++ ANL :: ae_data e) es))%nat.
Proof.
  induction es as [|e es IH]; [simpl; lia|].
  cbn [aexp flat_map]. rewrite app_length. destruct (ashort e); cbn [fst].
  - lia.
  - rewrite app_length. unfold astream1, apayload. rewrite !app_length. cbn [length].
    destruct (ae_dir e); [simpl; lia|]. rewrite firstn_length. lia.
Qed.

Lemma init_inv es : Forall (fun e => anonneg e = true) es -> RInv (ar_init es) /\ aexp_st (ar_init es) = aexp es.
Proof.
  intros H. split; [split; [exact I|exact H]|].
  unfold aexp_st, cur_short, rem_cur. cbn. symmetry. apply aexp_pair.
Qed.

Lemma reader_spec es sizes dflt :
  Forall (fun e => anonneg e = true) es -> Forall (fun s => 1 <= s)%nat sizes -> (1 <= dflt)%nat ->
  exists outs st', ar_reader_run hdr es sizes dflt = (outs, aend_of (snd (aexp es)), st') /\
    concat outs = fst (aexp es) /\ Forall (fun o => o <> []) outs.
Proof.
  intros He Hs Hd. destruct (init_inv es He) as [Hi Hx]. unfold ar_reader_run.
  destruct (run_spec dflt Hd (ar_fuel hdr es) (ar_init es) sizes Hi Hs) as (outs & st' & H1 & H2 & H3).
  { rewrite Hx. unfold ar_fuel. pose proof (aexp_length es). lia. }
  exists outs, st'. rewrite <- Hx. auto.
Qed.

Lemma aentry_ok_split e : aentry_ok e = true -> anonneg e = true /\ ashort e = false.
Proof.
  unfold aentry_ok, anonneg, ashort. destruct (ae_dir e); cbn [orb negb andb]; [auto|].
  intros H. apply andb_prop in H as [H1 H2]. split; [exact H1|]. apply Z.leb_le in H2. apply Z.ltb_ge. exact H2.
Qed.

Lemma aexp_ok es : Forall (fun e => aentry_ok e = true) es -> aexp es = (astream hdr es, true).
Proof.
  induction 1 as [|e es He _ IH]; [reflexivity|].
  cbn [aexp]. destruct (aentry_ok_split e He) as [_ ->]. rewrite IH. reflexivity.
Qed.

(* C15_reader *)
Theorem reader_ok es sizes dflt :
  Forall (fun e => aentry_ok e = true) es -> Forall (fun s => 1 <= s)%nat sizes -> (1 <= dflt)%nat ->
  exists outs st', ar_reader_run hdr es sizes dflt = (outs, ArEndEof, st') /\
    concat outs = astream hdr es /\ Forall (fun o => o <> []) outs.
Proof.
  intros He Hs Hd.
  assert (Hn : Forall (fun e => anonneg e = true) es).
  { eapply Forall_impl; [|exact He]. intros e H. apply (aentry_ok_split e H). }
  destruct (reader_spec es sizes dflt Hn Hs Hd) as (outs & st' & H1 & H2 & H3).
  rewrite (aexp_ok es He) in *. exists outs, st'. auto.
Qed.

(* C15_shrink: the first file shorter than announced ends the stream with the error, after
   exactly the bytes that are there; nothing of the entries behind it is produced *)
Theorem reader_shrink es1 e es2 sizes dflt :
  Forall (fun e => aentry_ok e = true) es1 -> ashort e = true -> anonneg e = true ->
  Forall (fun e => anonneg e = true) es2 ->
  Forall (fun s => 1 <= s)%nat sizes -> (1 <= dflt)%nat ->
  exists outs st', ar_reader_run hdr (es1 ++ e :: es2) sizes dflt = (outs, ArEndErr ArErrShrink, st') /\
    concat outs = astream hdr es1 ++ hdr (ae_meta e) ++ ANL :: ae_data e.
Proof.
  intros H1 Hsh Hnn H2 Hs Hd.
  assert (Hn : Forall (fun e => anonneg e = true) (es1 ++ e :: es2)).
  { apply Forall_app. split.
    - eapply Forall_impl; [|exact H1]. intros x H. apply (aentry_ok_split x H).
    - constructor; assumption. }
  destruct (reader_spec _ sizes dflt Hn Hs Hd) as (outs & st' & Hr & Hc & _).
  assert (Hx : aexp (es1 ++ e :: es2) = (astream hdr es1 ++ hdr (ae_meta e) ++ ANL :: ae_data e, false)).
  { clear -H1 Hsh. induction H1 as [|x es1 Hx _ IH].
    - cbn [app aexp astream flat_map]. rewrite Hsh. reflexivity.
    - cbn [app aexp]. destruct (aentry_ok_split x Hx) as [_ ->]. rewrite IH.
      cbn [fst snd astream flat_map]. rewrite <- app_assoc. reflexivity. }
  rewrite Hx in *. exists outs, st'. auto.
Qed.

(* descriptors on the reading side: never more than one, none after Close; no hypothesis
   on the entries or on the read sizes *)
Definition RFd (st : arstate) : Prop :=
  ar_fds st = (match ar_file st with Some _ => 1 | None => 0 end)%nat /\ (ar_peak st <= 1)%nat.

Lemma cur_fd st size : RFd st ->
  match ar_cur st size with ArRet _ st' => RFd st' | ArNext st' => RFd st' end.
Proof.
  intros [H1 H2]. unfold ar_cur.
  destruct (ar_buf st); [destruct (ar_file st) as [c|] eqn:Hf|];
  repeat match goal with
         | |- context [if ?b then _ else _] => destruct b
         | |- context [match Nat.min ?a ?b with _ => _ end] => destruct (Nat.min a b)
         | |- context [match ar_src st with _ => _ end] => destruct (ar_src st)
         end;
  split; cbn [ar_fds ar_file ar_peak]; try rewrite Hf; assumption.
Qed.

Lemma load_fd size files : forall st, RFd st -> RFd (snd (ar_load hdr files st size)).
Proof.
  induction files as [|e rest IH]; intros st [H1 H2]; [split; assumption|].
  cbn [ar_load].
  match goal with |- context [ar_cur ?s size] => set (st1 := s) end.
  assert (Hfd : RFd st1).
  { unfold st1. split; cbn [ar_fds ar_file ar_peak].
    - destruct (am_dir (ae_meta e)); destruct (ar_file st); lia.
    - destruct (am_dir (ae_meta e)); destruct (ar_file st); lia. }
  pose proof (cur_fd st1 size Hfd) as Hc. destruct (ar_cur st1 size) as [r st2|st2]; [exact Hc|].
  apply IH. exact Hc.
Qed.

Lemma read_fd st size : RFd st -> RFd (snd (ar_read hdr st size)).
Proof.
  intros H. unfold ar_read. destruct (ar_src st).
  - pose proof (cur_fd st size H) as Hc. destruct (ar_cur st size) as [r st2|st2]; [exact Hc|].
    apply load_fd. exact Hc.
  - apply load_fd. exact H.
Qed.

Lemma run_fd dflt fuel : forall st sizes, RFd st -> RFd (snd (ar_run hdr fuel st sizes dflt)).
Proof.
  induction fuel as [|fuel IH]; intros st sizes H; [exact H|].
  cbn [ar_run]. destruct (ar_next_size sizes dflt) as [size sizes'].
  pose proof (read_fd st size H) as Hr. destruct (ar_read hdr st size) as [r st1]. cbn [snd] in Hr.
  destruct r; try exact Hr.
  specialize (IH st1 sizes' Hr). destruct (ar_run hdr fuel st1 sizes' dflt) as [[outs e] st2]. exact IH.
Qed.

Theorem reader_fds es sizes dflt fuel :
  let st := snd (ar_run hdr fuel (ar_init es) sizes dflt) in
  (ar_peak st <= 1)%nat /\ (ar_fds st <= 1)%nat /\ ar_fds (ar_close st) = 0%nat.
Proof.
  intros st. assert (H : RFd st) by (apply run_fd; split; cbn; lia).
  destruct H as [H1 H2]. unfold ar_close. destruct (ar_file st); cbn [ar_fds]; lia.
Qed.


(* ==================================================================================== *)
(* the writer: a writeAll of any segment acts as if its bytes were written one at a time *)
Fixpoint wfold (fixed : bool) (st : awstate) (data : list byte) : awall :=
  match data with
  | [] => AwDone st
  | b :: r =>
    match aw_write parse fixed st [b] with
    | AwErr e st' => AwFail e st'
    | AwOk _ st' => wfold fixed st' r
    end
  end.

Lemma wfold_app fixed a : forall st b,
  wfold fixed st (a ++ b) = match wfold fixed st a with AwDone st' => wfold fixed st' b | x => x end.
Proof.
  induction a as [|x a IH]; intros st b; [reflexivity|].
  cbn [app wfold]. destruct (aw_write parse fixed st [x]); [apply IH|reflexivity].
Qed.

(* "data mode": a file is open and bytes of it are still expected *)
Definition dmode (st : awstate) : bool :=
  match aw_file st with Some _ => (0 <? aw_left st)%Z | None => false end.

Lemma aw_write_hmode fixed st p : dmode st = false ->
  aw_write parse fixed st p =
  match index_byte ASPLIT p with
  | None => AwOk (length p) (mkAW (aw_buf st ++ p) (aw_file st) (aw_left st) (aw_fs st) (aw_fds st) (aw_peak st))
  | Some idx =>
    match parse (aw_buf st ++ firstn idx p) with
    | None => AwErr AwEHeader (mkAW [] (aw_file st) (aw_left st) (aw_fs st) (aw_fds st) (aw_peak st))
    | Some m =>
      let file1 := if fixed then None else aw_file st in
      let fds1 := if fixed then match aw_file st with Some _ => pred (aw_fds st) | None => aw_fds st end
                  else aw_fds st in
      match afs_create (aw_fs st) m with
      | None => AwErr AwECreate (mkAW [] file1 (aw_left st) (aw_fs st) fds1 (aw_peak st))
      | Some (t', f') =>
        let fds2 := match f' with Some _ => S fds1 | None => fds1 end in
        AwOk (idx + N.to_nat Consts.archive_write_extra)%nat (mkAW [] f' (am_size m) t' fds2 (Nat.max (aw_peak st) fds2))
      end
    end
  end.
Proof.
  unfold dmode, aw_write. destruct (aw_file st); destruct (0 <? aw_left st)%Z; try reflexivity; discriminate.
Qed.

Lemma aw_write_dmode fixed st p h : aw_file st = Some h -> (0 < aw_left st)%Z ->
  aw_write parse fixed st p =
  let n := Z.to_nat (Z.min (aw_left st) (Z.of_nat (length p))) in
  AwOk n (mkAW (aw_buf st) (aw_file st) (aw_left st - Z.of_nat n)%Z
               (afs_append (aw_fs st) h (firstn n p)) (aw_fds st) (aw_peak st)).
Proof.
  intros Hf Hl. unfold aw_write. rewrite Hf. destruct (Z.ltb_spec 0 (aw_left st)); [reflexivity|lia].
Qed.

Lemma afs_append_app t h x y : afs_append (afs_append t h x) h y = afs_append t h (x ++ y).
Proof.
  induction t as [|[q n] t IH]; [reflexivity|]. cbn [afs_append].
  destruct (apath_eqb q h) eqn:E; cbn [afs_append]; rewrite E.
  - destruct n; [reflexivity|]. rewrite app_assoc. reflexivity.
  - rewrite IH. reflexivity.
Qed.

Lemma afs_append_nil t h : afs_append t h [] = t.
Proof.
  induction t as [|[q n] t IH]; [reflexivity|]. cbn [afs_append].
  destruct (apath_eqb q h); [destruct n; rewrite ?app_nil_r; reflexivity|]. rewrite IH. reflexivity.
Qed.

Lemma data_fold fixed : forall a st h, aw_file st = Some h -> (Z.of_nat (length a) <= aw_left st)%Z ->
  wfold fixed st a = AwDone (mkAW (aw_buf st) (aw_file st) (aw_left st - Z.of_nat (length a))%Z
                                  (afs_append (aw_fs st) h a) (aw_fds st) (aw_peak st)).
Proof.
  induction a as [|b r IH]; intros st h Hf Hl.
  - cbn [wfold length Z.of_nat]. rewrite afs_append_nil, Z.sub_0_r. destruct st; reflexivity.
  - cbn [wfold]. rewrite (aw_write_dmode fixed st [b] h Hf) by (cbn [length] in Hl; lia).
    cbn zeta. cbn [length].
    replace (Z.to_nat (Z.min (aw_left st) (Z.of_nat 1))) with 1%nat by (cbn [length] in Hl; lia).
    cbn [firstn]. rewrite (IH _ h); [|exact Hf|cbn [aw_left length] in *; lia].
    cbn [aw_buf aw_file aw_left aw_fs aw_fds aw_peak]. rewrite afs_append_app. cbn [app].
    do 2 f_equal. cbn [length]. lia.
Qed.

Lemma hdr_fold fixed : forall a st, dmode st = false -> ~ In ASPLIT a ->
  wfold fixed st a = AwDone (mkAW (aw_buf st ++ a) (aw_file st) (aw_left st) (aw_fs st) (aw_fds st) (aw_peak st)).
Proof.
  induction a as [|b r IH]; intros st Hm Hn.
  - cbn [wfold]. rewrite app_nil_r. destruct st; reflexivity.
  - cbn [wfold]. rewrite (aw_write_hmode fixed st [b] Hm). cbn [index_byte].
    destruct (N.eqb_spec b ASPLIT) as [->|_]; [exfalso; apply Hn; left; reflexivity|].
    rewrite IH; [|exact Hm|intros H; apply Hn; right; exact H].
    cbn [aw_buf aw_file aw_left aw_fs aw_fds aw_peak]. rewrite <- app_assoc. reflexivity.
Qed.

Lemma extra_one : N.to_nat Consts.archive_write_extra = 1%nat.
Proof. destruct archive_consts_ok as (_ & -> & _). reflexivity. Qed.

Lemma aw_wa_S fuel fixed st data : data <> [] ->
  aw_wa parse (S fuel) fixed st data =
  match aw_write parse fixed st data with
  | AwErr e st' => AwFail e st'
  | AwOk n st' => aw_wa parse fuel fixed st' (skipn n data)
  end.
Proof. destruct data; [contradiction|reflexivity]. Qed.

Lemma wa_wfold fixed : forall fuel st data, (length data <= fuel)%nat ->
  aw_wa parse fuel fixed st data = wfold fixed st data.
Proof.
  induction fuel as [|fuel IH]; intros st data Hlen.
  - destruct data; [reflexivity|simpl in Hlen; lia].
  - destruct data as [|b r]; [reflexivity|].
    assert (Hne : b :: r <> []) by discriminate.
    assert (Hl1 : (1 <= length (b :: r))%nat) by (cbn [length]; lia).
    remember (b :: r) as data eqn:Hd. clear Hd b r.
    rewrite aw_wa_S by exact Hne.
    destruct (dmode st) eqn:Hm.
    + (* data mode: min(left, len) bytes go to the file *)
      unfold dmode in Hm. destruct (aw_file st) as [h|] eqn:Hf; [|discriminate]. apply Z.ltb_lt in Hm.
      rewrite (aw_write_dmode fixed st data h Hf Hm). cbn zeta.
      set (n := Z.to_nat (Z.min (aw_left st) (Z.of_nat (length data)))).
      assert (Hn : (1 <= n <= length data)%nat) by (unfold n; lia).
      cbv beta iota. rewrite IH by (rewrite skipn_length; lia).
      rewrite <- (firstn_skipn n data) at 3. rewrite wfold_app.
      rewrite (data_fold fixed (firstn n data) st h Hf) by (rewrite firstn_length; unfold n; lia).
      rewrite firstn_length_le by lia. rewrite Hf. reflexivity.
    + rewrite (aw_write_hmode fixed st data Hm).
      destruct (index_byte ASPLIT data) as [idx|] eqn:Hi.
      * (* a complete header line *)
        destruct (index_byte_some _ _ _ Hi) as (Hdec & Hnin & Hlenp).
        assert (Hw : wfold fixed st data = wfold fixed st (firstn idx data ++ ASPLIT :: skipn (S idx) data))
          by (f_equal; exact Hdec).
        rewrite Hw. clear Hw.
        rewrite wfold_app, (hdr_fold fixed (firstn idx data) st Hm Hnin). cbn [wfold].
        rewrite aw_write_hmode by exact Hm.
        cbn [index_byte aw_buf aw_file aw_left aw_fs aw_fds aw_peak]. rewrite N.eqb_refl. cbn [firstn].
        rewrite app_nil_r.
        destruct (parse (aw_buf st ++ firstn idx data)) as [m|]; [|reflexivity].
        cbn zeta. destruct (afs_create (aw_fs st) m) as [[t' f']|]; [|reflexivity].
        rewrite extra_one, Nat.add_1_r. cbn [Nat.add].
        rewrite IH by (rewrite skipn_length; lia). reflexivity.
      * (* no delimiter: everything joins the pending header *)
        rewrite skipn_all. rewrite (hdr_fold fixed data st Hm (index_byte_none _ _ Hi)).
        destruct fuel; reflexivity.
Qed.

Lemma write_all_wfold fixed st data : aw_write_all parse fixed st data = wfold fixed st data.
Proof. apply wa_wfold. lia. Qed.

(* segmentation independence: any list of segments acts as its concatenation *)
Lemma run_wfold fixed : forall ws st, aw_run parse fixed st ws = wfold fixed st (concat ws).
Proof.
  induction ws as [|w ws IH]; intros st; [reflexivity|].
  cbn [aw_run concat]. rewrite write_all_wfold, wfold_app.
  destruct (wfold fixed st w); [apply IH|reflexivity|reflexivity].
Qed.


(* ---- one entry, then a whole stream, byte by byte ---- *)
Lemma create_kind t m t' f' : afs_create t m = Some (t', f') ->
  match f' with Some h => am_dir m = false | None => am_dir m = true end.
Proof.
  unfold afs_create. destruct (afs_mkdir_all t (removelast (am_path m))) as [t1|]; [|discriminate].
  destruct (am_dir m).
  - destruct (afs_mkdir_all t1 (am_path m)); [|discriminate]. intros H. injection H as <- <-. reflexivity.
  - destruct (afs_lookup t1 (am_path m)) as [[|c]|]; try discriminate; intros H; injection H as <- <-; reflexivity.
Qed.

Lemma apayload_ok e : aentry_ok e = true -> ae_dir e = false ->
  Z.of_nat (length (apayload e)) = am_size (ae_meta e).
Proof.
  unfold aentry_ok, apayload. intros H Hd. rewrite Hd in *. cbn [orb] in H.
  apply andb_prop in H as [H1 H2]. apply Z.leb_le in H1, H2. rewrite firstn_length. lia.
Qed.

Lemma wfold_entry fixed st e rest : dmode st = false -> aw_buf st = [] -> aentry_ok e = true -> hdr_ok hdr parse e ->
  match abuild1 (aw_fs st) e with
  | None => exists st', wfold fixed st (astream1 hdr e ++ rest) = AwFail AwECreate st'
  | Some t' => exists st', wfold fixed st (astream1 hdr e ++ rest) = wfold fixed st' rest /\
                           aw_fs st' = t' /\ dmode st' = false /\ aw_buf st' = []
  end.
Proof.
  intros Hm Hb Hok [parse_hdr hdr_no_nl]. unfold astream1. rewrite <- app_assoc. cbn [app].
  rewrite wfold_app, (hdr_fold fixed _ st Hm) by (rewrite <- ANL_SPLIT; exact hdr_no_nl).
  cbn [wfold]. rewrite aw_write_hmode by exact Hm. rewrite ANL_SPLIT.
  cbn [index_byte aw_buf aw_file aw_left aw_fs aw_fds aw_peak]. rewrite N.eqb_refl. cbn [firstn].
  rewrite app_nil_r, Hb. cbn [app]. rewrite parse_hdr. cbn zeta.
  unfold abuild1. destruct (afs_create (aw_fs st) (ae_meta e)) as [[t' f']|] eqn:Hc.
  - pose proof (create_kind _ _ _ _ Hc) as Hk. destruct f' as [h|].
    + (* a file: its payload goes to the open file, then left = 0 *)
      pose proof (apayload_ok e Hok Hk) as Hlen.
      rewrite wfold_app. rewrite (data_fold fixed (apayload e) _ h); [|reflexivity|cbn [aw_left]; lia].
      cbn [aw_buf aw_file aw_left aw_fs aw_fds aw_peak].
      eexists. split; [reflexivity|]. cbn [aw_fs aw_buf]. split; [reflexivity|]. split; [|reflexivity].
      unfold dmode. cbn [aw_file aw_left]. rewrite Hlen, Z.sub_diag. reflexivity.
    + (* a directory: no payload, no open file *)
      unfold apayload, ae_dir. rewrite Hk. cbn [app].
      eexists. split; [reflexivity|]. cbn [aw_fs aw_buf]. split; [reflexivity|]. split; reflexivity.
  - eexists. reflexivity.
Qed.

Lemma wfold_stream fixed : forall es st, dmode st = false -> aw_buf st = [] ->
  Forall (fun e => aentry_ok e = true) es -> Forall (hdr_ok hdr parse) es ->
  match abuild (aw_fs st) es with
  | None => exists st', wfold fixed st (astream hdr es) = AwFail AwECreate st'
  | Some t' => exists st', wfold fixed st (astream hdr es) = AwDone st' /\
                           aw_fs st' = t' /\ dmode st' = false /\ aw_buf st' = []
  end.
Proof.
  induction es as [|e es IH]; intros st Hm Hb Hok Hh.
  - exists st. cbn. auto.
  - inversion Hok as [|? ? He Hes]; subst. inversion Hh as [|? ? Hhe Hhes]; subst.
    cbn [abuild astream flat_map]. fold (astream hdr es).
    pose proof (wfold_entry fixed st e (astream hdr es) Hm Hb He Hhe) as H1.
    destruct (abuild1 (aw_fs st) e) as [t1|].
    + destruct H1 as (st1 & Hw & Hfs & Hm1 & Hb1). rewrite Hw. subst t1. apply IH; assumption.
    + exact H1.
Qed.

(* ==================================================================================== *)
(* descriptors on the writing side, with the previous file closed before the next entry *)
Definition WFd (st : awstate) : Prop :=
  aw_fds st = (match aw_file st with Some _ => 1 | None => 0 end)%nat /\ (aw_peak st <= 1)%nat.

Lemma write_fd st p : WFd st ->
  match aw_write parse true st p with AwOk _ st' => WFd st' | AwErr _ st' => WFd st' end.
Proof.
  intros [H1 H2]. unfold aw_write.
  destruct (0 <? aw_left st)%Z; destruct (aw_file st) as [h|] eqn:Hf;
  repeat match goal with
         | |- context [match index_byte ?a ?b with _ => _ end] => destruct (index_byte a b)
         | |- context [match parse ?a with _ => _ end] => destruct (parse a)
         | |- context [match afs_create ?a ?b with _ => _ end] => destruct (afs_create a b) as [[? [?|]]|]
         end;
  split; cbn [aw_fds aw_file aw_peak]; try rewrite Hf; lia.
Qed.

Lemma wa_fd : forall fuel st data, WFd st ->
  match aw_wa parse fuel true st data with AwDone st' => WFd st' | AwFail _ st' => WFd st' | AwFuel => True end.
Proof.
  induction fuel as [|fuel IH]; intros st data H; (destruct data as [|b r]; [exact H|]); [exact I|].
  cbn [aw_wa]. pose proof (write_fd st (b :: r) H) as Hw.
  destruct (aw_write parse true st (b :: r)); [apply IH; exact Hw|exact Hw].
Qed.

Lemma run_fd_w : forall ws st, WFd st ->
  match aw_run parse true st ws with AwDone st' => WFd st' | AwFail _ st' => WFd st' | AwFuel => True end.
Proof.
  induction ws as [|w ws IH]; intros st H; [exact H|].
  cbn [aw_run]. pose proof (wa_fd (length w) st w H) as Hw. unfold aw_write_all.
  destruct (aw_wa parse (length w) true st w); [apply IH; exact Hw|exact Hw|exact I].
Qed.

Theorem writer_fds ws st : aw_state_of (aw_writer_run parse true ws) = Some st ->
  (aw_peak st <= 1)%nat /\ (aw_fds st <= 1)%nat /\ aw_fds (aw_close st) = 0%nat.
Proof.
  unfold aw_writer_run. pose proof (run_fd_w ws aw_init) as H.
  assert (H0 : WFd aw_init) by (split; cbn; lia). specialize (H H0).
  destruct (aw_run parse true aw_init ws) as [s|e s|]; cbn [aw_state_of]; intros E; try discriminate;
    injection E as <-; destruct H as [H1 H2]; unfold aw_close; destruct (aw_file s); cbn [aw_fds]; lia.
Qed.

End ArchiveProofs.

(* ==================================================================================== *)
(* the abstract tree: what mkdirs / create do to lookups *)
Definition nprefixb (p q : apath) : bool := nonempty p && apath_prefix p q.
Definition anode_of (e : aentry) : anode := if ae_dir e then ADir else AFile (apayload e).

Lemma prefix_iff p : forall q, apath_prefix p q = true <-> (length p <= length q)%nat /\ p = firstn (length p) q.
Proof.
  induction p as [|x p IH]; intros q.
  - cbn. split; [intros _; split; [lia|reflexivity]|reflexivity].
  - destruct q as [|y q]; cbn [apath_prefix length firstn].
    + split; [discriminate|intros [H _]; lia].
    + split.
      * intros H. apply andb_prop in H as [H1 H2]. apply list_eqb_eq in H1. apply IH in H2 as [H2 H3].
        split; [lia|]. subst y. f_equal. exact H3.
      * intros [H1 H2]. injection H2 as -> H2. apply andb_true_intro. split; [apply list_eqb_eq; reflexivity|].
        apply IH. split; [lia|exact H2].
Qed.

Lemma prefix_refl q : apath_prefix q q = true.
Proof. apply prefix_iff. split; [lia|]. rewrite firstn_all. reflexivity. Qed.

Lemma nprefix_iff p q : nprefixb p q = true <-> exists k, (1 <= k <= length q)%nat /\ p = firstn k q.
Proof.
  unfold nprefixb. split.
  - intros H. apply andb_prop in H as [H1 H2]. apply prefix_iff in H2 as [H2 H3].
    exists (length p). split; [|exact H3]. destruct p; [discriminate|]. cbn [length] in *. lia.
  - intros (k & Hk & ->). apply andb_true_intro. split.
    + destruct q; [simpl in Hk; lia|]. destruct k; [lia|]. reflexivity.
    + apply prefix_iff. rewrite firstn_length_le by lia. split; [lia|reflexivity].
Qed.

Lemma app_neq_self {A} (q l : list A) : l <> [] -> q ++ l <> q.
Proof. intros Hl H. rewrite <- (app_nil_r q) in H at 2. apply app_inv_head in H. contradiction. Qed.

Lemma mkdirs_spec : forall rest t pre,
  (forall k c, (1 <= k <= length rest)%nat -> afs_lookup t (pre ++ firstn k rest) <> Some (AFile c)) ->
  exists t', afs_mkdirs t pre rest = Some t' /\
    (forall k, (1 <= k <= length rest)%nat -> afs_lookup t' (pre ++ firstn k rest) = Some ADir) /\
    (forall p, (forall k, (1 <= k <= length rest)%nat -> p <> pre ++ firstn k rest) -> afs_lookup t' p = afs_lookup t p).
Proof.
  induction rest as [|c rest IH]; intros t pre H.
  - exists t. split; [reflexivity|]. split; [intros k Hk; simpl in Hk; lia|reflexivity].
  - cbn [afs_mkdirs].
    assert (Hdec : forall k, pre ++ firstn (S k) (c :: rest) = (pre ++ [c]) ++ firstn k rest).
    { intros k. cbn [firstn]. rewrite <- app_assoc. reflexivity. }
    assert (Hne : forall k, (1 <= k <= length rest)%nat -> (pre ++ [c]) ++ firstn k rest <> pre ++ [c]).
    { intros k Hk. apply app_neq_self. intros E. apply (f_equal (@length _)) in E.
      rewrite firstn_length_le in E by lia. simpl in E. lia. }
    destruct (afs_lookup t (pre ++ [c])) as [[|cc]|] eqn:Hq.
    + destruct (IH t (pre ++ [c])) as (t' & Hm & Hd & Ho).
      { intros k cc Hk. rewrite <- Hdec. apply H. cbn [length]. lia. }
      exists t'. split; [exact Hm|]. split.
      * intros k Hk. destruct k as [|k]; [lia|]. rewrite Hdec. destruct k as [|k].
        { cbn [firstn]. rewrite app_nil_r. rewrite Ho; [exact Hq|].
          intros k Hk' E. symmetry in E. revert E. apply Hne. exact Hk'. }
        apply Hd. cbn [length] in Hk. lia.
      * intros p Hp. apply Ho. intros k Hk. rewrite <- Hdec. apply Hp. cbn [length]. lia.
    + exfalso. apply (H 1%nat cc); [cbn [length]; lia|]. cbn [firstn]. exact Hq.
    + destruct (IH ((pre ++ [c], ADir) :: t) (pre ++ [c])) as (t' & Hm & Hd & Ho).
      { intros k cc Hk. cbn [afs_lookup]. rewrite apath_eqb_neq.
        - rewrite <- Hdec. apply H. cbn [length]. lia.
        - intros E. symmetry in E. revert E. apply Hne. exact Hk. }
      exists t'. split; [exact Hm|]. split.
      * intros k Hk. destruct k as [|k]; [lia|]. rewrite Hdec. destruct k as [|k].
        { cbn [firstn]. rewrite app_nil_r. rewrite Ho.
          - cbn [afs_lookup]. rewrite apath_eqb_refl. reflexivity.
          - intros k Hk' E. symmetry in E. revert E. apply Hne. exact Hk'. }
        apply Hd. cbn [length] in Hk. lia.
      * intros p Hp. rewrite Ho.
        { cbn [afs_lookup]. rewrite apath_eqb_neq; [reflexivity|].
          intros E. apply (Hp 1%nat); [cbn [length]; lia|]. cbn [firstn]. symmetry. exact E. }
        intros k Hk. rewrite <- Hdec. apply Hp. cbn [length]. lia.
Qed.

Lemma mkdir_all_spec t q :
  (forall p c, nprefixb p q = true -> afs_lookup t p <> Some (AFile c)) ->
  exists t', afs_mkdir_all t q = Some t' /\
    (forall p, nprefixb p q = true -> afs_lookup t' p = Some ADir) /\
    (forall p, nprefixb p q = false -> afs_lookup t' p = afs_lookup t p).
Proof.
  intros H. destruct (mkdirs_spec q t []) as (t' & Hm & Hd & Ho).
  { intros k c Hk. cbn [app]. apply H. apply nprefix_iff. exists k. auto. }
  exists t'. split; [exact Hm|]. split.
  - intros p Hp. apply nprefix_iff in Hp as (k & Hk & ->). apply (Hd k Hk).
  - intros p Hp. apply Ho. intros k Hk E. cbn [app] in E.
    assert (nprefixb p q = true) by (apply nprefix_iff; exists k; auto). congruence.
Qed.

Lemma proper_prefix_removelast p q : q <> [] ->
  apath_prefix p (removelast q) = apath_proper_prefix p q.
Proof.
  intros Hq. unfold apath_proper_prefix.
  assert (Hlen : (1 <= length q)%nat) by (destruct q; [contradiction|cbn [length]; lia]).
  rewrite removelast_firstn_len.
  destruct (apath_prefix p (firstn (pred (length q)) q)) eqn:E1.
  - apply prefix_iff in E1 as [H1 H2]. rewrite firstn_length_le in H1 by lia.
    rewrite firstn_firstn in H2. rewrite Nat.min_l in H2 by lia.
    symmetry. apply andb_true_intro. split.
    + apply prefix_iff. split; [lia|exact H2].
    + rewrite apath_eqb_neq; [reflexivity|]. intros ->. lia.
  - symmetry. destruct (apath_prefix p q) eqn:E2; [|reflexivity]. cbn [andb].
    destruct (apath_eqb p q) eqn:E3; [reflexivity|]. exfalso.
    apply prefix_iff in E2 as [H1 H2].
    assert (Hlt : (length p <= pred (length q))%nat).
    { destruct (Nat.eq_dec (length p) (length q)) as [E|E]; [|lia].
      rewrite E, firstn_all in H2. subst p. rewrite apath_eqb_refl in E3. discriminate. }
    assert (apath_prefix p (firstn (pred (length q)) q) = true); [|congruence].
    apply prefix_iff. rewrite firstn_length_le by lia. split; [exact Hlt|].
    rewrite firstn_firstn, Nat.min_l by lia. exact H2.
Qed.

Lemma nprefix_parent p q : q <> [] -> nprefixb p (removelast q) = nonempty p && apath_proper_prefix p q.
Proof. intros Hq. unfold nprefixb. rewrite proper_prefix_removelast by exact Hq. reflexivity. Qed.

Lemma nprefix_parent_q p q : q <> [] -> nprefixb p (removelast q) = true -> nprefixb p q = true.
Proof.
  intros Hq H. rewrite nprefix_parent in H by exact Hq. unfold nprefixb, apath_proper_prefix in *.
  apply andb_prop in H as [H1 H2]. apply andb_prop in H2 as [H2 _]. rewrite H1, H2. reflexivity.
Qed.

Lemma nprefix_self_parent q : nprefixb q (removelast q) = false.
Proof.
  destruct (list_eq_dec (list_eq_dec N.eq_dec) q []) as [->|Hq]; [reflexivity|].
  rewrite nprefix_parent by exact Hq.
  unfold apath_proper_prefix. rewrite apath_eqb_refl. cbn [negb]. rewrite !andb_false_r. reflexivity.
Qed.

Lemma create_dir_spec t m : am_dir m = true -> am_path m <> [] ->
  (forall p c, nprefixb p (am_path m) = true -> afs_lookup t p <> Some (AFile c)) ->
  exists t', afs_create t m = Some (t', None) /\
    (forall p, nprefixb p (am_path m) = true -> afs_lookup t' p = Some ADir) /\
    (forall p, nprefixb p (am_path m) = false -> afs_lookup t' p = afs_lookup t p).
Proof.
  intros Hd Hq H. unfold afs_create. rewrite Hd. set (q := am_path m) in *.
  destruct (mkdir_all_spec t (removelast q)) as (t1 & Hm1 & Hd1 & Ho1).
  { intros p c Hp. apply H. apply nprefix_parent_q; assumption. }
  rewrite Hm1.
  destruct (mkdir_all_spec t1 q) as (t2 & Hm2 & Hd2 & Ho2).
  { intros p c Hp. destruct (nprefixb p (removelast q)) eqn:E.
    - rewrite (Hd1 p E). discriminate.
    - rewrite (Ho1 p E). apply H. exact Hp. }
  rewrite Hm2. exists t2. split; [reflexivity|]. split; [exact Hd2|].
  intros p Hp. rewrite (Ho2 p Hp). apply Ho1.
  destruct (nprefixb p (removelast q)) eqn:E; [|reflexivity].
  apply nprefix_parent_q in E; [congruence|exact Hq].
Qed.

Lemma create_file_spec t m : am_dir m = false ->
  (forall p c, nprefixb p (removelast (am_path m)) = true -> afs_lookup t p <> Some (AFile c)) ->
  afs_lookup t (am_path m) = None ->
  exists t1, afs_create t m = Some ((am_path m, AFile []) :: t1, Some (am_path m)) /\
    (forall p, nprefixb p (removelast (am_path m)) = true -> afs_lookup t1 p = Some ADir) /\
    (forall p, nprefixb p (removelast (am_path m)) = false -> afs_lookup t1 p = afs_lookup t p).
Proof.
  intros Hd H Hnone. unfold afs_create. rewrite Hd.
  destruct (mkdir_all_spec t (removelast (am_path m)) H) as (t1 & Hm1 & Hd1 & Ho1).
  rewrite Hm1. rewrite (Ho1 _ (nprefix_self_parent (am_path m))), Hnone.
  exists t1. auto.
Qed.

(* ---- the closed form ---- *)
Lemma find_app {A} (f : A -> bool) a b :
  find f (a ++ b) = match find f a with Some x => Some x | None => find f b end.
Proof. induction a as [|x a IH]; [reflexivity|]. cbn [app find]. destruct (f x); [reflexivity|exact IH]. Qed.

Lemma spec_nil es : aspec_tree es [] = Some ADir.
Proof. reflexivity. Qed.

Lemma spec_cons es x p : aspec_tree es (x :: p) =
  match find (fun e => apath_eqb (ae_path e) (x :: p)) es with
  | Some e => Some (anode_of e)
  | None => if existsb (fun e => apath_proper_prefix (x :: p) (ae_path e)) es then Some ADir else None
  end.
Proof. reflexivity. Qed.

Lemma spec_snoc done e x p : aspec_tree (done ++ [e]) (x :: p) =
  match find (fun e => apath_eqb (ae_path e) (x :: p)) done with
  | Some y => Some (anode_of y)
  | None =>
    if apath_eqb (ae_path e) (x :: p) then Some (anode_of e)
    else if existsb (fun e => apath_proper_prefix (x :: p) (ae_path e)) done
            || apath_proper_prefix (x :: p) (ae_path e) then Some ADir else None
  end.
Proof.
  rewrite spec_cons, find_app, existsb_app. destruct (find _ done); [reflexivity|].
  cbn [find existsb]. destruct (apath_eqb (ae_path e) (x :: p)); [reflexivity|]. rewrite orb_false_r. reflexivity.
Qed.

Lemma find_path_none done q : ~ In q (map ae_path done) ->
  find (fun e => apath_eqb (ae_path e) q) done = None.
Proof.
  induction done as [|y done IH]; [reflexivity|]. cbn [map In find]. intros H.
  rewrite apath_eqb_neq by tauto. apply IH. tauto.
Qed.

Lemma build_step done e t :
  (forall p, afs_lookup t p = aspec_tree done p) ->
  ae_path e <> [] -> ~ In (ae_path e) (map ae_path done) ->
  (forall y, In y done -> ae_dir y = false -> apath_proper_prefix (ae_path y) (ae_path e) = false) ->
  (ae_dir e = false -> forall y, In y done -> apath_proper_prefix (ae_path e) (ae_path y) = false) ->
  exists t', abuild1 t e = Some t' /\ forall p, afs_lookup t' p = aspec_tree (done ++ [e]) p.
Proof.
  intros Inv Hq Hnew Hup Hdown. set (q := ae_path e) in *.
  (* a node that is found among the finished entries at a non-empty prefix of q is a directory *)
  assert (Hfound : forall p y, find (fun e => apath_eqb (ae_path e) p) done = Some y ->
                   nprefixb p q = true -> p <> q /\ anode_of y = ADir).
  { intros p y Hf Hp. apply find_some in Hf as [Hy Hpy]. apply apath_eqb_eq in Hpy.
    assert (Hpq : p <> q). { intros ->. apply Hnew. rewrite <- Hpy. apply in_map. exact Hy. }
    split; [exact Hpq|]. unfold anode_of. destruct (ae_dir y) eqn:Hdy; [reflexivity|]. exfalso.
    specialize (Hup y Hy Hdy). rewrite Hpy in Hup. unfold apath_proper_prefix, nprefixb in *.
    apply andb_prop in Hp as [_ Hp]. rewrite Hp, (apath_eqb_neq p q Hpq) in Hup. discriminate. }
  assert (Hnofile : forall p c, nprefixb p q = true -> afs_lookup t p <> Some (AFile c)).
  { intros p c Hp. rewrite Inv. destruct p as [|x p]; [discriminate|]. rewrite spec_cons.
    destruct (find _ done) as [y|] eqn:Hf.
    - destruct (Hfound _ _ Hf Hp) as [_ ->]. discriminate.
    - destruct (existsb _ done); discriminate. }
  assert (Hsplit : forall x p, apath_eqb q (x :: p) = false ->
            apath_proper_prefix (x :: p) q = nprefixb (x :: p) q).
  { intros x p E. unfold apath_proper_prefix, nprefixb. cbn [nonempty andb].
    destruct (apath_eqb (x :: p) q) eqn:E2; [|apply andb_true_r].
    apply apath_eqb_eq in E2. rewrite E2, apath_eqb_refl in E. discriminate. }
  unfold abuild1. destruct (ae_dir e) eqn:Hde.
  - (* a directory *)
    destruct (create_dir_spec t (ae_meta e) Hde Hq Hnofile) as (t' & Hc & Hd & Ho).
    rewrite Hc. exists t'. split; [reflexivity|]. intros [|x p].
    + rewrite Ho by reflexivity. rewrite Inv. reflexivity.
    + rewrite spec_snoc. fold q. destruct (find _ done) as [y|] eqn:Hf.
      * destruct (nprefixb (x :: p) q) eqn:Hp.
        { rewrite (Hd _ Hp). destruct (Hfound _ _ Hf Hp) as [_ ->]. reflexivity. }
        rewrite (Ho _ Hp), Inv, spec_cons, Hf. reflexivity.
      * destruct (apath_eqb q (x :: p)) eqn:E.
        { apply apath_eqb_eq in E. rewrite <- E. rewrite Hd.
          - unfold anode_of. rewrite Hde. reflexivity.
          - unfold nprefixb. rewrite prefix_refl. destruct q; [contradiction|reflexivity]. }
        rewrite (Hsplit x p E). destruct (nprefixb (x :: p) q) eqn:Hp.
        { rewrite (Hd _ Hp), orb_true_r. reflexivity. }
        rewrite (Ho _ Hp), orb_false_r, Inv, spec_cons, Hf. reflexivity.
  - (* a file *)
    assert (Hnone : afs_lookup t q = None).
    { rewrite Inv. destruct q as [|x q'] eqn:Eq; [contradiction|]. rewrite spec_cons.
      rewrite <- Eq in *. rewrite (find_path_none done q Hnew).
      destruct (existsb (fun e0 => apath_proper_prefix q (ae_path e0)) done) eqn:Hex; [|reflexivity].
      apply existsb_exists in Hex as (y & Hy & Hpy). rewrite (Hdown eq_refl y Hy) in Hpy. discriminate. }
    destruct (create_file_spec t (ae_meta e) Hde) as (t1 & Hc & Hd & Ho).
    { intros p c Hp. apply Hnofile. apply nprefix_parent_q; assumption. }
    { exact Hnone. }
    rewrite Hc. change (am_path (ae_meta e)) with q in *. cbn [afs_append]. rewrite apath_eqb_refl. cbn [app].
    eexists. split; [reflexivity|]. intros [|x p].
    + cbn [afs_lookup]. rewrite (apath_eqb_neq q []) by exact Hq. rewrite Ho by reflexivity. rewrite Inv. reflexivity.
    + rewrite spec_snoc. fold q. cbn [afs_lookup].
      assert (Hpar : nprefixb (x :: p) (removelast q) = apath_proper_prefix (x :: p) q).
      { rewrite nprefix_parent by exact Hq. reflexivity. }
      destruct (find _ done) as [y|] eqn:Hf.
      * destruct (nprefixb (x :: p) (removelast q)) eqn:Hp.
        { pose proof (nprefix_parent_q _ _ Hq Hp) as Hp'. destruct (Hfound _ _ Hf Hp') as [Hne ->].
          rewrite (apath_eqb_neq q (x :: p)) by congruence. rewrite (Hd _ Hp). reflexivity. }
        destruct (apath_eqb q (x :: p)) eqn:E.
        { exfalso. apply apath_eqb_eq in E. apply find_some in Hf as [Hy Hpy]. apply apath_eqb_eq in Hpy.
          apply Hnew. rewrite E, <- Hpy. apply in_map. exact Hy. }
        rewrite (Ho _ Hp), Inv, spec_cons, Hf. reflexivity.
      * destruct (apath_eqb q (x :: p)) eqn:E.
        { unfold anode_of. rewrite Hde. reflexivity. }
        rewrite <- Hpar. destruct (nprefixb (x :: p) (removelast q)) eqn:Hp.
        { rewrite (Hd _ Hp), orb_true_r. reflexivity. }
        rewrite (Ho _ Hp), orb_false_r, Inv, spec_cons, Hf. reflexivity.
Qed.

Lemma build_spec : forall rest done t, awf_tree (done ++ rest) ->
  (forall p, afs_lookup t p = aspec_tree done p) ->
  exists t', abuild t rest = Some t' /\ forall p, afs_lookup t' p = aspec_tree (done ++ rest) p.
Proof.
  induction rest as [|e rest IH]; intros done t Hwf Inv.
  - exists t. rewrite app_nil_r. auto.
  - destruct Hwf as (Hnd & Hne & Hpre).
    assert (Hin : In e (done ++ e :: rest)) by (apply in_or_app; right; left; reflexivity).
    destruct (build_step done e t Inv) as (t1 & Hb & Inv1).
    + apply Hne. exact Hin.
    + rewrite map_app in Hnd. cbn [map] in Hnd. apply NoDup_remove_2 in Hnd.
      intros H. apply Hnd. apply in_or_app. left. exact H.
    + intros y Hy Hdy. apply Hpre; [apply in_or_app; left; exact Hy|exact Hin|exact Hdy].
    + intros Hde y Hy. apply Hpre; [exact Hin|apply in_or_app; left; exact Hy|exact Hde].
    + cbn [abuild]. rewrite Hb.
      destruct (IH (done ++ [e]) t1) as (t' & Hb' & Inv').
      { rewrite <- app_assoc. exact (conj Hnd (conj Hne Hpre)). }
      { exact Inv1. }
      exists t'. split; [exact Hb'|]. intros p. rewrite Inv', <- app_assoc. reflexivity.
Qed.

Lemma build_tree es : awf_tree es ->
  exists t, abuild afs0 es = Some t /\ forall p, afs_lookup t p = aspec_tree es p.
Proof.
  intros Hwf. apply (build_spec es [] afs0 Hwf). intros [|x p]; reflexivity.
Qed.

(* ==================================================================================== *)
Section ArchiveFinal.
Variable hdr : ameta -> list byte.
Variable parse : list byte -> option ameta.

(* C15_writer: every segmentation of the stream rebuilds exactly the tree (with or without
   the descriptor fix) *)
Theorem writer_ok fixed es ws : awf_tree es -> Forall (fun e => aentry_ok e = true) es ->
  Forall (hdr_ok hdr parse) es -> concat ws = astream hdr es ->
  exists st, aw_writer_run parse fixed ws = AwDone st /\
    forall p, afs_lookup (aw_fs (aw_close st)) p = aspec_tree es p.
Proof.
  intros Hwf Hok Hh Hcat. unfold aw_writer_run. rewrite run_wfold, Hcat.
  destruct (build_tree es Hwf) as (t & Hb & Ht).
  pose proof (wfold_stream hdr parse fixed es aw_init eq_refl eq_refl Hok Hh) as H.
  cbn [aw_fs aw_init] in H. rewrite Hb in H. destruct H as (st & Hw & Hfs & _ & _).
  exists st. split; [exact Hw|]. intros p. rewrite <- Ht, <- Hfs.
  unfold aw_close. destruct (aw_file st); reflexivity.
Qed.

(* C15_roundtrip *)
Theorem roundtrip fixed es sizes dflt ws :
  awf_tree es -> Forall (fun e => aentry_ok e = true) es -> Forall (hdr_ok hdr parse) es ->
  Forall (fun s => 1 <= s)%nat sizes -> (1 <= dflt)%nat ->
  exists outs rst, ar_reader_run hdr es sizes dflt = (outs, ArEndEof, rst) /\
    (concat ws = concat outs ->
     exists st, aw_writer_run parse fixed ws = AwDone st /\
       forall p, afs_lookup (aw_fs (aw_close st)) p = aspec_tree es p).
Proof.
  intros Hwf Hok Hh Hs Hd.
  destruct (reader_ok hdr es sizes dflt Hok Hs Hd) as (outs & rst & Hr & Hc & _).
  exists outs, rst. split; [exact Hr|]. intros Hcat. apply writer_ok; [assumption|assumption|assumption|congruence].
Qed.

(* the boolean the correspondence run evaluates on the real encoder's and decoder's results
   implies the hypothesis of C15_writer / C15_roundtrip / C15_mode_tree *)
Lemma ameta_eqb_eq a b : ameta_eqb a b = true -> a = b.
Proof.
  unfold ameta_eqb. intros H. apply andb_prop in H as [H H3]. apply andb_prop in H as [H1 H2].
  apply apath_eqb_eq in H1. apply Bool.eqb_prop in H2. apply Z.eqb_eq in H3.
  destruct a, b. cbn in *. congruence.
Qed.

Lemma ahdr_okb_ok e : ahdr_okb hdr parse e = true -> hdr_ok hdr parse e.
Proof.
  unfold ahdr_okb, hdr_ok. intros H. apply andb_prop in H as [H1 H2]. split.
  - destruct (parse (hdr (ae_meta e))) as [m|]; [|discriminate]. apply ameta_eqb_eq in H1. congruence.
  - apply negb_true_iff in H2. intros Hin.
    assert (existsb (N.eqb ANL) (hdr (ae_meta e)) = true); [|congruence].
    apply existsb_exists. exists ANL. split; [exact Hin|apply N.eqb_refl].
Qed.

Theorem ahdr_okb_all es : forallb (ahdr_okb hdr parse) es = true -> Forall (hdr_ok hdr parse) es.
Proof.
  intros H. apply Forall_forall. intros e He. apply ahdr_okb_ok.
  rewrite forallb_forall in H. apply H. exact He.
Qed.

End ArchiveFinal.

(* the unfixed writer: two file entries leave two descriptors open at once, k entries k *)
Definition refute_parse (b : list byte) : option ameta :=
  match b with
  | [c] => Some (mkAMeta [[c]] false 0)
  | _ => None
  end.

Lemma fds_unfixed_refuted :
  exists parse ws st, writer_unfixed parse ws = AwDone st /\ (aw_peak st > 1)%nat /\ aw_peak st = 5%nat /\
                      aw_fds (aw_close st) = 4%nat.
Proof.
  exists refute_parse, [[97; 10; 98; 10]; [99; 10; 100]; [10; 101; 10]]. eexists. vm_compute. repeat split; lia.
Qed.

(* ==================================================================================== *)
(* a destination that fails *)
Section ArchiveFaults.
Variable parse : list byte -> option ameta.
Variable full : apath -> bool.

(* every Write of a non-empty slice that succeeds consumes at least one byte *)
Lemma aw_write_progress fixed st p n st' : p <> [] ->
  aw_write parse fixed st p = AwOk n st' -> (1 <= n)%nat.
Proof.
  intros Hp. assert (Hl : (1 <= length p)%nat) by (destruct p; [contradiction|cbn [length]; lia]).
  unfold aw_write.
  destruct (Z.ltb_spec 0 (aw_left st)) as [Hleft|Hleft]; destruct (aw_file st) as [h|];
    try (intros H; injection H as <- _; lia).
  all: destruct (index_byte ASPLIT p) as [idx|]; try (intros H; injection H as <- _; exact Hl).
  all: destruct (parse (aw_buf st ++ firstn idx p)) as [m|]; try discriminate.
  all: cbn zeta; destruct (afs_create (aw_fs st) m) as [[t' f']|]; try discriminate.
  all: intros H; injection H as Hn _; pose proof extra_one as He; lia.
Qed.

Lemma aw_write_f_progress fixed st p n st' : p <> [] ->
  aw_write_f parse full fixed st p = AwOk n st' -> (1 <= n)%nat.
Proof.
  intros Hp. unfold aw_write_f.
  destruct (0 <? aw_left st)%Z; destruct (aw_file st) as [h|]; try apply aw_write_progress; try exact Hp.
  destruct (full h && nonempty p); [discriminate|]. apply aw_write_progress. exact Hp.
Qed.

(* C15_write_error_surfaces: the failing write is an ERROR outcome of Write - nothing consumed,
   the state unchanged - not a success with count 0 *)
Theorem write_error_surfaces fixed st p h :
  aw_file st = Some h -> (0 < aw_left st)%Z -> full h = true -> p <> [] ->
  aw_write_f parse full fixed st p = AwErr AwEWrite st.
Proof.
  intros Hf Hl Hfull Hp. unfold aw_write_f. rewrite Hf, Hfull.
  destruct (Z.ltb_spec 0 (aw_left st)); [|lia]. destruct p; [contradiction|reflexivity].
Qed.

(* C15_write_all_terminates: writeAll over the archive writer always returns - with the data
   written or with the writer's error - whatever the destination does: it never runs out of the
   fuel [length data] (one iteration per byte at most) *)
Theorem write_all_f_terminates fixed : forall fuel st data, (length data <= fuel)%nat ->
  aw_wa_f parse full fuel fixed st data <> AwFuel.
Proof.
  induction fuel as [|fuel IH]; intros st data Hlen.
  - destruct data; [discriminate|cbn [length] in Hlen; lia].
  - destruct data as [|b r]; [discriminate|]. cbn [aw_wa_f].
    destruct (aw_write_f parse full fixed st (b :: r)) as [n st'|e st'] eqn:Hw; [|discriminate].
    apply aw_write_f_progress in Hw; [|discriminate]. apply IH.
    rewrite skipn_length. cbn [length] in *. lia.
Qed.

Theorem run_f_terminates fixed : forall ws st, aw_run_f parse full fixed st ws <> AwFuel.
Proof.
  induction ws as [|w ws IH]; intros st; [discriminate|]. cbn [aw_run_f].
  destruct (aw_write_all_f parse full fixed st w) eqn:E; try discriminate; [apply IH|].
  exfalso. revert E. apply write_all_f_terminates. lia.
Qed.

(* with a destination that never fails the faulty-destination writer is the writer *)
Lemma aw_write_f_nofault fixed st p : (forall h, full h = false) -> aw_write_f parse full fixed st p = aw_write parse fixed st p.
Proof.
  intros H. unfold aw_write_f. destruct (0 <? aw_left st)%Z; destruct (aw_file st) as [h|]; try reflexivity.
  rewrite H. reflexivity.
Qed.

End ArchiveFaults.

