(* C11, second half: what clientError / serverError (transfer.go) send, derived from the
   skeletons REGENERATED into Gen/Skel_errtell.v.  The error classes are finite (is it a
   *trzszError, five classes of errType, trace flag, "is the text of errStoppedAndDeleted",
   the transfer's stopAndDelete flag, did deleteCreatedFiles delete anything): the statement is
   computed for all of them (40 error classes x 8 environments: stopAndDelete flag, anything
   deleted, the tunnel window) and lifted to a universally quantified one. *)
From Coq Require Import List String Bool.
Import ListNotations.
From Trzsz Require Import Model.ErrTell Gen.Skel_errtell Gen.Skel_errcallers.
Open Scope string_scope.

Lemma all_errs_complete : forall e, In e et_all_errs.
Proof. intros [[] [] [] []]; vm_compute; tauto. Qed.
Lemma all_envs_complete : forall v, In v et_all_envs.
Proof. intros [[] [] []]; vm_compute; tauto. Qed.

Lemma client_all :
  forallb (fun e => forallb (et_client_ok errtell_preds errtell_clientError e) et_all_envs) et_all_errs = true.
Proof. vm_compute. reflexivity. Qed.
Lemma server_all :
  forallb (fun e => forallb (et_server_ok errtell_preds errtell_serverError e) et_all_envs) et_all_errs = true.
Proof. vm_compute. reflexivity. Qed.

Lemma client_tells e env : et_client_ok errtell_preds errtell_clientError e env = true.
Proof.
  pose proof client_all as H. rewrite forallb_forall in H. specialize (H e (all_errs_complete e)).
  rewrite forallb_forall in H. exact (H env (all_envs_complete env)).
Qed.
Lemma server_tells e env : et_server_ok errtell_preds errtell_serverError e env = true.
Proof.
  pose proof server_all as H. rewrite forallb_forall in H. specialize (H e (all_errs_complete e)).
  rewrite forallb_forall in H. exact (H env (all_envs_complete env)).
Qed.

Lemma acts_eqb_eq a b : et_acts_eqb a b = true -> a = b.
Proof.
  revert b. induction a as [|x s IH]; intros [|y t] H; cbn in H; try discriminate; [reflexivity|].
  apply andb_true_iff in H. destruct H as [H1 H2]. rewrite (IH t H2). f_equal.
  destruct x, y; cbn in H1; try discriminate; try reflexivity.
  - apply andb_true_iff in H1. destruct H1 as [H1 Hu]. apply andb_true_iff in H1. destruct H1 as [Hs Hn].
    apply Bool.eqb_prop in Hn. apply Bool.eqb_prop in Hu.
    destruct typ, typ0; cbn in Hs; try discriminate; congruence.
  - apply Bool.eqb_prop in H1. congruence.
Qed.

(* the readable form *)
Lemma client_ok_spec preds body e env : et_client_ok preds body e env = true ->
  snd (et_run preds body e env) = true /\ et_first_clean (fst (et_run preds body e env)) = true /\
  et_sends (fst (et_run preds body e env)) = et_client_sends e env /\
  et_count_exit (fst (et_run preds body e env)) = 0.
Proof.
  unfold et_client_ok. destruct (et_run preds body e env) as [acts ok]. cbn [fst snd]. intro H.
  repeat (apply andb_true_iff in H; destruct H as [H ?]).
  repeat split; try assumption; [apply acts_eqb_eq; assumption|apply PeanoNat.Nat.eqb_eq; assumption].
Qed.
Lemma server_ok_spec preds body e env : et_server_ok preds body e env = true ->
  snd (et_run preds body e env) = true /\ et_first_clean (fst (et_run preds body e env)) = true /\
  et_sends (fst (et_run preds body e env)) = et_server_sends e env /\
  et_last_exit (fst (et_run preds body e env)) = true /\ et_count_exit (fst (et_run preds body e env)) = 1.
Proof.
  unfold et_server_ok. destruct (et_run preds body e env) as [acts ok]. cbn [fst snd]. intro H.
  repeat (apply andb_true_iff in H; destruct H as [H ?]).
  repeat split; try assumption; [apply acts_eqb_eq; assumption|apply PeanoNat.Nat.eqb_eq; assumption].
Qed.

Definition tells_peer_stmt (preds : list et_pred) (cbody sbody : list et_stmt) : Prop := forall e env,
  (snd (et_run preds cbody e env) = true /\ et_first_clean (fst (et_run preds cbody e env)) = true /\
   et_sends (fst (et_run preds cbody e env)) = et_client_sends e env /\
   et_count_exit (fst (et_run preds cbody e env)) = 0) /\
  (snd (et_run preds sbody e env) = true /\ et_first_clean (fst (et_run preds sbody e env)) = true /\
   et_sends (fst (et_run preds sbody e env)) = et_server_sends e env /\
   et_last_exit (fst (et_run preds sbody e env)) = true /\ et_count_exit (fst (et_run preds sbody e env)) = 1).

Theorem tells_peer : tells_peer_stmt errtell_preds errtell_clientError errtell_serverError.
Proof.
  intros e env. split; [apply client_ok_spec, client_tells|apply server_ok_spec, server_tells].
Qed.

(* a side that is not the victim of a line of its peer sends exactly one fail / FAIL line on
   the writer in force; the server, exactly in the tunnel window, the same line once more on
   the accepted tunnel connection *)
Lemma one_line_of e env (x : list et_act) : et_victim e = false ->
  (x = et_client_sends e env -> exists w n, x = [ASend w n false] /\ (w = WFail \/ w = WFAIL)) /\
  (x = et_server_sends e env -> exists w, (w = WFail \/ w = WFAIL) /\
     x = ASend w false false :: (if et_window env then [ASend w false true] else [])).
Proof.
  intro Hv. unfold et_client_sends, et_server_sends, et_word_of. rewrite Hv. split; intros ->.
  - destruct (et_flag env && et_deleted env); [exists WFail, true; auto|].
    destruct (et_traceback e); [exists WFAIL, false|exists WFail, false]; auto.
  - destruct (et_traceback e); [exists WFAIL|exists WFail]; auto.
Qed.

Corollary not_victim_sends_one : forall e env, et_victim e = false ->
  (exists w n, et_sends (fst (et_run errtell_preds errtell_clientError e env)) = [ASend w n false] /\ (w = WFail \/ w = WFAIL)) /\
  (exists w, (w = WFail \/ w = WFAIL) /\
     et_sends (fst (et_run errtell_preds errtell_serverError e env)) =
       ASend w false false :: (if et_window env then [ASend w false true] else [])).
Proof.
  intros e env Hv. destruct (tells_peer e env) as [[_ [_ [Hc _]]] [_ [_ [Hs _]]]].
  split; [apply (proj1 (one_line_of e env _ Hv) Hc)|apply (proj2 (one_line_of e env _ Hv) Hs)].
Qed.

Corollary victim_sends_nothing : forall e env, et_victim e = true ->
  et_sends (fst (et_run errtell_preds errtell_clientError e env)) = [] /\
  et_sends (fst (et_run errtell_preds errtell_serverError e env)) = [].
Proof.
  intros e env Hv. destruct (tells_peer e env) as [[_ [_ [Hc _]]] [_ [_ [Hs _]]]].
  rewrite Hc, Hs. unfold et_client_sends, et_server_sends. rewrite Hv. split; reflexivity.
Qed.

(* where the callers hand their error over: every non-nil result of the transfer function,
   and a recovered panic as a "panic" error with traceback.  Pinned text: a change of these
   call sites changes the generated term and breaks this lemma. *)
Definition expected_callers : list (string * list string) := [
  ("TrzszFilter.handleTrzsz", [
     "goroutine deferred | if err := recover(); err != nil | transfer.clientError(newTrzszError(fmt.Sprintf(""%v"", err), ""panic"", true)) | then end";
     "assign | if true | err = filter.downloadFiles(transfer)";
     "assign | if true | err = filter.uploadFiles(transfer, false)";
     "assign | if true | err = filter.uploadFiles(transfer, true)";
     "goroutine body | if err != nil | transfer.clientError(err) | then end"]);
  ("TrzMain", [
     "function deferred | if err := recover(); err != nil | transfer.serverError(newTrzszError(fmt.Sprintf(""%v"", err), ""panic"", true)) | then end";
     "goroutine body | if err := recvFiles(transfer, args, tmuxMode, tmuxPaneWidth); err != nil | transfer.serverError(err) | then end"]);
  ("TszMain", [
     "function deferred | if err := recover(); err != nil | transfer.serverError(newTrzszError(fmt.Sprintf(""%v"", err), ""panic"", true)) | then end";
     "goroutine body | if err := sendFiles(transfer, files, args, tmuxMode, tmuxPaneWidth); err != nil | transfer.serverError(err) | then end"])
].
Lemma callers_pinned : errtell_callers = expected_callers.
Proof. reflexivity. Qed.
