(* The bridge between the whole-transfer receiver (Model/Transfer.v) and the per-file decision
   model (Model/Protocol.v), for ARBITRARY delivered message sequences (C02). *)
From Coq Require Import ZArith Lia List.
From Trzsz Require Import Base.Bytes Gen.Consts Model.Path Model.Fs Model.Names Model.Wire
  Model.Transfer Model.Protocol Model.FaultTie Proofs.Protocol.
From Trzsz Require Model.Resume.
Import ListNotations.

Section FaultTieProofs.
Variable digest : Type.
Variable H : list byte -> digest.
Variable deq : digest -> digest -> bool.
Hypothesis deq_spec : forall a b, deq a b = true <-> a = b.
Variable zdecomp : list byte -> option (list byte).
Variable unzl : list byte -> option (list byte).
Variable hx : list byte -> Resume.digest.
Variable aparse : list byte -> option (src * Z).

Notation msg := (tr_msg digest).
Notation receiver := (tr_receiver digest H deq zdecomp unzl hx aparse).
Notation feed := (ft_feed digest H deq zdecomp unzl hx aparse).
Notation run := (ft_run digest H deq zdecomp unzl hx aparse).
Notation line_of := (ft_line digest).
Notation dec := (ft_decode zdecomp).
Notation dec1 := (ft_decode1 unzl).
Notation rv2 c cp := (recv_v2_sched digest H deq (dec c cp) None).   (* = recv_v2 for every schedule: Proofs/Protocol.v recv_v2_eq *)
Notation rv1 c := (recv_v1 digest H deq (dec1 c)).
Notation ghost := (ft_ghost digest).
Notation saved := (ft_saved digest).

(* ---------- the ghost does not influence the machine ---------- *)
Lemma ft_run_feed c dest : forall ms st g,
  feed c dest st ms = (fst (fst (run c dest st g ms)), snd (fst (run c dest st g ms))).
Proof.
  induction ms as [|m r IH]; intros st g; cbn [ft_feed ft_run]; [reflexivity|].
  destruct (receiver c dest st m) as [st1 outs].
  rewrite (IH st1 (ft_ghost_step digest c st m g)).
  destruct (run c dest st1 (ft_ghost_step digest c st m g) r) as [[st2 outs2] svs]. reflexivity.
Qed.

(* ---------- SUCC:<digest> is written only in answer to an MD5 message that matches ---------- *)
Definition no_digest (outs : list msg) : Prop := forall x, ~ In (TrSuccDigest digest x) outs.

Lemma nd_nil : no_digest []. Proof. intros x []. Qed.
Lemma nd_app a b : no_digest a -> no_digest b -> no_digest (a ++ b).
Proof. intros A B x I. apply in_app_or in I. destruct I as [I|I]; [exact (A x I) | exact (B x I)]. Qed.
Lemma nd_cons m outs : ft_is_digest digest m = false -> no_digest outs -> no_digest (m :: outs).
Proof. intros E A x [I|I]; [subst m; discriminate | exact (A x I)]. Qed.
Lemma nd_map_int l : no_digest (map (TrSuccInt digest) l).
Proof. intros x I. apply in_map_iff in I. destruct I as (y & E & _). discriminate. Qed.

Lemma nd_next c left fst_ names sch : no_digest (snd (tr_r_next digest c left fst_ names sch)).
Proof.
  unfold tr_r_next. destruct left; [destruct (tc_upload c)|]; cbn [snd]; try apply nd_nil.
  apply nd_cons; [reflexivity | apply nd_nil].
Qed.

Lemma nd_done c st fst_ outs : no_digest outs -> no_digest (snd (tr_r_done digest c st fst_ outs)).
Proof.
  intro A. unfold tr_r_done.
  pose proof (nd_next c (pred (rs_left st)) fst_ (rs_names st) (tl (rs_sched st))) as B.
  destruct (tr_r_next digest c (pred (rs_left st)) fst_ (rs_names st) (tl (rs_sched st))) as [st' outs'].
  cbn [snd] in *. apply nd_app; assumption.
Qed.

Lemma nd_fail st : no_digest (snd (tr_r_fail digest st)).
Proof. cbn. apply nd_cons; [reflexivity | apply nd_nil]. Qed.

Lemma nd_name c dest st p : no_digest (snd (tr_r_name digest c dest st p)).
Proof.
  unfold tr_r_name. destruct (tr_create c dest p [] (rs_st st)) as [[ln|] st1]; [|apply nd_fail].
  assert (R : forall tsize, no_digest [if tr_json_names c then TrSuccTarget digest ln tsize else TrSuccName digest ln]).
  { intro ts. apply nd_cons; [destruct (tr_json_names c); reflexivity | apply nd_nil]. }
  destruct (tr_p_archive p); [cbn [snd]; apply R|].
  destruct (tr_p_isdir p); [apply nd_done; apply R|].
  destruct (tr_json_names c && (0 <? _)); cbn [snd]; apply R.
Qed.

(* the answers to HASH records are no digest replies *)
Lemma nd_map_hack l : no_digest (map (tr_hack digest) l).
Proof. intros x I. apply in_map_iff in I. destruct I as (y & E & _). discriminate. Qed.

Lemma nd_hash st p leaf old sz r step h : no_digest (snd (tr_r_hash digest hx st p leaf old sz r step h)).
Proof.
  unfold tr_r_hash. destruct (Resume.recv_hashes _ _ _ _ _); try apply nd_fail. cbn [snd]. apply nd_map_hack.
Qed.

Lemma nd_size c st p n : no_digest (snd (tr_r_size digest c st p n)).
Proof.
  unfold tr_r_size. destruct (tr_rest_mismatch st n); [cbn [snd]; apply nd_cons; [reflexivity | apply nd_cons; [reflexivity | apply nd_nil]]|].
  destruct (tr_pipeline c).
  - destruct (tr_is_compress_fixed c n) as [[|] cp]; cbn [snd]; (apply nd_cons; [reflexivity | apply nd_nil]).
  - destruct (0 <? n); cbn [snd]; (apply nd_cons; [reflexivity | apply nd_nil]).
Qed.

Lemma nd_frame c st p size cp acc steps f : no_digest (snd (tr_r_frame digest zdecomp aparse c st p size cp acc steps f)).
Proof.
  unfold tr_r_frame. destruct f as [|b f]; [|cbn [snd]; apply nd_cons; [reflexivity | apply nd_nil]].
  destruct (wire_decode _ _ _ _ _ _ _) as [w|]; [|apply nd_fail].
  destruct (tr_blen w =? size); [|apply nd_fail].
  destruct (tr_p_archive p && _); [apply nd_fail|]. cbn [snd].
  apply nd_app; [apply nd_cons; [reflexivity | apply nd_nil]|].
  apply nd_app; [apply nd_map_int | apply nd_cons; [reflexivity | apply nd_nil]].
Qed.

Lemma nd_v1 c st p size w pl : no_digest (snd (tr_r_v1 digest unzl c st p size w pl)).
Proof.
  unfold tr_r_v1. destruct (wire_v1_decode _ _ _ _) as [ch|]; [|apply nd_fail].
  cbn [snd]. apply nd_cons; [reflexivity | apply nd_nil].
Qed.

Ltac nd_tac :=
  let I := fresh "I" in
  intro I; exfalso; revert I;
  first [apply nd_fail | apply nd_name | apply nd_size | apply nd_frame | apply nd_v1 | apply nd_hash | apply nd_nil].

Lemma ft_digest_answer c dest st m x :
  In (TrSuccDigest digest x) (snd (receiver c dest st m)) ->
  exists p w d, rs_phase st = RpMd5 p w /\ m = TrMd5 digest d /\ deq d (H w) = true /\ x = H w.
Proof.
  unfold tr_receiver.
  destruct (rs_phase st) as [| |p lf od|p lf od sz rr|p|p size|p size cp acc steps|p size w|p w| | |] eqn:Ph;
    try nd_tac.
  all: destruct m as [mn|mp|mn|mb|mf|md|mnames|hs hh| |mn|mnm|mnm msz|mlen mstp|md|hs hm| |]; try nd_tac.
  - (* RpNum, TrNum *)
    intro I. exfalso. revert I.
    pose proof (nd_next c (N.to_nat mn) (rs_st st) (rs_names st) (rs_sched st)) as B.
    destruct (tr_r_next digest c (N.to_nat mn) (rs_st st) (rs_names st) (rs_sched st)) as [st' outs].
    cbn [snd] in *. apply nd_cons; [reflexivity | exact B].
  - (* RpMd5, TrMd5 *)
    unfold tr_r_md5. destruct (deq md (H w)) eqn:Q; [|nd_tac].
    destruct (tr_complete aparse c dest st p w) as [st2|]; [|nd_tac].
    intro I. exists p, w, md. split; [reflexivity|]. split; [reflexivity|]. split; [exact Q|].
    unfold tr_r_done in I.
    pose proof (nd_next c (pred (rs_left st)) st2 (rs_names st) (tl (rs_sched st))) as B.
    destruct (tr_r_next digest c (pred (rs_left st)) st2 (rs_names st) (tl (rs_sched st))) as [st' outs'].
    cbn [snd app] in I, B. destruct I as [I|I]; [inversion I; reflexivity | exfalso; exact (B x I)].
Qed.

(* ---------- the invariant that ties the machine's phase to the per-file decision model ---------- *)
Definition md5_tail (w : list byte) (rest : list (line digest)) : verdict :=
  match rest with
  | LMd5 _ d :: _ => if deq d (H w) then Accept w else Reject
  | [] => Waiting
  | _ => Reject
  end.

Definition ft_inv (c : tr_cfg) (st : tr_rstate) (g : ghost) : Prop :=
  match rs_phase st with
  | RpComp _ size => tr_pipeline c = true /\ size = fg_size digest g
  | RpData _ size cp acc _ =>
    tr_pipeline c = true /\ size = fg_size digest g /\ cp = fg_cp digest g /\
    forall rest, rv2 c cp (Z.of_N size) [] (map line_of (fg_msgs digest g) ++ rest) = rv2 c cp (Z.of_N size) acc rest
  | RpV1 _ size w =>
    tr_pipeline c = false /\ size = fg_size digest g /\ (tr_blen w <? size) = true /\
    forall fuel rest, rv1 c (length (fg_msgs digest g) + fuel) (Z.of_N size) [] (map line_of (fg_msgs digest g) ++ rest)
                      = rv1 c fuel (Z.of_N size) w rest
  | RpMd5 _ w =>
    if tr_pipeline c then
      tr_blen w = fg_size digest g /\
      forall rest, rv2 c (fg_cp digest g) (Z.of_N (fg_size digest g)) [] (map line_of (fg_msgs digest g) ++ rest) = md5_tail w rest
    else
      (tr_blen w <? fg_size digest g) = false /\
      forall fuel rest, rv1 c (length (fg_msgs digest g) + fuel) (Z.of_N (fg_size digest g)) [] (map line_of (fg_msgs digest g) ++ rest)
                        = md5_tail w rest
  | _ => True
  end.

Lemma blen_eqb w size : (Z.of_nat (length w) =? Z.of_N size)%Z = (tr_blen w =? size).
Proof.
  unfold tr_blen. rewrite <- nat_N_Z.
  destruct (N.eqb_spec (N.of_nat (length w)) size) as [E|E].
  - rewrite E. apply Z.eqb_refl.
  - apply Z.eqb_neq. intro E2. apply N2Z.inj in E2. contradiction.
Qed.

Lemma blen_ltb w size : (Z.of_nat (length w) <? Z.of_N size)%Z = (tr_blen w <? size).
Proof.
  unfold tr_blen.
  destruct (Z.ltb_spec (Z.of_nat (length w)) (Z.of_N size)); destruct (N.ltb_spec (N.of_nat (length w)) size);
    try reflexivity; lia.
Qed.

Lemma rv1_md5 c fuel size w rest : (tr_blen w <? size) = false -> rv1 c fuel (Z.of_N size) w rest = md5_tail w rest.
Proof.
  intro L. destruct fuel; cbn [recv_v1]; rewrite blen_ltb, L; unfold md5_tail;
    destruct rest as [|[f|d| |] rest]; reflexivity.
Qed.

Lemma inv_phase_trivial c st g : (match rs_phase st with
    | RpNum | RpName | RpHSize _ _ _ | RpHash _ _ _ _ _ | RpSize _ | RpExit | RpDone | RpFail => True | _ => False end) -> ft_inv c st g.
Proof. unfold ft_inv. destruct (rs_phase st); intro F; try exact I; contradiction. Qed.

Lemma inv_fail c st g : ft_inv c (fst (tr_r_fail digest st)) g.
Proof. apply inv_phase_trivial. exact I. Qed.

Lemma next_phase c left fst_ names sch :
  match rs_phase (fst (tr_r_next digest c left fst_ names sch)) with
  | RpName | RpExit | RpDone => True | _ => False end.
Proof. unfold tr_r_next. destruct left; [destruct (tc_upload c)|]; exact I. Qed.

Lemma inv_next c left fst_ names sch g : ft_inv c (fst (tr_r_next digest c left fst_ names sch)) g.
Proof.
  apply inv_phase_trivial. pose proof (next_phase c left fst_ names sch) as P.
  destruct (rs_phase _); try exact I; contradiction.
Qed.

Lemma inv_done c st fst_ outs g : ft_inv c (fst (tr_r_done digest c st fst_ outs)) g.
Proof.
  unfold tr_r_done. pose proof (inv_next c (pred (rs_left st)) fst_ (rs_names st) (tl (rs_sched st)) g) as P.
  destruct (tr_r_next digest c (pred (rs_left st)) fst_ (rs_names st) (tl (rs_sched st))). exact P.
Qed.

Lemma inv_name c dest st p g : ft_inv c (fst (tr_r_name digest c dest st p)) g.
Proof.
  unfold tr_r_name. destruct (tr_create c dest p [] (rs_st st)) as [[ln|] st1]; [|apply inv_fail].
  destruct (tr_p_archive p); [apply inv_phase_trivial; exact I|].
  destruct (tr_p_isdir p); [apply inv_done|].
  destruct (tr_json_names c && (0 <? _)); [destruct (tc_proto c <? _)|]; apply inv_phase_trivial; exact I.
Qed.

Ltac inv_easy := first [solve [apply inv_phase_trivial; exact I] | solve [apply inv_fail]].

Lemma ft_inv_step c dest st m g :
  ft_inv c st g -> ft_inv c (fst (receiver c dest st m)) (ft_ghost_step digest c st m g).
Proof.
  intro Inv. unfold tr_receiver, ft_ghost_step. unfold ft_inv in Inv.
  destruct (rs_phase st) as [| |p lf od|p lf od sz rr|p|p size|p size cp acc steps|p size w|p w| | |] eqn:Ph.
  - (* RpNum *)
    destruct m as [mn|mp|mn|mb|mf|md|mnames|hs hh| |mn|mnm|mnm msz|mlen mstp|md|hs hm| |]; try inv_easy.
    pose proof (inv_next c (N.to_nat mn) (rs_st st) (rs_names st) (rs_sched st)) as P.
    destruct (tr_r_next digest c (N.to_nat mn) (rs_st st) (rs_names st) (rs_sched st)). apply P.
  - (* RpName *)
    destruct m as [mn|mp|mn|mb|mf|md|mnames|hs hh| |mn|mnm|mnm msz|mlen mstp|md|hs hm| |]; try inv_easy. apply inv_name.
  - (* RpHSize: the source size of a resume, not echoed *)
    destruct m as [mn|mp|mn|mb|mf|md|mnames|hs hh| |mn|mnm|mnm msz|mlen mstp|md|hs hm| |]; inv_easy.
  - (* RpHash: HASH records and Over *)
    destruct m as [mn|mp|mn|mb|mf|md|mnames|hs hh| |mn|mnm|mnm msz|mlen mstp|md|hs hm| |]; try inv_easy.
    unfold tr_r_hash. destruct (Resume.recv_hashes _ _ _ _ _); inv_easy.
  - (* RpSize *)
    destruct m as [mn|mp|mn|mb|mf|md|mnames|hs hh| |mn|mnm|mnm msz|mlen mstp|md|hs hm| |]; try inv_easy.
    unfold tr_r_size. destruct (tr_rest_mismatch st mn); [inv_easy|]. destruct (tr_pipeline c) eqn:Pp.
    + destruct (tr_is_compress_fixed c mn) as [[|] cpx] eqn:Fx; cbn [fst snd]; unfold ft_inv; cbn.
      * repeat split; auto.
      * split; [exact Pp | reflexivity].
    + destruct (0 <? mn) eqn:Z0; cbn [fst]; unfold ft_inv; cbn; rewrite ?Pp.
      * repeat split; auto.
      * split; [exact Z0|]. intros fuel rest. apply rv1_md5. exact Z0.
  - (* RpComp *)
    destruct Inv as [Pp Es].
    destruct m as [mn|mp|mn|mb|mf|md|mnames|hs hh| |mn|mnm|mnm msz|mlen mstp|md|hs hm| |]; try inv_easy.
    unfold ft_inv; cbn. repeat split; auto.
  - (* RpData *)
    destruct Inv as (Pp & Es & Ec & Eq).
    destruct m as [mn|mp|mn|mb|mf|md|mnames|hs hh| |mn|mnm|mnm msz|mlen mstp|md|hs hm| |]; try inv_easy.
    + (* TrData *)
      unfold tr_r_frame. destruct mf as [|b f].
      * destruct (wire_decode zdecomp (tc_binary c) cp (tc_table c) acc [] tr_rdflt) as [w|] eqn:D; [|inv_easy].
        destruct (tr_blen w =? size) eqn:S; [|inv_easy].
        destruct (tr_p_archive p && _); [inv_easy|].
        cbn [fst]. unfold ft_inv; cbn. rewrite Pp. apply N.eqb_eq in S. subst size cp.
        split; [exact S|]. intro rest. rewrite map_app, <- app_assoc. cbn [map app ft_line].
        rewrite Eq. cbn [recv_v2_sched]. unfold ft_decode at 1. rewrite D.
        rewrite blen_eqb, S, N.eqb_refl. unfold md5_tail, md5_verdict.
        destruct rest as [|[f2|d2| |] rest]; reflexivity.
      * cbn [fst]. unfold ft_inv; cbn. repeat split; auto. intro rest.
        rewrite map_app, <- app_assoc. cbn [map app ft_line]. rewrite Eq. reflexivity.
    + (* TrKeepAlive *)
      cbn [fst tr_r_stay]. unfold ft_inv. rewrite Ph. cbn. repeat split; auto. intro rest.
      rewrite map_app, <- app_assoc. cbn [map app ft_line]. rewrite Eq. reflexivity.
  - (* RpV1 *)
    destruct Inv as (Pp & Es & Lt & Eq).
    destruct m as [mn|mp|mn|mb|mf|md|mnames|hs hh| |mn|mnm|mnm msz|mlen mstp|md|hs hm| |]; try inv_easy.
    unfold tr_r_v1. destruct (wire_v1_decode unzl (tc_binary c) (tc_table c) mf) as [ch|] eqn:D; [|inv_easy].
    assert (Step : forall fuel rest,
      rv1 c (length (fg_msgs digest g ++ [TrData digest mf]) + fuel) (Z.of_N size) []
          (map line_of (fg_msgs digest g ++ [TrData digest mf]) ++ rest) = rv1 c fuel (Z.of_N size) (w ++ ch) rest).
    { intros fuel rest. rewrite map_app, <- app_assoc, app_length. cbn [map app ft_line length].
      replace (length (fg_msgs digest g) + 1 + fuel)%nat with (length (fg_msgs digest g) + S fuel)%nat by lia.
      rewrite Eq. cbn [recv_v1]. rewrite blen_ltb, Lt. unfold ft_decode1 at 1. rewrite D. reflexivity. }
    cbn [fst]. destruct (tr_blen (w ++ ch) <? size) eqn:L2; unfold ft_inv; cbn; rewrite ?Pp; subst size.
    + repeat split; auto.
    + split; [exact L2|]. intros fuel rest. rewrite Step. apply rv1_md5. exact L2.
  - (* RpMd5 *)
    destruct m as [mn|mp|mn|mb|mf|md|mnames|hs hh| |mn|mnm|mnm msz|mlen mstp|md|hs hm| |]; try inv_easy.
    unfold tr_r_md5. destruct (deq md (H w)); [|inv_easy].
    destruct (tr_complete aparse c dest st p w) as [st2|]; [|inv_easy].
    apply inv_done.
  - (* RpExit *) destruct m as [mn|mp|mn|mb|mf|md|mnames|hs hh| |mn|mnm|mnm msz|mlen mstp|md|hs hm| |]; inv_easy.
  - apply inv_phase_trivial. cbn. rewrite Ph. exact I.
  - apply inv_phase_trivial. cbn. rewrite Ph. exact I.
Qed.

Lemma ft_inv_init c f0 sch : ft_inv c (tr_receiver_init f0 sch) (ft_ghost0 digest).
Proof. exact I. Qed.

Notation verdict_of := (ft_verdict digest H deq zdecomp unzl).
Notation receive := (ft_receive digest H deq zdecomp unzl hx aparse).

(* every recorded file: the machine was waiting for its MD5 message, answered it with
   SUCC:<digest>, and the per-file decision model ACCEPTS exactly the lines delivered for it,
   with exactly the content the machine wrote *)
Theorem ft_saved_bridge c dest : forall ms st g,
  ft_inv c st g -> forall sv, In sv (snd (run c dest st g ms)) ->
  rs_phase (fv_before digest sv) = RpMd5 (fv_payload digest sv) (fv_content digest sv) /\
  fst (receiver c dest (fv_before digest sv) (TrMd5 digest (fv_md5 digest sv))) = fv_after digest sv /\
  In (TrSuccDigest digest (H (fv_content digest sv)))
     (snd (receiver c dest (fv_before digest sv) (TrMd5 digest (fv_md5 digest sv)))) /\
  verdict_of c sv = Accept (fv_content digest sv).
Proof.
  induction ms as [|m r IH]; intros st g Inv sv; cbn [ft_run snd]; [intros []|].
  destruct (receiver c dest st m) as [st1 outs] eqn:R.
  pose proof (ft_inv_step c dest st m g Inv) as Inv1. rewrite R in Inv1. cbn [fst] in Inv1.
  specialize (IH st1 (ft_ghost_step digest c st m g) Inv1 sv).
  destruct (run c dest st1 (ft_ghost_step digest c st m g) r) as [[st2 outs2] svs]. cbn [snd] in *.
  intro In1. apply in_app_or in In1. destruct In1 as [In1|In1]; [|exact (IH In1)]. clear IH.
  destruct (rs_phase st) as [| |p lf od|p lf od sz rr|p|p size|p size cp acc steps|p size w|p w| | |] eqn:Ph; try (destruct In1; fail).
  destruct m as [mn|mp|mn|mb|mf|md|mnames|hs hh| |mn|mnm|mnm msz|mlen mstp|md|hs hm| |]; try (destruct In1; fail).
  destruct (existsb (ft_is_digest digest) outs) eqn:Ex; [|destruct In1].
  destruct In1 as [<-|[]]. cbn [fv_before fv_payload fv_content fv_md5 fv_after fv_size fv_cp fv_msgs].
  apply existsb_exists in Ex. destruct Ex as (o & Io & Eo). destruct o; try discriminate.
  assert (A : In (TrSuccDigest digest d) (snd (receiver c dest st (TrMd5 digest md)))) by (rewrite R; exact Io).
  destruct (ft_digest_answer c dest st _ _ A) as (p' & w' & d' & Ph' & Em & Q & Ed).
  rewrite Ph in Ph'. inversion Ph'; subst p' w'. inversion Em; subst d'. subst d.
  split; [exact Ph|]. split; [rewrite R; reflexivity|]. split; [exact A|].
  unfold ft_verdict, ft_ghost_step. rewrite Ph, recv_v2_eq. cbn [fv_size fv_cp fv_msgs fv_content fg_msgs fg_size fg_cp].
  unfold ft_inv in Inv. rewrite Ph in Inv. destruct (tr_pipeline c).
  - destruct Inv as [_ Eq]. rewrite map_app. cbn [map ft_line]. rewrite Eq. cbn [md5_tail]. rewrite Q. reflexivity.
  - destruct Inv as [_ Eq]. rewrite map_app, app_length. cbn [map ft_line length]. rewrite Eq. cbn [md5_tail]. rewrite Q. reflexivity.
Qed.

Theorem ft_receive_bridge c dest f0 sch ms sv :
  In sv (snd (receive c dest f0 sch ms)) ->
  rs_phase (fv_before digest sv) = RpMd5 (fv_payload digest sv) (fv_content digest sv) /\
  fst (receiver c dest (fv_before digest sv) (TrMd5 digest (fv_md5 digest sv))) = fv_after digest sv /\
  In (TrSuccDigest digest (H (fv_content digest sv)))
     (snd (receiver c dest (fv_before digest sv) (TrMd5 digest (fv_md5 digest sv)))) /\
  verdict_of c sv = Accept (fv_content digest sv).
Proof. exact (ft_saved_bridge c dest ms _ _ (ft_inv_init c f0 sch) sv). Qed.

(* what acceptance by the decision model means (Proofs/Protocol.v), read off the saved record *)
Theorem ft_saved_sound c dest f0 sch ms sv :
  In sv (snd (receive c dest f0 sch ms)) ->
  fv_md5 digest sv = H (fv_content digest sv) /\
  (tr_pipeline c = true -> tr_blen (fv_content digest sv) = fv_size digest sv) /\
  (tr_pipeline c = false -> fv_size digest sv <= tr_blen (fv_content digest sv)).
Proof.
  intro In1. destruct (ft_saved_bridge c dest ms _ _ (ft_inv_init c f0 sch) sv In1) as (Ph & _ & A & V).
  destruct (ft_digest_answer c dest _ _ _ A) as (p' & w' & d' & Ph' & Em & Q & _).
  rewrite Ph in Ph'. inversion Ph'; subst p' w'. inversion Em; subst d'. apply deq_spec in Q.
  split; [exact Q|]. unfold ft_verdict in V. split; intro Pp; rewrite Pp in V.
  - destruct (recv_v2_sound digest H deq deq_spec _ None _ _ _ _ V) as (_ & S & _).
    unfold tr_blen. lia.
  - destruct (recv_v1_sound digest H deq deq_spec _ _ _ _ _ _ V) as (d & _ & _ & S & _).
    unfold tr_blen. lia.
Qed.

(* C02 for the whole-transfer receiver: whatever was delivered, a file reported as saved is the
   source, unless the delivered digest value was forged to the digest of the damaged content or
   MD5 collides on the pair.  Proved THROUGH the per-file theorems of Proofs/Protocol.v. *)
Theorem ft_no_silent c dest f0 sch ms sv src :
  In sv (snd (receive c dest f0 sch ms)) ->
  unforged digest H src (fv_content digest sv) (fv_md5 digest sv) ->
  collision_free_on digest H src (fv_content digest sv) ->
  fv_content digest sv = src.
Proof.
  intros In1 U C.
  destruct (ft_saved_sound c dest f0 sch ms sv In1) as (Ed & _).
  destruct (ft_saved_bridge c dest ms _ _ (ft_inv_init c f0 sch) sv In1) as (_ & _ & _ & V).
  unfold ft_verdict in V. destruct (tr_pipeline c).
  - apply (recv_v2_no_silent digest H deq deq_spec _ None _ _ src _ V); [|exact C].
    intros d M. destruct (recv_v2_sound digest H deq deq_spec _ None _ _ _ _ V) as (_ & _ & M2).
    rewrite M2 in M. inversion M; subst d. rewrite <- Ed. exact U.
  - apply (recv_v1_no_silent digest H deq deq_spec _ _ _ _ src _ V); [|exact C].
    intros d _ E. apply U. exact Ed.
Qed.

End FaultTieProofs.
