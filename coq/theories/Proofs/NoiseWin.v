(* Lemmas about Model/Noise.v (property C16), part 2: the Windows-console reader. *)
From Trzsz Require Import Base.Bytes Gen.Consts Model.Buffer Model.Noise Proofs.Buffer Proofs.Noise.
From Coq Require Import ZArith Lia.

(* ---- the generated constants are what the noise relations talk about ---- *)
Lemma win_consts_src_ok :
  Consts.win_init_last = ESC /\ Consts.win_terminator = BANG /\ Consts.win_after_terminator = LF /\
  Consts.win_interrupt = ETX /\ Consts.win_newline = LF /\ Consts.win_move_final = 72 /\
  Consts.win_digit_lo = 48 /\ Consts.win_digit_hi = 57 /\ Consts.win_home_prev = 91 /\
  Consts.win_home_final = 72 /\ Consts.win_esc = ESC.
Proof. repeat split; reflexivity. Qed.

Lemma is_trzsz_letter_doc b : is_trzsz_letter b = proto_letter b.
Proof. reflexivity. Qed.

Lemma is_vt100_end_doc b : is_vt100_end b = is_alpha b.
Proof.
  unfold is_vt100_end, is_alpha, is_upper, is_lower, in_ranges. cbn [Consts.noise_vt100_end_ranges existsb fst snd].
  destruct (97 <=? b), (b <=? 122), (65 <=? b), (b <=? 90); reflexivity.
Qed.

(* ---- facts about classes of bytes ---- *)
Lemma proto_letter_not b : proto_letter b = true ->
  (b =? ETX) = false /\ (b =? LF) = false /\ (b =? ESC) = false /\ (b =? BANG) = false.
Proof.
  intros H. repeat split.
  - destruct (b =? ETX) eqn:E; [apply N.eqb_eq in E; subst; discriminate|reflexivity].
  - destruct (b =? LF) eqn:E; [apply N.eqb_eq in E; subst; discriminate|reflexivity].
  - destruct (b =? ESC) eqn:E; [apply N.eqb_eq in E; subst; discriminate|reflexivity].
  - destruct (b =? BANG) eqn:E; [apply N.eqb_eq in E; subst; discriminate|reflexivity].
Qed.

Lemma alpha_not f : is_alpha f = true ->
  (f =? ETX) = false /\ (f =? LF) = false /\ (f =? BANG) = false.
Proof.
  intros H. repeat split.
  - destruct (f =? ETX) eqn:E; [apply N.eqb_eq in E; subst; discriminate|reflexivity].
  - destruct (f =? LF) eqn:E; [apply N.eqb_eq in E; subst; discriminate|reflexivity].
  - destruct (f =? BANG) eqn:E; [apply N.eqb_eq in E; subst; discriminate|reflexivity].
Qed.

(* ---- win_fold ---- *)
Lemma win_fold_app : forall a b st acc,
  win_fold st acc (a ++ b) =
  match win_fold st acc a with Some (st', acc') => win_fold st' acc' b | None => None end.
Proof.
  induction a as [|x a IH]; intros b st acc; [reflexivity|].
  cbn [app win_fold]. destruct (win_byte st acc x) as [[st' acc']|]; [apply IH|reflexivity].
Qed.

(* a parameter byte inside an escape sequence only moves lastByte *)
Lemma win_byte_body lb nl dup hm ph acc c :
  is_alpha c = false -> (c =? ETX) = false -> (c =? LF) = false ->
  win_byte (mk_wst lb true nl dup hm ph) acc c = Some (mk_wst c true nl dup hm ph, acc).
Proof.
  intros A E L. unfold win_byte. cbn [w_skip w_nl w_last w_dup w_home w_prehome].
  change Consts.win_interrupt with ETX. change Consts.win_newline with LF. rewrite E, L.
  rewrite is_vt100_end_doc, A. cbn [andb negb].
  change Consts.win_home_final with 72.
  destruct (c =? 72) eqn:H72; [apply N.eqb_eq in H72; subst; discriminate|].
  rewrite andb_false_r. reflexivity.
Qed.

Definition last_or (lb : byte) (body : list byte) : byte := last body lb.

Lemma last_default_irrelevant : forall (l : list byte) x d1 d2, last (x :: l) d1 = last (x :: l) d2.
Proof.
  induction l as [|y l IH]; intros x d1 d2; [reflexivity|].
  change (last (x :: y :: l) d1) with (last (y :: l) d1).
  change (last (x :: y :: l) d2) with (last (y :: l) d2). apply IH.
Qed.

(* the rest of an escape sequence: parameter bytes and the final letter *)
Lemma win_fold_seq : forall body lb nl dup hm ph acc f,
  body_ok body = true -> is_alpha f = true ->
  win_fold (mk_wst lb true nl dup hm ph) acc (body ++ [f]) =
  Some (mk_wst f false nl
          (if (f =? 72) && is_digit (last_or lb body) then true else dup)
          (if (last_or lb body =? 91) && (f =? 72) then true else hm) ph, acc).
Proof.
  induction body as [|c body IH]; intros lb nl dup hm ph acc f Hb Hf.
  - cbn [app win_fold last_or last]. unfold win_byte. cbn [w_skip w_nl w_last w_dup w_home w_prehome].
    destruct (alpha_not _ Hf) as (E & L & _).
    change Consts.win_interrupt with ETX. change Consts.win_newline with LF. rewrite E, L.
    rewrite is_vt100_end_doc, Hf. cbn [andb negb].
    change Consts.win_move_final with 72. change Consts.win_home_final with 72.
    change Consts.win_home_prev with 91. change Consts.win_digit_lo with 48. change Consts.win_digit_hi with 57.
    unfold is_digit. rewrite <- andb_assoc. reflexivity.
  - cbn [body_ok forallb] in Hb. apply andb_true_iff in Hb. destruct Hb as [Hc Hb].
    apply andb_true_iff in Hc. destruct Hc as [Hc C4]. apply andb_true_iff in Hc. destruct Hc as [Hc C3].
    apply andb_true_iff in Hc. destruct Hc as [C1 C2].
    apply negb_true_iff in C1, C2, C4.
    cbn [app win_fold]. rewrite win_byte_body by assumption.
    rewrite (IH c nl dup hm ph acc f Hb Hf).
    replace (last_or lb (c :: body)) with (last_or c body); [reflexivity|].
    unfold last_or. destruct body as [|y body]; [reflexivity|].
    change (last (c :: y :: body) lb) with (last (y :: body) lb). apply last_default_irrelevant.
Qed.

Lemma win_fold_esc lb nl dup hm ph acc r :
  win_fold (mk_wst lb false nl dup hm ph) acc (ESC :: r) = win_fold (mk_wst ESC true nl dup hm ph) acc r.
Proof. reflexivity. Qed.

Definition is_nl_atom (a : atom) := match a with ANewline => true | _ => false end.
Definition is_move_atom (a : atom) := match a with AMove _ => true | _ => false end.
Definition is_home_atom (a : atom) := match a with AHome _ => true | _ => false end.

Lemma body_ok_app a b : body_ok (a ++ b) = body_ok a && body_ok b.
Proof. apply forallb_app. Qed.

Lemma last_or_snoc lb body c : last_or lb (body ++ [c]) = c.
Proof. unfold last_or. apply last_last. Qed.

(* one atom of noise only touches the flags it is named after *)
Lemma win_fold_atom a : atom_ok a = true -> forall lb nl dup hm ph acc,
  exists lb', win_fold (mk_wst lb false nl dup hm ph) acc (render_atom a) =
    Some (mk_wst lb' false (nl || is_nl_atom a) (dup || is_move_atom a) (hm || is_home_atom a) ph, acc).
Proof.
  intros Ha lb nl dup hm ph acc.
  destruct a as [b| |body f|body|body]; cbn [atom_ok render_atom is_nl_atom is_move_atom is_home_atom] in *;
    rewrite ?orb_false_r, ?orb_true_r.
  - (* padding *)
    apply andb_true_iff in Ha. destruct Ha as [Ha A5]. apply andb_true_iff in Ha. destruct Ha as [Ha A4].
    apply andb_true_iff in Ha. destruct Ha as [Ha A3]. apply andb_true_iff in Ha. destruct Ha as [A1 A2].
    apply negb_true_iff in A1, A2, A3, A5.
    exists lb. cbn [win_fold]. unfold win_byte. cbn [w_skip w_nl w_last w_dup w_home w_prehome].
    change Consts.win_interrupt with ETX. change Consts.win_newline with LF. change Consts.win_esc with ESC.
    rewrite A3, A5, A2, is_trzsz_letter_doc, A1. reflexivity.
  - (* LF *)
    exists lb. reflexivity.
  - (* ESC body final, final <> H *)
    apply andb_true_iff in Ha. destruct Ha as [Ha F2]. apply andb_true_iff in Ha. destruct Ha as [Hb F1].
    apply negb_true_iff in F2.
    exists f. rewrite win_fold_esc.
    rewrite win_fold_seq by assumption. rewrite F2, andb_false_r. reflexivity.
  - (* cursor position *)
    apply andb_true_iff in Ha. destruct Ha as [Hb Hd].
    exists 72. rewrite win_fold_esc.
    rewrite win_fold_seq by (try assumption; reflexivity).
    assert (is_digit (last_or ESC body) = true /\ (last_or ESC body =? 91) = false) as [D1 D2].
    { unfold last_or. destruct (rev body) as [|d r] eqn:R; [discriminate|].
      apply (f_equal (@rev byte)) in R. rewrite rev_involutive in R. cbn [rev] in R. subst body.
      rewrite last_last. split; [exact Hd|].
      destruct (d =? 91) eqn:E; [apply N.eqb_eq in E; subst; discriminate|reflexivity]. }
    rewrite D1, D2. reflexivity.
  - (* cursor home *)
    exists 72. rewrite win_fold_esc.
    replace (body ++ [91; 72]) with ((body ++ [91]) ++ [72]) by (rewrite <- app_assoc; reflexivity).
    rewrite (win_fold_seq (body ++ [91]) ESC nl dup hm ph acc 72).
    + rewrite last_or_snoc. reflexivity.
    + rewrite body_ok_app, Ha. reflexivity.
    + reflexivity.
Qed.

Lemma win_fold_noise : forall n, noise_ok n = true -> forall lb nl dup hm ph acc rest,
  exists lb', win_fold (mk_wst lb false nl dup hm ph) acc (render n ++ rest) =
              win_fold (mk_wst lb' false (nl || has_nl n) (dup || has_move n) (hm || has_home n) ph) acc rest.
Proof.
  induction n as [|a n IH]; intros Hn lb nl dup hm ph acc rest.
  - exists lb. cbn [render flat_map app has_nl has_move has_home existsb]. rewrite !orb_false_r. reflexivity.
  - cbn [noise_ok forallb] in Hn. apply andb_true_iff in Hn. destruct Hn as [Ha Hn].
    destruct (win_fold_atom a Ha lb nl dup hm ph acc) as [lb1 E1].
    destruct (IH Hn lb1 (nl || is_nl_atom a) (dup || is_move_atom a) (hm || is_home_atom a) ph acc rest) as [lb2 E2].
    exists lb2. cbn [render flat_map]. rewrite <- app_assoc, win_fold_app, E1.
    fold (render n). rewrite E2.
    cbn [has_nl has_move has_home existsb]. fold (has_nl n) (has_move n) (has_home n).
    fold (is_nl_atom a) (is_move_atom a) (is_home_atom a). rewrite !orb_assoc. reflexivity.
Qed.

(* a protocol letter *)
Lemma win_byte_letter lb nl dup hm ph acc c : proto_letter c = true ->
  win_byte (mk_wst lb false nl dup hm ph) acc c =
  if dup && nl && nonempty acc && (last_is acc c || ph)
  then Some (mk_wst lb false nl false hm ph, set_last acc c)
  else Some (mk_wst lb false false false false hm, acc ++ [c]).
Proof.
  intros H. destruct (proto_letter_not _ H) as (E & L & X & _).
  unfold win_byte. cbn [w_skip w_nl w_last w_dup w_home w_prehome].
  change Consts.win_interrupt with ETX. change Consts.win_newline with LF. change Consts.win_esc with ESC.
  rewrite E, L, X, is_trzsz_letter_doc, H. reflexivity.
Qed.

Lemma last_is_snoc a c : last_is (a ++ [c]) c = true.
Proof. unfold last_is. rewrite rev_app_distr. cbn [rev app]. apply N.eqb_refl. Qed.

Lemma nonempty_snoc {A} (a : list A) c : nonempty (a ++ [c]) = true.
Proof. destruct a; reflexivity. Qed.

Lemma set_last_snoc a x c : set_last (a ++ [x]) c = a ++ [c].
Proof. unfold set_last. rewrite removelast_last. reflexivity. Qed.

(* no '!' in noise *)
Lemma body_no_bang body : body_ok body = true -> has_byte BANG body = false.
Proof.
  induction body as [|c body IH]; intros H; [reflexivity|].
  cbn [body_ok forallb] in H. apply andb_true_iff in H. destruct H as [Hc Hb].
  apply andb_true_iff in Hc. destruct Hc as [Hc _]. apply andb_true_iff in Hc. destruct Hc as [_ C3].
  apply negb_true_iff in C3. cbn [has_byte existsb]. rewrite N.eqb_sym, C3. exact (IH Hb).
Qed.

Lemma alpha_no_bang f : is_alpha f = true -> has_byte BANG [f] = false.
Proof. intros H. destruct (alpha_not _ H) as (_ & _ & B). cbn [has_byte existsb]. rewrite N.eqb_sym, B. reflexivity. Qed.

Lemma atom_no_bang a : atom_ok a = true -> has_byte BANG (render_atom a) = false.
Proof.
  intros Ha. destruct a as [b| |body f|body|body]; cbn [atom_ok render_atom] in *.
  - apply andb_true_iff in Ha. destruct Ha as [Ha _]. apply andb_true_iff in Ha. destruct Ha as [_ A4].
    apply negb_true_iff in A4. cbn [has_byte existsb]. rewrite N.eqb_sym, A4. reflexivity.
  - reflexivity.
  - apply andb_true_iff in Ha. destruct Ha as [Ha _]. apply andb_true_iff in Ha. destruct Ha as [Hb F1].
    change (ESC :: body ++ [f]) with ([ESC] ++ body ++ [f]).
    rewrite !has_byte_app, (body_no_bang _ Hb). exact (alpha_no_bang _ F1).
  - apply andb_true_iff in Ha. destruct Ha as [Hb _].
    change (ESC :: body ++ [72]) with ([ESC] ++ body ++ [72]).
    rewrite !has_byte_app, (body_no_bang _ Hb). reflexivity.
  - change (ESC :: body ++ [91; 72]) with ([ESC] ++ body ++ [91; 72]).
    rewrite !has_byte_app, (body_no_bang _ Ha). reflexivity.
Qed.

Lemma noise_no_bang : forall n, noise_ok n = true -> has_byte BANG (render n) = false.
Proof.
  induction n as [|a n IH]; intros H; [reflexivity|].
  cbn [noise_ok forallb] in H. apply andb_true_iff in H. destruct H as [Ha Hn].
  cbn [render flat_map]. rewrite has_byte_app, (atom_no_bang _ Ha). exact (IH Hn).
Qed.

Lemma letter_no_bang c : proto_letter c = true -> has_byte BANG [c] = false.
Proof. intros H. destruct (proto_letter_not _ H) as (_ & _ & _ & B). cbn [has_byte existsb]. rewrite N.eqb_sym, B. reflexivity. Qed.

(* ================= the flag machine recovers every documented rendering ================= *)
Theorem win_noisy_fold : forall stale acc e s, win_noisy stale acc e s ->
  forall lb nl ph,
  (stale = true -> nl = true) -> (stale = false -> nl = false /\ ph = false) ->
  has_byte BANG s = false /\
  exists st', win_fold (mk_wst lb false nl false false ph) acc s = Some (st', acc ++ e) /\ w_skip st' = false.
Proof.
  induction 1 as [stale acc n Hn
                 |stale acc n c e s Hn Hh Hc Hcond W IH
                 |stale acc0 c n e s Hc Hn Hh Hm Hnl W IH
                 |stale acc n1 x n2 c e s Hn1 Hm1 Hh1 Hx Hn2 Hm2 Hl2 Hh2 Hc W IH];
    intros lb nl ph S1 S0.
  - split; [apply noise_no_bang, Hn|].
    destruct (win_fold_noise n Hn lb nl false false ph acc []) as [lb' E].
    rewrite app_nil_r in E. rewrite E. cbn [win_fold]. rewrite app_nil_r. eexists. split; reflexivity.
  - destruct (win_fold_noise n Hn lb nl false false ph acc (c :: s)) as [lb' E].
    cbn [orb] in E. rewrite Hh in E.
    assert (N: win_byte (mk_wst lb' false (nl || has_nl n) (has_move n) false ph) acc c
               = Some (mk_wst lb' false false false false false, acc ++ [c])).
    { rewrite win_byte_letter by exact Hc.
      destruct stale.
      - rewrite Hcond. reflexivity.
      - destruct (S0 eq_refl) as [-> ->]. cbn [orb]. rewrite orb_false_r, Hcond. reflexivity. }
    destruct (IH lb' false false ltac:(discriminate) ltac:(auto)) as (B & st' & F & K).
    split.
    + rewrite has_byte_app, (noise_no_bang _ Hn). cbn [has_byte existsb orb] in *.
      destruct (proto_letter_not _ Hc) as (_ & _ & _ & Bc). rewrite N.eqb_sym, Bc. exact B.
    + exists st'. rewrite E. cbn [win_fold]. rewrite N, F, <- app_assoc. auto.
  - destruct (win_fold_noise n Hn lb nl false false ph (acc0 ++ [c]) (c :: s)) as [lb' E].
    cbn [orb] in E. rewrite Hh, Hm in E.
    assert (NL: nl || has_nl n = true).
    { destruct stale; [rewrite (S1 eq_refl); reflexivity|].
      rewrite orb_false_r in Hnl. rewrite Hnl. apply orb_true_r. }
    rewrite NL in E.
    assert (N: win_byte (mk_wst lb' false true true false ph) (acc0 ++ [c]) c
               = Some (mk_wst lb' false true false false ph, acc0 ++ [c])).
    { rewrite win_byte_letter by exact Hc.
      rewrite nonempty_snoc, last_is_snoc, set_last_snoc. reflexivity. }
    destruct (IH lb' true ph ltac:(auto) ltac:(discriminate)) as (B & st' & F & K).
    split.
    + rewrite has_byte_app, (noise_no_bang _ Hn). cbn [has_byte existsb orb] in *.
      destruct (proto_letter_not _ Hc) as (_ & _ & _ & Bc). rewrite N.eqb_sym, Bc. exact B.
    + exists st'. rewrite E. cbn [win_fold]. rewrite N, F. auto.
  - destruct (win_fold_noise n1 Hn1 lb nl false false ph acc (x :: render n2 ++ c :: s)) as [lb1 E1].
    cbn [orb] in E1. rewrite Hh1, Hm1 in E1.
    assert (N1: win_byte (mk_wst lb1 false (nl || has_nl n1) false true ph) acc x
                = Some (mk_wst lb1 false false false false true, acc ++ [x])).
    { rewrite win_byte_letter by exact Hx. reflexivity. }
    destruct (win_fold_noise n2 Hn2 lb1 false false false true (acc ++ [x]) (c :: s)) as [lb2 E2].
    cbn [orb] in E2. rewrite Hh2, Hm2, Hl2 in E2.
    assert (N2: win_byte (mk_wst lb2 false true true false true) (acc ++ [x]) c
                = Some (mk_wst lb2 false true false false true, acc ++ [c])).
    { rewrite win_byte_letter by exact Hc.
      rewrite nonempty_snoc, set_last_snoc, orb_true_r. reflexivity. }
    destruct (IH lb2 true true ltac:(auto) ltac:(discriminate)) as (B & st' & F & K).
    split.
    + rewrite has_byte_app, (noise_no_bang _ Hn1). cbn [orb].
      change (x :: render n2 ++ c :: s) with ([x] ++ render n2 ++ [c] ++ s).
      rewrite !has_byte_app, (letter_no_bang _ Hx), (noise_no_bang _ Hn2), (letter_no_bang _ Hc). exact B.
    + exists st'. rewrite E1. cbn [win_fold]. rewrite N1, E2. cbn [win_fold]. rewrite N2, F, <- app_assoc. auto.
Qed.

(* ================= chunks ================= *)
Lemma index_byte_none b l : has_byte b l = false -> index_byte b l = None.
Proof.
  induction l as [|x l IH]; intros H; [reflexivity|].
  cbn [has_byte existsb] in H. apply orb_false_iff in H. destruct H as [H1 H2].
  cbn [index_byte]. rewrite N.eqb_sym, H1, (IH H2). reflexivity.
Qed.

Lemma index_byte_hit b : forall l r, has_byte b l = false -> index_byte b (l ++ b :: r) = Some (length l).
Proof.
  induction l as [|x l IH]; intros r H.
  - cbn [app index_byte length]. rewrite N.eqb_refl. reflexivity.
  - cbn [has_byte existsb] in H. apply orb_false_iff in H. destruct H as [H1 H2].
    cbn [app index_byte length]. rewrite N.eqb_sym, H1, (IH r H2). reflexivity.
Qed.

Lemma app_split {A} : forall (c s l2 r : list A), c ++ r = s ++ l2 ->
  (exists l, s = c ++ l /\ r = l ++ l2) \/ (exists x l, c = s ++ x :: l /\ l2 = x :: l ++ r).
Proof.
  induction c as [|a c IH]; intros s l2 r H.
  - left. exists s. auto.
  - destruct s as [|b s].
    + right. cbn [app] in H. subst l2. exists a, c. auto.
    + cbn [app] in H. inversion H; subst. destruct (IH s l2 r H2) as [(l & -> & ->)|(x & l & -> & ->)].
      * left. exists l. auto.
      * right. exists x, l. auto.
Qed.

(* the line is delivered whatever the chunking and whatever the cursor position; what is
   left unread is the stream behind '!' or that stream without its first byte (the LF when
   the protocol's "!\n" framing is used) *)
Theorem win_read_line : forall pend st acc off s rest st' acc',
  concat pend = s ++ BANG :: rest -> has_byte BANG s = false ->
  win_fold st acc s = Some (st', acc') -> nonempty acc' = true -> w_skip st' = false ->
  exists o p', win_read st acc off pend = WDone acc' o p' /\
               (concat p' = rest \/ exists b, rest = b :: concat p').
Proof.
  induction pend as [|c rc IH]; intros st acc off s rest st' acc' Hc Hb Hf Hne Hsk.
  - destruct s; discriminate.
  - cbn [concat] in Hc. destruct (app_split c s (BANG :: rest) (concat rc) Hc) as [(l & -> & Hr)|(x & l & -> & Hx)].
    + (* the chunk lies inside the line *)
      rewrite has_byte_app in Hb. apply orb_false_iff in Hb. destruct Hb as [Hb1 Hb2].
      rewrite win_fold_app in Hf. destruct (win_fold st acc c) as [[st1 acc1]|] eqn:F1; [|discriminate].
      cbn [win_read win_chunk]. change Consts.win_terminator with BANG.
      rewrite (index_byte_none _ _ Hb1), F1.
      exact (IH st1 acc1 0%nat l rest st' acc' Hr Hb2 Hf Hne Hsk).
    + (* the chunk contains the terminator *)
      inversion Hx; subst x rest.
      cbn [win_read win_chunk]. change Consts.win_terminator with BANG.
      rewrite (index_byte_hit BANG s l Hb), firstn_len_app, Hf, Hne, Hsk. cbn [andb negb].
      eexists. eexists. split; [reflexivity|].
      cbn [concat].
      destruct ((off + (length s + 1) <? length (s ++ BANG :: l))%nat &&
                (nth (off + (length s + 1)) (s ++ BANG :: l) 0 =? Consts.win_after_terminator)) eqn:Q.
      * right. apply andb_true_iff in Q. destruct Q as [Q _]. apply Nat.ltb_lt in Q.
        rewrite app_length in Q. cbn [length] in Q.
        destruct l as [|b l]; [cbn [length] in Q; lia|].
        exists b. f_equal.
        replace (length s + 1 + 1)%nat with (length s + 2)%nat by lia.
        rewrite skipn_len_app. reflexivity.
      * left. rewrite skipn_len_app. reflexivity.
Qed.

Lemma win_fold_etx : forall a st acc x, win_fold st acc (a ++ ETX :: x) = None.
Proof.
  induction a as [|c a IH]; intros st acc x.
  - reflexivity.
  - cbn [app win_fold]. destruct (win_byte st acc c) as [[st1 acc1]|]; [apply IH|reflexivity].
Qed.

Lemma firstn_past_etx : forall a l i, has_byte BANG a = false ->
  index_byte BANG (a ++ ETX :: l) = Some i -> exists m, firstn i (a ++ ETX :: l) = a ++ ETX :: m.
Proof.
  induction a as [|x a IH]; intros l i Hb Hi.
  - cbn [app index_byte] in Hi. change (ETX =? BANG) with false in Hi.
    destruct (index_byte BANG l) as [j|]; inversion Hi; subst. exists (firstn j l). reflexivity.
  - cbn [has_byte existsb] in Hb. apply orb_false_iff in Hb. destruct Hb as [H1 H2].
    cbn [app index_byte] in Hi. rewrite N.eqb_sym, H1 in Hi.
    destruct (index_byte BANG (a ++ ETX :: l)) as [j|] eqn:E; inversion Hi; subst.
    destruct (IH l j H2 E) as [m Hm]. exists m. cbn [app firstn]. rewrite Hm. reflexivity.
Qed.

(* Ctrl-C before the terminator interrupts, whatever the chunking *)
Theorem win_read_ctrl_c : forall pend st acc off a b,
  concat pend = a ++ ETX :: b -> has_byte BANG a = false ->
  exists o p', win_read st acc off pend = WInterrupted o p'.
Proof.
  induction pend as [|c rc IH]; intros st acc off a b Hc Hb.
  - destruct a; discriminate.
  - cbn [concat] in Hc. destruct (app_split c a (ETX :: b) (concat rc) Hc) as [(l & -> & Hr)|(x & l & -> & Hx)].
    + rewrite has_byte_app in Hb. apply orb_false_iff in Hb. destruct Hb as [Hb1 Hb2].
      cbn [win_read win_chunk]. change Consts.win_terminator with BANG. rewrite (index_byte_none _ _ Hb1).
      destruct (win_fold st acc c) as [[st1 acc1]|]; [|eexists; eexists; reflexivity].
      exact (IH st1 acc1 0%nat l b Hr Hb2).
    + inversion Hx; subst x b.
      cbn [win_read win_chunk]. change Consts.win_terminator with BANG.
      destruct (index_byte BANG (a ++ ETX :: l)) as [i|] eqn:E.
      * destruct (firstn_past_etx a l i Hb E) as [m ->]. rewrite win_fold_etx. eexists; eexists; reflexivity.
      * rewrite win_fold_etx. eexists; eexists; reflexivity.
Qed.

(* ================= C16, Windows ================= *)
Lemma marker_cut_intact ty pl J :
  forallb (fun b => negb (b =? HASH)) (ty ++ COLON :: pl) = true ->
  marker_cut ty (J ++ HASH :: ty ++ COLON :: pl) = HASH :: ty ++ COLON :: pl.
Proof.
  intros H. unfold marker_cut. rewrite marker_eq.
  assert (R: last_index_of (HASH :: ty ++ [COLON]) (HASH :: ty ++ COLON :: pl) = Some O).
  { cbn [last_index_of]. erewrite last_index_none_tail by exact H.
    replace (HASH :: ty ++ COLON :: pl) with ((HASH :: ty ++ [COLON]) ++ pl)
      by (cbn [app]; rewrite <- app_assoc; reflexivity).
    rewrite has_prefix_refl_app. reflexivity. }
  erewrite last_index_app_some by exact R. rewrite Nat.add_0_r. apply skipn_len_exact.
Qed.

Theorem windows_recovered ty pl J s off pend rest :
  forallb (fun b => negb (b =? HASH)) (ty ++ COLON :: pl) = true ->
  win_noisy false [] (J ++ HASH :: ty ++ COLON :: pl) s ->
  concat pend = s ++ BANG :: rest ->
  exists o p', recv_line_windows ty off pend = WDone (HASH :: ty ++ COLON :: pl) o p' /\
               (concat p' = rest \/ exists b, rest = b :: concat p').
Proof.
  intros Hh W Hc.
  destruct (win_noisy_fold _ _ _ _ W ESC false false ltac:(discriminate) ltac:(auto)) as (B & st' & F & K).
  cbn [app] in F.
  destruct (win_read_line pend w_init [] off s rest st' _ Hc B F) as (o & p' & R & Q).
  - destruct J; reflexivity.
  - exact K.
  - exists o, p'. unfold recv_line_windows, read_line_windows. rewrite R, (marker_cut_intact _ _ _ Hh). auto.
Qed.

Theorem windows_ctrl_c ty off pend a b :
  concat pend = a ++ ETX :: b -> has_byte BANG a = false ->
  exists o p', recv_line_windows ty off pend = WInterrupted o p'.
Proof.
  intros Hc Hb. destruct (win_read_ctrl_c pend w_init [] off a b Hc Hb) as (o & p' & R).
  exists o, p'. unfold recv_line_windows, read_line_windows. rewrite R. reflexivity.
Qed.

(* ================= the two documented shapes that are NOT recovered ================= *)
(* "2" BS ESC[?25h ESC[?25l ESC[H Y ESC[49;83H ESC[?25h ESC[?25l CR LF *)
Definition home_end_n1 : list atom := [APad 8; AVt [91; 63; 50; 53] 104; AVt [91; 63; 50; 53] 108; AHome []].
Definition home_end_n2 : list atom := [AMove [91; 52; 57; 59; 56; 51]; AVt [91; 63; 50; 53] 104; AVt [91; 63; 50; 53] 108; APad 13; ANewline].

Theorem home_at_end_not_recovered :
  noise_ok home_end_n1 = true /\ has_move home_end_n1 = false /\ has_home home_end_n1 = true /\
  noise_ok home_end_n2 = true /\ has_move home_end_n2 = true /\ has_nl home_end_n2 = true /\
  has_home home_end_n2 = false /\ proto_letter 89 = true /\
  read_line_windows 0 [home_before_terminator [50] home_end_n1 89 home_end_n2 ++ [BANG]] = WDone [50; 89] 41 [[]].
Proof. vm_compute. repeat split. Qed.

(* "k7r4" ESC[H k ESC[9;9H LF  r  ESC[30;46H 0 *)
Definition stale_n1 : list atom := [AHome []].
Definition stale_n2 : list atom := [AMove [91; 57; 59; 57]; ANewline].
Definition stale_n3 : list atom := [AMove [91; 51; 48; 59; 52; 54]].

Theorem stale_flags_not_recovered :
  noise_ok stale_n1 = true /\ has_move stale_n1 = false /\ has_home stale_n1 = true /\
  noise_ok stale_n2 = true /\ has_move stale_n2 = true /\ has_nl stale_n2 = true /\ has_home stale_n2 = false /\
  noise_ok stale_n3 = true /\ has_nl stale_n3 = false /\ has_home stale_n3 = false /\
  read_line_windows 0 [move_after_home [107; 55; 114; 52] stale_n1 107 stale_n2 114 stale_n3 48 ++ [BANG]]
  = WDone [107; 55; 114; 52; 48] 26 [[]].
Proof. vm_compute. repeat split. Qed.

(* the proved relation is the full one minus its last two constructors *)
Lemma win_noisy_in_full : forall stale acc e s, win_noisy stale acc e s -> win_noisy_full stale acc e s.
Proof.
  induction 1.
  - apply wf_end; assumption.
  - apply wf_char; assumption.
  - apply wf_reprint; assumption.
  - apply wf_home; assumption.
Qed.

(* the two witnesses are renderings in the full relation *)
Lemma home_at_end_is_documented :
  win_noisy_full false [] [50] (home_before_terminator [50] home_end_n1 89 home_end_n2).
Proof.
  apply (wf_char false [] [] 50 [] (render home_end_n1 ++ 89 :: render home_end_n2)); try reflexivity.
  apply wf_home_at_end; reflexivity.
Qed.

Lemma stale_flags_is_documented :
  win_noisy_full false [] [107; 55; 114; 52; 114; 48]
    (move_after_home [107; 55; 114; 52] stale_n1 107 stale_n2 114 stale_n3 48).
Proof.
  apply (wf_char false [] [] 107 [55; 114; 52; 114; 48]); try reflexivity.
  apply (wf_char false [107] [] 55 [114; 52; 114; 48]); try reflexivity.
  apply (wf_char false [107; 55] [] 114 [52; 114; 48]); try reflexivity.
  apply (wf_char false [107; 55; 114] [] 52 [114; 48]); try reflexivity.
  apply (wf_home false [107; 55; 114; 52] stale_n1 107 stale_n2 114 [48] (render stale_n3 ++ [48])); try reflexivity.
  apply (wf_move_when_stale [107; 55; 114; 52; 114] stale_n3 48 [] []); try reflexivity.
  apply (wf_end false _ []). reflexivity.
Qed.

(* ================= the reader never indexes an empty accumulator ================= *)
(* the source guards bytes[len(bytes)-1] with len(bytes) > 0 (regenerated value); win_byte is
   written with that guard *)
Lemma win_dup_guard_src_ok : Consts.win_dup_guard_nonempty = true.
Proof. reflexivity. Qed.

Theorem win_never_indexes_empty st acc c :
  win_index_panics Consts.win_dup_guard_nonempty st acc c = false.
Proof.
  rewrite win_dup_guard_src_ok. unfold win_index_panics, win_reads_last.
  destruct (nonempty acc); [apply andb_false_r|]. cbn [negb]. rewrite !andb_false_r. reflexivity.
Qed.

(* without the guard it does: LF, a cursor-position sequence, then the first letter of a line *)
Theorem win_unguarded_indexes_empty :
  exists st, win_fold w_init [] [LF; ESC; 91; 50; 53; 59; 49; 49; 57; 72] = Some (st, []) /\
             win_index_panics false st [] 35 = true.
Proof. eexists. split; [vm_compute; reflexivity|vm_compute; reflexivity]. Qed.
