(* C11: the timeout announced by the server's arguments arrives as it is on both ends of the
   real handshake, and a timer is armed iff it is positive - for EVERY integer, from the shape of
   sendConfig / recvConfig / newTransfer / getNewTimeout regenerated into Gen/Consts.v. *)
From Coq Require Import ZArith List Bool Lia.
From Trzsz Require Import Model.CfgTimeout Gen.Consts.
Local Open Scope Z_scope.

Definition cfgtimeout_shape : ct_shape :=
  {| cts_guard := cfgtimeout_guard; cts_value_is_arg := cfgtimeout_value_is_arg;
     cts_server_unmarshals := cfgtimeout_server_unmarshals; cts_client_unmarshals := cfgtimeout_client_unmarshals;
     cts_default := cfgtimeout_default; cts_timer := cfgtimeout_timer;
     cts_relay_default := cfgtimeout_relay_default; cts_relay_omitempty := cfgtimeout_relay_omitempty |}.

(* the pins: the member is written unconditionally, it is args.Timeout, both ends unmarshal the
   record, a timer is armed iff the value is > 0.  A change of any of these breaks the lemma that
   names it (the translator still succeeds: they are values). *)
Lemma cfg_timeout_unconditional : cfgtimeout_guard = None.
Proof. reflexivity. Qed.
Lemma cfg_timeout_is_the_argument : cfgtimeout_value_is_arg = true.
Proof. reflexivity. Qed.
Lemma cfg_both_ends_unmarshal : cfgtimeout_server_unmarshals = true /\ cfgtimeout_client_unmarshals = true.
Proof. split; reflexivity. Qed.
Lemma cfg_timer_iff_positive : cfgtimeout_timer = (0%N, 0).
Proof. reflexivity. Qed.

(* generic: for which shapes the round trip is the identity *)
Lemma ct_roundtrip_generic s : cts_guard s = None -> cts_value_is_arg s = true ->
  cts_server_unmarshals s = true -> cts_client_unmarshals s = true -> cts_timer s = (0%N, 0) ->
  forall t, ct_handshake s t = Some (t, t, 0 <? t, 0 <? t, true).
Proof.
  intros Hg Hv Hs Hc Ht t. unfold ct_handshake, ct_server, ct_client, ct_end, ct_marshal, ct_armed.
  rewrite Hg, Hv, Hs, Hc, Ht. reflexivity.
Qed.

Theorem timeout_roundtrip : forall t, ct_handshake cfgtimeout_shape t = Some (t, t, 0 <? t, 0 <? t, true).
Proof.
  apply ct_roundtrip_generic; try reflexivity.
Qed.

(* through a relay: the relay forwards the member whatever its value (no omitempty) *)
Lemma cfg_relay_forwards_zero : cfgtimeout_relay_omitempty = false.
Proof. reflexivity. Qed.
Lemma ct_relay_generic s : cts_guard s = None -> cts_value_is_arg s = true ->
  cts_client_unmarshals s = true -> cts_timer s = (0%N, 0) -> cts_relay_omitempty s = false ->
  forall t, ct_via_relay s t = Some (t, 0 <? t).
Proof.
  intros Hg Hv Hc Ht Ho t. unfold ct_via_relay, ct_relay_client, ct_marshal, ct_armed.
  rewrite Hg, Hv, Hc, Ht, Ho. reflexivity.
Qed.
Theorem timeout_via_relay : forall t, ct_via_relay cfgtimeout_shape t = Some (t, 0 <? t).
Proof. apply ct_relay_generic; reflexivity. Qed.

(* in words *)
Corollary timeout_honoured : forall t,
  ct_server cfgtimeout_shape t = Some t /\ ct_client cfgtimeout_shape t = Some t /\
  (t <= 0 -> ct_armed cfgtimeout_shape t = Some false) /\ (0 < t -> ct_armed cfgtimeout_shape t = Some true).
Proof.
  intro t. repeat split.
  - intro H. unfold ct_armed. cbn. destruct (0 <? t) eqn:E; [apply Z.ltb_lt in E; lia|reflexivity].
  - intro H. unfold ct_armed. cbn. destruct (0 <? t) eqn:E; [reflexivity|apply Z.ltb_ge in E; lia].
Qed.

(* the seeded shape (the member only when positive, default 20) does NOT have the property: the
   statement is not vacuous in the guard *)
Example ct_guarded_shape_loses_zero :
  ct_handshake {| cts_guard := Some (0%N, 0); cts_value_is_arg := true; cts_server_unmarshals := true;
                  cts_client_unmarshals := true; cts_default := 20; cts_timer := (0%N, 0);
                  cts_relay_default := 20; cts_relay_omitempty := false |} 0
  = Some (20, 20, true, true, false).
Proof. reflexivity. Qed.
