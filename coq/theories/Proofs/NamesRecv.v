(* Proofs about the loop of recvFiles and the names it reports (C07). *)
From Coq Require Import ZArith.
From Trzsz Require Import Base.Bytes Gen.Consts Model.Path Model.Fs Model.Names Model.NamesRecv
  Proofs.PathFs Proofs.Names.

(* ---------- nothing that exists disappears while names are received ---------- *)
Definition pmono (f f' : fs) : Prop := forall q, lookup f q <> None -> lookup f' q <> None.

Lemma pmono_refl f : pmono f f. Proof. intros q H; exact H. Qed.
Lemma pmono_trans a b c : pmono a b -> pmono b c -> pmono a c.
Proof. intros H1 H2 q H. apply H2, H1, H. Qed.

Lemma open_create_pmono f p t pl f' es : open_create f p t pl = Some (f', es) -> pmono f f'.
Proof.
  intros H q Hq. destruct (path_eq_dec p q) as [<-|Hne]; [apply (open_create_present _ _ _ _ _ _ H)|].
  destruct (open_create_frame _ _ _ _ _ _ H) as [F _]. rewrite F; auto.
Qed.

Lemma mk_down_pmono rest f pre ok f' es : mk_down f pre rest = (ok, f', es) -> pmono f f'.
Proof.
  intros H q Hq. destruct (mk_down_frame _ _ _ _ _ _ H) as [F _]. rewrite F; [exact Hq|].
  intros (a & b & _ & _ & _ & Hn). congruence.
Qed.

Lemma do_create_file_pmono p t pl st ok st' : do_create_file p t pl st = (ok, st') -> pmono (st_fs st) (st_fs st').
Proof.
  unfold do_create_file. destruct (open_create (st_fs st) p t pl) as [[f' es]|] eqn:E; intro H; inversion H; subst; cbn.
  - eapply open_create_pmono; exact E.
  - apply pmono_refl.
Qed.

Lemma do_create_directory_pmono p st ok st' : do_create_directory p st = (ok, st') -> pmono (st_fs st) (st_fs st').
Proof.
  unfold do_create_directory. destruct (stat (st_fs st) p) as [[old|]| |].
  - intro H; inversion H; subst; apply pmono_refl.
  - intro H; inversion H; subst; apply pmono_refl.
  - unfold mkdir_all. destruct (mk_down (st_fs st) [] p) as [[ok1 f1] es1] eqn:E. intro H; inversion H; subst; cbn.
    eapply mk_down_pmono; exact E.
  - intro H; inversion H; subst; apply pmono_refl.
Qed.

Lemma create_leaf_pmono s full t pl ln st res st' : create_leaf s full t pl ln st = (res, st') ->
  pmono (st_fs st) (st_fs st') /\ (forall ln', res = NOk ln' -> ln' = ln /\ lookup (st_fs st') full <> None \/ full = []).
Proof.
  unfold create_leaf.
  assert (HD : forall ok st1, do_create_directory full st = (ok, st1) ->
    (if ok then (NOk ln, st1) else (NErr, st1)) = (res, st') ->
    pmono (st_fs st) (st_fs st') /\ (forall ln', res = NOk ln' -> ln' = ln /\ lookup (st_fs st') full <> None \/ full = [])).
  { intros ok st1 E H. pose proof (do_create_directory_pmono _ _ _ _ E) as M.
    destruct ok; inversion H; subst; (split; [exact M|]); intros ln' Hl; [|discriminate Hl].
    inversion Hl; subst. destruct full as [|c0 p0]; [right; reflexivity|]. left. split; [reflexivity|].
    revert E. unfold do_create_directory. set (p := c0 :: p0).
    destruct (stat (st_fs st) p) as [[old|]| |] eqn:Es; try (intro E; inversion E; fail).
    - intro E; inversion E; subst. pose proof (stat_dir_chain _ _ Es p [] (eq_sym (app_nil_r p))) as Hc.
      unfold get in Hc. subst p. rewrite Hc. discriminate.
    - unfold mkdir_all. destruct (mk_down (st_fs st) [] p) as [[ok1 f1] es1] eqn:Em. intro E; inversion E; subst. cbn.
      clear E Es M H.
      assert (Hgen : forall rest pre f f2 es2, rest <> [] -> mk_down f pre rest = (true, f2, es2) -> lookup f2 (pre ++ rest) <> None).
      { induction rest as [|c rest IH]; intros pre f f2 es2 Hne Em0; [congruence|].
        cbn [mk_down] in Em0. destruct (has_nul c || (name_max <? name_len c)); [inversion Em0|].
        destruct rest as [|c2 rest].
        - destruct (lookup f (pre ++ [c])) as [[old|]|] eqn:El.
          + inversion Em0.
          + cbn [mk_down] in Em0. inversion Em0; subst. rewrite El. discriminate.
          + cbn [mk_down] in Em0. inversion Em0; subst. rewrite lookup_set, path_eqb_refl. discriminate.
        - destruct (lookup f (pre ++ [c])) as [[old|]|] eqn:El.
          + inversion Em0.
          + specialize (IH (pre ++ [c]) f f2 es2 ltac:(discriminate) Em0). rewrite <- app_assoc in IH. exact IH.
          + destruct (mk_down (set f (pre ++ [c]) Dir) (pre ++ [c]) (c2 :: rest)) as [[ok3 f3] es3] eqn:E3.
            inversion Em0; subst. specialize (IH (pre ++ [c]) _ _ _ ltac:(discriminate) E3).
            rewrite <- app_assoc in IH. exact IH. }
      apply (Hgen p [] (st_fs st) f1 es1); [subst p; discriminate | exact Em]. }
  destruct (s_archive s).
  - destruct (negb (s_isdir s)).
    + intro H; inversion H; subst. split; [apply pmono_refl | intros ? Hx; discriminate Hx].
    + destruct (do_create_directory full st) as [ok st1] eqn:E. intro H. apply (HD ok st1 eq_refl). destruct ok; exact H.
  - destruct (s_isdir s).
    + destruct (do_create_directory full st) as [ok st1] eqn:E. intro H. apply (HD ok st1 eq_refl). destruct ok; exact H.
    + destruct (do_create_file full t pl st) as [ok st1] eqn:E. intro H.
      pose proof (do_create_file_pmono _ _ _ _ _ _ E) as M.
      destruct (do_create_file_spec (fun _ => True) _ _ _ _ _ _ E I) as (_ & _ & _ & Hp).
      destruct ok; inversion H; subst; (split; [exact M|]); intros ln' Hl; [|discriminate Hl].
      inversion Hl; subst. left. split; [reflexivity | apply Hp; reflexivity].
Qed.

(* MkdirAll succeeded: every prefix of the path is there *)
Lemma mk_down_prefixes : forall rest f pre f2 es2, mk_down f pre rest = (true, f2, es2) ->
  forall a b, a <> [] -> rest = a ++ b -> lookup f2 (pre ++ a) <> None.
Proof.
  induction rest as [|c rest IH]; intros f pre f2 es2 Em a b Ha Hab; [destruct a; [congruence | discriminate]|].
  destruct a as [|x a]; [congruence|]. cbn in Hab. inversion Hab; subst x rest. clear Hab.
  cbn [mk_down] in Em. destruct (has_nul c || (name_max <? name_len c)); [inversion Em|].
  assert (Hrec : forall f1 es1, lookup f1 (pre ++ [c]) <> None -> mk_down f1 (pre ++ [c]) (a ++ b) = (true, f2, es1) ->
                 lookup f2 (pre ++ c :: a) <> None).
  { intros f1 es1 Hp Em1. destruct a as [|y a].
    - apply (mk_down_pmono _ _ _ _ _ _ Em1). exact Hp.
    - specialize (IH f1 (pre ++ [c]) f2 es1 Em1 (y :: a) b ltac:(discriminate) eq_refl).
      rewrite <- app_assoc in IH. exact IH. }
  destruct (lookup f (pre ++ [c])) as [[old|]|] eqn:El.
  - inversion Em.
  - apply (Hrec f es2); [rewrite El; discriminate | exact Em].
  - destruct (mk_down (set f (pre ++ [c]) Dir) (pre ++ [c]) (a ++ b)) as [[ok3 f3] es3] eqn:E3.
    inversion Em; subst. apply (Hrec (set f (pre ++ [c]) Dir) es3); [rewrite lookup_set, path_eqb_refl; discriminate|].
    exact E3.
Qed.

Lemma do_create_directory_prefixes p st st' : do_create_directory p st = (true, st') ->
  forall a b, a <> [] -> p = a ++ b -> lookup (st_fs st') a <> None.
Proof.
  unfold do_create_directory. destruct (stat (st_fs st) p) as [[old|]| |] eqn:Es; try (intro E; inversion E; fail).
  - intro E; inversion E; subst. intros a b Ha Hab. pose proof (stat_dir_chain _ _ Es a b Hab) as Hc.
    unfold get in Hc. destruct a; [congruence|]. rewrite Hc. discriminate.
  - unfold mkdir_all. destruct (mk_down (st_fs st) [] p) as [[ok1 f1] es1] eqn:Em. intro E; inversion E; subst. cbn.
    intros a b Ha Hab. apply (mk_down_prefixes p (st_fs st) [] f1 es1 Em a b Ha Hab).
Qed.

Definition map_good (m : list (Z * name)) : Prop := forall id v, map_get m id = Some v -> good v.

Lemma cdof_root cfg d s r0 rest t pl st ln st' :
  Forall good (r0 :: rest) -> map_good (st_map st) ->
  create_dir_or_file cfg d s r0 rest t pl st = (NOk ln, st') ->
  pmono (st_fs st) (st_fs st') /\ lookup (st_fs st') (d ++ [ln]) <> None.
Proof.
  intros Hg Hm. unfold create_dir_or_file. inversion Hg as [|? ? Hg0 Hgr]; subst.
  set (chosen := if overwrite cfg then Some (r0, st) else _).
  assert (Hch : chosen = None \/ exists ln0 st1, chosen = Some (ln0, st1) /\ good ln0 /\ st_fs st1 = st_fs st).
  { subst chosen. destruct (overwrite cfg); [right; exists r0, st; auto|].
    destruct (map_get (st_map st) (s_id s)) as [v|] eqn:Em; [right; exists v, st; split; [reflexivity | split; [eapply Hm; exact Em | reflexivity]]|].
    destruct (get_new_name (st_fs st) d r0) as [ln0|] eqn:En; [|left; reflexivity].
    right. exists ln0, (set_map st ((s_id s, ln0) :: st_map st)).
    destruct (get_new_name_good _ _ _ _ Hg0 En) as [Hl _]. auto. }
  destruct Hch as [-> |(ln0 & st1 & -> & Hl & E1)]; [intro H; discriminate H|].
  destruct rest as [|c rest].
  - rewrite join_good by (constructor; [exact Hl | constructor]). intro H.
    destruct (create_leaf_pmono _ _ _ _ _ _ _ _ H) as [M P]. rewrite <- E1.
    destruct (P ln eq_refl) as [[-> Hp]|Hx]; [split; assumption | destruct d; discriminate Hx].
  - destruct (forall_good_split (c :: rest) ltac:(discriminate) Hgr) as [Hmid Hlast].
    set (mids := removelast (c :: rest)) in *. set (lst := last (c :: rest) []) in *.
    rewrite (join_good (ln0 :: mids)) by (constructor; assumption).
    destruct (do_create_directory (d ++ ln0 :: mids) st1) as [ok st2] eqn:Ed. destruct ok; [|intro H; discriminate H].
    intro H. destruct (create_leaf_pmono _ _ _ _ _ _ _ _ H) as [M P].
    pose proof (do_create_directory_pmono _ _ _ _ Ed) as M12.
    pose proof (do_create_directory_prefixes _ _ _ Ed (d ++ [ln0]) mids) as Hp.
    assert (Hln : ln = ln0).
    { destruct (P ln eq_refl) as [[E _]|Hx]; [exact E|].
      exfalso. revert Hx. rewrite join_good by (constructor; [exact Hlast | constructor]). destruct d; discriminate. }
    subst ln0. rewrite <- E1. split; [eapply pmono_trans; eassumption|].
    apply M. apply Hp; [destruct d; discriminate | rewrite <- app_assoc; reflexivity].
Qed.

Lemma create_file_root ck cfg d nm t pl st ln st' : chk_create_file ck = true ->
  create_file ck cfg d nm t pl st = (NOk ln, st') ->
  pmono (st_fs st) (st_fs st') /\ lookup (st_fs st') (d ++ [ln]) <> None.
Proof.
  intros Hck. unfold create_file. rewrite Hck. cbn [andb].
  destruct (valid_name nm) eqn:Ev; cbn [negb]; [|intro H; discriminate H]. apply valid_name_good in Ev.
  assert (Hch : (if overwrite cfg then Some nm else get_new_name (st_fs st) d nm) = None \/
            exists ln0, (if overwrite cfg then Some nm else get_new_name (st_fs st) d nm) = Some ln0 /\ good ln0).
  { destruct (overwrite cfg); [right; exists nm; auto|].
    destruct (get_new_name (st_fs st) d nm) as [ln0|] eqn:En; [|left; reflexivity].
    destruct (get_new_name_good _ _ _ _ Ev En) as [Hl _]. right. exists ln0. auto. }
  destruct Hch as [-> |(ln0 & -> & Hl)]; [intro H; discriminate H|].
  rewrite join_good by (constructor; [exact Hl | constructor]).
  destruct (do_create_file (d ++ [ln0]) t pl st) as [ok st1] eqn:E. destruct ok; intro H; inversion H; subst.
  split; [eapply do_create_file_pmono; exact E|].
  destruct (do_create_file_spec (fun _ => True) _ _ _ _ _ _ E I) as (_ & _ & _ & Hp). apply Hp. reflexivity.
Qed.

Lemma create_file_pmono ck cfg d nm t pl st res st' : create_file ck cfg d nm t pl st = (res, st') -> pmono (st_fs st) (st_fs st').
Proof.
  unfold create_file. destruct (chk_create_file ck && negb (valid_name nm)); [intro H; inversion H; apply pmono_refl|].
  destruct (if overwrite cfg then Some nm else get_new_name (st_fs st) d nm) as [ln0|]; [|intro H; inversion H; apply pmono_refl].
  destruct (do_create_file (join d [ln0]) t pl st) as [ok st1] eqn:E. pose proof (do_create_file_pmono _ _ _ _ _ _ E) as M.
  destruct ok; intro H; inversion H; subst; exact M.
Qed.

Lemma cdof_pmono cfg d s r0 rest t pl st res st' : create_dir_or_file cfg d s r0 rest t pl st = (res, st') ->
  pmono (st_fs st) (st_fs st').
Proof.
  unfold create_dir_or_file. set (chosen := if overwrite cfg then Some (r0, st) else _).
  assert (Hch : chosen = None \/ exists ln0 st1, chosen = Some (ln0, st1) /\ st_fs st1 = st_fs st).
  { subst chosen. destruct (overwrite cfg); [right; exists r0, st; auto|].
    destruct (map_get (st_map st) (s_id s)) as [v|]; [right; exists v, st; auto|].
    destruct (get_new_name (st_fs st) d r0) as [ln0|]; [|left; reflexivity].
    right. exists ln0, (set_map st ((s_id s, ln0) :: st_map st)). auto. }
  destruct Hch as [-> |(ln0 & st1 & -> & E1)]; [intro H; inversion H; apply pmono_refl|]. rewrite <- E1.
  destruct rest as [|c rest].
  - intro H. apply (create_leaf_pmono _ _ _ _ _ _ _ _ H).
  - destruct (do_create_directory (join d (ln0 :: removelast (c :: rest))) st1) as [ok st2] eqn:Ed.
    pose proof (do_create_directory_pmono _ _ _ _ Ed) as M12. destruct ok.
    + intro H. eapply pmono_trans; [exact M12 | apply (create_leaf_pmono _ _ _ _ _ _ _ _ H)].
    + intro H; inversion H; subst. exact M12.
Qed.

(* one message: nothing disappears; an accepted one leaves dest/<its name> in place *)
Lemma step_present decode ck cfg d m st res st' :
  chk_unmarshal ck = true -> chk_create_file ck = true -> map_good (st_map st) ->
  step decode ck cfg d m st = (res, st') ->
  pmono (st_fs st) (st_fs st') /\ (forall ln, res = NOk ln -> lookup (st_fs st') (d ++ [ln]) <> None).
Proof.
  intros Hu Hcf Hm.
  assert (HJ : forall dd t pl, recv_json ck cfg d dd t pl st = (res, st') ->
    pmono (st_fs st) (st_fs st') /\ (forall ln, res = NOk ln -> lookup (st_fs st') (d ++ [ln]) <> None)).
  { intros dd t pl. unfold recv_json.
    destruct dd as [s|]; [|intro H; inversion H; split; [apply pmono_refl | intros ? Hx; discriminate Hx]].
    destruct (s_rel s) as [|r0 rest]; [intro H; inversion H; split; [apply pmono_refl | intros ? Hx; discriminate Hx]|].
    rewrite Hu. cbn [andb]. destruct (forallb valid_name (r0 :: rest)) eqn:Ev; cbn [negb];
      [|intro H; inversion H; split; [apply pmono_refl | intros ? Hx; discriminate Hx]].
    apply forallb_valid_good in Ev. intro H. split; [eapply cdof_pmono; exact H|].
    intros ln Hl. subst res. apply (cdof_root _ _ _ _ _ _ _ _ _ _ Ev Hm H). }
  unfold step. destruct m as [raw pl|raw pl].
  - destruct (v3 cfg); [apply HJ|]. destruct (directory cfg); [apply HJ|].
    intro H. split; [eapply create_file_pmono; exact H|]. intros ln Hl. subst res.
    apply (create_file_root _ _ _ _ _ _ _ _ _ Hcf H).
  - apply HJ.
Qed.

(* ---------- localNames ---------- *)
Lemma nr_existsb_in ln names : existsb (list_eqb ln) names = true <-> In ln names.
Proof.
  rewrite existsb_exists. split.
  - intros (x & Hx & E). apply list_eqb_eq in E. subst. exact Hx.
  - intro H. exists ln. split; [exact H | apply list_eqb_refl].
Qed.

Lemma nr_add_name_in names ln n : In n (nr_add_name names ln) <-> In n names \/ n = ln.
Proof.
  unfold nr_add_name. destruct (existsb (list_eqb ln) names) eqn:E.
  - apply nr_existsb_in in E. split; [auto | intros [H| ->]; assumption].
  - rewrite in_app_iff. cbn [In]. split.
    + intros [H|[H|H]]; [left; exact H | right; symmetry; exact H | contradiction].
    + intros [H|H]; [left; exact H | right; left; symmetry; exact H].
Qed.

Lemma nr_add_name_nodup names ln : NoDup names -> NoDup (nr_add_name names ln).
Proof.
  intro H. unfold nr_add_name. destruct (existsb (list_eqb ln) names) eqn:E; [exact H|].
  assert (Hn : ~ In ln names) by (intro Hin; apply nr_existsb_in in Hin; congruence).
  clear E. induction names as [|x names IH]; cbn; [constructor; [intros [] | constructor]|].
  inversion H; subst. constructor.
  - rewrite in_app_iff. cbn [In]. intros [Hx|[Hx|Hx]]; [contradiction | | contradiction]. apply Hn. left. symmetry. exact Hx.
  - apply IH; [assumption | intro Hx; apply Hn; right; exact Hx].
Qed.

(* ---------- order: the reported list is the list of roots in the order of their first effect ---------- *)
(* a state only ever appends to its log, and if it appended nothing the file system is the same *)
Definition lgrow (st st' : state) : Prop :=
  exists es, st_log st' = st_log st ++ es /\ (es = [] -> st_fs st' = st_fs st).

Lemma lgrow_refl st : lgrow st st.
Proof. exists []. rewrite app_nil_r. auto. Qed.

Lemma lgrow_trans a b c : lgrow a b -> lgrow b c -> lgrow a c.
Proof.
  intros (e1 & L1 & F1) (e2 & L2 & F2). exists (e1 ++ e2). rewrite L2, L1, app_assoc. split; [reflexivity|].
  intro H. apply app_eq_nil in H as [-> ->]. rewrite F2, F1; reflexivity.
Qed.

Lemma mk_down_quiet : forall rest f pre ok f', mk_down f pre rest = (ok, f', []) -> f' = f.
Proof.
  induction rest as [|c rest IH]; intros f pre ok f' H; cbn [mk_down] in H; [inversion H; reflexivity|].
  destruct (has_nul c || (name_max <? name_len c)); [inversion H; reflexivity|].
  destruct (lookup f (pre ++ [c])) as [[old|]|].
  - inversion H; reflexivity.
  - eapply IH; exact H.
  - destruct (mk_down (set f (pre ++ [c]) Dir) (pre ++ [c]) rest) as [[ok1 f1] es1]. inversion H.
Qed.

Lemma do_create_file_lgrow p t pl st ok st' : do_create_file p t pl st = (ok, st') -> lgrow st st'.
Proof.
  unfold do_create_file, open_create. destruct p as [|c0 p0]; [intro H; inversion H; apply lgrow_refl|]. set (p := c0 :: p0).
  destruct (stat (st_fs st) (removelast p)) as [[|]| |]; try (intro H; inversion H; apply lgrow_refl).
  destruct (has_nul (last p []) || (name_max <? name_len (last p []))); [intro H; inversion H; apply lgrow_refl|].
  destruct (lookup (st_fs st) p) as [[old|]|]; intro H; inversion H; subst; try apply lgrow_refl;
    (eexists; cbn; split; [reflexivity | intro Hx; discriminate Hx]).
Qed.

Lemma do_create_directory_lgrow p st ok st' : do_create_directory p st = (ok, st') -> lgrow st st'.
Proof.
  unfold do_create_directory. destruct (stat (st_fs st) p) as [[old|]| |]; try (intro H; inversion H; apply lgrow_refl).
  unfold mkdir_all. destruct (mk_down (st_fs st) [] p) as [[ok1 f1] es1] eqn:E. intro H; inversion H; subst.
  exists es1. cbn. split; [reflexivity|]. intros ->. apply (mk_down_quiet _ _ _ _ _ E).
Qed.

Lemma create_leaf_lgrow s full t pl ln st res st' : create_leaf s full t pl ln st = (res, st') -> lgrow st st'.
Proof.
  unfold create_leaf.
  assert (HD : forall ok st1, do_create_directory full st = (ok, st1) ->
            (if ok then (NOk ln, st1) else (NErr, st1)) = (res, st') -> lgrow st st').
  { intros ok st1 E H. apply do_create_directory_lgrow in E. destruct ok; inversion H; subst; exact E. }
  destruct (s_archive s).
  - destruct (negb (s_isdir s)); [intro H; inversion H; apply lgrow_refl|].
    destruct (do_create_directory full st) as [ok st1] eqn:E. intro H. apply (HD ok st1 eq_refl). destruct ok; exact H.
  - destruct (s_isdir s).
    + destruct (do_create_directory full st) as [ok st1] eqn:E. intro H. apply (HD ok st1 eq_refl). destruct ok; exact H.
    + destruct (do_create_file full t pl st) as [ok st1] eqn:E. apply do_create_file_lgrow in E.
      destruct ok; intro H; inversion H; subst; exact E.
Qed.

Lemma cdof_lgrow cfg d s r0 rest t pl st res st' : create_dir_or_file cfg d s r0 rest t pl st = (res, st') -> lgrow st st'.
Proof.
  unfold create_dir_or_file. set (chosen := if overwrite cfg then Some (r0, st) else _).
  assert (Hch : chosen = None \/ exists ln0 st1, chosen = Some (ln0, st1) /\ st_fs st1 = st_fs st /\ st_log st1 = st_log st).
  { subst chosen. destruct (overwrite cfg); [right; exists r0, st; auto|].
    destruct (map_get (st_map st) (s_id s)) as [v|]; [right; exists v, st; auto|].
    destruct (get_new_name (st_fs st) d r0) as [ln0|]; [|left; reflexivity].
    right. exists ln0, (set_map st ((s_id s, ln0) :: st_map st)). auto. }
  destruct Hch as [->|(ln0 & st1 & -> & E1 & E2)]; [intro H; inversion H; apply lgrow_refl|].
  assert (L01 : lgrow st st1) by (exists []; rewrite app_nil_r; auto).
  destruct rest as [|c rest].
  - intro H. eapply lgrow_trans; [exact L01 | apply (create_leaf_lgrow _ _ _ _ _ _ _ _ H)].
  - destruct (do_create_directory (join d (ln0 :: removelast (c :: rest))) st1) as [ok st2] eqn:Ed.
    apply do_create_directory_lgrow in Ed. destruct ok.
    + intro H. eapply lgrow_trans; [exact L01|]. eapply lgrow_trans; [exact Ed | apply (create_leaf_lgrow _ _ _ _ _ _ _ _ H)].
    + intro H; inversion H; subst. eapply lgrow_trans; eassumption.
Qed.

Lemma create_file_lgrow ck cfg d nm t pl st res st' : create_file ck cfg d nm t pl st = (res, st') -> lgrow st st'.
Proof.
  unfold create_file. destruct (chk_create_file ck && negb (valid_name nm)); [intro H; inversion H; apply lgrow_refl|].
  destruct (if overwrite cfg then Some nm else get_new_name (st_fs st) d nm) as [ln0|]; [|intro H; inversion H; apply lgrow_refl].
  destruct (do_create_file (join d [ln0]) t pl st) as [ok st1] eqn:E. apply do_create_file_lgrow in E.
  destruct ok; intro H; inversion H; subst; exact E.
Qed.

Lemma step_lgrow decode ck cfg d m st res st' : step decode ck cfg d m st = (res, st') -> lgrow st st'.
Proof.
  assert (HJ : forall dd t pl, recv_json ck cfg d dd t pl st = (res, st') -> lgrow st st').
  { intros dd t pl. unfold recv_json. destruct dd as [s|]; [|intro H; inversion H; apply lgrow_refl].
    destruct (s_rel s) as [|r0 rest]; [intro H; inversion H; apply lgrow_refl|].
    destruct (chk_unmarshal ck && negb (forallb valid_name (r0 :: rest))); [intro H; inversion H; apply lgrow_refl|].
    apply cdof_lgrow. }
  unfold step. destruct m as [raw pl|raw pl]; [|apply HJ].
  destruct (v3 cfg); [apply HJ|]. destruct (directory cfg); [apply HJ|].
  apply create_file_lgrow.
Qed.

(* the top-level name of the destination an effect lies under *)
Definition nr_root_of (d : path) (e : effect) : name := nth (length d) (effect_path e) [].
Definition nr_roots (d : path) (log : list effect) (acc : list name) : list name :=
  fold_left nr_add_name (map (nr_root_of d) log) acc.

Lemma nr_roots_app d l1 l2 acc : nr_roots d (l1 ++ l2) acc = nr_roots d l2 (nr_roots d l1 acc).
Proof. unfold nr_roots. rewrite map_app, fold_left_app. reflexivity. Qed.

Lemma nr_add_name_idem names ln : In ln names -> nr_add_name names ln = names.
Proof. intro H. unfold nr_add_name. apply nr_existsb_in in H. rewrite H. reflexivity. Qed.

Lemma nr_roots_under d ln : forall es acc, (forall e, In e es -> under d ln (effect_path e)) -> In ln acc ->
  nr_roots d es acc = acc.
Proof.
  induction es as [|e es IH]; intros acc H Hin; [reflexivity|]. unfold nr_roots. cbn [map fold_left].
  assert (Hr : nr_root_of d e = ln).
  { destruct (H e (or_introl eq_refl)) as [r Hr]. unfold nr_root_of. rewrite Hr, app_nth2, Nat.sub_diag by lia. reflexivity. }
  rewrite Hr, (nr_add_name_idem acc ln Hin). apply IH; [intros e0 He0; apply H; right; exact He0 | exact Hin].
Qed.

Lemma nr_roots_under_new d ln es acc : es <> [] -> (forall e, In e es -> under d ln (effect_path e)) ->
  nr_roots d es acc = nr_add_name acc ln.
Proof.
  intros Hne H. destruct es as [|e es]; [congruence|]. unfold nr_roots. cbn [map fold_left].
  assert (Hr : nr_root_of d e = ln).
  { destruct (H e (or_introl eq_refl)) as [r Hr]. unfold nr_root_of. rewrite Hr, app_nth2, Nat.sub_diag by lia. reflexivity. }
  rewrite Hr. apply (nr_roots_under d ln es); [intros e0 He0; apply H; right; exact He0|].
  apply nr_add_name_in. right. reflexivity.
Qed.

Section Reported.
  Variables (decode : list N -> option src) (cfg : config) (d : path) (f0 : fs).
  Hypothesis Ho : overwrite cfg = false.

  Let I := Inv d f0 (G0 d f0).

  Lemma nr_inv_map_good st : I st -> map_good (st_map st).
  Proof. intros (_ & _ & _ & _ & Hm) id v Hv. apply (Hm id v Hv). Qed.

  (* what one message does to the top-level names of the destination *)
  Lemma nr_step_facts m st res st' : I st -> step decode code_checks cfg d m st = (res, st') ->
    I st' /\ pmono (st_fs st) (st_fs st') /\
    (forall id v, map_get (st_map st) id = Some v -> map_get (st_map st') id = Some v) /\
    (forall ln, res = NOk ln ->
       G0 d f0 ln /\ lookup (st_fs st') (d ++ [ln]) <> None /\
       (forall n, lookup (st_fs st) (d ++ [n]) = None -> lookup (st_fs st') (d ++ [n]) <> None -> n = ln) /\
       (forall s, msg_src decode cfg m = Some s -> map_get (st_map st') (s_id s) = Some ln) /\
       (exists es, st_log st' = st_log st ++ es /\ (forall e, In e es -> under d ln (effect_path e)) /\
                   (es = [] -> st_fs st' = st_fs st))).
  Proof.
    intros HI H. destruct code_checks_on as [Hu Hcf].
    destruct (step_present decode code_checks cfg d m st res st' Hu Hcf (nr_inv_map_good st HI) H) as [M P].
    destruct (step_inv decode code_checks cfg d f0 (G0 d f0) Hu Hcf (G0_over cfg d f0 Ho) (G0_fresh cfg d f0) m st res st' HI H)
      as [HI' [[-> ->]|(ln0 & A & B & (C & (es & C2 & C3) & _) & D & E & K)]].
    - split; [exact HI'|]. split; [exact M|]. split; [auto|]. intros ln Hx; discriminate Hx.
    - split; [exact HI'|]. split; [exact M|]. split; [exact E|]. intros ln Hl. assert (Hln : ln = ln0) by (apply D; exact Hl). subst ln.
      split; [exact B|]. split; [apply P; exact Hl|]. split; [|split; [apply K; exact Ho|]].
      2:{ exists es. split; [exact C2|]. split; [exact C3|]. intros ->. rewrite app_nil_r in C2.
          destruct (step_lgrow _ _ _ _ _ _ _ _ H) as (es' & L & F). apply F.
          rewrite C2 in L. rewrite <- (app_nil_r (st_log st)) in L at 1. apply app_inv_head in L. symmetry. exact L. }
      intros n Hn Hp. destruct (list_eq_dec N.eq_dec n ln0) as [-> |Hne]; [reflexivity|]. exfalso. apply Hp.
      rewrite C; [exact Hn|]. intros [r Hr]. apply app_inv_head in Hr. inversion Hr. congruence.
  Qed.

  (* the data stream of an archive record whose entries carry the record's own path id: every
     entry lands under the name the record was given *)
  Lemma nr_entries_own id0 ln0 : forall es st st', I st -> map_get (st_map st) id0 = Some ln0 ->
    (forall e se, In e es -> decode (fst e) = Some se -> s_id se = id0) ->
    nr_entries_run decode code_checks cfg d es st = (true, st') ->
    I st' /\ pmono (st_fs st) (st_fs st') /\ map_get (st_map st') id0 = Some ln0 /\
    (forall n, lookup (st_fs st) (d ++ [n]) = None -> lookup (st_fs st') (d ++ [n]) <> None -> n = ln0) /\
    (exists es', st_log st' = st_log st ++ es' /\ forall e, In e es' -> under d ln0 (effect_path e)).
  Proof.
    induction es as [|[raw pl] es IH]; intros st st' HI Hm Hown H; cbn [nr_entries_run] in H.
    - inversion H; subst. split; [exact HI|]. split; [apply pmono_refl|]. split; [exact Hm|].
      split; [intros n Hn Hp; contradiction|]. exists []. rewrite app_nil_r. split; [reflexivity | intros ? []].
    - destruct (step decode code_checks cfg d (MEntry raw pl) st) as [res st1] eqn:E1. destruct res as [ln|]; [|discriminate H].
      destruct (nr_step_facts _ _ _ _ HI E1) as (HI1 & M1 & P1 & F1). destruct (F1 ln eq_refl) as (_ & _ & N1 & K1 & L1).
      assert (Hln : ln = ln0).
      { cbn [msg_src] in K1. destruct (decode raw) as [se|] eqn:Ed.
        - specialize (K1 se eq_refl). rewrite (Hown (raw, pl) se (or_introl eq_refl) Ed) in K1.
          rewrite (P1 _ _ Hm) in K1. congruence.
        - (* an undecodable header is refused *)
          exfalso. unfold step, recv_json in E1. rewrite Ed in E1. discriminate E1. }
      subst ln.
      destruct (IH st1 st' HI1 (P1 _ _ Hm)) as (HI' & M' & Hm' & N' & (e2 & L2 & U2)); [intros e se He; apply Hown; right; exact He | exact H|].
      destruct L1 as (e1 & L1 & U1 & _).
      split; [exact HI'|]. split; [eapply pmono_trans; eassumption|]. split; [exact Hm'|]. split.
      + intros n Hn Hp. destruct (lookup (st_fs st1) (d ++ [n])) as [nd|] eqn:E; [apply N1; [exact Hn | congruence] | apply N'; assumption].
      + exists (e1 ++ e2). rewrite L2, L1, app_assoc. split; [reflexivity|].
        intros e He. apply in_app_or in He as [He|He]; auto.
  Qed.

  (* the relation between the reported list and the destination, kept by the loop *)
  Definition nr_rel (st : state) (names : list name) : Prop :=
    NoDup names /\
    (forall n, In n names -> G0 d f0 n /\ lookup (st_fs st) (d ++ [n]) <> None) /\
    (forall n, G0 d f0 n -> lookup (st_fs st) (d ++ [n]) <> None -> In n names) /\
    names = nr_roots d (st_log st) [].

  Lemma nr_recv_files_rel : forall rs st names names' st', I st -> nr_rel st names ->
    nr_own decode cfg rs = true ->
    nr_recv_files decode code_checks cfg d rs st names = (Some names', st') ->
    I st' /\ nr_rel st' names'.
  Proof.
    induction rs as [|r rs IH]; intros st names names' st' HI HR Hown H; cbn [nr_recv_files] in H.
    - inversion H; subst. auto.
    - cbn [nr_own forallb] in Hown. apply andb_true_iff in Hown as [Hown1 Hown].
      destruct (step decode code_checks cfg d (MName (nr_raw r) (nr_payload r)) st) as [res st1] eqn:E1.
      destruct res as [ln|]; [|discriminate H].
      destruct (nr_step_facts _ _ _ _ HI E1) as (HI1 & M1 & P1 & F1). destruct (F1 ln eq_refl) as (G1 & Pr1 & N1 & K1 & L1).
      destruct HR as (R1 & R2 & R3 & R4).
      assert (HR1 : nr_rel st1 (nr_add_name names ln)).
      { split; [apply nr_add_name_nodup; exact R1|]. split; [|split].
        - intros n Hn. apply nr_add_name_in in Hn as [Hn| ->]; [|split; assumption].
          destruct (R2 n Hn) as [A B]. split; [exact A | apply M1; exact B].
        - intros n Hg Hp. apply nr_add_name_in. destruct (lookup (st_fs st) (d ++ [n])) as [nd|] eqn:E.
          + left. apply R3; [exact Hg | congruence].
          + right. apply N1; assumption.
        - destruct L1 as (es & L1 & U1 & Q1). rewrite L1, nr_roots_app, <- R4.
          destruct (in_dec (list_eq_dec N.eq_dec) ln names) as [Hin|Hnin].
          + rewrite (nr_add_name_idem names ln Hin). symmetry. apply (nr_roots_under d ln); assumption.
          + symmetry. apply nr_roots_under_new; [|exact U1]. intros ->. apply Hnin. apply R3; [exact G1|].
            rewrite <- (Q1 eq_refl). exact Pr1. }
      unfold nr_own_record in Hown1.
      destruct (nr_kind_of decode cfg (nr_raw r)) eqn:Ek; try (eapply IH; eassumption).
      destruct (nr_entries_run decode code_checks cfg d (nr_entries r) st1) as [ok st2] eqn:E2. destruct ok; [|discriminate H].
      (* the archive record was decoded: its path id maps to ln *)
      unfold nr_kind_of in Ek. cbn [msg_src] in K1.
      destruct (v3 cfg || directory cfg); [|discriminate Ek].
      destruct (decode (nr_raw r)) as [s|] eqn:Ed; [|discriminate Ek].
      specialize (K1 s eq_refl).
      destruct (nr_entries_own (s_id s) ln (nr_entries r) st1 st2 HI1 K1) as (HI2 & M2 & _ & N2 & (e2 & L2 & U2)); [|exact E2|].
      { intros e se He Hse. rewrite forallb_forall in Hown1. specialize (Hown1 e He). rewrite Hse in Hown1.
        apply Z.eqb_eq in Hown1. exact Hown1. }
      destruct HR1 as (Q1 & Q2 & Q3 & Q4).
      apply (IH st2 (nr_add_name names ln) names' st' HI2); [|exact Hown | exact H].
      split; [exact Q1|]. split; [|split].
      + intros n Hn. destruct (Q2 n Hn) as [A B]. split; [exact A | apply M2; exact B].
      + intros n Hg Hp. destruct (lookup (st_fs st1) (d ++ [n])) as [nd|] eqn:E; [apply Q3; [exact Hg | congruence]|].
        rewrite (N2 n E Hp). apply nr_add_name_in. right. reflexivity.
      + rewrite L2, nr_roots_app, <- Q4. symmetry. apply (nr_roots_under d ln); [exact U2|].
        apply nr_add_name_in. right. reflexivity.
  Qed.

  Hypothesis Hd : stat f0 d = SFound Dir.

  (* The names recvFiles reports are, without duplicates, exactly the top-level names of the
     destination that did not exist before and exist now. *)
  Theorem reported_roots rs names st' : nr_own decode cfg rs = true ->
    nr_run decode cfg d rs f0 = (Some names, st') ->
    NoDup names /\
    (forall n, In n names <-> lookup f0 (d ++ [n]) = None /\ lookup (st_fs st') (d ++ [n]) <> None) /\
    names = nr_roots d (st_log st') [].
  Proof.
    intros Hown H. unfold nr_run, nr_run_gen in H.
    destruct (nr_recv_files_rel rs (init_state f0) [] names st' (init_inv d f0 _ Hd)) as (_ & R1 & R2 & R3 & R4); [|exact Hown | exact H|].
    { split; [constructor|]. split; [intros n []|]. split; [|reflexivity]. intros n Hg Hp. exfalso. apply Hp. exact Hg. }
    split; [exact R1|]. split; [|exact R4]. intro n. split; [apply R2 | intros [A B]; apply R3; assumption].
  Qed.
End Reported.

(* ---------- any overwrite setting: what is reported exists ---------- *)
Section Present.
  Variables (decode : list N -> option src) (cfg : config) (d : path) (f0 : fs).
  Let J := Inv d f0 (fun _ => True).

  Lemma nr_any_step m st res st' : J st -> step decode code_checks cfg d m st = (res, st') ->
    J st' /\ pmono (st_fs st) (st_fs st') /\ (forall ln, res = NOk ln -> lookup (st_fs st') (d ++ [ln]) <> None).
  Proof.
    intros HJ H. destruct code_checks_on as [Hu Hcf].
    assert (Hm : map_good (st_map st)) by (destruct HJ as (_ & _ & _ & _ & Hm); intros id v Hv; apply (Hm id v Hv)).
    destruct (step_present decode code_checks cfg d m st res st' Hu Hcf Hm H) as [M P].
    destruct (step_inv decode code_checks cfg d f0 (fun _ => True) Hu Hcf (fun _ _ => Logic.I) (fun _ _ _ _ _ => Logic.I) m st res st' HJ H) as [HJ' _].
    auto.
  Qed.

  Lemma nr_any_entries : forall es st st' ok, J st -> nr_entries_run decode code_checks cfg d es st = (ok, st') ->
    J st' /\ pmono (st_fs st) (st_fs st').
  Proof.
    induction es as [|[raw pl] es IH]; intros st st' ok HJ H; cbn [nr_entries_run] in H.
    - inversion H; subst. split; [exact HJ | apply pmono_refl].
    - destruct (step decode code_checks cfg d (MEntry raw pl) st) as [res st1] eqn:E1.
      destruct (nr_any_step _ _ _ _ HJ E1) as (HJ1 & M1 & _). destruct res as [ln|].
      + destruct (IH _ _ _ HJ1 H) as [HJ' M']. split; [exact HJ' | eapply pmono_trans; eassumption].
      + inversion H; subst. auto.
  Qed.

  Lemma nr_any_recv : forall rs st names names' st', J st ->
    (forall n, In n names -> lookup (st_fs st) (d ++ [n]) <> None) ->
    nr_recv_files decode code_checks cfg d rs st names = (Some names', st') ->
    NoDup names -> NoDup names' /\ forall n, In n names' -> lookup (st_fs st') (d ++ [n]) <> None.
  Proof.
    induction rs as [|r rs IH]; intros st names names' st' HJ HP H Hnd; cbn [nr_recv_files] in H.
    - inversion H; subst. auto.
    - destruct (step decode code_checks cfg d (MName (nr_raw r) (nr_payload r)) st) as [res st1] eqn:E1.
      destruct res as [ln|]; [|discriminate H].
      destruct (nr_any_step _ _ _ _ HJ E1) as (HJ1 & M1 & P1).
      assert (HP1 : forall n, In n (nr_add_name names ln) -> lookup (st_fs st1) (d ++ [n]) <> None).
      { intros n Hn. apply nr_add_name_in in Hn as [Hn | ->]; [apply M1, HP, Hn | apply P1; reflexivity]. }
      pose proof (nr_add_name_nodup names ln Hnd) as Hnd1.
      destruct (nr_kind_of decode cfg (nr_raw r)); try (eapply IH; eassumption).
      destruct (nr_entries_run decode code_checks cfg d (nr_entries r) st1) as [ok st2] eqn:E2. destruct ok; [|discriminate H].
      destruct (nr_any_entries _ _ _ _ HJ1 E2) as [HJ2 M2].
      apply (IH st2 (nr_add_name names ln) names' st' HJ2); [intros n Hn; apply M2, HP1, Hn | exact H | exact Hnd1].
  Qed.

  Theorem reported_present rs names st' : stat f0 d = SFound Dir ->
    nr_run decode cfg d rs f0 = (Some names, st') ->
    NoDup names /\ forall n, In n names -> lookup (st_fs st') (d ++ [n]) <> None.
  Proof.
    intros Hd H. apply (nr_any_recv rs (init_state f0) [] names st' (init_inv d f0 _ Hd)); [intros n [] | exact H | constructor].
  Qed.
End Present.

(* ---------- without the condition on the entries' path ids the equality fails ---------- *)
(* /d is empty; NAME {id 0, ["a"], dir, archive}, entry header {id 7, ["o","x"]} *)
Definition nr_ex_rec : nr_record :=
  {| nr_raw := [1]; nr_payload := []; nr_entries := [([2], [9])] |}.
Definition nr_ex_dec (raw : list N) : option src :=
  match raw with
  | [1] => Some {| s_id := 0; s_rel := [[97]]; s_isdir := true; s_archive := true |}
  | [2] => Some {| s_id := 7; s_rel := [[111]; [120]]; s_isdir := false; s_archive := false |}
  | _ => None
  end.
Definition nr_ex_cfg : config := {| overwrite := false; directory := true; v3 := false |}.

Theorem reported_roots_foreign_refuted :
  exists decode cfg d f0 rs names st', overwrite cfg = false /\ stat f0 d = SFound Dir /\
    nr_run decode cfg d rs f0 = (Some names, st') /\
    exists n, ~ In n names /\ lookup f0 (d ++ [n]) = None /\ lookup (st_fs st') (d ++ [n]) <> None.
Proof.
  exists nr_ex_dec, nr_ex_cfg, [[100]], [([[100]], Dir)], [nr_ex_rec].
  eexists. eexists. split; [reflexivity|]. split; [reflexivity|]. split; [vm_compute; reflexivity|].
  exists [111]. split; [|split; [reflexivity | vm_compute; discriminate]].
  cbn. intros [H|[]]. discriminate H.
Qed.

Lemma nr_ex_not_own : nr_own nr_ex_dec nr_ex_cfg [nr_ex_rec] = false.
Proof. reflexivity. Qed.

