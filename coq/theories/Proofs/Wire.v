From Trzsz Require Import Base.Bytes Gen.Consts Model.Escape Model.Base64 Model.Wire.
From Trzsz Require Import Proofs.Escape Proofs.Base64.
From Coq Require Import Lia ZArith Zify ZifyN ZifyNat.
Ltac Zify.zify_post_hook ::= Z.to_euclidean_division_equations.

(* ---- the regenerated source strings, pinned where the model relies on their meaning ---- *)
Lemma send_line_format_src_ok : Consts.send_line_format = [35; 37; 115; 58; 37; 115; 37; 115]. (* "#%s:%s%s" *)
Proof. reflexivity. Qed.
Lemma data_prefix_src_ok : Consts.deliver_data_prefix = [35; 68; 65; 84; 65; 58] /\
                           Consts.data_v2_base64_prefix = Consts.deliver_data_prefix. (* "#DATA:" *)
Proof. split; reflexivity. Qed.
(* the pieces pipelineSendData writes itself end with the NEGOTIATED newline, not a literal *)
Lemma data_v2_piece_terminator_src_ok : Consts.data_v2_piece_terminator = None.
Proof. reflexivity. Qed.
Lemma data_v2_binary_format_src_ok : Consts.data_v2_binary_format = Consts.deliver_data_prefix ++ [37; 100; 37; 115]. (* "#DATA:%d%s" *)
Proof. reflexivity. Qed.
Lemma data_v1_binary_format_src_ok : Consts.data_v1_binary_format = Consts.deliver_data_prefix ++ [37; 100; 10]. (* "#DATA:%d\n" *)
Proof. reflexivity. Qed.
Lemma pause_line_format_src_ok : Consts.pause_line_format = [35; 37; 115; 58; 61; 37; 115]. (* "#%s:=%s" *)
Proof. reflexivity. Qed.
Lemma ack_line_format_src_ok : Consts.ack_line_format = [35; 83; 85; 67; 67; 58; 37; 100; 47; 37; 100; 37; 115]. (* "#SUCC:%d/%d%s" *)
Proof. reflexivity. Qed.
Lemma client_newline_src_ok : Consts.client_newline = [LF].
Proof. reflexivity. Qed.
Lemma letter_classes_src_ok :
  Consts.trzsz_letter_ranges = [(97, 122); (65, 90); (48, 57)] /\ Consts.trzsz_letter_chars = [35; 58; 43; 47; 61].
Proof. split; reflexivity. Qed.
Lemma reader_buffers_src_ok : Consts.decode_read_buffer = 32768 /\ Consts.escape_reader_buffer = 32768 /\ Consts.file_read_buffer = 32768.
Proof. repeat split; reflexivity. Qed.

(* ---- the shape of every line, computed from the regenerated formats ---- *)
Lemma wire_line_eq typ p nl : wire_line typ p nl = [35] ++ typ ++ [58] ++ p ++ nl.
Proof. unfold wire_line. cbn. rewrite app_nil_r. reflexivity. Qed.
Lemma wire_pause_line_eq typ nl : wire_pause_line typ nl = [35] ++ typ ++ [58; 61] ++ nl.
Proof. unfold wire_pause_line. cbn. rewrite app_nil_r. reflexivity. Qed.
Lemma wire_ack_line_eq l s nl : wire_ack_line l s nl = [35; 83; 85; 67; 67; 58] ++ wire_dec l ++ [47] ++ wire_dec s ++ nl.
Proof. unfold wire_ack_line. cbn. rewrite app_nil_r. reflexivity. Qed.
Lemma wire_data_frame_eq binary nl f : wire_data_frame binary nl f =
  if binary then [35; 68; 65; 84; 65; 58] ++ wire_dec (N.of_nat (length f)) ++ nl ++ f
  else [35; 68; 65; 84; 65; 58] ++ f ++ nl.
Proof. destruct binary; reflexivity. Qed.
(* what pipelineSendData writes for a piece is byte for byte a frame of that piece *)
Lemma wire_data_piece_eq binary nl p : wire_data_piece binary nl p = wire_data_frame binary nl p.
Proof.
  destruct binary; unfold wire_data_piece, wire_data_frame; [|reflexivity].
  cbn. rewrite app_nil_r, <- app_assoc. reflexivity.
Qed.
Lemma wire_render_piece_eq binary nl p : wire_render_piece binary nl p = wire_data_frame binary nl (snd p).
Proof. unfold wire_render_piece. destruct (fst p); [reflexivity|apply wire_data_piece_eq]. Qed.
Lemma wire_v1_chunk_binary_eq t nl c : forall zl,
  wire_v1_chunk zl true t nl c = [35; 68; 65; 84; 65; 58] ++ wire_dec (N.of_nat (length (escape t c))) ++ [LF] ++ escape t c.
Proof. intros zl. unfold wire_v1_chunk. cbn. rewrite <- app_assoc. reflexivity. Qed.

(* ---- isTrzszLetter ---- *)
Lemma sweep256 (P : byte -> bool) : forallb P all_bytes = true -> forall b, byte_ok b = true -> P b = true.
Proof. intros W b Hb. rewrite forallb_forall in W. apply W, in_all_bytes, Hb. Qed.

Lemma wire_letter_byte b : wire_letter b = true -> byte_ok b = true.
Proof.
  unfold wire_letter, byte_ok. cbn [existsb Consts.trzsz_letter_ranges Consts.trzsz_letter_chars fst snd].
  rewrite !orb_false_r. intros H. apply N.ltb_lt.
  repeat (apply orb_prop in H as [H|H]);
    try (apply andb_prop in H as [H1 H2]; apply N.leb_le in H1, H2; lia);
    try (apply N.eqb_eq in H; lia).
Qed.

(* a letter is none of: ETX, LF, CR, ESC, '!' (the bytes the line readers give a meaning to) *)
Definition not_special (b : byte) : bool :=
  negb (b =? ETX) && negb (b =? LF) && negb (b =? CR) && negb (b =? ESC) && negb (b =? 33).

Lemma wire_letter_not_special b : wire_letter b = true -> not_special b = true.
Proof.
  intros H. pose proof (wire_letter_byte b H) as Hb.
  pose proof (sweep256 (fun b => implb (wire_letter b) (not_special b)) ltac:(vm_compute; reflexivity) b Hb) as W.
  cbv beta in W. rewrite H in W. exact W.
Qed.

Theorem b64_is_letter c : is_b64_byte c = true -> wire_letter c = true.
Proof. apply (b64_byte_lift wire_letter). vm_compute. reflexivity. Qed.

(* the payload characters of a base64 line are neither '#' nor ':' (so IndexByte(line, ':')
   finds the separator after the type) nor a newline *)
Lemma b64_not_sep c : is_b64_byte c = true -> (c =? 58) = false /\ (c =? LF) = false /\ (c =? 35) = false.
Proof.
  intros H. apply (b64_byte_lift (fun c => negb (c =? 58) && negb (c =? LF) && negb (c =? 35))) in H; [|vm_compute; reflexivity].
  destruct (c =? 58), (c =? LF), (c =? 35); try discriminate. auto.
Qed.

Lemma digit_is_letter c : is_digit c = true -> wire_letter c = true.
Proof.
  intros H. assert (Hb : byte_ok c = true).
  { unfold is_digit in H. apply andb_prop in H as [_ H]. apply N.leb_le in H. apply N.ltb_lt. lia. }
  pose proof (sweep256 (fun b => implb (is_digit b) (wire_letter b)) ltac:(vm_compute; reflexivity) c Hb) as W.
  cbv beta in W. rewrite H in W. exact W.
Qed.

Lemma alpha_is_letter c : is_alpha c = true -> wire_letter c = true.
Proof.
  intros H. assert (Hb : byte_ok c = true).
  { unfold is_alpha, is_upper, is_lower in H. apply N.ltb_lt.
    apply orb_prop in H as [H|H]; apply andb_prop in H as [_ H]; apply N.leb_le in H; lia. }
  pose proof (sweep256 (fun b => implb (is_alpha b) (wire_letter b)) ltac:(vm_compute; reflexivity) c Hb) as W.
  cbv beta in W. rewrite H in W. exact W.
Qed.

Lemma digit_not_sep c : is_digit c = true -> (c =? 58) = false /\ (c =? LF) = false.
Proof.
  unfold is_digit. intros H. apply andb_prop in H as [H1 H2]. apply N.leb_le in H1, H2.
  split; apply N.eqb_neq; unfold LF; lia.
Qed.

(* ---- decimal numbers ---- *)
Lemma dec_go_digits fuel : forall n acc, forallb is_digit acc = true -> forallb is_digit (wire_dec_go fuel n acc) = true.
Proof.
  assert (D : forall n, is_digit (48 + n mod 10) = true).
  { intros n. unfold is_digit. apply andb_true_intro. split; apply N.leb_le; lia. }
  induction fuel as [|f IH]; intros n acc Ha; cbn [wire_dec_go].
  - cbn [forallb]. rewrite D, Ha. reflexivity.
  - destruct (n / 10 =? 0).
    + cbn [forallb]. rewrite D, Ha. reflexivity.
    + apply IH. cbn [forallb]. rewrite D, Ha. reflexivity.
Qed.

Theorem dec_digits n : forallb is_digit (wire_dec n) = true.
Proof. apply dec_go_digits. reflexivity. Qed.

Lemma undec_go_app l1 : forall a l2,
  wire_undec_go a (l1 ++ l2) = match wire_undec_go a l1 with Some a' => wire_undec_go a' l2 | None => None end.
Proof.
  induction l1 as [|c l1 IH]; intros a l2; [reflexivity|]. cbn [app wire_undec_go].
  destruct (is_digit c); [apply IH|reflexivity].
Qed.

Lemma dec_go_spec fuel : forall n acc, n < 10 ^ N.of_nat (S fuel) ->
  exists ds, wire_dec_go fuel n acc = ds ++ acc /\ ds <> [] /\
             forall a, wire_undec_go a ds = Some (a * 10 ^ N.of_nat (length ds) + n).
Proof.
  assert (One : forall n acc, n < 10 ->
    exists ds, (48 + n mod 10) :: acc = ds ++ acc /\ ds <> [] /\
               forall a, wire_undec_go a ds = Some (a * 10 ^ N.of_nat (length ds) + n)).
  { intros n acc Hn. exists [48 + n mod 10]. split; [reflexivity|]. split; [discriminate|].
    intros a. cbn [wire_undec_go length].
    assert (D : is_digit (48 + n mod 10) = true) by (unfold is_digit; apply andb_true_intro; split; apply N.leb_le; lia).
    rewrite D. apply f_equal. change (10 ^ N.of_nat 1) with 10. lia. }
  induction fuel as [|f IH]; intros n acc Hn; cbn [wire_dec_go].
  - apply One. exact Hn.
  - destruct (n / 10 =? 0) eqn:Z.
    + apply One. apply N.eqb_eq in Z. lia.
    + assert (Hq : n / 10 < 10 ^ N.of_nat (S f)).
      { rewrite (Nat2N.inj_succ (S f)), N.pow_succ_r' in Hn. lia. }
      destruct (IH (n / 10) ((48 + n mod 10) :: acc) Hq) as (ds & E & Ne & U).
      exists (ds ++ [48 + n mod 10]). rewrite E, <- app_assoc. split; [reflexivity|].
      split; [destruct ds; discriminate|].
      intros a. rewrite undec_go_app, U. cbn [wire_undec_go].
      assert (D : is_digit (48 + n mod 10) = true) by (unfold is_digit; apply andb_true_intro; split; apply N.leb_le; lia).
      rewrite D. apply f_equal. rewrite app_length. cbn [length]. rewrite Nat.add_1_r, Nat2N.inj_succ, N.pow_succ_r'.
      set (P := 10 ^ N.of_nat (length ds)). nia.
Qed.

Lemma log2_fuel n : n < 10 ^ N.of_nat (S (N.to_nat (N.log2 n))).
Proof.
  rewrite Nat2N.inj_succ, N2Nat.id.
  destruct (N.eq_dec n 0) as [->|Nz]; [reflexivity|].
  destruct (N.log2_spec n ltac:(lia)) as [_ H].
  eapply N.lt_le_trans; [exact H|]. apply N.pow_le_mono_l. lia.
Qed.

Theorem undec_dec n : wire_undec (wire_dec n) = Some n.
Proof.
  unfold wire_dec. destruct (dec_go_spec _ n [] (log2_fuel n)) as (ds & E & Ne & U).
  rewrite E, app_nil_r. unfold wire_undec. destruct ds as [|d ds]; [congruence|].
  rewrite U. apply f_equal. lia.
Qed.

Lemma dec_nonempty n : wire_dec n <> [].
Proof. intros E. pose proof (undec_dec n) as H. rewrite E in H. discriminate. Qed.

(* ---- frames ---- *)
Lemma frames_go_concat s : forall acc room sizes dflt,
  concat (wire_frames_go s acc room sizes dflt) = rev acc ++ s.
Proof.
  induction s as [|b s IH]; intros acc room sizes dflt; cbn [wire_frames_go].
  - destruct acc; [reflexivity|]. cbn [concat]. rewrite !app_nil_r. reflexivity.
  - destruct room as [|[|room]].
    + destruct (next_size sizes dflt) as [n sizes']. cbn [concat]. rewrite IH. cbn [rev app]. rewrite <- app_assoc. reflexivity.
    + destruct (next_size sizes dflt) as [n sizes']. cbn [concat]. rewrite IH. cbn [rev app]. rewrite <- app_assoc. reflexivity.
    + rewrite IH. cbn [rev]. rewrite <- app_assoc. reflexivity.
Qed.

Theorem frames_concat sizes dflt s : concat (wire_frames sizes dflt s) = s.
Proof. unfold wire_frames. destruct (next_size sizes dflt). apply frames_go_concat. Qed.

Lemma rev_cons_nonempty {A} (b : A) acc : nonempty (rev (b :: acc)) = true.
Proof. cbn [rev]. destruct (rev acc); reflexivity. Qed.

Lemma frames_go_nonempty s : forall acc room sizes dflt,
  all_nonempty (wire_frames_go s acc room sizes dflt) = true.
Proof.
  unfold all_nonempty.
  induction s as [|b s IH]; intros acc room sizes dflt; cbn [wire_frames_go].
  - destruct acc as [|x acc]; [reflexivity|]. cbn [forallb]. rewrite rev_cons_nonempty. reflexivity.
  - destruct room as [|[|room]].
    + destruct (next_size sizes dflt) as [n sizes']. cbn [forallb]. rewrite rev_cons_nonempty, IH. reflexivity.
    + destruct (next_size sizes dflt) as [n sizes']. cbn [forallb]. rewrite rev_cons_nonempty, IH. reflexivity.
    + apply IH.
Qed.

Theorem frames_nonempty sizes dflt s : all_nonempty (wire_frames sizes dflt s) = true.
Proof. unfold wire_frames. destruct (next_size sizes dflt). apply frames_go_nonempty. Qed.

(* no frame is longer than the buffer it was collected in: with sizes bounded by m, every frame is *)
Lemma frames_go_bound m s : forall acc room sizes dflt,
  (1 <= m)%nat -> Forall (fun n => n <= m)%nat sizes -> (dflt <= m)%nat -> (length acc + room <= m)%nat ->
  (room = O -> acc = []) ->
  Forall (fun f => length f <= m)%nat (wire_frames_go s acc room sizes dflt).
Proof.
  induction s as [|b s IH]; intros acc room sizes dflt Hm Hs Hd Hr Hz; cbn [wire_frames_go].
  - destruct acc as [|x acc]; constructor; [|constructor]. rewrite rev_length. lia.
  - assert (Hn : forall n sizes', next_size sizes dflt = (n, sizes') -> (n <= m)%nat /\ Forall (fun n => n <= m)%nat sizes').
    { intros n sizes' E. destruct sizes as [|x r]; cbn in E; injection E as <- <-; [auto|]. inversion Hs; auto. }
    destruct room as [|[|room]].
    + destruct (next_size sizes dflt) as [n sizes'] eqn:E. destruct (Hn _ _ eq_refl) as [Hn1 Hn2].
      rewrite (Hz eq_refl). constructor; [cbn; lia|]. apply IH; auto; try (cbn; lia).
    + destruct (next_size sizes dflt) as [n sizes'] eqn:E. destruct (Hn _ _ eq_refl) as [Hn1 Hn2].
      constructor; [rewrite rev_length; cbn [length] in *; lia|]. apply IH; auto; try (cbn; lia).
    + apply IH; auto; [cbn [length]; lia|discriminate].
Qed.

Theorem frames_bound m sizes dflt s : (1 <= m)%nat -> Forall (fun n => n <= m)%nat sizes -> (dflt <= m)%nat ->
  Forall (fun f => length f <= m)%nat (wire_frames sizes dflt s).
Proof.
  intros Hm Hs Hd. unfold wire_frames. destruct (next_size sizes dflt) as [n sizes'] eqn:E.
  assert (Hn : (n <= m)%nat /\ Forall (fun n => n <= m)%nat sizes').
  { destruct sizes as [|x r]; cbn in E; injection E as <- <-; [auto|]. inversion Hs; auto. }
  destruct Hn. apply frames_go_bound; auto.
Qed.

(* pipelineSendData's further splitting keeps the stream *)
Theorem resplit_concat fs : forall sizes dflt, concat (map snd (wire_resplit fs sizes dflt)) = concat fs.
Proof.
  induction fs as [|f fs IH]; intros sizes dflt; [reflexivity|]. cbn [wire_resplit].
  destruct (next_size sizes dflt) as [n sizes']. destruct (length f <=? n)%nat.
  - cbn [map snd concat]. rewrite IH. reflexivity.
  - rewrite map_app, concat_app, IH, map_map. cbn [snd]. rewrite map_id, frames_concat. reflexivity.
Qed.

(* ... and creates no empty piece out of a non-empty frame (an empty piece would read as the finish flag) *)
Theorem resplit_nonempty fs : forall sizes dflt, all_nonempty fs = true ->
  all_nonempty (map snd (wire_resplit fs sizes dflt)) = true.
Proof.
  unfold all_nonempty. induction fs as [|f fs IH]; intros sizes dflt H; [reflexivity|]. cbn [wire_resplit].
  cbn [forallb] in H. apply andb_prop in H as [Hf Hfs].
  destruct (next_size sizes dflt) as [n sizes']. destruct (length f <=? n)%nat.
  - cbn [map snd forallb]. rewrite Hf, IH; auto.
  - rewrite map_app, forallb_app, IH by assumption. rewrite map_map. cbn [snd]. rewrite map_id.
    pose proof (frames_nonempty sizes' dflt f) as F. unfold all_nonempty in F. rewrite F. reflexivity.
Qed.

(* ---- the four stacks ---- *)
Lemma escape_nil d : escape [] d = d.
Proof. induction d as [|b d IH]; [reflexivity|]. cbn. rewrite IH. reflexivity. Qed.

Lemma ew_write_nil cs : concat (ew_write [] cs) = concat cs.
Proof. rewrite ew_write_concat. apply escape_nil. Qed.

Section StackProofs.
Variable zcomp : list (list byte) -> list (list byte).
Variable zdecomp : list byte -> option (list byte).
(* the library's streaming round trip, and: a compressor outputs bytes *)
Hypothesis z_roundtrip : forall cs, zdecomp (concat (zcomp cs)) = Some (concat cs).
Hypothesis z_bytes : forall cs, bytes_ok (concat (zcomp cs)) = true.

Lemma wire_encode_eq binary compress t chunks :
  wire_encode zcomp binary compress t chunks =
  let mid := concat (if compress then zcomp chunks else chunks) in
  if binary then escape t mid else b64_encode mid.
Proof.
  unfold wire_encode. cbv zeta. destruct binary; [apply ew_write_concat|apply writer_concat].
Qed.

(* whatever positive sizes the frames have (the adaptive buffer size, pipelineSendData's
   further splitting, re-chunking by the transport), and whatever buffer sizes the
   decoding stages read with: the decoder returns the file content *)
Theorem L1_roundtrip_frames binary compress t chunks fs rsizes rdflt :
  (t = [] \/ wf t = true) -> bytes_ok (concat chunks) = true ->
  all_nonempty fs = true -> concat fs = wire_encode zcomp binary compress t chunks ->
  Forall (fun s => 1 <= s)%nat rsizes -> (1 <= rdflt)%nat ->
  wire_decode zdecomp binary compress t fs rsizes rdflt = Some (concat chunks).
Proof.
  intros Ht Hd Hne E Hrs Hrd. rewrite wire_encode_eq in E. cbv zeta in E.
  set (mid := concat (if compress then zcomp chunks else chunks)) in *.
  assert (Hmid : bytes_ok mid = true) by (subst mid; destruct compress; [apply z_bytes|exact Hd]).
  assert (Fin : (if compress then zdecomp mid else Some mid) = Some (concat chunks)).
  { subst mid. destruct compress; [apply z_roundtrip|reflexivity]. }
  unfold wire_decode. destruct binary.
  - destruct Ht as [->|W].
    + rewrite E, escape_nil. exact Fin.
    + destruct t as [|p t']; [vm_compute in W; discriminate|]. set (t := p :: t') in *.
      destruct (stream t mid fs rsizes rdflt W Hmid Hne Hrs Hrd E) as (outs & R & C & _).
      rewrite R, C. exact Fin.
  - rewrite E, (roundtrip mid Hmid). exact Fin.
Qed.

Theorem L1_roundtrip binary compress t chunks sizes dflt rsizes rdflt :
  (t = [] \/ wf t = true) -> bytes_ok (concat chunks) = true ->
  Forall (fun s => 1 <= s)%nat rsizes -> (1 <= rdflt)%nat ->
  wire_decode zdecomp binary compress t
     (wire_frames sizes dflt (wire_encode zcomp binary compress t chunks)) rsizes rdflt = Some (concat chunks).
Proof.
  intros Ht Hd Hrs Hrd. apply L1_roundtrip_frames; auto; [apply frames_nonempty|apply frames_concat].
Qed.

(* the same after pipelineSendData has cut frames again *)
Theorem L1_roundtrip_resplit binary compress t chunks sizes dflt ssizes rsizes rdflt :
  (t = [] \/ wf t = true) -> bytes_ok (concat chunks) = true ->
  Forall (fun s => 1 <= s)%nat rsizes -> (1 <= rdflt)%nat ->
  wire_decode zdecomp binary compress t
     (map snd (wire_resplit (wire_frames sizes dflt (wire_encode zcomp binary compress t chunks)) ssizes dflt))
     rsizes rdflt = Some (concat chunks).
Proof.
  intros Ht Hd Hrs Hrd. apply L1_roundtrip_frames; auto.
  - apply resplit_nonempty, frames_nonempty.
  - rewrite resplit_concat. apply frames_concat.
Qed.

(* base64 mode: every frame consists of base64 characters *)
Lemma frames_b64 compress t chunks fs f :
  concat fs = wire_encode zcomp false compress t chunks -> In f fs -> forallb is_b64_byte f = true.
Proof.
  intros E Hf. rewrite wire_encode_eq in E. cbv zeta in E.
  apply forallb_forall. intros b Hb.
  assert (Hin : In b (concat fs)) by (apply in_concat; eauto).
  rewrite E in Hin. pose proof (encode_alphabet (concat (if compress then zcomp chunks else chunks))) as A.
  rewrite forallb_forall in A. exact (A b Hin).
Qed.

(* ---- protocol 1: per-chunk coding ---- *)
Variable zl : list byte -> list byte.
Variable unzl : list byte -> option (list byte).
Hypothesis zl_roundtrip : forall d, unzl (zl d) = Some d.
Hypothesis zl_bytes : forall d, bytes_ok (zl d) = true.

Theorem decode_string_encode_bytes d : wire_decode_string unzl (wire_encode_bytes zl d) = Some d.
Proof. unfold wire_decode_string, wire_encode_bytes. rewrite (roundtrip _ (zl_bytes d)). apply zl_roundtrip. Qed.

Theorem v1_roundtrip binary t chunk : (t = [] \/ wf t = true) -> bytes_ok chunk = true ->
  wire_v1_decode unzl binary t (if binary then escape t chunk else wire_encode_bytes zl chunk) = Some chunk.
Proof.
  intros Ht Hc. unfold wire_v1_decode. destruct binary; [|apply decode_string_encode_bytes].
  destruct Ht as [->|W]; [rewrite escape_nil; reflexivity|].
  rewrite (Proofs.Escape.roundtrip t chunk W Hc). reflexivity.
Qed.

End StackProofs.

(* ---- the receiver's view of the sender's frame lines ---- *)
Lemma split_lf_app l r : forallb (fun c => negb (c =? LF)) l = true -> wire_split_lf (l ++ LF :: r) = Some (l, r).
Proof.
  induction l as [|c l IH]; intros H; cbn [app wire_split_lf].
  - rewrite N.eqb_refl. reflexivity.
  - cbn [forallb] in H. apply andb_prop in H as [Hc Hl]. destruct (c =? LF); [discriminate|].
    rewrite (IH Hl). reflexivity.
Qed.

Lemma check_data payload : wire_check wire_DATA ([35; 68; 65; 84; 65; 58] ++ payload) = Some payload.
Proof. reflexivity. Qed.

Lemma no_lf_prefix l : forallb (fun c => negb (c =? LF)) l = true ->
  forallb (fun c => negb (c =? LF)) ([35; 68; 65; 84; 65; 58] ++ l) = true.
Proof. intros H. rewrite forallb_app, H. reflexivity. Qed.

Lemma b64_no_lf f : forallb is_b64_byte f = true -> forallb (fun c => negb (c =? LF)) f = true.
Proof.
  intros H. apply forallb_forall. intros c Hc. rewrite forallb_forall in H.
  destruct (b64_not_sep c (H c Hc)) as (_ & E & _). rewrite E. reflexivity.
Qed.

Lemma digits_no_lf l : forallb is_digit l = true -> forallb (fun c => negb (c =? LF)) l = true.
Proof.
  intros H. apply forallb_forall. intros c Hc. rewrite forallb_forall in H.
  destruct (digit_not_sep c (H c Hc)) as (_ & E). rewrite E. reflexivity.
Qed.

Lemma reassoc_bin (p d f more : list byte) : (p ++ d ++ [LF] ++ f) ++ more = (p ++ d) ++ LF :: (f ++ more).
Proof. rewrite <- !app_assoc. reflexivity. Qed.
Lemma reassoc_b64 (p f more : list byte) : (p ++ f ++ [LF]) ++ more = (p ++ f) ++ LF :: more.
Proof. rewrite <- !app_assoc. reflexivity. Qed.

(* what makes a frame readable back: non-empty (the empty frame is the finish flag) and,
   in base64 mode, made of base64 characters (no LF, no ':') *)
Definition frame_ok (binary : bool) (f : list byte) : bool :=
  nonempty f && (binary || forallb is_b64_byte f).

Theorem L1_frames_parse binary : forall fs rest fuel, forallb (frame_ok binary) fs = true -> (length fs < fuel)%nat ->
  wire_recv fuel binary (concat (map (wire_data_frame binary [LF]) (fs ++ [[]])) ++ rest) = Some (fs, rest).
Proof.
  induction fs as [|f fs IH]; intros rest fuel Hok Hf; (destruct fuel as [|fuel]; [lia|]).
  - (* the finish flag *)
    cbn [app map concat]. rewrite app_nil_r, wire_data_frame_eq. destruct binary.
    + change (wire_dec (N.of_nat (length (@nil byte)))) with [48].
      change (([35; 68; 65; 84; 65; 58] ++ [48] ++ [LF] ++ []) ++ rest) with ([35; 68; 65; 84; 65; 58; 48] ++ LF :: rest).
      cbn [wire_recv]. rewrite split_lf_app by reflexivity. reflexivity.
    + change (([35; 68; 65; 84; 65; 58] ++ [] ++ [LF]) ++ rest) with ([35; 68; 65; 84; 65; 58] ++ LF :: rest).
      cbn [wire_recv]. rewrite split_lf_app by reflexivity. reflexivity.
  - cbn [forallb] in Hok. apply andb_prop in Hok as [Hfo Hok]. unfold frame_ok in Hfo. apply andb_prop in Hfo as [Hne Hb].
    cbn [app map concat]. rewrite <- app_assoc.
    specialize (IH rest fuel Hok ltac:(cbn [length] in Hf; lia)).
    set (more := concat (map (wire_data_frame binary [LF]) (fs ++ [[]])) ++ rest) in *.
    rewrite wire_data_frame_eq. destruct binary.
    + set (n := N.of_nat (length f)).
      rewrite reassoc_bin.
      cbn [wire_recv]. rewrite split_lf_app by (apply no_lf_prefix, digits_no_lf, dec_digits).
      rewrite check_data, undec_dec.
      assert (Hn : (n =? 0) = false) by (apply N.eqb_neq; subst n; destruct f; [discriminate|cbn [length]; lia]).
      rewrite Hn. subst n. rewrite Nat2N.id.
      assert (Hl : (length f <=? length (f ++ more))%nat = true) by (apply Nat.leb_le; rewrite app_length; lia).
      rewrite Hl, skipn_app, skipn_all, Nat.sub_diag, firstn_app, firstn_all, Nat.sub_diag. cbn [skipn firstn app].
      rewrite IH, app_nil_r. reflexivity.
    + cbn [orb] in Hb.
      rewrite reassoc_b64.
      cbn [wire_recv]. rewrite split_lf_app by (apply no_lf_prefix, b64_no_lf, Hb).
      rewrite check_data. destruct f as [|c f]; [discriminate|]. rewrite IH. reflexivity.
Qed.

(* the frames of any stack are readable back: the receiver gets exactly the frames the
   sender cut, and (L1_roundtrip) decodes them to the file content *)
Lemma frames_ok_send zcomp binary compress t chunks fs :
  all_nonempty fs = true -> concat fs = wire_encode zcomp binary compress t chunks ->
  forallb (frame_ok binary) fs = true.
Proof.
  intros Hne E. apply forallb_forall. intros f Hf. unfold frame_ok.
  unfold all_nonempty in Hne. rewrite forallb_forall in Hne. rewrite (Hne f Hf). cbn [andb].
  destruct binary; [reflexivity|]. cbn [orb]. eapply frames_b64; eauto.
Qed.

(* ---- C04: nothing the uploading client writes is a protected byte ---- *)
Definition wire_safe (b : byte) : bool := wire_letter b || (b =? LF).

Lemma esc_code_in t b c : esc_code t b = Some c -> In b (map fst t).
Proof.
  revert c. induction t as [|[s c'] t IH]; intros c; cbn [esc_code map fst]; [discriminate|].
  destruct (esc_code t b) as [x|] eqn:E.
  - intros _. right. apply (IH x). reflexivity.
  - destruct (s =? b) eqn:Es; [|discriminate]. intros _. left. apply N.eqb_eq, Es.
Qed.

Lemma builtin_sources_bytes ea : forallb byte_ok (map fst (builtin_table ea)) = true.
Proof. destruct ea; vm_compute; reflexivity. Qed.

Lemma builtin_protected_byte ea b : protected (builtin_table ea) b = true -> byte_ok b = true.
Proof.
  unfold protected. destruct (esc_code (builtin_table ea) b) as [c|] eqn:E; [|discriminate]. intros _.
  pose proof (builtin_sources_bytes ea) as W. rewrite forallb_forall in W. apply W. eapply esc_code_in, E.
Qed.

(* digits, '#', ':', LF, letters, '+', '/', '=' are not protected: finite check on the GENERATED tables *)
Lemma safe_sweep ea : forallb (fun b => implb (wire_safe b) (negb (protected (builtin_table ea) b))) all_bytes = true.
Proof. destruct ea; vm_compute; reflexivity. Qed.

Lemma safe_not_protected ea b : wire_safe b = true -> protected (builtin_table ea) b = false.
Proof.
  intros H. destruct (protected (builtin_table ea) b) eqn:P; [|reflexivity].
  pose proof (sweep256 _ (safe_sweep ea) b (builtin_protected_byte ea b P)) as W. cbv beta in W.
  rewrite H, P in W. discriminate.
Qed.

Lemma escaped_not_protected ea d b : In b (escape (builtin_table ea) d) -> protected (builtin_table ea) b = false.
Proof.
  intros H. destruct (protected (builtin_table ea) b) eqn:P; [|reflexivity].
  pose proof (builtin_protected_byte ea b P) as Hb.
  pose proof builtin_clean as [C0 C1].
  rewrite (no_protected (builtin_table ea) d b (if ea as x return clean (builtin_table x) = true then C1 else C0) Hb H) in P.
  discriminate.
Qed.

Lemma safe_letters l : forallb wire_letter l = true -> forallb wire_safe l = true.
Proof.
  intros H. apply forallb_forall. intros b Hb. rewrite forallb_forall in H. unfold wire_safe. rewrite (H b Hb). reflexivity.
Qed.
Lemma safe_typ typ : wire_typ_ok typ = true -> forallb wire_safe typ = true.
Proof.
  intros H. apply safe_letters, forallb_forall. intros b Hb. unfold wire_typ_ok in H. rewrite forallb_forall in H.
  specialize (H b Hb). apply orb_prop in H as [H|H]; [apply alpha_is_letter, H|apply digit_is_letter, H].
Qed.
Lemma safe_dec n : forallb wire_safe (wire_dec n) = true.
Proof.
  apply safe_letters, forallb_forall. intros b Hb. pose proof (dec_digits n) as H. rewrite forallb_forall in H.
  apply digit_is_letter, H, Hb.
Qed.
Lemma safe_b64 l : forallb is_b64_byte l = true -> forallb wire_safe l = true.
Proof.
  intros H. apply safe_letters, forallb_forall. intros b Hb. rewrite forallb_forall in H. apply b64_is_letter, H, Hb.
Qed.

Definition wmsg_payload_ok (t : table) (m : wmsg) : Prop :=
  match m with
  | WFrame _ p => exists d, incl p (escape t d)   (* a piece of an escaped stream; d is arbitrary: the compressor's output *)
  | _ => True
  end.

Section Clean.
Variable zl : list byte -> list byte.

Lemma render_clean ea m b : let t := builtin_table ea in
  wmsg_typ_ok m = true -> wmsg_payload_ok t m ->
  In b (wire_render zl true t Consts.client_newline m) -> protected t b = false.
Proof.
  intros t Ht Hp Hin.
  assert (Safe : forall l, forallb wire_safe l = true -> In b l -> protected t b = false).
  { intros l Hl Hb. rewrite forallb_forall in Hl. apply safe_not_protected, Hl, Hb. }
  destruct m as [typ z|typ n|typ v|typ|l s|pre p|c]; cbn [wire_render wmsg_typ_ok wmsg_payload_ok] in *.
  - apply (Safe _) in Hin; [exact Hin|]. rewrite wire_line_eq, !forallb_app, (safe_typ typ Ht), (safe_b64 _ (encode_alphabet z)). reflexivity.
  - apply (Safe _) in Hin; [exact Hin|]. unfold wire_int_line. rewrite wire_line_eq, !forallb_app, (safe_typ typ Ht), safe_dec. reflexivity.
  - apply (Safe _) in Hin; [exact Hin|]. rewrite wire_line_eq, !forallb_app, (safe_typ typ Ht). destruct v; reflexivity.
  - apply (Safe _) in Hin; [exact Hin|]. rewrite wire_pause_line_eq, !forallb_app, (safe_typ typ Ht). reflexivity.
  - apply (Safe _) in Hin; [exact Hin|]. rewrite wire_ack_line_eq, !forallb_app, !safe_dec. reflexivity.
  - rewrite wire_render_piece_eq, wire_data_frame_eq in Hin. cbn [snd] in Hin.
    rewrite !app_assoc in Hin. apply in_app_or in Hin as [Hin|Hin].
    + apply (Safe _) in Hin; [exact Hin|]. rewrite !forallb_app, safe_dec. reflexivity.
    + destruct Hp as (d & Hd). eapply escaped_not_protected, Hd, Hin.
  - rewrite wire_v1_chunk_binary_eq in Hin. rewrite !app_assoc in Hin. apply in_app_or in Hin as [Hin|Hin].
    + apply (Safe _) in Hin; [exact Hin|]. rewrite !forallb_app, safe_dec. reflexivity.
    + eapply escaped_not_protected, Hin.
Qed.

Theorem upload_wire_clean ea ms b : let t := builtin_table ea in
  Forall (fun m => wmsg_typ_ok m = true) ms -> Forall (wmsg_payload_ok t) ms ->
  In b (wire_bytes zl true t Consts.client_newline ms) -> protected t b = false.
Proof.
  intros t Ht Hp Hin. unfold wire_bytes in Hin. apply in_concat in Hin as (l & Hl & Hb).
  apply in_map_iff in Hl as (m & <- & Hm). rewrite Forall_forall in Ht, Hp.
  exact (render_clean ea m b (Ht m Hm) (Hp m Hm) Hb).
Qed.

(* the concrete transcript of an upload: ACT, NUM, per file NAME SIZE frames MD5, EXIT, with
   keep-alive lines anywhere; the compressor [zcomp] is an ARBITRARY function *)
Variable zcomp : list (list byte) -> list (list byte).

Lemma file_msgs_ok compress t name_z size chunks sizes dflt rsizes md5_z m :
  In m (wire_file_msgs zcomp true compress t name_z size chunks sizes dflt rsizes md5_z) ->
  wmsg_typ_ok m = true /\ wmsg_payload_ok t m.
Proof.
  unfold wire_file_msgs. intros H. apply in_app_or in H as [H|H].
  { destruct H as [<-|[<-|[]]]; (split; [reflexivity|exact I]). }
  apply in_app_or in H as [H|H].
  - apply in_map_iff in H as (p & <- & Hp). split; [reflexivity|]. cbn [wmsg_payload_ok].
    exists (concat (if compress then zcomp chunks else chunks)).
    intros x Hx.
    assert (Hc : In x (concat (map snd (wire_resplit (wire_send zcomp true compress t chunks sizes dflt) rsizes dflt)))).
    { apply in_concat. exists (snd p). split; [apply in_map, Hp|exact Hx]. }
    rewrite resplit_concat in Hc. unfold wire_send in Hc. rewrite concat_app, frames_concat in Hc.
    cbn [concat app] in Hc. rewrite app_nil_r in Hc. rewrite (wire_encode_eq zcomp) in Hc. exact Hc.
  - destruct H as [<-|[]]. split; [reflexivity|exact I].
Qed.

Theorem upload_transcript_clean ea act_z files dflt exit_z ms b : let t := builtin_table ea in
  (forall m, In m ms -> In m (wire_upload_msgs zcomp true t act_z files dflt exit_z) \/
                        exists typ, m = WPause typ /\ wire_typ_ok typ = true) ->
  In b (wire_bytes zl true t Consts.client_newline ms) -> protected t b = false.
Proof.
  intros t Hms Hin.
  assert (Ok : forall m, In m ms -> wmsg_typ_ok m = true /\ wmsg_payload_ok t m).
  { intros m Hm. destruct (Hms m Hm) as [H|(typ & -> & Ht)]; [|split; [exact Ht|exact I]].
    unfold wire_upload_msgs in H. apply in_app_or in H as [H|H].
    { destruct H as [<-|[<-|[]]]; (split; [reflexivity|exact I]). }
    apply in_app_or in H as [H|H].
    - apply in_flat_map in H as (f & _ & H). eapply file_msgs_ok, H.
    - destruct H as [<-|[]]. split; [reflexivity|exact I]. }
  apply (upload_wire_clean ea ms b); [apply Forall_forall; intros m Hm; apply Ok, Hm| |exact Hin].
  apply Forall_forall. intros m Hm. apply Ok, Hm.
Qed.

End Clean.
