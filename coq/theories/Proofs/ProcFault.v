(* Every fault reaches ctx.cancel (C11, first half): generic consequences of
   [faults_cancel N = true] in the interleaving semantics of Model/Proc.v.

   fault_path_trace    after an operation of goroutine p has failed, along EVERY execution
                       (any schedule) p stays on an error path until the context is cancelled,
                       and p itself takes at most [cmL h + 2] steps before that;
   direct_enabled      if the error path does not wait for anybody (strict), p can always move;
   fault_terminates    A + B + the above: a fault => cancelled => all workers gone;
   exit_cancels        a goroutine with `defer ctx.cancel(nil)` that has exited has cancelled. *)
From Coq Require Import List Arith Bool Lia.
Import ListNotations.
From Trzsz Require Import Model.Proc Model.ProcFault Proofs.Proc.

(* ------------------------------------------------------------------------------- *)
(* unfolding lemmas for the nested fixpoints *)

Section CcLemmas.
Variables st qe : bool.

Lemma cc_fix kr l :
  (fix go (l : list stmt) : bool := match l with [] => kr | x :: t => ccS st qe x (go t) end) l = cc st qe kr l.
Proof. induction l as [|x t IH]; [reflexivity|]. cbn [cc]. rewrite <- IH. reflexivity. Qed.

Lemma ccS_ioe kd h kr : ccS st qe (IoE kd h) kr = cc st qe kr h && kr.
Proof. cbn [ccS]. rewrite cc_fix. reflexivity. Qed.
Lemma ccS_branch a b kr : ccS st qe (Branch a b) kr = cc st qe kr a && cc st qe kr b.
Proof. cbn [ccS]. rewrite !cc_fix. reflexivity. Qed.
Lemma ccS_sel cs kr : ccS st qe (Sel cs) kr = negb st && ccC st qe kr cs.
Proof.
  cbn [ccS]. f_equal. unfold ccC.
  induction cs as [|[a bd] r IH]; [reflexivity|]. cbn [forallb fst snd]. rewrite <- IH, cc_fix. reflexivity.
Qed.
Lemma ccC_in kr cs a bd : ccC st qe kr cs = true -> In (a, bd) cs -> is_done a = true \/ cc st qe kr bd = true.
Proof.
  unfold ccC. intros H I. rewrite forallb_forall in H. specialize (H _ I). cbn [fst snd] in H.
  apply orb_true_iff in H. exact H.
Qed.

Lemma ccK_app e l k : ccK st qe e (lift l ++ k) = cc st qe (ccK st qe e k) l.
Proof.
  induction l as [|s l IH]; [reflexivity|].
  cbn [lift map app ccK cc]. fold (lift l). rewrite IH. reflexivity.
Qed.
Lemma ccK_lift l : ccK st qe false (lift l) = cc st qe false l.
Proof. rewrite <- (app_nil_r (lift l)), ccK_app. reflexivity. Qed.
End CcLemmas.

Lemma cm_fix l :
  (fix ms (l : list stmt) : nat := match l with [] => 0 | x :: t => cmS x + ms t end) l = cmL l.
Proof. induction l as [|x t IH]; [reflexivity|]. cbn [cmL fold_right]. fold (cmL t). rewrite <- IH. reflexivity. Qed.
Lemma cmS_ioe kd h : cmS (IoE kd h) = 1 + cmL h.
Proof. cbn [cmS]. rewrite cm_fix. reflexivity. Qed.
Lemma cmS_branch a b : cmS (Branch a b) = 1 + cmL a + cmL b.
Proof. cbn [cmS]. rewrite !cm_fix. reflexivity. Qed.
Lemma cmS_sel cs : cmS (Sel cs) = 1 + cmC cs.
Proof.
  cbn [cmS]. f_equal. unfold cmC.
  induction cs as [|[a bd] r IH]; [reflexivity|]. cbn [fold_right snd]. rewrite <- IH, cm_fix. reflexivity.
Qed.
Lemma cmC_in cs a bd : In (a, bd) cs -> cmL bd <= cmC cs.
Proof.
  unfold cmC. induction cs as [|c r IH]; intros I; [contradiction|].
  cbn [fold_right]. destruct I as [->|I]; [cbn [snd]; lia|]. specialize (IH I). lia.
Qed.
Lemma cmK_app a b : cmK (a ++ b) = cmK a + cmK b.
Proof. induction a as [|i a IH]; [reflexivity|]. cbn [app cmK fold_right]. fold (cmK (a ++ b)) (cmK a). lia. Qed.
Lemma cmK_lift l : cmK (lift l) = cmL l.
Proof. induction l as [|s l IH]; [reflexivity|]. cbn [lift map cmK cmL fold_right cmI]. fold (lift l) (cmK (lift l)) (cmL l). lia. Qed.
Lemma cmK_cons s k : cmK (IStmt s :: k) = cmS s + cmK k.
Proof. reflexivity. Qed.

Section AllLemmas.
Variable P : stmt -> bool.
Lemma all_fix l :
  (fix al (l : list stmt) : bool := match l with [] => true | x :: t => allS P x && al t end) l = allL P l.
Proof. induction l as [|x t IH]; [reflexivity|]. cbn [allL forallb]. fold (allL P t). rewrite <- IH. reflexivity. Qed.
Lemma allS_ioe kd h : allS P (IoE kd h) = P (IoE kd h) && allL P h.
Proof. cbn [allS]. rewrite all_fix. reflexivity. Qed.
Lemma allS_branch a b : allS P (Branch a b) = P (Branch a b) && (allL P a && allL P b).
Proof. cbn [allS]. rewrite !all_fix. reflexivity. Qed.
Lemma allS_ctx bd : allS P (LoopCtx bd) = P (LoopCtx bd) && allL P bd.
Proof. cbn [allS]. rewrite all_fix. reflexivity. Qed.
Lemma allS_range c bd : allS P (LoopRange c bd) = P (LoopRange c bd) && allL P bd.
Proof. cbn [allS]. rewrite all_fix. reflexivity. Qed.
Lemma allS_data bd : allS P (LoopData bd) = P (LoopData bd) && allL P bd.
Proof. cbn [allS]. rewrite all_fix. reflexivity. Qed.
Lemma allS_sel cs : allS P (Sel cs) = P (Sel cs) && allC P cs.
Proof.
  cbn [allS]. f_equal. unfold allC.
  induction cs as [|[a bd] r IH]; [reflexivity|]. cbn [forallb snd]. rewrite <- IH, all_fix. reflexivity.
Qed.
Lemma allS_here s : allS P s = true -> P s = true.
Proof. destruct s; cbn [allS]; intro H; apply andb_true_iff in H; tauto. Qed.
Lemma allC_in cs a bd : allC P cs = true -> In (a, bd) cs -> allL P bd = true.
Proof. unfold allC. intros H I. rewrite forallb_forall in H. exact (H _ I). Qed.
Lemma allK_lift l : allK P (lift l) = allL P l.
Proof. unfold allK, allL, lift. induction l; cbn; congruence. Qed.
Lemma allK_app a b : allK P (a ++ b) = allK P a && allK P b.
Proof. apply forallb_app. Qed.

(* the test is inherited along every step of a goroutine *)
Lemma cstep_all D k k' : allK P k = true -> cstep D k (Cont k') -> allK P k' = true.
Proof.
  intros W H. inversion H; subst; cbn [allK forallb allI] in W;
    try (apply andb_true_iff in W; destruct W as [Wi Wk]).
  - rewrite allS_sel in Wi. apply andb_true_iff in Wi. destruct Wi as [_ Wc].
    rewrite allK_app, allK_lift.
    match goal with Hin : In (_, _) _ |- _ => rewrite (allC_in _ _ _ Wc Hin) end. exact Wk.
  - exact Wk.
  - exact Wk.
  - rewrite allS_ioe in Wi. apply andb_true_iff in Wi. destruct Wi as [_ Wh].
    rewrite allK_app, allK_lift, Wh. exact Wk.
  - exact Wk.
  - exact Wk.
  - exact Wk.
  - exact Wk.
  - exact Wk.
  - exact Wk.
  - rewrite allS_branch in Wi. apply andb_true_iff in Wi. destruct Wi as [_ Wab].
    apply andb_true_iff in Wab. rewrite allK_app, allK_lift. destruct Wab as [-> _]. exact Wk.
  - rewrite allS_branch in Wi. apply andb_true_iff in Wi. destruct Wi as [_ Wab].
    apply andb_true_iff in Wab. rewrite allK_app, allK_lift. destruct Wab as [_ ->]. exact Wk.
  - rewrite allS_ctx in Wi. apply andb_true_iff in Wi. destruct Wi as [_ Wb].
    cbn [allK forallb allI]. rewrite Wb. exact Wk.
  - exact Wk.
  - rewrite allS_range in Wi. apply andb_true_iff in Wi. destruct Wi as [_ Wb].
    cbn [allK forallb allI]. rewrite Wb. exact Wk.
  - rewrite allK_app, allK_lift, Wi. cbn [allK forallb allI]. rewrite Wi. exact Wk.
  - exact Wk.
  - rewrite allS_data in Wi. apply andb_true_iff in Wi. destruct Wi as [_ Wb].
    cbn [allK forallb allI]. rewrite Wb. exact Wk.
  - rewrite allK_app, allK_lift, Wi. cbn [allK forallb allI]. rewrite Wi. exact Wk.
  - exact Wk.
Qed.
End AllLemmas.

(* ------------------------------------------------------------------------------- *)
Section Fault.
Variable N : net.
Variable D : nat.
Variable io_ret : iokind -> bool.

Notation lstep := (lstep N D io_ret).
Notation gstep := (gstep N D io_ret).
Notation lsteps := (lsteps N D io_ret).
Notation reach := (reach N D io_ret).
Notation qx := (qx N).

Lemma lstep_gstep p g g' : lstep p g g' -> gstep g g'.
Proof. intro S. exists p. exact S. Qed.

Lemma lsteps_reach tr g g' : lsteps tr g g' -> reach g -> reach g'.
Proof.
  induction 1 as [g|p tr g g1 g2 S _ IH]; intro R; [exact R|].
  apply IH. eapply reach_step; [exact R|eapply lstep_gstep; exact S].
Qed.

Lemma lsteps_cancelled tr g g' : lsteps tr g g' -> cancelled g = true -> cancelled g' = true.
Proof.
  induction 1 as [g|p tr g g1 g2 S _ IH]; intro C; [exact C|].
  apply IH. eapply cancelled_mono; [eapply lstep_gstep; exact S|exact C].
Qed.

Lemma lstep_others p g g' q : lstep p g g' -> q <> p -> procs g' q = procs g q.
Proof. intros S Hq. exact (proj2 (lstep_proj N D io_ret p g g' S) q Hq). Qed.

(* ---- the static test holds of every continuation that ever runs ---- *)
Variable st : bool.
Hypothesis Hst : forall p, faults_proc st (info N p) = true.

Definition fP (p : pid) (f : bool) : stmt -> bool := fault_ok st (qx p f).

Definition FInv (g : gstate) : Prop :=
  forall p f k, procs g p = Running f k -> allK (fP p f) k = true.

Lemma static_faults p : allL (fP p false) (body (info N p)) = true /\ allL (fP p true) (finally (info N p)) = true.
Proof. specialize (Hst p). unfold faults_proc in Hst. apply andb_true_iff in Hst. exact Hst. Qed.

Lemma finv_init : FInv (init N).
Proof.
  intros p f k E. unfold init in E. cbn [procs] in E.
  destruct (Nat.ltb p (nprocs N)); [|discriminate]. inversion E; subst.
  rewrite allK_lift. apply (static_faults p).
Qed.

Lemma pstep_all p c s s' :
  match s with Running f k => allK (fP p f) k = true | Exited => True end ->
  pstep N D p c s s' ->
  match s' with Running f k => allK (fP p f) k = true | Exited => True end.
Proof.
  intros W S. destruct S.
  - eapply cstep_all; eassumption.
  - rewrite allK_lift. apply (static_faults p).
  - exact I.
  - cbn [allK forallb] in W. apply andb_true_iff in W. tauto.
  - pose proof W as W'. cbn [allK forallb allI] in W'. apply andb_true_iff in W'. destruct W' as [Wb Wk].
    rewrite allK_app, allK_lift, Wb. exact W.
Qed.

Lemma finv_step g g' : FInv g -> gstep g g' -> FInv g'.
Proof.
  intros HI [p S]. destruct (lstep_proj N D io_ret p g g' S) as [Hp Hoth].
  intros q f k E. destruct (Nat.eq_dec q p) as [->|Hne].
  - assert (W0 : match procs g p with Running f k => allK (fP p f) k = true | Exited => True end).
    { destruct (procs g p) as [f0 k0|] eqn:E0; [exact (HI p f0 k0 E0)|exact I]. }
    pose proof (pstep_all p _ _ _ W0 Hp) as W. rewrite E in W. exact W.
  - rewrite (Hoth q Hne) in E. exact (HI q f k E).
Qed.

Lemma reach_finv g : reach g -> FInv g.
Proof. induction 1; [apply finv_init|eapply finv_step; eassumption]. Qed.

(* the error path of an operation at the head of a running continuation cancels *)
Lemma head_fault_ok g p f kd h k : reach g -> procs g p = Running f (IStmt (IoE kd h) :: k) ->
  cc st (qx p f) false h = true.
Proof.
  intros R E. pose proof (reach_finv g R p f _ E) as W. cbn [allK forallb allI] in W.
  apply andb_true_iff in W. destruct W as [W _]. apply allS_here in W. exact W.
Qed.

(* ---- on an error path: own steps ---- *)
Lemma ofp_pos n p g : on_fail_path N st n p g -> 0 < n.
Proof. intros [[f [kk [kr [_ [_ B]]]]]|[_ [_ B]]]; lia. Qed.

Lemma ofp_mono n m p g : on_fail_path N st n p g -> n <= m -> on_fail_path N st m p g.
Proof.
  intros [[f [kk [kr [E [C B]]]]]|[E [X B]]] L.
  - left. exists f, kk, kr. repeat split; [exact E|exact C|lia].
  - right. repeat split; [exact E|exact X|lia].
Qed.

Lemma ofp_running n p g : on_fail_path N st n p g -> procs g p <> Exited.
Proof. intros [[f [kk [kr [E _]]]]|[E _]]; rewrite E; discriminate. Qed.

Lemma ofp_other n p q g g' : lstep q g g' -> q <> p -> on_fail_path N st n p g -> on_fail_path N st n p g'.
Proof.
  intros S Hq H. assert (Ep : procs g' p = procs g p) by (eapply lstep_others; [exact S|congruence]).
  unfold on_fail_path in *. rewrite Ep. exact H.
Qed.

Ltac same_head E :=
  match goal with H : procs _ _ = Running _ _ |- _ =>
    rewrite E in H; first [discriminate H | inversion H; subst; clear H] end.

Ltac stay0 :=
  match goal with E : procs _ _ = Running ?f (IStmt _ :: ?kk ++ ?kr) |- _ =>
    right; split; [lia|]; left; exists f, kk, kr; split;
    [ cbn [procs cont cont_ch]; rewrite set_proc_same; reflexivity | split ] end.
Ltac stayw new :=
  match goal with E : procs _ _ = Running ?f (IStmt _ :: ?kk ++ ?kr) |- _ =>
    right; split; [lia|]; left; exists f, (lift new ++ kk), kr; split;
    [ cbn [procs cont cont_ch]; rewrite set_proc_same; rewrite <- app_assoc; reflexivity
    | split; [rewrite ccK_app | rewrite cmK_app, cmK_lift] ] end.

Lemma own_step n p g g' :
  on_fail_path N st n p g -> cancelled g = false -> lstep p g g' ->
  cancelled g' = true \/ (0 < n /\ on_fail_path N st (n - 1) p g').
Proof.
  intros [[f [kk [kr [E [C B]]]]]|[E [X B]]] Hc S.
  - destruct kk as [|i kk']; [cbn in C; discriminate|].
    destruct i as [s|bd|c bd|bd n0]; cbn [ccK] in C; try discriminate.
    cbn [app] in E. rewrite cmK_cons in B.
    destruct S; same_head E.
    + (* select *)
      rewrite ccS_sel in C. apply andb_true_iff in C. destruct C as [Cs Cc].
      match goal with Hin : In (_, _) _ |- _ =>
        destruct (ccC_in _ _ _ _ _ _ Cc Hin) as [Hd|Hb]; pose proof (cmC_in _ _ _ Hin) as Hm end.
      * destruct a; try discriminate. cbn in *. congruence.
      * rewrite cmS_sel in B. stayw bd; [exact Hb|lia].
    + (* io *) stay0; [exact C|cbn [cmS] in B; lia].
    + (* ioe ok *) rewrite ccS_ioe in C. apply andb_true_iff in C. destruct C as [_ C].
      rewrite cmS_ioe in B. stay0; [exact C|lia].
    + (* ioe fail *) rewrite ccS_ioe in C. apply andb_true_iff in C. destruct C as [C _].
      rewrite cmS_ioe in B. stayw h; [exact C|lia].
    + (* cancel *) left. reflexivity.
    + (* ifctx exit *) congruence.
    + (* ifctx go *) stay0; [exact C|cbn [cmS] in B; lia].
    + (* return *)
      cbn [ccS] in C. unfold exit_of.
      match goal with E0 : procs _ _ = Running ?f0 _ |- _ => destruct f0 end.
      * left. cbn. unfold ProcFault.qx in C. rewrite C. apply orb_true_r.
      * unfold ProcFault.qx, quiet_exit in C. apply andb_true_iff in C. destruct C as [Cx Cf].
        destruct (finally (info N p)) eqn:Ef; [|discriminate].
        right. split; [lia|]. right. cbn [procs cont lift map]. rewrite set_proc_same.
        repeat split; [exact Cx|cbn [cmS] in B; lia].
    + (* recv item *) cbn [ccS] in C. apply andb_true_iff in C. destruct C as [_ C].
      stay0; [exact C|cbn [cmS] in B; lia].
    + (* recv closed *) cbn [ccS] in C. apply andb_true_iff in C. destruct C as [_ C].
      stay0; [exact C|cbn [cmS] in B; lia].
    + (* send once *) cbn [ccS] in C. discriminate.
    + cbn [ccS] in C. discriminate.
    + (* join *) cbn [ccS] in C. apply andb_true_iff in C. destruct C as [_ C].
      stay0; [exact C|cbn [cmS] in B; lia].
    + (* wgwait *) cbn [ccS] in C. apply andb_true_iff in C. destruct C as [_ C].
      stay0; [exact C|cbn [cmS] in B; lia].
    + (* wgadd *) stay0; [exact C|cbn [cmS] in B; lia].
    + (* wgdone *) stay0; [exact C|cbn [cmS] in B; lia].
    + (* branch l *) rewrite ccS_branch in C. apply andb_true_iff in C. destruct C as [Ca Cb].
      rewrite cmS_branch in B. stayw a; [exact Ca|lia].
    + (* branch r *) rewrite ccS_branch in C. apply andb_true_iff in C. destruct C as [Ca Cb].
      rewrite cmS_branch in B. stayw b; [exact Cb|lia].
    + cbn [ccS] in C. discriminate.
    + cbn [ccS] in C. discriminate.
    + cbn [ccS] in C. discriminate.
  - destruct S; same_head E.
    left. unfold exit_of. cbn. rewrite X. apply orb_true_r.
Qed.

(* along every execution: p stays on its error path until the context is cancelled, and takes
   fewer than n steps of its own before that *)
Theorem fault_path_trace : forall tr g1 g2, lsteps tr g1 g2 -> forall n p, on_fail_path N st n p g1 ->
  cancelled g2 = true \/
  (count_occ Nat.eq_dec tr p < n /\ on_fail_path N st (n - count_occ Nat.eq_dec tr p) p g2).
Proof.
  induction 1 as [g|q tr g g1 g2 Hs R IH]; intros n p H.
  - right. cbn [count_occ]. split; [eapply ofp_pos; exact H|]. rewrite Nat.sub_0_r. exact H.
  - destruct (cancelled g) eqn:Hc.
    { left. eapply lsteps_cancelled; [exact R|]. eapply cancelled_mono; [eapply lstep_gstep; exact Hs|exact Hc]. }
    destruct (Nat.eq_dec q p) as [->|Hne].
    + destruct (own_step n p g g1 H Hc Hs) as [C1|[Hn H1]].
      * left. eapply lsteps_cancelled; eassumption.
      * destruct (IH (n - 1) p H1) as [C2|[Hlt H2]]; [left; exact C2|].
        right. rewrite count_occ_cons_eq by reflexivity.
        assert (A1 : forall a b, a < b - 1 -> 0 < b -> Datatypes.S a < b) by (intros; lia).
        assert (A2 : forall a b, b - 1 - a = b - Datatypes.S a) by (intros; lia).
        split; [apply A1; assumption|]. rewrite <- A2. exact H2.
    + pose proof (ofp_other n p q g g1 Hs Hne H) as H1.
      destruct (IH n p H1) as [C2|[Hlt H2]]; [left; exact C2|].
      right. rewrite count_occ_cons_neq by exact Hne. split; assumption.
Qed.
End Fault.

(* ------------------------------------------------------------------------------- *)
(* an error path that waits for nobody: the goroutine can always move *)
Section Direct.
Variable N : net.
Variable D : nat.
Variable io_ret : iokind -> bool.
Hypothesis Hio : forall kd, kd <> Unknown -> io_ret kd = true.

Lemma direct_enabled n p g :
  Inv N g -> on_fail_path N true n p g -> cancelled g = false -> enabled N D io_ret p g.
Proof.
  intros HI [[f [kk [kr [E [C B]]]]]|[E [X B]]] Hc; unfold enabled.
  - destruct kk as [|i kk']; [cbn in C; discriminate|].
    destruct i as [s|bd|c bd|bd n0]; cbn [ccK] in C; try discriminate.
    cbn [app] in E. pose proof (head_ok N g p f _ _ HI E) as Hi. cbn [okI] in Hi.
    pose proof (okS_check _ _ _ _ Hi) as Hk.
    destruct s.
    + rewrite ccS_sel in C. discriminate.
    + eexists. eapply g_io; [exact E|]. apply Hio. eapply check_io; exact Hk.
    + eexists. eapply g_ioe_ok; [exact E|]. apply Hio. eapply check_ioe; exact Hk.
    + eexists. eapply g_cancel; exact E.
    + eexists. eapply g_ifctx_go; [exact E|exact Hc].
    + eexists. eapply g_return; exact E.
    + cbn [ccS] in C. discriminate.
    + cbn [ccS] in C. discriminate.
    + cbn [ccS] in C. discriminate.
    + cbn [ccS] in C. discriminate.
    + eexists. eapply g_wgadd; exact E.
    + eexists. eapply g_wgdone; exact E.
    + eexists. eapply g_branch_l; exact E.
    + cbn [ccS] in C. discriminate.
    + cbn [ccS] in C. discriminate.
    + cbn [ccS] in C. discriminate.
  - eexists. eapply g_end; exact E.
Qed.
End Direct.

(* ------------------------------------------------------------------------------- *)
(* `defer ctx.cancel(nil)`: a goroutine that has it and has exited has cancelled *)
Section ExitCancels.
Variable N : net.
Variable D : nat.
Variable io_ret : iokind -> bool.

Lemma exit_step_cancels p g g' f k : lstep N D io_ret p g g' -> procs g p = Running f k -> procs g' p = Exited ->
  exit_cancel (info N p) = true -> cancelled g' = true.
Proof.
  intros S R E X. destruct S.
  all: unfold exit_of in *; try destruct f0; cbn in *.
  all: try (rewrite set_proc_same in E; discriminate).
  all: rewrite X; apply orb_true_r.
Qed.

Theorem exit_cancels g : reach N D io_ret g -> forall p, p < nprocs N -> exit_cancel (info N p) = true ->
  procs g p = Exited -> cancelled g = true.
Proof.
  induction 1 as [|g g' R IH [q S]]; intros p Hp X E.
  - unfold init in E. cbn [procs] in E. apply Nat.ltb_lt in Hp. rewrite Hp in E. discriminate.
  - destruct (procs g p) as [f k|] eqn:E0.
    + destruct (Nat.eq_dec p q) as [->|Hne].
      * eapply exit_step_cancels; eassumption.
      * rewrite (lstep_others N D io_ret q g g' p S Hne) in E. congruence.
    + eapply cancelled_mono; [exists q; exact S|]. apply IH with p; assumption.
Qed.
End ExitCancels.

(* ------------------------------------------------------------------------------- *)
(* from the boolean test on the net *)
Lemma faults_static st N : forallb (faults_proc st) (procs_of N) = true -> forall p, faults_proc st (info N p) = true.
Proof.
  intros H p. unfold info. destruct (Nat.lt_ge_cases p (length (procs_of N))) as [L|L].
  - rewrite forallb_forall in H. apply H. apply nth_In. exact L.
  - rewrite nth_overflow by exact L. destruct st; reflexivity.
Qed.

(* "no other goroutine needed": on an error path that waits for nobody, the goroutine alone
   (a run made of its own steps only) reaches a cancelled state within its budget *)
Theorem solo_cancels N (Hwf : wf N = true) (Hfc : faults_cancel N = true) D io_ret
  (Hio : forall kd, kd <> Unknown -> io_ret kd = true) :
  forall n p g, reach N D io_ret g -> on_fail_path N true n p g ->
  exists tr g', lsteps N D io_ret tr g g' /\ cancelled g' = true /\ Forall (eq p) tr /\ length tr <= n.
Proof.
  induction n as [|n IH]; intros p g R H.
  - pose proof (ofp_pos N true 0 p g H). lia.
  - destruct (cancelled g) eqn:C.
    + exists [], g. repeat split; [constructor|exact C|constructor|cbn; lia].
    + destruct (direct_enabled N D io_ret Hio (S n) p g (reach_inv N D io_ret Hwf g R) H C) as [g1 S1].
      assert (R1 : reach N D io_ret g1) by (eapply reach_step; [exact R|exists p; exact S1]).
      destruct (own_step N D io_ret true (S n) p g g1 H C S1) as [C1|[_ H1]].
      * exists [p], g1. repeat split; [econstructor; [exact S1|constructor]|exact C1|repeat constructor|cbn; lia].
      * replace (S n - 1) with n in H1 by lia.
        destruct (IH p g1 R1 H1) as [tr [g2 [T [C2 [F L]]]]].
        exists (p :: tr), g2. repeat split; [econstructor; eassumption|exact C2|constructor; [reflexivity|exact F]|cbn; lia].
Qed.

(* A + B + "every fault reaches ctx.cancel" *)
Theorem fault_terminates N (Hwf : wf N = true) (Hfc : faults_cancel N = true) D io_ret :
  io_assumptions io_ret true ->
  forall g p f kd h k, reach N D io_ret g -> procs g p = Running f (IStmt (IoE kd h) :: k) ->
  let g1 := cont g p f (lift h ++ k) in
  lstep N D io_ret p g g1 /\
  cc false (qx N p f) false h = true /\
  forall tr g2, lsteps N D io_ret tr g1 g2 ->
    (cancelled g2 = true \/ (count_occ Nat.eq_dec tr p < cmL h + 2 /\ procs g2 p <> Exited)) /\
    (cc true (qx N p f) false h = true ->
       (cancelled g2 = true \/ enabled N D io_ret p g2) /\
       (exists tr' g3, lsteps N D io_ret tr' g2 g3 /\ cancelled g3 = true /\ Forall (eq p) tr' /\
                       length tr' <= cmL h + 2) /\
       (stuck N D io_ret g2 -> cancelled g2 = true /\ forall q, procs g2 q = Exited)) /\
    (cancelled g2 = true ->
       (forall n g3, steps N D io_ret n g2 g3 -> n <= total N D g2) /\
       (forall n g3, steps N D io_ret n g2 g3 -> stuck N D io_ret g3 -> forall q, procs g3 q = Exited)).
Proof.
  intros Hio0 g p f kd h k R E g1.
  assert (Hio : forall kd, kd <> Unknown -> io_ret kd = true).
  { destruct Hio0 as [Hr [Hw [Hp [Hf Hc]]]]. intros kd0 Hk. destruct kd0; auto; exfalso; apply Hk; reflexivity. }
  pose proof (reach_inv N D io_ret Hwf g R) as HI.
  assert (Hret : io_ret kd = true).
  { apply Hio. pose proof (head_ok N g p f _ _ HI E) as Hi. cbn [okI] in Hi.
    eapply check_ioe. eapply okS_check. exact Hi. }
  assert (S1 : lstep N D io_ret p g g1) by (eapply g_ioe_fail; eassumption).
  assert (R1 : reach N D io_ret g1) by (eapply reach_step; [exact R|exists p; exact S1]).
  pose proof (head_fault_ok N D io_ret false (faults_static false N Hfc) g p f kd h k R E) as Hcc.
  assert (Hpath : forall s, cc s (qx N p f) false h = true -> on_fail_path N s (cmL h + 2) p g1).
  { intros s Hs. left. exists f, (lift h), k. split; [|split].
    - unfold g1. cbn [procs cont]. apply set_proc_same.
    - rewrite ccK_lift. exact Hs.
    - rewrite cmK_lift. lia. }
  split; [exact S1|]. split; [exact Hcc|].
  intros tr g2 T. pose proof (lsteps_reach N D io_ret tr g1 g2 T R1) as R2.
  split; [|split].
  - destruct (fault_path_trace N D io_ret false tr g1 g2 T _ p (Hpath false Hcc)) as [C|[Hlt Hp]].
    + left. exact C.
    + right. split; [exact Hlt|]. eapply ofp_running. exact Hp.
  - intro Hd.
    assert (En : cancelled g2 = true \/ enabled N D io_ret p g2).
    { destruct (fault_path_trace N D io_ret true tr g1 g2 T _ p (Hpath true Hd)) as [C|[Hlt Hp]]; [left; exact C|].
      destruct (cancelled g2) eqn:C2; [left; reflexivity|]. right.
      eapply direct_enabled; [exact Hio|exact (reach_inv N D io_ret Hwf g2 R2)|exact Hp|exact C2]. }
    split; [exact En|]. split.
    { destruct (fault_path_trace N D io_ret true tr g1 g2 T _ p (Hpath true Hd)) as [C|[Hlt Hp]].
      - exists [], g2. repeat split; [constructor|exact C|constructor|cbn; lia].
      - destruct (solo_cancels N Hwf Hfc D io_ret Hio _ p g2 R2 Hp) as [tr' [g3 [T3 [C3 [F3 L3]]]]].
        exists tr', g3. repeat split; try assumption. lia. }
    intro St.
    assert (C2 : cancelled g2 = true).
    { destruct En as [C|[g3 S3]]; [exact C|]. exfalso. apply (St g3). exists p. exact S3. }
    split; [exact C2|]. apply (never_stuck N D io_ret Hio g2 (reach_inv N D io_ret Hwf g2 R2) C2 St).
  - intro C2. apply (cancelled_terminates N D io_ret Hwf Hio g2 R2 C2).
Qed.
