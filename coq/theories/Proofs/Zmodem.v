(* Proofs about Model/Zmodem.v (C19). *)
From Trzsz Require Import Base.Bytes Gen.Consts Gen.Skel_zmodem Model.Zmodem.
From Coq Require Import ZArith Lia String.

(* ---- the hand-written matchers are pinned to the source of the expressions ---- *)
(* \*\*\x18B0(0|1)[0-9a-f]{12} *)
Lemma init_regexp_src_ok : Consts.zmodem_init_regexp_src =
  [92; 42; 92; 42; 92; 120; 49; 56; 66; 48; 40; 48; 124; 49; 41; 91; 48; 45; 57; 97; 45; 102; 93; 123; 49; 50; 125].
Proof. reflexivity. Qed.
(* \*\*\x18B08[0-9a-f]{12} *)
Lemma finish_regexp_src_ok : Consts.zmodem_finish_regexp_src =
  [92; 42; 92; 42; 92; 120; 49; 56; 66; 48; 56; 91; 48; 45; 57; 97; 45; 102; 93; 123; 49; 50; 125].
Proof. reflexivity. Qed.
