(* Proofs about Model/Zmodem.v (C19). *)
From Trzsz Require Import Base.Bytes Gen.Consts Gen.Skel_zmodem Model.Zmodem.
From Coq Require Import ZArith Lia.
From Coq Require String.

(* ---- the hand-written matchers are pinned to the source of the expressions ---- *)
(* \*\*\x18B0(0|1)[0-9a-f]{12} *)
Lemma init_regexp_src_ok : Consts.zmodem_init_regexp_src =
  [92; 42; 92; 42; 92; 120; 49; 56; 66; 48; 40; 48; 124; 49; 41; 91; 48; 45; 57; 97; 45; 102; 93; 123; 49; 50; 125].
Proof. reflexivity. Qed.
(* \*\*\x18B08[0-9a-f]{12} *)
Lemma finish_regexp_src_ok : Consts.zmodem_finish_regexp_src =
  [92; 42; 92; 42; 92; 120; 49; 56; 66; 48; 56; 91; 48; 45; 57; 97; 45; 102; 93; 123; 49; 50; 125].
Proof. reflexivity. Qed.

(* the constants whose VALUES the statements below talk about *)
Lemma consts_ok :
  Consts.zmodem_cancel_sub = [24; 24; 24; 24; 24] /\
  Consts.zmodem_cancel_full = [24; 24; 24; 24; 24; 24; 24; 24; 24; 24; 8; 8; 8; 8; 8; 8; 8; 8; 8; 8] /\
  Consts.zmodem_over_and_out = [79; 79; 8; 8] /\
  Consts.zmodem_cannot_open = [99; 97; 110; 110; 111; 116; 32; 111; 112; 101; 110; 32] /\
  Consts.zmodem_cleanup_enter = [13] /\ Consts.zmodem_ctrl_c = 3.
(* the delays (500 ms / 20 s / 100 ms) and the length bound 50 are NOT pinned: the model and
   the correspondence follow whatever the source says *)
Proof. repeat split; reflexivity. Qed.

(* ---- the effect skeleton of every function the model transcribes (with the fix) ---- *)
Module SkelPin.
Import String.
Definition expected_skel : list (string * list string) := (
[
  ("detectZmodem", ["zmodemInitRegexp.FindSubmatch(buf)";
     "bytes.Contains(buf, zmodemCancelSubSequence)";
     "bytes.Contains(buf, zmodemCanNotOpenFile)";
     "return";
     "return";
     "return"]);
  ("zmodemTransfer.resetCleanupTimer", ["z.cleanupTimer.Stop()";
     "time.AfterFunc(500 * time.Millisecond)";
     "z.cleaned.Store(true)";
     "z.serverIn.Write([]byte(""\r""))"]);
  ("zmodemTransfer.resetClientTimer", ["return";
     "z.clientTimer.Stop()";
     "time.AfterFunc(20 * time.Second)";
     "z.handleZmodemError(""client timeout"")"]);
  ("zmodemTransfer.resetServerTimer", ["return";
     "z.serverTimer.Stop()";
     "time.AfterFunc(20 * time.Second)";
     "z.handleZmodemError(""server timeout"")"]);
  ("zmodemTransfer.isTransferringFiles", ["return";
     "z.stopped.Load()";
     "z.cleaned.Load()"]);
  ("zmodemTransfer.stopTransferringFiles", ["z.handleZmodemError(""Stopped"")"]);
  ("zmodemTransfer.handleZmodemError", ["z.stopped.CompareAndSwap(false, true)";
     "return";
     "z.errorOccurred.Store(true)";
     "writeAll(z.serverIn, zmodemCancelFullSequence)";
     "z.cmd.Load()";
     "writeAll(z.stdin, zmodemCancelFullSequence)";
     "z.ensureClientExit(cmd)";
     "z.resetCleanupTimer()";
     "z.writeMessage(msg)"]);
  ("zmodemTransfer.handleServerOutput", ["z.stopped.Load()";
     "z.cleaned.Load()";
     "return";
     "z.resetCleanupTimer()";
     "return";
     "z.cmd.Load()";
     "z.resetServerTimer()";
     "zmodemFinishRegexp.Match(buf)";
     "z.serverFinished.CompareAndSwap(false, true)";
     "z.ensureOverAndOut()";
     "writeAll(z.stdin, buf)";
     "z.updateProgress(buf)";
     "return";
     "bytes.Contains(buf, zmodemCancelSubSequence)";
     "bytes.Contains(buf, zmodemCanNotOpenFile)";
     "z.cleaned.Store(true)";
     "z.stopped.Store(true)";
     "return";
     "return"]);
  ("zmodemTransfer.handleZmodemStream", ["z.cmd.Store(cmd)";
     "z.resetClientTimer()";
     "z.resetServerTimer()";
     "go";
     "z.checkClientExited(cmd)";
     "z.stdout.Read(buffer)";
     "z.resetClientTimer()";
     "z.errorOccurred.Load()";
     "z.serverFinished.Load()";
     "z.clientFinished.Load()";
     "break";
     "zmodemFinishRegexp.Match(buf)";
     "z.clientFinished.CompareAndSwap(false, true)";
     "z.ensureOverAndOut()";
     "writeAll(z.serverIn, buf)";
     "z.handleZmodemError(fmt.Sprintf(""write to server failed: %v"", err))";
     "break";
     "z.updateProgress(buf)";
     "break";
     "z.handleZmodemError(fmt.Sprintf(""read from client failed: %v"", err))";
     "break";
     "z.clientTimer.Stop()";
     "z.ensureClientExit(cmd)"]);
  ("zmodemTransfer.ensureOverAndOut", ["z.serverFinished.Load()";
     "z.clientFinished.Load()";
     "return";
     "writeAll(z.serverIn, zmodemOverAndOut)";
     "writeAll(z.stdin, zmodemOverAndOut)"]);
  ("zmodemTransfer.ensureClientExit", ["go";
     "time.Sleep(500 * time.Millisecond)";
     "cmd.Process.Kill()"]);
  ("zmodemTransfer.checkClientExited", ["cmd.Wait()";
     "z.stopped.Store(true)";
     "z.serverTimer.Stop()";
     "z.updateProgress(nil)";
     "cmd.ProcessState.ExitCode()";
     "z.writeMessage(fmt.Sprintf(""client exit with %d"", code))";
     "z.writeMessage(""\033[1;32mSuccess!!\033[0m"")";
     "z.resetCleanupTimer()";
     "writeAll(z.serverIn, zmodemCancelFullSequence)"]);
  ("zmodemTransfer.uploadFiles", ["z.launchZmodemCmd(workDir, ""sz"", append([]string{""-e"", ""-b"", ""-B"", ""32768""}, files...)...)";
     "z.handleZmodemError(fmt.Sprintf(""run sz client failed: %v"", err))";
     "return";
     "z.handleZmodemStream(cmd)"]);
  ("zmodemTransfer.downloadFiles", ["z.launchZmodemCmd(path, ""rz"", ""-E"", ""-e"", ""-b"", ""-B"", ""32768"")";
     "z.handleZmodemError(fmt.Sprintf(""run rz client failed: %v"", err))";
     "return";
     "z.handleZmodemStream(cmd)"]);
  ("zmodemTransfer.handleZmodemEvent", ["time.Sleep(100 * time.Millisecond)";
     "z.stopped.Load()";
     "return";
     "chooseUploadFiles()";
     "z.handleZmodemError(err.Error())";
     "return";
     "z.uploadFiles(files)";
     "chooseDownloadPath()";
     "z.handleZmodemError(err.Error())";
     "return";
     "z.downloadFiles(path)"]);
  ("TrzszFilter.sendInput", ["filter.zmodem.Load()";
     "zmodem.stopTransferringFiles()";
     "zmodem.isTransferringFiles()"]);
  ("TrzszFilter.wrapOutput", ["filter.zmodem.Load()";
     "zmodem.handleServerOutput(buf)";
     "showCursor(filter.clientOut)";
     "filter.zmodem.CompareAndSwap(zmodem, nil)";
     "detectZmodem(buf)";
     "filter.zmodem.CompareAndSwap(nil, zmodem)";
     "hideCursor(filter.clientOut)";
     "zmodem.handleZmodemEvent(...)";
     "func() { for zmodem.isTransferringFiles() { time.Sleep(100 * time.Millisecond) } filter.setOneTimeUploadResult(nil) }()";
     "zmodem.isTransferringFiles()"])
]
)%string.

Lemma skel_ok : zmodem_skel = expected_skel.
Proof. reflexivity. Qed.
End SkelPin.

Local Open Scope N_scope.

(* ---- detection ---- *)

Lemma has_prefix_app : forall p l, has_prefix p l = true <-> exists r, l = p ++ r.
Proof.
  induction p as [|x p IH]; intros l; cbn [has_prefix app].
  - split; [intros _; exists l; reflexivity | reflexivity].
  - destruct l as [|y l].
    + split; [discriminate | intros [r Hr]; discriminate].
    + rewrite Bool.andb_true_iff, N.eqb_eq, IH. split.
      * intros [Hxy [r Hr]]. exists r. subst. reflexivity.
      * intros [r Hr]. injection Hr as Hy Hl. split; [congruence | exists r; exact Hl].
Qed.

Lemma all_hex_spec : forall n l, all_hex n l = true <->
  exists hex rest, l = hex ++ rest /\ length hex = n /\ forallb is_hex_lc hex = true.
Proof.
  induction n as [|n IH]; intros l; cbn [all_hex].
  - split; [intros _; exists [], l; auto |reflexivity].
  - destruct l as [|b l].
    + split; [discriminate|]. intros (hex & rest & Hl & Hn & _). destruct hex; discriminate.
    + rewrite Bool.andb_true_iff, IH. split.
      * intros [Hb (hex & rest & Hl & Hn & Hh)]. exists (b :: hex), rest. subst.
        cbn [app length forallb]. rewrite Hb, Hh. auto.
      * intros (hex & rest & Hl & Hn & Hh). destruct hex as [|h hex]; [discriminate|].
        cbn [app length forallb] in *. injection Hl as Hb Hl. injection Hn as Hn.
        apply Bool.andb_true_iff in Hh as [Hh1 Hh2]. subst. split; [exact Hh1|]. exists hex, rest. auto.
Qed.

Lemma init_at_sound : forall l up, init_at l = Some up ->
  exists hex rest, l = init_prefix ++ [if up then 49 else 48] ++ hex ++ rest /\
                   length hex = 12%nat /\ forallb is_hex_lc hex = true.
Proof.
  intros l up H. unfold init_at in H.
  destruct (has_prefix init_prefix l) eqn:Hp; [|discriminate].
  apply has_prefix_app in Hp as [r Hr]. subst l.
  change (skipn 5 (init_prefix ++ r)) with r in H.
  destruct r as [|d r]; [discriminate|].
  destruct (((d =? 48) || (d =? 49)) && all_hex 12 r) eqn:Hc; [|discriminate].
  injection H as Hup. apply Bool.andb_true_iff in Hc as [Hd Hh].
  apply all_hex_spec in Hh as (hex & rest & Hl & Hn & Hh). exists hex, rest.
  split; [|auto]. subst r. cbn [app]. f_equal. f_equal. f_equal. f_equal. f_equal. f_equal.
  apply Bool.orb_true_iff in Hd. rewrite !N.eqb_eq in Hd. subst up.
  destruct Hd as [Hd|Hd]; subst d; reflexivity.
Qed.

Lemma init_at_complete : forall d hex rest, (d = 48 \/ d = 49) -> length hex = 12%nat ->
  forallb is_hex_lc hex = true -> init_at (init_prefix ++ [d] ++ hex ++ rest) = Some (d =? 49).
Proof.
  intros d hex rest Hd Hn Hh.
  assert (Hx : all_hex 12 (hex ++ rest) = true) by (apply all_hex_spec; exists hex, rest; auto).
  unfold init_at.
  assert (Hp : has_prefix init_prefix (init_prefix ++ [d] ++ hex ++ rest) = true)
    by (apply has_prefix_app; eexists; reflexivity).
  rewrite Hp. unfold init_prefix. cbn [app skipn]. rewrite Hx.
  destruct Hd; subst d; reflexivity.
Qed.

(* FindSubmatch succeeds exactly on buffers containing a well-formed header; the
   direction is that of a header in the buffer *)
Lemma init_find_sound : forall l up, init_find l = Some up ->
  exists pre hex rest, l = pre ++ init_prefix ++ [if up then 49 else 48] ++ hex ++ rest /\
                       length hex = 12%nat /\ forallb is_hex_lc hex = true.
Proof.
  induction l as [|x l IH]; intros up H; cbn [init_find] in H.
  - destruct (init_at []) eqn:Ha; [|discriminate]. injection H as ->.
    apply init_at_sound in Ha as (hex & rest & Hl & Hr). exists [], hex, rest. auto.
  - destruct (init_at (x :: l)) eqn:Ha.
    + injection H as ->. apply init_at_sound in Ha as (hex & rest & Hl & Hr). exists [], hex, rest. auto.
    + apply IH in H as (pre & hex & rest & Hl & Hr). exists (x :: pre), hex, rest. subst l. auto.
Qed.

Lemma init_find_complete : forall pre d hex rest, (d = 48 \/ d = 49) -> length hex = 12%nat ->
  forallb is_hex_lc hex = true -> init_find (pre ++ init_prefix ++ [d] ++ hex ++ rest) <> None.
Proof.
  induction pre as [|x pre IH]; intros d hex rest Hd Hn Hh.
  - cbn [app]. pose proof (init_at_complete d hex rest Hd Hn Hh) as Ha.
    cbn [app] in Ha. unfold init_find. destruct (init_prefix ++ d :: hex ++ rest); rewrite Ha; discriminate.
  - cbn [app init_find]. destruct (init_at _); [discriminate|]. apply IH; assumption.
Qed.

(* the leftmost header decides: nothing matches inside [pre] *)
Lemma init_find_leftmost : forall pre l, (forall k, (k < length pre)%nat -> init_at (skipn k (pre ++ l)) = None) ->
  init_find (pre ++ l) = init_find l.
Proof.
  induction pre as [|x pre IH]; intros l H; [reflexivity|].
  cbn [app init_find]. pose proof (H 0%nat ltac:(cbn; lia)) as H0. cbn [skipn app] in H0. rewrite H0.
  apply IH. intros k Hk. apply (H (S k)). cbn [length]. lia.
Qed.

Lemma detect_spec : forall buf up, detect_zmodem buf = Some up <->
  init_find buf = Some up /\ has_cancel buf = false /\ has_cannot buf = false.
Proof.
  intros buf up. unfold detect_zmodem. destruct (init_find buf) as [u|].
  - destruct (has_cancel buf), (has_cannot buf); cbn [orb]; split;
      try discriminate; try (intros [_ [? ?]]; discriminate); try (intros [? _]; auto); auto.
  - split; [discriminate | intros [? _]; discriminate].
Qed.

Lemma detect_veto : forall buf, has_cancel buf = true \/ has_cannot buf = true -> detect_zmodem buf = None.
Proof.
  intros buf H. unfold detect_zmodem. destruct (init_find buf); [|reflexivity].
  destruct H as [H|H]; rewrite H; [reflexivity | rewrite Bool.orb_true_r; reflexivity].
Qed.

(* [contains] is bytes.Contains *)
Lemma index_of_spec : forall pat l, index_of pat l <> None <-> exists a b, l = a ++ pat ++ b.
Proof.
  intros pat. induction l as [|x l IH].
  - cbn [index_of]. destruct (has_prefix pat []) eqn:Hp.
    + split; [intros _|discriminate]. apply has_prefix_app in Hp as [r Hr]. exists [], r. exact Hr.
    + split; [intros H; exfalso; apply H; reflexivity|].
      intros (a & b & Hab). destruct a; [|discriminate]. cbn [app] in Hab.
      assert (has_prefix pat [] = true) by (apply has_prefix_app; exists b; exact Hab). congruence.
  - cbn [index_of]. destruct (has_prefix pat (x :: l)) eqn:Hp.
    + split; [intros _|discriminate]. apply has_prefix_app in Hp as [r Hr]. exists [], r. exact Hr.
    + destruct (index_of pat l) eqn:Hi.
      * split; [intros _|discriminate]. destruct IH as [IH _].
        destruct (IH ltac:(discriminate)) as (a & b & Hab). exists (x :: a), b. subst. reflexivity.
      * split; [intros H; exfalso; apply H; reflexivity|].
        intros (a & b & Hab). destruct a as [|y a].
        -- cbn [app] in Hab. assert (has_prefix pat (x :: l) = true) by (apply has_prefix_app; exists b; exact Hab). congruence.
        -- injection Hab as Hx Hl. destruct IH as [_ IH]. exfalso. apply IH; [|reflexivity]. exists a, b. exact Hl.
Qed.

Lemma contains_spec : forall pat l, contains pat l = true <-> exists a b, l = a ++ pat ++ b.
Proof.
  intros pat l. rewrite <- index_of_spec. unfold contains. destruct (index_of pat l); split; congruence.
Qed.

(* ---- one step ---- *)

Ltac brk := repeat match goal with
  | |- context [if ?b then _ else _] => destruct b eqn:?
  | |- context [match ?h with HNone => _ | HRun => _ | HExit _ => _ end] => destruct h eqn:?
  | |- context [match ?r with LaunchOk => _ | LaunchFail => _ | ChooserErr => _ end] => destruct r eqn:?
  | |- context [match ?l with [] => _ | _ :: _ => _ end] => destruct l eqn:?
  | |- context [match ?o with Some _ => _ | None => _ end] => destruct o eqn:?
  end.

Ltac unf := unfold step, step_unfixed, step_gen, lift, server_chunk, typed, launch, helper_out, helper_eof,
  helper_readerr, helper_exit, cleanup_fire, grace_begin, handle_server_output, handle_error, handle_error_gen, reader_end,
  ensure_over_and_out, reset_cleanup, reset_client, reset_server, andthen, to_helper, is_transferring, new_session in *.

Ltac zsimpl := cbn [fst snd zs ptr upload cf sf eo stopped cleaned hp reader lpend tcu tcl tsv ksched gbegun set_gbegun
  set_cf set_sf set_eo set_stopped set_cleaned set_hp set_reader set_lpend set_tcu set_tcl set_tsv set_ksched
  app negb andb orb] in *.

Ltac crush := unf; zsimpl; brk; zsimpl.

(* a session is only ever started by a server chunk that detectZmodem accepts *)
Lemma start_only_on_header : forall fixed f e up, In (OStart up) (snd (step_gen fixed f e)) ->
  exists buf, e = EvServer buf /\ detect_zmodem buf = Some up.
Proof.
  intros fixed [z p] e up H. destruct z as [u c1 s1 e1 st cl h rd lp t1 t2 t3 ks gb].
  destruct e as [buf|buf|r|buf| | |code| | | |]; revert H.
  - unf; zsimpl. intros H. exists buf. split; [reflexivity|].
    destruct (detect_zmodem buf) as [up'|] eqn:Hd.
    + assert (up' = up); [|subst; reflexivity].
      revert H. brk; zsimpl; cbn [In]; rewrite ?in_app_iff; cbn [In];
        intros H; repeat (destruct H as [H|H]; try discriminate); try contradiction; congruence.
    + exfalso. revert H. brk; zsimpl; cbn [In]; rewrite ?in_app_iff; cbn [In];
        intros H; repeat (destruct H as [H|H]; try discriminate); try contradiction.
  - crush; cbn [In]; rewrite ?in_app_iff; cbn [In]; intros H;
      repeat (destruct H as [H|H]; try discriminate); contradiction.
  - crush; cbn [In]; rewrite ?in_app_iff; cbn [In]; intros H;
      repeat (destruct H as [H|H]; try discriminate); contradiction.
  - crush; cbn [In]; rewrite ?in_app_iff; cbn [In]; intros H;
      repeat (destruct H as [H|H]; try discriminate); contradiction.
  - crush; cbn [In]; rewrite ?in_app_iff; cbn [In]; intros H;
      repeat (destruct H as [H|H]; try discriminate); contradiction.
  - crush; cbn [In]; rewrite ?in_app_iff; cbn [In]; intros H;
      repeat (destruct H as [H|H]; try discriminate); contradiction.
  - crush; cbn [In]; rewrite ?in_app_iff; cbn [In]; intros H;
      repeat (destruct H as [H|H]; try discriminate); contradiction.
  - crush; cbn [In]; rewrite ?in_app_iff; cbn [In]; intros H;
      repeat (destruct H as [H|H]; try discriminate); contradiction.
  - crush; cbn [In]; rewrite ?in_app_iff; cbn [In]; intros H;
      repeat (destruct H as [H|H]; try discriminate); contradiction.
  - crush; cbn [In]; rewrite ?in_app_iff; cbn [In]; intros H;
      repeat (destruct H as [H|H]; try discriminate); contradiction.
  - crush; cbn [In]; rewrite ?in_app_iff; cbn [In]; intros H;
      repeat (destruct H as [H|H]; try discriminate); contradiction.
Qed.

Definition passthrough (f : fstate) : Prop :=
  ptr f = false \/ (stopped (zs f) = true /\ cleaned (zs f) = true).

Lemma start_on_header : forall fixed f buf up, detect_zmodem buf = Some up -> passthrough f ->
  step_gen fixed f (EvServer buf) =
    (mkF (new_session up) true, (if ptr f then [OShow] else []) ++ [OForward; OTerm buf; OHide; OStart up]).
Proof.
  intros fixed [z p] buf up Hd Hp. destruct z as [u c1 s1 e1 st cl h rd lp t1 t2 t3 ks gb].
  unfold passthrough in Hp. zsimpl. unf; zsimpl. rewrite Hd.
  destruct p; [|reflexivity]. destruct Hp as [Hp|[H1 H2]]; [discriminate|]. subst. reflexivity.
Qed.

Lemma no_header_no_start : forall fixed f buf, detect_zmodem buf = None -> passthrough f ->
  step_gen fixed f (EvServer buf) =
    (mkF (zs f) false, (if ptr f then [OShow] else []) ++ [OForward; OTerm buf]).
Proof.
  intros fixed [z p] buf Hd Hp. destruct z as [u c1 s1 e1 st cl h rd lp t1 t2 t3 ks gb].
  unfold passthrough in Hp. zsimpl. unf; zsimpl. rewrite Hd.
  destruct p; [|reflexivity]. destruct Hp as [Hp|[H1 H2]]; [discriminate|]. subst. reflexivity.
Qed.

(* typed input in pass-through state goes to the server *)
Lemma input_flows : forall fixed f buf, passthrough f ->
  step_gen fixed f (EvInput buf) = (f, [OServer buf; OInput true]).
Proof.
  intros fixed [z p] buf Hp. destruct z as [u c1 s1 e1 st cl h rd lp t1 t2 t3 ks gb].
  unfold passthrough in Hp. zsimpl. destruct p.
  - destruct Hp as [Hp|[H1 H2]]; [discriminate|]. subst. crush; try discriminate; reflexivity.
  - reflexivity.
Qed.

(* while stopped and not yet cleaned every server chunk is swallowed and re-arms the timer *)
Lemma swallow_rearms : forall fixed f buf, ptr f = true -> stopped (zs f) = true -> cleaned (zs f) = false ->
  step_gen fixed f (EvServer buf) = (mkF (set_tcu true (zs f)) true, [OClaim; OArm TCleanup]).
Proof.
  intros fixed [z p] buf Hp Hs Hc. destruct z as [u c1 s1 e1 st cl h rd lp t1 t2 t3 ks gb].
  zsimpl. subst. reflexivity.
Qed.

(* while stopped and not cleaned typed input is swallowed *)
Lemma input_swallowed : forall fixed f buf, ptr f = true -> stopped (zs f) = true -> cleaned (zs f) = false ->
  step_gen fixed f (EvInput buf) = (f, [OInput false]).
Proof.
  intros fixed [z p] buf Hp Hs Hc. destruct z as [u c1 s1 e1 st cl h rd lp t1 t2 t3 ks gb].
  zsimpl. subst. crush; try discriminate; reflexivity.
Qed.

(* ---- terminating events ---- *)

Definition terminating (f : fstate) (e : event) : Prop :=
  match e with
  | EvHelperExit _ => hp (zs f) = HRun
  | EvLaunch LaunchFail | EvLaunch ChooserErr => lpend (zs f) = true /\ gbegun (zs f) = true
  | EvInput buf => buf = [Consts.zmodem_ctrl_c] /\ ptr f = true
  | EvClientFire => tcl (zs f) = true
  | EvServerFire => tsv (zs f) = true
  | EvHelperReadErr => reader (zs f) = true
  | _ => False
  end.

(* the helper process is there to receive what is written to its stdin *)
Definition helper_listening (f : fstate) (e : event) : Prop :=
  hp (zs f) = HRun /\ (forall c, e <> EvHelperExit c) /\ e <> EvHelperReadErr.

Ltac cs_fin := unf; zsimpl; brk; zsimpl; try congruence; cbn [In]; rewrite ?in_app_iff; cbn [In];
  (split; [reflexivity|]); (split; [auto 8|]);
  intros [Hh [Hx Hy]]; try discriminate; try (exfalso; apply Hy; reflexivity);
  try (exfalso; eapply Hx; reflexivity); auto 8.

Lemma cancel_sent : forall fixed f e, stopped (zs f) = false -> terminating f e ->
  stopped (zs (fst (step_gen fixed f e))) = true /\
  In OCancelServer (snd (step_gen fixed f e)) /\
  (helper_listening f e -> In OCancelHelper (snd (step_gen fixed f e)) /\ In OKill (snd (step_gen fixed f e))).
Proof.
  intros fixed [z p] e Hs Ht. destruct z as [u c1 s1 e1 st cl h rd lp t1 t2 t3 ks gb].
  unfold helper_listening. zsimpl. subst st.
  destruct e as [buf|buf|r|buf| | |code| | | |]; cbn [terminating] in Ht; zsimpl; try contradiction.
  - destruct Ht as [-> ->]. unf; zsimpl. change (list_eqb [zmodem_ctrl_c] [zmodem_ctrl_c]) with true. cbv iota. cs_fin.
  - destruct r; try contradiction; destruct Ht as [Hl Hg]; subst lp gb; cs_fin.
  - subst rd. cs_fin.
  - subst h. cs_fin.
  - subst t2. cs_fin.
  - subst t3. cs_fin.
Qed.

(* when the SERVER cancels after the helper has started, the cancel bytes reach the helper *)
Lemma server_cancel_relayed : forall fixed f buf, ptr f = true -> stopped (zs f) = false -> hp (zs f) = HRun ->
  In (OHelper buf) (snd (step_gen fixed f (EvServer buf))) /\ In OClaim (snd (step_gen fixed f (EvServer buf))).
Proof.
  intros fixed [z p] buf Hp Hs Hh. destruct z as [u c1 s1 e1 st cl h rd lp t1 t2 t3 ks gb].
  zsimpl. subst. crush; try congruence; cbn [In]; rewrite ?in_app_iff; cbn [In]; split; auto 10.
Qed.

(* ... and when it cancels BEFORE the helper was started the session ends on the spot *)
Lemma server_cancel_early : forall fixed f buf, ptr f = true -> stopped (zs f) = false -> hp (zs f) = HNone ->
  has_cancel buf = true \/ has_cannot buf = true ->
  let f' := fst (step_gen fixed f (EvServer buf)) in
  ptr f' = false /\ stopped (zs f') = true /\ cleaned (zs f') = true /\
  In (OTerm buf) (snd (step_gen fixed f (EvServer buf))).
Proof.
  intros fixed [z p] buf Hp Hs Hh Hc. destruct z as [u c1 s1 e1 st cl h rd lp t1 t2 t3 ks gb].
  zsimpl. subst. unf; zsimpl. rewrite (detect_veto buf Hc).
  assert (Hv : has_cancel buf || has_cannot buf = true) by (destruct Hc as [-> | ->]; [reflexivity | apply Bool.orb_true_r]).
  rewrite Hv. zsimpl. cbn [In]. auto 8.
Qed.

(* ---- the session always comes back (the code WITH the fix) ---- *)

(* something is under way that will set [cleaned] *)
Definition settled (z : zstate) : Prop :=
  cleaned z = true \/ tcu z = true \/ (hp z = HRun /\ ksched z = true).

Definition inv (z : zstate) : Prop :=
  (forall c, hp z = HExit c -> stopped z = true) /\ (stopped z = true -> settled z).

Lemma inv_idle : inv (zs idle).
Proof. split; [discriminate | intros _; left; reflexivity]. Qed.

Ltac inv_fin :=
  unfold inv, settled in *; zsimpl;
  split; [ intros ? ?; try discriminate; try reflexivity; try congruence; try (subst; assumption)
         | intros ?; try discriminate; try solve [exfalso; subst; cbv iota in *; congruence];
           repeat match goal with H : ?a = ?a -> _ |- _ => specialize (H eq_refl) end;
           intuition (try congruence) ].

Lemma inv_step : forall f e, inv (zs f) -> inv (zs (fst (step f e))).
Proof.
  intros [z p] e [Hx Hy]. destruct z as [u c1 s1 e1 st cl h rd lp t1 t2 t3 ks gb]. zsimpl.
  assert (Hx' : match h with HExit _ => st = true | _ => True end)
    by (destruct h; auto; eapply Hx; reflexivity).
  clear Hx.
  destruct e as [buf|buf|r|buf| | |code| | | |]; crush; try congruence; inv_fin.
Qed.

Lemma run_app : forall fixed evs1 evs2 f,
  run_gen fixed f (evs1 ++ evs2) =
    let (f1, o1) := run_gen fixed f evs1 in let (f2, o2) := run_gen fixed f1 evs2 in (f2, o1 ++ o2).
Proof.
  intros fixed. induction evs1 as [|e evs1 IH]; intros evs2 f; cbn [app run_gen].
  - destruct (run_gen fixed f evs2). reflexivity.
  - destruct (step_gen fixed f e) as [f1 o1]. rewrite IH.
    destruct (run_gen fixed f1 evs1) as [f2 o2]. destruct (run_gen fixed f2 evs2) as [f3 o3].
    rewrite app_assoc. reflexivity.
Qed.

Lemma inv_run : forall evs f, inv (zs f) -> inv (zs (fst (run f evs))).
Proof.
  induction evs as [|e evs IH]; intros f Hi; [exact Hi|].
  unfold run in *. cbn [run_gen]. pose proof (inv_step f e Hi) as H1. unfold step in H1.
  destruct (step_gen true f e) as [f1 o1]. specialize (IH f1 H1).
  destruct (run_gen true f1 evs) as [f2 o2]. exact IH.
Qed.

(* in EVERY reachable stopped state the clean-up is under way *)
Lemma reachable_settled : forall evs, let f := fst (run idle evs) in stopped (zs f) = true -> settled (zs f).
Proof. intros evs f Hs. exact (proj2 (inv_run evs idle inv_idle) Hs). Qed.

(* the server stays quiet: any event except a server chunk *)
Definition quiet (e : event) : Prop := match e with EvServer _ => False | _ => True end.

(* stopped, and the cleanup timer is armed or has fired *)
Definition winding_down (z : zstate) : Prop := stopped z = true /\ (cleaned z = true \/ tcu z = true).

Ltac wd_fin := unfold winding_down in *; zsimpl;
  repeat match goal with H : _ /\ _ |- _ => destruct H end; subst;
  crush; try congruence; zsimpl; intuition (try congruence).

(* nothing but the timer itself disarms the timer; nothing un-stops or un-cleans the session *)
Lemma quiet_keeps : forall f e, quiet e -> winding_down (zs f) -> winding_down (zs (fst (step f e))).
Proof.
  intros [z p] e Hq Hw. destruct z as [u c1 s1 e1 st cl h rd lp t1 t2 t3 ks gb].
  destruct e as [buf|buf|r|buf| | |code| | | |]; cbn [quiet] in Hq; try contradiction; wd_fin.
Qed.

Lemma quiet_run_keeps : forall qs f, Forall quiet qs -> winding_down (zs f) -> winding_down (zs (fst (run f qs))).
Proof.
  induction qs as [|e qs IH]; intros f Hq Hw; [exact Hw|].
  inversion Hq as [|? ? Hq1 Hq2]; subst. unfold run in *. cbn [run_gen].
  pose proof (quiet_keeps f e Hq1 Hw) as H1. unfold step in H1.
  destruct (step_gen true f e) as [f1 o1]. specialize (IH f1 Hq2 H1).
  destruct (run_gen true f1 qs) as [f2 o2]. exact IH.
Qed.

(* a swallowed server chunk keeps it armed too (it re-arms) *)
Lemma swallow_keeps : forall f buf, ptr f = true -> winding_down (zs f) -> cleaned (zs f) = false ->
  winding_down (zs (fst (step f (EvServer buf)))).
Proof.
  intros f buf Hp [Hs Hw] Hc. unfold step. rewrite (swallow_rearms true f buf Hp Hs Hc).
  destruct f as [z p]. destruct z. split; [exact Hs | right; reflexivity].
Qed.

Lemma fire_cleans : forall f, winding_down (zs f) ->
  stopped (zs (fst (step f EvCleanupFire))) = true /\ cleaned (zs (fst (step f EvCleanupFire))) = true.
Proof.
  intros [z p] Hw. destruct z as [u c1 s1 e1 st cl h rd lp t1 t2 t3 ks gb]. wd_fin.
Qed.

(* the helper's exit (which the scheduled kill forces) arms the timer *)
Lemma exit_arms : forall f c, hp (zs f) = HRun -> winding_down (zs (fst (step f (EvHelperExit c)))).
Proof.
  intros [z p] c Hh. destruct z as [u c1 s1 e1 st cl h rd lp t1 t2 t3 ks gb]. zsimpl. subst. wd_fin.
Qed.

(* until it exits, a stopped session with a running helper keeps the kill scheduled *)
Lemma helper_pending_stable : forall f e, (forall c, e <> EvHelperExit c) -> quiet e ->
  stopped (zs f) = true -> hp (zs f) = HRun -> ksched (zs f) = true ->
  let z' := zs (fst (step f e)) in stopped z' = true /\ hp z' = HRun /\ ksched z' = true.
Proof.
  intros [z p] e Hne Hq Hs Hh Hk. destruct z as [u c1 s1 e1 st cl h rd lp t1 t2 t3 ks gb]. zsimpl. subst.
  destruct e as [buf|buf|r|buf| | |code| | | |]; cbn [quiet] in Hq; try contradiction;
    try (exfalso; eapply Hne; reflexivity); crush; try congruence; auto.
Qed.

Definition after_exit (f : fstate) (c : Z) : fstate :=
  match hp (zs f) with HRun => fst (step f (EvHelperExit c)) | _ => f end.

Lemma returns : forall evs, let f := fst (run idle evs) in stopped (zs f) = true ->
  settled (zs f) /\
  forall c qs, Forall quiet qs ->
    let f2 := fst (step (fst (run (after_exit f c) qs)) EvCleanupFire) in
    stopped (zs f2) = true /\ cleaned (zs f2) = true.
Proof.
  intros evs f Hs. pose proof (reachable_settled evs Hs) as Hset. fold f in Hset.
  split; [exact Hset|]. intros c qs Hq.
  assert (Hw : winding_down (zs (after_exit f c))).
  { unfold after_exit. destruct (hp (zs f)) eqn:Hh; try (apply exit_arms; exact Hh);
      (destruct Hset as [Hc|[Ht|[Hr _]]]; [split; auto | split; auto | congruence]). }
  apply fire_cleans. apply quiet_run_keeps; assumption.
Qed.

(* ---- the pinned upstream code (without the fix) ---- *)

Definition hdr_download : list N := [42; 42; 24; 66; 48; 48; 48; 48; 48; 48; 48; 48; 48; 48; 48; 48; 48; 48].
Definition stuck_events (r : launch_res) : list event := [EvServer hdr_download; EvGraceBegin; EvLaunch r].
Definition stuck_state : fstate :=
  mkF (mkZ false false false true true false HNone false false false false false false true) true.

Lemma unfixed_reaches_stuck :
  fst (run_unfixed idle (stuck_events LaunchFail)) = stuck_state /\
  fst (run_unfixed idle (stuck_events ChooserErr)) = stuck_state.
Proof. split; vm_compute; reflexivity. Qed.

(* a second way into the same state: Ctrl-C before the helper has been started *)
Lemma unfixed_reaches_stuck_ctrl_c :
  fst (run_unfixed idle [EvServer hdr_download; EvGraceBegin; EvInput [Consts.zmodem_ctrl_c]; EvLaunch LaunchOk]) = stuck_state.
Proof. vm_compute; reflexivity. Qed.

Lemma stuck_not_settled : stopped (zs stuck_state) = true /\ ~ settled (zs stuck_state).
Proof.
  split; [reflexivity|]. unfold settled, stuck_state. zsimpl. intros [H|[H|[H _]]]; discriminate.
Qed.

(* whatever happens except server output: nothing changes, typed input is swallowed *)
Lemma stuck_step : forall e, quiet e ->
  fst (step_unfixed stuck_state e) = stuck_state /\
  (snd (step_unfixed stuck_state e) = [] \/ snd (step_unfixed stuck_state e) = [OInput false]).
Proof.
  intros e Hq. destruct e as [buf|buf|r|buf| | |code| | | |]; cbn [quiet] in Hq; try contradiction;
    unfold stuck_state; crush; try congruence; auto.
Qed.

Lemma stuck_forever : forall qs, Forall quiet qs ->
  fst (run_unfixed stuck_state qs) = stuck_state /\
  Forall (fun o => o = OInput false) (snd (run_unfixed stuck_state qs)).
Proof.
  induction qs as [|e qs IH]; intros Hq; [split; [reflexivity | constructor]|].
  inversion Hq as [|? ? Hq1 Hq2]; subst. unfold run_unfixed in *. cbn [run_gen].
  destruct (stuck_step e Hq1) as [H1 H2]. unfold step_unfixed in *.
  destruct (step_gen false stuck_state e) as [f1 o1]. cbn [fst snd] in *. subst f1.
  destruct (IH Hq2) as [H3 H4]. destruct (run_gen false stuck_state qs) as [f2 o2]. cbn [fst snd] in *.
  split; [exact H3|]. apply Forall_app. split; [|exact H4].
  destruct H2 as [-> | ->]; repeat constructor.
Qed.

(* ... and the first server chunk after that is swallowed as well *)
Lemma stuck_swallows_output : forall buf,
  snd (step_unfixed stuck_state (EvServer buf)) = [OClaim; OArm TCleanup].
Proof. intros buf. reflexivity. Qed.

(* the same events on the code with the fix: the timer is armed, the terminal comes back *)
Lemma fixed_not_stuck : forall r, r = LaunchFail \/ r = ChooserErr ->
  tcu (zs (fst (run idle (stuck_events r)))) = true /\
  cleaned (zs (fst (run idle (stuck_events r ++ [EvCleanupFire])))) = true.
Proof. intros r [-> | ->]; split; vm_compute; reflexivity. Qed.

(* ---- the grace period of handleZmodemEvent ("the server may fail immediately") ---- *)

(* a session that is over and that the filter has dropped: nothing of it is left *)
Definition inert (f : fstate) : Prop :=
  ptr f = false /\ stopped (zs f) = true /\ cleaned (zs f) = true /\ hp (zs f) = HNone /\
  reader (zs f) = false /\ tcu (zs f) = false /\ tcl (zs f) = false /\ tsv (zs f) = false.

(* what a transparent wrapper does with an event *)
Definition pt_out (e : event) : list output :=
  match e with
  | EvServer buf => [OForward; OTerm buf]
  | EvInput buf => [OServer buf; OInput true]
  | _ => []
  end.

Definition no_header (e : event) : Prop :=
  match e with EvServer buf => detect_zmodem buf = None | _ => True end.

Ltac inert_fin := unfold inert in *; zsimpl;
  repeat match goal with H : _ /\ _ |- _ => destruct H end; subst;
  crush; try congruence; zsimpl; repeat split; try reflexivity; try congruence.

Lemma inert_step : forall fixed f e, inert f -> no_header e ->
  inert (fst (step_gen fixed f e)) /\ snd (step_gen fixed f e) = pt_out e.
Proof.
  intros fixed [z p] e Hi Hn. destruct z as [u c1 s1 e1 st cl h rd lp t1 t2 t3 ks gb].
  destruct e as [buf|buf|r|buf| | |code| | | |]; cbn [no_header pt_out] in *.
  - unfold inert in *; zsimpl. repeat match goal with H : _ /\ _ |- _ => destruct H end; subst.
    unf; zsimpl. rewrite Hn. zsimpl. repeat split; reflexivity.
  - inert_fin.
  - inert_fin.
  - inert_fin.
  - inert_fin.
  - inert_fin.
  - inert_fin.
  - inert_fin.
  - inert_fin.
  - inert_fin.
  - inert_fin.
Qed.

Lemma inert_run : forall fixed evs f, inert f -> Forall no_header evs ->
  inert (fst (run_gen fixed f evs)) /\ snd (run_gen fixed f evs) = flat_map pt_out evs.
Proof.
  intros fixed. induction evs as [|e evs IH]; intros f Hi Hn; [split; [exact Hi | reflexivity]|].
  inversion Hn as [|? ? Hn1 Hn2]; subst. cbn [run_gen flat_map].
  destruct (inert_step fixed f e Hi Hn1) as [H1 H2].
  destruct (step_gen fixed f e) as [f1 o1]. cbn [fst snd] in *.
  destruct (IH f1 H1 Hn2) as [H3 H4]. destruct (run_gen fixed f1 evs) as [f2 o2]. cbn [fst snd] in *.
  split; [exact H3 | rewrite H2, H4; reflexivity].
Qed.

(* while handleZmodemEvent has not finished its grace sleep nothing else of the session exists *)
Definition fresh_in_grace (z : zstate) : Prop :=
  lpend z = true -> hp z = HNone /\ reader z = false /\ tcl z = false /\ tsv z = false /\
                    (stopped z = false -> tcu z = false).

Lemma fresh_idle : fresh_in_grace (zs idle).
Proof. intros H; discriminate. Qed.

Lemma fresh_step : forall fixed f e, fresh_in_grace (zs f) -> fresh_in_grace (zs (fst (step_gen fixed f e))).
Proof.
  intros fixed [z p] e Hf. destruct z as [u c1 s1 e1 st cl h rd lp t1 t2 t3 ks gb].
  unfold fresh_in_grace in *; zsimpl.
  destruct lp.
  - destruct (Hf eq_refl) as (-> & -> & -> & -> & Ht). clear Hf.
    destruct e as [buf|buf|r|buf| | |code| | | |]; crush; try congruence; zsimpl;
      intros Hl; try discriminate; repeat split; try reflexivity; try congruence; auto.
  - clear Hf.
    destruct e as [buf|buf|r|buf| | |code| | | |]; crush; try congruence; zsimpl;
      intros Hl; try discriminate; repeat split; try reflexivity; try congruence; auto.
Qed.

Lemma fresh_run : forall fixed evs f, fresh_in_grace (zs f) -> fresh_in_grace (zs (fst (run_gen fixed f evs))).
Proof.
  intros fixed. induction evs as [|e evs IH]; intros f Hf; [exact Hf|].
  cbn [run_gen]. pose proof (fresh_step fixed f e Hf) as H1.
  destruct (step_gen fixed f e) as [f1 o1]. specialize (IH f1 H1).
  destruct (run_gen fixed f1 evs) as [f2 o2]. exact IH.
Qed.

(* the remote side gives up (cancel sequence or "cannot open ") while the local side is
   still in its grace period - before or after the goroutine has begun: the chunk is shown,
   the cursor restored, and what remains is inert *)
Lemma grace_cancel_step : forall fixed f buf, ptr f = true -> lpend (zs f) = true -> stopped (zs f) = false ->
  fresh_in_grace (zs f) -> has_cancel buf = true \/ has_cannot buf = true ->
  inert (fst (step_gen fixed f (EvServer buf))) /\
  snd (step_gen fixed f (EvServer buf)) = [OShow; OForward; OTerm buf].
Proof.
  intros fixed [z p] buf Hp Hl Hs Hf Hc. destruct z as [u c1 s1 e1 st cl h rd lp t1 t2 t3 ks gb].
  unfold fresh_in_grace in Hf. zsimpl. subst. destruct (Hf eq_refl) as (-> & -> & -> & -> & Ht).
  rewrite (Ht eq_refl). unf; zsimpl. rewrite (detect_veto buf Hc).
  assert (Hv : has_cancel buf || has_cannot buf = true) by (destruct Hc as [-> | ->]; [reflexivity | apply Bool.orb_true_r]).
  rewrite Hv. zsimpl. unfold inert; zsimpl. repeat split; reflexivity.
Qed.

Lemma grace_cancel : forall evs0, let f := fst (run idle evs0) in
  ptr f = true -> lpend (zs f) = true -> stopped (zs f) = false ->
  forall buf, has_cancel buf = true \/ has_cannot buf = true ->
  forall evs, Forall no_header evs ->
    snd (run f (EvServer buf :: evs)) = [OShow; OForward; OTerm buf] ++ flat_map pt_out evs.
Proof.
  intros evs0 f Hp Hl Hs buf Hc evs Hn.
  assert (Hf : fresh_in_grace (zs f)) by (apply (fresh_run true evs0 idle fresh_idle)).
  unfold run. cbn [run_gen].
  destruct (grace_cancel_step true f buf Hp Hl Hs Hf Hc) as [H1 H2].
  destruct (step_gen true f (EvServer buf)) as [f1 o1]. cbn [fst snd] in *.
  destruct (inert_run true evs f1 H1 Hn) as [H3 H4].
  destruct (run_gen true f1 evs) as [f2 o2]. cbn [fst snd] in *. rewrite H2, H4. reflexivity.
Qed.

(* a helper is started by exactly one thing: the end of the grace sleep of a session that
   is not stopped *)
Lemma launch_only_live : forall fixed f e, In OLaunchHelper (snd (step_gen fixed f e)) ->
  e = EvLaunch LaunchOk /\ stopped (zs f) = false /\ lpend (zs f) = true /\ gbegun (zs f) = true.
Proof.
  intros fixed [z p] e. destruct z as [u c1 s1 e1 st cl h rd lp t1 t2 t3 ks gb].
  destruct e as [buf|buf|r|buf| | |code| | | |]; crush; cbn [In]; rewrite ?in_app_iff; cbn [In];
    intros H; repeat (destruct H as [H|H]; try discriminate); try contradiction;
    repeat split; try reflexivity;
    repeat match goal with H : negb (_ && _) = false |- _ =>
      apply Bool.negb_false_iff in H; apply Bool.andb_true_iff in H; destruct H end;
    try congruence.
Qed.

Lemma stopped_sticky : forall fixed f e, stopped (zs f) = true ->
  stopped (zs (fst (step_gen fixed f e))) = true \/ has_start (snd (step_gen fixed f e)) = true.
Proof.
  intros fixed [z p] e Hs. destruct z as [u c1 s1 e1 st cl h rd lp t1 t2 t3 ks gb]. zsimpl. subst.
  destruct e as [buf|buf|r|buf| | |code| | | |]; crush; try congruence; zsimpl; auto;
    right; unfold has_start; rewrite ?existsb_app; cbn [existsb]; rewrite ?Bool.orb_true_r; reflexivity.
Qed.

Lemma has_start_app : forall a b, has_start (a ++ b) = has_start a || has_start b.
Proof. intros a b. unfold has_start. apply existsb_app. Qed.

(* once a session is stopped - during the grace period or later - no helper is started
   any more, whatever happens, until the filter starts the next session *)
Lemma no_launch_after_stop : forall fixed evs f, stopped (zs f) = true ->
  has_start (snd (run_gen fixed f evs)) = false -> ~ In OLaunchHelper (snd (run_gen fixed f evs)).
Proof.
  intros fixed. induction evs as [|e evs IH]; intros f Hs Hn; [intros []|].
  cbn [run_gen] in *. pose proof (stopped_sticky fixed f e Hs) as H1.
  pose proof (launch_only_live fixed f e) as H2.
  destruct (step_gen fixed f e) as [f1 o1]. cbn [fst snd] in *.
  specialize (IH f1). destruct (run_gen fixed f1 evs) as [f2 o2]. cbn [fst snd] in *.
  rewrite has_start_app in Hn. apply Bool.orb_false_iff in Hn as [Hn1 Hn2].
  intros Hin. apply in_app_iff in Hin as [Hin|Hin].
  - destruct (H2 Hin) as (_ & Hst & _). congruence.
  - destruct H1 as [H1|H1]; [|congruence]. exact (IH H1 Hn2 Hin).
Qed.

(* ---- Ctrl-C before the session's goroutine has begun ---- *)

Lemma no_crash : forall fixed f e, ~ In OCrash (snd (step_gen fixed f e)).
Proof.
  intros fixed [z p] e. destruct z as [u c1 s1 e1 st cl h rd lp t1 t2 t3 ks gb].
  destruct e as [buf|buf|r|buf| | |code| | | |]; crush; cbn [In]; rewrite ?in_app_iff; cbn [In];
    intros H; repeat (destruct H as [H|H]; try discriminate); try contradiction.
Qed.

Lemma no_crash_run : forall fixed evs f, ~ In OCrash (snd (run_gen fixed f evs)).
Proof.
  intros fixed. induction evs as [|e evs IH]; intros f; [intros []|].
  cbn [run_gen]. pose proof (no_crash fixed f e) as H1.
  destruct (step_gen fixed f e) as [f1 o1]. specialize (IH f1).
  destruct (run_gen fixed f1 evs) as [f2 o2]. cbn [snd] in *.
  intros H. apply in_app_iff in H as [H|H]; auto.
Qed.

Lemma pinned_agrees : forall f e, (forall buf, e = EvInput buf -> crash_window f buf = false) ->
  step_pinned f e = step f e.
Proof.
  intros f e H. destruct e; try reflexivity. cbn [step_pinned]. rewrite (H buf eq_refl). reflexivity.
Qed.

Lemma pinned_crashes :
  snd (run_pinned idle [EvServer hdr_download; EvInput [Consts.zmodem_ctrl_c]]) =
    [OForward; OTerm hdr_download; OHide; OStart false; OCrash].
Proof. vm_compute. reflexivity. Qed.

(* the same history on the code with the proposed fix: cancelled and cleaned up *)
Lemma early_ctrl_c_fixed :
  snd (run idle [EvServer hdr_download; EvInput [Consts.zmodem_ctrl_c]; EvGraceBegin; EvLaunch LaunchOk; EvCleanupFire]) =
    [OForward; OTerm hdr_download; OHide; OStart false;
     OCancelServer; OArm TCleanup; OMsg MStopped; OInput false; OServer Consts.zmodem_cleanup_enter].
Proof. vm_compute. reflexivity. Qed.

(* ---- the helper's exit: whatever its status, the remote side is cancelled ---- *)

Definition strip_msg (os : list output) : list output :=
  filter (fun o => match o with OMsg _ => false | _ => true end) os.

Definition forget_code (z : zstate) : zstate :=
  match hp z with HExit _ => set_hp (HExit 0) z | _ => z end.

Lemma exit_any_status : forall fixed f c, hp (zs f) = HRun ->
  In OCancelServer (snd (step_gen fixed f (EvHelperExit c))) /\
  stopped (zs (fst (step_gen fixed f (EvHelperExit c)))) = true /\
  tcu (zs (fst (step_gen fixed f (EvHelperExit c)))) = true /\
  forall c', strip_msg (snd (step_gen fixed f (EvHelperExit c))) = strip_msg (snd (step_gen fixed f (EvHelperExit c'))) /\
             forget_code (zs (fst (step_gen fixed f (EvHelperExit c)))) = forget_code (zs (fst (step_gen fixed f (EvHelperExit c')))) /\
             ptr (fst (step_gen fixed f (EvHelperExit c))) = ptr (fst (step_gen fixed f (EvHelperExit c'))).
Proof.
  intros fixed [z p] c Hh. destruct z as [u c1 s1 e1 st cl h rd lp t1 t2 t3 ks gb]. zsimpl. subst h.
  unf; zsimpl. destruct u; zsimpl; cbn [In]; (split; [auto 8|]); (split; [reflexivity|]); (split; [reflexivity|]);
    intros c'; unfold strip_msg, forget_code; cbn [filter app]; zsimpl; repeat split.
Qed.

Lemma cancel_stops_remote : forall os, In OCancelServer os -> remote_waiting os = false.
Proof.
  intros os H. unfold remote_waiting. apply Bool.negb_false_iff. apply existsb_exists.
  exists OCancelServer. split; [exact H | reflexivity].
Qed.

Lemma quiet_no_start : forall fixed qs f, Forall quiet qs -> has_start (snd (run_gen fixed f qs)) = false.
Proof.
  intros fixed. induction qs as [|e qs IH]; intros f Hq; [reflexivity|].
  inversion Hq as [|? ? Hq1 Hq2]; subst. cbn [run_gen].
  pose proof (start_only_on_header fixed f e) as H1.
  destruct (step_gen fixed f e) as [f1 o1]. specialize (IH f1 Hq2).
  destruct (run_gen fixed f1 qs) as [f2 o2]. cbn [snd] in *.
  rewrite has_start_app, IH, Bool.orb_false_r.
  destruct (has_start o1) eqn:Hs; [|reflexivity]. exfalso.
  unfold has_start in Hs. apply existsb_exists in Hs as (o & Hin & Ho).
  destruct o; try discriminate. destruct (H1 up Hin) as (buf & He & _). subst e. exact Hq1.
Qed.

(* the helper exits, with ANY status, in ANY state in which it runs; then, however many
   other events of a quiet server follow, the cleanup timer fires: the remote program has
   been sent the cancel sequence (so a remote that repeats its header until cancelled is
   silent), no new session has started, and the wrapper is in pass-through *)
Lemma exit_returns_for_good : forall f c qs, hp (zs f) = HRun -> Forall quiet qs ->
  let r := run f (EvHelperExit c :: qs ++ [EvCleanupFire]) in
  remote_waiting (snd r) = false /\ has_start (snd r) = false /\ passthrough (fst r).
Proof.
  intros f c qs Hh Hq. cbv zeta. unfold run. cbn [run_gen].
  destruct (exit_any_status true f c Hh) as (Hc & _).
  pose proof (exit_arms f c Hh) as Hw. unfold step in Hw.
  destruct (step_gen true f (EvHelperExit c)) as [f1 o1] eqn:E1. cbn [fst snd] in *.
  rewrite run_app.
  pose proof (quiet_run_keeps qs f1 Hq Hw) as Hw2. pose proof (quiet_no_start true qs f1 Hq) as Hn2.
  unfold run in Hw2. destruct (run_gen true f1 qs) as [f2 o2]. cbn [fst snd] in *.
  cbn [run_gen]. pose proof (fire_cleans f2 Hw2) as [Hs3 Hc3]. unfold step in Hs3, Hc3.
  pose proof (start_only_on_header true f2 EvCleanupFire) as Hn3.
  destruct (step_gen true f2 EvCleanupFire) as [f3 o3]. cbn [fst snd] in *.
  split; [apply cancel_stops_remote; apply in_app_iff; left; exact Hc|].
  split.
  - rewrite ?app_nil_r, !has_start_app, Hn2.
    assert (H1 : has_start o1 = false).
    { destruct (has_start o1) eqn:Hs; [|reflexivity]. exfalso. unfold has_start in Hs.
      apply existsb_exists in Hs as (o & Hin & Ho). destruct o; try discriminate.
      pose proof (start_only_on_header true f (EvHelperExit c) up) as H0. rewrite E1 in H0.
      destruct (H0 Hin) as (buf & He & _). discriminate. }
    assert (H3 : has_start o3 = false).
    { destruct (has_start o3) eqn:Hs; [|reflexivity]. exfalso. unfold has_start in Hs.
      apply existsb_exists in Hs as (o & Hin & Ho). destruct o; try discriminate.
      destruct (Hn3 up Hin) as (buf & He & _). discriminate. }
    rewrite H1, H3. reflexivity.
  - right. split; assumption.
Qed.
