From Trzsz Require Import Base.Bytes Model.Base64.
From Coq Require Import Lia ZArith Zify ZifyN ZifyNat.
Ltac Zify.zify_post_hook ::= Z.to_euclidean_division_equations.

(* ---- the alphabet table and its inverse: finite sweeps, lifted ---- *)
Definition sextets : list N := map N.of_nat (seq 0 64).

Lemma in_sextets s : s < 64 -> In s sextets.
Proof.
  intros H. unfold sextets. apply in_map_iff. exists (N.to_nat s). split; [apply N2Nat.id|].
  apply in_seq. lia.
Qed.

Lemma index_char_sweep : forallb (fun s => match b64_index (b64_char s) with Some x => x =? s | None => false end) sextets = true.
Proof. vm_compute. reflexivity. Qed.

Lemma index_char s : s < 64 -> b64_index (b64_char s) = Some s.
Proof.
  intros H. pose proof index_char_sweep as W. rewrite forallb_forall in W.
  specialize (W s (in_sextets s H)). destruct (b64_index (b64_char s)) as [x|]; [|discriminate].
  apply N.eqb_eq in W. congruence.
Qed.

Lemma char_b64_sweep : forallb (fun s => is_b64_byte (b64_char s)) sextets = true.
Proof. vm_compute. reflexivity. Qed.

Lemma char_is_b64 s : s < 64 -> is_b64_byte (b64_char s) = true.
Proof. intros H. pose proof char_b64_sweep as W. rewrite forallb_forall in W. exact (W s (in_sextets s H)). Qed.

Lemma pad_is_b64 : is_b64_byte b64_pad = true.
Proof. vm_compute. reflexivity. Qed.

Lemma index_pad : b64_index b64_pad = None.
Proof. vm_compute. reflexivity. Qed.

Lemma mod64_lt x : x mod 64 < 64.
Proof. apply N.mod_lt. discriminate. Qed.

(* every byte with the b64 property is one of 65 listed values, so any boolean predicate
   that holds on those holds on it *)
Lemma is_b64_byte_in c : is_b64_byte c = true -> In c (b64_pad :: b64_alphabet).
Proof.
  unfold is_b64_byte. intros H. apply orb_prop in H as [H|H].
  - right. apply existsb_exists in H as (x & Hx & E). apply N.eqb_eq in E. subst. exact Hx.
  - left. apply N.eqb_eq in H. congruence.
Qed.

Lemma b64_byte_lift (P : byte -> bool) : forallb P (b64_pad :: b64_alphabet) = true ->
  forall c, is_b64_byte c = true -> P c = true.
Proof. intros W c H. rewrite forallb_forall in W. apply W, is_b64_byte_in, H. Qed.

Lemma b64_not_newline c : is_b64_byte c = true -> is_newline c = false.
Proof.
  intros H. apply (b64_byte_lift (fun c => negb (is_newline c))) in H; [|vm_compute; reflexivity].
  destruct (is_newline c); [discriminate|reflexivity].
Qed.

(* ---- the 3-byte / 4-sextet arithmetic ---- *)
Lemma enc3_dec4 a b c : a < 256 -> b < 256 -> c < 256 ->
  let v := a * 65536 + b * 256 + c in
  b64_dec4 (v / 262144 mod 64) (v / 4096 mod 64) (v / 64 mod 64) (v mod 64) = [a; b; c].
Proof.
  intros Ha Hb Hc v. unfold b64_dec4.
  assert (E : (v / 262144 mod 64) * 262144 + (v / 4096 mod 64) * 4096 + (v / 64 mod 64) * 64 + v mod 64 = v).
  { subst v. lia. }
  rewrite E. subst v. f_equal; [lia|]. f_equal; [lia|]. f_equal. lia.
Qed.

Lemma tail1_dec a : a < 256 ->
  let v := a * 65536 in
  firstn 1 (b64_dec4 (v / 262144 mod 64) (v / 4096 mod 64) 0 0) = [a].
Proof. intros Ha v. unfold b64_dec4. cbn [firstn]. f_equal. subst v. lia. Qed.

Lemma tail2_dec a b : a < 256 -> b < 256 ->
  let v := a * 65536 + b * 256 in
  firstn 2 (b64_dec4 (v / 262144 mod 64) (v / 4096 mod 64) (v / 64 mod 64) 0) = [a; b].
Proof. intros Ha Hb v. unfold b64_dec4. cbn [firstn]. subst v. f_equal; [lia|]. f_equal. lia. Qed.

(* ---- induction in steps of three ---- *)
Lemma list_ind3 {A} (P : list A -> Prop) :
  P [] -> (forall a, P [a]) -> (forall a b, P [a; b]) ->
  (forall a b c r, P r -> P (a :: b :: c :: r)) -> forall l, P l.
Proof.
  intros H0 H1 H2 H3 l.
  enough (G : forall n l, (length l <= n)%nat -> P l) by (apply (G (length l)); lia).
  induction n as [|n IH]; intros l0 Hl.
  - destruct l0; [exact H0|simpl in Hl; lia].
  - destruct l0 as [|a [|b [|c r]]]; auto. apply H3, IH. simpl in Hl. lia.
Qed.

Lemma bytes_ok_cons b l : bytes_ok (b :: l) = true -> b < 256 /\ bytes_ok l = true.
Proof. unfold bytes_ok. cbn [forallb]. intros H. apply andb_prop in H as [H1 H2]. split; [apply N.ltb_lt, H1|exact H2]. Qed.

(* ---- groups: structure, decoding ---- *)
Lemma groups_cons3 a b c r : b64_groups (a :: b :: c :: r) =
  (b64_enc3 a b c ++ fst (b64_groups r), snd (b64_groups r)).
Proof. cbn [b64_groups]. destruct (b64_groups r). reflexivity. Qed.

Lemma groups_split d : exists g, d = g ++ snd (b64_groups d) /\ (length (snd (b64_groups d)) < 3)%nat
  /\ (length (fst (b64_groups d)) = 4 * (length g / 3))%nat /\ (length g mod 3 = 0)%nat.
Proof.
  induction d as [|a|a b|a b c r IH] using list_ind3.
  - exists []. cbn [b64_groups fst snd app length]. repeat split; try reflexivity; lia.
  - exists []. cbn [b64_groups fst snd app length]. repeat split; try reflexivity; lia.
  - exists []. cbn [b64_groups fst snd app length]. repeat split; try reflexivity; lia.
  - destruct IH as (g & E & L & Lo & Lg). exists (a :: b :: c :: g). rewrite groups_cons3. cbn [fst snd].
    split; [cbn [app]; congruence|]. split; [exact L|].
    rewrite app_length, Lo. cbn [length b64_enc3]. split; lia.
Qed.

Opaque b64_char b64_index.

Lemma quanta_enc3 a b c tail : a < 256 -> b < 256 -> c < 256 ->
  b64_quanta (b64_enc3 a b c ++ tail) =
  match b64_quanta tail with Some o => Some ([a; b; c] ++ o) | None => None end.
Proof.
  intros Ha Hb Hc. unfold b64_enc3. cbn [app b64_quanta].
  rewrite !index_char by apply mod64_lt.
  rewrite (enc3_dec4 a b c Ha Hb Hc). reflexivity.
Qed.

Lemma quanta_groups d : bytes_ok d = true -> forall tail,
  exists g, d = g ++ snd (b64_groups d) /\
  b64_quanta (fst (b64_groups d) ++ tail) =
  match b64_quanta tail with Some o => Some (g ++ o) | None => None end.
Proof.
  induction d as [|a|a b|a b c r IH] using list_ind3; intros Hd tail.
  - exists []. cbn [b64_groups fst snd app]. split; [reflexivity|]. destruct (b64_quanta tail); reflexivity.
  - exists []. cbn [b64_groups fst snd app]. split; [reflexivity|]. destruct (b64_quanta tail); reflexivity.
  - exists []. cbn [b64_groups fst snd app]. split; [reflexivity|]. destruct (b64_quanta tail); reflexivity.
  - apply bytes_ok_cons in Hd as [Ha Hd]. apply bytes_ok_cons in Hd as [Hb Hd]. apply bytes_ok_cons in Hd as [Hc Hd].
    destruct (IH Hd tail) as (g & E & Q). exists (a :: b :: c :: g).
    rewrite groups_cons3. cbn [fst snd]. split; [cbn [app]; congruence|].
    rewrite <- app_assoc, quanta_enc3 by assumption. rewrite Q.
    destruct (b64_quanta tail); reflexivity.
Qed.

Lemma quanta_tail r : bytes_ok r = true -> (length r < 3)%nat -> b64_quanta (b64_tail r) = Some r.
Proof.
  intros Hr L. destruct r as [|a [|b [|c r]]]; [reflexivity| | |simpl in L; lia].
  - apply bytes_ok_cons in Hr as [Ha _]. unfold b64_tail. cbn [b64_quanta].
    rewrite !index_char by apply mod64_lt. rewrite index_pad, N.eqb_refl. cbn [andb is_nil].
    rewrite (tail1_dec a Ha). reflexivity.
  - apply bytes_ok_cons in Hr as [Ha Hr]. apply bytes_ok_cons in Hr as [Hb _]. unfold b64_tail. cbn [b64_quanta].
    rewrite !index_char by apply mod64_lt. rewrite index_pad, N.eqb_refl. cbn [andb is_nil].
    rewrite (tail2_dec a b Ha Hb). reflexivity.
Qed.

Lemma bytes_ok_app a b : bytes_ok (a ++ b) = true -> bytes_ok a = true /\ bytes_ok b = true.
Proof. unfold bytes_ok. rewrite forallb_app. apply andb_prop. Qed.

Lemma quanta_encode d : bytes_ok d = true -> b64_quanta (b64_encode d) = Some d.
Proof.
  intros Hd. unfold b64_encode. destruct (b64_groups d) as [o r] eqn:G.
  destruct (quanta_groups d Hd (b64_tail r)) as (g & E & Q). rewrite G in *. cbn [fst snd] in *.
  destruct (groups_split d) as (g' & _ & L & _). rewrite G in L. cbn [snd] in L.
  assert (Hr : bytes_ok r = true) by (rewrite E in Hd; apply bytes_ok_app in Hd; tauto).
  rewrite Q, (quanta_tail r Hr L). congruence.
Qed.

(* ---- alphabet: every output byte is an alphabet character or '=' (no hypothesis on d) ---- *)
Lemma enc3_alphabet a b c : forallb is_b64_byte (b64_enc3 a b c) = true.
Proof. unfold b64_enc3. cbn [forallb]. rewrite !char_is_b64 by apply mod64_lt. reflexivity. Qed.

Lemma groups_alphabet d : forallb is_b64_byte (fst (b64_groups d)) = true.
Proof.
  induction d as [|a|a b|a b c r IH] using list_ind3; try reflexivity.
  rewrite groups_cons3. cbn [fst]. rewrite forallb_app, enc3_alphabet, IH. reflexivity.
Qed.

Lemma tail_alphabet r : forallb is_b64_byte (b64_tail r) = true.
Proof.
  destruct r as [|a [|b [|c r]]]; try reflexivity; unfold b64_tail; cbn [forallb];
    rewrite !char_is_b64 by apply mod64_lt; rewrite pad_is_b64; reflexivity.
Qed.

Theorem encode_alphabet d : forallb is_b64_byte (b64_encode d) = true.
Proof.
  unfold b64_encode. pose proof (groups_alphabet d) as G. destruct (b64_groups d) as [o r]. cbn [fst] in G.
  rewrite forallb_app, G, tail_alphabet. reflexivity.
Qed.

(* ---- newline stripping ---- *)
Lemma strip_id l : forallb is_b64_byte l = true -> b64_strip l = l.
Proof.
  unfold b64_strip. induction l as [|x l IH]; [reflexivity|]. cbn [forallb filter]. intros H.
  apply andb_prop in H as [Hx Hl]. rewrite (b64_not_newline x Hx). cbn [negb]. rewrite (IH Hl). reflexivity.
Qed.

Lemma strip_app a b : b64_strip (a ++ b) = b64_strip a ++ b64_strip b.
Proof. unfold b64_strip. apply filter_app. Qed.

Lemma strip_idem l : b64_strip (b64_strip l) = b64_strip l.
Proof.
  unfold b64_strip. induction l as [|x l IH]; [reflexivity|]. cbn [filter].
  destruct (negb (is_newline x)) eqn:E; [|exact IH]. cbn [filter]. rewrite E, IH. reflexivity.
Qed.

(* ---- the round trip ---- *)
Theorem roundtrip d : bytes_ok d = true -> b64_decode (b64_encode d) = Some d.
Proof.
  intros Hd. unfold b64_decode. rewrite strip_id by apply encode_alphabet. apply quanta_encode, Hd.
Qed.

(* CR / LF inserted anywhere into a stream (line wrapping by a terminal) do not change what it decodes to *)
Theorem decode_skips_newlines s s' : b64_strip s' = b64_strip s -> b64_decode s' = b64_decode s.
Proof. unfold b64_decode. intros ->. reflexivity. Qed.

Corollary roundtrip_with_newlines d s : bytes_ok d = true -> b64_strip s = b64_encode d -> b64_decode s = Some d.
Proof.
  intros Hd E. unfold b64_decode. rewrite E. apply quanta_encode, Hd.
Qed.

(* ---- length ---- *)
Theorem encode_length d : length (b64_encode d) = (4 * ((length d + 2) / 3))%nat.
Proof.
  unfold b64_encode. destruct (groups_split d) as (g & E & L & Lo & Lg).
  destruct (b64_groups d) as [o r]. cbn [fst snd] in *.
  rewrite app_length, Lo. apply (f_equal (@length _)) in E. rewrite app_length in E.
  destruct r as [|a [|b [|c r]]]; cbn [b64_tail length] in *; lia.
Qed.

(* ---- the streaming encoder ---- *)
Lemma groups_short r : (length r < 3)%nat -> b64_groups r = ([], r).
Proof. destruct r as [|a [|b [|c r]]]; cbn [length]; try reflexivity. lia. Qed.

Lemma groups_app a : forall b,
  b64_groups (a ++ b) =
  (fst (b64_groups a) ++ fst (b64_groups (snd (b64_groups a) ++ b)), snd (b64_groups (snd (b64_groups a) ++ b))).
Proof.
  induction a as [|x|x y|x y z r IH] using list_ind3; intros b.
  - rewrite (groups_short []) by (cbn; lia). cbn [fst snd app]. apply surjective_pairing.
  - rewrite (groups_short [x]) by (cbn; lia). cbn [fst snd]. apply surjective_pairing.
  - rewrite (groups_short [x; y]) by (cbn; lia). cbn [fst snd]. apply surjective_pairing.
  - change ((x :: y :: z :: r) ++ b) with (x :: y :: z :: (r ++ b)).
    rewrite !groups_cons3, IH. cbn [fst snd]. rewrite app_assoc. reflexivity.
Qed.

Lemma writer_go_concat chunks : forall buf, (length buf < 3)%nat ->
  concat (fst (b64_writer_go buf chunks)) ++ snd (b64_writer_go buf chunks) =
  fst (b64_groups (buf ++ concat chunks)) ++ b64_tail (snd (b64_groups (buf ++ concat chunks))).
Proof.
  induction chunks as [|p cs IH]; intros buf L.
  - cbn [b64_writer_go concat fst snd app]. rewrite app_nil_r, (groups_short buf L). reflexivity.
  - cbn [b64_writer_go concat]. rewrite app_assoc, (groups_app (buf ++ p)).
    destruct (groups_split (buf ++ p)) as (g & _ & L' & _).
    destruct (b64_groups (buf ++ p)) as [o buf'] eqn:G. cbn [fst snd] in *.
    specialize (IH buf' L').
    destruct (b64_writer_go buf' cs) as [os cl]. cbn [fst snd concat] in *.
    rewrite <- app_assoc, IH, app_assoc. reflexivity.
Qed.

Theorem writer_concat chunks : b64_writer_all chunks = b64_encode (concat chunks).
Proof.
  unfold b64_writer_all, b64_writer, b64_encode.
  pose proof (writer_go_concat chunks [] ltac:(cbn; lia)) as H. cbn [app] in H.
  destruct (b64_writer_go [] chunks) as [os cl]. destruct (b64_groups (concat chunks)) as [o r].
  exact H.
Qed.

(* ---- rejection: what the decoder does NOT accept ---- *)
(* a stream whose length (without CR/LF) is not a multiple of 4 is rejected *)
Lemma quanta_some_len s : forall o, b64_quanta s = Some o -> (length s mod 4 = 0)%nat.
Proof.
  enough (G : forall n s o, (length s <= n)%nat -> b64_quanta s = Some o -> (length s mod 4 = 0)%nat)
    by (intros o; apply (G (length s)); lia).
  induction n as [|n IH]; intros s0 o L Q.
  - destruct s0; [reflexivity|simpl in L; lia].
  - destruct s0 as [|c0 [|c1 [|c2 [|c3 r]]]]; try reflexivity; try discriminate.
    assert (R : is_nil r = true \/ exists o', b64_quanta r = Some o').
    { cbn [b64_quanta] in Q. destruct (b64_index c0); [|discriminate]. destruct (b64_index c1); [|discriminate].
      destruct (b64_index c2).
      - destruct (b64_index c3).
        + destruct (b64_quanta r) as [o'|]; [right; eauto|discriminate].
        + destruct (is_nil r); [left; reflexivity|rewrite andb_false_r in Q; discriminate].
      - destruct (is_nil r); [left; reflexivity|rewrite andb_false_r in Q; discriminate]. }
    destruct R as [R|(o' & R)].
    + destruct r; [reflexivity|discriminate].
    + specialize (IH r o' ltac:(simpl in L; lia) R). cbn [length] in *.
      change (S (S (S (S (length r))))) with (4 + length r)%nat. rewrite Nat.add_mod by lia. rewrite IH. reflexivity.
Qed.

Theorem decode_rejects_bad_length s : (length (b64_strip s) mod 4 <> 0)%nat -> b64_decode s = None.
Proof.
  intros H. unfold b64_decode. destruct (b64_quanta (b64_strip s)) as [o|] eqn:Q; [|reflexivity].
  apply quanta_some_len in Q. contradiction.
Qed.
