(* Instances: well-formedness of the GENERATED skeletons (Gen/Skel_pipeline.v), by vm_compute. *)
From Coq Require Import List Arith Bool.
Import ListNotations.
From Trzsz Require Import Model.Proc Proofs.Proc Gen.Skel_pipeline.

Eval vm_compute in (wf send_net, wf recv_net, wf hash_net).
Eval vm_compute in (wf_violations send_net).
Eval vm_compute in (wf_violations recv_net).
Eval vm_compute in (wf_violations hash_net).
