(* Instances: well-formedness of the GENERATED skeletons (Gen/Skel_pipeline.v), by vm_compute,
   and the structural success guard. *)
From Coq Require Import List Arith Bool.
Import ListNotations.
From Trzsz Require Import Model.Proc Proofs.Proc Gen.Skel_pipeline.

Lemma recv_net_wf : wf recv_net = true.
Proof. vm_compute. reflexivity. Qed.
Lemma hash_net_wf : wf hash_net = true.
Proof. vm_compute. reflexivity. Qed.
Lemma recv_net_no_violations : wf_violations recv_net = [].
Proof. vm_compute. reflexivity. Qed.
Lemma hash_net_no_violations : wf_violations hash_net = [].
Proof. vm_compute. reflexivity. Qed.

(* The send net.  On the unchanged tree wf is false for exactly one source statement:
   `b.transfer.bufInitWG.Wait()` in sendDataWriter.Write (inlined into the encoder three times:
   writeAll, Flush, deferred Close) has no cancellation arm (W4) - the goroutine leak
   `bufinit-wait-leak`.  With hooks/fix_bufinit.diff applied the violation list is empty.
   The statement below holds in both worlds and fails for any OTHER violation. *)
Definition is_bufinit_wait (v : pid * stmt * condition) : bool :=
  match v with
  | (p, WgWait _, W4) => Nat.eqb p p_send_EncodeData
  | _ => false
  end.
Lemma send_net_violations_known : forallb is_bufinit_wait (wf_violations send_net) = true.
Proof. vm_compute. reflexivity. Qed.
Lemma send_net_wf_iff_no_violation :
  wf send_net = match wf_violations send_net with [] => true | _ => false end.
Proof. vm_compute. reflexivity. Qed.
(* since the fix "make the sender's buffer-size probing wait cancellable" the generated send
   net has no violation at all *)
Lemma send_net_wf : wf send_net = true.
Proof. vm_compute. reflexivity. Qed.
Lemma send_net_no_violations : wf_violations send_net = [].
Proof. vm_compute. reflexivity. Qed.
(* apart from that wait (assumed to return) the send net is well-formed *)
Lemma send_net_assumed_wf : wf (assume_wg_returns send_net) = true.
Proof. vm_compute. reflexivity. Qed.

(* the success signal: sent only by the acknowledgement stage, after the final-ack read
   (send side) / the final-ack write (receive side); main returns the digest only in the
   select case that received it *)
Lemma send_success_guarded :
  success_guarded send_net ch_send_sendFileDataV2_0 ch_send_CalculateMD5_0 p_send_RecvAck p_send_main RecvLine = true.
Proof. vm_compute. reflexivity. Qed.
Lemma recv_success_guarded :
  success_guarded recv_net ch_recv_recvFileDataV2_0 ch_recv_CalculateMD5_0 p_recv_SendAck p_recv_main WriteWire = true.
Proof. vm_compute. reflexivity. Qed.
Lemma send_succ_sender : sender send_net ch_send_sendFileDataV2_0 = Some p_send_RecvAck.
Proof. reflexivity. Qed.
Lemma recv_succ_sender : sender recv_net ch_recv_recvFileDataV2_0 = Some p_recv_SendAck.
Proof. reflexivity. Qed.
