(* Instances: well-formedness of the GENERATED skeletons (Gen/Skel_pipeline.v), by vm_compute,
   and the structural success guard. *)
From Coq Require Import List Arith Bool.
Import ListNotations.
From Trzsz Require Import Model.Proc Proofs.Proc Gen.Skel_pipeline.

Lemma recv_net_wf : wf recv_net = true.
Proof. vm_compute. reflexivity. Qed.
Lemma hash_net_wf : wf hash_net = true.
Proof. vm_compute. reflexivity. Qed.
Lemma recv_net_no_violations : wf_violations recv_net = [].
Proof. vm_compute. reflexivity. Qed.
Lemma hash_net_no_violations : wf_violations hash_net = [].
Proof. vm_compute. reflexivity. Qed.

(* The send net.  On the unchanged tree wf is false for exactly one source statement:
   `b.transfer.bufInitWG.Wait()` in sendDataWriter.Write (inlined into the encoder three times:
   writeAll, Flush, deferred Close) has no cancellation arm (W4) - the goroutine leak
   `bufinit-wait-leak`.  With hooks/fix_bufinit.diff applied the violation list is empty.
   The statement below holds in both worlds and fails for any OTHER violation. *)
Definition is_bufinit_wait (v : pid * stmt * condition) : bool :=
  match v with
  | (p, WgWait _, W4) => Nat.eqb p p_send_EncodeData
  | _ => false
  end.
Lemma send_net_violations_known : forallb is_bufinit_wait (wf_violations send_net) = true.
Proof. vm_compute. reflexivity. Qed.
Lemma send_net_wf_iff_no_violation :
  wf send_net = match wf_violations send_net with [] => true | _ => false end.
Proof. vm_compute. reflexivity. Qed.
(* since the fix "make the sender's buffer-size probing wait cancellable" the generated send
   net has no violation at all *)
Lemma send_net_wf : wf send_net = true.
Proof. vm_compute. reflexivity. Qed.
Lemma send_net_no_violations : wf_violations send_net = [].
Proof. vm_compute. reflexivity. Qed.
(* apart from that wait (assumed to return) the send net is well-formed *)
Lemma send_net_assumed_wf : wf (assume_wg_returns send_net) = true.
Proof. vm_compute. reflexivity. Qed.

(* the success signal: sent only by the acknowledgement stage, after the final-ack read
   (send side) / the final-ack write (receive side); main returns the digest only in the
   select case that received it *)
Lemma send_success_guarded :
  success_guarded send_net ch_send_sendFileDataV2_0 ch_send_CalculateMD5_0 p_send_RecvAck p_send_main RecvLine = true.
Proof. vm_compute. reflexivity. Qed.
Lemma recv_success_guarded :
  success_guarded recv_net ch_recv_recvFileDataV2_0 ch_recv_CalculateMD5_0 p_recv_SendAck p_recv_main WriteWire = true.
Proof. vm_compute. reflexivity. Qed.
Lemma send_succ_sender : sender send_net ch_send_sendFileDataV2_0 = Some p_send_RecvAck.
Proof. reflexivity. Qed.
Lemma recv_succ_sender : sender recv_net ch_recv_recvFileDataV2_0 = Some p_recv_SendAck.
Proof. reflexivity. Qed.

(* ---- every fault reaches ctx.cancel (Model/ProcFault.v) on the generated nets ---- *)
From Trzsz Require Import Model.ProcFault Proofs.ProcFault.

Lemma send_faults_cancel : faults_cancel send_net = true.
Proof. vm_compute. reflexivity. Qed.
Lemma recv_faults_cancel : faults_cancel recv_net = true.
Proof. vm_compute. reflexivity. Qed.
Lemma hash_faults_cancel : faults_cancel hash_net = true.
Proof. vm_compute. reflexivity. Qed.
Lemma send_fault_violations : fault_violations false send_net = [].
Proof. vm_compute. reflexivity. Qed.
Lemma recv_fault_violations : fault_violations false recv_net = [].
Proof. vm_compute. reflexivity. Qed.
Lemma hash_fault_violations : fault_violations false hash_net = [].
Proof. vm_compute. reflexivity. Qed.

(* the error paths on which the goroutine may first have to wait for a consumer: exactly two,
   the file reader of the sender and the decoder of the receiver, which forward the bytes a
   failing Read still delivered (`n > 0 && err != nil`) before they report the error *)
Lemma send_fault_waits : fault_waits send_net = [(p_send_ReadData, FileIO)].
Proof. vm_compute. reflexivity. Qed.
Lemma recv_fault_waits : fault_waits recv_net = [(p_recv_DecodeData, Check)].
Proof. vm_compute. reflexivity. Qed.
Lemma hash_fault_waits : fault_waits hash_net = [].
Proof. vm_compute. reflexivity. Qed.

(* the main functions: `defer ctx.cancel(nil)`; before the context exists they only do
   operations and return *)
Lemma mains_exit_cancel :
  exit_cancel (info send_net p_send_main) = true /\ exit_cancel (info recv_net p_recv_main) = true /\
  exit_cancel (info hash_net p_hash_main) = true.
Proof. repeat split. Qed.
Lemma preludes_quiet :
  quietL send_main_prelude = true /\ quietL recv_main_prelude = true /\ quietL hash_main_prelude = true.
Proof. vm_compute. repeat split. Qed.
Lemma main_pids : p_send_main < nprocs send_net /\ p_recv_main < nprocs recv_net /\ p_hash_main < nprocs hash_net.
Proof. vm_compute. repeat split; repeat constructor. Qed.

Lemma main_exits_cancel :
  (forall D io_ret g, reach send_net D io_ret g -> procs g p_send_main = Exited -> cancelled g = true) /\
  (forall D io_ret g, reach recv_net D io_ret g -> procs g p_recv_main = Exited -> cancelled g = true) /\
  (forall D io_ret g, reach hash_net D io_ret g -> procs g p_hash_main = Exited -> cancelled g = true) /\
  quietL send_main_prelude = true /\ quietL recv_main_prelude = true /\ quietL hash_main_prelude = true.
Proof.
  destruct mains_exit_cancel as [Xs [Xr Xh]]. destruct main_pids as [Ps [Pr Ph]].
  refine (conj _ (conj _ (conj _ preludes_quiet))).
  - intros D io_ret g R. exact (exit_cancels send_net D io_ret g R p_send_main Ps Xs).
  - intros D io_ret g R. exact (exit_cancels recv_net D io_ret g R p_recv_main Pr Xr).
  - intros D io_ret g R. exact (exit_cancels hash_net D io_ret g R p_hash_main Ph Xh).
Qed.

(* recvFileDataV2 after the success signal: `<-saveDone` (fix d144b66).  The channel is
   unbuffered, nobody sends on it, the saver closes it when it exits (defer), the saver has a
   smaller rank than main; main waits for it once, in the arm that received the success
   signal, and re-checks the context before it reads the digest.  So in a cancelled world the
   wait is covered by theorem B like every other wait for a closer (W3). *)
Lemma recv_main_waits_for_saver :
  capof recv_net ch_recv_SaveData_1 = 0 /\ sender recv_net ch_recv_SaveData_1 = None /\
  existsb (Nat.eqb ch_recv_SaveData_1) (defer_close (info recv_net p_recv_SaveData)) = true /\
  closer_ok recv_net p_recv_main ch_recv_SaveData_1 = true /\
  count (is_recvclose ch_recv_SaveData_1) (all_stmts (info recv_net p_recv_main)) = 1 /\
  underL ch_recv_recvFileDataV2_0 ch_recv_SaveData_1 (body (info recv_net p_recv_main)) = true /\
  body (info recv_net p_recv_main) =
    [ Sel [ (RecvAlt ch_recv_recvFileDataV2_0,
             [ RecvClose ch_recv_SaveData_1; IfCtxExit; RecvClose ch_recv_CalculateMD5_0; Return ]);
            (DoneAlt, [ Return ]) ] ].
Proof. vm_compute. repeat split. Qed.
