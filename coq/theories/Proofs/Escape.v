From Trzsz Require Import Base.Bytes Gen.Consts Model.Escape.
From Coq Require Import Lia.

Lemma in_all_bytes b : byte_ok b = true -> In b all_bytes.
Proof.
  unfold byte_ok, all_bytes. intros H. apply N.ltb_lt in H.
  apply in_map_iff. exists (N.to_nat b). split; [apply N2Nat.id|].
  apply in_seq. lia.
Qed.

Lemma wf_byte_of t b : wf t = true -> byte_ok b = true -> wf_byte t b = true.
Proof.
  unfold wf. intros H Hb. rewrite forallb_forall in H. apply H, in_all_bytes, Hb.
Qed.

Lemma wf_code t b c : wf t = true -> byte_ok b = true -> esc_code t b = Some c -> unesc_code t c = Some b.
Proof.
  intros H Hb E. pose proof (wf_byte_of t b H Hb) as W. unfold wf_byte in W. rewrite E in W.
  destruct (unesc_code t c) as [s|]; [|discriminate]. apply N.eqb_eq in W. congruence.
Qed.

Lemma wf_raw t b : wf t = true -> byte_ok b = true -> esc_code t b = None -> (b =? leader) = false.
Proof.
  intros H Hb E. pose proof (wf_byte_of t b H Hb) as W. unfold wf_byte in W. rewrite E in W.
  destruct (b =? leader); [discriminate|reflexivity].
Qed.

Lemma escape_app t a b : escape t (a ++ b) = escape t a ++ escape t b.
Proof.
  induction a as [|x a IH]; [reflexivity|]. simpl. destruct (esc_code t x); simpl; rewrite IH; reflexivity.
Qed.

Lemma escape_length t d : (length d <= length (escape t d))%nat.
Proof. induction d as [|x d IH]; simpl; [lia|]. destruct (esc_code t x); simpl; lia. Qed.

(* ---- the prefix lemma: unescaping any prefix of an escaped stream ---- *)
Lemma unesc_prefix t : wf t = true -> forall d p q room,
  bytes_ok d = true -> (1 <= room)%nat -> p ++ q = escape t d ->
  exists n rem, unesc t p room = UOk (firstn n d) rem /\ rem ++ q = escape t (skipn n d)
    /\ (n <= room)%nat /\ (n <= length d)%nat
    /\ (n = O -> p = [] \/ p = [leader]) /\ (n = O -> rem = p)
    /\ ((n < room)%nat -> rem = [] \/ rem = [leader] /\ q <> []).
Proof.
  intros W. induction d as [|b d IH]; intros p q room Hd Hr E.
  - simpl in E. apply app_eq_nil in E as [-> ->]. exists O, []. simpl. repeat split; auto; lia.
  - simpl in Hd. apply andb_prop in Hd as [Hb Hd]. simpl in E.
    destruct (esc_code t b) as [c|] eqn:Ec.
    + (* escaped pair *)
      destruct p as [|x p].
      { exists O, []. simpl. rewrite Ec. repeat split; auto; lia. }
      simpl in E. injection E as -> E.
      destruct p as [|y p].
      { exists O, [leader]. cbn [unesc firstn skipn app]. rewrite N.eqb_refl. simpl in E. subst q.
        cbn [escape]. rewrite Ec.
        repeat split; auto; try lia. intros _. right. split; [reflexivity|discriminate]. }
      simpl in E. injection E as -> E.
      pose proof (wf_code t b c W Hb Ec) as U.
      cbn [unesc]. rewrite N.eqb_refl, U.
      destruct room as [|[|room]]; [lia| |].
      * exists 1%nat, p. simpl. repeat split; auto; try lia.
      * destruct (IH p q (S room) Hd ltac:(lia) E) as (n & rem & H1 & H2 & H3 & H4 & H5 & H6 & H7).
        exists (S n), rem. rewrite H1. simpl. repeat split; auto; try lia. intros ?. apply H7. lia.
    + (* raw byte *)
      pose proof (wf_raw t b W Hb Ec) as Nl.
      destruct p as [|x p].
      { exists O, []. simpl. rewrite Ec. repeat split; auto; lia. }
      simpl in E. injection E as -> E.
      cbn [unesc]. rewrite Nl.
      destruct room as [|[|room]]; [lia| |].
      * exists 1%nat, p. simpl. repeat split; auto; try lia.
      * destruct (IH p q (S room) Hd ltac:(lia) E) as (n & rem & H1 & H2 & H3 & H4 & H5 & H6 & H7).
        exists (S n), rem. rewrite H1. simpl. repeat split; auto; try lia. intros ?. apply H7. lia.
Qed.

(* round trip, any destination size >= 1: the destination gets the first [room] bytes,
   the remaining input is exactly the escaped rest *)
Theorem unesc_escape t d room : wf t = true -> bytes_ok d = true -> (1 <= room)%nat ->
  unesc t (escape t d) room = UOk (firstn room d) (escape t (skipn room d)).
Proof.
  intros W Hd Hr.
  destruct (unesc_prefix t W d (escape t d) [] room Hd Hr (app_nil_r _))
    as (n & rem & H1 & H2 & H3 & H4 & H5 & H6 & H7).
  rewrite app_nil_r in H2. rewrite H1.
  destruct (Nat.lt_ge_cases n room) as [L|G].
  - destruct (H7 L) as [->|[_ F]]; [|congruence].
    symmetry in H2. assert (S : skipn n d = []).
    { destruct (skipn n d) eqn:Es; [reflexivity|]. simpl in H2. destruct (esc_code t b); discriminate. }
    assert (length d <= n)%nat.
    { rewrite <- (firstn_skipn n d) at 1. rewrite S, app_nil_r. apply firstn_le_length. }
    rewrite !firstn_all2, !skipn_all2 by lia. reflexivity.
  - assert (n = room) by lia. subst n. rewrite H2. reflexivity.
Qed.

Corollary roundtrip t d : wf t = true -> bytes_ok d = true ->
  unescape_data t (escape t d) 0 = UOk d [].
Proof.
  intros W Hd. unfold unescape_data. destruct t as [|p t']; [vm_compute in W; discriminate|].
  set (t := p :: t') in *.
  destruct d as [|b d]; [reflexivity|].
  rewrite unesc_escape; auto.
  - pose proof (escape_length t (b :: d)). rewrite firstn_all2, skipn_all2 by lia. reflexivity.
  - pose proof (escape_length t (b :: d)). simpl in *. lia.
Qed.

(* ---- the streaming reader ---- *)
Lemma unesc_lone t size : unesc t [leader] size = UOk [] [leader].
Proof. cbn [unesc]. rewrite N.eqb_refl. reflexivity. Qed.

Lemma all_nonempty_cons {A} (c : list A) cs : all_nonempty (c :: cs) = true -> c <> [] /\ all_nonempty cs = true.
Proof. unfold all_nonempty. simpl. intros H. apply andb_prop in H as [H1 H2]. split; [destruct c; [discriminate|discriminate]|exact H2]. Qed.

Lemma escape_not_lone_leader t d : wf t = true -> bytes_ok d = true -> escape t d <> [leader].
Proof.
  intros W Hd E. destruct d as [|b d]; [discriminate|]. simpl in *.
  apply andb_prop in Hd as [Hb Hd].
  destruct (esc_code t b) eqn:Ec; [discriminate|].
  injection E as E _. pose proof (wf_raw t b W Hb Ec) as Nl. rewrite E, N.eqb_refl in Nl. discriminate.
Qed.

Lemma er_read_spec t : wf t = true -> forall cs buffer d size,
  bytes_ok d = true -> all_nonempty cs = true -> (1 <= size)%nat ->
  buffer ++ concat cs = escape t d ->
  (exists n b' cs', (1 <= n)%nat /\ er_read t buffer cs size = (RData (firstn n d), (b', cs'))
      /\ (n <= length d)%nat /\ all_nonempty cs' = true /\ b' ++ concat cs' = escape t (skipn n d))
  \/ (d = [] /\ fst (er_read t buffer cs size) = REof /\ buffer = []).
Proof.
  intros W. induction cs as [|c cs IH]; intros buffer d size Hd Hne Hs E.
  - simpl in E. rewrite app_nil_r in E. subst buffer.
    destruct d as [|b d].
    + right. simpl. auto.
    + left.
      destruct (unesc_prefix t W (b :: d) (escape t (b :: d)) [] size Hd Hs (app_nil_r _))
        as (n & rem & H1 & H2 & H3 & H4 & H5 & H6 & H7).
      assert (n <> O).
      { intros ->. destruct (H5 eq_refl) as [F|F].
        - simpl in F. destruct (esc_code t b); discriminate.
        - apply (escape_not_lone_leader t (b :: d) W Hd F). }
      cbn [er_read]. 
      assert (Eb : escape t (b :: d) <> []) by (simpl; destruct (esc_code t b); discriminate).
      destruct (escape t (b :: d)) as [|x xs] eqn:Ee; [congruence|].
      rewrite H1. destruct (firstn n (b :: d)) as [|y ys] eqn:Ef.
      { destruct n; [congruence|]. discriminate. }
      exists n, rem, []. rewrite app_nil_r in H2. cbn [concat]. rewrite app_nil_r.
      split; [lia|]. split; [rewrite Ef; reflexivity|]. split; [exact H4|]. split; [reflexivity|exact H2].
  - apply all_nonempty_cons in Hne as [Hc Hne].
    simpl in E.
    destruct (unesc_prefix t W d buffer (c ++ concat cs) size Hd Hs E)
      as (n & rem & H1 & H2 & H3 & H4 & H5 & H6 & H7).
    destruct n as [|n].
    + (* nothing delivered from the buffer: it is empty or a lone leader *)
      specialize (H6 eq_refl). subst rem.
      assert (Step : er_read t buffer (c :: cs) size = er_read t (buffer ++ c) cs size).
      { destruct (H5 eq_refl) as [->| ->].
        - reflexivity.
        - cbn [er_read]. rewrite unesc_lone. reflexivity. }
      rewrite Step. rewrite app_assoc in E.
      destruct (IH (buffer ++ c) d size Hd Hne Hs E) as [L|(Hdn & _ & Hb)].
      * left. exact L.
      * apply app_eq_nil in Hb as [_ ?]. congruence.
    + left. cbn [er_read].
      destruct buffer as [|x xs].
      { simpl in H1. injection H1 as F _. destruct d; simpl in *; [lia|discriminate]. }
      rewrite H1. destruct d as [|b d]; [simpl in H4; lia|]. cbn [firstn].
      exists (S n), rem, (c :: cs). cbn [firstn]. repeat split; auto; try lia.
      unfold all_nonempty; simpl. destruct c; [congruence|]. exact Hne.
Qed.

Lemma er_run_spec t : wf t = true -> forall fuel d buffer cs sizes dflt,
  bytes_ok d = true -> all_nonempty cs = true ->
  Forall (fun s => 1 <= s)%nat sizes -> (1 <= dflt)%nat ->
  buffer ++ concat cs = escape t d -> (length d < fuel)%nat ->
  exists outs, er_run fuel t buffer cs sizes dflt = (outs, EndEof []) /\ concat outs = d
    /\ Forall (fun o => o <> []) outs.
Proof.
  intros W. induction fuel as [|fuel IH]; intros d buffer cs sizes dflt Hd Hne Hsz Hdf E Hf; [lia|].
  cbn [er_run].
  destruct (next_size sizes dflt) as [size sizes'] eqn:Ens.
  assert (Hs : (1 <= size)%nat /\ Forall (fun s => 1 <= s)%nat sizes').
  { destruct sizes as [|s r]; simpl in Ens; injection Ens as <- <-; [split; auto|].
    inversion Hsz; subst; split; auto. }
  destruct Hs as [Hs Hsz'].
  destruct (er_read_spec t W cs buffer d size Hd Hne Hs E)
    as [(n & b' & cs' & Hn & R & Hl & Hne' & E')|(-> & R & ->)].
  - rewrite R.
    assert (Hd' : bytes_ok (skipn n d) = true).
    { unfold bytes_ok in *. rewrite forallb_forall in *. intros x Hx. apply Hd.
      rewrite <- (firstn_skipn n d). apply in_or_app. right. exact Hx. }
    assert (Hlen : (length (skipn n d) < fuel)%nat) by (rewrite skipn_length; lia).
    destruct (IH (skipn n d) b' cs' sizes' dflt Hd' Hne' Hsz' Hdf E' Hlen) as (outs & R2 & C & F).
    rewrite R2. exists (firstn n d :: outs). split; [reflexivity|]. split.
    + simpl. rewrite C. apply firstn_skipn.
    + constructor; [|exact F]. destruct d; [simpl in Hl; lia|]. destruct n; [lia|]. discriminate.
  - destruct (er_read t [] cs size) as [[o| |c] [b' cs']] eqn:R'; simpl in R; try discriminate.
    exists []. split; [|split; [reflexivity|constructor]].
    (* leftover is empty: the whole input was the escape of [] *)
    simpl in E.
    assert (cs = []).
    { destruct cs as [|c cs]; [reflexivity|]. apply all_nonempty_cons in Hne as [Hc _].
      simpl in E. apply app_eq_nil in E as [? _]. congruence. }
    subst cs. simpl in R'. injection R' as <- _. reflexivity.
Qed.

Theorem stream t d cs sizes dflt : wf t = true -> bytes_ok d = true -> all_nonempty cs = true ->
  Forall (fun s => 1 <= s)%nat sizes -> (1 <= dflt)%nat -> concat cs = escape t d ->
  exists outs, er_run (er_fuel [] cs) t [] cs sizes dflt = (outs, EndEof []) /\ concat outs = d
    /\ Forall (fun o => o <> []) outs.
Proof.
  intros W Hd Hne Hsz Hdf E. apply er_run_spec; auto.
  unfold er_fuel. simpl. rewrite E. pose proof (escape_length t d). lia.
Qed.

(* escapeWriter: chunk-wise escaping = escaping the concatenation *)
Lemma ew_write_concat t chunks : concat (ew_write t chunks) = escape t (concat chunks).
Proof.
  unfold ew_write. induction chunks as [|c cs IH]; [reflexivity|]. simpl. rewrite IH, escape_app. reflexivity.
Qed.

(* ---- protected bytes never appear ---- *)
Lemma esc_code_is_code t b c : esc_code t b = Some c -> is_code t c = true.
Proof.
  unfold is_code. induction t as [|[s c'] t IH]; simpl; [discriminate|].
  destruct (esc_code t b) as [x|] eqn:E.
  - intros H. injection H as ->. rewrite (IH eq_refl). apply orb_true_r.
  - destruct (s =? b); [|discriminate]. intros H. injection H as ->. rewrite N.eqb_refl. reflexivity.
Qed.

Theorem no_protected t d b : clean t = true -> byte_ok b = true ->
  In b (escape t d) -> protected t b = false.
Proof.
  intros C Hb. unfold clean in C. rewrite forallb_forall in C.
  specialize (C b (in_all_bytes b Hb)).
  induction d as [|x d IH]; simpl; [tauto|].
  destruct (esc_code t x) as [c|] eqn:Ec; simpl.
  - intros [<-|[<-|H]]; [| |exact (IH H)].
    + unfold protected. destruct (esc_code t leader); [rewrite N.eqb_refl|]; reflexivity.
    + rewrite (esc_code_is_code t x c Ec), andb_true_r in C. destruct (protected t c); [discriminate|reflexivity].
  - intros [<-|H]; [|exact (IH H)]. unfold protected. rewrite Ec. reflexivity.
Qed.

(* ---- an undefined pair is rejected ---- *)
Theorem unknown_rejected t d c r room : wf t = true -> bytes_ok d = true ->
  unesc_code t c = None -> (length d < room)%nat ->
  unesc t (escape t d ++ leader :: c :: r) room = UErr c.
Proof.
  intros W. revert room. induction d as [|b d IH]; intros room Hd U Hr.
  - cbn [escape app unesc]. rewrite N.eqb_refl, U. reflexivity.
  - simpl in Hd. apply andb_prop in Hd as [Hb Hd]. simpl in Hr.
    destruct room as [|[|room]]; [lia|lia|].
    simpl escape. destruct (esc_code t b) as [c'|] eqn:Ec.
    + simpl app. cbn [unesc]. rewrite N.eqb_refl, (wf_code t b c' W Hb Ec).
      rewrite (IH (S room) Hd U ltac:(lia)). reflexivity.
    + simpl app. cbn [unesc]. rewrite (wf_raw t b W Hb Ec).
      rewrite (IH (S room) Hd U ltac:(lia)). reflexivity.
Qed.

(* ---- the two built-in tables, computed from the GENERATED constants ---- *)
Lemma builtin_parse_ok : table_of_json (builtin_json false) <> None /\ table_of_json (builtin_json true) <> None.
Proof. split; vm_compute; discriminate. Qed.
Lemma builtin_wf : wf (builtin_table false) = true /\ wf (builtin_table true) = true.
Proof. split; vm_compute; reflexivity. Qed.
Lemma builtin_clean : clean (builtin_table false) = true /\ clean (builtin_table true) = true.
Proof. split; vm_compute; reflexivity. Qed.

(* what the property text promises: '~' always; with -e also CR DLE XON XOFF CAN ESC GS
   and the 8-bit forms 0x8d 0x90 0x91 0x93 0x9d *)
Definition promised_plain : list byte := [126].
Definition promised_all : list byte := [126; 13; 16; 17; 19; 24; 27; 29; 141; 144; 145; 147; 157].
Lemma builtin_protects :
  forallb (protected (builtin_table false)) promised_plain = true /\
  forallb (protected (builtin_table true)) promised_all = true.
Proof. split; vm_compute; reflexivity. Qed.

(* ---- empty announced table: the reader is the identity on the stream, for every chunking
   and every sequence of caller buffer sizes ---- *)
Lemma er_run_passthru_concat : forall fuel cs sizes dflt,
  all_nonempty cs = true -> Forall (fun s => 1 <= s)%nat sizes -> (1 <= dflt)%nat ->
  (length (concat cs) + length cs < fuel)%nat ->
  concat (er_run_passthru fuel cs sizes dflt) = concat cs.
Proof.
  induction fuel as [|fuel IH]; intros cs sizes dflt Hne Hsz Hdf Hf; [lia|].
  cbn [er_run_passthru].
  destruct (next_size sizes dflt) as [size sizes'] eqn:Ens.
  assert (Hs : (1 <= size)%nat /\ Forall (fun s => 1 <= s)%nat sizes').
  { destruct sizes as [|s r]; simpl in Ens; injection Ens as <- <-; [split; auto|].
    inversion Hsz; subst; split; auto. }
  destruct Hs as [Hs Hsz'].
  destruct cs as [|c cs']; [reflexivity|].
  apply all_nonempty_cons in Hne as [Hc Hne].
  cbn [concat length] in Hf. rewrite app_length in Hf.
  destruct (Nat.leb_spec (length c) size) as [L|G].
  - cbn [concat]. rewrite IH; auto. lia.
  - cbn [concat]. rewrite IH; auto.
    + cbn [concat]. rewrite app_assoc, firstn_skipn. reflexivity.
    + unfold all_nonempty. cbn [forallb]. fold (all_nonempty cs'). rewrite Hne, andb_true_r.
      destruct (skipn size c) eqn:E; [|reflexivity].
      assert (length (skipn size c) = 0)%nat by (rewrite E; reflexivity). rewrite skipn_length in H. lia.
    + cbn [concat length]. rewrite app_length, skipn_length. lia.
Qed.
