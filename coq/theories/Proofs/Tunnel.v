(* Proofs about Model/Tunnel.v (C17). *)
From Trzsz Require Import Base.Bytes Gen.Consts Gen.Skel_tunnel Model.TunnelSkel Model.Tunnel.
From Coq Require Import ZArith Lia.

(* ------------------------------------------------------------------------------------ *)
(* the generated constants and skeletons *)

Lemma hello_fmt_src_ok :
  fmt_verbs Consts.tunnel_client_hello_fmt = [115; 100] /\ fmt_verbs Consts.tunnel_server_hello_fmt = [115; 100].
Proof. split; reflexivity. Qed.

Lemma hello_fmts_differ : Consts.tunnel_client_hello_fmt <> Consts.tunnel_server_hello_fmt.
Proof. discriminate. Qed.

Lemma skel_matches :
  accept_on_tunnel_skel = expected_accept_on_tunnel /\
  connect_to_tunnel_skel = expected_connect_to_tunnel /\
  add_received_data_skel = expected_add_received_data /\
  cleanup_skel = expected_cleanup /\
  wrap_transfer_input_skel = expected_wrap_transfer_input /\
  send_action_tunnel_skel = expected_send_action_tunnel /\
  recv_action_tunnel_skel = expected_recv_action_tunnel /\
  callers_acceptOnTunnel = expected_callers_acceptOnTunnel /\
  callers_connectToTunnel = expected_callers_connectToTunnel /\
  callers_wrapTransferInput = expected_callers_wrapTransferInput.
Proof. repeat split; reflexivity. Qed.

(* ------------------------------------------------------------------------------------ *)
(* lists *)

Lemma list_eqb_eq : forall a b, list_eqb a b = true <-> a = b.
Proof.
  induction a as [|x a IH]; intros [|y b]; cbn [list_eqb]; split; intros H;
    try reflexivity; try discriminate.
  - apply andb_true_iff in H. destruct H as [H1 H2]. apply N.eqb_eq in H1. apply IH in H2.
    subst. reflexivity.
  - injection H as -> ->. rewrite N.eqb_refl. cbn [andb]. apply IH. reflexivity.
Qed.

Lemma hello_matches_true : forall got e, hello_matches got e = true -> got = e.
Proof. intros got e H. apply list_eqb_eq. exact H. Qed.

Lemma hello_matches_false : forall got e, Some got <> Some e -> hello_matches got e = false.
Proof.
  intros got e H. destruct (hello_matches got e) eqn:E; [|reflexivity].
  apply hello_matches_true in E. subst. exfalso. apply H. reflexivity.
Qed.

Lemma nth_upd : forall A (f : A -> A) (l : list A) c c',
  nth_error (upd c f l) c' = if Nat.eqb c c' then option_map f (nth_error l c') else nth_error l c'.
Proof.
  intros A f. induction l as [|x l IH]; intros c c'.
  - destruct c, c'; cbn [upd nth_error Nat.eqb option_map]; try reflexivity.
    destruct (Nat.eqb c c'); reflexivity.
  - destruct c as [|c], c' as [|c']; cbn [upd nth_error Nat.eqb option_map]; try reflexivity.
    apply IH.
Qed.

Lemma nth_upd_same : forall A (f : A -> A) (l : list A) c,
  nth_error (upd c f l) c = option_map f (nth_error l c).
Proof. intros A f l c. rewrite nth_upd, Nat.eqb_refl. reflexivity. Qed.

Lemma length_upd : forall A (f : A -> A) (l : list A) c, length (upd c f l) = length l.
Proof.
  intros A f. induction l as [|x l IH]; intros c; destruct c as [|c]; cbn [upd length]; try reflexivity.
  rewrite IH. reflexivity.
Qed.

Lemma nth_error_app_last : forall A (l : list A) k c k',
  nth_error (l ++ [k]) c = Some k' -> nth_error l c = Some k' \/ (c = length l /\ k' = k).
Proof.
  intros A. induction l as [|x l IH]; intros k c k' H.
  - destruct c as [|c]; cbn [app nth_error] in H.
    + injection H as <-. right. split; reflexivity.
    + destruct c; discriminate H.
  - destruct c as [|c]; cbn [app nth_error] in H |- *.
    + left. exact H.
    + apply IH in H. destruct H as [H|[H1 H2]]; [left; exact H|right]. cbn [length]. split; [lia|exact H2].
Qed.

Lemma nth_error_lt : forall A (l : list A) c k, nth_error l c = Some k -> (c < length l)%nat.
Proof. intros A l c k H. apply nth_error_Some. rewrite H. discriminate. Qed.

(* ------------------------------------------------------------------------------------ *)
(* server: the invariant *)

Section ServerProofs.
Variables ch sh : list N.

(* what a connection's ghost fields look like at each program point of its handler *)
Definition local (k : conn) : Prop :=
  match k_pc k with
  | HRefused | HPending | HAccepted | HRead =>
    k_first k = None /\ k_tx k = [] /\ k_won k = false /\ k_pump k = false
  | HCompare r => k_first k = r /\ k_tx k = [] /\ k_won k = false /\ k_pump k = false
  | HReply => k_first k = Some ch /\ k_tx k = [] /\ k_won k = false /\ k_pump k = false
  | HCas => k_first k = Some ch /\ k_tx k = sh /\ k_won k = false /\ k_pump k = false
  | HPumpStart => k_first k = Some ch /\ k_tx k = sh /\ k_won k = true /\ k_pump k = false
  | HCloseListener => k_first k = Some ch /\ k_tx k = sh /\ k_won k = true /\ k_pump k = true
  | HDone =>
    (k_first k = Some ch /\
     (k_tx k = sh \/ (k_tx k = [] /\ k_closed k = true /\ k_won k = false)) /\
     (k_pump k = true -> k_won k = true)) \/
    (k_first k <> Some ch /\ k_tx k = [] /\ k_closed k = true /\ k_won k = false /\ k_pump k = false)
  end.

Definition good (t : option nat) (c : nat) (k : conn) : Prop :=
  local k /\ (k_won k = true <-> t = Some c).

Definition conns_ok (t : option nat) (l : list conn) : Prop :=
  forall c k, nth_error l c = Some k -> good t c k.

(* k' differs from k only in fields the invariant does not constrain *)
Definition same_ghost (k k' : conn) : Prop :=
  k_pc k' = k_pc k /\ k_first k' = k_first k /\ k_tx k' = k_tx k /\ k_won k' = k_won k /\
  k_pump k' = k_pump k /\ (k_closed k = true -> k_closed k' = true).

Lemma local_same : forall k k', same_ghost k k' -> local k -> local k'.
Proof.
  intros k k' (Hpc & Hf & Ht & Hw & Hp & Hc). unfold local.
  rewrite Hpc, Hf, Ht, Hw, Hp. destruct (k_pc k); try (intros H; exact H).
  intros [(H1 & H2 & H3)|(H1 & H2 & H3 & H4)].
  - left. split; [exact H1|]. split; [|exact H3].
    destruct H2 as [H2|(H2 & H2' & H2'')]; [left; exact H2|right]. auto.
  - right. auto.
Qed.

Lemma good_same : forall t c k k', same_ghost k k' -> good t c k -> good t c k'.
Proof.
  intros t c k k' Hs [Hl Hw]. split; [exact (local_same k k' Hs Hl)|].
  destruct Hs as (_ & _ & _ & Hw' & _). rewrite Hw'. exact Hw.
Qed.

Lemma same_peer : forall k k', peer_step k = Some k' -> same_ghost k k'.
Proof.
  intros k k' H. unfold peer_step in H. destruct (k_script k) as [|[bs|] r]; [discriminate H| |];
    injection H as <-; unfold same_ghost; cbn [k_pc k_first k_tx k_won k_pump k_closed]; auto 10.
Qed.

Lemma same_set_rx : forall rx k, same_ghost k (set_rx rx k).
Proof. intros rx k. unfold same_ghost, set_rx. cbn [k_pc k_first k_tx k_won k_pump k_closed]. auto 10. Qed.

Lemma same_set_closed : forall k, same_ghost k (set_closed k).
Proof. intros k. unfold same_ghost, set_closed. cbn [k_pc k_first k_tx k_won k_pump k_closed]. auto 10. Qed.

(* closing a connection and ending its handler, from any program point *)
Lemma local_close_done : forall k, local k -> local (set_closed (set_pc HDone k)).
Proof.
  intros k. unfold local, set_closed, set_pc. cbn [k_pc k_first k_tx k_won k_pump k_closed].
  destruct (k_pc k) as [ | | | |r| | | | | ]; intros H.
  1-4: destruct H as (H1 & H2 & H3 & H4); right; rewrite H1; repeat split; auto; discriminate.
  - destruct H as (H1 & H2 & H3 & H4).
    destruct r as [got|].
    + destruct (list_eqb got ch) eqn:E.
      * apply list_eqb_eq in E. subst got. left. split; [exact H1|]. split; [right; auto|].
        rewrite H4. discriminate.
      * right. repeat split; auto. rewrite H1. intros Heq. injection Heq as Heq.
        apply list_eqb_eq in Heq. rewrite Heq in E. discriminate E.
    + right. rewrite H1. repeat split; auto. discriminate.
  - destruct H as (H1 & H2 & H3 & H4). left. split; [exact H1|]. split; [right; auto|].
    rewrite H4. discriminate.
  - destruct H as (H1 & H2 & H3 & H4). left. split; [exact H1|]. split; [left; exact H2|].
    rewrite H4. discriminate.
  - destruct H as (H1 & H2 & H3 & H4). left. split; [exact H1|]. split; [left; exact H2|].
    intros _. exact H3.
  - destruct H as (H1 & H2 & H3 & H4). left. split; [exact H1|]. split; [left; exact H2|].
    intros _. exact H3.
  - destruct H as [(H1 & H2 & H3)|(H1 & H2 & H3 & H4)].
    + left. split; [exact H1|]. split; [|exact H3].
      destruct H2 as [H2|(H2 & _ & H2'')]; [left; exact H2|right; auto].
    + right. destruct H4 as [H4 H5]. auto.
Qed.

Lemma good_close_done : forall t c k, good t c k -> good t c (set_closed (set_pc HDone k)).
Proof. intros t c k [Hl Hw]. split; [apply local_close_done; exact Hl|exact Hw]. Qed.

Lemma conns_ok_upd : forall t l c f,
  conns_ok t l -> (forall k, nth_error l c = Some k -> good t c k -> good t c (f k)) ->
  conns_ok t (upd c f l).
Proof.
  intros t l c f Hok Hf c' k' Hn. rewrite nth_upd in Hn.
  destruct (Nat.eqb c c') eqn:E.
  - apply Nat.eqb_eq in E. subst c'. destruct (nth_error l c) as [k|] eqn:Ek; [|discriminate Hn].
    cbn [option_map] in Hn. injection Hn as <-. apply Hf; [reflexivity|]. apply Hok. exact Ek.
  - apply Hok. exact Hn.
Qed.

Definition SInv (s : sstate) : Prop :=
  conns_ok (s_tconn s) (s_conns s) /\
  (forall c, s_tconn s = Some c -> (c < length (s_conns s))%nat) /\
  (forall c, s_writer s = Some c -> s_tconn s = Some c) /\
  (forall c bs, In (SrcConn c, bs) (s_inbuf s) -> s_tconn s = Some c) /\
  (s_tconnected s = false -> s_writer s = None /\ s_dropped s = []) /\
  (s_act s = ActOk -> s_tconnected s = true -> s_tconn s <> None) /\
  (s_act s = ActWaiting -> s_tconnected s = false) /\
  (forall c, s_apc s = ACheck c -> exists k, nth_error (s_conns s) c = Some k /\ k_pc k = HAccepted).

Lemma SInv_init : SInv s_init.
Proof.
  unfold SInv, s_init. cbn [s_conns s_tconn s_writer s_inbuf s_tconnected s_dropped s_act s_apc].
  split; [intros c k H; destruct c; discriminate H|].
  split; [intros c H; discriminate H|].
  split; [intros c H; discriminate H|].
  split; [intros c bs H; destruct H|].
  split; [intros _; split; reflexivity|].
  split; [intros H; discriminate H|].
  split; [intros _; reflexivity|].
  intros c H; discriminate H.
Qed.

Ltac sproj := cbn [s_conns s_lis s_apc s_tconn s_tconnected s_writer s_act s_inbuf s_dropped] in *.
Ltac kproj := cbn [k_script k_rx k_eof k_pc k_first k_tx k_closed k_won k_pump] in *.
Ltac split_all := repeat match goal with |- _ /\ _ => split end.

Lemma pump_won : forall k, local k -> k_pump k = true -> k_won k = true.
Proof.
  intros k Hl Hp. unfold local in Hl. destruct (k_pc k);
    try (destruct Hl as (_ & _ & Hw & Hp'); first [exact Hw | rewrite Hp' in Hp; discriminate Hp]).
  destruct Hl as [(_ & _ & H)|(_ & _ & _ & _ & Hp')]; [exact (H Hp)|rewrite Hp' in Hp; discriminate Hp].
Qed.

Lemma acc_upd : forall (l : list conn) c c0 f,
  (forall k, nth_error l c0 = Some k -> k_pc k = HAccepted -> k_pc (f k) = HAccepted) ->
  (exists k, nth_error l c = Some k /\ k_pc k = HAccepted) ->
  exists k, nth_error (upd c0 f l) c = Some k /\ k_pc k = HAccepted.
Proof.
  intros l c c0 f Hf (k & Hn & Hpc). rewrite nth_upd. destruct (Nat.eqb c0 c) eqn:E.
  - apply Nat.eqb_eq in E. subst c0. rewrite Hn. cbn [option_map]. exists (f k).
    split; [reflexivity|]. apply Hf; assumption.
  - exists k. split; assumption.
Qed.

(* the step modifies connection c (found by Ek, at program point Epc) and nothing else *)
Ltac acc_tac Ek :=
  let cA := fresh "cA" in let HA := fresh "HA" in let kA := fresh "kA" in
  let HkA := fresh "HkA" in let HaccA := fresh "HaccA" in
  intros cA HA;
  first [ discriminate HA
        | apply acc_upd;
          [ intros kA HkA HaccA; rewrite Ek in HkA; injection HkA as <-;
            first [ congruence | unfold set_closed, set_pc, set_rx; kproj; assumption ]
          | auto ] ].

Ltac finish Ek :=
  split_all; try assumption;
  try (let c0 := fresh "c0" in let H := fresh "H" in intros c0 H; rewrite length_upd; auto; fail);
  try (acc_tac Ek; fail).

Lemma sstep_inv : forall s l s', SInv s -> sstep ch sh s l = Some s' -> SInv s'.
Proof.
  intros s l s' Hinv Hstep. destruct s as [conns lis apc tconn tcd writer act inbuf dropped].
  unfold SInv in *. sproj. destruct Hinv as (Hok & Hlen & Hw & Hin & Hd & Ha & Hwt & Hacc).
  destruct l as [script|c|c| | |c|c|c n|bs|tun| ]; unfold sstep, with_conns in Hstep; sproj.
  - (* LConnect *)
    injection Hstep as <-. sproj. split_all; try assumption.
    + intros c k Hn. apply nth_error_app_last in Hn. destruct Hn as [Hn|[-> ->]]; [apply Hok; exact Hn|].
      split.
      * unfold local, new_conn. kproj. destruct lis; auto.
      * unfold new_conn. kproj. split; [intros H; discriminate H|].
        intros H. apply Hlen in H. lia.
    + intros c H. rewrite app_length. apply Hlen in H. lia.
    + intros c H. destruct (Hacc c H) as (k & Hk & Hpc). exists k. split; [|exact Hpc].
      rewrite nth_error_app1; [exact Hk|]. eapply nth_error_lt. exact Hk.
  - (* LPeer *)
    destruct (nth_error conns c) as [k|] eqn:Ek; [|discriminate Hstep].
    destruct (peer_step k) as [k'|] eqn:Ep; [|discriminate Hstep].
    injection Hstep as <-. sproj. pose proof (same_peer k k' Ep) as Hs.
    split_all; try assumption.
    + apply conns_ok_upd; [exact Hok|]. intros k0 Hk0 Hg. rewrite Ek in Hk0. injection Hk0 as <-.
      exact (good_same _ _ _ _ Hs Hg).
    + intros c0 H. rewrite length_upd. auto.
    + intros cA HA. apply acc_upd; [|auto]. intros kA HkA HaccA. rewrite Ek in HkA. injection HkA as <-.
      destruct Hs as (Hs & _). congruence.
  - (* LAccept *)
    destruct apc; try discriminate Hstep. destruct lis; try discriminate Hstep.
    destruct (nth_error conns c) as [k|] eqn:Ek; [|discriminate Hstep].
    destruct (k_pc k) eqn:Epc; try discriminate Hstep.
    injection Hstep as <-. sproj. split_all; try assumption.
    + apply conns_ok_upd; [exact Hok|]. intros k0 Hk0 [Hl Hwon]. rewrite Ek in Hk0. injection Hk0 as <-.
      split; [|exact Hwon]. unfold local, set_pc in *. kproj. rewrite Epc in Hl. exact Hl.
    + intros c0 H. rewrite length_upd. auto.
    + intros cA HA. injection HA as <-. rewrite nth_upd_same, Ek. cbn [option_map].
      eexists. split; reflexivity.
  - (* LAcceptErr *)
    destruct apc; try discriminate Hstep. destruct lis; try discriminate Hstep.
    injection Hstep as <-. sproj. split_all; try assumption. intros cA HA. discriminate HA.
  - (* LCheck *)
    destruct apc as [|c|]; try discriminate Hstep.
    destruct (Hacc c eq_refl) as (k & Ek & Epc).
    destruct tconn as [t|]; injection Hstep as <-; sproj; split_all; try assumption.
    + apply conns_ok_upd; [exact Hok|]. intros k0 _ Hg. apply good_close_done. exact Hg.
    + intros c0 H. rewrite length_upd. auto.
    + intros cA HA. discriminate HA.
    + apply conns_ok_upd; [exact Hok|]. intros k0 Hk0 [Hl Hwon]. rewrite Ek in Hk0. injection Hk0 as <-.
      split; [|exact Hwon]. unfold local, set_pc in *. kproj. rewrite Epc in Hl. exact Hl.
    + intros c0 H. discriminate H.
    + intros cA HA. discriminate HA.
  - (* LHandler *)
    destruct (nth_error conns c) as [k|] eqn:Ek; [|discriminate Hstep].
    pose proof (Hok c k Ek) as [Hl Hwon].
    assert (Hclose : conns_ok tconn (upd c (fun k0 => set_closed (set_pc HDone k0)) conns)).
    { apply conns_ok_upd; [exact Hok|]. intros k0 _ Hg. apply good_close_done. exact Hg. }
    unfold local in Hl.
    destruct (k_pc k) as [ | | | |r| | | | | ] eqn:Epc; try discriminate Hstep;
      destruct Hl as (Hl1 & Hl2 & Hl3 & Hl4).
    + (* HRead *)
      destruct (k_rx k) as [|b rx] eqn:Erx.
      * destruct (k_eof k); [|discriminate Hstep]. injection Hstep as <-. sproj. finish Ek.
        apply conns_ok_upd; [exact Hok|]. intros k0 Hk0 _. rewrite Ek in Hk0. injection Hk0 as <-.
        split; [|exact Hwon]. unfold local, set_pc. kproj. auto.
      * injection Hstep as <-. sproj. finish Ek.
        apply conns_ok_upd; [exact Hok|]. intros k0 Hk0 _.
        split; [|kproj; exact Hwon]. unfold local. kproj. auto.
    + (* HCompare *)
      destruct r as [got|]; [destruct (hello_matches got ch) eqn:Em|];
        injection Hstep as <-; sproj; finish Ek.
      apply hello_matches_true in Em. subst got.
      apply conns_ok_upd; [exact Hok|]. intros k0 Hk0 _. rewrite Ek in Hk0. injection Hk0 as <-.
      split; [|exact Hwon]. unfold local, set_pc. kproj. auto.
    + (* HReply *)
      injection Hstep as <-. sproj. finish Ek.
      apply conns_ok_upd; [exact Hok|]. intros k0 Hk0 _.
      split; [|kproj; exact Hwon]. unfold local. kproj. rewrite Hl2. cbn [app]. auto.
    + (* HCas *)
      destruct tconn as [t|]; injection Hstep as <-; sproj.
      * finish Ek.
        apply conns_ok_upd; [exact Hok|]. intros k0 Hk0 _. rewrite Ek in Hk0. injection Hk0 as <-.
        split; [|exact Hwon]. unfold local, set_pc. kproj. left.
        split; [exact Hl1|]. split; [left; exact Hl2|]. rewrite Hl4. intros H; discriminate H.
      * split_all.
        -- intros c' k' Hn. rewrite nth_upd in Hn. destruct (Nat.eqb c c') eqn:E.
           ++ apply Nat.eqb_eq in E. subst c'. rewrite Ek in Hn. cbn [option_map] in Hn. injection Hn as <-.
              split; [unfold local; kproj; auto|]. kproj. split; reflexivity.
           ++ apply Nat.eqb_neq in E. destruct (Hok c' k' Hn) as [Hl' Hw']. split; [exact Hl'|].
              split; intros Hx; [apply Hw' in Hx; discriminate Hx|].
              injection Hx as Hx. exfalso. apply E. exact Hx.
        -- intros c0 H. injection H as <-. rewrite length_upd. eapply nth_error_lt. exact Ek.
        -- intros c0 H. apply Hw in H. discriminate H.
        -- intros c0 bs H. apply Hin in H. discriminate H.
        -- exact Hd.
        -- intros _ _ H. discriminate H.
        -- exact Hwt.
        -- acc_tac Ek.
    + (* HPumpStart *)
      injection Hstep as <-. sproj. finish Ek.
      apply conns_ok_upd; [exact Hok|]. intros k0 Hk0 _.
      split; [|kproj; exact Hwon]. unfold local. kproj. auto.
    + (* HCloseListener *)
      injection Hstep as <-. sproj. finish Ek.
      apply conns_ok_upd; [exact Hok|]. intros k0 Hk0 _. rewrite Ek in Hk0. injection Hk0 as <-.
      split; [|exact Hwon]. unfold local, set_pc. kproj. left. auto.
  - (* LWriteFail *)
    destruct (nth_error conns c) as [k|] eqn:Ek; [|discriminate Hstep].
    destruct (k_pc k) eqn:Epc; try discriminate Hstep.
    destruct (k_eof k); try discriminate Hstep.
    injection Hstep as <-. sproj. finish Ek.
    apply conns_ok_upd; [exact Hok|]. intros k0 _ Hg. apply good_close_done. exact Hg.
  - (* LPump *)
    destruct (nth_error conns c) as [k|] eqn:Ek; [|discriminate Hstep].
    match type of Hstep with (if ?b then _ else _) = _ => destruct b eqn:Econd end; [|discriminate Hstep].
    cbn [add_received] in Hstep. injection Hstep as <-. sproj. finish Ek.
    + apply conns_ok_upd; [exact Hok|]. intros k0 _ Hg. exact (good_same _ _ _ _ (same_set_rx _ k0) Hg).
    + intros c0 bs H. apply in_app_or in H. destruct H as [H|H]; [exact (Hin c0 bs H)|].
      destruct H as [H|[]]. injection H as <- _.
      repeat (apply andb_true_iff in Econd; destruct Econd as [Econd _]).
      destruct (Hok c k Ek) as [Hl Hwon]. apply Hwon. apply pump_won; assumption.
  - (* LInband *)
    unfold add_received in Hstep. destruct tcd; injection Hstep as <-; sproj; split_all; try assumption.
    + intros H. discriminate H.
    + intros c0 bs0 H. apply in_app_or in H. destruct H as [H|H]; [exact (Hin c0 bs0 H)|].
      destruct H as [H|[]]. discriminate H.
  - (* LAct *)
    destruct act; try discriminate Hstep.
    destruct tun; [destruct tconn as [t|]|]; injection Hstep as <-; sproj; split_all; try assumption.
    + intros c0 H. exact H.
    + intros H. discriminate H.
    + intros _ _ H. discriminate H.
    + intros H. discriminate H.
    + intros H. discriminate H.
    + intros H. discriminate H.
    + intros H. discriminate H.
    + intros _ H. rewrite (Hwt eq_refl) in H. discriminate H.
    + intros H. discriminate H.
  - (* LCleanup *)
    destruct tconn as [t|]; injection Hstep as <-; sproj; split_all; try assumption.
    + apply conns_ok_upd; [exact Hok|]. intros k0 _ Hg. exact (good_same _ _ _ _ (same_set_closed k0) Hg).
    + intros c0 H. rewrite length_upd. auto.
    + intros cA HA. apply acc_upd; [|auto]. intros kA _ HaccA. exact HaccA.
Qed.

Lemma srun_inv : forall ls s s', SInv s -> srun ch sh s ls = Some s' -> SInv s'.
Proof.
  induction ls as [|l ls IH]; intros s s' Hinv Hrun; cbn [srun] in Hrun.
  - injection Hrun as <-. exact Hinv.
  - destruct (sstep ch sh s l) as [s1|] eqn:E; [|discriminate Hrun].
    apply (IH s1 s'); [|exact Hrun]. exact (sstep_inv s l s1 Hinv E).
Qed.

Lemma sreach_inv : forall s, sreach ch sh s -> SInv s.
Proof. intros s [ls H]. exact (srun_inv ls s_init s SInv_init H). Qed.

(* ------------------------------------------------------------------------------------ *)
(* server: the theorems *)

Lemma won_first : forall k, local k -> k_won k = true -> k_first k = Some ch.
Proof.
  intros k Hl Hw. unfold local in Hl. destruct (k_pc k);
    try (destruct Hl as (Hf & _ & Hw' & _); first [exact Hf | rewrite Hw' in Hw; discriminate Hw]).
  destruct Hl as [(Hf & _)|(_ & _ & _ & Hw' & _)]; [exact Hf|rewrite Hw' in Hw; discriminate Hw].
Qed.

Lemma local_unauth : forall k, local k -> k_first k <> Some ch ->
  k_tx k = [] /\ k_won k = false /\ k_pump k = false /\ (k_pc k = HDone -> k_closed k = true).
Proof.
  intros k Hl Hn. unfold local in Hl. destruct (k_pc k);
    try (destruct Hl as (Hf & Ht & Hw & Hp); first [exfalso; apply Hn; exact Hf |
         split; [exact Ht|]; split; [exact Hw|]; split; [exact Hp|]; intros H; discriminate H]).
  destruct Hl as [(Hf & _)|(_ & Ht & Hc & Hw & Hp)]; [exfalso; apply Hn; exact Hf|]. auto.
Qed.

Lemma local_tx : forall k, local k -> k_tx k = [] \/ (k_tx k = sh /\ k_first k = Some ch).
Proof.
  intros k Hl. unfold local in Hl. destruct (k_pc k);
    try (destruct Hl as (Hf & Ht & _); first [left; exact Ht | right; split; [exact Ht|exact Hf]]).
  destruct Hl as [(Hf & [Ht|(Ht & _)] & _)|(_ & Ht & _)]; auto.
Qed.

Lemma adopted_authenticated : forall s c k, sreach ch sh s ->
  nth_error (s_conns s) c = Some k ->
  s_tconn s = Some c \/ s_writer s = Some c \/ k_won k = true \/ k_pump k = true ->
  k_first k = Some ch /\ s_tconn s = Some c.
Proof.
  intros s c k Hr Hn Hor. apply sreach_inv in Hr.
  destruct Hr as (Hok & _ & Hw & _). destruct (Hok c k Hn) as [Hl Hwon].
  assert (Hwk : k_won k = true).
  { destruct Hor as [H|[H|[H|H]]].
    - apply Hwon. exact H.
    - apply Hwon. apply Hw. exact H.
    - exact H.
    - apply pump_won; assumption. }
  split; [apply won_first; assumption|]. apply Hwon. exact Hwk.
Qed.

Lemma adopted_exists : forall s c, sreach ch sh s ->
  s_tconn s = Some c \/ s_writer s = Some c -> exists k, nth_error (s_conns s) c = Some k.
Proof.
  intros s c Hr Hor. apply sreach_inv in Hr. destruct Hr as (_ & Hlen & Hw & _).
  assert (Ht : s_tconn s = Some c) by (destruct Hor as [H|H]; [exact H|apply Hw; exact H]).
  apply Hlen in Ht. destruct (nth_error (s_conns s) c) as [k|] eqn:E; [exists k; reflexivity|].
  apply nth_error_None in E. lia.
Qed.

Lemma at_most_one : forall s c1 c2 k1 k2, sreach ch sh s ->
  nth_error (s_conns s) c1 = Some k1 -> nth_error (s_conns s) c2 = Some k2 ->
  k_won k1 = true -> k_won k2 = true -> c1 = c2.
Proof.
  intros s c1 c2 k1 k2 Hr H1 H2 W1 W2. apply sreach_inv in Hr. destruct Hr as (Hok & _).
  destruct (Hok c1 k1 H1) as [_ Hw1]. destruct (Hok c2 k2 H2) as [_ Hw2].
  apply Hw1 in W1. apply Hw2 in W2. rewrite W1 in W2. injection W2 as W2. exact W2.
Qed.

Lemma sstep_tconn_stable : forall s l s' c,
  sstep ch sh s l = Some s' -> s_tconn s = Some c -> s_tconn s' = Some c.
Proof.
  intros s l s' c Hstep Ht. destruct s as [conns lis apc tconn tcd writer act inbuf dropped].
  sproj. subst tconn. destruct l as [script|c0|c0| | |c0|c0|c0 n|bs|tun| ]; unfold sstep, with_conns in Hstep; sproj.
  - injection Hstep as <-. reflexivity.
  - destruct (nth_error conns c0) as [k|]; [|discriminate Hstep].
    destruct (peer_step k); [|discriminate Hstep]. injection Hstep as <-. reflexivity.
  - destruct apc; try discriminate Hstep. destruct lis; try discriminate Hstep.
    destruct (nth_error conns c0) as [k|]; [|discriminate Hstep].
    destruct (k_pc k); try discriminate Hstep. injection Hstep as <-. reflexivity.
  - destruct apc; try discriminate Hstep. destruct lis; try discriminate Hstep.
    injection Hstep as <-. reflexivity.
  - destruct apc; try discriminate Hstep. injection Hstep as <-. reflexivity.
  - destruct (nth_error conns c0) as [k|]; [|discriminate Hstep].
    destruct (k_pc k) as [ | | | |r| | | | | ]; try discriminate Hstep.
    + destruct (k_rx k); [destruct (k_eof k); [|discriminate Hstep]|]; injection Hstep as <-; reflexivity.
    + destruct r as [got|]; [destruct (hello_matches got ch)|]; injection Hstep as <-; reflexivity.
    + injection Hstep as <-. reflexivity.
    + injection Hstep as <-. reflexivity.
    + injection Hstep as <-. reflexivity.
    + injection Hstep as <-. reflexivity.
  - destruct (nth_error conns c0) as [k|]; [|discriminate Hstep].
    destruct (k_pc k); try discriminate Hstep. destruct (k_eof k); try discriminate Hstep.
    injection Hstep as <-. reflexivity.
  - destruct (nth_error conns c0) as [k|]; [|discriminate Hstep].
    match type of Hstep with (if ?b then _ else _) = _ => destruct b end; [|discriminate Hstep].
    cbn [add_received] in Hstep. injection Hstep as <-. reflexivity.
  - unfold add_received in Hstep. destruct tcd; injection Hstep as <-; reflexivity.
  - destruct act; try discriminate Hstep. destruct tun; injection Hstep as <-; reflexivity.
  - injection Hstep as <-. reflexivity.
Qed.

Lemma adoption_stable : forall s c ls s', sreach ch sh s -> s_tconn s = Some c ->
  srun ch sh s ls = Some s' -> s_tconn s' = Some c.
Proof.
  intros s c ls s' _. revert s. induction ls as [|l ls IH]; intros s Ht Hrun; cbn [srun] in Hrun.
  - injection Hrun as <-. exact Ht.
  - destruct (sstep ch sh s l) as [s1|] eqn:E; [|discriminate Hrun].
    apply (IH s1); [|exact Hrun]. exact (sstep_tconn_stable s l s1 c E Ht).
Qed.

Lemma unauth_closed_unanswered : forall s c k, sreach ch sh s ->
  nth_error (s_conns s) c = Some k -> k_first k <> Some ch ->
  k_tx k = [] /\ k_won k = false /\ k_pump k = false /\ s_tconn s <> Some c /\
  (k_pc k = HDone -> k_closed k = true).
Proof.
  intros s c k Hr Hn Hf. apply sreach_inv in Hr. destruct Hr as (Hok & _).
  destruct (Hok c k Hn) as [Hl Hwon]. destruct (local_unauth k Hl Hf) as (H1 & H2 & H3 & H4).
  split; [exact H1|]. split; [exact H2|]. split; [exact H3|]. split; [|exact H4].
  intros Ht. apply Hwon in Ht. rewrite H2 in Ht. discriminate Ht.
Qed.

Lemma unauth_closed_next : forall s c k r, sreach ch sh s ->
  nth_error (s_conns s) c = Some k -> k_pc k = HCompare r -> r <> Some ch ->
  exists s' k', sstep ch sh s (LHandler c) = Some s' /\ nth_error (s_conns s') c = Some k' /\
    k_pc k' = HDone /\ k_closed k' = true /\ k_tx k' = [].
Proof.
  intros s c k r Hr Hn Hpc Hne. apply sreach_inv in Hr. destruct Hr as (Hok & _).
  destruct (Hok c k Hn) as [Hl _]. unfold local in Hl. rewrite Hpc in Hl. destruct Hl as (_ & Ht & _).
  exists (with_conns s (upd c (fun k0 => set_closed (set_pc HDone k0)) (s_conns s))).
  exists (set_closed (set_pc HDone k)).
  split.
  - unfold sstep. rewrite Hn, Hpc. destruct r as [got|]; [|reflexivity].
    rewrite (hello_matches_false got ch Hne). reflexivity.
  - unfold with_conns. sproj. rewrite nth_upd_same, Hn. cbn [option_map].
    unfold set_closed, set_pc. kproj. auto.
Qed.

Lemma reply_only_hello : forall s c k, sreach ch sh s ->
  nth_error (s_conns s) c = Some k -> k_tx k = [] \/ (k_tx k = sh /\ k_first k = Some ch).
Proof.
  intros s c k Hr Hn. apply sreach_inv in Hr. destruct Hr as (Hok & _).
  destruct (Hok c k Hn) as [Hl _]. apply local_tx. exact Hl.
Qed.

Lemma only_adopted_feeds : forall s c bs, sreach ch sh s ->
  In (SrcConn c, bs) (s_inbuf s) -> s_tconn s = Some c.
Proof.
  intros s c bs Hr Hin. apply sreach_inv in Hr. destruct Hr as (_ & _ & _ & H & _). exact (H c bs Hin).
Qed.

Lemma filter_inband_conn : forall l c bs, filter is_inband (l ++ [(SrcConn c, bs)]) = filter is_inband l.
Proof.
  intros l c bs. rewrite filter_app. cbn [filter is_inband fst]. apply app_nil_r.
Qed.

Lemma sstep_inband : forall s l s', s_tconnected s = true -> sstep ch sh s l = Some s' ->
  s_tconnected s' = true /\ filter is_inband (s_inbuf s') = filter is_inband (s_inbuf s).
Proof.
  intros s l s' Ht Hstep. destruct s as [conns lis apc tconn tcd writer act inbuf dropped].
  sproj. subst tcd. destruct l as [script|c0|c0| | |c0|c0|c0 n|bs|tun| ]; unfold sstep, with_conns in Hstep; sproj.
  - injection Hstep as <-. split; reflexivity.
  - destruct (nth_error conns c0) as [k|]; [|discriminate Hstep].
    destruct (peer_step k); [|discriminate Hstep]. injection Hstep as <-. split; reflexivity.
  - destruct apc; try discriminate Hstep. destruct lis; try discriminate Hstep.
    destruct (nth_error conns c0) as [k|]; [|discriminate Hstep].
    destruct (k_pc k); try discriminate Hstep. injection Hstep as <-. split; reflexivity.
  - destruct apc; try discriminate Hstep. destruct lis; try discriminate Hstep.
    injection Hstep as <-. split; reflexivity.
  - destruct apc; try discriminate Hstep. destruct tconn; injection Hstep as <-; split; reflexivity.
  - destruct (nth_error conns c0) as [k|]; [|discriminate Hstep].
    destruct (k_pc k) as [ | | | |r| | | | | ]; try discriminate Hstep.
    + destruct (k_rx k); [destruct (k_eof k); [|discriminate Hstep]|]; injection Hstep as <-; split; reflexivity.
    + destruct r as [got|]; [destruct (hello_matches got ch)|]; injection Hstep as <-; split; reflexivity.
    + injection Hstep as <-. split; reflexivity.
    + destruct tconn; injection Hstep as <-; split; reflexivity.
    + injection Hstep as <-. split; reflexivity.
    + injection Hstep as <-. split; reflexivity.
  - destruct (nth_error conns c0) as [k|]; [|discriminate Hstep].
    destruct (k_pc k); try discriminate Hstep. destruct (k_eof k); try discriminate Hstep.
    injection Hstep as <-. split; reflexivity.
  - destruct (nth_error conns c0) as [k|]; [|discriminate Hstep].
    match type of Hstep with (if ?b then _ else _) = _ => destruct b end; [|discriminate Hstep].
    cbn [add_received] in Hstep. injection Hstep as <-. sproj. split; [reflexivity|].
    apply filter_inband_conn.
  - cbn [add_received] in Hstep. injection Hstep as <-. split; reflexivity.
  - destruct act; try discriminate Hstep.
    destruct tun; [destruct tconn|]; injection Hstep as <-; split; reflexivity.
  - destruct tconn; injection Hstep as <-; split; reflexivity.
Qed.

Lemma inband_ignored : forall s ls s', sreach ch sh s -> s_tconnected s = true ->
  srun ch sh s ls = Some s' ->
  s_tconnected s' = true /\ filter is_inband (s_inbuf s') = filter is_inband (s_inbuf s).
Proof.
  intros s ls s' _. revert s. induction ls as [|l ls IH]; intros s Ht Hrun; cbn [srun] in Hrun.
  - injection Hrun as <-. split; [exact Ht|reflexivity].
  - destruct (sstep ch sh s l) as [s1|] eqn:E; [|discriminate Hrun].
    destruct (sstep_inband s l s1 Ht E) as [Ht1 Hf1].
    destruct (IH s1 Ht1 Hrun) as [Ht' Hf']. split; [exact Ht'|]. rewrite Hf'. exact Hf1.
Qed.

Lemma fallback_server : forall s, sreach ch sh s ->
  (s_tconn s = None ->
     s_writer s = None /\ (forall c bs, ~ In (SrcConn c, bs) (s_inbuf s)) /\
     (s_act s = ActOk -> s_tconnected s = false)) /\
  (s_tconnected s = false -> s_writer s = None /\ s_dropped s = []).
Proof.
  intros s Hr. apply sreach_inv in Hr. destruct Hr as (_ & _ & Hw & Hin & Hd & Ha & _).
  split; [|exact Hd]. intros Ht. split; [|split].
  - destruct (s_writer s) as [c|] eqn:E; [|reflexivity]. rewrite (Hw c eq_refl) in Ht. discriminate Ht.
  - intros c bs H. apply Hin in H. rewrite H in Ht. discriminate Ht.
  - intros Hact. destruct (s_tconnected s) eqn:E; [|reflexivity].
    exfalso. exact (Ha Hact eq_refl Ht).
Qed.

End ServerProofs.

(* ------------------------------------------------------------------------------------ *)
(* client: the invariant *)

Section ClientProofs.
Variables ch sh : list N.

Definition auth (k : conn) : Prop := k_first k = Some sh /\ k_tx k = ch.
Definition authd (o : option conn) : Prop := exists k, o = Some k /\ auth k.

(* the connector goroutine's program point against its connection *)
Definition kinv_at (kp : kpc) (o : option conn) : Prop :=
  match kp with
  | KCall => o = None
  | KChk | KWrite => exists k, o = Some k /\ k_first k = None /\ k_tx k = []
  | KRead => exists k, o = Some k /\ k_first k = None /\ k_tx k = ch
  | KCmp r => exists k, o = Some k /\ k_first k = r /\ k_tx k = ch
  | KSend => authd o
  | KDone => True
  end.

Lemma authd_same : forall k k', same_ghost k k' -> authd (Some k) -> authd (Some k').
Proof.
  intros k k' (_ & Hf & Ht & _) (k0 & E & Hf0 & Ht0). injection E as <-.
  exists k'. split; [reflexivity|]. unfold auth. rewrite Hf, Ht. split; assumption.
Qed.

Lemma kinv_same : forall kp k k', same_ghost k k' -> kinv_at kp (Some k) -> kinv_at kp (Some k').
Proof.
  intros kp k k' Hs H. pose proof Hs as (_ & Hf & Ht & _).
  destruct kp; cbn [kinv_at] in *; try exact I; try discriminate H;
    try (destruct H as (k0 & E & Hf0 & Ht0); injection E as <-; exists k'; rewrite Hf, Ht; auto).
  exact (authd_same k k' Hs H).
Qed.

Definition CInv (s : cstate) : Prop :=
  kinv_at (c_kpc s) (c_conn s) /\
  (c_chan s = Some true \/ c_spc s = SStore \/ c_spc s = SPump \/ c_tconn s = true ->
     c_kpc s = KDone /\ authd (c_conn s)) /\
  (c_spc s = SStore \/ c_spc s = SPump \/ c_tconn s = true -> c_timedout s = false) /\
  (c_spc s = SSelect -> c_timedout s = false /\ c_tconn s = false) /\
  (c_spc s = SPump -> c_tconn s = true) /\
  (c_pump s = true -> c_tconn s = true) /\
  (c_tconnected s = true -> c_tconn s = true) /\
  (c_writer_tunnel s = c_tconnected s) /\
  (c_mpc s = MWait \/ c_wg_done s = true) /\
  (c_wg_done s = true <-> c_spc s = SDone) /\
  (c_tconnected s = false -> c_dropped s = []) /\
  match c_mpc s with
  | MSent tun => tun = c_tconn s /\ c_tconnected s = tun
  | _ => c_tconnected s = false
  end.

Ltac cproj := cbn [c_conn c_kpc c_chan c_spc c_timer c_timedout c_wg_done c_mpc c_tconn c_tconnected
                   c_writer_tunnel c_pump c_inbuf c_dropped] in *.
Ltac kproj := cbn [k_script k_rx k_eof k_pc k_first k_tx k_closed k_won k_pump] in *.
Ltac split_all := repeat match goal with |- _ /\ _ => split end.

Lemma CInv_init : CInv c_init.
Proof.
  unfold CInv, c_init. cproj. cbn [kinv_at]. split_all; try reflexivity.
  - intros [H|[H|[H|H]]]; discriminate H.
  - intros _. split; reflexivity.
  - intros H; discriminate H.
  - intros H; discriminate H.
  - intros H; discriminate H.
  - left. reflexivity.
  - split; intros H; discriminate H.
Qed.

(* the connector goroutine moves (it is not at KDone): nothing has been handed over yet *)
Ltac not_handed H1 :=
  let Hor := fresh "Hor" in let Hk := fresh "Hk" in
  intros Hor; exfalso;
  assert (Hk : _ = KDone) by
    (apply H1; first [exact Hor | destruct Hor as [Hor|Hor]; [discriminate Hor|right; exact Hor]]);
  discriminate Hk.

Lemma cstep_inv : forall s l s', CInv s -> cstep ch sh s l = Some s' -> CInv s'.
Proof.
  intros s l s' Hinv Hstep.
  destruct s as [conn kp chan sp timer tmo wg mp tconn tcd wt pump inbuf dropped].
  unfold CInv in *. cproj.
  destruct Hinv as (HK & H1 & H2 & H3 & H4 & H5 & H6 & H7 & H8 & H9 & H10 & H11).
  destruct l as [o|tm wfail| | | | | | |n|bs| ]; unfold cstep, cgive_up, cset in Hstep; cproj.
  - (* CConnector *)
    destruct kp; try discriminate Hstep.
    destruct o as [script|]; injection Hstep as <-; cproj; split_all; try assumption.
    + cbn [kinv_at]. eexists. split; [reflexivity|]. unfold new_conn. kproj. split; reflexivity.
    + not_handed H1.
    + exact I.
    + not_handed H1.
  - (* CK *)
    destruct conn as [k|]; [|discriminate Hstep].
    destruct kp as [ | | | |r| | ]; try discriminate Hstep; cbn [kinv_at] in HK.
    + (* KChk *)
      destruct tm; injection Hstep as <-; cproj; split_all; try assumption; try exact I; not_handed H1.
    + (* KWrite *)
      destruct HK as (k0 & E & Hf & Ht). injection E as <-.
      destruct wfail; [|destruct tm]; injection Hstep as <-; cproj; split_all; try assumption;
        try exact I; try (not_handed H1).
      cbn [kinv_at]. eexists. split; [reflexivity|]. kproj. rewrite Ht. cbn [app]. split; [exact Hf|reflexivity].
    + (* KRead *)
      destruct HK as (k0 & E & Hf & Ht). injection E as <-.
      destruct (k_rx k) as [|b rx] eqn:Erx; [destruct (k_eof k); [|discriminate Hstep]|];
        injection Hstep as <-; cproj; split_all; try assumption; try (not_handed H1).
      * cbn [kinv_at]. exists k. auto.
      * cbn [kinv_at]. eexists. split; [reflexivity|]. kproj. split; [reflexivity|exact Ht].
    + (* KCmp *)
      destruct HK as (k0 & E & Hf & Ht). injection E as <-.
      destruct r as [got|]; [destruct (hello_matches got sh && negb tm) eqn:Em|];
        injection Hstep as <-; cproj; split_all; try assumption; try exact I; try (not_handed H1).
      apply andb_true_iff in Em. destruct Em as [Em _]. apply hello_matches_true in Em. subst got.
      cbn [kinv_at]. exists k. split; [reflexivity|]. split; assumption.
    + (* KSend *)
      injection Hstep as <-; cproj; split_all; try assumption; try exact I.
      intros _. split; [reflexivity|exact HK].
  - (* CPeer *)
    destruct conn as [k|]; [|discriminate Hstep].
    destruct (peer_step k) as [k'|] eqn:Ep; [|discriminate Hstep].
    injection Hstep as <-. cproj. pose proof (same_peer k k' Ep) as Hs. split_all; try assumption.
    + exact (kinv_same kp k k' Hs HK).
    + intros Hor. destruct (H1 Hor) as [Hk Ha]. split; [exact Hk|exact (authd_same k k' Hs Ha)].
  - (* CTimer *)
    injection Hstep as <-. cproj. split_all; assumption.
  - (* CSelChan *)
    destruct sp; try discriminate Hstep. destruct chan as [v|]; [|discriminate Hstep].
    destruct (H3 eq_refl) as [H3a H3b].
    destruct v; injection Hstep as <-; cproj; split_all; try assumption.
    + intros _. apply H1. left. reflexivity.
    + intros _. exact H3a.
    + intros H; discriminate H.
    + intros H; discriminate H.
    + split; intros H; [apply H9 in H; discriminate H|discriminate H].
    + intros [H|[H|[H|H]]]; try discriminate H. rewrite H3b in H. discriminate H.
    + intros [H|[H|H]]; try discriminate H. rewrite H3b in H. discriminate H.
    + intros H; discriminate H.
    + intros H; discriminate H.
    + right. reflexivity.
    + split; intros _; reflexivity.
  - (* CSelTimer *)
    destruct sp; try discriminate Hstep. destruct timer; [|discriminate Hstep].
    destruct (H3 eq_refl) as [H3a H3b].
    injection Hstep as <-; cproj; split_all; try assumption.
    + intros [H|[H|[H|H]]]; try discriminate H; [|rewrite H3b in H; discriminate H].
      apply H1. left. exact H.
    + intros [H|[H|H]]; try discriminate H. rewrite H3b in H. discriminate H.
    + intros H; discriminate H.
    + intros H; discriminate H.
    + right. reflexivity.
    + split; intros _; reflexivity.
  - (* CS *)
    destruct sp; try discriminate Hstep; injection Hstep as <-; cproj; split_all; try assumption.
    + (* SStore *) intros _. apply H1. right. left. reflexivity.
    + intros _. apply H2. left. reflexivity.
    + intros H; discriminate H.
    + intros _. reflexivity.
    + intros _. reflexivity.
    + intros _. reflexivity.
    + split; intros H; [apply H9 in H; discriminate H|discriminate H].
    + destruct mp as [ | |tun]; try assumption.
      exfalso. destruct H8 as [H|H]; [discriminate H|]. apply H9 in H. discriminate H.
    + (* SPump *) intros _. apply H1. right. right. left. reflexivity.
    + intros _. apply H2. right. left. reflexivity.
    + intros H; discriminate H.
    + intros H; discriminate H.
    + intros _. apply H4. reflexivity.
    + right. reflexivity.
    + split; intros _; reflexivity.
  - (* CMain *)
    destruct mp as [ | |tun]; try discriminate Hstep.
    + destruct wg; [|discriminate Hstep]. injection Hstep as <-; cproj; split_all; try assumption.
      right. reflexivity.
    + injection Hstep as <-; cproj; split_all; try assumption; try reflexivity.
      * intros H. exact H.
      * destruct H8 as [H|H]; [discriminate H|right; exact H].
      * intros _. apply H10. exact H11.
  - (* CPumpRead *)
    destruct conn as [k|]; [|discriminate Hstep].
    match type of Hstep with (if ?b then _ else _) = _ => destruct b end; [|discriminate Hstep].
    cbn [add_received] in Hstep. injection Hstep as <-. cproj. split_all; try assumption.
    + exact (kinv_same kp k _ (same_set_rx _ k) HK).
    + intros Hor. destruct (H1 Hor) as [Hk Ha]. split; [exact Hk|exact (authd_same k _ (same_set_rx _ k) Ha)].
  - (* CInband *)
    unfold add_received in Hstep. destruct tcd; injection Hstep as <-; cproj; split_all; try assumption.
    intros H; discriminate H.
  - (* CCleanup *)
    destruct tconn; [destruct conn as [k|]|]; injection Hstep as <-; cproj; split_all; try assumption.
    + exact (kinv_same kp k _ (same_set_closed k) HK).
    + intros Hor. destruct (H1 Hor) as [Hk Ha]. split; [exact Hk|exact (authd_same k _ (same_set_closed k) Ha)].
Qed.

Lemma crun_inv : forall ls s s', CInv s -> crun ch sh s ls = Some s' -> CInv s'.
Proof.
  induction ls as [|l ls IH]; intros s s' Hinv Hrun; cbn [crun] in Hrun.
  - injection Hrun as <-. exact Hinv.
  - destruct (cstep ch sh s l) as [s1|] eqn:E; [|discriminate Hrun].
    apply (IH s1 s'); [|exact Hrun]. exact (cstep_inv s l s1 Hinv E).
Qed.

Lemma creach_inv : forall s, creach ch sh s -> CInv s.
Proof. intros s [ls H]. exact (crun_inv ls c_init s CInv_init H). Qed.

(* ------------------------------------------------------------------------------------ *)
(* client: the theorems *)

Lemma client_adopted_authenticated : forall s, creach ch sh s ->
  c_tconn s = true \/ c_pump s = true \/ c_writer_tunnel s = true \/ c_tconnected s = true ->
  exists k, c_conn s = Some k /\ k_first k = Some sh /\ k_tx k = ch /\ c_timedout s = false /\ c_tconn s = true.
Proof.
  intros s Hr Hor. apply creach_inv in Hr.
  destruct Hr as (_ & H1 & H2 & _ & _ & H5 & H6 & H7 & _).
  assert (Ht : c_tconn s = true).
  { destruct Hor as [H|[H|[H|H]]]; [exact H|exact (H5 H)| |exact (H6 H)].
    apply H6. rewrite <- H7. exact H. }
  assert (Hor' : c_chan s = Some true \/ c_spc s = SStore \/ c_spc s = SPump \/ c_tconn s = true)
    by (right; right; right; exact Ht).
  destruct (H1 Hor') as (_ & k & Ek & Hf & Htx).
  exists k. split; [exact Ek|]. split; [exact Hf|]. split; [exact Htx|]. split; [|exact Ht].
  apply H2. right. right. exact Ht.
Qed.

Lemma fallback_client : forall s, creach ch sh s ->
  (forall tun, c_mpc s = MSent tun -> tun = c_tconn s /\ c_tconnected s = tun /\ c_writer_tunnel s = tun) /\
  (c_timedout s = true -> c_tconn s = false) /\
  (c_conn s = None -> c_tconn s = false) /\
  (forall k, c_conn s = Some k -> k_first k <> Some sh -> c_tconn s = false) /\
  (c_tconnected s = false -> c_writer_tunnel s = false /\ c_dropped s = []).
Proof.
  intros s Hr. apply creach_inv in Hr.
  destruct Hr as (_ & H1 & H2 & _ & _ & _ & _ & H7 & _ & _ & H10 & H11).
  assert (Hauth : c_tconn s = true -> authd (c_conn s)).
  { intros Ht. apply H1. right. right. right. exact Ht. }
  split; [|split; [|split; [|split]]].
  - intros tun Hm. rewrite Hm in H11. destruct H11 as [Ha Hb]. split; [exact Ha|]. split; [exact Hb|].
    rewrite H7. exact Hb.
  - intros Htmo. destruct (c_tconn s) eqn:Et; [|reflexivity].
    rewrite H2 in Htmo; [discriminate Htmo|]. right. right. reflexivity.
  - intros Hc. destruct (c_tconn s) eqn:Et; [|reflexivity].
    destruct (Hauth eq_refl) as (k & Ek & _). rewrite Hc in Ek. discriminate Ek.
  - intros k Hc Hf. destruct (c_tconn s) eqn:Et; [|reflexivity].
    destruct (Hauth eq_refl) as (k0 & Ek & Hf0 & _). rewrite Hc in Ek. injection Ek as <-.
    exfalso. exact (Hf Hf0).
  - intros Ht. split; [rewrite H7; exact Ht|exact (H10 Ht)].
Qed.

Lemma client_never_stuck : forall s, creach ch sh s -> c_mpc s = MWait ->
  exists ls s' tun, (length ls <= 5)%nat /\ forallb own_label ls = true /\
    crun ch sh s ls = Some s' /\ c_mpc s' = MSent tun.
Proof.
  intros s Hr Hm. apply creach_inv in Hr.
  destruct s as [conn kp chan sp timer tmo wg mp tconn tcd wt pump inbuf dropped].
  unfold CInv in Hr. cproj. subst mp.
  destruct Hr as (_ & _ & _ & _ & _ & _ & _ & _ & _ & H9 & _).
  destruct sp.
  - exists [CTimer; CSelTimer; CMain; CMain]. eexists. eexists.
    split; [cbn [length]; lia|]. split; [reflexivity|]. split; [cbn [crun cstep]; cproj; reflexivity|].
    cproj. reflexivity.
  - exists [CS; CS; CMain; CMain]. eexists. eexists.
    split; [cbn [length]; lia|]. split; [reflexivity|]. split; [cbn [crun cstep]; cproj; reflexivity|].
    cproj. reflexivity.
  - exists [CS; CMain; CMain]. eexists. eexists.
    split; [cbn [length]; lia|]. split; [reflexivity|]. split; [cbn [crun cstep]; cproj; reflexivity|].
    cproj. reflexivity.
  - assert (Hwg : wg = true) by (apply H9; reflexivity). subst wg.
    exists [CMain; CMain]. eexists. eexists.
    split; [cbn [length]; lia|]. split; [reflexivity|]. split; [cbn [crun cstep]; cproj; reflexivity|].
    cproj. reflexivity.
Qed.

Lemma cstep_inband : forall s l s', CInv s -> c_tconnected s = true -> cstep ch sh s l = Some s' ->
  c_tconnected s' = true /\ filter is_inband (c_inbuf s') = filter is_inband (c_inbuf s).
Proof.
  intros s l s' Hinv Ht Hstep.
  destruct s as [conn kp chan sp timer tmo wg mp tconn tcd wt pump inbuf dropped].
  destruct Hinv as (_ & _ & _ & _ & _ & _ & H6 & _).
  cproj. subst tcd.
  destruct l as [o|tm wfail| | | | | | |n|bs| ]; unfold cstep, cgive_up, cset in Hstep; cproj.
  - destruct kp; try discriminate Hstep. destruct o; injection Hstep as <-; split; reflexivity.
  - destruct conn as [k|]; [|discriminate Hstep].
    destruct kp as [ | | | |r| | ]; try discriminate Hstep.
    + destruct tm; injection Hstep as <-; split; reflexivity.
    + destruct wfail; [|destruct tm]; injection Hstep as <-; split; reflexivity.
    + destruct (k_rx k); [destruct (k_eof k); [|discriminate Hstep]|]; injection Hstep as <-; split; reflexivity.
    + destruct r as [got|]; [destruct (hello_matches got sh && negb tm)|]; injection Hstep as <-; split; reflexivity.
    + injection Hstep as <-; split; reflexivity.
  - destruct conn as [k|]; [|discriminate Hstep].
    destruct (peer_step k); [|discriminate Hstep]. injection Hstep as <-; split; reflexivity.
  - injection Hstep as <-; split; reflexivity.
  - destruct sp; try discriminate Hstep. destruct chan; [|discriminate Hstep].
    injection Hstep as <-; split; reflexivity.
  - destruct sp; try discriminate Hstep. destruct timer; [|discriminate Hstep].
    injection Hstep as <-; split; reflexivity.
  - destruct sp; try discriminate Hstep; injection Hstep as <-; split; reflexivity.
  - destruct mp; try discriminate Hstep.
    + destruct wg; [|discriminate Hstep]. injection Hstep as <-; split; reflexivity.
    + injection Hstep as <-. cproj. split; [|reflexivity].
      exact (H6 eq_refl).
  - destruct conn as [k|]; [|discriminate Hstep].
    match type of Hstep with (if ?b then _ else _) = _ => destruct b end; [|discriminate Hstep].
    cbn [add_received] in Hstep. injection Hstep as <-. cproj. split; [reflexivity|].
    apply filter_inband_conn.
  - cbn [add_received] in Hstep. injection Hstep as <-. split; reflexivity.
  - destruct tconn; [destruct conn|]; injection Hstep as <-; split; reflexivity.
Qed.

Lemma client_inband_ignored : forall s ls s', creach ch sh s -> c_tconnected s = true ->
  crun ch sh s ls = Some s' ->
  c_tconnected s' = true /\ filter is_inband (c_inbuf s') = filter is_inband (c_inbuf s).
Proof.
  intros s ls s' Hr. apply creach_inv in Hr. revert s Hr.
  induction ls as [|l ls IH]; intros s Hinv Ht Hrun; cbn [crun] in Hrun.
  - injection Hrun as <-. split; [exact Ht|reflexivity].
  - destruct (cstep ch sh s l) as [s1|] eqn:E; [|discriminate Hrun].
    destruct (cstep_inband s l s1 Hinv Ht E) as [Ht1 Hf1].
    destruct (IH s1 (cstep_inv s l s1 Hinv E) Ht1 Hrun) as [Ht' Hf']. split; [exact Ht'|].
    rewrite Hf'. exact Hf1.
Qed.


End ClientProofs.

(* ------------------------------------------------------------------------------------ *)
(* getHelloConstant is injective in (cut id, port) *)

Lemma dec_fuel_S : forall f n acc,
  dec_fuel (S f) n acc =
  if n / 10 =? 0 then (48 + n mod 10) :: acc else dec_fuel f (n / 10) ((48 + n mod 10) :: acc).
Proof. reflexivity. Qed.

Lemma dec_fuel_acc : forall f n acc, dec_fuel f n acc = dec_fuel f n [] ++ acc.
Proof.
  induction f as [|f IH]; intros n acc.
  - reflexivity.
  - rewrite !dec_fuel_S. destruct (n / 10 =? 0); [reflexivity|].
    rewrite (IH (n / 10) (_ :: acc)), (IH (n / 10) [_]), <- app_assoc. reflexivity.
Qed.

Definition dval (l : list N) : N := fold_left (fun a d => 10 * a + (d - 48)) l 0.

Lemma dval_snoc : forall l d, dval (l ++ [d]) = 10 * dval l + (d - 48).
Proof. intros l d. unfold dval. rewrite fold_left_app. reflexivity. Qed.

Lemma dval_dec_fuel : forall f n, (N.to_nat n < 2 ^ f)%nat -> dval (dec_fuel (S f) n []) = n.
Proof.
  induction f as [|f IH]; intros n Hn.
  - cbn [Nat.pow] in Hn. assert (Hz : n = 0) by lia. subst n. reflexivity.
  - rewrite dec_fuel_S.
    pose proof (N.div_mod' n 10) as Hdm.
    assert (Hlt : n mod 10 < 10) by (apply N.mod_lt; discriminate).
    remember (n / 10) as q eqn:Eq. remember (n mod 10) as r eqn:Er. clear Eq Er.
    destruct (q =? 0) eqn:E.
    + apply N.eqb_eq in E. unfold dval. cbn [fold_left]. lia.
    + apply N.eqb_neq in E. rewrite dec_fuel_acc, dval_snoc, IH; [lia|].
      cbn [Nat.pow] in Hn. lia.
Qed.

Lemma pos_size_bound : forall p, (Pos.to_nat p < 2 ^ Pos.size_nat p)%nat.
Proof.
  induction p as [p IH|p IH|]; cbn [Pos.size_nat Nat.pow].
  - rewrite Pos2Nat.inj_xI. lia.
  - rewrite Pos2Nat.inj_xO. lia.
  - cbn. lia.
Qed.

Lemma size_bound : forall n, (N.to_nat n < 2 ^ N.size_nat n)%nat.
Proof.
  intros [|p]; cbn [N.size_nat N.to_nat Nat.pow]; [lia|apply pos_size_bound].
Qed.

Lemma dval_dec_N : forall n, dval (dec_N n) = n.
Proof. intros n. unfold dec_N. apply dval_dec_fuel. apply size_bound. Qed.

Lemma dec_fuel_ge : forall f n acc,
  Forall (fun d => 48 <= d) acc -> Forall (fun d => 48 <= d) (dec_fuel f n acc).
Proof.
  induction f as [|f IH]; intros n acc Hacc; [exact Hacc|].
  rewrite dec_fuel_S.
  assert (H : Forall (fun d => 48 <= d) ((48 + n mod 10) :: acc)) by (constructor; [apply N.le_add_r|exact Hacc]).
  destruct (n / 10 =? 0); [exact H|apply IH; exact H].
Qed.

Lemma dec_N_ge : forall n, Forall (fun d => 48 <= d) (dec_N n).
Proof. intros n. unfold dec_N. apply dec_fuel_ge. constructor. Qed.

Lemma dec_N_inj : forall n m, dec_N n = dec_N m -> n = m.
Proof. intros n m H. rewrite <- (dval_dec_N n), <- (dval_dec_N m), H. reflexivity. Qed.

Lemma dec_N_not_minus : forall n l, dec_N n <> 45 :: l.
Proof.
  intros n l H. pose proof (dec_N_ge n) as Hge. rewrite H in Hge.
  apply Forall_inv in Hge. lia.
Qed.

Lemma dec_Z_inj : forall z1 z2, dec_Z z1 = dec_Z z2 -> z1 = z2.
Proof.
  intros [|p1|p1] [|p2|p2] H; unfold dec_Z in H; cbn [Z.to_N] in H;
    try reflexivity;
    try (exfalso; exact (dec_N_not_minus _ _ H));
    try (exfalso; symmetry in H; exact (dec_N_not_minus _ _ H));
    try (apply dec_N_inj in H; first [discriminate H | injection H as ->; reflexivity]).
  injection H as H. apply dec_N_inj in H. injection H as ->. reflexivity.
Qed.

Lemma digits_sep : forall u1 u2 d1 d2,
  forallb is_digit u1 = true -> forallb is_digit u2 = true ->
  u1 ++ 58 :: d1 = u2 ++ 58 :: d2 -> u1 = u2 /\ d1 = d2.
Proof.
  induction u1 as [|x u1 IH]; intros [|y u2] d1 d2 H1 H2 E; cbn [app forallb] in *.
  - injection E as ->. split; reflexivity.
  - injection E as <- _. apply andb_true_iff in H2. destruct H2 as [H2 _].
    unfold is_digit in H2. apply andb_true_iff in H2. destruct H2 as [_ H2]. apply N.leb_le in H2. lia.
  - injection E as -> _. apply andb_true_iff in H1. destruct H1 as [H1 _].
    unfold is_digit in H1. apply andb_true_iff in H1. destruct H1 as [_ H1]. apply N.leb_le in H1. lia.
  - injection E as -> E. apply andb_true_iff in H1. destruct H1 as [_ H1].
    apply andb_true_iff in H2. destruct H2 as [_ H2].
    destruct (IH u2 d1 d2 H1 H2 E) as [-> ->]. split; reflexivity.
Qed.

Lemma client_hello_eq : forall uid port,
  client_hello uid port =
  [58; 58; 84; 82; 90; 83; 90; 58; 58; 67; 76; 73; 69; 78; 84; 58; 58; 72; 69; 76; 76; 79; 58; 58]
    ++ cut_uid uid ++ 58 :: (dec_Z port ++ []).
Proof. reflexivity. Qed.

Lemma hello_injective : forall uid1 uid2 port1 port2,
  client_hello uid1 port1 = client_hello uid2 port2 ->
  forallb is_digit (cut_uid uid1) = true -> forallb is_digit (cut_uid uid2) = true ->
  cut_uid uid1 = cut_uid uid2 /\ port1 = port2.
Proof.
  intros uid1 uid2 port1 port2 E H1 H2. rewrite !client_hello_eq in E.
  apply app_inv_head in E. apply digits_sep in E; [|exact H1|exact H2].
  destruct E as [Eu Ed]. split; [exact Eu|]. rewrite !app_nil_r in Ed. apply dec_Z_inj. exact Ed.
Qed.
