(* Proofs about Model/Resume.v (property C08). *)
From Trzsz Require Import Base.Bytes Gen.Consts Model.Resume.
From Coq Require Import ZArith Lia List Bool Arith.
Import ListNotations.

(* the generated constants the model's control flow depends on *)
Lemma v2_truncates_src_ok : Consts.resume_v2_truncate = true. Proof. reflexivity. Qed.
Lemma v3_keeps_src_ok : Consts.resume_v3_truncate = false. Proof. reflexivity. Qed.
Lemma step_guard_src_ok : Consts.resume_step_guard = true. Proof. reflexivity. Qed.
Lemma step_positive_src_ok : (0 < Consts.prefix_hash_step)%N. Proof. reflexivity. Qed.

(* ---- lists ---- *)
Lemma list_eqb_eq : forall a b, list_eqb a b = true <-> a = b.
Proof.
  induction a as [|x a IH]; destruct b as [|y b]; cbn [list_eqb]; split; intro Hx; try congruence; try reflexivity.
  - apply andb_true_iff in Hx. destruct Hx as [Hxy Hab]. apply N.eqb_eq in Hxy. apply IH in Hab. congruence.
  - inversion Hx; subst. apply andb_true_iff. split; [apply N.eqb_refl | apply IH; reflexivity].
Qed.

Lemma firstn_app_skipn : forall (A : Type) (l : list A) a b,
  firstn a l ++ firstn b (skipn a l) = firstn (a + b) l.
Proof.
  intros A l. induction l as [|x l IH]; intros a b.
  - rewrite skipn_nil, !firstn_nil. reflexivity.
  - destruct a as [|a]; cbn [firstn skipn app plus]; [reflexivity|]. rewrite IH. reflexivity.
Qed.

Lemma last_cons_default : forall (A : Type) (l : list A) x d, last (x :: l) d = last l x.
Proof.
  intros A l. induction l as [|y l IH]; intros x d; [reflexivity|].
  change (last (x :: y :: l) d) with (last (y :: l) d). rewrite !IH. reflexivity.
Qed.

(* length of the longest common prefix *)
Fixpoint lcp (a b : list byte) : nat :=
  match a, b with
  | x :: a', y :: b' => if x =? y then S (lcp a' b') else O
  | _, _ => O
  end.

Lemma firstn_eq_le_lcp : forall m (a b : list byte), firstn m a = firstn m b -> (m <= length a)%nat -> (m <= length b)%nat ->
  (m <= lcp a b)%nat.
Proof.
  induction m as [|m IH]; intros a b He Ha Hb; [lia|].
  destruct a as [|x a]; [cbn in Ha; lia|]. destruct b as [|y b]; [cbn in Hb; lia|].
  cbn [firstn] in He. inversion He; subst. cbn [lcp length] in *. rewrite N.eqb_refl.
  apply le_n_S. apply IH; [assumption | lia | lia].
Qed.

Section Proofs.
  Variable B : N.
  Variable H : list byte -> digest.
  Hypothesis HB : (0 < B)%N.

  Local Notation Bn := (Resume.Bn B).

  Lemma Bn_pos : (0 < Bn)%nat.
  Proof. unfold Resume.Bn. lia. Qed.

  Variables src dst : list byte.

  Definition good (s : nat) : bool := list_eqb (H (firstn s src)) (H (firstn s dst)).

  Definition mk (s : nat) : hmsg := Hash (Z.of_nat s) (H (firstn s src)).

  (* ---- the hash sender: steps announced ---- *)
  Definition stopped (stops : option nat) : bool := match stops with Some O => true | _ => false end.

  Fixpoint steps_from (fuel : nat) (stops : option nat) (size step : nat) : list nat :=
    if (step <? size)%nat && negb (stopped stops) then
      match fuel with
      | O => []
      | S fuel' =>
        let step' := (step + Nat.min (size - step) Bn)%nat in
        step' :: steps_from fuel' (option_map pred stops) size step'
      end
    else [].

  Lemma send_spec : forall fuel stops size step fed,
    (step <= size)%nat -> (size <= length src)%nat -> fed = firstn step src -> (size - step <= fuel)%nat ->
    send_hashes B H fuel stops src size step fed = Some (map mk (steps_from fuel stops size step) ++ [Over]).
  Proof.
    induction fuel as [|fuel IH]; intros stops size step fed Hss Hsl Hfed Hfuel.
    - cbn [send_hashes steps_from]. fold (stopped stops).
      destruct (Nat.ltb_spec step size); [lia|]. reflexivity.
    - cbn [send_hashes steps_from]. fold (stopped stops).
      destruct (Nat.ltb_spec step size) as [Hlt|Hge]; cbn [andb]; [|reflexivity].
      destruct (stopped stops); cbn [negb]; [reflexivity|].
      set (want := if (N.of_nat (size - step) <? B)%N then (size - step)%nat else Bn).
      assert (Hwant : want = Nat.min (size - step) Bn).
      { unfold want, Resume.Bn. destruct (N.ltb_spec (N.of_nat (size - step)) B); lia. }
      assert (Hlen : length (firstn want (skipn step src)) = want).
      { rewrite firstn_length, skipn_length. lia. }
      rewrite Hlen.
      assert (Hfed' : fed ++ firstn want (skipn step src) = firstn (step + want) src).
      { subst fed. apply firstn_app_skipn. }
      rewrite Hfed'.
      pose proof Bn_pos as HBp.
      rewrite (IH (option_map pred stops) size (step + want)%nat (firstn (step + want) src)); try lia; try reflexivity.
      rewrite <- Hwant. reflexivity.
  Qed.

  Fixpoint incr (cur : nat) (l : list nat) : Prop :=
    match l with [] => True | s :: r => (cur < s)%nat /\ incr s r end.

  Lemma steps_incr : forall fuel stops size step, (step <= size)%nat ->
    incr step (steps_from fuel stops size step) /\ Forall (fun s => s <= size)%nat (steps_from fuel stops size step).
  Proof.
    induction fuel as [|fuel IH]; intros stops size step Hss; cbn [steps_from].
    - destruct ((step <? size)%nat && negb (stopped stops)); cbn [incr]; auto.
    - destruct (Nat.ltb_spec step size) as [Hlt|Hge]; cbn [andb]; [|cbn [incr]; auto].
      destruct (stopped stops); cbn [negb incr]; auto.
      pose proof Bn_pos as HBp.
      destruct (IH (option_map pred stops) size (step + Nat.min (size - step) Bn)%nat) as [Hi Hf]; [lia|].
      split; [split; [lia|exact Hi]|]. constructor; [lia|exact Hf].
  Qed.

  Lemma steps_stops : forall fuel k size step,
    steps_from fuel (Some k) size step = firstn k (steps_from fuel None size step).
  Proof.
    induction fuel as [|fuel IH]; intros k size step; cbn [steps_from stopped].
    - destruct (step <? size)%nat; destruct k; cbn [andb negb firstn]; reflexivity.
    - destruct (step <? size)%nat; cbn [andb]; [|rewrite firstn_nil; reflexivity].
      destruct k as [|k]; cbn [negb firstn option_map pred]; [reflexivity|].
      rewrite IH. reflexivity.
  Qed.

  Lemma steps_last : forall fuel size step, (step < size)%nat -> (size - step <= fuel)%nat ->
    steps_from fuel None size step <> [] /\ last (steps_from fuel None size step) step = size.
  Proof.
    induction fuel as [|fuel IH]; intros size step Hlt Hfuel; [lia|].
    cbn [steps_from stopped option_map].
    destruct (Nat.ltb_spec step size) as [_|Hge]; [|lia]. cbn [andb negb].
    split; [discriminate|]. rewrite last_cons_default.
    pose proof Bn_pos as HBp.
    set (step' := (step + Nat.min (size - step) Bn)%nat).
    destruct (Nat.lt_ge_cases step' size) as [Hlt'|Hge'].
    - apply IH; unfold step' in *; lia.
    - assert (He : step' = size) by (unfold step' in *; lia).
      destruct fuel as [|fuel']; cbn [steps_from].
      + destruct (_ && _); cbn [last]; exact He.
      + destruct (Nat.ltb_spec step' size); [lia|]. cbn [andb last]. exact He.
  Qed.

  (* ---- the receiver on an increasing list of announced steps ---- *)
  Fixpoint take_good (l : list nat) : list nat :=
    match l with [] => [] | s :: r => if good s then s :: take_good r else [] end.

  Fixpoint acks_of (l : list nat) : list ack :=
    match l with
    | [] => []
    | s :: r => if good s then mkAck (Z.of_nat s) true :: acks_of r else [mkAck (Z.of_nat s) false]
    end.

  Lemma recv_nomatch : forall l st, r_match st = false ->
    recv_hashes B H dst (map mk l ++ [Over]) st = ROver st.
  Proof.
    induction l as [|s l IH]; intros st Hm; cbn [map app recv_hashes mk]; [reflexivity|].
    rewrite Hm. cbn [negb]. apply IH. exact Hm.
  Qed.

  Lemma recv_step : forall s h rest cur acks0, (cur < s)%nat -> (s - cur <= Bn)%nat -> (s <= length dst)%nat ->
    recv_hashes B H dst (Hash (Z.of_nat s) h :: rest) (mkR true (Z.of_nat cur) (firstn cur dst) cur acks0) =
    recv_hashes B H dst rest
      (mkR (list_eqb h (H (firstn s dst)))
           (if list_eqb h (H (firstn s dst)) then Z.of_nat s else Z.of_nat cur)
           (firstn s dst) s (acks0 ++ [mkAck (Z.of_nat s) (list_eqb h (H (firstn s dst)))])).
  Proof.
    intros s h rest cur acks0 Hcs Hgap Hsl.
    cbn [recv_hashes r_match r_mstep r_fed r_off r_acks negb].
    destruct (Z.leb_spec (Z.of_nat s - Z.of_nat cur) 0); [lia|].
    destruct (Z.ltb_spec (Z.of_N B) (Z.of_nat s - Z.of_nat cur)); [unfold Resume.Bn in Hgap; lia|].
    rewrite andb_false_r.
    destruct (Z.ltb_spec (Z.of_nat s - Z.of_nat cur) 0); [lia|].
    destruct (Z.leb_spec (Z.of_nat cur + (Z.of_nat s - Z.of_nat cur)) (Z.of_nat (length dst))); [|lia].
    replace (Z.to_nat (Z.of_nat s - Z.of_nat cur)) with (s - cur)%nat by lia.
    rewrite firstn_app_skipn. replace (cur + (s - cur))%nat with s by lia. reflexivity.
  Qed.

  (* consecutive announced steps are at most one block apart (the receiver's guard) *)
  Fixpoint gaps (cur : nat) (l : list nat) : Prop :=
    match l with [] => True | s :: r => (s - cur <= Bn)%nat /\ gaps s r end.

  Lemma steps_gaps : forall fuel stops size step, gaps step (steps_from fuel stops size step).
  Proof.
    induction fuel as [|fuel IH]; intros stops size step; cbn [steps_from].
    - destruct (_ && _); exact I.
    - destruct (_ && _); [|exact I]. cbn [gaps]. split; [lia | apply IH].
  Qed.

  Lemma recv_honest : forall l cur acks0, incr cur l -> gaps cur l -> Forall (fun s => s <= length dst)%nat l ->
    exists st', recv_hashes B H dst (map mk l ++ [Over]) (mkR true (Z.of_nat cur) (firstn cur dst) cur acks0) = ROver st'
      /\ r_mstep st' = Z.of_nat (last (take_good l) cur) /\ r_acks st' = acks0 ++ acks_of l.
  Proof.
    induction l as [|s l IH]; intros cur acks0 Hin Hgp Hall.
    - cbn [map app recv_hashes take_good acks_of last]. eexists. split; [reflexivity|].
      cbn [r_mstep r_acks]. rewrite app_nil_r. auto.
    - cbn [incr] in Hin. destruct Hin as [Hcs Hin]. cbn [gaps] in Hgp. destruct Hgp as [Hg1 Hgp].
      inversion Hall as [|? ? Hs Hall']; subst.
      cbn [map app]. unfold mk at 1. rewrite recv_step by lia.
      cbn [take_good acks_of]. fold (good s). destruct (good s) eqn:Hg.
      + destruct (IH s (acks0 ++ [mkAck (Z.of_nat s) true]) Hin Hgp Hall') as [st' [Hr [Hm Ha]]].
        exists st'. split; [exact Hr|]. rewrite last_cons_default. split; [exact Hm|].
        rewrite Ha, <- app_assoc. reflexivity.
      + rewrite recv_nomatch by reflexivity. eexists. split; [reflexivity|]. cbn [r_mstep r_acks last]. auto.
  Qed.

  (* ---- the sender's ack reader ---- *)
  Fixpoint verdict (size : nat) (l : list nat) : bool :=
    match l with
    | [] => false
    | s :: r => if good s then (s =? size)%nat || verdict size r else true
    end.

  Lemma acks_spec : forall size l cur, incr cur l -> Forall (fun s => s <= size)%nat l ->
    recv_acks (Z.of_nat size) (acks_of l) (Z.of_nat cur) =
    if verdict size l then SDone (Z.of_nat (last (take_good l) cur)) else SBlocked.
  Proof.
    induction l as [|s l IH]; intros cur Hin Hall; [reflexivity|].
    cbn [incr] in Hin. destruct Hin as [Hcs Hin]. inversion Hall as [|? ? Hs Hall']; subst.
    cbn [acks_of verdict take_good]. destruct (good s).
    - cbn [recv_acks a_match a_step negb]. rewrite last_cons_default.
      destruct (Z.eqb_spec (Z.of_nat s) (Z.of_nat size)) as [He|Hne].
      + assert (s = size) by lia. subst s. rewrite Nat.eqb_refl. cbn [orb].
        destruct l as [|s2 l]; [reflexivity|]. cbn [incr] in Hin. inversion Hall'; subst. lia.
      + destruct (Nat.eqb_spec s size); [lia|]. cbn [orb].
        destruct (Z.ltb_spec (Z.of_nat size) (Z.of_nat s)); [lia|]. apply IH; assumption.
    - reflexivity.
  Qed.

  Lemma verdict_prefix : forall size l k cur, incr cur l -> Forall (fun s => s <= size)%nat l ->
    verdict size (firstn k l) = true -> take_good (firstn k l) = take_good l.
  Proof.
    induction l as [|s l IH]; intros k cur Hin Hall Hv.
    - rewrite firstn_nil. reflexivity.
    - destruct k as [|k]; [cbn in Hv; discriminate|].
      cbn [incr] in Hin. destruct Hin as [Hcs Hin]. inversion Hall as [|? ? Hs Hall']; subst.
      cbn [firstn verdict take_good] in *. destruct (good s); [|reflexivity].
      destruct (Nat.eqb_spec s size) as [He|Hne].
      + subst s. destruct l as [|s2 l]; [rewrite firstn_nil; reflexivity|].
        cbn [incr] in Hin. inversion Hall'; subst. lia.
      + cbn [orb] in Hv. f_equal. apply (IH k s); assumption.
  Qed.

  Lemma verdict_last : forall size l cur, l <> [] -> last l cur = size -> verdict size l = true.
  Proof.
    induction l as [|s l IH]; intros cur Hne Hl; [congruence|].
    cbn [verdict]. destruct (good s); [|reflexivity]. rewrite last_cons_default in Hl.
    destruct l as [|s2 l].
    - cbn [last] in Hl. subst. rewrite Nat.eqb_refl. reflexivity.
    - rewrite (IH s); [apply orb_true_r | discriminate | exact Hl].
  Qed.

  Lemma take_good_all : forall l s, In s (take_good l) -> good s = true.
  Proof.
    induction l as [|x l IH]; intros s Hin; cbn [take_good] in Hin; [contradiction|].
    destruct (good x) eqn:Hg; [|contradiction]. destruct Hin as [->|Hin]; auto.
  Qed.

  Lemma take_good_incl : forall l s, In s (take_good l) -> In s l.
  Proof.
    induction l as [|x l IH]; intros s Hin; cbn [take_good] in Hin; [contradiction|].
    destruct (good x); [|contradiction]. destruct Hin as [->|Hin]; [left; reflexivity | right; auto].
  Qed.

  Lemma last_in_or_default : forall (l : list nat) d, last l d = d \/ In (last l d) l.
  Proof.
    induction l as [|x l IH]; intros d; [left; reflexivity|].
    rewrite last_cons_default. destruct (IH x) as [He|Hin]; right; [rewrite He; left; reflexivity | right; exact Hin].
  Qed.

  (* the agreed offset is 0 or an announced step at which the cumulative digests agree *)
  Lemma agreed_good : forall l size, Forall (fun s => s <= size)%nat l ->
    let m := last (take_good l) O in (m = O \/ good m = true) /\ (m <= size)%nat.
  Proof.
    intros l size Hall m. destruct (last_in_or_default (take_good l) O) as [He|Hin].
    - fold m in He. split; [left; exact He | lia].
    - fold m in Hin. split; [right; eapply take_good_all; exact Hin|].
      apply take_good_incl in Hin. rewrite Forall_forall in Hall. apply Hall. exact Hin.
  Qed.

  (* ---- closed form of the agreed offset ---- *)
  Lemma block_end_step : forall size i, (i * Bn < size)%nat ->
    (Resume.block_end B size i + Nat.min (size - Resume.block_end B size i) Bn)%nat = Resume.block_end B size (S i).
  Proof. intros size i Hlt. unfold Resume.block_end. lia. Qed.

  Lemma agreed_closed : forall fuel size i,
    last (take_good (steps_from fuel None size (Resume.block_end B size i))) (Resume.block_end B size i) =
    Resume.block_end B size (i + good_blocks B H fuel src dst size i).
  Proof.
    induction fuel as [|fuel IH]; intros size i.
    - cbn [steps_from good_blocks]. destruct (_ && _); cbn [take_good last]; rewrite Nat.add_0_r; reflexivity.
    - cbn [steps_from good_blocks stopped option_map].
      destruct (Nat.ltb_spec (i * Bn) size) as [Hlt|Hge].
      + destruct (Nat.ltb_spec (Resume.block_end B size i) size) as [_|Hge]; [|unfold Resume.block_end in Hge; lia].
        cbn [andb negb]. rewrite block_end_step by exact Hlt.
        cbn [take_good]. unfold good at 1. destruct (list_eqb _ _).
        * rewrite last_cons_default, IH. f_equal. lia.
        * cbn [last]. rewrite Nat.add_0_r. reflexivity.
      + destruct (Nat.ltb_spec (Resume.block_end B size i) size) as [Hlt|_]; [unfold Resume.block_end in Hlt; lia|].
        cbn [andb take_good last]. rewrite Nat.add_0_r. reflexivity.
  Qed.

  Lemma good_blocks_length : forall fuel size i,
    length (take_good (steps_from fuel None size (Resume.block_end B size i))) = good_blocks B H fuel src dst size i.
  Proof.
    induction fuel as [|fuel IH]; intros size i.
    - cbn [steps_from good_blocks]. destruct (_ && _); reflexivity.
    - cbn [steps_from good_blocks stopped option_map].
      destruct (Nat.ltb_spec (i * Bn) size) as [Hlt|Hge].
      + destruct (Nat.ltb_spec (Resume.block_end B size i) size) as [_|Hge]; [|unfold Resume.block_end in Hge; lia].
        cbn [andb negb]. rewrite block_end_step by exact Hlt.
        cbn [take_good]. unfold good at 1. destruct (list_eqb _ _); [|reflexivity].
        cbn [length]. rewrite IH. reflexivity.
      + destruct (Nat.ltb_spec (Resume.block_end B size i) size) as [Hlt|_]; [unfold Resume.block_end in Hlt; lia|].
        reflexivity.
  Qed.

  Lemma verdict_firstn : forall size l k cur, incr cur l -> Forall (fun s => s <= size)%nat l ->
    l <> [] -> last l cur = size -> (length (take_good l) < k)%nat -> verdict size (firstn k l) = true.
  Proof.
    induction l as [|s l IH]; intros k cur Hin Hall Hne Hl Hk; [congruence|].
    destruct k as [|k]; [lia|]. cbn [firstn verdict take_good length] in *.
    destruct (good s); [|reflexivity]. cbn [length] in Hk.
    destruct (Nat.eqb_spec s size) as [He|Hn]; [reflexivity|]. cbn [orb].
    rewrite last_cons_default in Hl. destruct Hin as [_ Hin]. apply Forall_inv_tail in Hall.
    destruct l as [|s2 l]; [cbn [last] in Hl; congruence|].
    apply (IH k s); try assumption; [discriminate | lia].
  Qed.

  (* ---- the file operations ---- *)
  Lemma final_content : forall m off sent, (m <= length dst)%nat ->
    f_data (f_write (f_truncate (f_seek (mkFile dst off) m) m) sent) = firstn m dst ++ sent.
  Proof.
    intros m off sent Hm. unfold f_write, f_truncate, f_seek. cbn [f_data f_off].
    replace (m - length dst)%nat with O by lia. cbn [repeat]. rewrite app_nil_r.
    rewrite firstn_firstn, Nat.min_id, firstn_length.
    replace (m - Nat.min m (length dst))%nat with O by lia. cbn [repeat app].
    rewrite skipn_all2 by (rewrite firstn_length; lia). rewrite app_nil_r. reflexivity.
  Qed.

  Lemma write_fresh : forall d, f_data (f_write (mkFile [] 0) d) = d.
  Proof.
    intros d. unfold f_write. cbn [f_data f_off firstn length repeat app Nat.sub]. rewrite skipn_nil, app_nil_r. reflexivity.
  Qed.

  (* ---- run ---- *)
  Definition L_full : list nat :=
    let size := Nat.min (length src) (length dst) in steps_from size None size 0.

  (* what a completed exchange looks like *)
  Lemma run_exchange : forall proto stops, (proto <? Consts.resume_min_protocol)%N = false -> dst <> [] ->
    let size := Nat.min (length src) (length dst) in
    let l := steps_from size stops size 0 in
    let m := last (take_good l) O in
    run B H proto stops src dst =
      if (size =? 0)%nat || verdict size l
      then Done (mkOut (map mk l ++ [Over]) (acks_of l) (Z.of_nat m) (Z.of_nat m) (skipn m src) (firstn m dst ++ skipn m src))
      else SenderBlocked (map mk l ++ [Over]) (acks_of l).
  Proof.
    intros proto stops Hp Hd size l m. unfold run, opened. rewrite Hp, v3_keeps_src_ok.
    destruct (Nat.eqb_spec (length dst) 0) as [He|_]; [destruct dst; [congruence | discriminate]|].
    fold size. rewrite (send_spec size stops size 0 []); try (unfold size; lia); [|reflexivity].
    fold l. destruct (steps_incr size stops size 0) as [Hin Hall]; [lia|]. fold l in Hin, Hall.
    assert (Hall' : Forall (fun s => s <= length dst)%nat l).
    { eapply Forall_impl; [|exact Hall]. cbn. intros a Ha. unfold size in Ha. lia. }
    destruct (recv_honest l 0 [] Hin (steps_gaps size stops size 0) Hall') as [st' [Hr [Hm Ha]]].
    unfold r_init. change (mkR true 0%Z [] 0 []) with (mkR true (Z.of_nat 0) (firstn 0 dst) 0 []).
    rewrite Hr, Ha. cbn [app].
    unfold recv_hash_acks.
    assert (Hfin : forall ms, ms = Z.of_nat m ->
      Done (mkOut (map mk l ++ [Over]) (acks_of l) (r_mstep st') ms (skipn (Z.to_nat ms) src)
         (f_data (f_write (f_truncate (f_seek (mkFile dst (r_off st')) (Z.to_nat (r_mstep st'))) (Z.to_nat (r_mstep st')))
                    (skipn (Z.to_nat ms) src)))) =
      Done (mkOut (map mk l ++ [Over]) (acks_of l) (Z.of_nat m) (Z.of_nat m) (skipn m src) (firstn m dst ++ skipn m src))).
    { intros ms ->. rewrite Hm. fold m. rewrite !Nat2Z.id.
      destruct (agreed_good l size Hall) as [_ Hle]. fold m in Hle.
      rewrite final_content by (unfold size in Hle; lia). reflexivity. }
    destruct (Z.eqb_spec (Z.of_nat size) 0) as [Hz|Hnz].
    { assert (Hs0 : size = O) by lia. rewrite (proj2 (Nat.eqb_eq size 0) Hs0). cbn [orb].
      apply Hfin. destruct (agreed_good l size Hall) as [_ Hle]. fold m in Hle. lia. }
    destruct (Nat.eqb_spec size 0) as [Hs0|_]; [lia|]. cbn [orb].
    change 0%Z with (Z.of_nat 0). rewrite (acks_spec size l 0 Hin Hall). fold m.
    destruct (verdict size l); [|reflexivity]. apply Hfin. reflexivity.
  Qed.

  Lemma run_no_exchange : forall proto stops,
    (proto <? Consts.resume_min_protocol)%N = true \/ dst = [] ->
    run B H proto stops src dst = Done (mkOut [] [] 0%Z 0%Z src src).
  Proof.
    intros proto stops [Hp|Hd]; unfold run, opened, no_exchange.
    - rewrite Hp, v2_truncates_src_ok, write_fresh. reflexivity.
    - subst dst. destruct (proto <? Consts.resume_min_protocol)%N;
        [rewrite v2_truncates_src_ok | rewrite v3_keeps_src_ok; cbn [length Nat.eqb]]; rewrite write_fresh; reflexivity.
  Qed.

  (* every completed run: both ends agree on m, m is 0 or a step with equal cumulative digests,
     m <= min, and the contents are as stated *)
  Lemma run_done : forall proto stops o, run B H proto stops src dst = Done o ->
    exists m : nat,
      o_mrecv o = Z.of_nat m /\ o_msend o = Z.of_nat m /\
      (m = O \/ good m = true) /\ (m <= Nat.min (length src) (length dst))%nat /\
      o_sent o = skipn m src /\ o_final o = firstn m dst ++ skipn m src /\
      ((proto <? Consts.resume_min_protocol)%N = false -> m = Resume.agreed B H src dst).
  Proof.
    intros proto stops o Hrun.
    destruct (proto <? Consts.resume_min_protocol)%N eqn:Hp.
    - rewrite run_no_exchange in Hrun by (left; exact Hp). inversion Hrun; subst o. cbn [o_mrecv o_msend o_sent o_final].
      exists O. repeat split; auto; try lia; try discriminate.
    - destruct dst as [|d0 dst'] eqn:Hd.
      + rewrite <- Hd in Hrun. rewrite run_no_exchange in Hrun by (right; exact Hd). inversion Hrun; subst o.
        cbn [o_mrecv o_msend o_sent o_final]. exists O. repeat split; auto; try lia.
        intros _. unfold Resume.agreed. cbn [length]. rewrite Nat.min_0_r. cbn [good_blocks]. reflexivity.
      + rewrite <- Hd in *. assert (Hne : dst <> []) by (rewrite Hd; discriminate).
        rewrite (run_exchange proto stops Hp Hne) in Hrun.
        set (size := Nat.min (length src) (length dst)) in *.
        set (l := steps_from size stops size 0) in *.
        destruct ((size =? 0)%nat || verdict size l) eqn:Hv; [|discriminate]. inversion Hrun; subst o. cbn [o_mrecv o_msend o_sent o_final].
        destruct (steps_incr size stops size 0) as [Hin Hall]; [lia|]. fold l in Hin, Hall.
        destruct (agreed_good l size Hall) as [Hg Hle].
        exists (last (take_good l) O). repeat split; auto.
        intros _. unfold Resume.agreed. fold size.
        pose proof (agreed_closed size size 0) as Hc. unfold Resume.block_end at 1 2 in Hc.
        cbn [Nat.mul Nat.min Nat.add] in Hc. rewrite <- Hc.
        destruct stops as [k|]; [|reflexivity].
        unfold l in *. rewrite steps_stops in *.
        destruct (steps_incr size None size 0) as [Hin' Hall']; [lia|].
        apply orb_true_iff in Hv. destruct Hv as [Hz|Hv].
        * apply Nat.eqb_eq in Hz. rewrite Hz. cbn [steps_from Nat.ltb Nat.leb andb]. rewrite firstn_nil. reflexivity.
        * rewrite (verdict_prefix size _ k 0 Hin' Hall' Hv). reflexivity.
  Qed.

  (* progress: without an early stop the exchange completes, unless the source is empty *)
  Lemma run_completes : forall proto, src <> [] -> exists o, run B H proto None src dst = Done o.
  Proof.
    intros proto Hs. destruct (proto <? Consts.resume_min_protocol)%N eqn:Hp.
    - rewrite run_no_exchange by (left; exact Hp). eauto.
    - destruct dst as [|d0 dst'] eqn:Hd.
      + rewrite <- Hd. rewrite run_no_exchange by (right; exact Hd). eauto.
      + rewrite <- Hd in *. assert (Hne : dst <> []) by (rewrite Hd; discriminate).
        rewrite (run_exchange proto None Hp Hne).
        set (size := Nat.min (length src) (length dst)).
        assert (Hpos : (0 < size)%nat).
        { unfold size. destruct src; [congruence|]. rewrite Hd. cbn [length]. lia. }
        destruct (steps_last size size 0 Hpos) as [Hn Hl]; [lia|].
        rewrite (verdict_last size _ 0 Hn Hl), orb_true_r. eauto.
  Qed.

  (* ... and with an early stop of the hash sender as well, provided the stop comes after the
     verdict: stopNow is only set once the ack reader has delivered matchStep, i.e. after the
     receiver has answered the first mismatching block (or the last block) *)
  Lemma run_completes_stop : forall proto k, src <> [] ->
    (good_blocks B H (Nat.min (length src) (length dst)) src dst (Nat.min (length src) (length dst)) 0 < k)%nat ->
    exists o, run B H proto (Some k) src dst = Done o.
  Proof.
    intros proto k Hs Hk. destruct (proto <? Consts.resume_min_protocol)%N eqn:Hp.
    - rewrite run_no_exchange by (left; exact Hp). eauto.
    - destruct dst as [|d0 dst'] eqn:Hd.
      + rewrite <- Hd. rewrite run_no_exchange by (right; exact Hd). eauto.
      + rewrite <- Hd in *. assert (Hne : dst <> []) by (rewrite Hd; discriminate).
        rewrite (run_exchange proto (Some k) Hp Hne).
        set (size := Nat.min (length src) (length dst)) in *.
        assert (Hpos : (0 < size)%nat).
        { unfold size. destruct src; [congruence|]. rewrite Hd. cbn [length]. lia. }
        destruct (steps_last size size 0 Hpos) as [Hn Hl]; [lia|].
        destruct (steps_incr size None size 0) as [Hin Hall]; [lia|].
        rewrite steps_stops.
        pose proof (good_blocks_length size size 0) as Hgl. unfold Resume.block_end in Hgl.
        cbn [Nat.mul Nat.min] in Hgl.
        rewrite (verdict_firstn size _ k 0 Hin Hall Hn Hl) by lia. rewrite orb_true_r. eauto.
  Qed.

  (* an empty source over a non-empty destination: only Over is sent, no ack is awaited, the
     destination is cut to nothing *)
  Lemma run_empty_source_done : forall proto stops, (proto <? Consts.resume_min_protocol)%N = false ->
    src = [] -> dst <> [] -> run B H proto stops src dst = Done (mkOut [Over] [] 0%Z 0%Z [] []).
  Proof.
    intros proto stops Hp Hs Hd. rewrite (run_exchange proto stops Hp Hd). rewrite Hs. cbn [length Nat.min].
    cbn [steps_from Nat.ltb Nat.leb Nat.eqb andb orb verdict map app acks_of take_good last firstn skipn Z.of_nat]. reflexivity.
  Qed.
End Proofs.

(* ---- the arithmetic closed form (used where files are too large for the list model) ---- *)
Lemma lcp_firstn : forall m (a b : list byte), (m <= lcp a b)%nat -> firstn m a = firstn m b.
Proof.
  induction m as [|m IH]; intros a b Hm; [reflexivity|].
  destruct a as [|x a]; [cbn in Hm; lia|]. destruct b as [|y b]; [cbn in Hm; lia|].
  cbn [lcp] in Hm. destruct (N.eqb_spec x y) as [->|]; [|lia].
  cbn [firstn]. f_equal. apply IH. lia.
Qed.

Section Abs.
  Variable B : N.
  Variable H : list byte -> digest.
  Hypothesis HB : (0 < B)%N.
  Variables src dst : list byte.
  Variable cp : nat.
  Local Notation Bn := (Resume.Bn B).
  Local Notation size := (Nat.min (length src) (length dst)).
  (* the digests of the prefixes compared are equal exactly up to cp *)
  Hypothesis Hcp : forall s, (s <= size)%nat -> (good H src dst s = true <-> (s <= cp)%nat).

  Lemma gb_all_good : (size <= cp)%nat -> forall fuel i, (size - i * Bn <= fuel)%nat ->
    Resume.block_end B size (i + good_blocks B H fuel src dst size i) = size.
  Proof.
    intros Hall. pose proof (Bn_pos B HB) as HBp.
    induction fuel as [|fuel IH]; intros i Hf; cbn [good_blocks].
    - unfold Resume.block_end. lia.
    - destruct (Nat.ltb_spec (i * Bn) size) as [Hlt|Hge]; cbn [andb].
      + assert (Hg : good H src dst (Resume.block_end B size (S i)) = true).
        { apply Hcp; unfold Resume.block_end; lia. }
        unfold good in Hg. rewrite Hg. rewrite <- Nat.add_succ_comm. apply IH. cbn [Nat.mul]. lia.
      + unfold Resume.block_end. lia.
  Qed.

  Lemma gb_cut : (cp < size)%nat -> forall fuel i, (i * Bn <= cp)%nat -> (size - i * Bn <= fuel)%nat ->
    let j := (i + good_blocks B H fuel src dst size i)%nat in
    Resume.block_end B size j = (j * Bn)%nat /\ (j * Bn <= cp < j * Bn + Bn)%nat.
  Proof.
    intros Hcut. pose proof (Bn_pos B HB) as HBp.
    induction fuel as [|fuel IH]; intros i Hi Hf; [lia|]. cbn [good_blocks].
    destruct (Nat.ltb_spec (i * Bn) size) as [Hlt|Hge]; [|lia]. cbn [andb].
    destruct (list_eqb _ _) eqn:Hg.
    - fold (good H src dst (Resume.block_end B size (S i))) in Hg.
      apply Hcp in Hg; [|unfold Resume.block_end; lia].
      assert (Hsi : (S i * Bn <= cp)%nat) by (unfold Resume.block_end in Hg; lia).
      rewrite <- Nat.add_succ_comm. apply IH; [exact Hsi | cbn [Nat.mul]; lia].
    - fold (good H src dst (Resume.block_end B size (S i))) in Hg.
      assert (Hn : ~ (Resume.block_end B size (S i) <= cp)%nat).
      { intro Hle. apply Hcp in Hle; [congruence | unfold Resume.block_end; lia]. }
      rewrite Nat.add_0_r. unfold Resume.block_end in *. cbn [Nat.mul] in Hn. split; lia.
  Qed.

  Lemma agreed_abs :
    N.of_nat (Resume.agreed B H src dst) = abs_agreed B (N.of_nat size) (N.of_nat cp).
  Proof.
    unfold Resume.agreed, abs_agreed. pose proof (Bn_pos B HB) as HBp.
    destruct (N.leb_spec (N.of_nat size) (N.of_nat cp)) as [Hle|Hlt].
    - f_equal. apply (gb_all_good ltac:(lia) size 0). lia.
    - destruct (gb_cut ltac:(lia) size 0 ltac:(lia) ltac:(lia)) as [He Hb]. cbn [Nat.add] in He, Hb.
      set (j := good_blocks B H size src dst size 0) in *. rewrite He.
      assert (Hq : j = (cp / Bn)%nat).
      { apply (Nat.div_unique cp Bn j (cp - j * Bn)); lia. }
      rewrite Hq, Nat.mul_comm, Nat2N.inj_mul, Nat2N.inj_div. unfold Resume.Bn. rewrite N2Nat.id. reflexivity.
  Qed.
End Abs.

(* with collision-free digests cp is the length of the common prefix *)
Lemma good_iff_lcp : forall H src dst, (forall k, H (firstn k src) = H (firstn k dst) -> firstn k src = firstn k dst) ->
  forall s, (s <= Nat.min (length src) (length dst))%nat -> (good H src dst s = true <-> (s <= lcp src dst)%nat).
Proof.
  intros H src dst Hcf s Hs. unfold good. rewrite list_eqb_eq. split.
  - intros He. apply firstn_eq_le_lcp; [apply Hcf; exact He | lia | lia].
  - intros Hle. rewrite (lcp_firstn s src dst Hle). reflexivity.
Qed.

(* ---- the receiver on a peer-chosen step (the former C12 sink make([]byte, hash.Step - matchStep)) ----
   with the guard of recvPrefixHash (pinned by step_guard_src_ok): a step that does not advance
   (<= matchStep, repeated steps included) or advances by more than one block is refused before
   anything is allocated, read or answered; whatever is allocated is at most B bytes *)
Lemma recv_peer_step : forall B H dst step h rest st, r_match st = true ->
  let d := (step - r_mstep st)%Z in
  ((d <= 0 \/ Z.of_N B < d)%Z -> recv_hashes B H dst (Hash step h :: rest) st = RInvalid st step) /\
  ((0 < d <= Z.of_N B)%Z -> (Z.of_nat (length dst) < Z.of_nat (r_off st) + d)%Z ->
     recv_hashes B H dst (Hash step h :: rest) st = RReadErr st d).
Proof.
  intros B H dst step h rest st Hm d. cbn [recv_hashes]. rewrite Hm, step_guard_src_ok. cbn [negb andb]. fold d. split.
  - intros Hd. destruct (Z.leb_spec d 0); [reflexivity|].
    destruct (Z.ltb_spec (Z.of_N B) d); [reflexivity | lia].
  - intros Hd Hbig. destruct (Z.leb_spec d 0); [lia|]. destruct (Z.ltb_spec (Z.of_N B) d); [lia|]. cbn [orb].
    destruct (Z.ltb_spec d 0); [lia|].
    destruct (Z.leb_spec (Z.of_nat (r_off st) + d) (Z.of_nat (length dst))); [lia | reflexivity].
Qed.

(* no message sequence whatsoever makes the receiver panic (the guard is in place) *)
Lemma recv_never_panics : forall B H dst msgs st st' n, recv_hashes B H dst msgs st <> RPanic st' n.
Proof.
  intros B H dst msgs. induction msgs as [|m msgs IH]; intros st st' n; cbn [recv_hashes]; [discriminate|].
  destruct m as [hstep h|]; [|discriminate].
  destruct (negb (r_match st)); [apply IH|]. rewrite step_guard_src_ok. cbn [andb].
  destruct (Z.leb_spec (hstep - r_mstep st) 0); cbn [orb]; [discriminate|].
  destruct (Z.ltb_spec (Z.of_N B) (hstep - r_mstep st)); [discriminate|].
  destruct (Z.ltb_spec (hstep - r_mstep st) 0); [lia|].
  destruct (_ <=? _)%Z; [apply IH | discriminate].
Qed.

(* ---- the property theorems (closed) ---- *)

Definition collision_free (H : list byte -> digest) (src dst : list byte) : Prop :=
  forall k, H (firstn k src) = H (firstn k dst) -> firstn k src = firstn k dst.

Theorem agree : forall B H, (0 < B)%N -> forall proto stops src dst o,
  run B H proto stops src dst = Done o ->
  o_mrecv o = o_msend o /\
  ((proto <? Consts.resume_min_protocol)%N = false -> o_msend o = Z.of_nat (Resume.agreed B H src dst)) /\
  ((proto <? Consts.resume_min_protocol)%N = true -> o_msend o = 0%Z).
Proof.
  intros B H HB proto stops src dst o Hrun.
  destruct (run_done B H HB src dst proto stops o Hrun) as [m [Hr [Hs [_ [_ [_ [_ Hag]]]]]]].
  split; [congruence|]. split.
  - intros Hp. rewrite Hs, (Hag Hp). reflexivity.
  - intros Hp. rewrite run_no_exchange in Hrun by (left; exact Hp). inversion Hrun. reflexivity.
Qed.

Theorem identical : forall B H, (0 < B)%N -> forall proto stops src dst o,
  collision_free H src dst -> run B H proto stops src dst = Done o -> o_final o = src.
Proof.
  intros B H HB proto stops src dst o Hcf Hrun.
  destruct (run_done B H HB src dst proto stops o Hrun) as [m [_ [_ [Hg [_ [_ [Hf _]]]]]]].
  rewrite Hf. destruct Hg as [->|Hg].
  - reflexivity.
  - unfold good in Hg. apply list_eqb_eq in Hg. rewrite <- (Hcf m Hg). apply firstn_skipn.
Qed.

Theorem skip_bounded : forall B H, (0 < B)%N -> forall proto stops src dst o,
  collision_free H src dst -> run B H proto stops src dst = Done o ->
  (0 <= o_msend o <= Z.of_nat (lcp src dst))%Z /\
  Z.of_nat (length (o_sent o)) = (Z.of_nat (length src) - o_msend o)%Z.
Proof.
  intros B H HB proto stops src dst o Hcf Hrun.
  destruct (run_done B H HB src dst proto stops o Hrun) as [m [_ [Hs [Hg [Hle [Hsent _]]]]]].
  rewrite Hs, Hsent, skipn_length. split; [|lia].
  split; [lia|]. apply Nat2Z.inj_le. destruct Hg as [->|Hg]; [lia|].
  unfold good in Hg. apply list_eqb_eq in Hg. apply firstn_eq_le_lcp; [apply Hcf; exact Hg | lia | lia].
Qed.

(* no hypothesis on H: even with colliding digests the length is right and nothing of a longer
   destination survives beyond it *)
Theorem agreed_closed_form : forall B H, (0 < B)%N -> forall src dst, collision_free H src dst ->
  N.of_nat (Resume.agreed B H src dst) =
  abs_agreed B (N.of_nat (Nat.min (length src) (length dst))) (N.of_nat (lcp src dst)).
Proof.
  intros B H HB src dst Hcf. apply agreed_abs; [exact HB|]. apply good_iff_lcp. exact Hcf.
Qed.

Theorem truncates : forall B H, (0 < B)%N -> forall proto stops src dst o,
  run B H proto stops src dst = Done o -> length (o_final o) = length src.
Proof.
  intros B H HB proto stops src dst o Hrun.
  destruct (run_done B H HB src dst proto stops o Hrun) as [m [_ [_ [_ [Hle [_ [Hf _]]]]]]].
  rewrite Hf, app_length, firstn_length, skipn_length. lia.
Qed.
