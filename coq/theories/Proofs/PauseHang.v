(* C18: the tick-counting bound.  A reader that is not idle and whose side is not (or no longer) pausing
   produces a verdict -- a line, a timeout, a stop or a bad-line error -- within
       max 1 SL + 2 T   ticks,
   whatever happened before (any number of pauses, resumes, timer replacements):
     - in the pausing loop it wakes up after at most max 1 SL ticks and starts a read with a fresh timer;
     - a blocked read runs on its own timer (<= T left) and possibly on the replacement timer handed over
       by a resume (<= T left, running CONCURRENTLY, so both are over after max of the two, not the sum);
     - when the last of them expires the read is retried once if a pause began since it took its
       generation snapshot (a fresh timer, T ticks), and that retry cannot be retried again because its
       snapshot is current and no pause begins any more.
   Hence S SL + 3 T of the statement in Props/C18.v holds with room to spare. *)
From Trzsz Require Import Base.Bytes Gen.Consts Model.Pause Proofs.Pause.
From Coq Require Import Lia.
Local Open Scope nat_scope.

Section Hang.
Variable L : Type.
Variable cls : L -> lclass.
Variable cf : cfg.
Hypothesis P3 : cP3 cf = true.
Variable T' : nat.
Hypothesis HT : cT cf = S T'.

Definition emits (s : rstate L) (k : nat) : Prop :=
  exists o, In (Some o) (snd (rrun L cls cf s (repeat ETick k))).
Definition emits_within (s : rstate L) (b : nat) : Prop := exists k, k <= b /\ emits s k.

Lemma ew_now : forall s s1 o b, rstep L cls cf s ETick = (s1, Some o) -> 1 <= b -> emits_within s b.
Proof.
  intros s s1 o b H Hb. exists 1. split; [exact Hb|]. exists o. cbn [repeat rrun]. rewrite H. cbn. auto.
Qed.

Lemma ew_later : forall s s1 o b, rstep L cls cf s ETick = (s1, o) -> emits_within s1 b -> emits_within s (S b).
Proof.
  intros s s1 o b H (k & Hk & o' & Hin). exists (S k). split; [lia|]. exists o'. cbn [repeat rrun]. rewrite H.
  destruct (rrun L cls cf s1 (repeat ETick k)) as [s2 os]. cbn [snd] in *. right. exact Hin.
Qed.

Lemma ew_mono : forall s b b', emits_within s b -> b <= b' -> emits_within s b'.
Proof. intros s b b' (k & Hk & H) Hb. exists k. split; [lia|exact H]. Qed.

(* a blocked read of an un-paused, un-stopped reader *)
Definition RS (snap r : nat) (nt : timer) (s : rstate L) : Prop :=
  ph s = PRead snap /\ queue s = [] /\ stopped (core s) = false /\ pausing (core s) = false /\
  tmo (core s) = Some r /\ ntmo (core s) = nt.

(* recvCheckV2 from the top of its loop or from the pausing loop, not pausing: a verdict at once, or a
   read with a fresh timer and no replacement pending *)
Lemma rd_unpaused : forall q e c s' o, pausing c = false ->
  match e with AtTop => True | AfterGate s0 => s0 <= pidx c | GotLine _ => False end ->
  rd L cls cf q e c = (s', o) ->
  (exists v, o = Some v) \/ (exists snap, RS snap (cT cf) None s' /\ snap <= pidx (core s')).
Proof.
  induction q as [|l q IH]; intros e c s' o Hp He H; cbn [rd] in H.
  - destruct e as [|s0|s0]; [| |contradiction]; unfold pre, gate_check in H; rewrite P3, Hp in H; cbn [andb] in H;
      destruct (stopped c) eqn:Es; inversion H; subst; clear H; eauto;
      right; eexists; (split; [unfold RS, arm, fresh; cbn; rewrite HT; auto 8|cbn; auto]).
  - destruct e as [|s0|s0]; [| |contradiction]; unfold pre, gate_check in H; rewrite P3, Hp in H; cbn [andb] in H;
      destruct (stopped c) eqn:Es; try (inversion H; subst; clear H; eauto; fail);
      (destruct (cls l);
       [ apply (IH AtTop _ s' o) in H; [exact H|exact Hp|exact I]
       | destruct (rbt (arm cf c)); cbn [andb] in H; inversion H; eauto
       | inversion H; eauto
       | inversion H; eauto ]).
Qed.

Ltac tick_in H := cbn [rstep] in H; unfold rtick in H; cbn [core queue ph] in H.

(* the last read: its snapshot is current, so the expiry is the verdict *)
Lemma read_final : forall r snap s, RS snap (S r) None s -> snap = pidx (core s) -> emits_within s (S r).
Proof.
  induction r as [|r IH]; intros snap [c q p] (Hph & Hq & Hst & Hpa & Ht & Hn) Hs; cbn [core queue ph] in *; subst p q.
  - destruct (rstep L cls cf (mkR c [] (PRead snap)) ETick) as [s1 o] eqn:E. pose proof E as E0. tick_in E.
    rewrite Ht, Hn in E. cbn [dec upd_timers tmo ntmo fired] in E. unfold on_timeout in E. cbn [stopped pidx upd_timers] in E.
    rewrite Hst, P3, Hs, Nat.ltb_irrefl in E. cbn [andb] in E. inversion E; subst. eapply ew_now; [exact E0|lia].
  - destruct (rstep L cls cf (mkR c [] (PRead snap)) ETick) as [s1 o] eqn:E. pose proof E as E0. tick_in E.
    rewrite Ht, Hn in E. cbn [dec upd_timers tmo ntmo fired] in E. injection E as <- <-.
    eapply ew_later; [exact E0|]. apply (IH snap); [unfold RS; cbn; auto 8|exact Hs].
Qed.

(* a timer expires with no replacement pending: verdict, or one retried read *)
Lemma expire_unpaused : forall snap c s1 o, stopped c = false -> pausing c = false -> snap <= pidx c ->
  on_timeout L cls cf [] snap c = (s1, o) ->
  (exists v, o = Some v) \/ emits_within s1 (cT cf).
Proof.
  intros snap c s1 o Hst Hpa Hs H. unfold on_timeout in H. rewrite Hst, P3 in H. cbn [andb] in H.
  destruct (snap <? pidx c) eqn:El.
  - destruct (rd_unpaused [] AtTop (upd_pflag c true) s1 o Hpa I H) as [Hv|(snap' & HR & Hle)]; [left; exact Hv|].
    right. rewrite HT in *. apply (read_final T' snap' s1 HR).
    cbn [rd pre gate_check] in H. unfold gate_check in H. rewrite P3 in H. cbn [upd_pflag pausing stopped andb] in H.
    rewrite Hpa, Hst in H. inversion H; subst. destruct HR as (Hph & _). cbn in Hph. inversion Hph. reflexivity.
  - inversion H; eauto.
Qed.

Lemma read_plain : forall r snap s, RS snap (S r) None s -> snap <= pidx (core s) -> emits_within s (S r + cT cf).
Proof.
  induction r as [|r IH]; intros snap [c q p] (Hph & Hq & Hst & Hpa & Ht & Hn) Hs; cbn [core queue ph] in *; subst p q.
  - destruct (rstep L cls cf (mkR c [] (PRead snap)) ETick) as [s1 o] eqn:E. pose proof E as E0. tick_in E.
    rewrite Ht, Hn in E. cbn [dec upd_timers tmo ntmo fired] in E.
    apply expire_unpaused in E; [|exact Hst|exact Hpa|exact Hs]. destruct E as [(v & ->)|Hw].
    + eapply ew_now; [exact E0|lia].
    + eapply ew_later; [exact E0|exact Hw].
  - destruct (rstep L cls cf (mkR c [] (PRead snap)) ETick) as [s1 o] eqn:E. pose proof E as E0. tick_in E.
    rewrite Ht, Hn in E. cbn [dec upd_timers tmo ntmo fired] in E. injection E as <- <-.
    eapply ew_later; [exact E0|]. apply (IH snap); [unfold RS; cbn; auto 8|exact Hs].
Qed.

(* the read's own timer and the replacement handed over by a resume run concurrently *)
Lemma read_replaced : forall r r' snap s, RS snap (S r) (Some r') s -> snap <= pidx (core s) ->
  emits_within s (Nat.max (S r) r' + cT cf).
Proof.
  induction r as [|r IH]; intros r' snap [c q p] (Hph & Hq & Hst & Hpa & Ht & Hn) Hs; cbn [core queue ph] in *; subst p q.
  - destruct (rstep L cls cf (mkR c [] (PRead snap)) ETick) as [s1 o] eqn:E. pose proof E as E0. tick_in E.
    rewrite Ht, Hn in E. cbn [dec upd_timers tmo ntmo fired] in E.
    destruct r' as [|[|r']]; cbn [dec upd_timers tmo ntmo fired] in E.
    + apply expire_unpaused in E; [|exact Hst|exact Hpa|exact Hs]. destruct E as [(v & ->)|Hw].
      * eapply ew_now; [exact E0|lia].
      * eapply ew_mono; [eapply ew_later; [exact E0|exact Hw]|lia].
    + apply expire_unpaused in E; [|exact Hst|exact Hpa|exact Hs]. destruct E as [(v & ->)|Hw].
      * eapply ew_now; [exact E0|lia].
      * eapply ew_mono; [eapply ew_later; [exact E0|exact Hw]|lia].
    + injection E as <- <-. eapply ew_mono; [eapply ew_later; [exact E0|]|].
      * apply (read_plain r' snap); [unfold RS; cbn; auto 8|exact Hs].
      * lia.
  - destruct (rstep L cls cf (mkR c [] (PRead snap)) ETick) as [s1 o] eqn:E. pose proof E as E0. tick_in E.
    rewrite Ht, Hn in E. cbn [dec upd_timers tmo ntmo fired] in E. injection E as <- <-.
    eapply ew_mono; [eapply ew_later; [exact E0|]|].
    + apply (IH (match r' with S x => x | O => O end) snap); [unfold RS; cbn; destruct r'; auto 8|exact Hs].
    + destruct r'; lia.
Qed.

(* the pausing loop after the resume: at most one sleep, then a read *)
Lemma gate_unpaused : forall j snap c q, pausing c = false -> snap <= pidx c ->
  emits_within (mkR c q (PGate snap j)) (Nat.max 1 j + 2 * cT cf).
Proof.
  assert (Hwake : forall j snap c q, j <= 1 -> pausing c = false -> snap <= pidx c ->
            emits_within (mkR c q (PGate snap j)) (1 + 2 * cT cf)).
  { intros j snap c q Hj Hpa Hs.
    destruct (rstep L cls cf (mkR c q (PGate snap j)) ETick) as [s1 o] eqn:E. pose proof E as E0. tick_in E.
    assert (E1 : rd L cls cf q (AfterGate snap) (upd_timers c (dec (tmo c)) (dec (ntmo c))) = (s1, o))
      by (destruct j as [|[|j]]; [exact E|exact E|lia]).
    apply rd_unpaused in E1; [|exact Hpa|exact Hs]. destruct E1 as [(v & ->)|(snap' & HR & Hle)].
    - eapply ew_now; [exact E0|lia].
    - eapply ew_later; [exact E0|]. rewrite HT in *.
      eapply ew_mono; [apply (read_plain T' snap' s1 HR Hle)|]. rewrite HT. lia. }
  induction j as [|j IH]; intros snap c q Hpa Hs.
  - apply Hwake; auto.
  - destruct j as [|j]; [apply Hwake; auto|].
    destruct (rstep L cls cf (mkR c q (PGate snap (S (S j)))) ETick) as [s1 o] eqn:E. pose proof E as E0. tick_in E.
    inversion E; subst. eapply ew_mono; [eapply ew_later; [exact E0|apply IH; [exact Hpa|exact Hs]]|]. lia.
Qed.

(* THE BOUND *)
Theorem unpaused_reader_returns : forall s, rwf L cf s -> ph s <> PIdle -> pausing (core s) = false ->
  emits_within s (Nat.max 1 (cSL cf) + 2 * cT cf).
Proof.
  intros [c q p] (Hpb & Hnt & Hph) Hni Hpa; cbn [core queue ph] in *.
  destruct p as [|snap j|snap]; [congruence| |].
  - destruct Hph as (Hs & Hj). eapply ew_mono; [apply gate_unpaused; [exact Hpa|exact Hs]|]. lia.
  - destruct Hph as (Hq & Hst & Hs & _ & Htm). unfold has_timer in Htm. rewrite HT in Htm.
    destruct Htm as (r & Hr & Hr1). destruct r as [|r]; [lia|].
    destruct (ntmo c) as [r'|] eqn:En.
    + cbn in Hnt. eapply ew_mono; [apply (read_replaced r r' snap); [unfold RS; cbn; auto 8|exact Hs]|]. rewrite HT in *. lia.
    + eapply ew_mono; [apply (read_plain r snap); [unfold RS; cbn; auto 8|exact Hs]|]. rewrite HT in *. lia.
Qed.

End Hang.

(* for every reachable state, in the form of the statement of Props/C18.v *)
Theorem long_pause_no_hang : forall (L : Type) (cls : L -> lclass) cf, cP3 cf = true -> 0 < cT cf ->
  forall s, reachable L cls cf s -> ph s <> PIdle -> pausing (core s) = false ->
  exists k, k <= Nat.max 1 (cSL cf) + 2 * cT cf /\
    exists o, In (Some o) (snd (rrun L cls cf s (repeat ETick k))).
Proof.
  intros L cls cf P3 HT s Hr Hni Hpa. destruct (cT cf) as [|T'] eqn:ET; [lia|].
  rewrite <- ET. exact (unpaused_reader_returns L cls cf P3 T' ET s (reachable_wf L cls cf P3 s Hr) Hni Hpa).
Qed.

(* the bound as first stated: one sleep plus three timeouts *)
Theorem long_pause_no_hang_loose : forall (L : Type) (cls : L -> lclass) cf, cP3 cf = true -> 0 < cT cf ->
  forall s, reachable L cls cf s -> ph s <> PIdle -> pausing (core s) = false ->
  exists k, k <= S (cSL cf) + 3 * cT cf /\
    exists o, In (Some o) (snd (rrun L cls cf s (repeat ETick k))).
Proof.
  intros L cls cf H3 HT s Hr Hi Hp. destruct (long_pause_no_hang L cls cf H3 HT s Hr Hi Hp) as (k & Hk & Ho).
  exists k. split; [lia|exact Ho].
Qed.
