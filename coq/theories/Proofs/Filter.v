(* C05 - lemmas about Model/Filter.v.  The trigger detector, the zmodem detector and
   session object, the platform's drag detector and the trace-log messages are Section
   variables; the only hypothesis about them is [detect_silent] (= theorem C06_silent of
   the detector model): a detector that does not fire returns the chunk untouched. *)
From Coq Require Import String.
From Trzsz Require Import Base.Bytes Gen.Consts Gen.Skel_filter Model.Filter.
Local Open Scope N_scope.

(* ------------------------------------------------------------------------------------ *)
(* the literals whose MEANING the model hard-codes                                        *)

Lemma osc52_prefix_src_ok : osc52_prefix = [27; 93; 53; 50; 59]. Proof. reflexivity. Qed.
Lemma osc52_hdr_skip_is_prefix_length : N.to_nat osc52_hdr_skip = length osc52_prefix.
Proof. reflexivity. Qed.
Lemma osc52_kind_len_ok : osc52_kind_len = 2. Proof. reflexivity. Qed.
Lemma drag_paste_src_ok :
  drag_paste_probe = [27; 91; 50; 48] /\ drag_paste_begin = [27; 91; 50; 48; 48; 126] /\
  drag_paste_end = [27; 91; 50; 48; 49; 126].
Proof. repeat split. Qed.
Lemma drag_chars_src_ok : drag_quote = 39 /\ drag_slash = 47 /\ drag_space = 32 /\ drag_min_len = 3.
Proof. repeat split. Qed.
Lemma trace_markers_nonempty : trace_enable_marker <> [] /\ trace_disable_marker <> [].
Proof. split; discriminate. Qed.

(* ------------------------------------------------------------------------------------ *)
(* the control skeleton regenerated from filter.go: ORDER of the checks in wrapOutput and  *)
(* sendInput, and the deferred CompareAndSwap(transfer, nil) of handleTrzsz                *)

Local Open Scope string_scope.

Definition expected_wrap_output : list sk :=
  [Loop [If "n > 0" []
     [ (* 1 *) If "transfer != nil" [Call "Load" "filter.transfer"] [Call "addReceivedData" "transfer"; Continue] [];
       (* 2 *) If "filter.logger != nil" [] [Call "writeTraceLog" "filter.logger"] [];
       (* 3 *) If "filter.options.EnableZmodem" []
                 [If "zmodem != nil" [Call "Load" "filter.zmodem"]
                    [If "zmodem.handleServerOutput(buf)" [Call "handleServerOutput" "zmodem"] [Continue]
                       [Call "showCursor" ""; Call "CompareAndSwap" "filter.zmodem(zmodem,nil)"]] []] [];
       (* 4 *) If "filter.options.EnableOSC52" [] [Call "detectOSC52" "filter"] [];
       (* 5 *) Call "Load" "filter.tunnelConnector"; Call "detectTrzsz" "detector";
               If "trigger != nil" [] [Call "writeAll" "filter.clientOut"; Go [Call "handleTrzsz" "filter"]; Continue] [];
       (* 6 *) If "filter.interrupting.Load()" [Call "Load" "filter.interrupting"] [Continue] [];
       (* 7 *) If "filter.skipUploadCommand.Load()" [Call "Load" "filter.skipUploadCommand"]
                 [Call "Store" "filter.skipUploadCommand(false)"; Call "trimVT100" "";
                  If "command != nil && *command == output" [Call "Load" "filter.currentUploadCommand"]
                    [Call "writeAll" "filter.clientOut"; Continue] []] [];
       (* 8 *) If "filter.options.EnableZmodem" []
                 [If "zmodem != nil" [Call "detectZmodem" ""]
                    [Call "writeAll" "filter.clientOut";
                     If "filter.zmodem.CompareAndSwap(nil, zmodem)" [Call "CompareAndSwap" "filter.zmodem(nil,zmodem)"]
                       [Call "hideCursor" ""; Go [Call "handleZmodemEvent" "zmodem"];
                        If "filter.oneTimeUploadResult != nil" []
                          [Go [Loop [Call "isTransferringFiles" "zmodem"; Call "Sleep" "time"];
                               Call "setOneTimeUploadResult" "filter"]] [];
                        Continue] []] []] [];
       (* 9 *) Call "writeAll" "filter.clientOut"] [];
     If "err == io.EOF" [] [Call "Sleep" "time"; Continue] []]].

Definition expected_send_input : list sk :=
  [If "filter.logger != nil" [] [Call "writeTraceLog" "filter.logger"] [];
   If "promptPipe != nil" [Call "Load" "filter.promptPipe"] [Call "transformPromptInput" "filter"; Return] [];
   If "transfer != nil" [Call "Load" "filter.transfer"]
     [If "len(buf) == 1 && buf[0] == '\x03' || len(buf) > 14 && ctrlCRegexp.Match(buf)" []
        [If "filter.trigger.version.compare(&trzszVersion{1, 1, 3}) > 0" []
           [Call "confirmStopTransfer" "filter"] [Call "stopTransferringFiles" "transfer"]] [];
      Return] [];
   If "filter.options.EnableZmodem" []
     [If "zmodem != nil" [Call "Load" "filter.zmodem"]
        [If "len(buf) == 1 && buf[0] == '\x03'" [] [Call "stopTransferringFiles" "zmodem"] [];
         If "zmodem.isTransferringFiles()" [Call "isTransferringFiles" "zmodem"] [Return] []] []] [];
   If "detectDragFile.Load()" [Call "Load" "detectDragFile"]
     [Call "Lock" "filter.dragBufferMutex"; Defer [Call "Unlock" "filter.dragBufferMutex"];
      If "filter.dragInputBuffer != nil" [] [Call "Write" "filter.dragInputBuffer"; Return] [];
      Call "detectDragFiles" "";
      If "dragFiles != nil" [] [Call "addDragFiles" "filter"; Return]
        [If "isWinPath" []
           [Call "Write" "filter.dragInputBuffer";
            Go [Call "Sleep" "time"; Call "Lock" "filter.dragBufferMutex"; Defer [Call "Unlock" "filter.dragBufferMutex"];
                Call "Bytes" "filter.dragInputBuffer"; Call "detectDragFiles" "";
                If "dragFiles != nil" [] [Call "addDragFiles" "filter"; Return]
                  [If "!ignore" [] [Call "resetDragFiles" "filter"] []];
                Call "writeAll" "filter.serverIn"];
            Return]
           [If "!ignore" [] [Call "resetDragFiles" "filter"] []]]] [];
   Call "writeAll" "filter.serverIn"].

Definition expected_handle_trzsz : list sk :=
  [Call "newTransfer" "";
   If "connector != nil" [Call "Load" "filter.tunnelConnector"] [Call "connectToTunnel" "transfer"] [];
   Defer [Call "CompareAndSwap" "filter.transfer(transfer,nil)"];
   Go [Defer [Call "close" ""];
       Defer [If "err != nil" [Call "recover" ""] [Call "clientError" "transfer"] []];
       Select [If "'S'" [] [Call "downloadFiles" "filter"] [];
               If "'R'" [] [Call "uploadFiles" "filter"; Call "setOneTimeUploadResult" "filter"] [];
               If "'D'" [] [Call "uploadFiles" "filter"; Call "setOneTimeUploadResult" "filter"] []];
       If "err != nil" [] [Call "clientError" "transfer"] [];
       Call "cleanup" "transfer"];
   Select [Loop [Call "comm" "<-done"];
           Loop [Call "comm" "<-transfer.background()"; Call "background" "transfer"]]].

Definition expected_upload_drag_files : list sk :=
  [If "!filter.dragging.Load()" [Call "Load" "filter.dragging"] [Return] [];
   Call "Store" "filter.interrupting(true)"; Call "writeAll" "filter.serverIn"; Call "Sleep" "time";
   Call "Store" "filter.interrupting(false)"; Call "Store" "filter.skipUploadCommand(true)";
   If "cmd != nil" [Call "Load" "filter.dragFileUploadCommand"] [] [];
   If "filter.dragHasDir.Load() && !filter.uploadCommandIsNotTrz.Load()"
     [Call "Load" "filter.dragHasDir"; Call "Load" "filter.uploadCommandIsNotTrz"] [] [];
   Call "Store" "filter.currentUploadCommand(&command)"; Call "writeAll" "filter.serverIn"; Call "Sleep" "time";
   Call "resetDragFiles" "filter"].

Definition expected_add_drag_files : list sk :=
  [Call "Lock" "filter.dragMutex"; Defer [Call "Unlock" "filter.dragMutex"];
   Call "Store" "filter.dragging(true)"; If "hasDir" [] [Call "Store" "filter.dragHasDir(true)"] [];
   If "filter.dragFiles == nil" [] [Go [If "delay" [] [Call "Sleep" "time"] []; Call "uploadDragFiles" "filter"]] []].

Definition expected_reset_drag_files : list sk :=
  [If "!filter.dragging.Load()" [Call "Load" "filter.dragging"] [Return] [];
   Call "Lock" "filter.dragMutex"; Defer [Call "Unlock" "filter.dragMutex"];
   Call "Store" "filter.dragging(false)"; Call "Store" "filter.dragHasDir(false)"; Return].

Lemma skel_matches :
  wrap_output = expected_wrap_output /\ send_input = expected_send_input /\
  handle_trzsz = expected_handle_trzsz /\ upload_drag_files = expected_upload_drag_files /\
  add_drag_files = expected_add_drag_files /\ reset_drag_files = expected_reset_drag_files.
Proof. repeat split; reflexivity. Qed.

Local Close Scope string_scope.

(* ------------------------------------------------------------------------------------ *)
(* projections                                                                            *)

Lemma term_writes_app : forall a b, term_writes (a ++ b) = term_writes a ++ term_writes b.
Proof. intros; unfold term_writes; apply flat_map_app. Qed.
Lemma server_writes_app : forall a b, server_writes (a ++ b) = server_writes a ++ server_writes b.
Proof. intros; unfold server_writes; apply flat_map_app. Qed.
Lemma clip_writes_app : forall a b, clip_writes (a ++ b) = clip_writes a ++ clip_writes b.
Proof. intros; unfold clip_writes; apply flat_map_app. Qed.
Lemma term_writes_clips : forall cl, term_writes (map Clip cl) = [].
Proof. induction cl; cbn; auto. Qed.
Lemma server_writes_clips : forall cl, server_writes (map Clip cl) = [].
Proof. induction cl; cbn; auto. Qed.

Section FilterProofs.
  Variable dstate : Type.
  Variable trigger : Type.
  Variable detect : dstate -> list N -> (list N * option trigger) * dstate.
  Variable trig_prompts : trigger -> bool.
  Variable zmodem_detect : list N -> bool.
  Variable zstate : Type.
  Variable zm_init : list N -> zstate.
  Variable zm_handle : zstate -> list N -> bool * zstate.
  Variable zm_busy : zstate -> bool.
  Variable zm_stop : zstate -> zstate.
  Variable drag_detect : list N -> dres.
  Variable msg_on msg_off : list N.
  Variable is_stop_key : list N -> bool.
  Variable o : opts.

  (* C06_silent *)
  Hypothesis detect_silent : forall d c c' d', detect d c = ((c', None), d') -> c' = c.

  Notation state := (state dstate zstate).
  Notation event := (event zstate).
  Notation step := (step dstate trigger detect trig_prompts zmodem_detect zstate zm_init zm_handle zm_busy zm_stop drag_detect msg_on msg_off is_stop_key o).
  Notation run := (run dstate trigger detect trig_prompts zmodem_detect zstate zm_init zm_handle zm_busy zm_stop drag_detect msg_on msg_off is_stop_key o).
  Notation out_step := (out_step dstate trigger detect trig_prompts zmodem_detect zstate zm_init zm_handle msg_on msg_off o).
  Notation out_detect := (out_detect dstate trigger detect trig_prompts zmodem_detect zstate zm_init o).
  Notation out_forward := (out_forward dstate zmodem_detect zstate zm_init o).
  Notation out_zmodem := (out_zmodem dstate zstate zm_handle o).
  Notation trace_log := (trace_log dstate zstate msg_on msg_off o).
  Notation in_step := (in_step dstate zstate zm_busy zm_stop drag_detect is_stop_key o).
  Notation hold_timer := (hold_timer dstate zstate drag_detect).
  Notation drag_verdict := (drag_verdict dstate zstate drag_detect).
  Notation drag_step := (drag_step dstate zstate o).
  Notation handler_step := (handler_step dstate zstate).
  Notation quiet := (quiet dstate trigger detect zmodem_detect zstate drag_detect o).
  Notation all_quiet := (all_quiet dstate trigger detect trig_prompts zmodem_detect zstate zm_init zm_handle zm_busy zm_stop drag_detect msg_on msg_off is_stop_key o).
      Notation trace_fires := (trace_fires dstate zstate o).

  (* ---------------------------------------------------------------------------------- *)
  (* calm: nothing owns the streams, no helper goroutine alive; the hold-back buffer may   *)
  (* be in use (only when drag detection is on)                                            *)

  Definition calm (s : state) : Prop :=
    transfer s = false /\ zmodem s = None /\ prompt s = false /\
    interrupting s = false /\ skip_cmd s = false /\
    drag_procs s = [] /\ handlers s = [] /\
    (held s <> None -> detect_on s = true).

  Lemma idle_calm : forall s, idle s = true -> calm s /\ held s = None.
  Proof.
    intros s H. unfold Filter.idle in H.
    repeat (apply andb_prop in H; destruct H as [H ?]).
    destruct s as [tr zm pr prs ton intr sk cc os don dg dhd dfs hd dt dps hs]; cbn in *.
    destruct tr, zm, pr, intr, sk, hd, dps, hs; try discriminate.
    unfold calm; cbn. repeat split; auto; try (intros X; contradiction X; reflexivity).
  Qed.

  Lemma calm_idle : forall s, calm s -> held s = None -> idle s = true.
  Proof.
    intros s (H1 & H2 & H3 & H4 & H5 & H6 & H7 & _) H8. unfold Filter.idle.
    rewrite H1, H2, H3, H4, H5, H6, H7, H8. reflexivity.
  Qed.

  (* what a step of a calm run must deliver *)
  Definition delivered (s : state) (e : event) (s' : state) (ob : list obs) : Prop :=
    term_writes ob = (match e with EvOut c => [c] | _ => [] end) /\
    concat (server_writes ob) ++ held_bytes s' = held_bytes s ++ (match e with EvIn c => c | _ => [] end) /\
    (* chunk-exact on the input side whenever the hold-back buffer is not involved *)
    (held s = None -> held s' = None ->
       server_writes ob = (match e with EvIn c => [c] | _ => [] end)).

  Lemma reset_drag_calm : forall s, calm s -> calm (reset_drag s).
  Proof.
    intros s H. unfold reset_drag. destruct (dragging s); auto.
    all: try (destruct s; unfold calm in *; cbn in *; auto).
  Qed.

  Lemma reset_drag_held : forall s : state, held (reset_drag s) = held s.
  Proof. intros s. unfold reset_drag. destruct (dragging s); destruct s; reflexivity. Qed.

  Lemma out_step_calm : forall s c s' ob, calm s -> quiet s (EvOut c) = true ->
    out_step s c = (s', ob) ->
    calm s' /\ term_writes ob = [c] /\ server_writes ob = [] /\ held s' = held s /\
    trace_on s' = trace_on s.
  Proof.
    intros s c s' ob Hc Hq Hs.
    destruct Hc as (Ht & Hz & Hp & Hi & Hk & Hd & Hh & Hheld).
    cbn [Filter.quiet] in Hq.
    apply andb_prop in Hq; destruct Hq as [Hq Hq3].
    apply andb_prop in Hq; destruct Hq as [Hq1 Hq2].
    apply negb_true_iff in Hq1. apply negb_true_iff in Hq3.
    unfold Filter.out_step in Hs. rewrite Ht in Hs.
    (* trace logger: not firing *)
    assert (Htl : trace_log s c = (c, s)).
    { unfold Filter.trace_log. unfold Filter.trace_fires in Hq1.
      destruct (o_trace o); cbn in Hq1; auto.
      destruct (trace_on s); rewrite Hq1; reflexivity. }
    rewrite Htl in Hs.
    assert (Hzm : out_zmodem s c = inr (s, [])).
    { unfold Filter.out_zmodem. rewrite Hz. destruct (o_zmodem o); reflexivity. }
    rewrite Hzm in Hs.
    unfold Filter.out_detect in Hs.
    destruct (if o_osc52 o then detect_osc52 (osc s) c else (osc s, [])) as [q cl] eqn:Hosc.
    assert (Hdet : det (set_osc q s) = det s) by (destruct s; reflexivity).
    rewrite Hdet in Hs.
    destruct (detect (det s) c) as [[b t] d'] eqn:Hd5. cbn in Hq2.
    destruct t as [t|]; [discriminate|].
    apply detect_silent in Hd5. subst b.
    unfold Filter.out_forward in Hs.
    assert (Hi' : interrupting (set_det d' (set_osc q s)) = false) by (destruct s; cbn in *; auto).
    assert (Hk' : skip_cmd (set_det d' (set_osc q s)) = false) by (destruct s; cbn in *; auto).
    rewrite Hi', Hk' in Hs. cbn [andb] in Hs. rewrite Hq3 in Hs.
    inversion Hs; subst s' ob; clear Hs.
    repeat split.
    all: try (destruct s; cbn in *; auto; fail).
    - cbn [app]. rewrite term_writes_app, term_writes_clips. reflexivity.
    - cbn [app]. rewrite server_writes_app, server_writes_clips. reflexivity.
  Qed.

  Lemma drag_verdict_calm : forall timer s b s' ob, calm s ->
    d_files (drag_detect b) = None -> (detect_on s = true) -> held s = None ->
    drag_verdict timer s b = (s', ob) ->
    calm s' /\ term_writes ob = [] /\
    concat (server_writes ob) ++ held_bytes s' = b /\
    (held s' = None -> server_writes ob = [b]).
  Proof.
    intros timer s b s' ob Hc Hf Hon Hh Hs.
    unfold Filter.drag_verdict in Hs. rewrite Hf in Hs.
    destruct (negb timer && d_win (drag_detect b)).
    - inversion Hs; subst; clear Hs.
      split; [|split; [|split]].
      + destruct Hc as (H1 & H2 & H3 & H4 & H5 & H6 & H7 & H8).
        destruct s; unfold calm; cbn in *; repeat split; auto.
      + reflexivity.
      + destruct s; reflexivity.
      + destruct s; cbn; discriminate.
    - inversion Hs; subst; clear Hs.
      assert (Hc' : calm (if d_ignore (drag_detect b) then s else reset_drag s))
        by (destruct (d_ignore (drag_detect b)); auto using reset_drag_calm).
      assert (Hh' : held (if d_ignore (drag_detect b) then s else reset_drag s) = None)
        by (destruct (d_ignore (drag_detect b)); [|rewrite reset_drag_held]; auto).
      split; [|split; [|split]]; auto.
      cbn. unfold Filter.held_bytes. rewrite Hh'. rewrite !app_nil_r. reflexivity.
  Qed.

  Lemma in_step_calm : forall s c s' ob, calm s -> quiet s (EvIn c) = true ->
    in_step s c = (s', ob) ->
    calm s' /\ delivered s (EvIn c) s' ob.
  Proof.
    intros s c s' ob Hc Hq Hs.
    pose proof Hc as (Ht & Hz & Hp & Hi & Hk & Hd & Hh & Hheld).
    unfold Filter.in_step in Hs. rewrite Hp, Ht in Hs.
    assert (Hz1 : (if o_zmodem o then match zmodem s with
                     | Some z => if list_eqb c [drag_interrupt_byte] then set_zmodem (Some (zm_stop z)) s else s
                     | None => s end else s) = s).
    { rewrite Hz. destruct (o_zmodem o); reflexivity. }
    rewrite Hz1 in Hs. rewrite Hz in Hs.
    replace (o_zmodem o && false) with false in Hs by (destruct (o_zmodem o); reflexivity).
    cbn [Filter.quiet] in Hq.
    destruct (detect_on s) eqn:Hon.
    - destruct (held s) as [b|] eqn:Hb.
      + inversion Hs; subst; clear Hs. split.
        * destruct s; unfold calm in *; cbn in *. repeat split; auto.
        * unfold delivered. repeat split.
          -- unfold Filter.held_bytes. rewrite Hb. destruct s; cbn in *. reflexivity.
          -- intros X; rewrite Hb in X; discriminate X.
      + destruct (d_files (drag_detect c)) eqn:Hf; [discriminate|].
        destruct (drag_verdict_calm false s c s' ob Hc Hf Hon Hb Hs) as (C1 & C2 & C3 & C4).
        split; auto. unfold delivered. repeat split; auto.
        unfold Filter.held_bytes at 2. rewrite Hb. exact C3.
    - inversion Hs; subst; clear Hs. split; auto.
      assert (Hb : held s' = None).
      { destruct (held s') eqn:E; auto. assert (X : Some l <> None) by discriminate.
        apply Hheld in X. rewrite X in Hon. discriminate. }
      unfold delivered. repeat split; auto.
      cbn. unfold Filter.held_bytes. rewrite Hb. rewrite !app_nil_r. reflexivity.
  Qed.

  Lemma hold_timer_calm : forall s s' ob, calm s -> quiet s EvHoldTimer = true ->
    hold_timer s = (s', ob) ->
    calm s' /\ delivered s EvHoldTimer s' ob.
  Proof.
    intros s s' ob Hc Hq Hs.
    unfold Filter.hold_timer in Hs. cbn [Filter.quiet] in Hq.
    destruct (held s) as [b|] eqn:Hb.
    - destruct (d_files (drag_detect b)) eqn:Hf; [discriminate|].
      assert (Hc' : calm (set_held None s)).
      { destruct Hc as (H1 & H2 & H3 & H4 & H5 & H6 & H7 & H8).
        destruct s; unfold calm; cbn in *; repeat split; auto; try (intros X; contradiction X; reflexivity). }
      assert (Hon : detect_on (set_held None s) = true).
      { destruct Hc as (_ & _ & _ & _ & _ & _ & _ & H8).
        assert (X : held s <> None) by (rewrite Hb; discriminate).
        apply H8 in X. destruct s; cbn in *; auto. }
      assert (Hn : held (set_held None s) = None) by (destruct s; reflexivity).
      destruct (drag_verdict_calm true _ b s' ob Hc' Hf Hon Hn Hs) as (C1 & C2 & C3 & C4).
      split; auto. unfold delivered. repeat split; auto.
      + unfold Filter.held_bytes at 2. rewrite Hb. rewrite app_nil_r. exact C3.
      + intros X; rewrite Hb in X; discriminate X.
    - inversion Hs; subst; clear Hs. split; auto. unfold delivered. repeat split; auto.
      rewrite app_nil_r; reflexivity.
  Qed.

  Lemma step_calm : forall s e s' ob, calm s -> quiet s e = true -> step s e = (s', ob) ->
    calm s' /\ delivered s e s' ob.
  Proof.
    intros s e s' ob Hc Hq Hs. destruct e as [c|c| | |i|i a| |z]; cbn [Filter.step] in Hs.
    - destruct (out_step_calm s c s' ob Hc Hq Hs) as (C1 & C2 & C3 & C4 & C5).
      split; auto. unfold delivered. rewrite C2, C3. cbn. unfold Filter.held_bytes. rewrite C4.
      repeat split; auto. rewrite app_nil_r; reflexivity.
    - apply in_step_calm; auto.
    - inversion Hs; subst; clear Hs. split.
      + destruct Hc as (H1 & H2 & H3 & H4 & H5 & H6 & H7 & H8).
        destruct (o_drag o); [|unfold calm; repeat split; auto].
        destruct s; unfold calm; cbn in *; repeat split; auto.
      + unfold delivered. cbn. rewrite app_nil_r.
        destruct (o_drag o); [destruct s|]; repeat split; auto.
    - apply hold_timer_calm; auto.
    - unfold Filter.drag_step in Hs. destruct Hc as (H1 & H2 & H3 & H4 & H5 & H6 & H7 & H8).
      rewrite H6 in Hs. destruct i; cbn in Hs; inversion Hs; subst; clear Hs.
      all: split; [unfold calm; repeat split; auto|unfold delivered; cbn; rewrite app_nil_r; repeat split; auto].
    - unfold Filter.handler_step in Hs. destruct Hc as (H1 & H2 & H3 & H4 & H5 & H6 & H7 & H8).
      rewrite H7 in Hs. destruct i; cbn in Hs; inversion Hs; subst; clear Hs.
      all: split; [unfold calm; repeat split; auto|unfold delivered; cbn; rewrite app_nil_r; repeat split; auto].
    - inversion Hs; subst; clear Hs. split.
      + destruct Hc as (H1 & H2 & H3 & H4 & H5 & H6 & H7 & H8).
        destruct s; unfold calm; cbn in *; repeat split; auto.
      + unfold delivered. cbn. rewrite app_nil_r. destruct s; repeat split; auto.
    - destruct Hc as (H1 & H2 & H3 & H4 & H5 & H6 & H7 & H8). rewrite H2 in Hs.
      inversion Hs; subst; clear Hs. split; [unfold calm; repeat split; auto|].
      unfold delivered. cbn. rewrite app_nil_r. repeat split; auto.
  Qed.

  (* the two-pump transparency theorem, for EVERY interleaving of reads of the two pumps,
     timer expiries and (disabled) helper steps *)
  Theorem run_calm : forall es s s' ob, calm s -> all_quiet s es = true -> run s es = (s', ob) ->
    calm s' /\
    term_writes ob = out_chunks _ es /\
    concat (server_writes ob) ++ held_bytes s' = held_bytes s ++ concat (in_chunks _ es).
  Proof.
    induction es as [|e es IH]; intros s s' ob Hc Hq Hr.
    - cbn in Hr. inversion Hr; subst. cbn. rewrite app_nil_r. auto.
    - cbn [Filter.run] in Hr. cbn [Filter.all_quiet] in Hq.
      apply andb_prop in Hq; destruct Hq as [Hq1 Hq2].
      destruct (step s e) as [s1 o1] eqn:Hs1. cbn [fst] in Hq2.
      destruct (run s1 es) as [s2 o2] eqn:Hr2.
      inversion Hr; subst s' ob; clear Hr.
      destruct (step_calm s e s1 o1 Hc Hq1 Hs1) as (C1 & D1 & D2 & D3).
      destruct (IH s1 s2 o2 C1 Hq2 Hr2) as (C2 & T2 & S2).
      split; auto. split.
      + rewrite term_writes_app, D1, T2. destruct e; reflexivity.
      + rewrite server_writes_app, concat_app, <- app_assoc, S2, app_assoc, D2, <- app_assoc.
        destruct e; cbn; rewrite ?app_nil_r; reflexivity.
  Qed.
End FilterProofs.
