(* C05 - lemmas about Model/Filter.v.  The trigger detector, the zmodem detector and
   session object, the platform's drag detector and the trace-log messages are Section
   variables; the only hypothesis about them is [detect_silent] (= theorem C06_silent of
   the detector model): a detector that does not fire returns the chunk untouched. *)
From Coq Require Import String.
From Trzsz Require Import Base.Bytes Gen.Consts Gen.Skel_filter Model.Filter.
Local Open Scope N_scope.

(* ------------------------------------------------------------------------------------ *)
(* the literals whose MEANING the model hard-codes                                        *)

Lemma osc52_prefix_src_ok : osc52_prefix = [27; 93; 53; 50; 59]. Proof. reflexivity. Qed.
Lemma osc52_hdr_skip_is_prefix_length : N.to_nat osc52_hdr_skip = length osc52_prefix.
Proof. reflexivity. Qed.
Lemma osc52_kind_len_ok : osc52_kind_len = 2. Proof. reflexivity. Qed.
Lemma drag_paste_src_ok :
  drag_paste_probe = [27; 91; 50; 48] /\ drag_paste_begin = [27; 91; 50; 48; 48; 126] /\
  drag_paste_end = [27; 91; 50; 48; 49; 126].
Proof. repeat split. Qed.
Lemma drag_chars_src_ok : drag_quote = 39 /\ drag_slash = 47 /\ drag_space = 32 /\ drag_min_len = 3.
Proof. repeat split. Qed.
Lemma trace_markers_nonempty : trace_enable_marker <> [] /\ trace_disable_marker <> [].
Proof. split; discriminate. Qed.

(* ------------------------------------------------------------------------------------ *)
(* the control skeleton regenerated from filter.go: ORDER of the checks in wrapOutput and  *)
(* sendInput, and the deferred CompareAndSwap(transfer, nil) of handleTrzsz                *)

Local Open Scope string_scope.

Definition expected_wrap_output : list sk :=
  [Loop [If "n > 0" []
     [ (* 1 *) If "transfer != nil" [Call "Load" "filter.transfer"] [Call "addReceivedData" "transfer"; Continue] [];
       (* 2 *) If "filter.logger != nil" [] [Call "writeTraceLog" "filter.logger"] [];
       (* 3 *) If "filter.options.EnableZmodem" []
                 [If "zmodem != nil" [Call "Load" "filter.zmodem"]
                    [If "zmodem.handleServerOutput(buf)" [Call "handleServerOutput" "zmodem"] [Continue]
                       [Call "showCursor" ""; Call "CompareAndSwap" "filter.zmodem(zmodem,nil)"]] []] [];
       (* 4 *) If "filter.options.EnableOSC52" [] [Call "detectOSC52" "filter"] [];
       (* 5 *) Call "Load" "filter.tunnelConnector"; Call "detectTrzsz" "detector";
               If "trigger != nil" [] [Call "writeAll" "filter.clientOut"; Go [Call "handleTrzsz" "filter"]; Continue] [];
       (* 6 *) If "filter.interrupting.Load()" [Call "Load" "filter.interrupting"] [Continue] [];
       (* 7 *) If "filter.skipUploadCommand.Load()" [Call "Load" "filter.skipUploadCommand"]
                 [Call "Store" "filter.skipUploadCommand(false)"; Call "trimVT100" "";
                  If "command != nil && *command == output" [Call "Load" "filter.currentUploadCommand"]
                    [Call "writeAll" "filter.clientOut"; Continue] []] [];
       (* 8 *) If "filter.options.EnableZmodem" []
                 [If "zmodem != nil" [Call "detectZmodem" ""]
                    [Call "writeAll" "filter.clientOut";
                     If "filter.zmodem.CompareAndSwap(nil, zmodem)" [Call "CompareAndSwap" "filter.zmodem(nil,zmodem)"]
                       [Call "hideCursor" ""; Go [Call "handleZmodemEvent" "zmodem"];
                        If "filter.oneTimeUploadResult != nil" []
                          [Go [Loop [Call "isTransferringFiles" "zmodem"; Call "Sleep" "time"];
                               Call "setOneTimeUploadResult" "filter"]] [];
                        Continue] []] []] [];
       (* 9 *) Call "writeAll" "filter.clientOut"] [];
     If "err == io.EOF" [] [Call "Sleep" "time"; Continue] []]].

Definition expected_send_input : list sk :=
  [If "filter.logger != nil" [] [Call "writeTraceLog" "filter.logger"] [];
   If "promptPipe != nil" [Call "Load" "filter.promptPipe"] [Call "transformPromptInput" "filter"; Return] [];
   If "transfer != nil" [Call "Load" "filter.transfer"]
     [If "len(buf) == 1 && buf[0] == '\x03' || len(buf) > 14 && ctrlCRegexp.Match(buf)" []
        [If "filter.trigger.version.compare(&trzszVersion{1, 1, 3}) > 0" []
           [Call "confirmStopTransfer" "filter"] [Call "stopTransferringFiles" "transfer"]] [];
      Return] [];
   If "filter.options.EnableZmodem" []
     [If "zmodem != nil" [Call "Load" "filter.zmodem"]
        [If "len(buf) == 1 && buf[0] == '\x03'" [] [Call "stopTransferringFiles" "zmodem"] [];
         If "zmodem.isTransferringFiles()" [Call "isTransferringFiles" "zmodem"] [Return] []] []] [];
   If "detectDragFile.Load()" [Call "Load" "detectDragFile"]
     [Call "Lock" "filter.dragBufferMutex"; Defer [Call "Unlock" "filter.dragBufferMutex"];
      If "filter.dragInputBuffer != nil" [] [Call "Write" "filter.dragInputBuffer"; Return] [];
      Call "detectDragFiles" "";
      If "dragFiles != nil" [] [Call "addDragFiles" "filter"; Return]
        [If "isWinPath" []
           [Call "Write" "filter.dragInputBuffer";
            Go [Call "Sleep" "time"; Call "Lock" "filter.dragBufferMutex"; Defer [Call "Unlock" "filter.dragBufferMutex"];
                Call "Bytes" "filter.dragInputBuffer"; Call "detectDragFiles" "";
                If "dragFiles != nil" [] [Call "addDragFiles" "filter"; Return]
                  [If "!ignore" [] [Call "resetDragFiles" "filter"] []];
                Call "writeAll" "filter.serverIn"];
            Return]
           [If "!ignore" [] [Call "resetDragFiles" "filter"] []]]] [];
   Call "writeAll" "filter.serverIn"].

Definition expected_handle_trzsz : list sk :=
  [Call "newTransfer" "";
   If "connector != nil" [Call "Load" "filter.tunnelConnector"] [Call "connectToTunnel" "transfer"] [];
   Defer [Call "CompareAndSwap" "filter.transfer(transfer,nil)"];
   (* fix 0263b73: a stop prompt that is still open is closed on every return (o_fixed = true) *)
   Defer [If "promptPipe != nil" [Call "Load" "filter.promptPipe"] [Call "Close" "promptPipe"] []];
   Go [Defer [Call "close" ""];
       Defer [If "err != nil" [Call "recover" ""] [Call "clientError" "transfer"] []];
       Select [If "'S'" [] [Call "downloadFiles" "filter"] [];
               If "'R'" [] [Call "uploadFiles" "filter"; Call "setOneTimeUploadResult" "filter"] [];
               If "'D'" [] [Call "uploadFiles" "filter"; Call "setOneTimeUploadResult" "filter"] []];
       If "err != nil" [] [Call "clientError" "transfer"] [];
       Call "cleanup" "transfer"];
   Select [Loop [Call "comm" "<-done"];
           Loop [Call "comm" "<-transfer.background()"; Call "background" "transfer"]]].

Definition expected_upload_drag_files : list sk :=
  [If "!filter.dragging.Load()" [Call "Load" "filter.dragging"] [Return] [];
   Call "Store" "filter.interrupting(true)"; Call "writeAll" "filter.serverIn"; Call "Sleep" "time";
   Call "Store" "filter.interrupting(false)"; Call "Store" "filter.skipUploadCommand(true)";
   If "cmd != nil" [Call "Load" "filter.dragFileUploadCommand"] [] [];
   If "filter.dragHasDir.Load() && !filter.uploadCommandIsNotTrz.Load()"
     [Call "Load" "filter.dragHasDir"; Call "Load" "filter.uploadCommandIsNotTrz"] [] [];
   Call "Store" "filter.currentUploadCommand(&command)"; Call "writeAll" "filter.serverIn"; Call "Sleep" "time";
   Call "resetDragFiles" "filter"].

Definition expected_add_drag_files : list sk :=
  [Call "Lock" "filter.dragMutex"; Defer [Call "Unlock" "filter.dragMutex"];
   Call "Store" "filter.dragging(true)"; If "hasDir" [] [Call "Store" "filter.dragHasDir(true)"] [];
   If "filter.dragFiles == nil" [] [Go [If "delay" [] [Call "Sleep" "time"] []; Call "uploadDragFiles" "filter"]] []].

Definition expected_reset_drag_files : list sk :=
  [If "!filter.dragging.Load()" [Call "Load" "filter.dragging"] [Return] [];
   Call "Lock" "filter.dragMutex"; Defer [Call "Unlock" "filter.dragMutex"];
   Call "Store" "filter.dragging(false)"; Call "Store" "filter.dragHasDir(false)"; Return].

Lemma skel_matches :
  wrap_output = expected_wrap_output /\ send_input = expected_send_input /\
  handle_trzsz = expected_handle_trzsz /\ upload_drag_files = expected_upload_drag_files /\
  add_drag_files = expected_add_drag_files /\ reset_drag_files = expected_reset_drag_files.
Proof. repeat split; reflexivity. Qed.

(* the public UploadFiles API: refused while a transfer runs or a drop is pending, else
   addDragFiles (EvApiUpload of the model) *)
Definition expected_upload_files_api : list sk :=
  [Loop [If "err != nil" [] [Return] []; If "err != nil" [Call "checkPathsReadable" ""] [Return] []];
   If "filter.IsTransferringFiles()" [Call "IsTransferringFiles" "filter"] [Return] [];
   If "filter.dragging.Load()" [Call "Load" "filter.dragging"] [Return] [];
   Call "addDragFiles" "filter"; Return].

Lemma skel_matches_api : upload_files_api = expected_upload_files_api.
Proof. reflexivity. Qed.

Local Close Scope string_scope.

(* ------------------------------------------------------------------------------------ *)
(* projections                                                                            *)

Lemma term_writes_app : forall a b, term_writes (a ++ b) = term_writes a ++ term_writes b.
Proof. intros; unfold term_writes; apply flat_map_app. Qed.
Lemma server_writes_app : forall a b, server_writes (a ++ b) = server_writes a ++ server_writes b.
Proof. intros; unfold server_writes; apply flat_map_app. Qed.
Lemma clip_writes_app : forall a b, clip_writes (a ++ b) = clip_writes a ++ clip_writes b.
Proof. intros; unfold clip_writes; apply flat_map_app. Qed.
Lemma term_writes_clips : forall cl, term_writes (map Clip cl) = [].
Proof. induction cl; cbn; auto. Qed.
Lemma server_writes_clips : forall cl, server_writes (map Clip cl) = [].
Proof. induction cl; cbn; auto. Qed.

Section FilterProofs.
  Variable dstate : Type.
  Variable trigger : Type.
  Variable detect : dstate -> list N -> (list N * option trigger) * dstate.
  Variable trig_prompts : trigger -> bool.
  Variable zmodem_detect : list N -> bool.
  Variable zstate : Type.
  Variable zm_init : list N -> zstate.
  Variable zm_handle : zstate -> list N -> bool * zstate.
  Variable zm_busy : zstate -> bool.
  Variable zm_stop : zstate -> zstate.
  Variable drag_detect : list N -> dres.
  Variable msg_on msg_off : list N.
  Variable is_stop_key : list N -> bool.
  Variable o : opts.

  (* C06_silent *)
  Hypothesis detect_silent : forall d c c' d', detect d c = ((c', None), d') -> c' = c.

  Notation state := (state dstate zstate).
  Notation event := (event zstate).
  Notation step := (step dstate trigger detect trig_prompts zmodem_detect zstate zm_init zm_handle zm_busy zm_stop drag_detect msg_on msg_off is_stop_key o).
  Notation run := (run dstate trigger detect trig_prompts zmodem_detect zstate zm_init zm_handle zm_busy zm_stop drag_detect msg_on msg_off is_stop_key o).
  Notation out_step := (out_step dstate trigger detect trig_prompts zmodem_detect zstate zm_init zm_handle msg_on msg_off o).
  Notation out_detect := (out_detect dstate trigger detect trig_prompts zmodem_detect zstate zm_init o).
  Notation out_forward := (out_forward dstate zmodem_detect zstate zm_init o).
  Notation out_zmodem := (out_zmodem dstate zstate zm_handle o).
  Notation trace_log := (trace_log dstate zstate msg_on msg_off o).
  Notation in_step := (in_step dstate zstate zm_busy zm_stop drag_detect is_stop_key o).
  Notation hold_timer := (hold_timer dstate zstate drag_detect).
  Notation drag_verdict := (drag_verdict dstate zstate drag_detect).
  Notation drag_step := (drag_step dstate zstate o).
  Notation handler_step := (handler_step dstate zstate o).
  Notation quiet := (quiet dstate trigger detect zmodem_detect zstate drag_detect o).
  Notation all_quiet := (all_quiet dstate trigger detect trig_prompts zmodem_detect zstate zm_init zm_handle zm_busy zm_stop drag_detect msg_on msg_off is_stop_key o).
      Notation trace_fires := (trace_fires dstate zstate o).

  (* ---------------------------------------------------------------------------------- *)
  (* calm: nothing owns the streams, no helper goroutine alive; the hold-back buffer may   *)
  (* be in use (only when drag detection is on)                                            *)

  Definition calm (s : state) : Prop :=
    transfer s = false /\ zmodem s = None /\ prompt s = PNone /\
    interrupting s = false /\ skip_cmd s = false /\
    drag_procs s = [] /\ handlers s = [] /\
    (held s <> None -> detect_on s = true).

  Lemma idle_calm : forall s, idle s = true -> calm s /\ held s = None.
  Proof.
    intros s H. unfold Filter.idle in H.
    repeat (apply andb_prop in H; destruct H as [H ?]).
    destruct s as [tr zm pr prs ton intr sk cc os don dg dhd dfs hd dt dps hs]; cbn in *.
    destruct tr, zm, pr, intr, sk, hd, dps, hs; try discriminate.
    unfold calm; cbn. repeat split; auto; try (intros X; contradiction X; reflexivity).
  Qed.

  Lemma calm_idle : forall s, calm s -> held s = None -> idle s = true.
  Proof.
    intros s (H1 & H2 & H3 & H4 & H5 & H6 & H7 & _) H8. unfold Filter.idle.
    rewrite H1, H2, H3, H4, H5, H6, H7, H8. reflexivity.
  Qed.

  (* what a step of a calm run must deliver *)
  Definition delivered (s : state) (e : event) (s' : state) (ob : list obs) : Prop :=
    term_writes ob = (match e with EvOut c => [c] | _ => [] end) /\
    concat (server_writes ob) ++ held_bytes s' = held_bytes s ++ (match e with EvIn c => c | _ => [] end) /\
    (* chunk-exact on the input side whenever the hold-back buffer is not involved *)
    (held s = None -> held s' = None ->
       server_writes ob = (match e with EvIn c => [c] | _ => [] end)).

  Lemma reset_drag_calm : forall s, calm s -> calm (reset_drag s).
  Proof.
    intros s H. unfold reset_drag. destruct (dragging s); auto.
    all: try (destruct s; unfold calm in *; cbn in *; auto).
  Qed.

  Lemma reset_drag_held : forall s : state, held (reset_drag s) = held s.
  Proof. intros s. unfold reset_drag. destruct (dragging s); destruct s; reflexivity. Qed.

  Lemma out_step_calm : forall s c s' ob, calm s -> quiet s (EvOut c) = true ->
    out_step s c = (s', ob) ->
    calm s' /\ term_writes ob = [c] /\ server_writes ob = [] /\ held s' = held s /\
    trace_on s' = trace_on s.
  Proof.
    intros s c s' ob Hc Hq Hs.
    destruct Hc as (Ht & Hz & Hp & Hi & Hk & Hd & Hh & Hheld).
    cbn [Filter.quiet] in Hq.
    apply andb_prop in Hq; destruct Hq as [Hq Hq3].
    apply andb_prop in Hq; destruct Hq as [Hq1 Hq2].
    apply negb_true_iff in Hq1. apply negb_true_iff in Hq3.
    unfold Filter.out_step in Hs. rewrite Ht in Hs.
    (* trace logger: not firing *)
    assert (Htl : trace_log s c = (c, s)).
    { unfold Filter.trace_log. unfold Filter.trace_fires in Hq1.
      destruct (o_trace o); cbn in Hq1; auto.
      destruct (trace_on s); rewrite Hq1; reflexivity. }
    rewrite Htl in Hs.
    assert (Hzm : out_zmodem s c = inr (s, [])).
    { unfold Filter.out_zmodem. rewrite Hz. destruct (o_zmodem o); reflexivity. }
    rewrite Hzm in Hs.
    unfold Filter.out_detect in Hs.
    destruct (if o_osc52 o then detect_osc52 (osc s) c else (osc s, [])) as [q cl] eqn:Hosc.
    assert (Hdet : det (set_osc q s) = det s) by (destruct s; reflexivity).
    rewrite Hdet in Hs.
    destruct (detect (det s) c) as [[b t] d'] eqn:Hd5. cbn in Hq2.
    destruct t as [t|]; [discriminate|].
    apply detect_silent in Hd5. subst b.
    unfold Filter.out_forward in Hs.
    assert (Hi' : interrupting (set_det d' (set_osc q s)) = false) by (destruct s; cbn in *; auto).
    assert (Hk' : skip_cmd (set_det d' (set_osc q s)) = false) by (destruct s; cbn in *; auto).
    rewrite Hi', Hk' in Hs. cbn [andb] in Hs. rewrite Hq3 in Hs.
    inversion Hs; subst s' ob; clear Hs.
    repeat split.
    all: try (destruct s; cbn in *; auto; fail).
    - cbn [app]. rewrite term_writes_app, term_writes_clips. reflexivity.
    - cbn [app]. rewrite server_writes_app, server_writes_clips. reflexivity.
  Qed.

  Lemma drag_verdict_calm : forall timer s b s' ob, calm s ->
    d_files (drag_detect b) = None -> (detect_on s = true) -> held s = None ->
    drag_verdict timer s b = (s', ob) ->
    calm s' /\ term_writes ob = [] /\
    concat (server_writes ob) ++ held_bytes s' = b /\
    (held s' = None -> server_writes ob = [b]).
  Proof.
    intros timer s b s' ob Hc Hf Hon Hh Hs.
    unfold Filter.drag_verdict in Hs. rewrite Hf in Hs.
    destruct (negb timer && d_win (drag_detect b)).
    - inversion Hs; subst; clear Hs.
      split; [|split; [|split]].
      + destruct Hc as (H1 & H2 & H3 & H4 & H5 & H6 & H7 & H8).
        destruct s; unfold calm; cbn in *; repeat split; auto.
      + reflexivity.
      + destruct s; reflexivity.
      + destruct s; cbn; discriminate.
    - inversion Hs; subst; clear Hs.
      assert (Hc' : calm (if d_ignore (drag_detect b) then s else reset_drag s))
        by (destruct (d_ignore (drag_detect b)); auto using reset_drag_calm).
      assert (Hh' : held (if d_ignore (drag_detect b) then s else reset_drag s) = None)
        by (destruct (d_ignore (drag_detect b)); [|rewrite reset_drag_held]; auto).
      split; [|split; [|split]]; auto.
      cbn. unfold Filter.held_bytes. rewrite Hh'. rewrite !app_nil_r. reflexivity.
  Qed.

  Lemma in_step_calm : forall s c s' ob, calm s -> quiet s (EvIn c) = true ->
    in_step s c = (s', ob) ->
    calm s' /\ delivered s (EvIn c) s' ob.
  Proof.
    intros s c s' ob Hc Hq Hs.
    pose proof Hc as (Ht & Hz & Hp & Hi & Hk & Hd & Hh & Hheld).
    unfold Filter.in_step in Hs. rewrite Hp, Ht in Hs.
    assert (Hz1 : (if o_zmodem o then match zmodem s with
                     | Some z => if list_eqb c [drag_interrupt_byte] then set_zmodem (Some (zm_stop z)) s else s
                     | None => s end else s) = s).
    { rewrite Hz. destruct (o_zmodem o); reflexivity. }
    rewrite Hz1 in Hs. rewrite Hz in Hs.
    replace (o_zmodem o && false) with false in Hs by (destruct (o_zmodem o); reflexivity).
    cbn [Filter.quiet] in Hq.
    destruct (detect_on s) eqn:Hon.
    - destruct (held s) as [b|] eqn:Hb.
      + inversion Hs; subst; clear Hs. split.
        * destruct s; unfold calm in *; cbn in *. repeat split; auto.
        * unfold delivered. repeat split.
          -- unfold Filter.held_bytes. rewrite Hb. destruct s; cbn in *. reflexivity.
          -- intros X; rewrite Hb in X; discriminate X.
      + destruct (d_files (drag_detect c)) eqn:Hf; [discriminate|].
        destruct (drag_verdict_calm false s c s' ob Hc Hf Hon Hb Hs) as (C1 & C2 & C3 & C4).
        split; auto. unfold delivered. repeat split; auto.
        unfold Filter.held_bytes at 2. rewrite Hb. exact C3.
    - inversion Hs; subst; clear Hs. split; auto.
      assert (Hb : held s' = None).
      { destruct (held s') eqn:E; auto. assert (X : Some l <> None) by discriminate.
        apply Hheld in X. rewrite X in Hon. discriminate. }
      unfold delivered. repeat split; auto.
      cbn. unfold Filter.held_bytes. rewrite Hb. rewrite !app_nil_r. reflexivity.
  Qed.

  Lemma hold_timer_calm : forall s s' ob, calm s -> quiet s EvHoldTimer = true ->
    hold_timer s = (s', ob) ->
    calm s' /\ delivered s EvHoldTimer s' ob.
  Proof.
    intros s s' ob Hc Hq Hs.
    unfold Filter.hold_timer in Hs. cbn [Filter.quiet] in Hq.
    destruct (held s) as [b|] eqn:Hb.
    - destruct (d_files (drag_detect b)) eqn:Hf; [discriminate|].
      assert (Hc' : calm (set_held None s)).
      { destruct Hc as (H1 & H2 & H3 & H4 & H5 & H6 & H7 & H8).
        destruct s; unfold calm; cbn in *; repeat split; auto; try (intros X; contradiction X; reflexivity). }
      assert (Hon : detect_on (set_held None s) = true).
      { destruct Hc as (_ & _ & _ & _ & _ & _ & _ & H8).
        assert (X : held s <> None) by (rewrite Hb; discriminate).
        apply H8 in X. destruct s; cbn in *; auto. }
      assert (Hn : held (set_held None s) = None) by (destruct s; reflexivity).
      destruct (drag_verdict_calm true _ b s' ob Hc' Hf Hon Hn Hs) as (C1 & C2 & C3 & C4).
      split; auto. unfold delivered. repeat split; auto.
      + unfold Filter.held_bytes at 2. rewrite Hb. rewrite app_nil_r. exact C3.
      + intros X; rewrite Hb in X; discriminate X.
    - inversion Hs; subst; clear Hs. split; auto. unfold delivered. repeat split; auto.
      rewrite app_nil_r; reflexivity.
  Qed.

  Lemma step_calm : forall s e s' ob, calm s -> quiet s e = true -> step s e = (s', ob) ->
    calm s' /\ delivered s e s' ob.
  Proof.
    intros s e s' ob Hc Hq Hs. destruct e as [c|c| | |i|i a| |z|fs0 hd0]; cbn [Filter.step] in Hs.
    9: (cbn in Hq; discriminate Hq).
    - destruct (out_step_calm s c s' ob Hc Hq Hs) as (C1 & C2 & C3 & C4 & C5).
      split; auto. unfold delivered. rewrite C2, C3. cbn. unfold Filter.held_bytes. rewrite C4.
      repeat split; auto. rewrite app_nil_r; reflexivity.
    - apply in_step_calm; auto.
    - inversion Hs; subst; clear Hs. split.
      + destruct Hc as (H1 & H2 & H3 & H4 & H5 & H6 & H7 & H8).
        destruct (o_drag o); [|unfold calm; repeat split; auto].
        destruct s; unfold calm; cbn in *; repeat split; auto.
      + unfold delivered. cbn. rewrite app_nil_r.
        destruct (o_drag o); [destruct s|]; repeat split; auto.
    - apply hold_timer_calm; auto.
    - unfold Filter.drag_step in Hs. destruct Hc as (H1 & H2 & H3 & H4 & H5 & H6 & H7 & H8).
      rewrite H6 in Hs. destruct i; cbn in Hs; inversion Hs; subst; clear Hs.
      all: split; [unfold calm; repeat split; auto|unfold delivered; cbn; rewrite app_nil_r; repeat split; auto].
    - unfold Filter.handler_step in Hs. destruct Hc as (H1 & H2 & H3 & H4 & H5 & H6 & H7 & H8).
      rewrite H7 in Hs. destruct i; cbn in Hs; inversion Hs; subst; clear Hs.
      all: split; [unfold calm; repeat split; auto|unfold delivered; cbn; rewrite app_nil_r; repeat split; auto].
    - inversion Hs; subst; clear Hs. split.
      + destruct Hc as (H1 & H2 & H3 & H4 & H5 & H6 & H7 & H8).
        destruct s; unfold calm; cbn in *; repeat split; auto.
      + unfold delivered. cbn. rewrite app_nil_r. destruct s; repeat split; auto.
    - destruct Hc as (H1 & H2 & H3 & H4 & H5 & H6 & H7 & H8). rewrite H2 in Hs.
      inversion Hs; subst; clear Hs. split; [unfold calm; repeat split; auto|].
      unfold delivered. cbn. rewrite app_nil_r. repeat split; auto.
  Qed.

  (* the two-pump transparency theorem, for EVERY interleaving of reads of the two pumps,
     timer expiries and (disabled) helper steps *)
  Theorem run_calm : forall es s s' ob, calm s -> all_quiet s es = true -> run s es = (s', ob) ->
    calm s' /\
    term_writes ob = out_chunks _ es /\
    concat (server_writes ob) ++ held_bytes s' = held_bytes s ++ concat (in_chunks _ es).
  Proof.
    induction es as [|e es IH]; intros s s' ob Hc Hq Hr.
    - cbn in Hr. inversion Hr; subst. cbn. rewrite app_nil_r. auto.
    - cbn [Filter.run] in Hr. cbn [Filter.all_quiet] in Hq.
      apply andb_prop in Hq; destruct Hq as [Hq1 Hq2].
      destruct (step s e) as [s1 o1] eqn:Hs1. cbn [fst] in Hq2.
      destruct (run s1 es) as [s2 o2] eqn:Hr2.
      inversion Hr; subst s' ob; clear Hr.
      destruct (step_calm s e s1 o1 Hc Hq1 Hs1) as (C1 & D1 & D2 & D3).
      destruct (IH s1 s2 o2 C1 Hq2 Hr2) as (C2 & T2 & S2).
      split; auto. split.
      + rewrite term_writes_app, D1, T2. destruct e; reflexivity.
      + rewrite server_writes_app, concat_app, <- app_assoc, S2, app_assoc, D2, <- app_assoc.
        destruct e; cbn; rewrite ?app_nil_r; reflexivity.
  Qed.

  (* ---------------------------------------------------------------------------------- *)
  (* the two pumps on their own                                                            *)

  Notation out_pump := (out_pump dstate trigger detect trig_prompts zmodem_detect zstate zm_init zm_handle zm_busy zm_stop drag_detect msg_on msg_off is_stop_key o).
  Notation in_pump := (in_pump dstate trigger detect trig_prompts zmodem_detect zstate zm_init zm_handle zm_busy zm_stop drag_detect msg_on msg_off is_stop_key o).

  (* output pump: chunk-exact (one write per chunk, the chunk itself), nothing sent to the
     server, the state stays idle *)
  Theorem out_transparent : forall cs (s s' : state) ob,
    calm s -> all_quiet s (map EvOut cs) = true -> out_pump s cs = (s', ob) ->
    term_writes ob = cs /\ server_writes ob = [] /\ calm s' /\ held s' = held s /\ trace_on s' = trace_on s.
  Proof.
    unfold Filter.out_pump.
    induction cs as [|c cs IH]; intros s s' ob Hc Hq Hr.
    - cbn in Hr. inversion Hr; subst. cbn. auto.
    - cbn [map Filter.run] in Hr. cbn [map Filter.all_quiet] in Hq.
      apply andb_prop in Hq; destruct Hq as [Hq1 Hq2].
      destruct (step s (EvOut c)) as [s1 o1] eqn:Hs1. cbn [fst] in Hq2.
      destruct (run s1 (map EvOut cs)) as [s2 o2] eqn:Hr2.
      inversion Hr; subst s' ob; clear Hr.
      cbn [Filter.step] in Hs1.
      destruct (out_step_calm s c s1 o1 Hc Hq1 Hs1) as (C1 & C2 & C3 & C4 & C5).
      destruct (IH s1 s2 o2 C1 Hq2 Hr2) as (T & S & C & H & Tr).
      rewrite term_writes_app, server_writes_app, C2, C3, T, S, H, C4, Tr, C5. cbn. auto.
  Qed.

  (* input pump when the platform's detector never asks for a hold-back (Linux, macOS):
     chunk-exact *)
  Theorem in_transparent_nohold : (forall b, d_win (drag_detect b) = false) ->
    forall cs (s s' : state) ob,
    calm s -> held s = None -> all_quiet s (map EvIn cs) = true -> in_pump s cs = (s', ob) ->
    server_writes ob = cs /\ term_writes ob = [] /\ calm s' /\ held s' = None.
  Proof.
    intros Hnw. unfold Filter.in_pump.
    induction cs as [|c cs IH]; intros s s' ob Hc Hh Hq Hr.
    - cbn in Hr. inversion Hr; subst. cbn. auto.
    - cbn [map Filter.run] in Hr. cbn [map Filter.all_quiet] in Hq.
      apply andb_prop in Hq; destruct Hq as [Hq1 Hq2].
      destruct (step s (EvIn c)) as [s1 o1] eqn:Hs1. cbn [fst] in Hq2.
      destruct (run s1 (map EvIn cs)) as [s2 o2] eqn:Hr2.
      inversion Hr; subst s' ob; clear Hr.
      cbn [Filter.step] in Hs1.
      destruct (in_step_calm s c s1 o1 Hc Hq1 Hs1) as (C1 & D1 & D2 & D3).
      assert (Hh1 : held s1 = None).
      { pose proof Hc as (Ht & Hz & Hp & _).
        unfold Filter.in_step in Hs1. rewrite Hp, Ht, Hz in Hs1. cbv beta iota in Hs1.
        replace (o_zmodem o && false) with false in Hs1 by (destruct (o_zmodem o); reflexivity).
        assert (X : (if o_zmodem o then s else s) = s) by (destruct (o_zmodem o); reflexivity).
        rewrite X in Hs1. rewrite ?Hz in Hs1. cbv beta iota in Hs1. rewrite ?andb_false_r in Hs1.
        rewrite Hh in Hs1.
        destruct (detect_on s); cbv beta iota in Hs1.
        - unfold Filter.drag_verdict in Hs1. rewrite Hnw in Hs1. rewrite andb_false_r in Hs1.
          destruct (d_files (drag_detect c)) as [[fs hd]|].
          + inversion Hs1; subst. unfold add_drag.
            destruct (drag_files s); destruct s; cbn in *; auto.
          + inversion Hs1; subst. destruct (d_ignore (drag_detect c)); auto.
            rewrite reset_drag_held; auto.
        - inversion Hs1; subst; auto. }
      destruct (IH s1 s2 o2 C1 Hh1 Hq2 Hr2) as (S & T & C & H).
      rewrite term_writes_app, server_writes_app, D1, (D3 Hh Hh1), T, S. cbn. auto.
  Qed.

  (* ---------------------------------------------------------------------------------- *)
  (* session life cycle: invariants that hold along EVERY run                              *)

  Fixpoint owning (l : list hphase) : nat :=
    match l with
    | [] => O
    | HOwning :: l' => S (owning l')
    | HChoosing :: l' => owning l'
    end.

  (* the session pointer is set exactly while one handleTrzsz goroutine owns it; output is
     dropped ("interrupting") only while an uploadDragFiles goroutine is between its ctrl-C
     and its command *)
  Definition inv (s : state) : Prop :=
    owning (handlers s) = (if transfer s then 1 else 0)%nat /\
    (interrupting s = true -> In DInterrupt (drag_procs s)).

  Lemma owning_app : forall a b, owning (a ++ b) = (owning a + owning b)%nat.
  Proof. induction a as [|x a IH]; intros; cbn; auto. destruct x; rewrite IH; auto. Qed.

  Lemma owning_remove : forall l i ph, nth_error l i = Some ph ->
    owning (remove_nth i l) = (owning l - (match ph with HOwning => 1 | HChoosing => 0 end))%nat.
  Proof.
    induction l as [|x l IH]; intros i ph H; destruct i; cbn in *; try discriminate.
    - inversion H; subst. destruct ph; lia.
    - rewrite (IH _ _ H). destruct x, ph; cbn; try lia.
      assert (owning l >= 1)%nat; [|lia].
      clear IH. revert i H. induction l as [|y l IHl]; intros i H; destruct i; cbn in *; try discriminate.
      + inversion H; subst; lia.
      + destruct y; [eapply IHl; eauto|lia].
  Qed.

  Lemma owning_set_owning : forall l i, nth_error l i = Some HChoosing ->
    owning (set_nth i HOwning l) = S (owning l).
  Proof.
    induction l as [|x l IH]; intros i H; destruct i; cbn in *; try discriminate.
    - inversion H; subst; reflexivity.
    - rewrite (IH _ H). destruct x; reflexivity.
  Qed.

  Lemma in_set_nth : forall {A} (l : list A) i v x, nth_error l i = Some x -> In v (set_nth i v l).
  Proof.
    induction l as [|y l IH]; intros i v x H; destruct i; cbn in *; try discriminate; auto.
    right; eapply IH; eauto.
  Qed.

  Lemma in_set_nth_other : forall {A} (l : list A) i v x y, In x l -> nth_error l i = Some y -> y <> x ->
    In x (set_nth i v l).
  Proof.
    induction l as [|z l IH]; intros i v x y Hin H Hne; destruct i; cbn in *; try discriminate.
    - inversion H; subst. destruct Hin; [contradiction|auto].
    - destruct Hin; auto. right; eapply IH; eauto.
  Qed.

  Lemma in_remove_nth_other : forall {A} (l : list A) i x y, In x l -> nth_error l i = Some y -> y <> x ->
    In x (remove_nth i l).
  Proof.
    induction l as [|z l IH]; intros i x y Hin H Hne; destruct i; cbn in *; try discriminate.
    - inversion H; subst. destruct Hin; [contradiction|auto].
    - destruct Hin; auto. right; eapply IH; eauto.
  Qed.

  Ltac break_match :=
    match goal with
    | |- context [match ?x with _ => _ end] => destruct x
    | |- context [if ?x then _ else _] => destruct x
    end.

  (* what one Read of the output pump can change *)
  Definition same_core (s s' : state) : Prop :=
    transfer s' = transfer s /\ interrupting s' = interrupting s /\ drag_procs s' = drag_procs s /\
    handlers s' = handlers s.

  Lemma same_core_refl : forall s, same_core s s.
  Proof. unfold same_core; auto. Qed.

  Lemma same_core_trans : forall a b c, same_core a b -> same_core b c -> same_core a c.
  Proof. unfold same_core; intros a b c (A1 & A2 & A3 & A4) (B1 & B2 & B3 & B4). repeat split; congruence. Qed.

  Lemma trace_log_frame : forall (s : state) c, same_core s (snd (trace_log s c)).
  Proof.
    intros s c. unfold Filter.trace_log.
    destruct (o_trace o); [|apply same_core_refl].
    destruct (trace_on s); [destruct (contains trace_disable_marker c)|destruct (contains trace_enable_marker c)];
      cbn [snd]; try apply same_core_refl; destruct s; unfold same_core; cbn; auto.
  Qed.

  Lemma out_zmodem_frame : forall (s : state) c,
    match out_zmodem s c with inl s' => same_core s s' | inr (s', _) => same_core s s' end.
  Proof.
    intros s c. unfold Filter.out_zmodem.
    destruct (o_zmodem o); [|apply same_core_refl].
    destruct (zmodem s) as [z|]; [|apply same_core_refl].
    destruct (zm_handle z c) as [h z']. destruct h; destruct s; unfold same_core; cbn; auto.
  Qed.

  Lemma out_forward_frame : forall (s : state) pre c, same_core s (fst (out_forward s pre c)).
  Proof.
    intros s pre c. unfold Filter.out_forward.
    destruct (interrupting s); [apply same_core_refl|].
    set (s1 := if skip_cmd s then set_skip_cmd false s else s).
    assert (F : same_core s s1 /\ zmodem s1 = zmodem s).
    { subst s1. destruct (skip_cmd s); [|split; auto using same_core_refl]. destruct s; unfold same_core; cbn; auto. }
    destruct F as (F & Fz).
    match goal with |- context [if ?b then (s1, ?x) else _] => destruct b end; [exact F|].
    destruct (o_zmodem o && zmodem_detect c); [|exact F].
    destruct (zmodem s1); [exact F|].
    cbn [fst]. eapply same_core_trans; [exact F|]. destruct s1; unfold same_core; cbn; auto.
  Qed.

  Lemma out_detect_frame : forall (s : state) pre c,
    let s' := fst (out_detect s pre c) in
    transfer s' = transfer s /\ interrupting s' = interrupting s /\ drag_procs s' = drag_procs s /\
    (handlers s' = handlers s \/ handlers s' = handlers s ++ [HChoosing]).
  Proof.
    intros s pre c. unfold Filter.out_detect.
    destruct (if o_osc52 o then detect_osc52 (osc s) c else (osc s, [])) as [q cl].
    destruct (detect (det (set_osc q s)) c) as [[b t] d'].
    destruct t as [t|].
    - cbn [fst]. destruct s; cbn; auto.
    - pose proof (out_forward_frame (set_det d' (set_osc q s)) (pre ++ map Clip cl) b) as (F1 & F2 & F3 & F4).
      cbv zeta. rewrite F1, F2, F3, F4. destruct s; cbn; auto.
  Qed.

  Lemma out_step_frame : forall (s : state) c,
    let s' := fst (out_step s c) in
    transfer s' = transfer s /\ interrupting s' = interrupting s /\ drag_procs s' = drag_procs s /\
    (handlers s' = handlers s \/ handlers s' = handlers s ++ [HChoosing]).
  Proof.
    intros s c. unfold Filter.out_step.
    destruct (transfer s) eqn:Ht; [cbn; auto|].
    pose proof (trace_log_frame s c) as T.
    destruct (trace_log s c) as [b s1]. cbn [snd] in T.
    pose proof (out_zmodem_frame s1 b) as Z.
    destruct (out_zmodem s1 b) as [s2|[s2 pre]].
    - cbn. destruct (same_core_trans _ _ _ T Z) as (A1 & A2 & A3 & A4). rewrite A1, A2, A3, A4. auto.
    - pose proof (out_detect_frame s2 pre b) as (D1 & D2 & D3 & D4).
      destruct (same_core_trans _ _ _ T Z) as (A1 & A2 & A3 & A4).
      cbv zeta. rewrite D1, D2, D3, A1, A2, A3. repeat split; auto. rewrite <- A4. exact D4.
  Qed.

  Lemma add_drag_frame : forall (s : state) fs hd,
    transfer (add_drag fs hd s) = transfer s /\ interrupting (add_drag fs hd s) = interrupting s /\
    handlers (add_drag fs hd s) = handlers s /\
    (drag_procs (add_drag fs hd s) = drag_procs s \/ drag_procs (add_drag fs hd s) = drag_procs s ++ [DWait]).
  Proof. intros s fs hd. unfold add_drag. destruct (drag_files s); destruct s; cbn; auto. Qed.

  Lemma drag_verdict_frame : forall timer (s : state) b,
    let s' := fst (drag_verdict timer s b) in
    transfer s' = transfer s /\ interrupting s' = interrupting s /\ handlers s' = handlers s /\
    (drag_procs s' = drag_procs s \/ drag_procs s' = drag_procs s ++ [DWait]).
  Proof.
    intros timer s b. unfold Filter.drag_verdict.
    destruct (d_files (drag_detect b)) as [[fs hd]|]; cbn [fst].
    - apply add_drag_frame.
    - destruct (negb timer && d_win (drag_detect b)); cbn [fst].
      + destruct s; cbn; auto.
      + destruct (d_ignore (drag_detect b)); auto. unfold reset_drag. destruct (dragging s); destruct s; cbn; auto.
  Qed.

  Lemma in_step_frame : forall (s : state) c,
    let s' := fst (in_step s c) in
    transfer s' = transfer s /\ interrupting s' = interrupting s /\ handlers s' = handlers s /\
    (drag_procs s' = drag_procs s \/ drag_procs s' = drag_procs s ++ [DWait]).
  Proof.
    intros s c. unfold Filter.in_step.
    destruct (p_set (prompt s)); [cbn; auto|].
    destruct (transfer s) eqn:Ht.
    { cbn [fst]. destruct (is_stop_key c && prompts s); [destruct s; cbn in *; auto|auto]. }
    match goal with |- context [if o_zmodem o && ?b then _ else _] => destruct (o_zmodem o && b) end.
    { cbn [fst]. destruct (o_zmodem o); [|auto]. destruct (zmodem s); [|auto].
      destruct (list_eqb c [drag_interrupt_byte]); [destruct s; cbn in *; auto|auto]. }
    set (s1 := if o_zmodem o then _ else s).
    assert (F : transfer s1 = transfer s /\ interrupting s1 = interrupting s /\ handlers s1 = handlers s /\ drag_procs s1 = drag_procs s).
    { subst s1. destruct (o_zmodem o); [|auto]. destruct (zmodem s); [|auto].
      destruct (list_eqb c [drag_interrupt_byte]); [destruct s; cbn in *; auto|auto]. }
    destruct F as (F1 & F2 & F3 & F4). rewrite Ht in F1.
    destruct (detect_on s1).
    - destruct (held s1).
      + cbn [fst].
        assert (G : forall v, transfer (set_held v s1) = transfer s1 /\ interrupting (set_held v s1) = interrupting s1 /\
                    handlers (set_held v s1) = handlers s1 /\ drag_procs (set_held v s1) = drag_procs s1)
          by (intros v; destruct s1; cbn; auto).
        destruct (G (Some (l ++ c))) as (G1 & G2 & G3 & G4).
        repeat split; try congruence; try (left; congruence).
      + pose proof (drag_verdict_frame false s1 c) as (G1 & G2 & G3 & G4).
        repeat split; try congruence; try (destruct G4; [left|right]; congruence).
    - cbn [fst]. repeat split; try congruence; try (left; congruence).
  Qed.

  Lemma hold_timer_frame : forall (s : state),
    let s' := fst (hold_timer s) in
    transfer s' = transfer s /\ interrupting s' = interrupting s /\ handlers s' = handlers s /\
    (drag_procs s' = drag_procs s \/ drag_procs s' = drag_procs s ++ [DWait]).
  Proof.
    intros s. unfold Filter.hold_timer. destruct (held s) as [b|]; [|cbn; auto].
    pose proof (drag_verdict_frame true (set_held None s) b) as (G1 & G2 & G3 & G4).
    assert (X : transfer (set_held None s) = transfer s /\ interrupting (set_held None s) = interrupting s /\
                handlers (set_held None s) = handlers s /\ drag_procs (set_held None s) = drag_procs s)
      by (destruct s; cbn; auto).
    destruct X as (X1 & X2 & X3 & X4). rewrite <- X1, <- X2, <- X3, <- X4. auto.
  Qed.

  Lemma inv_frame : forall (s s' : state), inv s ->
    transfer s' = transfer s -> interrupting s' = interrupting s ->
    (handlers s' = handlers s \/ handlers s' = handlers s ++ [HChoosing]) ->
    (drag_procs s' = drag_procs s \/ drag_procs s' = drag_procs s ++ [DWait]) ->
    inv s'.
  Proof.
    intros s s' (I1 & I2) Ht Hi Hh Hd. split.
    - rewrite Ht. destruct Hh as [Hh|Hh]; rewrite Hh; auto. rewrite owning_app. cbn. lia.
    - rewrite Hi. intros X. apply I2 in X. destruct Hd as [Hd|Hd]; rewrite Hd; auto. apply in_or_app; auto.
  Qed.

  Lemma reset_drag_frame : forall (s : state),
    transfer (reset_drag s) = transfer s /\ interrupting (reset_drag s) = interrupting s /\
    handlers (reset_drag s) = handlers s /\ drag_procs (reset_drag s) = drag_procs s.
  Proof. intros s. unfold reset_drag. destruct (dragging s); destruct s; cbn; auto. Qed.

  Lemma drag_step_inv : forall (s : state) i, inv s -> inv (fst (drag_step s i)).
  Proof.
    intros s i (I1 & I2). unfold Filter.drag_step.
    destruct (nth_error (drag_procs s) i) as [ph|] eqn:Hn; [|split; auto].
    destruct ph.
    - destruct (dragging s); cbn [fst].
      + split; [destruct s; cbn in *; auto|]. intros _.
        assert (X : drag_procs (set_drag_procs (set_nth i DInterrupt (drag_procs s)) (set_interrupting true s))
                    = set_nth i DInterrupt (drag_procs s)) by (destruct s; reflexivity).
        rewrite X. eapply in_set_nth; eauto.
      + split; [destruct s; cbn in *; auto|]. intros X.
        assert (Y : interrupting s = true) by (destruct s; cbn in *; auto).
        apply I2 in Y.
        assert (Z : drag_procs (set_drag_procs (remove_nth i (drag_procs s)) s) = remove_nth i (drag_procs s))
          by (destruct s; reflexivity).
        rewrite Z. eapply in_remove_nth_other; eauto. discriminate.
    - cbn [fst]. split; [destruct s; cbn in *; auto|]. intros X. destruct s; cbn in X; discriminate.
    - cbn [fst]. pose proof (reset_drag_frame s) as (R1 & R2 & R3 & R4). split.
      + assert (X : transfer (set_drag_procs (remove_nth i (drag_procs s)) (reset_drag s)) = transfer (reset_drag s) /\
                    handlers (set_drag_procs (remove_nth i (drag_procs s)) (reset_drag s)) = handlers (reset_drag s))
          by (destruct (reset_drag s); cbn; auto).
        destruct X as (X1 & X2). rewrite X1, X2, R1, R3. auto.
      + intros X.
        assert (Y : interrupting s = true).
        { rewrite <- R2. destruct (reset_drag s); cbn in *; auto. }
        apply I2 in Y.
        assert (Z : drag_procs (set_drag_procs (remove_nth i (drag_procs s)) (reset_drag s)) = remove_nth i (drag_procs s))
          by (destruct (reset_drag s); reflexivity).
        rewrite Z. eapply in_remove_nth_other; eauto. discriminate.
  Qed.

  (* the first deferred function of the fixed handleTrzsz: close a stop prompt that is still open *)
  Definition close_prompt (s : state) : state :=
    if o_fixed o then match prompt s with POpen => set_prompt PClosing s | _ => s end else s.

  Lemma close_prompt_frame : forall s : state,
    transfer (close_prompt s) = transfer s /\ interrupting (close_prompt s) = interrupting s /\
    handlers (close_prompt s) = handlers s /\ drag_procs (close_prompt s) = drag_procs s.
  Proof.
    intros s. unfold close_prompt. destruct (o_fixed o); auto. destruct (prompt s); auto; destruct s; cbn; auto.
  Qed.

  Lemma handler_exit_unfold : forall (s : state) i ph,
    handler_exit dstate zstate o s i ph =
    (let s1 := set_handlers (remove_nth i (handlers (close_prompt s))) (close_prompt s) in
     match ph with HOwning => set_transfer false s1 | HChoosing => s1 end).
  Proof. reflexivity. Qed.

  Lemma handler_exit_core : forall (s : state) i ph,
    transfer (handler_exit dstate zstate o s i ph) = (match ph with HOwning => false | HChoosing => transfer s end) /\
    handlers (handler_exit dstate zstate o s i ph) = remove_nth i (handlers s) /\
    interrupting (handler_exit dstate zstate o s i ph) = interrupting s /\
    drag_procs (handler_exit dstate zstate o s i ph) = drag_procs s.
  Proof.
    intros s i ph. rewrite handler_exit_unfold.
    pose proof (close_prompt_frame s) as (C1 & C2 & C3 & C4).
    rewrite <- C1, <- C2, <- C3, <- C4. destruct ph; destruct (close_prompt s); cbn; auto.
  Qed.

  Lemma handler_exit_inv : forall (s : state) i ph, inv s -> nth_error (handlers s) i = Some ph ->
    inv (handler_exit dstate zstate o s i ph).
  Proof.
    intros s i ph (I1 & I2) Hn.
    pose proof (handler_exit_core s i ph) as (E1 & E2 & E3 & E4).
    pose proof (owning_remove _ _ _ Hn) as Ho.
    split.
    - rewrite E1, E2, Ho, I1. destruct ph; [lia|destruct (transfer s); lia].
    - rewrite E3, E4. exact I2.
  Qed.

  Lemma handler_step_inv : forall (s : state) i a, inv s -> inv (fst (handler_step s i a)).
  Proof.
    intros s i a Hi. unfold Filter.handler_step.
    destruct (nth_error (handlers s) i) as [ph|] eqn:Hn; [|auto].
    destruct a, ph; cbn [fst]; auto using handler_exit_inv.
    - (* HTakeDrag *) pose proof (reset_drag_frame s) as (R1 & R2 & R3 & R4).
      eapply inv_frame; eauto; rewrite ?R3, ?R4; auto.
    - (* HAccept *) destruct (transfer s) eqn:Ht; cbn [fst]; auto using handler_exit_inv.
      destruct Hi as (I1 & I2). split; [|destruct s; cbn in *; auto].
      assert (X : handlers (set_handlers (set_nth i HOwning (handlers s)) (set_transfer true s)) = set_nth i HOwning (handlers s) /\
                  transfer (set_handlers (set_nth i HOwning (handlers s)) (set_transfer true s)) = true) by (destruct s; cbn; auto).
      destruct X as (X1 & X2). rewrite X1, X2, (owning_set_owning _ _ Hn), I1, Ht. reflexivity.
  Qed.

  Lemma step_inv : forall (s : state) e, inv s -> inv (fst (step s e)).
  Proof.
    intros s e Hi. destruct e as [c|c| | |i|i a| |z|fs0 hd0]; cbn [Filter.step].
    9: { cbn [fst]. destruct (transfer s || dragging s); auto.
         pose proof (add_drag_frame s fs0 hd0) as (F1 & F2 & F3 & F4). eapply inv_frame; eauto. }
    - pose proof (out_step_frame s c) as (F1 & F2 & F3 & F4). eapply inv_frame; eauto.
    - pose proof (in_step_frame s c) as (F1 & F2 & F3 & F4). eapply inv_frame; eauto.
    - cbn [fst]. destruct (o_drag o); auto. all: try (eapply inv_frame; eauto; try (destruct s; cbn; auto)).
    - pose proof (hold_timer_frame s) as (F1 & F2 & F3 & F4). eapply inv_frame; eauto.
    - apply drag_step_inv; auto.
    - apply handler_step_inv; auto.
    - cbn [fst]. eapply inv_frame; eauto; try (destruct s; cbn; auto).
    - cbn [fst]. destruct (zmodem s); auto. all: try (eapply inv_frame; eauto; try (destruct s; cbn; auto)).
  Qed.

  Theorem run_inv : forall es (s : state), inv s -> inv (fst (run s es)).
  Proof.
    induction es as [|e es IH]; intros s Hi; cbn [Filter.run]; auto.
    pose proof (step_inv s e Hi) as H1. destruct (step s e) as [s1 o1]. cbn [fst] in H1.
    pose proof (IH s1 H1) as H2. destruct (run s1 es) as [s2 o2]. exact H2.
  Qed.

  Lemma init_inv : forall d, inv (init dstate zstate d).
  Proof. intros d. split; cbn; auto. discriminate. Qed.

  Lemma idle_inv : forall s : state, idle s = true -> inv s.
  Proof.
    intros s H. apply idle_calm in H. destruct H as ((H1 & H2 & H3 & H4 & H5 & H6 & H7 & H8) & _).
    split; [rewrite H7, H1; reflexivity|rewrite H4; discriminate].
  Qed.

  (* every way a session can end leaves the wrapper idle: once the helper goroutines of a
     history have finished, nothing owns the streams any more *)
  Theorem quiescent_idle : forall s : state, inv s ->
    handlers s = [] -> drag_procs s = [] -> held s = None -> prompt s = PNone -> zmodem s = None ->
    skip_cmd s = false -> idle s = true.
  Proof.
    intros s (I1 & I2) Hh Hd Hb Hp Hz Hk.
    apply calm_idle; auto. unfold calm. rewrite Hh in I1. cbn in I1.
    repeat split; auto.
    - destruct (transfer s); auto; discriminate.
    - destruct (interrupting s); auto. rewrite Hd in I2. destruct (I2 eq_refl).
  Qed.

  (* each exit of handleTrzsz, one by one *)
  Theorem every_exit_clears : forall (s : state) i a, inv s ->
    nth_error (handlers s) i = Some HOwning ->
    (a = HDone \/ a = HError \/ a = HStop \/ a = HBackground) ->
    transfer (fst (handler_step s i a)) = false /\
    handlers (fst (handler_step s i a)) = remove_nth i (handlers s).
  Proof.
    intros s i a Hi Hn Ha. unfold Filter.handler_step. rewrite Hn.
    pose proof (handler_exit_core s i HOwning) as (E1 & E2 & _).
    destruct Ha as [Ha|[Ha|[Ha|Ha]]]; subst a; cbn [fst]; auto.
  Qed.

  Theorem early_exit_keeps : forall (s : state) i a,
    nth_error (handlers s) i = Some HChoosing -> (a = HRefuse \/ a = HFailEarly) ->
    transfer (fst (handler_step s i a)) = transfer s /\
    handlers (fst (handler_step s i a)) = remove_nth i (handlers s).
  Proof.
    intros s i a Hn Ha. unfold Filter.handler_step. rewrite Hn.
    pose proof (handler_exit_core s i HChoosing) as (E1 & E2 & _).
    destruct Ha as [Ha|Ha]; subst a; cbn [fst]; auto.
  Qed.

  (* induction over histories of sessions: whatever happened before (any number of sessions,
     ended in any way, any interleaving), once the wrapper is quiescent the two transparency
     theorems apply again *)
  Theorem after_session_prompt_closed : forall es1 es2 (s0 s1 s2 : state) ob1 ob2,
    idle s0 = true -> run s0 es1 = (s1, ob1) ->
    handlers s1 = [] -> drag_procs s1 = [] -> held s1 = None -> prompt s1 = PNone -> zmodem s1 = None ->
    skip_cmd s1 = false ->
    all_quiet s1 es2 = true -> run s1 es2 = (s2, ob2) ->
    idle s1 = true /\
    term_writes ob2 = out_chunks _ es2 /\
    concat (server_writes ob2) ++ held_bytes s2 = concat (in_chunks _ es2) /\
    calm s2.
  Proof.
    intros es1 es2 s0 s1 s2 ob1 ob2 H0 Hr1 Hh Hd Hb Hp Hz Hk Hq Hr2.
    assert (Hi : inv s1).
    { pose proof (run_inv es1 s0 (idle_inv s0 H0)) as X. rewrite Hr1 in X. exact X. }
    assert (Hidle : idle s1 = true) by (apply quiescent_idle; auto).
    destruct (idle_calm s1 Hidle) as (Hc & _).
    destruct (run_calm es2 s1 s2 ob2 Hc Hq Hr2) as (C & T & S).
    split; [exact Hidle|split; [exact T|split; [|exact C]]].
    unfold Filter.held_bytes in S at 2. rewrite Hb in S. exact S.
  Qed.

  (* the upload-command echo flag: if it is still pending when everything else is idle, the
     next chunk clears it; the chunk is forwarded unless it IS the echo of the command *)
  Theorem skip_pending : forall (s : state) c s' ob,
    calm (set_skip_cmd false s) -> skip_cmd s = true -> quiet s (EvOut c) = true ->
    out_step s c = (s', ob) ->
    skip_cmd s' = false /\
    (term_writes ob = [c] \/
     (term_writes ob = [skip_echo_repl] /\
      cur_cmd s = Some (trim_right skip_trim_cutset (trim_vt100 c)))).
  Proof.
    intros s c s' ob Hc Hk Hq Hs.
    destruct Hc as (Ht & Hz & Hp & Hi & _ & Hd & Hh & Hheld).
    assert (Ht' : transfer s = false) by (destruct s; cbn in *; auto).
    assert (Hz' : zmodem s = None) by (destruct s; cbn in *; auto).
    assert (Hi' : interrupting s = false) by (destruct s; cbn in *; auto).
    cbn [Filter.quiet] in Hq.
    apply andb_prop in Hq; destruct Hq as [Hq Hq3].
    apply andb_prop in Hq; destruct Hq as [Hq1 Hq2].
    apply negb_true_iff in Hq1. apply negb_true_iff in Hq3.
    unfold Filter.out_step in Hs. rewrite Ht' in Hs.
    assert (Htl : trace_log s c = (c, s)).
    { unfold Filter.trace_log. unfold Filter.trace_fires in Hq1.
      destruct (o_trace o); cbn in Hq1; auto.
      destruct (trace_on s); rewrite Hq1; reflexivity. }
    rewrite Htl in Hs.
    assert (Hzm : out_zmodem s c = inr (s, [])).
    { unfold Filter.out_zmodem. rewrite Hz'. destruct (o_zmodem o); reflexivity. }
    rewrite Hzm in Hs.
    unfold Filter.out_detect in Hs.
    destruct (if o_osc52 o then detect_osc52 (osc s) c else (osc s, [])) as [q cl] eqn:Hosc.
    assert (Hdet : det (set_osc q s) = det s) by (destruct s; reflexivity).
    rewrite Hdet in Hs.
    destruct (detect (det s) c) as [[b t] d'] eqn:Hd5. cbn in Hq2.
    destruct t as [t|]; [discriminate|].
    apply detect_silent in Hd5. subst b.
    unfold Filter.out_forward in Hs.
    assert (Hi2 : interrupting (set_det d' (set_osc q s)) = false) by (destruct s; cbn in *; auto).
    assert (Hk2 : skip_cmd (set_det d' (set_osc q s)) = true) by (destruct s; cbn in *; auto).
    assert (Hcc : cur_cmd (set_skip_cmd false (set_det d' (set_osc q s))) = cur_cmd s) by (destruct s; reflexivity).
    rewrite Hi2, Hk2, Hcc in Hs. cbn [andb] in Hs.
    destruct (cur_cmd s) as [cc|] eqn:Hcur.
    - destruct (list_eqb cc (trim_right skip_trim_cutset (trim_vt100 c))) eqn:He.
      + inversion Hs; subst; clear Hs. split; [destruct s; reflexivity|]. right. split.
        * cbn [app]. rewrite term_writes_app, term_writes_clips. reflexivity.
        * f_equal. clear - He. revert He. generalize (trim_right skip_trim_cutset (trim_vt100 c)).
          induction cc as [|x cc IH]; intros l He; destruct l; cbn in He; try discriminate; auto.
          apply andb_prop in He. destruct He as [E1 E2]. apply N.eqb_eq in E1. subst. f_equal. auto.
      + rewrite Hq3 in Hs. inversion Hs; subst; clear Hs. split; [destruct s; reflexivity|]. left.
        cbn [app]. rewrite term_writes_app, term_writes_clips. reflexivity.
    - rewrite Hq3 in Hs. inversion Hs; subst; clear Hs. split; [destruct s; reflexivity|]. left.
      cbn [app]. rewrite term_writes_app, term_writes_clips. reflexivity.
  Qed.

  (* the statements of the property, from an idle state *)
  Theorem out_transparent_idle : forall cs (s s' : state) ob,
    idle s = true -> all_quiet s (map EvOut cs) = true -> out_pump s cs = (s', ob) ->
    term_writes ob = cs /\ server_writes ob = [] /\ idle s' = true /\ trace_on s' = trace_on s.
  Proof.
    intros cs s s' ob Hi Hq Hr. destruct (idle_calm s Hi) as (Hc & Hh).
    destruct (out_transparent cs s s' ob Hc Hq Hr) as (T & S & C & H & Tr).
    split; [exact T|split; [exact S|split; [|exact Tr]]]. apply calm_idle; auto. congruence.
  Qed.

  Theorem all_interleavings_idle : forall es (s s' : state) ob,
    idle s = true -> all_quiet s es = true -> run s es = (s', ob) ->
    term_writes ob = out_chunks _ es /\
    concat (server_writes ob) ++ held_bytes s' = concat (in_chunks _ es) /\
    calm s' /\ (held s' = None -> idle s' = true).
  Proof.
    intros es s s' ob Hi Hq Hr. destruct (idle_calm s Hi) as (Hc & Hh).
    destruct (run_calm es s s' ob Hc Hq Hr) as (C & T & S).
    unfold Filter.held_bytes in S at 2. rewrite Hh in S. cbn [app] in S.
    split; [exact T|split; [exact S|split; [exact C|]]]. intros X. apply calm_idle; auto.
  Qed.

  Theorem in_transparent_nohold_idle : (forall b, d_win (drag_detect b) = false) ->
    forall cs (s s' : state) ob,
    idle s = true -> all_quiet s (map EvIn cs) = true -> in_pump s cs = (s', ob) ->
    server_writes ob = cs /\ term_writes ob = [] /\ idle s' = true.
  Proof.
    intros Hnw cs s s' ob Hi Hq Hr. destruct (idle_calm s Hi) as (Hc & Hh).
    destruct (in_transparent_nohold Hnw cs s s' ob Hc Hh Hq Hr) as (S & T & C & H).
    split; [exact S|split; [exact T|]]. apply calm_idle; auto.
  Qed.

  Theorem near_miss_idle : forall (s s' : state) c ob,
    idle s = true -> quiet s (EvOut c) = true -> out_step s c = (s', ob) ->
    term_writes ob = [c] /\ server_writes ob = [] /\ idle s' = true.
  Proof.
    intros s s' c ob Hi Hq Hs. destruct (idle_calm s Hi) as (Hc & Hh).
    destruct (out_step_calm s c s' ob Hc Hq Hs) as (C & T & S & H & _).
    split; [exact T|split; [exact S|]]. apply calm_idle; auto. congruence.
  Qed.

  (* ---------------------------------------------------------------------------------- *)
  (* the stop prompt (fixed code: every return of handleTrzsz closes a prompt that is      *)
  (* still open): an OPEN prompt exists only while a transfer owns the streams             *)

  Hypothesis Hfixed : o_fixed o = true.

  Definition pinv (s : state) : Prop := prompt s = POpen -> transfer s = true.

  Lemma trace_log_prompt : forall (s : state) c, prompt (snd (trace_log s c)) = prompt s.
  Proof.
    intros s c. unfold Filter.trace_log. destruct (o_trace o); auto.
    destruct (trace_on s); [destruct (contains trace_disable_marker c)|destruct (contains trace_enable_marker c)];
      cbn [snd]; auto; destruct s; reflexivity.
  Qed.

  Lemma out_zmodem_prompt : forall (s : state) c,
    match out_zmodem s c with inl s' => prompt s' = prompt s | inr (s', _) => prompt s' = prompt s end.
  Proof.
    intros s c. unfold Filter.out_zmodem. destruct (o_zmodem o); auto. destruct (zmodem s) as [z|]; auto.
    destruct (zm_handle z c) as [h z']. destruct h; destruct s; reflexivity.
  Qed.

  Lemma out_forward_prompt : forall (s : state) pre c, prompt (fst (out_forward s pre c)) = prompt s.
  Proof.
    intros s pre c. unfold Filter.out_forward. destruct (interrupting s); auto.
    set (s1 := if skip_cmd s then set_skip_cmd false s else s).
    assert (F : prompt s1 = prompt s) by (subst s1; destruct (skip_cmd s); auto; destruct s; reflexivity).
    match goal with |- context [if ?b then (s1, ?x) else _] => destruct b end; auto.
    destruct (o_zmodem o && zmodem_detect c); auto. destruct (zmodem s1); auto.
    all: try (cbn [fst]; rewrite <- F; destruct s1; reflexivity).
  Qed.

  Lemma out_detect_prompt : forall (s : state) pre c, prompt (fst (out_detect s pre c)) = prompt s.
  Proof.
    intros s pre c. unfold Filter.out_detect.
    destruct (if o_osc52 o then detect_osc52 (osc s) c else (osc s, [])) as [q cl].
    destruct (detect (det (set_osc q s)) c) as [[b t] d']. destruct t as [t|].
    - cbn [fst]. destruct s; reflexivity.
    - rewrite out_forward_prompt. destruct s; reflexivity.
  Qed.

  Lemma out_step_prompt : forall (s : state) c, prompt (fst (out_step s c)) = prompt s.
  Proof.
    intros s c. unfold Filter.out_step. destruct (transfer s); auto.
    pose proof (trace_log_prompt s c) as T. destruct (trace_log s c) as [b s1]. cbn [snd] in T.
    pose proof (out_zmodem_prompt s1 b) as Z. destruct (out_zmodem s1 b) as [s2|[s2 pre]].
    - cbn [fst]. congruence.
    - rewrite out_detect_prompt. congruence.
  Qed.

  Lemma reset_drag_prompt : forall s : state, prompt (reset_drag s) = prompt s.
  Proof. intros s. unfold reset_drag. destruct (dragging s); destruct s; reflexivity. Qed.

  Lemma add_drag_prompt : forall (s : state) fs hd, prompt (add_drag fs hd s) = prompt s.
  Proof. intros s fs hd. unfold add_drag. destruct (drag_files s); destruct s; reflexivity. Qed.

  Lemma drag_verdict_prompt : forall timer (s : state) b, prompt (fst (drag_verdict timer s b)) = prompt s.
  Proof.
    intros timer s b. unfold Filter.drag_verdict.
    destruct (d_files (drag_detect b)) as [[fs hd]|]; cbn [fst]; [apply add_drag_prompt|].
    destruct (negb timer && d_win (drag_detect b)); cbn [fst]; [destruct s; reflexivity|].
    destruct (d_ignore (drag_detect b)); auto using reset_drag_prompt.
  Qed.

  Lemma in_step_pinv : forall (s : state) c, pinv s -> pinv (fst (in_step s c)).
  Proof.
    intros s c Hp. unfold pinv, Filter.in_step.
    destruct (p_set (prompt s)) eqn:Eps; [exact Hp|].
    destruct (transfer s) eqn:Ht.
    - cbn [fst]. intros _. destruct (is_stop_key c && prompts s); [destruct s; cbn in *; auto|auto].
    - assert (Hn : prompt s = PNone) by (destruct (prompt s); cbn in Eps; congruence).
      intros X. exfalso. revert X.
      match goal with |- context [if o_zmodem o && ?b then _ else _] => destruct (o_zmodem o && b) end.
      { cbn [fst]. destruct (o_zmodem o); [|congruence]. destruct (zmodem s); [|congruence].
        destruct (list_eqb c [drag_interrupt_byte]); try congruence. all: try (destruct s; cbn in *; congruence). }
      set (s1 := if o_zmodem o then _ else s).
      assert (F : prompt s1 = PNone).
      { subst s1. destruct (o_zmodem o); auto. destruct (zmodem s); auto.
        destruct (list_eqb c [drag_interrupt_byte]); auto. all: try (destruct s; cbn in *; auto). }
      destruct (detect_on s1); [|cbn [fst]; congruence].
      destruct (held s1); [cbn [fst]; destruct s1; cbn in *; congruence|].
      rewrite drag_verdict_prompt. congruence.
  Qed.

  Lemma hold_timer_pinv : forall s : state, pinv s -> pinv (fst (hold_timer s)).
  Proof.
    intros s Hp. pose proof (hold_timer_frame s) as (F1 & _). unfold pinv. rewrite F1. clear F1.
    unfold Filter.hold_timer. destruct (held s) as [b|]; [|exact Hp].
    rewrite drag_verdict_prompt. intros X. apply Hp. destruct s; exact X.
  Qed.

  Lemma drag_step_pinv : forall (s : state) i, pinv s -> pinv (fst (drag_step s i)).
  Proof.
    intros s i Hp. unfold Filter.drag_step.
    destruct (nth_error (drag_procs s) i) as [[| |]|]; [destruct (dragging s)| | |]; cbn [fst]; auto.
    all: try (unfold pinv in *; destruct s; cbn in *; auto; fail).
    pose proof (reset_drag_frame s) as (R1 & _). pose proof (reset_drag_prompt s) as R5.
    assert (G : forall v (x : state), transfer (set_drag_procs v x) = transfer x /\ prompt (set_drag_procs v x) = prompt x)
      by (intros v x; destruct x; split; reflexivity).
    unfold pinv in *. match goal with |- context [set_drag_procs ?v (reset_drag s)] => destruct (G v (reset_drag s)) as (G1 & G2) end.
    rewrite G1, G2, R1, R5. exact Hp.
  Qed.

  Lemma handler_exit_pinv : forall (s : state) i ph, pinv (handler_exit dstate zstate o s i ph).
  Proof.
    intros s i ph. rewrite handler_exit_unfold. unfold close_prompt. rewrite Hfixed.
    unfold pinv. destruct (prompt s) eqn:E; destruct ph; destruct s; cbn in *; subst; intros X; discriminate X.
  Qed.

  Lemma handler_step_pinv : forall (s : state) i a, pinv s -> pinv (fst (handler_step s i a)).
  Proof.
    intros s i a Hp. unfold Filter.handler_step.
    destruct (nth_error (handlers s) i) as [ph|]; [|auto].
    destruct a, ph; cbn [fst]; auto using handler_exit_pinv.
    - pose proof (reset_drag_frame s) as (R1 & _). pose proof (reset_drag_prompt s) as R5.
      unfold pinv. rewrite R1, R5. auto.
    - destruct (transfer s); cbn [fst]; auto using handler_exit_pinv.
      all: try (unfold pinv; destruct s; cbn; auto).
  Qed.

  Lemma step_pinv : forall (s : state) e, pinv s -> pinv (fst (step s e)).
  Proof.
    intros s e Hp. destruct e as [c|c| | |i|i a| |z|fs0 hd0]; cbn [Filter.step].
    9: { cbn [fst]. destruct (transfer s || dragging s); auto.
         pose proof (add_drag_frame s fs0 hd0) as (F1 & _). unfold pinv. rewrite F1, add_drag_prompt. exact Hp. }
    - pose proof (out_step_frame s c) as (F1 & _). unfold pinv. rewrite F1, out_step_prompt. auto.
    - apply in_step_pinv; auto.
    - cbn [fst]. destruct (o_drag o); auto. all: try (unfold pinv in *; destruct s; cbn in *; auto).
    - apply hold_timer_pinv; auto.
    - apply drag_step_pinv; auto.
    - apply handler_step_pinv; auto.
    - cbn [fst]. unfold pinv. destruct s; cbn. intros X; discriminate X.
    - cbn [fst]. destruct (zmodem s); auto. all: try (unfold pinv in *; destruct s; cbn in *; auto).
  Qed.

  Theorem run_pinv : forall es (s : state), pinv s -> pinv (fst (run s es)).
  Proof.
    induction es as [|e es IH]; intros s Hi; cbn [Filter.run]; auto.
    pose proof (step_pinv s e Hi) as H1. destruct (step s e) as [s1 o1]. cbn [fst] in H1.
    pose proof (IH s1 H1) as H2. destruct (run s1 es) as [s2 o2]. exact H2.
  Qed.

  (* at rest WITHOUT any premise about the prompt: no prompt is waiting for a key; at most its
     goroutine still has to store nil, which it does without any key (EvPromptEnd) *)
  Theorem quiescent_idle_fixed : forall s : state, inv s -> pinv s ->
    handlers s = [] -> drag_procs s = [] -> held s = None -> zmodem s = None -> skip_cmd s = false ->
    prompt s <> POpen /\ idle (fst (step s EvPromptEnd)) = true.
  Proof.
    intros s Hi Hp Hh Hd Hb Hz Hk.
    assert (Ht : transfer s = false).
    { destruct Hi as (I1 & _). rewrite Hh in I1. cbn in I1. destruct (transfer s); auto; discriminate. }
    split.
    - intros X. apply Hp in X. congruence.
    - cbn [Filter.step fst]. apply quiescent_idle; try (destruct s; cbn in *; auto; fail).
      all: try (destruct Hi as (I1 & I2); split; destruct s; cbn in *; auto).
  Qed.

  Theorem after_session : forall es1 es2 (s0 s1 s2 : state) ob1 ob2,
    idle s0 = true -> run s0 es1 = (s1, ob1) ->
    handlers s1 = [] -> drag_procs s1 = [] -> held s1 = None -> zmodem s1 = None -> skip_cmd s1 = false ->
    all_quiet (fst (step s1 EvPromptEnd)) es2 = true -> run (fst (step s1 EvPromptEnd)) es2 = (s2, ob2) ->
    prompt s1 <> POpen /\
    idle (fst (step s1 EvPromptEnd)) = true /\
    term_writes ob2 = out_chunks _ es2 /\
    concat (server_writes ob2) ++ held_bytes s2 = concat (in_chunks _ es2) /\
    calm s2.
  Proof.
    intros es1 es2 s0 s1 s2 ob1 ob2 H0 Hr1 Hh Hd Hb Hz Hk Hq Hr2.
    assert (Hi : inv s1).
    { pose proof (run_inv es1 s0 (idle_inv s0 H0)) as X. rewrite Hr1 in X. exact X. }
    assert (Hp : pinv s1).
    { assert (P0 : pinv s0).
      { unfold pinv. apply idle_calm in H0. destruct H0 as ((_ & _ & P & _) & _). rewrite P. discriminate. }
      pose proof (run_pinv es1 s0 P0) as X. rewrite Hr1 in X. exact X. }
    destruct (quiescent_idle_fixed s1 Hi Hp Hh Hd Hb Hz Hk) as (Q1 & Q2).
    destruct (idle_calm _ Q2) as (Hc & Hb').
    destruct (run_calm es2 _ s2 ob2 Hc Hq Hr2) as (C & T & S).
    split; [exact Q1|split; [exact Q2|split; [exact T|split; [|exact C]]]].
    unfold Filter.held_bytes in S at 2. rewrite Hb' in S. exact S.
  Qed.
End FilterProofs.

(* ------------------------------------------------------------------------------------ *)
(* OSC52 is inert: switching the option on or off, and whatever partial sequence is        *)
(* buffered, changes nothing but the clipboard calls and the buffer itself                 *)

Definition opts_but_osc52 (o : opts) (v : bool) : opts :=
  {| o_drag := o_drag o; o_trace := o_trace o; o_zmodem := o_zmodem o; o_osc52 := v;
     o_cmd := o_cmd o; o_cmd_not_trz := o_cmd_not_trz o; o_fixed := o_fixed o |}.

Definition no_clip (l : list obs) : list obs :=
  filter (fun x => match x with Clip _ => false | _ => true end) l.

Lemma no_clip_app : forall a b, no_clip (a ++ b) = no_clip a ++ no_clip b.
Proof. intros; unfold no_clip; apply filter_app. Qed.
Lemma no_clip_clips : forall cl, no_clip (map Clip cl) = [].
Proof. induction cl; cbn; auto. Qed.

Section OscInert.
  Variable dstate : Type.
  Variable trigger : Type.
  Variable detect : dstate -> list N -> (list N * option trigger) * dstate.
  Variable trig_prompts : trigger -> bool.
  Variable zmodem_detect : list N -> bool.
  Variable zstate : Type.
  Variable zm_init : list N -> zstate.
  Variable zm_handle : zstate -> list N -> bool * zstate.
  Variable zm_busy : zstate -> bool.
  Variable zm_stop : zstate -> zstate.
  Variable drag_detect : list N -> dres.
  Variable msg_on msg_off : list N.
  Variable is_stop_key : list N -> bool.

  Notation state := (state dstate zstate).
  Notation step := (step dstate trigger detect trig_prompts zmodem_detect zstate zm_init zm_handle zm_busy zm_stop drag_detect msg_on msg_off is_stop_key).
  Notation run := (run dstate trigger detect trig_prompts zmodem_detect zstate zm_init zm_handle zm_busy zm_stop drag_detect msg_on msg_off is_stop_key).

  (* equal up to the OSC52 buffer *)
  Definition osc_eq (a b : state) : Prop := set_osc None a = set_osc None b.

  Lemma osc_eq_refl : forall a, osc_eq a a. Proof. reflexivity. Qed.

  Lemma osc_eq_set : forall a b, osc_eq a b -> exists q, b = set_osc q a.
  Proof.
    intros a b E. exists (osc b). unfold osc_eq in E. destruct a, b; cbn in *. inversion E; subst. reflexivity.
  Qed.

  Ltac bm :=
    match goal with
    | |- context [match ?x with _ => _ end] => destruct x
    | |- context [if ?x then _ else _] => destruct x
    end.
  Ltac unf_sets := idtac.

  Lemma out_forward_osc : forall o1 o2 (a b : state) pa pb c, o_zmodem o1 = o_zmodem o2 ->
    osc_eq a b -> no_clip pa = no_clip pb ->
    osc_eq (fst (out_forward dstate zmodem_detect zstate zm_init o1 a pa c))
           (fst (out_forward dstate zmodem_detect zstate zm_init o2 b pb c)) /\
    no_clip (snd (out_forward dstate zmodem_detect zstate zm_init o1 a pa c)) =
    no_clip (snd (out_forward dstate zmodem_detect zstate zm_init o2 b pb c)).
  Proof.
    intros o1 o2 a b pa pb c Eo E P.
    assert (E' : set_osc None a = set_osc None b) by exact E.
    destruct a, b; cbn in E'; inversion E'; subst; clear E' E.
    unfold Filter.out_forward. rewrite Eo. unf_sets. cbn -[osc_eq no_clip].
    destruct interrupting0; [split; [reflexivity|exact P]|].
    destruct skip_cmd0; cbn -[osc_eq no_clip].
    all: repeat (bm; cbn -[osc_eq no_clip]); rewrite ?no_clip_app, ?P; split; reflexivity.
  Qed.

  Notation out_step := (out_step dstate trigger detect trig_prompts zmodem_detect zstate zm_init zm_handle msg_on msg_off).

  (* the output pump: the only reader of the buffer *)
  Lemma out_step_osc : forall o v1 v2 (a b : state) c, osc_eq a b ->
    osc_eq (fst (out_step (opts_but_osc52 o v1) a c)) (fst (out_step (opts_but_osc52 o v2) b c)) /\
    no_clip (snd (out_step (opts_but_osc52 o v1) a c)) = no_clip (snd (out_step (opts_but_osc52 o v2) b c)).
  Proof.
    intros o v1 v2 a b c E.
    - unfold Filter.out_step.
      assert (Et : transfer a = transfer b) by (unfold osc_eq in E; destruct a, b; cbn in *; inversion E; auto).
      rewrite Et. destruct (transfer b); [cbn; auto|].
      (* trace logger *)
      assert (T : fst (trace_log dstate zstate msg_on msg_off (opts_but_osc52 o v1) a c) =
                  fst (trace_log dstate zstate msg_on msg_off (opts_but_osc52 o v2) b c) /\
                  osc_eq (snd (trace_log dstate zstate msg_on msg_off (opts_but_osc52 o v1) a c))
                         (snd (trace_log dstate zstate msg_on msg_off (opts_but_osc52 o v2) b c))).
      { assert (E' : set_osc None a = set_osc None b) by exact E.
        unfold Filter.trace_log. destruct a, b; cbn in E'; inversion E'; subst; unf_sets; cbn -[osc_eq].
        destruct (o_trace o); [|split; reflexivity].
        destruct trace_on0; [destruct (contains trace_disable_marker c)|destruct (contains trace_enable_marker c)];
          split; reflexivity. }
      destruct (trace_log dstate zstate msg_on msg_off (opts_but_osc52 o v1) a c) as [b1 a1].
      destruct (trace_log dstate zstate msg_on msg_off (opts_but_osc52 o v2) b c) as [b2 a2].
      cbn [fst snd] in T. destruct T as (Tb & Ta). subst b2.
      (* zmodem session *)
      assert (Z : match out_zmodem dstate zstate zm_handle (opts_but_osc52 o v1) a1 b1,
                        out_zmodem dstate zstate zm_handle (opts_but_osc52 o v2) a2 b1 with
                  | inl x, inl y => osc_eq x y
                  | inr (x, p), inr (y, q) => osc_eq x y /\ p = q
                  | _, _ => False
                  end).
      { assert (Ta' : set_osc None a1 = set_osc None a2) by exact Ta.
        unfold Filter.out_zmodem. destruct a1, a2; cbn in Ta'; inversion Ta'; subst; unf_sets; cbn -[osc_eq].
        destruct (o_zmodem o); [|split; reflexivity].
        destruct zmodem0 as [zz|]; [|split; reflexivity].
        destruct (zm_handle zz b1) as [h z']. destruct h; [reflexivity|split; reflexivity]. }
      destruct (out_zmodem dstate zstate zm_handle (opts_but_osc52 o v1) a1 b1) as [x|[x p]];
        destruct (out_zmodem dstate zstate zm_handle (opts_but_osc52 o v2) a2 b1) as [y|[y q]];
        try contradiction; [cbn; auto|].
      destruct Z as (Z & Zp). subst q.
      (* OSC52 scanner + trigger detector *)
      unfold Filter.out_detect.
      destruct (if o_osc52 (opts_but_osc52 o v1) then detect_osc52 (osc x) b1 else (osc x, [])) as [q1 cl1].
      destruct (if o_osc52 (opts_but_osc52 o v2) then detect_osc52 (osc y) b1 else (osc y, [])) as [q2 cl2].
      assert (D : det (set_osc q1 x) = det (set_osc q2 y)) by (unfold osc_eq in Z; destruct x, y; cbn in *; inversion Z; auto).
      rewrite D. destruct (detect (det (set_osc q2 y)) b1) as [[b' t] d'].
      destruct t as [t|].
      + cbn [fst snd]. split.
        * unfold osc_eq in *. destruct x, y; cbn in *; inversion Z; subst; reflexivity.
        * rewrite !no_clip_app, !no_clip_clips. reflexivity.
      + apply out_forward_osc.
        * reflexivity.
        * unfold osc_eq in *. destruct x, y; cbn in *; inversion Z; subst; reflexivity.
        * rewrite !no_clip_app, !no_clip_clips. reflexivity.
  Qed.

  Lemma step_osc : forall o v1 v2 (a b : state) e, osc_eq a b ->
    osc_eq (fst (step (opts_but_osc52 o v1) a e)) (fst (step (opts_but_osc52 o v2) b e)) /\
    no_clip (snd (step (opts_but_osc52 o v1) a e)) = no_clip (snd (step (opts_but_osc52 o v2) b e)).
  Proof.
    intros o v1 v2 a b e E.
    destruct e as [c|c| | |i|i x| |z|fs0 hd0]; cbn [Filter.step]; [apply out_step_osc; exact E|..].
    all: destruct (osc_eq_set _ _ E) as [q Eq]; subst b; clear E.
    all: destruct a as [transfer0 zmodem0 prompt0 prompts0 trace_on0 interrupting0 skip_cmd0 cur_cmd0 osc0 detect_on0
                         dragging0 drag_has_dir0 drag_files0 held0 det0 drag_procs0 handlers0].
    - unfold Filter.in_step, Filter.drag_verdict, add_drag, reset_drag, opts_but_osc52. unf_sets. cbn -[osc_eq no_clip].
      destruct prompt0; [|split; reflexivity|split; reflexivity].
      destruct transfer0; [destruct (is_stop_key c && prompts0); split; reflexivity|].
      destruct (o_zmodem o), zmodem0, detect_on0, held0, (list_eqb c [drag_interrupt_byte]); cbn -[osc_eq no_clip].
      all: repeat (bm; cbn -[osc_eq no_clip]); split; reflexivity.
    - unfold opts_but_osc52; cbn -[osc_eq no_clip]. destruct (o_drag o); split; reflexivity.
    - unfold Filter.hold_timer, Filter.drag_verdict, add_drag, reset_drag. unf_sets. cbn -[osc_eq no_clip].
      destruct held0; [|split; reflexivity].
      match goal with |- context [d_files (drag_detect ?l)] => destruct (d_files (drag_detect l)) as [[fs hd]|] end; cbn -[osc_eq no_clip].
      all: repeat (bm; cbn -[osc_eq no_clip]); split; reflexivity.
    - unfold Filter.drag_step, Filter.drag_command, reset_drag, opts_but_osc52. unf_sets. cbn -[osc_eq no_clip].
      destruct (nth_error drag_procs0 i) as [[| |]|]; cbn -[osc_eq no_clip]; [destruct dragging0| |destruct dragging0|];
        cbn -[osc_eq no_clip]; split; reflexivity.
    - unfold Filter.handler_step, handler_exit, reset_drag, opts_but_osc52. unf_sets. cbn -[osc_eq no_clip].
      destruct (nth_error handlers0 i) as [ph|]; [|split; reflexivity].
      destruct x, ph, transfer0, dragging0, (o_fixed o), prompt0; cbn -[osc_eq no_clip]; split; reflexivity.
    - cbn -[osc_eq no_clip]. split; reflexivity.
    - cbn -[osc_eq no_clip]. destruct zmodem0; split; reflexivity.
    - unfold add_drag. cbn -[osc_eq no_clip]. destruct (transfer0 || dragging0), drag_files0; split; reflexivity.
  Qed.

  Theorem run_osc : forall es o v1 v2 (a b : state), osc_eq a b ->
    osc_eq (fst (run (opts_but_osc52 o v1) a es)) (fst (run (opts_but_osc52 o v2) b es)) /\
    no_clip (snd (run (opts_but_osc52 o v1) a es)) = no_clip (snd (run (opts_but_osc52 o v2) b es)).
  Proof.
    induction es as [|e es IH]; intros o v1 v2 a b E; cbn [Filter.run].
    - cbn; auto.
    - pose proof (step_osc o v1 v2 a b e E) as (S1 & S2).
      destruct (step (opts_but_osc52 o v1) a e) as [a1 oa].
      destruct (step (opts_but_osc52 o v2) b e) as [b1 ob]. cbn [fst snd] in S1, S2.
      pose proof (IH o v1 v2 a1 b1 S1) as (R1 & R2).
      destruct (run (opts_but_osc52 o v1) a1 es) as [a2 oa2].
      destruct (run (opts_but_osc52 o v2) b1 es) as [b2 ob2]. cbn [fst snd] in *.
      split; auto. rewrite !no_clip_app, S2, R2. reflexivity.
  Qed.
End OscInert.

(* ------------------------------------------------------------------------------------ *)
(* drag.go on Linux: what "the chunk is ENTIRELY a list of existing paths" means           *)

Inductive tok := TQuoted (p : path) | TPlain (p : path).
Definition tok_path (t : tok) : path := match t with TQuoted p => p | TPlain p => p end.
Definition render (t : tok) : list N :=
  match t with
  | TQuoted p => drag_quote :: p ++ [drag_quote; drag_space]
  | TPlain p => p ++ [drag_space]
  end.

Lemma linux_never_holds : forall ex b, d_win (detect_drag_linux ex b) = false.
Proof. intros ex b. unfold detect_drag_linux. destruct (strip_paste b); reflexivity. Qed.

Lemma index_byte_spec : forall b l i, index_byte b l = Some i -> l = firstn i l ++ b :: skipn (S i) l.
Proof.
  intros b l. induction l as [|x l IH]; intros i H; cbn in H; [discriminate|].
  destruct (x =? b) eqn:E.
  - inversion H; subst. apply N.eqb_eq in E. subst. reflexivity.
  - destruct (index_byte b l) as [j|]; [|discriminate]. inversion H; subst.
    cbn [firstn skipn app]. f_equal. apply IH. reflexivity.
Qed.

Lemma nth_error_skipn : forall (l : list N) n c, nth_error l n = Some c -> skipn n l = c :: skipn (S n) l.
Proof.
  induction l as [|x l IH]; intros n c H; destruct n; cbn in *; try discriminate.
  - inversion H; reflexivity.
  - apply IH; auto.
Qed.

Lemma next_linux_path_sound : forall buf p i, next_linux_path buf = Some (p, i) ->
  exists t, tok_path t = p /\ buf = render t ++ skipn i buf.
Proof.
  intros buf p i H. unfold next_linux_path in H.
  destruct (length buf <? N.to_nat drag_min_len)%nat; [discriminate|].
  destruct buf as [|q [|s r]]; try discriminate.
  destruct ((q =? drag_quote) && (s =? drag_slash)) eqn:Eq.
  - apply andb_prop in Eq. destruct Eq as [Eq1 Eq2]. apply N.eqb_eq in Eq1. subst q.
    cbn [tl] in H.
    destruct (index_byte drag_quote (s :: r)) as [j|] eqn:Ej; [|discriminate].
    destruct (nth_error (drag_quote :: s :: r) (S (S j))) as [c|] eqn:En; [|discriminate].
    destruct (c =? drag_space) eqn:Ec; [|discriminate]. apply N.eqb_eq in Ec. subst c.
    inversion H; subst; clear H.
    exists (TQuoted (firstn j (s :: r))). split; [reflexivity|].
    pose proof (index_byte_spec _ _ _ Ej) as Hs.
    cbn [nth_error] in En. apply nth_error_skipn in En.
    replace (j + 3)%nat with (S (S (S j))) by lia.
    change (skipn (S (S (S j))) (drag_quote :: s :: r)) with (skipn (S j) r).
    cbn [render]. cbn [app]. f_equal.
    rewrite <- app_assoc. cbn [app].
    etransitivity; [exact Hs|]. f_equal. f_equal.
    change (skipn (S j) (s :: r)) with (skipn j r). exact En.
  - destruct (q =? drag_slash) eqn:Es; [|discriminate].
    destruct (index_byte drag_space (q :: s :: r)) as [j|] eqn:Ej; [|discriminate].
    inversion H; subst; clear H.
    exists (TPlain (firstn j (q :: s :: r))). split; [reflexivity|].
    cbn [render]. rewrite <- app_assoc. cbn [app]. apply index_byte_spec. exact Ej.
Qed.

Lemma linux_loop_sound : forall ex fuel rest acc hd fs hd',
  linux_loop ex fuel rest acc hd = Some (fs, hd') ->
  exists toks, rest = flat_map render toks /\ fs = rev acc ++ map tok_path toks /\
    Forall (fun p => ex p = Some KDir \/ ex p = Some KRegular) (map tok_path toks).
Proof.
  intros ex fuel. induction fuel as [|f IH]; intros rest acc hd fs hd' H; cbn in H; [discriminate|].
  destruct rest as [|x rest'].
  - inversion H; subst. exists []. cbn. rewrite app_nil_r. auto.
  - destruct (next_linux_path (x :: rest')) as [[p i]|] eqn:En; [|discriminate].
    destruct p as [|p0 p']; [discriminate|].
    destruct (file_path_ok ex (p0 :: p')) as [d|] eqn:Ef; [|discriminate].
    apply IH in H. destruct H as (toks & R & F & A).
    apply next_linux_path_sound in En. destruct En as (t & Tp & Tb).
    exists (t :: toks). cbn [flat_map map]. repeat split.
    + rewrite <- R. exact Tb.
    + rewrite F. cbn [rev]. rewrite <- app_assoc. rewrite Tp. reflexivity.
    + constructor; auto. rewrite Tp. unfold file_path_ok in Ef.
      destruct (ex (p0 :: p')) as [[| |]|]; try discriminate; auto.
Qed.

(* the detector fires only if the chunk (after removing bracketed-paste markers) is exactly a
   sequence of path tokens  /path<space>  or  '/path'<space>  and os.Stat says that every one of
   them is a directory or a regular file *)
Theorem linux_files_sound : forall ex buf fs hd,
  d_files (detect_drag_linux ex buf) = Some (fs, hd) ->
  exists b toks, strip_paste buf = Some b /\ b = flat_map render toks /\ map tok_path toks = fs /\
    Forall (fun p => ex p = Some KDir \/ ex p = Some KRegular) fs.
Proof.
  intros ex buf fs hd H. unfold detect_drag_linux in H.
  destruct (strip_paste buf) as [b|] eqn:Es; [|discriminate]. cbn [d_files] in H.
  unfold detect_drag_files_on_linux in H.
  destruct (length b <? N.to_nat drag_min_len)%nat; [discriminate|].
  destruct b as [|q [|s r]]; try discriminate.
  match type of H with (if ?c then _ else _) = _ => destruct c; [|discriminate] end.
  apply linux_loop_sound in H. destruct H as (toks & R & F & A).
  exists (q :: s :: r), toks. cbn [rev app] in F. subst fs. auto.
Qed.

(* input pump on Linux: chunk-exact, the hold-back branch is unreachable *)
Theorem in_transparent_linux :
  forall dstate trigger detect trig_prompts zmodem_detect zstate zm_init zm_handle zm_busy zm_stop
         msg_on msg_off is_stop_key o ex cs (s s' : state dstate zstate) ob,
  idle s = true ->
  all_quiet dstate trigger detect trig_prompts zmodem_detect zstate zm_init zm_handle zm_busy zm_stop
            (detect_drag_linux ex) msg_on msg_off is_stop_key o s (map EvIn cs) = true ->
  in_pump dstate trigger detect trig_prompts zmodem_detect zstate zm_init zm_handle zm_busy zm_stop
          (detect_drag_linux ex) msg_on msg_off is_stop_key o s cs = (s', ob) ->
  server_writes ob = cs /\ term_writes ob = [] /\ idle s' = true.
Proof.
  intros. eapply in_transparent_nohold_idle; eauto. apply linux_never_holds.
Qed.
