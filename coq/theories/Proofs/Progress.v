(* Proofs about Model/Progress.v (property C20). *)
From Coq Require Import ZArith Lia List Bool.
From Trzsz Require Import Base.Bytes Gen.Consts Model.Progress.
Import ListNotations.

(* ------------------------------------------------------------------------------------ *)
(* the literals whose MEANING the model hard-codes *)

(* "%.0f%%": the percentage is the rounded value in decimal followed by '%' (pct_text) *)
Lemma pct_fmt_src_ok : Consts.progress_pct_fmt = [37; 46; 48; 102; 37; 37]%N.
Proof. reflexivity. Qed.

(* every other format only uses %s %d %% (what fmt_subst implements) *)
Definition ladder_formats : list (list N) :=
  flat_map (fun s => match s with LRight f _ => [f] | _ => [] end) ladder.
Lemma formats_simple :
  forallb fmt_simple (Consts.progress_bar_fmt :: Consts.progress_multi_fmt :: Consts.progress_redraw_tmux_fmt ::
                      Consts.progress_redraw_cr_fmt :: ladder_formats) = true.
Proof. vm_compute. reflexivity. Qed.

Lemma ladder_no_bad : forallb (fun s => match s with LBad => false | _ => true end) ladder = true.
Proof. vm_compute. reflexivity. Qed.

(* the displayed position is clamped in the tree the proofs are about; on a tree without
   getDisplayStep this lemma fails and with it every theorem of Props/C20.v *)
Lemma clamp_src_ok : Consts.progress_clamped = true.
Proof. reflexivity. Qed.

Local Open Scope Z_scope.

Lemma consts_rel :
  Consts.progress_bar_min <= Consts.progress_bar_min_length - blen Consts.progress_left_sep /\
  2 <= Consts.progress_bar_brackets <= Consts.progress_bar_min /\
  0 <= blen Consts.progress_left_sep /\
  Z.of_nat (length Consts.progress_ellipsis_dots) <= Consts.progress_ellipsis_added /\
  ascii Consts.progress_ellipsis_dots = true /\
  ascii Consts.progress_left_sep = true /\
  Consts.progress_pct_scale = 100 /\
  ascii Consts.progress_pct_default = true /\ (length Consts.progress_pct_default <= 4)%nat.
Proof. vm_compute. repeat split; try discriminate; try reflexivity; repeat constructor. Qed.

(* the default shown for an empty file is the rendering of 100 *)
Lemma pct_default_src_ok : Consts.progress_pct_default = dec_Z 100 ++ [37%N].
Proof. reflexivity. Qed.

(* ------------------------------------------------------------------------------------ *)
(* strings *)

Lemma ascii_app a b : ascii (a ++ b) = ascii a && ascii b.
Proof. apply forallb_app. Qed.

Lemma fmt_subst_ascii_n : forall n f args, (length f <= n)%nat -> ascii f = true ->
  forallb ascii args = true -> ascii (fmt_subst f args) = true.
Proof.
  induction n as [|n IH]; intros f args Hlen Hf Ha.
  - destruct f; [reflexivity | cbn in Hlen; lia].
  - destruct f as [|c f']; [reflexivity|].
    cbn [ascii forallb] in Hf. apply andb_true_iff in Hf. destruct Hf as [Hc Hf'].
    cbn [fmt_subst]. destruct (c =? 37)%N.
    + destruct f' as [|d f'']; [reflexivity|].
      cbn [ascii forallb] in Hf'. apply andb_true_iff in Hf'. destruct Hf' as [Hd Hf''].
      cbn [length] in Hlen.
      destruct (d =? 37)%N.
      * cbn [ascii forallb]. rewrite IH; [reflexivity | lia | exact Hf'' | exact Ha].
      * destruct args as [|a args'].
        -- apply IH; [lia | exact Hf'' | reflexivity].
        -- cbn [forallb] in Ha. apply andb_true_iff in Ha. destruct Ha as [Ha1 Ha2].
           rewrite ascii_app, Ha1. apply IH; [lia | exact Hf'' | exact Ha2].
    + cbn [ascii forallb]. fold (ascii (fmt_subst f' args)). rewrite Hc.
      apply IH; [cbn [length] in Hlen; lia | exact Hf' | exact Ha].
Qed.

Lemma fmt_subst_ascii f args : ascii f = true -> forallb ascii args = true -> ascii (fmt_subst f args) = true.
Proof. apply (fmt_subst_ascii_n (length f)). lia. Qed.

Lemma blen_ascii s : ascii s = true -> blen s = Z.of_nat (length s).
Proof.
  induction s as [|r s IH]; intro H; [reflexivity|].
  cbn [ascii forallb] in H. apply andb_true_iff in H. destruct H as [Hr Hs].
  cbn [blen fold_right length]. fold (blen s). rewrite IH by exact Hs.
  unfold ascii_char in Hr. apply andb_true_iff in Hr. destruct Hr as [_ Hr].
  unfold rune_blen. apply N.ltb_lt in Hr.
  destruct (r <? 128)%N eqn:E; [lia|]. apply N.ltb_ge in E. lia.
Qed.

Lemma blen_nonneg s : 0 <= blen s.
Proof.
  induction s as [|r s IH]; cbn [blen fold_right]; [lia|]. fold (blen s).
  unfold rune_blen. destruct (r <? 128)%N, (r <? 2048)%N, (r <? 65536)%N; lia.
Qed.

(* decimal digits *)
Lemma dec_fuel_ascii : forall fuel n acc, ascii acc = true -> ascii (dec_fuel fuel n acc) = true.
Proof.
  induction fuel as [|f IH]; intros n acc Ha; [exact Ha|].
  cbn [dec_fuel].
  assert (Hd : ascii ((48 + n mod 10)%N :: acc) = true).
  { cbn [ascii forallb]. fold (ascii acc). rewrite Ha, andb_true_r.
    unfold ascii_char. pose proof (N.mod_upper_bound n 10 ltac:(discriminate)) as Hm.
    remember (n mod 10)%N as m eqn:Em. clear Em.
    apply andb_true_iff. split; [apply N.leb_le | apply N.ltb_lt]; lia. }
  destruct (n / 10 =? 0)%N; [exact Hd | apply IH; exact Hd].
Qed.

Lemma dec_Z_ascii z : ascii (dec_Z z) = true.
Proof.
  destruct z as [|p|p]; unfold dec_Z, dec_N.
  - apply dec_fuel_ascii; reflexivity.
  - apply dec_fuel_ascii; reflexivity.
  - change (ascii_char 45%N && ascii (dec_fuel (S (N.size_nat (N.pos p))) (N.pos p) []) = true).
    rewrite dec_fuel_ascii by reflexivity. reflexivity.
Qed.

(* 0..100 has at most three digits: finite sweep *)
Lemma dec_Z_len_100 z : 0 <= z <= 100 -> (length (dec_Z z) <= 3)%nat.
Proof.
  intros Hz.
  assert (H : forallb (fun n => Nat.leb (length (dec_Z (Z.of_nat n))) 3) (seq 0 101) = true) by (vm_compute; reflexivity).
  rewrite forallb_forall in H. specialize (H (Z.to_nat z)).
  rewrite Z2Nat.id in H by lia. apply Nat.leb_le. apply H. apply in_seq. lia.
Qed.

(* TrimSpace *)
Lemma trim_space_lead_space s : trim_space (32%N :: s) = trim_space s.
Proof. reflexivity. Qed.

(* ------------------------------------------------------------------------------------ *)
(* the exact-rational instance of the rounding function *)

Lemma div_round_exact k B : 0 <= k -> 0 < B -> (2 * (k * B) + B) / (2 * B) = k.
Proof. intros Hk HB. symmetry. apply (Z.div_unique _ _ k B); lia. Qed.

Lemma mdr_exact_nonneg k a b : 0 <= k * a -> 0 < b -> mdr_exact k a b = (2 * (k * a) + b) / (2 * b).
Proof.
  intros Hn Hb. unfold mdr_exact. cbv zeta.
  rewrite (Z.abs_eq b) by lia. rewrite (Z.abs_eq (k * a)) by lia.
  rewrite (Z.sgn_pos b) by lia.
  destruct (Z.eq_dec (k * a) 0) as [E|E].
  - rewrite E. rewrite Z.div_small by lia. reflexivity.
  - rewrite (Z.sgn_pos (k * a)) by lia. rewrite !Z.mul_1_l. reflexivity.
Qed.

Lemma mdr_exact_zero k b : b <> 0 -> mdr_exact k 0 b = 0.
Proof. intros _. unfold mdr_exact. rewrite Z.mul_0_r. reflexivity. Qed.

Lemma mdr_exact_full k b : 0 <= k -> b <> 0 -> mdr_exact k b b = k.
Proof.
  intros Hk Hb. destruct (Z_lt_le_dec 0 b) as [Hp|Hn].
  - rewrite mdr_exact_nonneg by nia. apply div_round_exact; lia.
  - assert (Hb' : b < 0) by lia. unfold mdr_exact. cbv zeta.
    destruct (Z.eq_dec k 0) as [E|E].
    + subst k. rewrite Z.mul_0_l. reflexivity.
    + rewrite (Z.sgn_neg b) by lia. rewrite (Z.sgn_neg (k * b)) by nia.
      rewrite (Z.abs_neq b) by lia. rewrite (Z.abs_neq (k * b)) by nia.
      replace (- (k * b)) with (k * - b) by lia.
      rewrite div_round_exact by lia. lia.
Qed.

Lemma mdr_exact_mono k a a' b : 0 <= k -> 0 < b -> 0 <= a <= a' -> mdr_exact k a b <= mdr_exact k a' b.
Proof.
  intros Hk Hb Ha. rewrite !mdr_exact_nonneg by nia.
  apply Z.div_le_mono; nia.
Qed.
