(* Proofs about Model/Progress.v (property C20). *)
From Coq Require Import ZArith Lia List Bool.
From Trzsz Require Import Base.Bytes Gen.Consts Model.Progress.
Import ListNotations.

(* ------------------------------------------------------------------------------------ *)
(* the literals whose MEANING the model hard-codes *)

(* "%.0f%%": the percentage is the rounded value in decimal followed by '%' (pct_text) *)
Lemma pct_fmt_src_ok : Consts.progress_pct_fmt = [37; 46; 48; 102; 37; 37]%N.
Proof. reflexivity. Qed.

(* every other format only uses %s %d %% (what fmt_subst implements) *)
Definition ladder_formats : list (list N) :=
  flat_map (fun s => match s with LRight f _ => [f] | _ => [] end) ladder.
Lemma formats_simple :
  forallb fmt_simple (Consts.progress_bar_fmt :: Consts.progress_multi_fmt :: Consts.progress_redraw_tmux_fmt ::
                      Consts.progress_redraw_cr_fmt :: ladder_formats) = true.
Proof. vm_compute. reflexivity. Qed.

Lemma ladder_no_bad : forallb (fun s => match s with LBad => false | _ => true end) ladder = true.
Proof. vm_compute. reflexivity. Qed.

(* the displayed position is clamped in the tree the proofs are about; on a tree without
   getDisplayStep this lemma fails and with it every theorem of Props/C20.v *)
Lemma clamp_src_ok : Consts.progress_clamped = true.
Proof. reflexivity. Qed.

Local Open Scope Z_scope.

Lemma consts_rel :
  blen Consts.progress_left_sep <= Consts.progress_bar_min_length /\
  2 <= Consts.progress_bar_brackets <= Consts.progress_bar_min /\
  0 <= blen Consts.progress_left_sep /\
  Z.of_nat (length Consts.progress_ellipsis_dots) <= Consts.progress_ellipsis_added /\
  ascii Consts.progress_ellipsis_dots = true /\
  ascii Consts.progress_left_sep = true /\
  Consts.progress_pct_scale = 100 /\
  ascii Consts.progress_pct_default = true /\ (length Consts.progress_pct_default <= 4)%nat.
Proof. vm_compute. repeat split; try discriminate; try reflexivity; repeat constructor. Qed.

(* the default shown for an empty file is the rendering of 100 *)
Lemma pct_default_src_ok : Consts.progress_pct_default = dec_Z 100 ++ [37%N].
Proof. reflexivity. Qed.

(* ------------------------------------------------------------------------------------ *)
(* strings *)

Lemma ascii_app a b : ascii (a ++ b) = ascii a && ascii b.
Proof. apply forallb_app. Qed.

Lemma fmt_subst_ascii_n : forall n f args, (length f <= n)%nat -> ascii f = true ->
  forallb ascii args = true -> ascii (fmt_subst f args) = true.
Proof.
  induction n as [|n IH]; intros f args Hlen Hf Ha.
  - destruct f; [reflexivity | cbn in Hlen; lia].
  - destruct f as [|c f']; [reflexivity|].
    cbn [ascii forallb] in Hf. apply andb_true_iff in Hf. destruct Hf as [Hc Hf'].
    cbn [fmt_subst]. destruct (c =? 37)%N.
    + destruct f' as [|d f'']; [reflexivity|].
      cbn [ascii forallb] in Hf'. apply andb_true_iff in Hf'. destruct Hf' as [Hd Hf''].
      cbn [length] in Hlen.
      destruct (d =? 37)%N.
      * cbn [ascii forallb]. rewrite IH; [reflexivity | lia | exact Hf'' | exact Ha].
      * destruct args as [|a args'].
        -- apply IH; [lia | exact Hf'' | reflexivity].
        -- cbn [forallb] in Ha. apply andb_true_iff in Ha. destruct Ha as [Ha1 Ha2].
           rewrite ascii_app, Ha1. apply IH; [lia | exact Hf'' | exact Ha2].
    + cbn [ascii forallb]. fold (ascii (fmt_subst f' args)). rewrite Hc.
      apply IH; [cbn [length] in Hlen; lia | exact Hf' | exact Ha].
Qed.

Lemma fmt_subst_ascii f args : ascii f = true -> forallb ascii args = true -> ascii (fmt_subst f args) = true.
Proof. apply (fmt_subst_ascii_n (length f)). lia. Qed.

Lemma blen_ascii s : ascii s = true -> blen s = Z.of_nat (length s).
Proof.
  induction s as [|r s IH]; intro H; [reflexivity|].
  cbn [ascii forallb] in H. apply andb_true_iff in H. destruct H as [Hr Hs].
  cbn [blen fold_right length]. fold (blen s). rewrite IH by exact Hs.
  unfold ascii_char in Hr. apply andb_true_iff in Hr. destruct Hr as [_ Hr].
  unfold rune_blen. apply N.ltb_lt in Hr.
  destruct (r <? 128)%N eqn:E; [lia|]. apply N.ltb_ge in E. lia.
Qed.

Lemma blen_nonneg s : 0 <= blen s.
Proof.
  induction s as [|r s IH]; cbn [blen fold_right]; [lia|]. fold (blen s).
  unfold rune_blen. destruct (r <? 128)%N, (r <? 2048)%N, (r <? 65536)%N; lia.
Qed.

(* decimal digits *)
Lemma dec_fuel_ascii : forall fuel n acc, ascii acc = true -> ascii (dec_fuel fuel n acc) = true.
Proof.
  induction fuel as [|f IH]; intros n acc Ha; [exact Ha|].
  cbn [dec_fuel].
  assert (Hd : ascii ((48 + n mod 10)%N :: acc) = true).
  { cbn [ascii forallb]. fold (ascii acc). rewrite Ha, andb_true_r.
    unfold ascii_char. pose proof (N.mod_upper_bound n 10 ltac:(discriminate)) as Hm.
    remember (n mod 10)%N as m eqn:Em. clear Em.
    apply andb_true_iff. split; [apply N.leb_le | apply N.ltb_lt]; lia. }
  destruct (n / 10 =? 0)%N; [exact Hd | apply IH; exact Hd].
Qed.

Lemma dec_Z_ascii z : ascii (dec_Z z) = true.
Proof.
  destruct z as [|p|p]; unfold dec_Z, dec_N.
  - apply dec_fuel_ascii; reflexivity.
  - apply dec_fuel_ascii; reflexivity.
  - change (ascii_char 45%N && ascii (dec_fuel (S (N.size_nat (N.pos p))) (N.pos p) []) = true).
    rewrite dec_fuel_ascii by reflexivity. reflexivity.
Qed.

(* 0..100 has at most three digits: finite sweep *)
Lemma dec_Z_len_100 z : 0 <= z <= 100 -> (length (dec_Z z) <= 3)%nat.
Proof.
  intros Hz.
  assert (H : forallb (fun n => Nat.leb (length (dec_Z (Z.of_nat n))) 3) (seq 0 101) = true) by (vm_compute; reflexivity).
  rewrite forallb_forall in H. specialize (H (Z.to_nat z)).
  rewrite Z2Nat.id in H by lia. apply Nat.leb_le. apply H. apply in_seq. lia.
Qed.

(* TrimSpace *)
Lemma trim_space_lead_space s : trim_space (32%N :: s) = trim_space s.
Proof. reflexivity. Qed.

(* ------------------------------------------------------------------------------------ *)
(* the exact-rational instance of the rounding function *)

Lemma div_round_exact k B : 0 <= k -> 0 < B -> (2 * (k * B) + B) / (2 * B) = k.
Proof. intros Hk HB. symmetry. apply (Z.div_unique _ _ k B); lia. Qed.

Lemma mdr_exact_nonneg k a b : 0 <= k * a -> 0 < b -> mdr_exact k a b = (2 * (k * a) + b) / (2 * b).
Proof.
  intros Hn Hb. unfold mdr_exact. cbv zeta.
  rewrite (Z.abs_eq b) by lia. rewrite (Z.abs_eq (k * a)) by lia.
  rewrite (Z.sgn_pos b) by lia.
  destruct (Z.eq_dec (k * a) 0) as [E|E].
  - rewrite E. rewrite Z.div_small by lia. reflexivity.
  - rewrite (Z.sgn_pos (k * a)) by lia. rewrite !Z.mul_1_l. reflexivity.
Qed.

Lemma mdr_exact_zero k b : b <> 0 -> mdr_exact k 0 b = 0.
Proof. intros _. unfold mdr_exact. rewrite Z.mul_0_r. reflexivity. Qed.

Lemma mdr_exact_full k b : 0 <= k -> b <> 0 -> mdr_exact k b b = k.
Proof.
  intros Hk Hb. destruct (Z_lt_le_dec 0 b) as [Hp|Hn].
  - rewrite mdr_exact_nonneg by nia. apply div_round_exact; lia.
  - assert (Hb' : b < 0) by lia. unfold mdr_exact. cbv zeta.
    destruct (Z.eq_dec k 0) as [E|E].
    + subst k. rewrite Z.mul_0_l. reflexivity.
    + rewrite (Z.sgn_neg b) by lia. rewrite (Z.sgn_neg (k * b)) by nia.
      rewrite (Z.abs_neq b) by lia. rewrite (Z.abs_neq (k * b)) by nia.
      replace (- (k * b)) with (k * - b) by lia.
      rewrite div_round_exact by lia. lia.
Qed.

Lemma mdr_exact_mono k a a' b : 0 <= k -> 0 < b -> 0 <= a <= a' -> mdr_exact k a b <= mdr_exact k a' b.
Proof.
  intros Hk Hb Ha. rewrite !mdr_exact_nonneg by nia.
  apply Z.div_le_mono; nia.
Qed.

(* ------------------------------------------------------------------------------------ *)
(* facts about the state machine that need no assumption on the external functions *)
Section Plain.
Variable w : rune -> nat.
Variable sw : str -> nat.
Variable mdr : Z -> Z -> Z -> Z.

Lemma show_keeps clamped st now t s e :
  p_step (fst (show w sw mdr clamped st now t s e)) = p_step st /\
  p_size (fst (show w sw mdr clamped st now t s e)) = p_size st.
Proof.
  unfold show. destruct (throttled st now); [split; reflexivity|]. cbv zeta.
  destruct (progress_text_gen _ _ _ _ _ _ _ _ _ _ _ _ _ _); cbn [fst set_shown p_step p_size]; split; reflexivity.
Qed.

Lemma on_step_never_lowers clamped st z now t s e :
  p_step st <= p_step (fst (apply_op w sw mdr clamped (OpStep z now t s e) st)) /\
  p_size (fst (apply_op w sw mdr clamped (OpStep z now t s e) st)) = p_size st.
Proof.
  cbn [apply_op]. destruct (wrap64 (z + p_pre st) <=? p_step st) eqn:E; [cbn [fst]; split; [lia | reflexivity]|].
  apply Z.leb_gt in E. destruct (p_pausing st); [cbn [fst set_step p_step p_size]; split; [lia | reflexivity]|].
  destruct (show_keeps clamped (set_step st (wrap64 (z + p_pre st))) now t s e) as [A B].
  rewrite A, B. cbn [set_step p_step p_size]. split; [lia | reflexivity].
Qed.

Lemma show_keeps_cols clamped st now t s e :
  p_cols (fst (show w sw mdr clamped st now t s e)) = p_cols st.
Proof.
  unfold show. destruct (throttled st now); [reflexivity|]. cbv zeta.
  destruct (progress_text_gen _ _ _ _ _ _ _ _ _ _ _ _ _ _); reflexivity.
Qed.

(* only setTerminalColumns changes the width a bar lays its lines out for *)
Lemma apply_op_cols clamped o st :
  p_cols (fst (apply_op w sw mdr clamped o st)) = match o with OpCols c => c | _ => p_cols st end.
Proof.
  destruct o as [n|nm|z|z now t s e|now t s e|z|b|c]; cbn [apply_op]; try reflexivity.
  - destruct (wrap64 (z + p_pre st) <=? p_step st); [reflexivity|].
    destruct (p_pausing st); [reflexivity|]. rewrite show_keeps_cols. reflexivity.
  - destruct (p_size st =? 0); [reflexivity|]. rewrite show_keeps_cols. reflexivity.
Qed.

(* ---- files: the figures of a line are the current file's own ---- *)
Lemma figs_show clamped st now t s e : figs (fst (show w sw mdr clamped st now t s e)) = figs st.
Proof.
  unfold show, figs. destruct (throttled st now); [reflexivity|]. cbv zeta.
  destruct (progress_text_gen _ _ _ _ _ _ _ _ _ _ _ _ _ _); reflexivity.
Qed.

Lemma figs_apply_op clamped o st : figs (fst (apply_op w sw mdr clamped o st)) = figs_next o (figs st).
Proof.
  destruct o as [n|nm|z|z now t s e|now t s e|z|b|c]; cbn [apply_op]; unfold figs_next; cbv zeta;
    try (unfold figs; reflexivity).
  - unfold figs at 2. cbv beta iota.
    destruct (wrap64 (z + p_pre st) <=? p_step st); [reflexivity|].
    destruct (p_pausing st); [reflexivity|]. rewrite figs_show. reflexivity.
  - unfold figs at 2. cbv beta iota.
    destruct (p_size st =? 0); [reflexivity|]. rewrite figs_show. reflexivity.
Qed.

Lemma figs_run clamped : forall ops st,
  figs (fst (run w sw mdr clamped ops st)) = fold_left (fun f o => figs_next o f) ops (figs st).
Proof.
  induction ops as [|o r IH]; intro st; [reflexivity|]. cbn [run fold_left].
  pose proof (figs_apply_op clamped o st) as H.
  destruct (apply_op w sw mdr clamped o st) as [st1 out]. cbn [fst] in H.
  specialize (IH st1). destruct (run w sw mdr clamped r st1) as [st2 outs]. cbn [fst] in *.
  rewrite IH, H. reflexivity.
Qed.

(* once a file has been announced (name, size) nothing of what came before is left in the
   figures: whatever the earlier files of the transfer did *)
Lemma file_figs_own clamped st1 st2 nm z rest :
  figs (fst (run w sw mdr clamped (OpName nm :: OpSize z :: rest) st1)) =
  figs (fst (run w sw mdr clamped (OpName nm :: OpSize z :: rest) st2)).
Proof.
  rewrite !figs_run. cbn [fold_left]. unfold figs.
  cbn [figs_next]. reflexivity.
Qed.

Lemma wrap64_id z : - 2 ^ 63 <= z < 2 ^ 63 -> wrap64 z = z.
Proof. intro H. unfold wrap64. rewrite Z.mod_small by lia. lia. Qed.

Lemma initial_step_negative : Consts.progress_initial_step < 0.
Proof. reflexivity. Qed.

Lemma figs_steps_keep : forall l pre size step, exists step',
  fold_left (fun f o => figs_next o f) (map mk_step l) (pre, size, step) = (pre, size, step').
Proof.
  induction l as [|[[z now] [[t s] e]] l IH]; intros pre size step; [exists step; reflexivity|].
  cbn [map fold_left mk_step figs_next].
  destruct (wrap64 (z + pre) <=? step); apply IH.
Qed.

(* a file that is sent from its beginning starts at position 0 of its own size *)
Lemma file_start_figs clamped st nm z now t s e : 0 < z < 2 ^ 63 ->
  figs (fst (run w sw mdr clamped [OpName nm; OpSize z; OpStep 0 now t s e] st)) = (0, z, 0).
Proof.
  intro Hz. rewrite figs_run. unfold figs. cbn [fold_left figs_next].
  rewrite Z.add_0_l, Z.add_0_l, !wrap64_id by lia.
  pose proof initial_step_negative.
  destruct (0 <=? Consts.progress_initial_step) eqn:E; [apply Z.leb_le in E; lia | reflexivity].
Qed.

(* a file ends at its own full size, resumed or not, whatever was matched and sent *)
Lemma file_end_figs clamped st nm full resume steps done : 0 < full < 2 ^ 63 ->
  (forall hs m, resume = Some (hs, m) -> 0 <= m <= full) ->
  exists pre, figs (fst (run w sw mdr clamped (file_ops nm full resume steps done) st)) = (pre, full, full).
Proof.
  intros Hf Hm. rewrite figs_run. unfold file_ops, figs. cbn [fold_left figs_next].
  destruct resume as [[hs m]|].
  - specialize (Hm hs m eq_refl).
    cbn [app fold_left figs_next]. rewrite Z.add_0_l, wrap64_id by lia.
    rewrite <- app_assoc, fold_left_app.
    destruct (figs_steps_keep hs 0 full Consts.progress_initial_step) as [s1 E1]. rewrite E1.
    cbn [app fold_left figs_next]. replace (m + (full - m)) with full by lia. rewrite wrap64_id by lia.
    rewrite fold_left_app.
    destruct (figs_steps_keep steps m full s1) as [s2 E2]. rewrite E2.
    destruct done as [[z now] [[t s] e]]. cbn [fold_left mk_done figs_next].
    exists m. destruct (full =? 0) eqn:E; [apply Z.eqb_eq in E; lia | reflexivity].
  - cbn [app fold_left figs_next]. rewrite Z.add_0_l, wrap64_id by lia.
    rewrite fold_left_app.
    destruct (figs_steps_keep steps 0 full Consts.progress_initial_step) as [s2 E2]. rewrite E2.
    destruct done as [[z now] [[t s] e]]. cbn [fold_left mk_done figs_next].
    exists 0. destruct (full =? 0) eqn:E; [apply Z.eqb_eq in E; lia | reflexivity].
Qed.

End Plain.

(* ------------------------------------------------------------------------------------ *)
(* the layout.  External functions and what is assumed about them:
     w, sw : runewidth.RuneWidth / StringWidth (what the code measures with)
     dw    : the number of columns the terminal advances when the string is printed
     mdr   : int(math.Round(float64(k)*float64(a)/float64(b))) in binary64, for 0 <= k <= kmax *)
Section Widths.
Variable w : rune -> nat.
Variable sw : str -> nat.
Variable dw : str -> nat.
Variable mdr : Z -> Z -> Z -> Z.
Variable kmax : Z.

Definition wsum (s : str) : nat := fold_right (fun r a => (w r + a)%nat) 0%nat s.

(* printing two strings one after the other advances at most the sum (grapheme clusters
   may merge across the seam, never split) *)
Hypothesis Hdw_app : forall a b, (dw (a ++ b) <= dw a + dw b)%nat.
(* the terminal shows a string no wider than the library says: neither than StringWidth
   nor than the sum of the RuneWidths (StringWidth counts one width per cluster) *)
Hypothesis Hdw_sw : forall s, (dw s <= sw s)%nat.
Hypothesis Hdw_sum : forall s, (dw s <= wsum s)%nat.
(* removing leading/trailing white space does not widen a string *)
Hypothesis Hdw_trim : forall s, (dw (trim_space s) <= dw s)%nat.
(* printable ASCII and the two bar cells are at most one column wide *)
Hypothesis Hw_ascii : forall r, ascii_char r = true -> (w r <= 1)%nat.
Hypothesis Hw_full : (w Consts.progress_bar_full_rune <= 1)%nat.
Hypothesis Hw_empty : (w Consts.progress_bar_empty_rune <= 1)%nat.
(* the literal text around the cells, "[" + colour-on and colour-off + "]", is one column
   each: the colour sequences are zero-width for the terminal *)
Hypothesis Hdw_bar_head : (dw (fmt_head Consts.progress_bar_fmt) <= 1)%nat.
Hypothesis Hdw_bar_tail : (dw (fmt_tail Consts.progress_bar_fmt) <= 1)%nat.
(* binary64: 0*k/b rounds to 0, b*k/b rounds to k, and rounding is monotone *)
Hypothesis Hmdr_zero : forall k b, 0 <= k <= kmax -> b <> 0 -> mdr k 0 b = 0.
Hypothesis Hmdr_full : forall k b, 0 <= k <= kmax -> b <> 0 -> mdr k b b = k.
Hypothesis Hmdr_mono : forall k a a' b, 0 <= k <= kmax -> 0 < b -> 0 <= a <= a' -> a' <= b ->
  mdr k a b <= mdr k a' b.

Lemma wsum_app a b : wsum (a ++ b) = (wsum a + wsum b)%nat.
Proof. induction a as [|r a IH]; cbn [wsum fold_right app]; [reflexivity|]. fold (wsum (a ++ b)) (wsum a). lia. Qed.

Lemma wsum_ascii s : ascii s = true -> (wsum s <= length s)%nat.
Proof.
  induction s as [|r s IH]; intro H; [cbn; lia|].
  cbn [ascii forallb] in H. apply andb_true_iff in H. destruct H as [Hr Hs].
  cbn [wsum fold_right length]. fold (wsum s). specialize (IH Hs). pose proof (Hw_ascii r Hr). lia.
Qed.

Lemma dw_ascii s : ascii s = true -> (dw s <= length s)%nat.
Proof. intro H. pose proof (Hdw_sum s). pose proof (wsum_ascii s H). lia. Qed.

Lemma dw_nil : dw [] = 0%nat.
Proof. pose proof (Hdw_sum []) as H. cbn in H. lia. Qed.

Lemma wsum_repeat r n : (w r <= 1)%nat -> (wsum (repeat r n) <= n)%nat.
Proof. intro H. induction n as [|n IH]; cbn [repeat wsum fold_right]; [lia|]. fold (wsum (repeat r n)). lia. Qed.

Lemma dw_app3 a b c : (dw (a ++ b ++ c) <= dw a + dw b + dw c)%nat.
Proof. pose proof (Hdw_app a (b ++ c)). pose proof (Hdw_app b c). lia. Qed.

(* ---- getEllipsisString ---- *)
Lemma ell_loop_spec : forall s max len, exists p,
  fst (ell_loop w s max len) = p ++ Consts.progress_ellipsis_dots /\
  snd (ell_loop w s max len) = len + Z.of_nat (wsum p) + Consts.progress_ellipsis_added.
Proof.
  induction s as [|r s IH]; intros max len.
  - exists []. cbn [ell_loop fst snd app wsum fold_right]. split; [reflexivity | lia].
  - cbn [ell_loop]. destruct (max <? len + Z.of_nat (w r)).
    + exists []. cbn [fst snd app wsum fold_right]. split; [reflexivity | lia].
    + destruct (IH max (len + Z.of_nat (w r))) as [p [Hp Hl]].
      destruct (ell_loop w s max (len + Z.of_nat (w r))) as [t l]. cbn [fst snd] in *.
      exists (r :: p). subst t l. cbn [app wsum fold_right]. fold (wsum p). split; [reflexivity | lia].
Qed.

(* the length getEllipsisString reports is never below what the terminal shows *)
Lemma ellipsis_dw s max :
  Z.of_nat (dw (fst (ellipsis w s max))) <= snd (ellipsis w s max) /\ 0 <= snd (ellipsis w s max).
Proof.
  unfold ellipsis. destruct (ell_loop_spec s (max - Consts.progress_ellipsis_reserve) 0) as [p [Hp Hl]].
  rewrite Hp, Hl. destruct consts_rel as (_ & _ & _ & Hdots & Hda & _).
  pose proof (Hdw_app p Consts.progress_ellipsis_dots). pose proof (Hdw_sum p).
  pose proof (dw_ascii _ Hda). lia.
Qed.

(* the reported length never exceeds the maximum asked for (given room for the dots) *)
Lemma ell_loop_bound : forall s max len, len <= max -> snd (ell_loop w s max len) <= max + Consts.progress_ellipsis_added.
Proof.
  induction s as [|r s IH]; intros max len Hl; cbn [ell_loop].
  - cbn [snd]. lia.
  - destruct (max <? len + Z.of_nat (w r)) eqn:E.
    + cbn [snd]. lia.
    + apply Z.ltb_ge in E. specialize (IH max (len + Z.of_nat (w r)) E).
      destruct (ell_loop w s max (len + Z.of_nat (w r))) as [t l]. exact IH.
Qed.

(* ---- the ladder ---- *)
Definition Inv (st : lay) : Prop :=
  Z.of_nat (dw (l_left st)) <= l_len st /\ 0 <= l_len st /\ ascii (l_right st) = true.

Definition step_ok (s : lstep) : bool := match s with LRight f _ => ascii f | _ => true end.

Lemma field_ascii fields i : forallb ascii fields = true -> ascii (field fields i) = true.
Proof.
  intro H. unfold field. destruct (nth_in_or_default (N.to_nat i) fields []) as [Hin|Hd].
  - rewrite forallb_forall in H. apply H. exact Hin.
  - rewrite Hd. reflexivity.
Qed.

Lemma apply_step_inv fields s st : forallb ascii fields = true -> step_ok s = true ->
  Inv st -> Inv (apply_step w fields s st).
Proof.
  intros Hf Hs [H1 [H2 H3]]. destruct s as [|thr max|f args| |]; cbn [apply_step]; try (split; [|split]; assumption).
  - unfold Inv. cbn [l_left l_len l_right]. destruct (thr <? l_len st).
    + destruct (ellipsis_dw (l_left st) max) as [Ha Hb]. split; [exact Ha | split; [exact Hb | exact H3]].
    + split; [exact H1 | split; [exact H2 | exact H3]].
  - unfold Inv. cbn [l_left l_len l_right]. split; [exact H1 | split; [exact H2|]].
    apply fmt_subst_ascii; [exact Hs|].
    apply forallb_forall. intros x Hx. apply in_map_iff in Hx. destruct Hx as [i [Hi _]]. subst x.
    apply field_ascii. exact Hf.
  - unfold Inv. cbn [l_left l_len l_right]. rewrite dw_nil. split; [lia | split; [lia | exact H3]].
Qed.

Lemma run_ladder_inv cols fields : forallb ascii fields = true -> forall steps st,
  forallb step_ok steps = true -> Inv st -> Inv (run_ladder w cols fields steps st).
Proof.
  intros Hf. induction steps as [|s r IH]; intros st Hs Hi; [exact Hi|].
  cbn [forallb] in Hs. apply andb_true_iff in Hs. destruct Hs as [Hs Hr].
  destruct s; cbn [run_ladder].
  - destruct (fits cols st); [exact Hi | apply IH; assumption].
  - apply IH; [exact Hr | apply apply_step_inv; assumption].
  - apply IH; [exact Hr | apply apply_step_inv; assumption].
  - apply IH; [exact Hr | apply apply_step_inv; assumption].
  - exact Hi.
Qed.

(* the ladder without its width checks *)
Fixpoint run_nocheck (fields : list str) (steps : list lstep) (st : lay) : lay :=
  match steps with
  | [] => st
  | LCheck :: r => run_nocheck fields r st
  | LBad :: _ => st
  | s :: r => run_nocheck fields r (apply_step w fields s st)
  end.

Lemma run_ladder_exit cols fields : forall steps st,
  fits cols (run_ladder w cols fields steps st) = true \/
  run_ladder w cols fields steps st = run_nocheck fields steps st.
Proof.
  induction steps as [|s r IH]; intros st; [right; reflexivity|].
  destruct s; cbn [run_ladder run_nocheck]; try apply IH.
  - destruct (fits cols st) eqn:E; [left; exact E | apply IH].
  - right; reflexivity.
Qed.

(* when no check succeeds the generated ladder ends with the name dropped and only the
   percentage to the right *)
Lemma ladder_end pct total speed eta st :
  l_left (run_nocheck [pct; total; speed; eta] ladder st) = [] /\
  l_len (run_nocheck [pct; total; speed; eta] ladder st) = 0 /\
  l_right (run_nocheck [pct; total; speed; eta] ladder st) = 32%N :: pct.
Proof.
  remember ladder as L eqn:HL. vm_compute in HL. subst L.
  cbn [run_nocheck apply_step l_left l_len l_right].
  split; [reflexivity | split; [reflexivity|]].
  cbn. rewrite app_nil_r. reflexivity.
Qed.

Lemma ladder_steps_ok : forallb step_ok ladder = true.
Proof. vm_compute. reflexivity. Qed.

(* ---- getProgressBar ---- *)
Lemma bar_fmt_shape a b :
  fmt_subst Consts.progress_bar_fmt [a; b] =
  fmt_head Consts.progress_bar_fmt ++ a ++ b ++ fmt_tail Consts.progress_bar_fmt.
Proof. reflexivity. Qed.

Lemma display_step_range fstep fsize : 0 < fsize -> 0 <= display_step true fstep fsize <= fsize.
Proof.
  intro H. unfold display_step.
  destruct (fstep <? 0) eqn:E1; [|apply Z.ltb_ge in E1].
  - destruct (fsize <? 0) eqn:E2; [apply Z.ltb_lt in E2 | apply Z.ltb_ge in E2]; lia.
  - destruct (fsize <? fstep) eqn:E2; [apply Z.ltb_lt in E2 | apply Z.ltb_ge in E2]; lia.
Qed.

Lemma display_step_neg fstep fsize : fsize < 0 -> display_step true fstep fsize = fsize.
Proof.
  intro H. unfold display_step.
  destruct (fstep <? 0) eqn:E1; [|apply Z.ltb_ge in E1].
  - destruct (fsize <? 0) eqn:E2; [reflexivity | apply Z.ltb_ge in E2; lia].
  - destruct (fsize <? fstep) eqn:E2; [reflexivity | apply Z.ltb_ge in E2; lia].
Qed.

Lemma display_step_mono s s' fsize : s <= s' -> display_step true s fsize <= display_step true s' fsize.
Proof.
  intro H. unfold display_step.
  destruct (s <? 0) eqn:E1; [apply Z.ltb_lt in E1 | apply Z.ltb_ge in E1];
  destruct (s' <? 0) eqn:E2; [apply Z.ltb_lt in E2 | apply Z.ltb_ge in E2 | apply Z.ltb_lt in E2 | apply Z.ltb_ge in E2];
  repeat match goal with |- context [?a <? ?b] => let E := fresh "E" in destruct (a <? b) eqn:E; [apply Z.ltb_lt in E | apply Z.ltb_ge in E] end; lia.
Qed.

(* the rounded share of k cells (or of 100 percent) always lies within 0..k *)
Lemma share_range k fstep fsize : 0 <= k <= kmax -> fsize <> 0 ->
  0 <= mdr k (display_step true fstep fsize) fsize <= k.
Proof.
  intros Hk Hs. destruct (Z_lt_le_dec 0 fsize) as [Hp|Hn].
  - pose proof (display_step_range fstep fsize Hp) as Hd.
    pose proof (Hmdr_mono k 0 (display_step true fstep fsize) fsize Hk Hp ltac:(lia) ltac:(lia)) as H1.
    pose proof (Hmdr_mono k (display_step true fstep fsize) fsize fsize Hk Hp ltac:(lia) ltac:(lia)) as H2.
    rewrite Hmdr_zero in H1 by assumption. rewrite Hmdr_full in H2 by assumption. lia.
  - rewrite display_step_neg by lia. rewrite Hmdr_full by assumption. lia.
Qed.

Lemma repeat_rune_some r n : 0 <= n -> repeat_rune r n = Some (repeat r (Z.to_nat n)).
Proof. intro H. unfold repeat_rune. destruct (n <? 0) eqn:E; [apply Z.ltb_lt in E; lia | reflexivity]. Qed.

(* C20_total at the level of the bar: never a negative repeat count; and the bar is exactly
   as wide as asked for (or absent) *)
Lemma bar_ok fstep fsize length : length - Consts.progress_bar_brackets <= kmax ->
  exists s, progress_bar_gen mdr true fstep fsize length = BOk s /\
    (length < Consts.progress_bar_min -> s = []) /\
    (Consts.progress_bar_min <= length -> Z.of_nat (dw s) <= length).
Proof.
  intro Hk. unfold progress_bar_gen. destruct consts_rel as (_ & [Hb2 Hbm] & _).
  destruct (length <? Consts.progress_bar_min) eqn:E; [apply Z.ltb_lt in E | apply Z.ltb_ge in E].
  - exists []. split; [reflexivity | split; [reflexivity | lia]].
  - cbv zeta. set (total := length - Consts.progress_bar_brackets).
    set (full := if fsize =? 0 then total else mdr total (display_step true fstep fsize) fsize).
    assert (Hfull : 0 <= full <= total).
    { unfold full. destruct (fsize =? 0) eqn:Ez; [unfold total; lia|]. apply Z.eqb_neq in Ez.
      apply share_range; [unfold total; lia | exact Ez]. }
    rewrite (repeat_rune_some _ full) by lia. rewrite (repeat_rune_some _ (total - full)) by lia.
    eexists. split; [reflexivity|]. split; [lia|]. intros _.
    rewrite bar_fmt_shape.
    pose proof (Hdw_app (fmt_head Consts.progress_bar_fmt)
      (repeat Consts.progress_bar_full_rune (Z.to_nat full) ++ repeat Consts.progress_bar_empty_rune (Z.to_nat (total - full)) ++ fmt_tail Consts.progress_bar_fmt)) as A1.
    pose proof (dw_app3 (repeat Consts.progress_bar_full_rune (Z.to_nat full))
      (repeat Consts.progress_bar_empty_rune (Z.to_nat (total - full))) (fmt_tail Consts.progress_bar_fmt)) as A2.
    pose proof (Hdw_sum (repeat Consts.progress_bar_full_rune (Z.to_nat full))) as A3.
    pose proof (Hdw_sum (repeat Consts.progress_bar_empty_rune (Z.to_nat (total - full)))) as A4.
    pose proof (wsum_repeat _ (Z.to_nat full) Hw_full) as A5.
    pose proof (wsum_repeat _ (Z.to_nat (total - full)) Hw_empty) as A6.
    unfold total in *. lia.
Qed.

(* ---- getProgressText ---- *)
Lemma layout_inv cols count idx name pct total speed eta :
  ascii pct = true -> ascii total = true -> ascii speed = true -> ascii eta = true ->
  Inv (layout w sw cols count idx name pct total speed eta).
Proof.
  intros Hp Ht Hs He. unfold layout. apply run_ladder_inv.
  - cbn [forallb]. rewrite Hp, Ht, Hs, He. reflexivity.
  - exact ladder_steps_ok.
  - unfold Inv. cbn [l_left l_len l_right]. pose proof (Hdw_sw (left_text count idx name)). split; [lia | split; [lia | reflexivity]].
Qed.

Lemma layout_cases cols count idx name pct total speed eta :
  fits cols (layout w sw cols count idx name pct total speed eta) = true \/
  (l_left (layout w sw cols count idx name pct total speed eta) = [] /\
   l_len (layout w sw cols count idx name pct total speed eta) = 0 /\
   l_right (layout w sw cols count idx name pct total speed eta) = 32%N :: pct).
Proof.
  unfold layout.
  destruct (run_ladder_exit cols [pct; total; speed; eta] ladder
    {| l_left := left_text count idx name; l_len := Z.of_nat (sw (left_text count idx name)); l_right := [] |}) as [H|H].
  - left. exact H.
  - right. rewrite H. apply ladder_end.
Qed.

(* assembling the line from any layout that satisfies the invariant and either passed a
   width check or is the ladder's last resort *)
Lemma assemble_ok (l : lay) cols fstep fsize pct :
  Inv l -> ascii pct = true ->
  (fits cols l = true \/ (l_left l = [] /\ l_len l = 0 /\ l_right l = 32%N :: pct)) ->
  cols <= kmax ->
  exists s,
    match progress_bar_gen mdr true fstep fsize (bar_length cols l) with
    | BPanic => TPanic
    | BOk bar => TOk (trim_space ((if 0 <? l_len l then l_left l ++ Consts.progress_left_sep else l_left l) ++ bar ++ l_right l))
    end = TOk s /\
    Z.of_nat (dw s) <= Z.max cols (Z.of_nat (length pct)).
Proof.
  intros [HI1 [HI2 HI3]] Hp Hexit Hk.
  destruct consts_rel as (Hc1 & [Hc2 Hc3] & Hc4 & _ & _ & Hsep & _).
  pose proof (blen_nonneg (l_right l)) as Hrn.
  pose proof (blen_ascii _ HI3) as Hrl. pose proof (dw_ascii _ HI3) as Hrd.
  pose proof (blen_ascii _ Hsep) as Hsl. pose proof (dw_ascii _ Hsep) as Hsd.
  assert (Hbl : bar_length cols l - Consts.progress_bar_brackets <= kmax).
  { unfold bar_length. destruct (0 <? l_len l); lia. }
  destruct (bar_ok fstep fsize (bar_length cols l) Hbl) as [bar [Hbar [Hshort Hlong]]].
  rewrite Hbar. eexists. split; [reflexivity|].
  destruct (Z_lt_le_dec (bar_length cols l) Consts.progress_bar_min) as [Hs'|Hl'].
  - (* no bar *)
    specialize (Hshort Hs'). subst bar.
    destruct Hexit as [Hfit|[E1 [E2 E3]]].
    + (* a check passed but the bar is below its minimum: name, separator and fields alone *)
      unfold fits in Hfit. apply Z.leb_le in Hfit.
      pose proof (Hdw_trim ((if 0 <? l_len l then l_left l ++ Consts.progress_left_sep else l_left l) ++ [] ++ l_right l)) as T1.
      pose proof (dw_app3 (if 0 <? l_len l then l_left l ++ Consts.progress_left_sep else l_left l) [] (l_right l)) as T2.
      rewrite dw_nil in T2.
      destruct (0 <? l_len l) eqn:E; [apply Z.ltb_lt in E | apply Z.ltb_ge in E].
      * pose proof (Hdw_app (l_left l) Consts.progress_left_sep). lia.
      * lia.
    + rewrite E1, E2, E3. rewrite Z.ltb_irrefl. cbn [app].
      rewrite trim_space_lead_space. pose proof (Hdw_trim pct). pose proof (dw_ascii _ Hp). lia.
  - (* bar of exactly the remaining width *)
    specialize (Hlong Hl').
    pose proof (Hdw_trim ((if 0 <? l_len l then l_left l ++ Consts.progress_left_sep else l_left l) ++ bar ++ l_right l)) as T1.
    pose proof (dw_app3 (if 0 <? l_len l then l_left l ++ Consts.progress_left_sep else l_left l) bar (l_right l)) as T2.
    unfold bar_length in *. destruct (0 <? l_len l) eqn:E; [apply Z.ltb_lt in E | apply Z.ltb_ge in E].
    + pose proof (Hdw_app (l_left l) Consts.progress_left_sep). lia.
    + lia.
Qed.

(* the line is always produced (no negative repeat count), and it is never wider than the
   wider of the terminal and the percentage string itself *)
Lemma text_ok cols count idx name fstep fsize pct total speed eta :
  ascii pct = true -> ascii total = true -> ascii speed = true -> ascii eta = true ->
  cols <= kmax ->
  exists s, progress_text_gen w sw mdr true cols count idx name fstep fsize pct total speed eta = TOk s /\
            Z.of_nat (dw s) <= Z.max cols (Z.of_nat (length pct)).
Proof.
  intros Hp Ht Hs He Hk.
  exact (assemble_ok (layout w sw cols count idx name pct total speed eta) cols fstep fsize pct
           (layout_inv cols count idx name pct total speed eta Hp Ht Hs He) Hp
           (layout_cases cols count idx name pct total speed eta) Hk).
Qed.

(* ---- percentage ---- *)
Definition pct_val (fstep fsize : Z) : Z :=
  if fsize =? 0 then 100 else pct_num mdr true fstep fsize.

Lemma pct_val_range fstep fsize : 100 <= kmax -> 0 <= pct_val fstep fsize <= 100.
Proof.
  intro Hk. unfold pct_val, pct_num. destruct (fsize =? 0) eqn:E; [lia|]. apply Z.eqb_neq in E.
  destruct consts_rel as (_ & _ & _ & _ & _ & _ & Hscale & _). rewrite Hscale.
  apply share_range; [lia | exact E].
Qed.

(* what is printed is that number in decimal followed by '%' *)
Lemma pct_text_val fstep fsize : 100 <= kmax ->
  pct_text mdr true fstep fsize = dec_Z (pct_val fstep fsize) ++ [37%N].
Proof.
  intro Hk. unfold pct_text, pct_val. destruct (fsize =? 0) eqn:E; [exact pct_default_src_ok|]. apply Z.eqb_neq in E.
  cbv zeta.
  assert (Hnz : (((0 <=? display_step true fstep fsize) && (fsize <? 0)) || ((display_step true fstep fsize <? 0) && (0 <? fsize))) = false).
  { destruct (Z_lt_le_dec 0 fsize) as [Hp|Hn].
    - pose proof (display_step_range fstep fsize Hp) as Hd.
      replace (fsize <? 0) with false by (symmetry; apply Z.ltb_ge; lia).
      replace (display_step true fstep fsize <? 0) with false by (symmetry; apply Z.ltb_ge; lia).
      rewrite andb_false_r. reflexivity.
    - rewrite display_step_neg by lia.
      replace (0 <=? fsize) with false by (symmetry; apply Z.leb_gt; lia).
      replace (0 <? fsize) with false by (symmetry; apply Z.ltb_ge; lia).
      rewrite andb_false_r. reflexivity. }
  rewrite Hnz, andb_false_r. reflexivity.
Qed.

Lemma pct_text_ok fstep fsize : 100 <= kmax ->
  ascii (pct_text mdr true fstep fsize) = true /\ (length (pct_text mdr true fstep fsize) <= 4)%nat.
Proof.
  intro Hk. rewrite pct_text_val by exact Hk. pose proof (pct_val_range fstep fsize Hk) as Hr.
  rewrite ascii_app, dec_Z_ascii, app_length. pose proof (dec_Z_len_100 _ Hr). cbn [length]. split; [reflexivity | lia].
Qed.

Lemma pct_val_mono s s' fsize : 100 <= kmax -> s <= s' -> pct_val s fsize <= pct_val s' fsize.
Proof.
  intros Hk Hs. unfold pct_val, pct_num. destruct (fsize =? 0) eqn:E; [lia|]. apply Z.eqb_neq in E.
  destruct consts_rel as (_ & _ & _ & _ & _ & _ & Hscale & _). rewrite Hscale.
  destruct (Z_lt_le_dec 0 fsize) as [Hp|Hn].
  - pose proof (display_step_range s fsize Hp). pose proof (display_step_range s' fsize Hp).
    pose proof (display_step_mono s s' fsize Hs). apply Hmdr_mono; lia.
  - rewrite !display_step_neg by lia. lia.
Qed.

Lemma pct_val_done fsize : 100 <= kmax -> fsize <> 0 -> pct_val fsize fsize = 100.
Proof.
  intros Hk E. unfold pct_val, pct_num. destruct (fsize =? 0) eqn:E'; [reflexivity|].
  destruct consts_rel as (_ & _ & _ & _ & _ & _ & Hscale & _). rewrite Hscale.
  assert (Hd : display_step true fsize fsize = fsize).
  { destruct (Z_lt_le_dec 0 fsize) as [Hp|Hn]; [|apply display_step_neg; lia].
    unfold display_step. replace (fsize <? 0) with false by (symmetry; apply Z.ltb_ge; lia).
    rewrite Z.ltb_irrefl. reflexivity. }
  rewrite Hd. apply Hmdr_full; [lia | exact E].
Qed.

(* ---- the state machine ---- *)
Definition op_ok (o : op) : Prop :=
  match o with
  | OpStep _ _ t s e | OpDone _ t s e => ascii t = true /\ ascii s = true /\ ascii e = true
  | OpCols c => c <= kmax
  | _ => True
  end.

(* a write is fine if it is not a panic and the line is no wider than the width it was laid
   out for - or than 4 columns ("100%") when it was laid out for less *)
Definition wr_ok (x : wr) : Prop :=
  match x with
  | WHide => True
  | WPanic => False
  | WLine _ c _ text => Z.of_nat (dw text) <= Z.max c 4
  end.

Lemma show_spec st now t s e : 100 <= kmax -> p_cols st <= kmax ->
  ascii t = true -> ascii s = true -> ascii e = true ->
  Forall wr_ok (snd (show w sw mdr true st now t s e)) /\
  (forall k c pct text, In (WLine k c pct text) (snd (show w sw mdr true st now t s e)) ->
     c = p_cols st /\ pct = pct_text mdr true (p_step st) (p_size st)) /\
  p_cols (fst (show w sw mdr true st now t s e)) = p_cols st /\
  p_step (fst (show w sw mdr true st now t s e)) = p_step st /\
  p_size (fst (show w sw mdr true st now t s e)) = p_size st.
Proof.
  intros Hk Hc Ht Hs He. unfold show. destruct (throttled st now).
  - cbn [fst snd]. split; [constructor | split; [intros ? ? ? ? []| repeat split]].
  - destruct (pct_text_ok (p_step st) (p_size st) Hk) as [Hpa Hpl].
    destruct (text_ok (p_cols st) (p_count st) (p_idx st) (p_name st) (p_step st) (p_size st)
                (pct_text mdr true (p_step st) (p_size st)) t s e Hpa Ht Hs He Hc) as [text [Htext Hfit]].
    cbv zeta. rewrite Htext. cbn [fst snd set_shown p_cols p_step p_size].
    split; [|split; [|repeat split]].
    + constructor; [|constructor]. cbn [wr_ok]. lia.
    + intros k c pct text' [Heq|[]]. inversion Heq. split; reflexivity.
Qed.

Lemma apply_op_spec o st : 100 <= kmax -> p_cols st <= kmax -> op_ok o ->
  Forall wr_ok (snd (apply_op w sw mdr true o st)) /\
  p_cols (fst (apply_op w sw mdr true o st)) <= kmax /\
  (forall k c pct text, In (WLine k c pct text) (snd (apply_op w sw mdr true o st)) ->
     c = p_cols (fst (apply_op w sw mdr true o st)) /\
     pct = pct_text mdr true (p_step (fst (apply_op w sw mdr true o st))) (p_size (fst (apply_op w sw mdr true o st)))).
Proof.
  intros Hk Hc Ho. destruct o as [n|nm|z|z now t s e|now t s e|z|b|c]; cbn [apply_op op_ok] in *.
  - cbn [fst snd p_cols]. split; [repeat constructor | split; [exact Hc|]]. intros ? ? ? ? [H|[]]. discriminate H.
  - cbn [fst snd p_cols]. split; [constructor | split; [exact Hc|]]. intros ? ? ? ? [].
  - cbn [fst snd p_cols]. split; [constructor | split; [exact Hc|]]. intros ? ? ? ? [].
  - destruct Ho as [Ht [Hs He]]. destruct (wrap64 (z + p_pre st) <=? p_step st).
    + cbn [fst snd]. split; [constructor | split; [exact Hc|]]. intros ? ? ? ? [].
    + destruct (p_pausing st).
      * cbn [fst snd set_step p_cols]. split; [constructor | split; [exact Hc|]]. intros ? ? ? ? [].
      * destruct (show_spec (set_step st (wrap64 (z + p_pre st))) now t s e Hk Hc Ht Hs He) as [A [B [C1 [C2 C3]]]].
        split; [exact A | split; [rewrite C1; exact Hc|]].
        intros k c pct text Hin. rewrite C1, C2, C3. apply (B k c pct text Hin).
  - destruct Ho as [Ht [Hs He]]. destruct (p_size st =? 0).
    + cbn [fst snd]. split; [constructor | split; [exact Hc|]]. intros ? ? ? ? [].
    + destruct (show_spec (set_shown (set_step st (p_size st)) None (p_first st)) now t s e Hk Hc Ht Hs He) as [A [B [C1 [C2 C3]]]].
      split; [exact A | split; [rewrite C1; exact Hc|]].
      intros k c pct text Hin. rewrite C1, C2, C3. apply (B k c pct text Hin).
  - cbn [fst snd p_cols]. split; [constructor | split; [exact Hc|]]. intros ? ? ? ? [].
  - cbn [fst snd p_cols]. split; [destruct b; repeat constructor | split; [exact Hc|]].
    intros ? ? ? ? Hin. destruct b; [destruct Hin | destruct Hin as [H|[]]; discriminate H].
  - cbn [fst snd p_cols]. split; [constructor | split; [exact Ho|]]. intros ? ? ? ? [].
Qed.

(* C20_total + C20_fits over every history of calls *)
Lemma run_ok : 100 <= kmax -> forall ops st, p_cols st <= kmax -> Forall op_ok ops ->
  Forall (Forall wr_ok) (snd (run w sw mdr true ops st)).
Proof.
  intro Hk. induction ops as [|o r IH]; intros st Hc Ho; [constructor|].
  inversion Ho as [|? ? Ho1 Ho2]; subst. cbn [run].
  destruct (apply_op_spec o st Hk Hc Ho1) as [A [B _]].
  destruct (apply_op w sw mdr true o st) as [st1 out]. cbn [fst snd] in *.
  specialize (IH st1 B Ho2). destruct (run w sw mdr true r st1) as [st2 outs]. cbn [snd] in *.
  constructor; assumption.
Qed.

(* C20_monotone *)
Definition within_file (o : op) : bool :=
  match o with OpName _ | OpSize _ | OpPre _ => false | _ => true end.

Definition st_pct (st : pstate) : Z := pct_val (p_step st) (p_size st).

Lemma apply_op_pct_mono o st : 100 <= kmax -> within_file o = true ->
  st_pct st <= st_pct (fst (apply_op w sw mdr true o st)).
Proof.
  intros Hk Hw. unfold st_pct.
  destruct o as [n|nm|z|z now t s e|now t s e|z|b|c]; try discriminate Hw.
  - cbn [apply_op fst p_step p_size]. lia.
  - destruct (on_step_never_lowers w sw mdr true st z now t s e) as [A B]. rewrite B. apply pct_val_mono; assumption.
  - cbn [apply_op]. destruct (p_size st =? 0) eqn:E; [cbn [fst]; lia|]. apply Z.eqb_neq in E.
    destruct (show_keeps w sw mdr true (set_shown (set_step st (p_size st)) None (p_first st)) now t s e) as [A B].
    rewrite A, B. cbn [set_shown set_step p_step p_size]. rewrite pct_val_done by assumption.
    apply pct_val_range. exact Hk.
  - cbn [apply_op fst p_step p_size]. lia.
  - cbn [apply_op fst p_step p_size]. lia.
Qed.

Lemma run_pct_mono : 100 <= kmax -> forall ops st, forallb within_file ops = true ->
  st_pct st <= st_pct (fst (run w sw mdr true ops st)).
Proof.
  intro Hk. induction ops as [|o r IH]; intros st Hw; [cbn [run fst]; lia|].
  cbn [forallb] in Hw. apply andb_true_iff in Hw. destruct Hw as [Hw1 Hw2].
  cbn [run]. pose proof (apply_op_pct_mono o st Hk Hw1) as A.
  destruct (apply_op w sw mdr true o st) as [st1 out]. cbn [fst] in A.
  specialize (IH st1 Hw2). destruct (run w sw mdr true r st1) as [st2 outs]. cbn [fst] in *. lia.
Qed.

Lemma pct_val_start z : 100 <= kmax -> 0 < z -> pct_val 0 z = 0.
Proof.
  intros Hk Hz. unfold pct_val, pct_num. destruct (z =? 0) eqn:E; [apply Z.eqb_eq in E; lia|].
  destruct consts_rel as (_ & _ & _ & _ & _ & _ & Hscale & _). rewrite Hscale.
  assert (Hd : display_step true 0 z = 0).
  { unfold display_step. cbn [Z.ltb Z.compare]. destruct (z <? 0) eqn:E2; [apply Z.ltb_lt in E2; lia | reflexivity]. }
  rewrite Hd. apply Hmdr_zero; lia.
Qed.

(* ---- the session: every line fits the most recent width ---- *)
Lemma last_default_irrelevant (x : Z) l d d' : last (x :: l) d = last (x :: l) d'.
Proof. revert x. induction l as [|y l IH]; intro x; [reflexivity|]. cbn [last] in *. apply (IH y). Qed.

Lemma sess_consts : 0 <= Consts.progress_tmux_margin /\ Consts.progress_pane_ignored <= Consts.progress_tmux_min.
Proof. vm_compute. split; discriminate. Qed.

Definition sevent_ok (e : sevent) : Prop :=
  match e with
  | SeResize c => c <= kmax
  | SeTick t => op_ok (tick_op t)
  | _ => True
  end.

(* a write is fine for a terminal of wd columns (4 <= wd): no panic, no line wider than wd *)
Definition swr_ok (wd : Z) (x : swr) : Prop :=
  match x with
  | SwShow => True
  | SwBar WHide => True
  | SwBar WPanic => False
  | SwBar (WLine _ _ _ text) => 4 <= wd -> Z.of_nat (dw text) <= wd
  end.

(* the session knows the most recent width, and a live bar never lays out for more *)
Definition sess_inv (wd : Z) (s : session) : Prop :=
  s_cols s = wd /\ match s_bar s with Some b => p_cols b <= wd | None => True end.

Lemma sess_on_bar_spec o s wd : 100 <= kmax -> wd <= kmax -> sess_inv wd s -> op_ok o ->
  (forall c, o = OpCols c -> c <= wd) ->
  sess_inv wd (fst (sess_on_bar w sw mdr true s o)) /\
  Forall (swr_ok wd) (snd (sess_on_bar w sw mdr true s o)).
Proof.
  intros Hk Hwd [Hc Hb] Ho Hcols. unfold sess_on_bar. destruct (s_bar s) as [b|] eqn:Eb.
  - assert (Hbk : p_cols b <= kmax) by lia.
    destruct (apply_op_spec o b Hk Hbk Ho) as [A [_ C]].
    pose proof (apply_op_cols w sw mdr true o b) as Hcw.
    destruct (apply_op w sw mdr true o b) as [b' out]. cbn [fst snd] in *.
    assert (Hb' : p_cols b' <= wd).
    { rewrite Hcw. destruct o; try exact Hb. apply Hcols. reflexivity. }
    split.
    + split; [exact Hc | exact Hb'].
    + apply Forall_forall. intros x Hx. apply in_map_iff in Hx. destruct Hx as [y [Hy Hin]]. subst x.
      rewrite Forall_forall in A. specialize (A y Hin).
      destruct y as [|k c pct text|]; cbn [swr_ok]; [exact I | | exact A].
      cbn [wr_ok] in A. destruct (C k c pct text Hin) as [Ec _]. intro H4. lia.
  - cbn [fst snd]. split; [split; [exact Hc | rewrite Eb; exact I] | constructor].
Qed.

Lemma sess_step_spec e s wd : 100 <= kmax -> wd <= kmax -> sess_inv wd s -> sevent_ok e ->
  sess_inv (match e with SeResize c => c | _ => wd end) (fst (sess_step w sw mdr true e s)) /\
  Forall (swr_ok (match e with SeResize c => c | _ => wd end)) (snd (sess_step w sw mdr true e s)).
Proof.
  intros Hk Hwd Hinv He. destruct e as [c|quiet pane|t| | |]; cbn [sess_step sevent_ok] in *.
  - (* resize: the session value, and the live bar whatever it was laid out for before *)
    unfold sess_on_bar. cbn [s_bar s_cols]. destruct (s_bar s) as [b|].
    + cbn [apply_op fst snd map]. split; [split; [reflexivity | cbn [s_bar p_cols]; lia] | constructor].
    + cbn [fst snd]. split; [split; [reflexivity | exact I] | constructor].
  - (* a new transfer: the bar is created from the session value *)
    destruct Hinv as [Hc _]. destruct quiet.
    + cbn [fst snd]. split; [split; [exact Hc | exact I] | constructor].
    + cbn [fst snd]. split; [|constructor]. split; [exact Hc|]. cbn [s_bar new_bar p_cols].
      destruct sess_consts as [Hm Hi].
      destruct (s_cols s <? pane) eqn:E1; [apply Z.ltb_lt in E1 | apply Z.ltb_ge in E1].
      * replace (Consts.progress_tmux_min <? Consts.progress_pane_ignored) with false by (symmetry; apply Z.ltb_ge; lia). lia.
      * destruct (Consts.progress_tmux_min <? pane); lia.
  - apply sess_on_bar_spec; try assumption. intros c Hc. destruct t; discriminate Hc.
  - apply sess_on_bar_spec; try assumption. intros c Hc; discriminate Hc.
  - (* the prompt closes: the bar is set to the session value, then un-paused *)
    assert (H1 := sess_on_bar_spec (OpCols (s_cols s)) s wd Hk Hwd Hinv).
    cbn [op_ok] in H1. destruct Hinv as [Hc Hb]. 
    specialize (H1 ltac:(lia) ltac:(intros c E; inversion E; lia)). destruct H1 as [I1 O1].
    destruct (sess_on_bar w sw mdr true s (OpCols (s_cols s))) as [s1 o1]. cbn [fst snd] in *.
    assert (H2 := sess_on_bar_spec (OpPause false) s1 wd Hk Hwd I1 I ltac:(intros c E; discriminate E)).
    destruct H2 as [I2 O2].
    destruct (sess_on_bar w sw mdr true s1 (OpPause false)) as [s2 o2]. cbn [fst snd] in *.
    split; [exact I2 | apply Forall_app; split; assumption].
  - destruct Hinv as [Hc _]. cbn [fst snd]. split; [split; [exact Hc | exact I]|].
    destruct (s_bar s); repeat constructor.
Qed.

(* C20_session: over every history of resizes, transfers, callbacks and stop prompts, what
   each event writes fits the width of the most recent resize *)
Lemma sess_run_ok : 100 <= kmax -> forall evs s wd, wd <= kmax -> sess_inv wd s -> Forall sevent_ok evs ->
  Forall2 (fun out wd' => Forall (swr_ok wd') out) (snd (sess_run w sw mdr true evs s)) (sess_widths evs wd) /\
  s_cols (fst (sess_run w sw mdr true evs s)) = last (sess_widths evs wd) wd.
Proof.
  intro Hk. induction evs as [|e r IH]; intros s wd Hwd Hinv He.
  - cbn [sess_run sess_widths snd fst last]. split; [constructor | exact (proj1 Hinv)].
  - inversion He as [|? ? He1 He2]; subst. cbn [sess_run sess_widths].
    destruct (sess_step_spec e s wd Hk Hwd Hinv He1) as [I1 O1].
    assert (Hwd' : match e with SeResize c => c | _ => wd end <= kmax).
    { destruct e; try exact Hwd. exact He1. }
    destruct (sess_step w sw mdr true e s) as [s1 out]. cbn [fst snd] in *.
    destruct (IH s1 _ Hwd' I1 He2) as [F L].
    destruct (sess_run w sw mdr true r s1) as [s2 outs]. cbn [fst snd] in *.
    split; [constructor; assumption|].
    rewrite L. destruct (sess_widths r (match e with SeResize c => c | _ => wd end)) as [|z l] eqn:E; [reflexivity|].
    change (last (z :: l) (match e with SeResize c => c | _ => wd end) = last (z :: l) wd).
    apply last_default_irrelevant.
Qed.

(* the width a new bar is laid out for is the current one (or the announced pane minus its margin) *)
Lemma sess_start_width s pane :
  match s_bar (fst (sess_step w sw mdr true (SeStart false pane) s)) with
  | Some b => p_cols b = if (Consts.progress_tmux_min <? pane) && (pane <=? s_cols s)
                         then pane - Consts.progress_tmux_margin else s_cols s
  | None => False
  end.
Proof.
  cbn [sess_step fst s_bar new_bar p_cols]. destruct sess_consts as [Hm Hi].
  destruct (s_cols s <? pane) eqn:E1; [apply Z.ltb_lt in E1 | apply Z.ltb_ge in E1].
  - replace (Consts.progress_tmux_min <? Consts.progress_pane_ignored) with false by (symmetry; apply Z.ltb_ge; lia).
    replace (pane <=? s_cols s) with false by (symmetry; apply Z.leb_gt; lia). rewrite andb_false_r. reflexivity.
  - replace (pane <=? s_cols s) with true by (symmetry; apply Z.leb_le; lia). rewrite andb_true_r. reflexivity.
Qed.

(* a resize reaches the session and the live bar *)
Lemma sess_resize_width s c :
  s_cols (fst (sess_step w sw mdr true (SeResize c) s)) = c /\
  match s_bar s, s_bar (fst (sess_step w sw mdr true (SeResize c) s)) with
  | Some _, Some b' => p_cols b' = c
  | None, None => True
  | _, _ => False
  end.
Proof.
  cbn [sess_step]. unfold sess_on_bar. cbn [s_bar s_cols]. destruct (s_bar s) as [b|]; cbn [apply_op fst s_cols s_bar p_cols]; split; reflexivity || exact I.
Qed.

End Widths.

(* ------------------------------------------------------------------------------------ *)
(* closed statements: the assumptions about the external functions as explicit premises *)

(* what is assumed about runewidth (w, sw) and the terminal (dw) *)
Definition width_model (w : rune -> nat) (sw dw : str -> nat) : Prop :=
  (forall a b, (dw (a ++ b) <= dw a + dw b)%nat) /\
  (forall s, (dw s <= sw s)%nat) /\
  (forall s, (dw s <= wsum w s)%nat) /\
  (forall s, (dw (trim_space s) <= dw s)%nat) /\
  (forall r, ascii_char r = true -> (w r <= 1)%nat) /\
  (w Consts.progress_bar_full_rune <= 1)%nat /\
  (w Consts.progress_bar_empty_rune <= 1)%nat /\
  (dw (fmt_head Consts.progress_bar_fmt) <= 1)%nat /\
  (dw (fmt_tail Consts.progress_bar_fmt) <= 1)%nat.

(* what is assumed about binary64 arithmetic: mdr k a b = int(math.Round(k*a/b)), 0 <= k <= kmax *)
Definition round_model (mdr : Z -> Z -> Z -> Z) (kmax : Z) : Prop :=
  (forall k b, 0 <= k <= kmax -> b <> 0 -> mdr k 0 b = 0) /\
  (forall k b, 0 <= k <= kmax -> b <> 0 -> mdr k b b = k) /\
  (forall k a a' b, 0 <= k <= kmax -> 0 < b -> 0 <= a <= a' -> a' <= b -> mdr k a b <= mdr k a' b).

Lemma mdr_exact_model kmax : round_model mdr_exact kmax.
Proof.
  split; [|split].
  - intros k b _ Hb. apply mdr_exact_zero. exact Hb.
  - intros k b Hk Hb. apply mdr_exact_full; [lia | exact Hb].
  - intros k a a' b Hk Hb Ha _. apply mdr_exact_mono; lia.
Qed.

Lemma trivial_width_model : width_model (fun _ => 1%nat) (fun s => length s) (fun _ => 0%nat).
Proof. unfold width_model. repeat split; intros; lia. Qed.

(* discharge the leading non-dependent premises of H (the section hypotheses) from the context *)
Ltac c20_feed H :=
  repeat match type of H with
         | ?P -> _ => let x := fresh "x" in assert (x : P) by assumption; specialize (H x); clear x
         end.

Section Closed.
Variable w : rune -> nat.
Variable sw dw : str -> nat.
Variable mdr : Z -> Z -> Z -> Z.
Variable kmax : Z.
Hypothesis HW : width_model w sw dw.
Hypothesis HR : round_model mdr kmax.

Lemma c20_text cols count idx name fstep fsize pct total speed eta :
  ascii pct = true -> ascii total = true -> ascii speed = true -> ascii eta = true -> cols <= kmax ->
  exists s, progress_text w sw mdr cols count idx name fstep fsize pct total speed eta = TOk s /\
            (Z.of_nat (length pct) <= cols -> Z.of_nat (dw s) <= cols).
Proof.
  destruct HW as (A1 & A2 & A3 & A4 & A5 & A6 & A7 & A8 & A9). destruct HR as (B1 & B2 & B3).
  unfold progress_text. rewrite clamp_src_ok.
  pose proof (text_ok w sw dw mdr kmax) as H. c20_feed H.
  intros Hp Ht Hs He Hk. destruct (H cols count idx name fstep fsize pct total speed eta Hp Ht Hs He Hk) as [s [E F]].
  exists s. split; [exact E | lia].
Qed.

Lemma c20_fits cols count idx name fstep fsize pct total speed eta s :
  ascii pct = true -> ascii total = true -> ascii speed = true -> ascii eta = true -> cols <= kmax ->
  5 <= cols -> (length pct <= 4)%nat ->
  progress_text w sw mdr cols count idx name fstep fsize pct total speed eta = TOk s ->
  Z.of_nat (dw s) <= cols.
Proof.
  intros Hp Ht Hs He Hk H5 H4 Heq.
  destruct (c20_text cols count idx name fstep fsize pct total speed eta Hp Ht Hs He Hk) as [s' [E F]].
  rewrite E in Heq. inversion Heq. subst s'. apply F. lia.
Qed.

Lemma c20_fits_sharp cols count idx name fstep fsize pct total speed eta s :
  ascii pct = true -> ascii total = true -> ascii speed = true -> ascii eta = true -> cols <= kmax ->
  Z.of_nat (length pct) <= cols ->
  progress_text w sw mdr cols count idx name fstep fsize pct total speed eta = TOk s ->
  Z.of_nat (dw s) <= cols.
Proof.
  intros Hp Ht Hs He Hk H4 Heq.
  destruct (c20_text cols count idx name fstep fsize pct total speed eta Hp Ht Hs He Hk) as [s' [E F]].
  rewrite E in Heq. inversion Heq. subst s'. apply F. exact H4.
Qed.

Lemma c20_total_text cols count idx name fstep fsize pct total speed eta :
  ascii pct = true -> ascii total = true -> ascii speed = true -> ascii eta = true -> cols <= kmax ->
  progress_text w sw mdr cols count idx name fstep fsize pct total speed eta <> TPanic.
Proof.
  intros Hp Ht Hs He Hk.
  destruct (c20_text cols count idx name fstep fsize pct total speed eta Hp Ht Hs He Hk) as [s' [E _]].
  rewrite E. discriminate.
Qed.

Lemma c20_total_bar fstep fsize length : length - Consts.progress_bar_brackets <= kmax ->
  progress_bar mdr fstep fsize length <> BPanic.
Proof.
  intro Hk. destruct HW as (A1 & A2 & A3 & A4 & A5 & A6 & A7 & A8 & A9). destruct HR as (B1 & B2 & B3).
  unfold progress_bar. rewrite clamp_src_ok.
  pose proof (bar_ok w dw mdr kmax) as H. c20_feed H.
  destruct (H fstep fsize length Hk) as [s [E _]].
  rewrite E. discriminate.
Qed.

Lemma c20_pct fstep fsize : 100 <= kmax ->
  0 <= pct_val mdr fstep fsize <= 100 /\
  pct_text_cur mdr fstep fsize = dec_Z (pct_val mdr fstep fsize) ++ [37%N] /\
  ascii (pct_text_cur mdr fstep fsize) = true /\ (length (pct_text_cur mdr fstep fsize) <= 4)%nat.
Proof.
  intro Hk. destruct HW as (A1 & A2 & A3 & A4 & A5 & A6 & A7 & A8 & A9). destruct HR as (B1 & B2 & B3).
  unfold pct_text_cur. rewrite clamp_src_ok.
  pose proof (pct_val_range w dw mdr kmax) as H1. c20_feed H1.
  pose proof (pct_text_val w dw mdr kmax) as H2. c20_feed H2.
  pose proof (pct_text_ok w dw mdr kmax) as H3. c20_feed H3.
  split; [apply H1; exact Hk|]. split; [apply H2; exact Hk|]. apply H3. exact Hk.
Qed.

Lemma c20_pct_mono_step s s' fsize : 100 <= kmax -> s <= s' -> pct_val mdr s fsize <= pct_val mdr s' fsize.
Proof.
  destruct HW as (A1 & A2 & A3 & A4 & A5 & A6 & A7 & A8 & A9). destruct HR as (B1 & B2 & B3).
  pose proof (pct_val_mono w dw mdr kmax) as H. c20_feed H. apply H.
Qed.

Lemma c20_run ops st : 100 <= kmax -> p_cols st <= kmax -> Forall (op_ok kmax) ops ->
  Forall (Forall (wr_ok dw)) (snd (run_cur w sw mdr ops st)).
Proof.
  destruct HW as (A1 & A2 & A3 & A4 & A5 & A6 & A7 & A8 & A9). destruct HR as (B1 & B2 & B3).
  intros Hk. unfold run_cur. rewrite clamp_src_ok.
  pose proof (run_ok w sw dw mdr kmax) as H. c20_feed H. apply H.
Qed.

Lemma c20_run_mono ops st : 100 <= kmax -> forallb within_file ops = true ->
  st_pct mdr st <= st_pct mdr (fst (run_cur w sw mdr ops st)).
Proof.
  destruct HW as (A1 & A2 & A3 & A4 & A5 & A6 & A7 & A8 & A9). destruct HR as (B1 & B2 & B3).
  intros Hk. unfold run_cur. rewrite clamp_src_ok.
  pose proof (run_pct_mono w sw dw mdr kmax) as H. c20_feed H. apply H.
Qed.

Lemma c20_step_never_lowers st z now t s e :
  p_step st <= p_step (fst (run_cur w sw mdr [OpStep z now t s e] st)).
Proof.
  unfold run_cur. cbn [run].
  pose proof (on_step_never_lowers w sw mdr Consts.progress_clamped st z now t s e) as [A _].
  destruct (apply_op w sw mdr Consts.progress_clamped (OpStep z now t s e) st) as [st1 out]. exact A.
Qed.

(* every line written shows the percentage of the state it was written in, laid out for the
   current width *)
Lemma c20_line_shows o st k c pct text : 100 <= kmax -> p_cols st <= kmax -> op_ok kmax o ->
  In (WLine k c pct text) (concat (snd (run_cur w sw mdr [o] st))) ->
  c = p_cols (fst (run_cur w sw mdr [o] st)) /\
  pct = dec_Z (st_pct mdr (fst (run_cur w sw mdr [o] st))) ++ [37%N].
Proof.
  destruct HW as (A1 & A2 & A3 & A4 & A5 & A6 & A7 & A8 & A9). destruct HR as (B1 & B2 & B3).
  intros Hk Hc Ho. unfold run_cur. rewrite clamp_src_ok. cbn [run].
  pose proof (apply_op_spec w sw dw mdr kmax) as H. c20_feed H.
  destruct (H o st Hk Hc Ho) as [_ [_ H']].
  destruct (apply_op w sw mdr true o st) as [st1 out]. cbn [fst snd concat] in *. rewrite app_nil_r.
  intros Hin. destruct (H' k c pct text Hin) as [E1 E2]. split; [exact E1|].
  rewrite E2. unfold st_pct.
  pose proof (pct_text_val w dw mdr kmax) as H2. c20_feed H2. apply H2. exact Hk.
Qed.

(* the session: whatever the history of resizes, transfers, callbacks and stop prompts, every
   write fits the width of the most recent resize, and the session remembers that width *)
Lemma c20_session evs c0 : 100 <= kmax -> c0 <= kmax -> Forall (sevent_ok kmax) evs ->
  Forall2 (fun out wd => Forall (swr_ok dw wd) out)
          (snd (sess_run_cur w sw mdr evs (sess_init c0))) (sess_widths evs c0) /\
  s_cols (fst (sess_run_cur w sw mdr evs (sess_init c0))) = last (sess_widths evs c0) c0.
Proof.
  destruct HW as (A1 & A2 & A3 & A4 & A5 & A6 & A7 & A8 & A9). destruct HR as (B1 & B2 & B3).
  intros Hk Hc He. unfold sess_run_cur. rewrite clamp_src_ok.
  pose proof (sess_run_ok w sw dw mdr kmax) as H. c20_feed H.
  apply H; [exact Hc | split; [reflexivity | exact I] | exact He].
Qed.

Lemma c20_session_start s pane :
  match s_bar (fst (sess_step_cur w sw mdr (SeStart false pane) s)) with
  | Some b => p_cols b = if (Consts.progress_tmux_min <? pane) && (pane <=? s_cols s)
                         then pane - Consts.progress_tmux_margin else s_cols s
  | None => False
  end.
Proof.
  destruct HW as (A1 & A2 & A3 & A4 & A5 & A6 & A7 & A8 & A9). destruct HR as (B1 & B2 & B3).
  unfold sess_step_cur. rewrite clamp_src_ok.
  pose proof (sess_start_width w sw dw mdr) as H. c20_feed H. apply H.
Qed.

Lemma c20_session_resize s c :
  s_cols (fst (sess_step_cur w sw mdr (SeResize c) s)) = c /\
  match s_bar s, s_bar (fst (sess_step_cur w sw mdr (SeResize c) s)) with
  | Some _, Some b' => p_cols b' = c
  | None, None => True
  | _, _ => False
  end.
Proof.
  unfold sess_step_cur. rewrite clamp_src_ok. apply sess_resize_width.
Qed.

(* files: a line reports the current file's own figures *)
Lemma c20_file_figures_own st1 st2 nm z rest :
  figs (fst (run_cur w sw mdr (OpName nm :: OpSize z :: rest) st1)) =
  figs (fst (run_cur w sw mdr (OpName nm :: OpSize z :: rest) st2)).
Proof. unfold run_cur. apply file_figs_own. Qed.

Lemma c20_file_start st nm z now t s e : 100 <= kmax -> 0 < z < 2 ^ 63 ->
  figs (fst (run_cur w sw mdr [OpName nm; OpSize z; OpStep 0 now t s e] st)) = (0, z, 0) /\
  st_pct mdr (fst (run_cur w sw mdr [OpName nm; OpSize z; OpStep 0 now t s e] st)) = 0.
Proof.
  destruct HW as (A1 & A2 & A3 & A4 & A5 & A6 & A7 & A8 & A9). destruct HR as (B1 & B2 & B3).
  intros Hk Hz. unfold run_cur.
  pose proof (file_start_figs w sw mdr Consts.progress_clamped st nm z now t s e Hz) as F.
  split; [exact F|]. unfold st_pct.
  remember (fst (run w sw mdr Consts.progress_clamped [OpName nm; OpSize z; OpStep 0 now t s e] st)) as st' eqn:Est. clear Est.
  unfold figs in F. injection F as F1 F2 F3. rewrite F2, F3.
  pose proof (pct_val_start w dw mdr kmax) as H. c20_feed H. apply H; lia.
Qed.

Lemma c20_file_end st nm full resume steps done : 100 <= kmax -> 0 < full < 2 ^ 63 ->
  (forall hs m, resume = Some (hs, m) -> 0 <= m <= full) ->
  p_size (fst (run_cur w sw mdr (file_ops nm full resume steps done) st)) = full /\
  p_step (fst (run_cur w sw mdr (file_ops nm full resume steps done) st)) = full /\
  st_pct mdr (fst (run_cur w sw mdr (file_ops nm full resume steps done) st)) = 100.
Proof.
  destruct HW as (A1 & A2 & A3 & A4 & A5 & A6 & A7 & A8 & A9). destruct HR as (B1 & B2 & B3).
  intros Hk Hf Hm. unfold run_cur.
  destruct (file_end_figs w sw mdr Consts.progress_clamped st nm full resume steps done Hf Hm) as [pre F].
  remember (fst (run w sw mdr Consts.progress_clamped (file_ops nm full resume steps done) st)) as st' eqn:Est. clear Est.
  unfold figs in F. injection F as F1 F2 F3.
  split; [exact F2 | split; [exact F3|]]. unfold st_pct. rewrite F2, F3.
  pose proof (pct_val_done w dw mdr kmax) as H. c20_feed H. apply H; lia.
Qed.

End Closed.

(* the defect before the fix, on the exact arithmetic: step beyond the size, negative size *)
Lemma unfixed_panics :
  progress_bar_unfixed 250 100 24 = BPanic /\ progress_bar_unfixed 3 (-5) 24 = BPanic /\
  pct_text mdr_exact false 250 100 = [50; 53; 48; 37]%N.
Proof. vm_compute. repeat split. Qed.

(* ------------------------------------------------------------------------------------ *)
(* the order of the callbacks: the callbacks of well-formed files, in the order of file_ops,
   are words of the language cb_lang_ok *)

(* the steps of one phase: non-decreasing from [last], within the announced size r *)
Fixpoint steps_in (r last : Z) (l : list step_arg) : bool :=
  match l with
  | [] => true
  | a :: l' => let s := fst (fst a) in (last <=? s) && (s <=? r) && steps_in r s l'
  end.
Fixpoint steps_last (last : Z) (l : list step_arg) : Z :=
  match l with
  | [] => last
  | a :: l' => steps_last (fst (fst a)) l'
  end.

Lemma cb_steps_sized x : forall l last, steps_in x last l = true ->
  fold_left cb_next (map mk_step l) (CbSized x last) = CbSized x (steps_last last l).
Proof.
  induction l as [|[[z now] [[t s] e]] l IH]; intros last H; [reflexivity|].
  cbn [steps_in fst] in H. apply andb_true_iff in H. destruct H as [H1 H2].
  cbn [map fold_left mk_step cb_next steps_last fst]. rewrite H1. apply IH. exact H2.
Qed.

Lemma cb_steps_data r : forall l last, steps_in r last l = true ->
  fold_left cb_next (map mk_step l) (CbData r last) = CbData r (steps_last last l).
Proof.
  induction l as [|[[z now] [[t s] e]] l IH]; intros last H; [reflexivity|].
  cbn [steps_in fst] in H. apply andb_true_iff in H. destruct H as [H1 H2].
  cbn [map fold_left mk_step cb_next steps_last fst]. rewrite H1. apply IH. exact H2.
Qed.

(* a file whose steps are in order and reach the end of each phase *)
Definition file_wf (full : Z) (resume : option (list step_arg * Z)) (steps : list step_arg) : Prop :=
  0 <= full /\
  match resume with
  | None => steps_in full (-1) steps = true /\ steps_last (-1) steps = full
  | Some (hs, m) => steps_in full (-1) hs = true /\ m = Z.max (steps_last (-1) hs) 0 /\ m <= full /\
                    steps_in (full - m) (-1) steps = true /\ steps_last (-1) steps = full - m
  end.

Lemma cb_file_ops nm full resume steps done : file_wf full resume steps ->
  fold_left cb_next (file_ops nm full resume steps done) CbFiles = CbFiles.
Proof.
  intros [Hf H]. unfold file_ops. cbn [fold_left cb_next].
  destruct done as [[zd nowd] [[td sd] ed]].
  destruct resume as [[hs m]|].
  - destruct H as [H1 [H2 [Hm [H3 H4]]]]. cbn [app fold_left cb_next].
    replace (0 <=? full) with true by (symmetry; apply Z.leb_le; lia).
    rewrite <- app_assoc, fold_left_app, (cb_steps_sized full hs (-1) H1).
    cbn [app fold_left cb_next]. rewrite <- H2, Z.eqb_refl, Z.eqb_refl.
    rewrite fold_left_app, (cb_steps_data (full - m) steps (-1) H3).
    cbn [fold_left mk_done cb_next]. rewrite H4, (Z.max_l (full - m) 0) by lia. rewrite Z.eqb_refl. reflexivity.
  - destruct H as [H1 H2]. cbn [app fold_left cb_next].
    replace (0 <=? full) with true by (symmetry; apply Z.leb_le; lia).
    rewrite fold_left_app, (cb_steps_sized full steps (-1) H1).
    cbn [fold_left mk_done cb_next]. rewrite H2, (Z.max_l full 0) by lia. rewrite Z.eqb_refl. reflexivity.
Qed.

(* a whole transfer: onNum, then the files one after the other *)
Definition fplan := (str * Z * option (list step_arg * Z) * list step_arg * step_arg)%type.
Definition plan_ops (p : fplan) : list op :=
  let '(nm, full, resume, steps, done) := p in file_ops nm full resume steps done.
Definition plan_wf (p : fplan) : Prop :=
  let '(nm, full, resume, steps, done) := p in file_wf full resume steps.

Lemma cb_transfer_in_language n : forall plans, Forall plan_wf plans ->
  cb_lang_ok (OpNum n :: concat (map plan_ops plans)) = true.
Proof.
  intros plans H. unfold cb_lang_ok. cbn [fold_left cb_next].
  assert (E : fold_left cb_next (concat (map plan_ops plans)) CbFiles = CbFiles).
  { induction H as [|[[[[nm full] resume] steps] done] l Hp _ IH]; [reflexivity|].
    cbn [map concat plan_ops]. rewrite fold_left_app. cbn [plan_wf] in Hp.
    rewrite (cb_file_ops nm full resume steps done Hp). exact IH. }
  rewrite E. reflexivity.
Qed.

(* the order of the fourth-round seeded change is not a word of the language: the last step of
   the first file delivered after the second file has been announced *)
Lemma cb_late_step_rejected :
  cb_lang_ok [OpNum 2; OpName [97%N]; OpSize 65536; OpStep 0 0 [] [] []; OpDone 0 [] [] [];
              OpName [98%N]; OpStep 65536 0 [] [] []; OpSize 2097152; OpStep 0 0 [] [] []] = false /\
  cb_lang_ok [OpNum 2; OpName [97%N]; OpSize 65536; OpStep 0 0 [] [] []; OpStep 65536 0 [] [] []; OpDone 0 [] [] [];
              OpName [98%N]; OpSize 2097152; OpStep 0 0 [] [] []; OpStep 2097152 0 [] [] []; OpDone 0 [] [] []] = true.
Proof. vm_compute. split; reflexivity. Qed.
