(* Lemmas about Model/Guards.v: the fixed guards bound every allocation, the integer
   parsers are total and reject what does not fit, the unfixed guards are refuted, and
   the guards the model relies on are present in the current source (Gen/Skel_guards.v). *)
From Trzsz Require Import Base.Bytes Gen.Consts Gen.Skel_guards Model.Guards.
From Coq Require Import ZArith Lia String.
Open Scope Z_scope.

(* ------------------------------------------------------------------------------------ *)
(* the structural tie: what the model assumes about the source, pinned to the generated
   description of the source *)

Lemma guards_present_data :
  Skel_guards.read_binary_calls =
  [("trzszTransfer.pipelineRecvBinaryData", "t.buffer.readBinary(int(size), t.getNewTimeout())",
    ["!(size == 0)"; "!(size < 0 || size > t.maxDataSize())"]);
   ("trzszTransfer.recvData", "t.buffer.readBinary(int(size), timeout)",
    ["!(!t.transferConfig.Binary)"; "!(size < 0 || size > t.maxDataSize())"])]%string.
Proof. reflexivity. Qed.

(* readBinary itself reserves nothing ahead of the data and grows only while data is missing *)
Lemma guards_present_readbinary :
  Skel_guards.read_binary_pregrow = [] /\
  Skel_guards.read_binary_growth = [("trzszBuffer.readBinary", "b.readBuf.Write(buf)", ["b.readBuf.Len() < size"])]%string.
Proof. split; reflexivity. Qed.

Lemma max_data_size_src_ok :
  Skel_guards.max_data_size_body =
  "{ bufSize := t.transferConfig.MaxBufSize if bufSize < 10240 { bufSize = 10240 } return bufSize * 2 }"%string.
Proof. reflexivity. Qed.

Lemma guards_present_hash :
  Skel_guards.hash_make =
  [("trzszTransfer.recvPrefixHash", "make([]byte, step)",
    ["!(tgtFile.Size <= 0 || writer == nil || writer.getFile() == nil)"; "!(hash.Over)"; "!(!match)";
     "!(step <= 0 || step > kPrefixHashStep)"])]%string /\
  Skel_guards.hash_step_defs = ["step := hash.Step - matchStep"]%string.
Proof. split; reflexivity. Qed.

Lemma guards_present_pane :
  Skel_guards.pane_sanitizers = ["if tmuxPaneColumns > filter.options.TerminalColumns { tmuxPaneColumns = 0 }"]%string /\
  Skel_guards.bar_columns_assign = [("newTextProgressBar", "columns = tmuxPaneColumns - 1", ["tmuxPaneColumns > 1"])]%string /\
  Skel_guards.bar_create =
  [("TrzszFilter.createProgressBar",
    "newTextProgressBar(filter.clientOut, filter.options.TerminalColumns, tmuxPaneColumns, filter.trigger.tmuxPrefix, colorPair)",
    ["!(quiet)"])]%string /\
  (* the bar is only ever created through createProgressBar *)
  map (fun x => fst (fst x)) Skel_guards.bar_create_calls = ["TrzszFilter.downloadFiles"; "TrzszFilter.uploadFiles"]%string /\
  map (fun x => snd (fst x)) Skel_guards.bar_create_calls =
    ["filter.createProgressBar(config.Quiet, config.TmuxPaneColumns)"; "filter.createProgressBar(config.Quiet, config.TmuxPaneColumns)"]%string.
Proof. repeat split; reflexivity. Qed.

(* steps on their way to the display: the final acknowledgement is compared with the size
   first; the per-chunk acknowledgement and the hash acknowledgement are NOT *)
Lemma guards_present_steps :
  Skel_guards.final_ack_forward =
    [("trzszTransfer.pipelineRecvFinalAck", "progressChan <- step", ["ctx.Err() == nil"; "!(step > size)"; "progressChan != nil"])]%string /\
  Skel_guards.chunk_ack_forward =
    [("trzszTransfer.pipelineRecvAck", "progressChan <- step", ["!(length != ack.length)"; "showProgress"])]%string /\
  Skel_guards.hash_ack_show =
    [("trzszTransfer.pipelineRecvHashAck", "progress.onStep(matchStep)", ["!(size == 0)"; "ctx.Err() == nil"; "!(!hashAck.Match)"; "progress != nil"])]%string.
Proof. repeat split; reflexivity. Qed.

(* every allocation / growth / repeat whose size is neither a constant nor the length of
   data already held.  A new entry is a new flow that needs a guard and a line in the model. *)
Lemma alloc_sites_known :
  Skel_guards.alloc_sites =
  [("getEllipsisString", "b.Grow(max)");
   ("newSendDataWriter", "make([]byte, 0, bufSize)");
   ("sendDataWriter.Write", "make([]byte, 0, b.bufSize)");
   ("textProgressBar.getProgressBar", "strings.Repeat(""\u2588"", fullSize)");
   ("textProgressBar.getProgressBar", "strings.Repeat(""\u2591"", emptySize)");
   ("textProgressBar.getProgressBar", "strings.Repeat(""\u2591"", emptySize)");
   ("trzszTransfer.archiveSourceFiles", "make([]*sourceFile, sourceFiles[len(sourceFiles)-1].PathID+1)");
   ("trzszTransfer.pipelineReadData", "make([]byte, m)");
   ("trzszTransfer.recvPrefixHash", "make([]byte, step)");
   ("trzszTransfer.sendFileData", "make([]byte, bufSize)");
   ("trzszTransfer.sendFileData", "make([]byte, bufSize)");
   ("trzszTransfer.sendFileData", "make([]byte, bufSize)");
   ("trzszTransfer.stripTmuxStatusLine", "make([]byte, 0, len(buf)-(bufIdx-beginIdx))");
   ("unescapeData", "make([]byte, size)")]%string.
Proof. reflexivity. Qed.

(* a panic is recovered only in these three functions' own goroutines: the pipeline stages,
   the hash stages and the servers' worker goroutine have no recover *)
Lemma recover_sites_known : Skel_guards.recover_sites = ["TrzMain"; "TrzszFilter.handleTrzsz"; "TszMain"]%string.
Proof. reflexivity. Qed.

(* constants the bound is made of *)
Lemma data_min_is_init_buffer : Consts.guards_data_min_bufsize = Consts.guards_init_buffer_size.
Proof. reflexivity. Qed.
Lemma v1_init_below_min : Consts.guards_v1_init_bufsize <= Consts.guards_data_min_bufsize.
Proof. vm_compute. discriminate. Qed.
Lemma clamp_is_arg_max : Consts.guards_bufsize_clamp = Consts.guards_arg_bufsize_max.
Proof. reflexivity. Qed.
Lemma factor_pos : 1 <= Consts.guards_data_factor.
Proof. vm_compute. discriminate. Qed.
Lemma min_bufsize_pos : 0 < Consts.guards_data_min_bufsize.
Proof. reflexivity. Qed.
Lemma clamp_no_overflow :
  Consts.guards_data_factor * Z.max Consts.guards_bufsize_clamp Consts.guards_data_min_bufsize < 2 ^ 63.
Proof. reflexivity. Qed.
Lemma hash_step_pos : 0 < Consts.guards_hash_step.
Proof. reflexivity. Qed.

(* ------------------------------------------------------------------------------------ *)
(* integer parsers *)

Lemma in_range_spec : forall bits v, gd_in_range bits v = true <-> gd_int_min bits <= v <= gd_int_max bits.
Proof. intros bits v. unfold gd_in_range. rewrite andb_true_iff, !Z.leb_le. tauto. Qed.

Lemma parse_int_in_range : forall bits s v, gd_parse_int bits s = Some v -> gd_in_range bits v = true.
Proof.
  intros bits s v Hp. unfold gd_parse_int in Hp.
  destruct s as [|c r]; [discriminate|].
  destruct (if (c =? 43)%N then (false, r) else if (c =? 45)%N then (true, r) else (false, c :: r)) as [neg ds] eqn:Hs.
  destruct ds as [|d ds']; [discriminate|].
  destruct (gd_digits_val 0 (d :: ds')) as [w|]; [|discriminate].
  destruct (gd_in_range bits (if neg then - w else w)) eqn:Hr; [|discriminate].
  inversion Hp; subst; exact Hr.
Qed.

Lemma digit_val_range : forall b d, gd_digit_val b = Some d -> 0 <= d <= 9.
Proof.
  intros b d. unfold gd_digit_val. destruct ((48 <=? b) && (b <=? 57))%N eqn:H; [|discriminate].
  apply andb_true_iff in H. destruct H as [H1 H2]. apply N.leb_le in H1. apply N.leb_le in H2.
  intros E. inversion E. lia.
Qed.

Lemma digit_not_sign : forall b d, gd_digit_val b = Some d -> (b =? 43)%N = false /\ (b =? 45)%N = false.
Proof.
  intros b d. unfold gd_digit_val. destruct ((48 <=? b) && (b <=? 57))%N eqn:H; [|discriminate].
  apply andb_true_iff in H. destruct H as [H1 _]. apply N.leb_le in H1. intros _.
  split; apply N.eqb_neq; lia.
Qed.

Lemma digits_val_mono : forall l acc v, 0 <= acc -> gd_digits_val acc l = Some v -> acc <= v.
Proof.
  induction l as [|b r IH]; intros acc v Hacc H; cbn [gd_digits_val] in H.
  - inversion H; lia.
  - destruct (gd_digit_val b) as [d|] eqn:Hd; [|discriminate].
    apply digit_val_range in Hd. apply IH in H; lia.
Qed.

(* an all-digit string (no sign) parses to its exact value or, outside the range, is rejected *)
Lemma parse_int_digits : forall bits s v, s <> [] -> gd_digits_val 0 s = Some v ->
  gd_parse_int bits s = if gd_in_range bits v then Some v else None.
Proof.
  intros bits s v Hne Hv. destruct s as [|c r]; [congruence|].
  unfold gd_parse_int. pose proof Hv as Hv'. cbn [gd_digits_val] in Hv'.
  destruct (gd_digit_val c) as [d|] eqn:Hd; [|discriminate].
  destruct (digit_not_sign _ _ Hd) as [H1 H2]. rewrite H1, H2. rewrite Hv. reflexivity.
Qed.

Lemma parse_int_rejects_overflow : forall bits s v, s <> [] -> gd_digits_val 0 s = Some v ->
  gd_int_max bits < v -> gd_parse_int bits s = None.
Proof.
  intros bits s v Hne Hv Hbig. rewrite (parse_int_digits bits s v Hne Hv).
  destruct (gd_in_range bits v) eqn:Hr; [|reflexivity].
  apply in_range_spec in Hr. lia.
Qed.

Lemma parse_int_rejects_nondigit : forall bits s, s <> [] -> gd_digits_val 0 s = None ->
  (match s with c :: _ => (c =? 43)%N = false /\ (c =? 45)%N = false | [] => True end) ->
  gd_parse_int bits s = None.
Proof.
  intros bits s Hne Hv Hsign. destruct s as [|c r]; [congruence|].
  destruct Hsign as [H1 H2]. unfold gd_parse_int. rewrite H1, H2, Hv. reflexivity.
Qed.

Lemma parse_int_empty : forall bits, gd_parse_int bits [] = None.
Proof. reflexivity. Qed.

Lemma parse_uint32_range : forall s v, gd_parse_uint32 s = Some v -> 0 <= v <= 2 ^ 32 - 1.
Proof.
  intros s v. unfold gd_parse_uint32. destruct s as [|c r]; [discriminate|].
  destruct (gd_digits_val 0 (c :: r)) as [w|] eqn:Hw; [|discriminate].
  destruct (w <=? 2 ^ 32 - 1) eqn:Hle; [|discriminate].
  intros E; inversion E; subst. apply Z.leb_le in Hle.
  apply digits_val_mono in Hw; lia.
Qed.

Lemma json_int_in_range : forall bits dflt j v, gd_in_range bits dflt = true ->
  gd_json_int bits dflt j = Some v -> gd_in_range bits v = true.
Proof.
  intros bits dflt j v Hd. destruct j as [| |w|]; cbn [gd_json_int]; intros H.
  - inversion H; subst; exact Hd.
  - inversion H; subst; exact Hd.
  - destruct (gd_in_range bits w) eqn:Hr; [|discriminate]. inversion H; subst; exact Hr.
  - discriminate.
Qed.

(* the statement used in Props: parsing is a total function whose successful results fit
   the destination type, and strings that denote a number outside it are rejected *)
Lemma int_parsers_total :
  (forall s, match gd_parse_int64 s with Some v => - 2 ^ 63 <= v <= 2 ^ 63 - 1 | None => True end) /\
  (forall s, match gd_atoi s with Some v => - 2 ^ 63 <= v <= 2 ^ 63 - 1 | None => True end) /\
  (forall s v, s <> [] -> gd_digits_val 0 s = Some v -> 2 ^ 63 - 1 < v -> gd_parse_int64 s = None) /\
  (forall s v, s <> [] -> gd_digits_val 0 s = Some v -> 2 ^ 63 < v -> gd_parse_int64 (45%N :: s) = None) /\
  (forall j v, gd_json_int 32 0 j = Some v -> - 2 ^ 31 <= v <= 2 ^ 31 - 1) /\
  (forall dflt j v, gd_in_range 64 dflt = true -> gd_json_int 64 dflt j = Some v -> - 2 ^ 63 <= v <= 2 ^ 63 - 1) /\
  (forall s v, gd_parse_uint32 s = Some v -> 0 <= v <= 2 ^ 32 - 1).
Proof.
  assert (R64 : forall s v, gd_parse_int 64 s = Some v -> - 2 ^ 63 <= v <= 2 ^ 63 - 1).
  { intros s v H. apply parse_int_in_range, in_range_spec in H.
    change (gd_int_min 64) with (- 2 ^ 63) in H. change (gd_int_max 64) with (2 ^ 63 - 1) in H. exact H. }
  split; [|split; [|split; [|split; [|split; [|split]]]]].
  - intros s. destruct (gd_parse_int64 s) as [v|] eqn:H; [|exact I]. exact (R64 s v H).
  - intros s. destruct (gd_atoi s) as [v|] eqn:H; [|exact I]. exact (R64 s v H).
  - intros s v Hne Hv Hbig. apply (parse_int_rejects_overflow 64 s v Hne Hv). exact Hbig.
  - intros s v Hne Hv Hbig. unfold gd_parse_int64, gd_parse_int. cbn [N.eqb Pos.eqb].
    destruct s as [|c r]; [congruence|]. rewrite Hv.
    destruct (gd_in_range 64 (- v)) eqn:Hr; [|reflexivity].
    apply in_range_spec in Hr. change (gd_int_min 64) with (- 2 ^ 63) in Hr. lia.
  - intros j v H. apply (json_int_in_range 32 0 j v eq_refl), in_range_spec in H.
    change (gd_int_min 32) with (- 2 ^ 31) in H. change (gd_int_max 32) with (2 ^ 31 - 1) in H. exact H.
  - intros dflt j v Hd H. apply (json_int_in_range 64 dflt j v Hd), in_range_spec in H.
    change (gd_int_min 64) with (- 2 ^ 63) in H. change (gd_int_max 64) with (2 ^ 63 - 1) in H. exact H.
  - exact parse_uint32_range.
Qed.

(* ------------------------------------------------------------------------------------ *)
(* the configuration is bounded *)

Lemma recv_config_bufsize_ok : forall j b, recv_config_bufsize j = Some b -> cfg_ok {| bufsize := b; term_cols := 0 |} = true.
Proof.
  intros j b. unfold recv_config_bufsize, cfg_ok. cbn [bufsize].
  destruct (gd_json_int 64 Consts.guards_default_bufsize j) as [w|]; [|discriminate].
  destruct (w >? Consts.guards_bufsize_clamp) eqn:Hg; intros E; inversion E; subst; apply Z.leb_le.
  - lia.
  - rewrite Z.gtb_ltb in Hg. apply Z.ltb_ge in Hg. exact Hg.
Qed.

Lemma arg_bufsize_cfg_ok : forall b t, arg_bufsize_ok b = true -> cfg_ok {| bufsize := b; term_cols := t |} = true.
Proof.
  intros b t. unfold arg_bufsize_ok, cfg_ok. cbn [bufsize]. rewrite andb_true_iff, !Z.leb_le.
  rewrite clamp_is_arg_max. lia.
Qed.

Lemma wrap64_small : forall v, - 2 ^ 63 <= v < 2 ^ 63 -> gd_wrap64 v = v.
Proof. intros v H. unfold gd_wrap64. rewrite Z.mod_small; lia. Qed.

Lemma max_data_size_exact : forall c, cfg_ok c = true -> max_data_size c = alloc_bound c.
Proof.
  intros c Hc. unfold cfg_ok in Hc. apply Z.leb_le in Hc.
  unfold max_data_size, alloc_bound.
  pose proof factor_pos as Hf. pose proof min_bufsize_pos as Hm. pose proof clamp_no_overflow as Ho.
  assert (Hmax : (if bufsize c <? Consts.guards_data_min_bufsize then Consts.guards_data_min_bufsize else bufsize c)
                 = Z.max (bufsize c) Consts.guards_data_min_bufsize).
  { destruct (bufsize c <? Consts.guards_data_min_bufsize) eqn:Hlt.
    - apply Z.ltb_lt in Hlt. lia.
    - apply Z.ltb_ge in Hlt. lia. }
  rewrite Hmax. rewrite wrap64_small; [lia|].
  assert (Z.max (bufsize c) Consts.guards_data_min_bufsize <= Z.max Consts.guards_bufsize_clamp Consts.guards_data_min_bufsize) by lia.
  assert (0 < Z.max (bufsize c) Consts.guards_data_min_bufsize) by lia.
  split; [lia|]. nia.
Qed.

(* the bound is linear in the negotiated buffer size *)
Lemma alloc_bound_linear : forall c, 0 <= bufsize c ->
  alloc_bound c <= Consts.guards_data_factor * bufsize c + Consts.guards_data_factor * Consts.guards_data_min_bufsize.
Proof. intros c H. unfold alloc_bound. pose proof factor_pos. pose proof min_bufsize_pos. nia. Qed.

(* ------------------------------------------------------------------------------------ *)
(* C12_alloc_bounded / C12_no_negative_make *)

Lemma data_accepted_bound : forall c n, cfg_ok c = true -> data_accepted c n = true -> 0 <= n <= alloc_bound c.
Proof.
  intros c n Hc H. unfold data_accepted in H. rewrite !andb_true_iff, !negb_true_iff in H.
  destruct H as [[_ Hneg] Hbig]. apply Z.ltb_ge in Hneg.
  rewrite Z.gtb_ltb in Hbig. apply Z.ltb_ge in Hbig. rewrite (max_data_size_exact c Hc) in Hbig. lia.
Qed.

Lemma hash_accepted_bound : forall step, hash_accepted step = true -> 0 < step <= Consts.guards_hash_step.
Proof.
  intros step H. unfold hash_accepted in H. rewrite negb_true_iff, orb_false_iff in H.
  destruct H as [H1 H2]. apply Z.leb_gt in H1. rewrite Z.gtb_ltb in H2. apply Z.ltb_ge in H2. lia.
Qed.

Lemma bar_columns_bound : forall term pane, bar_columns term pane <= term.
Proof.
  intros term pane. unfold bar_columns, pane_sanitize, bar_columns_of.
  destruct (pane >? term) eqn:Hg; rewrite Z.gtb_ltb in Hg.
  - cbn. lia.
  - apply Z.ltb_ge in Hg. destruct (pane >? 1); lia.
Qed.

Lemma alloc_bounded : forall f c aux n, cfg_ok c = true -> guard f c aux n = true ->
  amount f c aux n <= bound f c.
Proof.
  intros f c aux n Hc Hg. destruct f; cbn [amount bound guard] in *; try lia.
  - apply (data_accepted_bound c n Hc) in Hg. lia.
  - apply (data_accepted_bound c n Hc) in Hg. lia.
  - apply andb_true_iff in Hg. destruct Hg as [_ Hg]. apply hash_accepted_bound in Hg. lia.
  - pose proof (bar_columns_bound (term_cols c) n). lia.
Qed.

Lemma no_negative_make : forall f c aux n, sink_of f = SAlloc -> cfg_ok c = true -> guard f c aux n = true ->
  0 <= amount f c aux n.
Proof.
  intros f c aux n Hs Hc Hg. destruct f; cbn [sink_of] in Hs; try discriminate; cbn [amount guard] in *.
  - apply (data_accepted_bound c n Hc) in Hg. lia.
  - apply (data_accepted_bound c n Hc) in Hg. lia.
  - apply andb_true_iff in Hg. destruct Hg as [_ Hg]. apply hash_accepted_bound in Hg. lia.
Qed.

(* the line-level functions agree with the guard predicates *)
Lemma recv_binary_v2_guarded : forall c s n, recv_binary_data_v2 c s = DRead n -> data_accepted c n = true /\ n <> 0.
Proof.
  intros c s n. unfold recv_binary_data_v2. destruct (gd_parse_int64 s) as [v|] eqn:Hp; [|discriminate].
  destruct (v =? 0) eqn:Hz; [discriminate|].
  destruct ((v <? 0) || (v >? max_data_size c)) eqn:Hb; [discriminate|].
  intros E; inversion E; subst. apply parse_int_in_range in Hp. apply orb_false_iff in Hb. destruct Hb as [H1 H2].
  unfold data_accepted. rewrite Hp, H1, H2. split; [reflexivity|]. apply Z.eqb_neq in Hz. exact Hz.
Qed.

Lemma recv_binary_v1_guarded : forall c s n, recv_binary_data_v1 c s = DRead n -> data_accepted c n = true.
Proof.
  intros c s n. unfold recv_binary_data_v1. destruct (gd_parse_int64 s) as [v|] eqn:Hp; [|discriminate].
  destruct ((v <? 0) || (v >? max_data_size c)) eqn:Hb; [discriminate|].
  intros E; inversion E; subst. apply parse_int_in_range in Hp. apply orb_false_iff in Hb. destruct Hb as [H1 H2].
  unfold data_accepted. rewrite Hp, H1, H2. reflexivity.
Qed.

Lemma recv_binary_bounded : forall c s n, cfg_ok c = true ->
  (recv_binary_data_v2 c s = DRead n \/ recv_binary_data_v1 c s = DRead n) -> 0 <= n <= alloc_bound c.
Proof.
  intros c s n Hc [H|H].
  - apply recv_binary_v2_guarded in H. destruct H as [H _]. exact (data_accepted_bound c n Hc H).
  - apply recv_binary_v1_guarded in H. exact (data_accepted_bound c n Hc H).
Qed.

(* and what readBinary holds is covered by the bytes that have arrived *)
Lemma read_binary_held_bound : forall n arrived, 0 <= arrived ->
  0 <= read_binary_held n arrived <= arrived /\ read_binary_held n arrived <= Z.max 0 n.
Proof. intros n arrived H. unfold read_binary_held. lia. Qed.

(* the receiving hash loop never reaches the panicking make, whatever records arrive *)
Lemma recv_hashes_no_panic : forall l fsize pos ms m, snd (recv_hashes true fsize pos ms m l) <> HPanic.
Proof.
  induction l as [|h r IH]; intros fsize pos ms m; cbn [recv_hashes].
  - cbn. discriminate.
  - destruct (negb m); [apply IH|]. cbn [andb].
    destruct ((h_step h - ms <=? 0) || (h_step h - ms >? Consts.guards_hash_step)) eqn:Hg; [cbn; discriminate|].
    apply orb_false_iff in Hg. destruct Hg as [H1 H2]. apply Z.leb_gt in H1.
    rewrite Z.gtb_ltb in H2. apply Z.ltb_ge in H2.
    destruct (h_step h - ms <? 0) eqn:Hn; [apply Z.ltb_lt in Hn; lia|].
    destruct (h_step h - ms >? guards_makeslice_max) eqn:Hx.
    { rewrite Z.gtb_ltb in Hx. apply Z.ltb_lt in Hx. exfalso.
      assert (Consts.guards_hash_step <= guards_makeslice_max) by (vm_compute; discriminate). lia. }
    destruct (fsize - pos <? h_step h - ms); [cbn; discriminate|].
    specialize (IH fsize (pos + (h_step h - ms)) (if h_good h then h_step h else ms) (h_good h)).
    destruct (recv_hashes true fsize (pos + (h_step h - ms)) (if h_good h then h_step h else ms) (h_good h) r) as [acks res].
    cbn in *. exact IH.
Qed.

(* the final acknowledgement never forwards a step beyond the size *)
Lemma final_ack_bounded : forall size s st d, recv_final_ack size s = FForward st d -> st <= size /\ (d = true <-> st = size).
Proof.
  intros size s st d. unfold recv_final_ack. destruct (gd_parse_int64 s) as [v|]; [|discriminate].
  destruct (v >? size) eqn:Hg; [discriminate|]. intros E; inversion E; subst.
  rewrite Z.gtb_ltb in Hg. apply Z.ltb_ge in Hg. split; [lia|]. rewrite Z.eqb_eq. tauto.
Qed.

(* ... but the per-chunk acknowledgement and the hash acknowledgement do: any int64 gets through *)
Lemma ack_step_unguarded : forall c sent step, gd_in_range 64 step = true ->
  guard FAckStep c sent step = true /\ guard FHashAckStep c sent step = true.
Proof. intros c sent step H. cbn [guard]. rewrite H. split; reflexivity. Qed.

Lemma hash_ack_shown_before_checked : exists size step, recv_hash_ack size step true = HAShow step false true /\ step > size.
Proof. exists 100, 250. split; [reflexivity|lia]. Qed.

(* ------------------------------------------------------------------------------------ *)
(* the table: every flow, its sink, and whether -1 and 2^62 get through the check
   (with 10 MiB buffers, a 100-column terminal, second operand 1000) *)

Definition probe_cfg : cfg := {| bufsize := Consts.guards_default_bufsize; term_cols := 100 |}.
Definition table_row (f : flow) := (f, sink_of f, guard f probe_cfg 1000 (-1), guard f probe_cfg 1000 (2 ^ 62)).

Lemma flow_table : map table_row all_flows =
  [(FDataSizeV2, SAlloc, false, false);
   (FDataSizeV1, SAlloc, false, false);
   (FHashStep, SAlloc, false, false);
   (FAckStep, SProgress, true, true);           (* unguarded: relies on the progress display being total (C20) *)
   (FAckLen, SCompare, false, false);
   (FFinalStep, SProgress, true, false);
   (FHashAckStep, SProgress, true, true);       (* shown before compared: relies on C20 *)
   (FPaneWidth, SRepeat, true, false);          (* int32; whatever gets through is cut to the terminal width *)
   (FNum, SLoop, true, true);
   (FSize, SProgress, true, true);
   (FNameSize, SProgress, true, true);
   (FArchiveSize, SCompare, true, true);
   (FTargetSize, SCompare, false, true);
   (FBufsize, SCompare, true, true);            (* clamped by recv_config_bufsize *)
   (FTimeout, SCompare, true, true);
   (FProtocol, SCompare, true, true);
   (FVersion, SCompare, false, false);
   (FPort, SCompare, true, true)].
Proof. vm_compute. reflexivity. Qed.

Lemma all_flows_complete : forall f, In f all_flows.
Proof. destruct f; cbn; tauto. Qed.

(* the only flows that end in an allocation or a repeat count are the four bounded above *)
Lemma alloc_flows : filter (fun f => match sink_of f with SAlloc | SRepeat => true | _ => false end) all_flows
  = [FDataSizeV2; FDataSizeV1; FHashStep; FPaneWidth].
Proof. reflexivity. Qed.

(* ------------------------------------------------------------------------------------ *)
(* the code before the fixes *)

Lemma data_unfixed_refuted : exists c n, cfg_ok c = true /\ guard_unfixed FDataSizeV2 c 0 n = true /\
  amount_unfixed FDataSizeV2 c 0 n > bound FDataSizeV2 c /\
  recv_binary_data_v2_unfixed c [56; 53; 56; 57; 57; 51; 52; 53; 57; 50]%N = DRead n /\
  read_binary_held_unfixed n 0 = n.
Proof. exists probe_cfg, 8589934592. vm_compute. repeat split; reflexivity. Qed.

Lemma data_unfixed_refuted_huge : exists c n, cfg_ok c = true /\ guard_unfixed FDataSizeV2 c 0 n = true /\
  amount_unfixed FDataSizeV2 c 0 n > bound FDataSizeV2 c /\ n = 2 ^ 62.
Proof. exists probe_cfg, 4611686018427387904. vm_compute. repeat split; reflexivity. Qed.

Lemma hash_unfixed_refuted :
  (exists c aux n, guard_unfixed FHashStep c aux n = true /\ amount_unfixed FHashStep c aux n < 0) /\
  (exists c aux n, guard_unfixed FHashStep c aux n = true /\ amount_unfixed FHashStep c aux n > bound FHashStep c) /\
  snd (recv_hashes false 1000 0 0 true [{| h_step := -1; h_good := false |}]) = HPanic.
Proof.
  split; [|split].
  - exists probe_cfg, 0, (-1). vm_compute. split; reflexivity.
  - exists probe_cfg, 0, (2 ^ 40). vm_compute. split; reflexivity.
  - reflexivity.
Qed.

Lemma pane_unfixed_refuted : exists c n, guard_unfixed FPaneWidth c 0 n = true /\
  amount_unfixed FPaneWidth c 0 n > bound FPaneWidth c /\ amount_unfixed FPaneWidth c 0 n = 49999999.
Proof. exists probe_cfg, 50000000. vm_compute. repeat split; reflexivity. Qed.

(* non-vacuity of the bounded theorems *)
Example alloc_bounded_nonvacuous :
  cfg_ok probe_cfg = true /\ guard FDataSizeV2 probe_cfg 0 20971520 = true /\ guard FDataSizeV2 probe_cfg 0 20971521 = false /\
  guard FHashStep probe_cfg 10485760 20971520 = true /\ guard FHashStep probe_cfg 10485760 20971521 = false /\
  guard FHashStep probe_cfg 10 10 = false /\
  bar_columns 100 80 = 79 /\ bar_columns 100 100 = 99 /\ bar_columns 100 101 = 100 /\ bar_columns 100 50000000 = 100.
Proof. vm_compute. repeat split; reflexivity. Qed.

(* ------------------------------------------------------------------------------------ *)
(* the sender's chunk buffer *)

(* every store to bufferSize and the conditions in front of it; the protocol-1 sender's size *)
Lemma guards_present_bufsize :
  Skel_guards.bufsize_stores =
  [("newTransfer", "t.bufferSize.Store(10240)", []);
   ("trzszTransfer.pipelineRecvAck", "t.bufferSize.Store(minInt64(bufSize*2, t.transferConfig.MaxBufSize))",
    ["!(length != ack.length)"; "ignoreChunkTimeCount <= 0 || t.bufInitPhase.Load()";
     "length == bufSize && chunkTime < 500*time.Millisecond && bufSize < t.transferConfig.MaxBufSize"]);
   ("trzszTransfer.pipelineRecvAck", "t.bufferSize.Store(bufSize)",
    ["!(length != ack.length)"; "ignoreChunkTimeCount <= 0 || t.bufInitPhase.Load()";
     "!(length == bufSize && chunkTime < 500*time.Millisecond && bufSize < t.transferConfig.MaxBufSize)";
     "chunkTime >= 2*time.Second && length <= bufSize"])]%string /\
  Skel_guards.v1_bufsize_assign =
  [("trzszTransfer.sendFileData", "bufSize := int64(1024)", []);
   ("trzszTransfer.sendFileData", "bufSize = minInt64(bufSize*2, t.transferConfig.MaxBufSize)",
    ["step < size"; "length == bufSize && chunkTime < 500*time.Millisecond && bufSize < t.transferConfig.MaxBufSize"]);
   ("trzszTransfer.sendFileData", "bufSize = 1024",
    ["step < size"; "!(length == bufSize && chunkTime < 500*time.Millisecond && bufSize < t.transferConfig.MaxBufSize)";
     "chunkTime >= 2*time.Second && bufSize > 1024"])]%string.
Proof. split; reflexivity. Qed.

Lemma min_chunk_le_init : 1 <= Consts.guards_min_chunk <= Consts.guards_init_buffer_size.
Proof. vm_compute. split; discriminate. Qed.
Lemma v1_init_pos : 1 <= Consts.guards_v1_init_bufsize.
Proof. vm_compute. discriminate. Qed.
Lemma grow_factor_ok : 1 <= Consts.guards_grow_factor /\ Consts.guards_grow_factor * Consts.guards_bufsize_clamp < 2 ^ 63.
Proof. vm_compute. split; [discriminate|reflexivity]. Qed.
Lemma slow_secs_ok : 1 <= Consts.guards_ack_slow_ms / 1000.
Proof. vm_compute. discriminate. Qed.

Definition cap_inv (lo init maxbuf c : Z) : Prop := lo <= c <= Z.max init maxbuf.

Lemma grow_in_range : forall lo init maxbuf bs, 1 <= lo -> maxbuf <= Consts.guards_bufsize_clamp ->
  cap_inv lo init maxbuf bs -> bs < maxbuf ->
  cap_inv lo init maxbuf (gd_min64 (gd_wrap64 (bs * Consts.guards_grow_factor)) maxbuf).
Proof.
  intros lo init maxbuf bs Hlo Hc [H1 H2] Hlt.
  destruct grow_factor_ok as [Hf Ho].
  assert (Hw : gd_wrap64 (bs * Consts.guards_grow_factor) = bs * Consts.guards_grow_factor).
  { apply wrap64_small. split; [nia|]. nia. }
  rewrite Hw. unfold gd_min64, cap_inv.
  destruct (bs * Consts.guards_grow_factor <? maxbuf) eqn:Hm.
  - apply Z.ltb_lt in Hm. split; [nia|lia].
  - split; lia.
Qed.

Lemma bufsize_step_inv : forall maxbuf bs a, maxbuf <= Consts.guards_bufsize_clamp -> gd_ack_ok a = true ->
  cap_inv Consts.guards_min_chunk Consts.guards_init_buffer_size maxbuf bs ->
  cap_inv Consts.guards_min_chunk Consts.guards_init_buffer_size maxbuf (gd_bufsize_step maxbuf bs a).
Proof.
  intros maxbuf bs a Hc Hok Hinv. unfold gd_bufsize_step.
  pose proof min_chunk_le_init as [Hm1 Hm2].
  destruct ((ga_len a =? bs) && gd_is_fast (ga_time a) && (bs <? maxbuf)) eqn:Hg.
  - apply andb_true_iff in Hg. destruct Hg as [_ Hlt]. apply Z.ltb_lt in Hlt.
    apply grow_in_range; assumption.
  - destruct (ga_time a) as [| |k] eqn:Ht; try exact Hinv.
    destruct (ga_len a <=? bs); [|exact Hinv].
    unfold gd_ack_ok in Hok. rewrite Ht in Hok. apply Z.leb_le in Hok. pose proof slow_secs_ok as Hs.
    destruct Hinv as [H1 H2].
    assert (Hq : 0 <= Z.quot bs k <= bs).
    { rewrite Z.quot_div_nonneg by lia. split; [apply Z.div_pos; lia|].
      apply Z.div_le_upper_bound; [lia|nia]. }
    unfold cap_inv. destruct (Z.quot bs k <? Consts.guards_min_chunk) eqn:Hlt.
    + lia.
    + apply Z.ltb_ge in Hlt. lia.
Qed.

Lemma bufsize_run_inv : forall maxbuf l bs, maxbuf <= Consts.guards_bufsize_clamp -> forallb gd_ack_ok l = true ->
  cap_inv Consts.guards_min_chunk Consts.guards_init_buffer_size maxbuf bs ->
  Forall (cap_inv Consts.guards_min_chunk Consts.guards_init_buffer_size maxbuf) (gd_bufsize_run maxbuf bs l).
Proof.
  intros maxbuf l. induction l as [|a r IH]; intros bs Hc Hok Hinv; cbn [gd_bufsize_run].
  - constructor; [exact Hinv|constructor].
  - cbn [forallb] in Hok. apply andb_true_iff in Hok. destruct Hok as [Ha Hr].
    constructor; [exact Hinv|]. apply IH; try assumption. apply bufsize_step_inv; assumption.
Qed.

(* the capacity handed to make is always at least the floor (so positive) and at most the larger of
   the initial size and the negotiated limit - for EVERY announced limit that recvConfig lets
   through (zero and negative ones included) and every sequence of acknowledgements *)
Lemma capacity_bounded : forall maxbuf l, maxbuf <= Consts.guards_bufsize_clamp -> forallb gd_ack_ok l = true ->
  Forall (fun c => Consts.guards_min_chunk <= c <= Z.max Consts.guards_init_buffer_size maxbuf) (gd_capacities maxbuf l).
Proof.
  intros maxbuf l Hc Hok. apply bufsize_run_inv; try assumption.
  pose proof min_chunk_le_init. unfold cap_inv. lia.
Qed.

Lemma capacity_bounded_cfg : forall j maxbuf l, recv_config_bufsize j = Some maxbuf -> forallb gd_ack_ok l = true ->
  Forall (fun c => 1 <= c <= Z.max Consts.guards_init_buffer_size Consts.guards_bufsize_clamp) (gd_capacities maxbuf l).
Proof.
  intros j maxbuf l Hj Hok. apply recv_config_bufsize_ok in Hj. unfold cfg_ok in Hj. cbn [bufsize] in Hj. apply Z.leb_le in Hj.
  pose proof (capacity_bounded maxbuf l Hj Hok) as H. pose proof min_chunk_le_init.
  eapply Forall_impl; [|exact H]. cbn beta. intros c Hc. lia.
Qed.

(* protocol 1 *)
Lemma bufsize_step_v1_inv : forall maxbuf bs a, maxbuf <= Consts.guards_bufsize_clamp ->
  cap_inv Consts.guards_v1_init_bufsize Consts.guards_v1_init_bufsize maxbuf bs ->
  cap_inv Consts.guards_v1_init_bufsize Consts.guards_v1_init_bufsize maxbuf (gd_bufsize_step_v1 maxbuf bs a).
Proof.
  intros maxbuf bs a Hc Hinv. unfold gd_bufsize_step_v1. pose proof v1_init_pos as Hp.
  destruct ((ga_len a =? bs) && gd_is_fast (ga_time a) && (bs <? maxbuf)) eqn:Hg.
  - apply andb_true_iff in Hg. destruct Hg as [_ Hlt]. apply Z.ltb_lt in Hlt.
    apply grow_in_range; assumption.
  - destruct (ga_time a); try exact Hinv.
    destruct (bs >? Consts.guards_v1_init_bufsize); [|exact Hinv]. unfold cap_inv in *. lia.
Qed.

Lemma capacity_bounded_v1 : forall maxbuf l, maxbuf <= Consts.guards_bufsize_clamp ->
  Forall (fun c => 1 <= c <= Z.max Consts.guards_v1_init_bufsize maxbuf) (gd_bufsize_run_v1 maxbuf Consts.guards_v1_init_bufsize l).
Proof.
  intros maxbuf l Hc. pose proof v1_init_pos as Hp.
  assert (H : forall l bs, cap_inv Consts.guards_v1_init_bufsize Consts.guards_v1_init_bufsize maxbuf bs ->
              Forall (cap_inv Consts.guards_v1_init_bufsize Consts.guards_v1_init_bufsize maxbuf) (gd_bufsize_run_v1 maxbuf bs l)).
  { induction l0 as [|a r IH]; intros bs Hinv; cbn [gd_bufsize_run_v1].
    - constructor; [exact Hinv|constructor].
    - constructor; [exact Hinv|]. apply IH. apply bufsize_step_v1_inv; assumption. }
  eapply Forall_impl; [|apply H; unfold cap_inv; lia]. cbn beta. unfold cap_inv. intros c Hcc. lia.
Qed.

(* "the capacity stays within what the peer announced, or the configuration is rejected" is NOT what
   the code does: recvConfig rejects no integer, and the buffer starts at its own initial size *)
Definition capacity_within_announced_full : Prop :=
  forall j maxbuf l, recv_config_bufsize j = Some maxbuf -> forallb gd_ack_ok l = true ->
  Forall (fun c => 1 <= c <= maxbuf) (gd_capacities maxbuf l).

Lemma capacity_within_announced_refuted :
  (exists j maxbuf, recv_config_bufsize j = Some maxbuf /\ maxbuf = -1 /\ gd_capacities maxbuf [] = [10240]) /\
  (exists j maxbuf, recv_config_bufsize j = Some maxbuf /\ maxbuf = 1024 /\ gd_capacities maxbuf [] = [10240]) /\
  ~ capacity_within_announced_full.
Proof.
  split; [|split].
  - exists (JInt (-1)), (-1). repeat split; reflexivity.
  - exists (JInt 1024), 1024. repeat split; reflexivity.
  - intros H. specialize (H (JInt (-1)) (-1) [] eq_refl eq_refl).
    inversion H as [|c r Hc _]. subst. vm_compute in Hc. destruct Hc as [_ Hc]. apply Hc. reflexivity.
Qed.

(* with the growth guard relaxed to an inequality test a negative limit is stored after one full,
   fast chunk, and make is handed a negative capacity *)
Lemma growth_guard_ne_refuted : exists maxbuf a, maxbuf <= Consts.guards_bufsize_clamp /\ gd_ack_ok a = true /\
  gd_bufsize_step_ne maxbuf Consts.guards_init_buffer_size a = -1.
Proof. exists (-1), {| ga_len := 10240; ga_time := GdFast |}. vm_compute. repeat split; try reflexivity. discriminate. Qed.

(* ------------------------------------------------------------------------------------ *)
(* time as an input *)

Lemma slow_threshold_whole_second : 1000 <= Consts.guards_ack_slow_ms.
Proof. vm_compute. discriminate. Qed.

(* no duration makes the divisor zero, provided the shrink threshold is at least one second *)
Lemma ack_step_total_thr : forall thr maxbuf bs len ms, 1000 <= thr ->
  gd_bufsize_step_ms thr maxbuf bs len ms <> None.
Proof.
  intros thr maxbuf bs len ms Hthr. unfold gd_bufsize_step_ms.
  destruct ((len =? bs) && (ms <? Consts.guards_ack_fast_ms) && (bs <? maxbuf)); [discriminate|].
  destruct ((thr <=? ms) && (len <=? bs)) eqn:Hs; [|discriminate].
  apply andb_true_iff in Hs. destruct Hs as [Hs _]. apply Z.leb_le in Hs.
  assert (1 <= ms / 1000) by (apply Z.div_le_lower_bound; lia).
  destruct (ms / 1000 =? 0) eqn:Hk; [apply Z.eqb_eq in Hk; lia|discriminate].
Qed.

Lemma ack_step_total : forall maxbuf bs len ms, gd_bufsize_step_ms Consts.guards_ack_slow_ms maxbuf bs len ms <> None.
Proof. intros. apply ack_step_total_thr. exact slow_threshold_whole_second. Qed.

(* the step in milliseconds is the step in classes *)
Lemma step_ms_is_step : forall maxbuf bs len ms,
  gd_bufsize_step_ms Consts.guards_ack_slow_ms maxbuf bs len ms =
  Some (gd_bufsize_step maxbuf bs {| ga_len := len; ga_time := gd_class_of_ms ms |}).
Proof.
  intros maxbuf bs len ms. unfold gd_bufsize_step_ms, gd_bufsize_step, gd_class_of_ms. cbn [ga_len ga_time].
  assert (Hfs : Consts.guards_ack_fast_ms <= Consts.guards_ack_slow_ms) by (vm_compute; discriminate).
  pose proof slow_threshold_whole_second as Hsl.
  destruct (ms <? Consts.guards_ack_fast_ms) eqn:Hf.
  - cbn [gd_is_fast]. apply Z.ltb_lt in Hf.
    destruct ((len =? bs) && true && (bs <? maxbuf)); [reflexivity|].
    assert (Hn : (Consts.guards_ack_slow_ms <=? ms) = false) by (apply Z.leb_gt; lia). rewrite Hn. reflexivity.
  - apply Z.ltb_ge in Hf. rewrite andb_false_r. cbn [andb].
    destruct (ms <? Consts.guards_ack_slow_ms) eqn:Hm.
    + cbn [gd_is_fast]. rewrite andb_false_r. cbn [andb]. apply Z.ltb_lt in Hm.
      assert (Hn : (Consts.guards_ack_slow_ms <=? ms) = false) by (apply Z.leb_gt; lia). rewrite Hn. reflexivity.
    + cbn [gd_is_fast]. rewrite andb_false_r. cbn [andb]. apply Z.ltb_ge in Hm.
      assert (Hn : (Consts.guards_ack_slow_ms <=? ms) = true) by (apply Z.leb_le; lia). rewrite Hn. cbn [andb].
      destruct (len <=? bs); [|reflexivity].
      assert (1 <= ms / 1000) by (apply Z.div_le_lower_bound; lia).
      destruct (ms / 1000 =? 0) eqn:Hk; [apply Z.eqb_eq in Hk; lia|reflexivity].
Qed.

Lemma class_of_ms_ok : forall ms, gd_ack_ok {| ga_len := 0; ga_time := gd_class_of_ms ms |} = true.
Proof.
  intros ms. unfold gd_ack_ok, gd_class_of_ms. cbn [ga_time].
  destruct (ms <? Consts.guards_ack_fast_ms); [reflexivity|].
  destruct (ms <? Consts.guards_ack_slow_ms) eqn:Hm; [reflexivity|]. apply Z.ltb_ge in Hm.
  apply Z.leb_le. apply Z.div_le_mono; [lia|exact Hm].
Qed.

(* a whole run in milliseconds never faults and is the run in classes: with it, the bound on
   the capacities holds for every sequence of (length, duration) the peer can cause *)
Lemma run_ms_is_run : forall maxbuf l bs,
  gd_bufsize_run_ms Consts.guards_ack_slow_ms maxbuf bs l =
  Some (gd_bufsize_run maxbuf bs (map (fun x => {| ga_len := fst x; ga_time := gd_class_of_ms (snd x) |}) l)).
Proof.
  intros maxbuf l. induction l as [|[len ms] r IH]; intros bs; cbn [gd_bufsize_run_ms gd_bufsize_run map fst snd].
  - reflexivity.
  - rewrite step_ms_is_step. rewrite IH. reflexivity.
Qed.

Lemma capacities_ms_bounded : forall maxbuf l, maxbuf <= Consts.guards_bufsize_clamp ->
  exists cs, gd_capacities_ms maxbuf l = Some cs /\
  Forall (fun c => Consts.guards_min_chunk <= c <= Z.max Consts.guards_init_buffer_size maxbuf) cs.
Proof.
  intros maxbuf l Hc. unfold gd_capacities_ms. rewrite run_ms_is_run. eexists. split; [reflexivity|].
  apply (capacity_bounded maxbuf _ Hc).
  apply forallb_forall. intros a Ha. apply in_map_iff in Ha. destruct Ha as [[len ms] [Ha _]]. subst a.
  cbn [fst snd]. pose proof (class_of_ms_ok ms) as H. unfold gd_ack_ok in *. cbn [ga_time] in *. exact H.
Qed.

(* with the shrink threshold at the fast threshold (500 ms) an acknowledgement that arrives
   between half a second and a second divides by zero *)
Lemma ack_step_threshold_refuted : exists maxbuf bs len ms, 0 <= ms /\
  gd_bufsize_step_ms Consts.guards_ack_fast_ms maxbuf bs len ms = None.
Proof. exists 10485760, 10240, 10240, 700. split; [lia|reflexivity]. Qed.

(* the boundary durations themselves, on the model *)
Lemma ack_step_boundaries :
  forallb (fun ms => forallb (fun len => match gd_bufsize_step_ms Consts.guards_ack_slow_ms 10485760 10240 len ms with Some _ => true | None => false end)
                             [0; 7; 5120; 10240; 20480]) gd_boundary_ms = true.
Proof. vm_compute. reflexivity. Qed.

(* ------------------------------------------------------------------------------------ *)
(* the archive writer's dispatch *)

Lemma guards_present_archive_write :
  Skel_guards.archive_file_write =
  [("archiveFileWriter.Write", "f.file.Write(p[:int(m)])", ["f.left > 0 && f.file != nil"])]%string.
Proof. reflexivity. Qed.

Lemma aw_dispatch_total : forall left has_file, gd_aw_dispatch true left has_file <> GdAwNilDeref.
Proof. intros left has_file. unfold gd_aw_dispatch. destruct (0 <? left), has_file; discriminate. Qed.

Lemma aw_ways_total : forall hs left has_file, ~ In GdAwNilDeref (gd_aw_ways true left has_file hs).
Proof.
  induction hs as [|[[d sz] k] r IH]; intros left has_file; cbn [gd_aw_ways].
  - intros [].
  - unfold gd_aw_after_header. intros [H|H].
    + exact (aw_dispatch_total _ _ H).
    + apply in_app_or in H. destruct H as [H|H].
      * apply repeat_spec in H. symmetry in H. exact (aw_dispatch_total _ _ H).
      * exact (IH _ _ H).
Qed.

(* without the nil check: a directory entry that announces a size, then any further Write *)
Lemma aw_nilcheck_refuted : In GdAwNilDeref (gd_aw_ways false 0 false [(true, 5, 1%nat)]).
Proof. vm_compute. right. left. reflexivity. Qed.

(* ------------------------------------------------------------------------------------ *)
(* line splitting *)

Lemma guards_present_line_split :
  Skel_guards.line_split_sites =
  [("decodeRelayBufferString", "line[1:idx]", ["!(idx < 1)"]);
   ("trzszTransfer.recvCheck", "line[1:idx]", ["!(idx < 1)"]);
   ("trzszTransfer.recvCheckV2", "line[1:idx]", ["!(idx < 1)"])]%string.
Proof. reflexivity. Qed.

Lemma line_split_total : forall line, gd_line_split 1 line <> GdSplitPanic.
Proof.
  intros line. unfold gd_line_split. destruct (index_byte 58%N line) as [i|]; [|cbn; discriminate].
  destruct (Z.of_nat i <? 1) eqn:H; [discriminate|]. apply Z.ltb_ge in H.
  destruct (i <? 1)%nat eqn:H2; [apply Nat.ltb_lt in H2; lia|discriminate].
Qed.

Lemma line_split_weak_guard_refuted : gd_line_split 0 [58; 119; 113]%N = GdSplitPanic.
Proof. reflexivity. Qed.

(* ------------------------------------------------------------------------------------ *)
(* two peer numbers that bound each other *)

(* the upper bound of the guard in front of recvPrefixHash's make is a constant expression of the
   code, it is compared with the very variable make receives, and its value is kPrefixHashStep *)
Lemma guards_hash_step_bound_is_const :
  Consts.guards_hash_step_bound_const = true /\ Consts.guards_hash_step_bound_on_make_arg = true /\
  Consts.guards_hash_step_bound = Consts.guards_hash_step.
Proof. repeat split; reflexivity. Qed.

(* with a constant bound the amount handed to make is bounded whatever size and step the peer
   announces, consistent with each other or not *)
Lemma hash_guard2_const_bounded : forall size ms hs,
  gd_hash_guard2 false Consts.guards_hash_step_bound size ms hs = true -> 0 < hs - ms <= Consts.guards_hash_step.
Proof.
  intros size ms hs H. unfold gd_hash_guard2 in H. rewrite negb_true_iff, orb_false_iff in H.
  destruct H as [H1 H2]. apply Z.leb_gt in H1. rewrite Z.gtb_ltb in H2. apply Z.ltb_ge in H2.
  destruct guards_hash_step_bound_is_const as [_ [_ Hb]]. rewrite Hb in H2. lia.
Qed.

(* with the announced size as the bound there is none: the peer chooses both *)
Lemma hash_guard2_by_size_refuted : forall n, 0 < n ->
  gd_hash_guard2 true Consts.guards_hash_step_bound n 0 n = true.
Proof.
  intros n Hn. unfold gd_hash_guard2. rewrite Z.sub_0_r.
  assert (H1 : (n <=? 0) = false) by (apply Z.leb_gt; lia).
  assert (H2 : (n >? n) = false) by (rewrite Z.gtb_ltb; apply Z.ltb_irrefl).
  rewrite H1, H2. reflexivity.
Qed.

Lemma hash_guard2_by_size_witness :
  gd_hash_guard2 true Consts.guards_hash_step_bound (2 ^ 62) 0 (2 ^ 62) = true /\ 2 ^ 62 > Consts.guards_hash_step /\
  gd_hash_guard2 false Consts.guards_hash_step_bound (2 ^ 62) 0 (2 ^ 62) = false.
Proof. vm_compute. repeat split; reflexivity. Qed.

Lemma pair_accepts_unbounded : forall n, 0 < n -> gd_pair_accepts n n = true.
Proof. intros n Hn. unfold gd_pair_accepts. apply andb_true_iff. split; [apply Z.ltb_lt; lia|apply Z.leb_refl]. Qed.
