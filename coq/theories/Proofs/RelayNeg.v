(* C14 — proofs about Model/RelayNeg.v *)
From Coq Require Import List NArith ZArith Bool Lia.
From Trzsz Require Import Base.Bytes Gen.Consts Model.Detector Model.RelayNeg Proofs.Detector.
Import ListNotations.
Open Scope N_scope.

(* ------------------------------------------------------------------------------- *)
(* 0. What the model hard-codes about the source, pinned to the generated values *)

(* the records of the model have exactly the JSON-visible fields of the Go structs *)
Lemma action_fields_src_ok : map fst relayneg_action_fields =
  [ [108;97;110;103] (* lang *); [118;101;114;115;105;111;110] (* version *);
    [99;111;110;102;105;114;109] (* confirm *); [110;101;119;108;105;110;101] (* newline *);
    [112;114;111;116;111;99;111;108] (* protocol *); [98;105;110;97;114;121] (* binary *);
    [115;117;112;112;111;114;116;95;100;105;114] (* support_dir *); [116;117;110;110;101;108] (* tunnel *);
    [102;111;114;107] (* fork *) ].
Proof. reflexivity. Qed.

Lemma config_fields_src_ok : map fst relayneg_config_fields =
  [ [113;117;105;101;116] (* quiet *); [98;105;110;97;114;121] (* binary *);
    [100;105;114;101;99;116;111;114;121] (* directory *); [111;118;101;114;119;114;105;116;101] (* overwrite *);
    [116;105;109;101;111;117;116] (* timeout *); [110;101;119;108;105;110;101] (* newline *);
    [112;114;111;116;111;99;111;108] (* protocol *); [98;117;102;115;105;122;101] (* bufsize *);
    [101;115;99;97;112;101;95;99;104;97;114;115] (* escape_chars *);
    [116;109;117;120;95;112;97;110;101;95;119;105;100;116;104] (* tmux_pane_width *);
    [116;109;117;120;95;111;117;116;112;117;116;95;106;117;110;107] (* tmux_output_junk *);
    [99;111;109;112;114;101;115;115] (* compress *); [102;111;114;107] (* fork *) ].
Proof. reflexivity. Qed.

(* the non-nil escape table is re-marshalled as {}: no exported field, no marshaler *)
Lemma escape_marshal_src_ok :
  relayneg_escape_table_exported_fields = 0 /\ relayneg_escape_table_has_marshaler = false.
Proof. split; reflexivity. Qed.

(* the three status constants are distinct, in the order standby / handshaking / transferring *)
Lemma status_order_src_ok :
  (relayneg_relay_stand_by <? relayneg_relay_handshaking) = true /\
  (relayneg_relay_handshaking <? relayneg_relay_transferring) = true.
Proof. split; reflexivity. Qed.

Lemma status_code_inj : forall s t, rn_status_code s = rn_status_code t -> s = t.
Proof. intros [] []; cbn; intro H; try reflexivity; discriminate H. Qed.

(* the relay decodes ACT with the defaults of the server, and CFG with those of the client *)
Lemma act_defaults_agree : relay_action_init = server_action_init.
Proof. reflexivity. Qed.

Lemma cfg_defaults_agree : forall e tunnel, relay_config_init e tunnel = rn_client_init (ne_win_server e) tunnel.
Proof. intros e tunnel. unfold relay_config_init, rn_client_init. destruct (ne_win_server e), tunnel; reflexivity. Qed.

(* all four loops (main channel and tunnel, both directions) test the same three markers *)
Lemma markers_src_ok :
  relayneg_markers_in = [[35;69;88;73;84;58]; [35;70;65;73;76;58]; [35;102;97;105;108;58]] /\
  relayneg_markers_out = relayneg_markers_in /\
  relayneg_markers_tunnel_in = relayneg_markers_in /\
  relayneg_markers_tunnel_out = relayneg_markers_in.
Proof. repeat split; reflexivity. Qed.

(* ------------------------------------------------------------------------------- *)
(* 1. One relay only narrows *)

Lemma proto_clamp : forall p, (if (p >? relayneg_protocol_version)%Z then relayneg_protocol_version else p) =
  Z.min p relayneg_protocol_version.
Proof. intro p. destruct (Z.gtb_spec p relayneg_protocol_version) as [Hgt | Hle]; lia. Qed.

Theorem narrow_action : forall a, let a' := rewrite_action a in
  (na_binary a' = true -> na_binary a = true /\ na_tunnel a = true) /\
  (na_tunnel a = true -> na_binary a' = na_binary a) /\
  na_protocol a' = Z.min (na_protocol a) relayneg_protocol_version /\
  ((na_protocol a <= relayneg_protocol_version)%Z -> na_protocol a' = na_protocol a) /\
  na_lang a' = na_lang a /\ na_version a' = na_version a /\ na_confirm a' = na_confirm a /\
  na_newline a' = na_newline a /\ na_support_dir a' = na_support_dir a /\
  na_tunnel a' = na_tunnel a /\ na_fork a' = na_fork a.
Proof.
  intros [lang ver conf nl proto bin dir tun fork]. cbn [rewrite_action na_binary na_tunnel na_protocol na_lang
    na_version na_confirm na_newline na_support_dir na_fork].
  rewrite proto_clamp.
  repeat split; try reflexivity.
  - destruct tun, bin; cbn in *; congruence.
  - destruct tun, bin; cbn in *; congruence.
  - intro Ht; subst tun; reflexivity.
  - intro Hle; lia.
Qed.

Lemma rewrite_action_idem : forall a, rewrite_action (rewrite_action a) = rewrite_action a.
Proof.
  intros [lang ver conf nl proto bin dir tun fork]. unfold rewrite_action.
  cbn [na_binary na_tunnel na_protocol na_lang na_version na_confirm na_newline na_support_dir na_fork].
  rewrite !proto_clamp. f_equal.
  - lia.
  - destruct tun; reflexivity.
Qed.

(* decoding what json.Marshal wrote gives the struct back, whatever the defaults *)
Lemma decode_encode_action : forall base a, decode_action_into base (encode_action a) = a.
Proof. intros base []. reflexivity. Qed.

Lemma decode_encode_config : forall base c, nc_escape base = None -> nc_escape c = None ->
  decode_config_into base (encode_config c) = Some c.
Proof. intros base [] Hb H. cbn in H. subst. unfold decode_config_into. cbn. rewrite Hb. reflexivity. Qed.

(* what the server decodes behind one relay is the narrowing of what it would decode directly *)
Theorem relay_action_narrows : forall w,
  decode_action_into server_action_init (relay_action w) =
  rewrite_action (decode_action_into server_action_init w).
Proof. intro w. unfold relay_action. rewrite decode_encode_action, act_defaults_agree. reflexivity. Qed.

Theorem narrow_config : forall e c, let c' := rewrite_config e c in
  nc_quiet c' = nc_quiet c /\ nc_binary c' = nc_binary c /\ nc_directory c' = nc_directory c /\
  nc_overwrite c' = nc_overwrite c /\ nc_timeout c' = nc_timeout c /\ nc_newline c' = nc_newline c /\
  nc_protocol c' = nc_protocol c /\ nc_bufsize c' = nc_bufsize c /\ nc_escape c' = nc_escape c /\
  nc_compress c' = nc_compress c /\ nc_fork c' = nc_fork c /\
  (nc_junk c = true -> nc_junk c' = true) /\
  (nc_junk c' = true -> nc_junk c = true \/ ne_tmux_mode e = relayneg_tmux_normal_mode) /\
  ((nc_pane_width c > 0)%Z -> nc_pane_width c' = nc_pane_width c) /\
  (nc_pane_width c' <> nc_pane_width c ->
     (nc_pane_width c <= 0)%Z /\ (ne_pane_width e > 0)%Z /\ nc_pane_width c' = ne_pane_width e).
Proof.
  intros e [q b d o t nl p bs esc pw j cm f]. cbn [rewrite_config nc_quiet nc_binary nc_directory nc_overwrite
    nc_timeout nc_newline nc_protocol nc_bufsize nc_escape nc_pane_width nc_junk nc_compress nc_fork].
  do 11 (split; [reflexivity |]).
  split; [| split; [| split; [| intro Hne; split; [| split]]]].
  - intro Hj; subst j. destruct (ne_tmux_mode e =? relayneg_tmux_normal_mode); reflexivity.
  - destruct (N.eqb_spec (ne_tmux_mode e) relayneg_tmux_normal_mode) as [Heq | Hne]; intro Hj; [right; exact Heq | left; exact Hj].
  - intro Hpos. destruct (Z.leb_spec pw 0) as [Hle | Hgt]; [exfalso; lia | reflexivity].
  - revert Hne.
    destruct (Z.leb_spec pw 0) as [Hle | Hgt]; destruct (Z.gtb_spec (ne_pane_width e) 0) as [Hw | Hw];
      cbn [andb]; intro Hne; solve [congruence | lia].
  - revert Hne.
    destruct (Z.leb_spec pw 0) as [Hle | Hgt]; destruct (Z.gtb_spec (ne_pane_width e) 0) as [Hw | Hw];
      cbn [andb]; intro Hne; solve [congruence | lia].
  - revert Hne.
    destruct (Z.leb_spec pw 0) as [Hle | Hgt]; destruct (Z.gtb_spec (ne_pane_width e) 0) as [Hw | Hw];
      cbn [andb]; intro Hne; congruence.
Qed.

Lemma decode_config_escape : forall base w c, decode_config_into base w = Some c -> nwc_escape w = None ->
  nc_escape c = nc_escape base.
Proof.
  intros base w c H He. unfold decode_config_into in H. rewrite He in H. inversion H; subst. reflexivity.
Qed.

Lemma rewrite_config_escape : forall e c, nc_escape (rewrite_config e c) = nc_escape c.
Proof. intros e []. reflexivity. Qed.

(* what the client decodes behind one relay: the narrowing of what it would decode directly.
   The client starts from the defaults the relay uses (cfg_defaults_agree); the server's CFG
   carries no escape table (see escape_table_refuted for the other case). *)
Theorem relay_config_narrows : forall e tunnel w c,
  nwc_escape w = None ->
  decode_config_into (rn_client_init (ne_win_server e) tunnel) w = Some c ->
  exists w', relay_config e tunnel w = Some w' /\
    decode_config_into (rn_client_init (ne_win_server e) tunnel) w' = Some (rewrite_config e c).
Proof.
  intros e tunnel w c Hesc Hdec. unfold relay_config. rewrite cfg_defaults_agree, Hdec.
  eexists; split; [reflexivity |].
  apply decode_encode_config; [unfold rn_client_init, config_zero; reflexivity |].
  rewrite rewrite_config_escape.
  rewrite (decode_config_escape _ _ _ Hdec Hesc). unfold rn_client_init, config_zero. reflexivity.
Qed.

(* the quirk: a table does not survive the relay's Unmarshal/Marshal round trip; the client
   is handed `{}` and its own Unmarshal fails *)
Theorem escape_table_refuted : exists e tunnel w t w',
  nwc_escape w = Some (WEscTable t) /\
  (exists c, decode_config_into (rn_client_init (ne_win_server e) tunnel) w = Some c /\ nc_escape c = Some t) /\
  relay_config e tunnel w = Some w' /\
  decode_config_into (rn_client_init (ne_win_server e) tunnel) w' = None.
Proof.
  exists (mkNEnv 0 (-1)%Z false), false,
    (mkNWC None (Some true) None None (Some 20%Z) None (Some 4%Z) (Some 10485760%Z)
           (Some (WEscTable [(238, 238); (126, 49)])) None None None None),
    [(238, 238); (126, 49)].
  eexists. split; [reflexivity |]. split; [eexists; split; reflexivity |]. split; vm_compute; reflexivity.
Qed.

(* ------------------------------------------------------------------------------- *)
(* 2. Chains of relays *)

Theorem k_relays_action : forall k w, (1 <= k)%nat ->
  decode_action_into server_action_init (relays_action k w) =
  rewrite_action (decode_action_into server_action_init w).
Proof.
  induction k as [| k IH]; intros w Hk; [lia |].
  cbn [relays_action]. destruct k as [| k'].
  - cbn [relays_action]. apply relay_action_narrows.
  - rewrite IH by lia. rewrite relay_action_narrows. apply rewrite_action_idem.
Qed.

(* the configuration after a chain, as a fold over the relays (server side first) *)
Fixpoint rewrite_config_chain (es : list rn_env) (c : n_config) : n_config :=
  match es with
  | [] => c
  | e :: rest => rewrite_config e (rewrite_config_chain rest c)
  end.

Lemma rewrite_config_chain_escape : forall es c, nc_escape (rewrite_config_chain es c) = nc_escape c.
Proof. induction es as [| e es IH]; intro c; cbn [rewrite_config_chain]; [reflexivity | rewrite rewrite_config_escape; apply IH]. Qed.

Definition same_win (win : bool) (es : list rn_env) : Prop := Forall (fun e => ne_win_server e = win) es.

Theorem k_relays_config : forall es win tunnel w c, same_win win es ->
  nwc_escape w = None ->
  decode_config_into (rn_client_init win tunnel) w = Some c ->
  exists w', relays_config es tunnel w = Some w' /\ (es <> [] -> nwc_escape w' = None) /\
    decode_config_into (rn_client_init win tunnel) w' = Some (rewrite_config_chain es c).
Proof.
  induction es as [| e es IH]; intros win tunnel w c Hwin Hesc Hdec.
  - exists w. cbn. repeat split; [congruence | exact Hdec].
  - inversion Hwin as [| e0 es0 He Hrest]; subst e0 es0.
    destruct (IH win tunnel w c Hrest Hesc Hdec) as [w1 [Hr [Hn Hd]]].
    cbn [relays_config rewrite_config_chain]. rewrite Hr.
    assert (Hesc1 : nwc_escape w1 = None).
    { destruct es as [| e1 es1]; [cbn in Hr; inversion Hr; subst; exact Hesc | apply Hn; discriminate]. }
    rewrite <- He in Hd. destruct (relay_config_narrows e tunnel w1 _ Hesc1 Hd) as [w' [Hrc Hdc]].
    exists w'. split; [exact Hrc |]. split.
    + intros _. unfold relay_config in Hrc. destruct (decode_config_into (relay_config_init e tunnel) w1) as [c1 |] eqn:Hc1; [| discriminate].
      inversion Hrc; subst w'. cbn [encode_config nwc_escape]. rewrite rewrite_config_escape.
      rewrite (decode_config_escape _ _ _ Hc1 Hesc1). unfold relay_config_init, config_zero. reflexivity.
    + rewrite He in Hdc. exact Hdc.
Qed.

(* the statements of narrow_config carry over to any chain *)
Theorem k_relays_config_narrow : forall es c, let c' := rewrite_config_chain es c in
  nc_quiet c' = nc_quiet c /\ nc_binary c' = nc_binary c /\ nc_directory c' = nc_directory c /\
  nc_overwrite c' = nc_overwrite c /\ nc_timeout c' = nc_timeout c /\ nc_newline c' = nc_newline c /\
  nc_protocol c' = nc_protocol c /\ nc_bufsize c' = nc_bufsize c /\ nc_escape c' = nc_escape c /\
  nc_compress c' = nc_compress c /\ nc_fork c' = nc_fork c /\
  (nc_junk c = true -> nc_junk c' = true) /\
  (nc_junk c' = true -> nc_junk c = true \/ exists e, In e es /\ ne_tmux_mode e = relayneg_tmux_normal_mode) /\
  ((nc_pane_width c > 0)%Z -> nc_pane_width c' = nc_pane_width c) /\
  (nc_pane_width c' <> nc_pane_width c ->
     (nc_pane_width c <= 0)%Z /\ exists e, In e es /\ (ne_pane_width e > 0)%Z /\ nc_pane_width c' = ne_pane_width e).
Proof.
  induction es as [| e es IH]; intro c; cbn zeta.
  - cbn [rewrite_config_chain]. do 11 (split; [reflexivity |]).
    split; [auto |]. split; [auto |]. split; [auto |]. intro H; congruence.
  - cbn [rewrite_config_chain].
    specialize (IH c). cbn zeta in IH.
    destruct IH as (I1 & I2 & I3 & I4 & I5 & I6 & I7 & I8 & I9 & I10 & I11 & Ij1 & Ij2 & Ip1 & Ip2).
    destruct (narrow_config e (rewrite_config_chain es c)) as (N1 & N2 & N3 & N4 & N5 & N6 & N7 & N8 & N9 & N10 & N11 & Nj1 & Nj2 & Np1 & Np2).
    do 11 (split; [congruence |]).
    split; [| split; [| split; [| intro Hne; split]]].
    + intro Hj. apply Nj1, Ij1, Hj.
    + intro Hj. destruct (Nj2 Hj) as [Hprev | Hmode].
      * destruct (Ij2 Hprev) as [Hc | [e' [Hin Hm]]]; [left; exact Hc | right; exists e'; split; [right; exact Hin | exact Hm]].
      * right. exists e. split; [left; reflexivity | exact Hmode].
    + intro Hpos. rewrite Np1; [apply Ip1; exact Hpos | rewrite (Ip1 Hpos); exact Hpos].
    + destruct (Z.eq_dec (nc_pane_width (rewrite_config_chain es c)) (nc_pane_width c)) as [Heq | Hneq].
      * rewrite Heq in Np2. destruct (Np2 Hne) as (Hle & Hw & Hv). exact Hle.
      * destruct (Ip2 Hneq) as (Hle & _). exact Hle.
    + destruct (Z.eq_dec (nc_pane_width (rewrite_config e (rewrite_config_chain es c))) (nc_pane_width (rewrite_config_chain es c))) as [Heq | Hneq].
      * rewrite Heq in Hne. destruct (Ip2 Hne) as (_ & e' & Hin & Hw & Hv).
        exists e'. split; [right; exact Hin |]. split; [exact Hw | congruence].
      * destruct (Np2 Hneq) as (_ & Hw & Hv). exists e. split; [left; reflexivity |]. split; assumption.
Qed.

(* ------------------------------------------------------------------------------- *)
(* 3. Both ends through k relays *)

(* an escape table is announced only for binary mode without a tunnel; behind a relay
   binary support implies the tunnel, so the Go servers never announce one there *)
Lemma server_config_no_escape_behind_relay : forall g a w,
  rn_server_config g (rewrite_action a) = SrvConfig w -> nwc_escape w = None.
Proof.
  intros g [lang ver conf nl proto bin dir tun fork] w H. unfold rn_server_config, rewrite_action in H.
  cbn [na_binary na_tunnel na_protocol na_lang na_version na_confirm na_newline na_support_dir na_fork] in H.
  destruct (negb conf); [discriminate |].
  destruct (ns_fork g && negb fork); [discriminate |].
  destruct (ns_directory g && negb dir); [discriminate |].
  inversion H; subst w; clear H. cbn [nwc_escape].
  destruct tun, bin, (ns_binary g); reflexivity.
Qed.

Lemma server_config_binary_needs_tunnel : forall g a w,
  rn_server_config g (rewrite_action a) = SrvConfig w -> nwc_binary w = Some true -> na_tunnel a = true.
Proof.
  intros g [lang ver conf nl proto bin dir tun fork] w H Hb. unfold rn_server_config, rewrite_action in H.
  cbn [na_binary na_tunnel na_protocol na_lang na_version na_confirm na_newline na_support_dir na_fork] in H.
  destruct (negb conf); [discriminate |].
  destruct (ns_fork g && negb fork); [discriminate |].
  destruct (ns_directory g && negb dir); [discriminate |].
  inversion H; subst w; clear H. cbn [nwc_binary na_tunnel] in *.
  destruct tun; [reflexivity |]. destruct bin, (ns_binary g); cbn in Hb; discriminate.
Qed.

(* the narrowed ACT the server would see, sent by a client that is connected directly *)
Definition narrowed (wa : n_wire_action) : n_wire_action :=
  encode_action (rewrite_action (decode_action_into server_action_init wa)).

Theorem same_result : forall g win es wa, es <> [] -> same_win win es ->
  match negotiate g win [] (narrowed wa) with
  | OutAgreed so cc =>
      negotiate g win es wa = OutAgreed so (rewrite_config_chain es cc) /\
      (nc_binary so = true -> nwa_tunnel wa = Some true) /\
      nc_escape so = None /\ nc_escape cc = None
  | OutRefused r => negotiate g win es wa = OutRefused r
  | OutRelayFailed _ => False
  | OutClientFailed _ => False
  end.
Proof.
  intros g win es wa Hne Hwin. unfold negotiate, narrowed.
  cbn [length relays_action relays_config].
  rewrite decode_encode_action.
  assert (Hk : (1 <= length es)%nat) by (destruct es; [congruence | cbn; lia]).
  rewrite (k_relays_action (length es) wa Hk).
  set (a := decode_action_into server_action_init wa).
  destruct (rn_server_config g (rewrite_action a)) as [| | | wc] eqn:Hsrv; try reflexivity.
  pose proof (server_config_no_escape_behind_relay g a wc Hsrv) as Hesc.
  assert (Hown : exists so, decode_config_into (server_own_init (rewrite_action a)) wc = Some so /\ nc_escape so = None).
  { unfold decode_config_into. rewrite Hesc. eexists; split; reflexivity. }
  destruct Hown as [so [Hso Hsoe]]. rewrite Hso.
  assert (Hcli : exists cc, decode_config_into (rn_client_init win (na_tunnel (rewrite_action a))) wc = Some cc /\ nc_escape cc = None).
  { unfold decode_config_into. rewrite Hesc. eexists; split; reflexivity. }
  destruct Hcli as [cc [Hcc Hcce]]. rewrite Hcc.
  destruct (k_relays_config es win (na_tunnel (rewrite_action a)) wc cc Hwin Hesc Hcc) as [w' [Hr [_ Hd]]].
  rewrite Hr, Hd. split; [reflexivity |]. split; [| split; assumption].
  intro Hbin.
  assert (Hwb : nwc_binary wc = Some true).
  { unfold decode_config_into in Hso. rewrite Hesc in Hso. inversion Hso; subst so. cbn [nc_binary] in Hbin.
    unfold rn_dflt in Hbin. destruct (nwc_binary wc) as [b |]; [subst b; reflexivity |].
    unfold server_own_init, config_zero in Hbin. cbn in Hbin. discriminate. }
  pose proof (server_config_binary_needs_tunnel g a wc Hsrv Hwb) as Htun.
  unfold a, decode_action_into, server_action_init, action_zero in Htun. cbn [na_tunnel rn_dflt] in Htun.
  destruct (nwa_tunnel wa) as [t |]; cbn in Htun; [subst t; reflexivity | discriminate].
Qed.

(* the two ends hold the same values for everything the transfer depends on *)
Definition ends_agree (so cc : n_config) : Prop :=
  nc_binary so = nc_binary cc /\ nc_directory so = nc_directory cc /\ nc_overwrite so = nc_overwrite cc /\
  nc_timeout so = nc_timeout cc /\ nc_protocol so = nc_protocol cc /\ nc_bufsize so = nc_bufsize cc /\
  nc_escape so = nc_escape cc /\ nc_compress so = nc_compress cc /\ nc_fork so = nc_fork cc /\ nc_quiet so = nc_quiet cc.

Lemma decode_same_modulo_newline : forall t bs nl1 nl2 wc so cc,
  decode_config_into (config_zero t nl1 bs) wc = Some so ->
  decode_config_into (config_zero t nl2 bs) wc = Some cc -> ends_agree so cc.
Proof.
  intros t bs nl1 nl2 wc so cc Hso Hcc. unfold decode_config_into, config_zero in Hso, Hcc.
  cbn [nc_quiet nc_binary nc_directory nc_overwrite nc_timeout nc_newline nc_protocol nc_bufsize nc_escape
       nc_pane_width nc_junk nc_compress nc_fork] in Hso, Hcc.
  destruct (nwc_escape wc) as [[tb |] |]; try discriminate;
    inversion Hso; subst so; inversion Hcc; subst cc; unfold ends_agree; cbn; repeat split; reflexivity.
Qed.

Theorem ends_agree_direct : forall g win wa so cc,
  negotiate g win [] wa = OutAgreed so cc -> ends_agree so cc.
Proof.
  intros g win wa so cc H. unfold negotiate in H. cbn [length relays_action relays_config] in H.
  destruct (rn_server_config g _) as [| | | wc]; try discriminate.
  destruct (decode_config_into (server_own_init _) wc) as [so1 |] eqn:Hso; [| discriminate].
  destruct (decode_config_into (rn_client_init win _) wc) as [cc1 |] eqn:Hcc; [| discriminate].
  inversion H; subst so1 cc1.
  unfold server_own_init in Hso. unfold rn_client_init in Hcc.
  exact (decode_same_modulo_newline _ _ _ _ _ _ _ Hso Hcc).
Qed.

Theorem ends_agree_through_relays : forall g win es wa so cc, es <> [] -> same_win win es ->
  negotiate g win es wa = OutAgreed so cc -> ends_agree so cc.
Proof.
  intros g win es wa so cc Hne Hwin Hneg.
  pose proof (same_result g win es wa Hne Hwin) as H.
  destruct (negotiate g win [] (narrowed wa)) as [r | o | o | so0 cc0] eqn:Hdir; try contradiction.
  - rewrite H in Hneg. discriminate.
  - destruct H as (Heq & _). rewrite Heq in Hneg. inversion Hneg; subst so cc.
    pose proof (ends_agree_direct _ _ _ _ _ Hdir) as Hd. unfold ends_agree in *.
    destruct (k_relays_config_narrow es cc0) as (K1 & K2 & K3 & K4 & K5 & K6 & K7 & K8 & K9 & K10 & K11 & _).
    rewrite K1, K2, K3, K4, K5, K7, K8, K9, K10, K11. exact Hd.
Qed.

(* ------------------------------------------------------------------------------- *)
(* 4. The status automaton recovers *)

Inductive chunk_ev := CIn (c : list N) | COut (c : list N) (det : bool).

Definition ev_of (x : chunk_ev) : rn_event :=
  match x with CIn c => NIn c | COut c det => NOut c det end.

(* the chunk, as the relay reads it, contains an end-of-transfer sign *)
Definition ends (x : chunk_ev) : bool :=
  match x with CIn c => rn_end_in c | COut c _ => rn_end_out c end.

(* one transfer as the relay sees it *)
Record transfer := mkTransfer {
  t_trigger : list N;            (* the server chunk in which the detector finds the trigger *)
  t_parked : list chunk_ev;      (* whatever arrives while the relay is handshaking (ACT, CFG, Ctrl-C, ...) *)
  t_confirm : bool;              (* flushHandshakeBuffer(confirm): false = refused / failed / interrupted handshake *)
  t_body : list chunk_ev;        (* the transfer's traffic before its end *)
  t_final : chunk_ev }.          (* the chunk with the end sign: #EXIT: / #FAIL: / #fail: either way, or Ctrl-C typed *)

Definition wf_transfer (t : transfer) : Prop :=
  t_confirm t = true -> forallb (fun x => negb (ends x)) (t_body t) = true /\ ends (t_final t) = true.

Definition events_of (t : transfer) : list rn_event :=
  NOut (t_trigger t) true :: map ev_of (t_parked t) ++ NHsEnd (t_confirm t) ::
  (if t_confirm t then map ev_of (t_body t) ++ [ev_of (t_final t)] else []).

Definition history_events (h : list transfer) : list rn_event := concat (map events_of h).

Lemma final_app : forall evs1 evs2 s, rn_final s (evs1 ++ evs2) = rn_final (rn_final s evs1) evs2.
Proof.
  unfold rn_final. induction evs1 as [| ev evs1 IH]; intros evs2 s; [reflexivity |].
  cbn [app rn_run]. destruct (rn_step s ev) as [s1 f].
  specialize (IH evs2 s1).
  destruct (rn_run s1 (evs1 ++ evs2)) as [s2 tr]. destruct (rn_run s1 evs1) as [s3 tr3]. cbn [fst] in *. exact IH.
Qed.

Lemma final_cons : forall ev evs s, rn_final s (ev :: evs) = rn_final (fst (rn_step s ev)) evs.
Proof.
  intros ev evs s. unfold rn_final. cbn [rn_run]. destruct (rn_step s ev) as [s1 f]. cbn [fst].
  destruct (rn_run s1 evs) as [s2 tr]. reflexivity.
Qed.

Lemma parked_stay : forall xs, rn_final NHandshaking (map ev_of xs) = NHandshaking.
Proof.
  induction xs as [| x xs IH]; [reflexivity |]. cbn [map]. rewrite final_cons.
  destruct x; cbn [ev_of rn_step fst]; exact IH.
Qed.

Lemma body_stays : forall xs, forallb (fun x => negb (ends x)) xs = true ->
  rn_final NTransferring (map ev_of xs) = NTransferring.
Proof.
  induction xs as [| x xs IH]; intro H; [reflexivity |].
  cbn [forallb] in H. apply andb_prop in H. destruct H as [Hx Hxs].
  cbn [map]. rewrite final_cons.
  destruct x as [c | c det]; cbn [ev_of rn_step fst ends] in *;
    apply negb_true_iff in Hx; rewrite Hx; apply IH; exact Hxs.
Qed.

Lemma end_resets : forall x, ends x = true -> fst (rn_step NTransferring (ev_of x)) = NStandby.
Proof. intros [c | c det] H; cbn [ev_of rn_step fst ends] in *; rewrite H; reflexivity. Qed.

Lemma one_transfer : forall t, wf_transfer t -> rn_final NStandby (events_of t) = NStandby.
Proof.
  intros t Hwf. unfold events_of. rewrite final_cons. cbn [rn_step fst].
  rewrite final_app, parked_stay, final_cons. cbn [rn_step fst].
  destruct (t_confirm t) eqn:Hc.
  - destruct (Hwf Hc) as [Hbody Hfin].
    rewrite final_app, (body_stays _ Hbody), final_cons, (end_resets _ Hfin). reflexivity.
  - reflexivity.
Qed.

Theorem recovers : forall h, Forall wf_transfer h -> rn_final NStandby (history_events h) = NStandby.
Proof.
  induction h as [| t h IH]; intro Hwf; [reflexivity |].
  inversion Hwf as [| t0 h0 Ht Hh]; subst t0 h0.
  unfold history_events. cbn [map concat]. rewrite final_app, (one_transfer t Ht). apply IH; exact Hh.
Qed.

(* ... and in standby the detector is consulted again: a trigger starts a handshake and is
   forwarded with the relay's re-tag, wherever in the history it comes *)
Theorem recovers_and_detects : forall h1 t h2, Forall wf_transfer (h1 ++ t :: h2) ->
  rn_final NStandby (history_events h1) = NStandby /\
  rn_step (rn_final NStandby (history_events h1)) (NOut (t_trigger t) true) = (NHandshaking, FRewritten) /\
  rn_final NStandby (history_events (h1 ++ t :: h2)) = NStandby.
Proof.
  intros h1 t h2 Hwf.
  assert (H1 : Forall wf_transfer h1) by (apply Forall_app in Hwf; tauto).
  rewrite (recovers h1 H1). repeat split. apply recovers; exact Hwf.
Qed.

(* from ANY state and after ANY history: a chunk with an end sign never leaves the relay in
   transferring, and while it is transferring no trigger is looked for *)
Theorem end_sign_leaves_transferring : forall s evs x, ends x = true ->
  rn_final s (evs ++ [ev_of x]) <> NTransferring.
Proof.
  intros s evs x Hx. rewrite final_app, final_cons. unfold rn_final. cbn [rn_run fst].
  destruct (rn_final s evs) eqn:Hs; unfold rn_final in Hs; rewrite Hs;
    destruct x as [c | c det]; cbn [ev_of rn_step fst ends] in *; try rewrite Hx; try discriminate.
  destruct det; discriminate.
Qed.

Theorem transferring_is_blind : forall c det, snd (rn_step NTransferring (NOut c det)) = FRaw.
Proof. intros c det. reflexivity. Qed.

(* ------------------------------------------------------------------------------- *)
(* 5. The defect: detection is per chunk *)

(* what one would want: whatever the chunking, a client stream that contains an end marker
   brings a transferring relay back to standby *)
Definition recovers_any_chunking : Prop := forall cs : list (list N),
  rn_has_marker relayneg_markers_in (concat cs) = true ->
  rn_final NTransferring (map NIn cs) = NStandby.

(* the chunks of the confirmed failure on the real relay: "#EX" + "IT:eJwK...\n", then the
   server's next trigger "\x1b7\x07::TRZSZ:TRANSFER:R:1.1.8:0123456789100:0\r\n" *)
Definition split_c1 : list N := [35; 69; 88].
Definition split_c2 : list N :=
  [73;84;58;101;74;119;75;84;105;120;76;84;86;69;119;86;69;106;76;122;69;108;86;75;77;108;88;48;67;47;74;76;101;68;108;48;
   108;86;73;49;67;117;112;75;65;69;69;65;65;68;47;47;52;107;80;67;80;115;61;10].
Definition split_trigger : list N :=
  [27;55;7;58;58;84;82;90;83;90;58;84;82;65;78;83;70;69;82;58;82;58;49;46;49;46;56;58;48;49;50;51;52;53;54;55;56;57;49;48;48;58;48;13;10].

Theorem split_marker_refuted :
  rn_has_marker relayneg_markers_in (split_c1 ++ split_c2) = true /\
  rn_final NTransferring [NIn split_c1; NIn split_c2] = NTransferring /\
  rn_step NTransferring (NOut split_trigger true) = (NTransferring, FRaw) /\
  rn_final NTransferring [NIn (split_c1 ++ split_c2)] = NStandby.
Proof. vm_compute. repeat split. Qed.

Theorem recovers_any_chunking_refuted : ~ recovers_any_chunking.
Proof.
  intro H. specialize (H [split_c1; split_c2]).
  assert (Hm : rn_has_marker relayneg_markers_in (concat [split_c1; split_c2]) = true) by (vm_compute; reflexivity).
  specialize (H Hm). vm_compute in H. discriminate H.
Qed.

(* ------------------------------------------------------------------------------- *)
(* 6. The tunnelConnected flag *)

(* resetToStandby clears the flag (an unconditional statement after the CAS guard),
   handshake() sets it from the ACT, addHandshakeBuffer consults it for non-tunnel data *)
Lemma reset_clears_src_ok : relayneg_reset_clears_tunnel_flag = true.
Proof. reflexivity. Qed.

Lemma handshake_sets_src_ok : relayneg_handshake_sets_tunnel_flag = true.
Proof. reflexivity. Qed.

(* "status != kRelayHandshaking || !tunnel && r.tunnelConnected.Load() => { return status, false }" *)
Lemma parking_rule_src_ok : relayneg_parking_rule_src =
  [115;116;97;116;117;115;32;33;61;32;107;82;101;108;97;121;72;97;110;100;115;104;97;107;105;110;103;32;124;124;32;33;
   116;117;110;110;101;108;32;38;38;32;114;46;116;117;110;110;101;108;67;111;110;110;101;99;116;101;100;46;76;111;97;
   100;40;41;32;61;62;32;123;32;114;101;116;117;114;110;32;115;116;97;116;117;115;44;32;102;97;108;115;101;32;125].
Proof. reflexivity. Qed.

Lemma rt_reset_hit : forall s fl, rt_reset s (s, fl) = (NStandby, false).
Proof. intros s fl. unfold rt_reset. cbn [fst snd]. rewrite reset_clears_src_ok. destruct s; reflexivity. Qed.

Lemma rt_reset_cases : forall from st, rt_reset from st = st \/ rt_reset from st = (NStandby, false).
Proof.
  intros from [s fl]. unfold rt_reset. cbn [fst snd]. rewrite reset_clears_src_ok.
  destruct (rn_status_eqb s from); [right | left]; reflexivity.
Qed.

(* the flagged automaton restricted to a false flag and the main channel is the automaton of
   section 4 (so C14_recovers speaks about every history in which no ACT claims a tunnel) *)
Lemma rt_refines_rn : forall s ev,
  rt_step (s, false) (TMain ev) = (let '(s', f) := rn_step s ev in ((s', false), f)).
Proof.
  intros s [c | c det | confirm]; destruct s; cbn [rt_step rn_step]; try reflexivity.
  - destruct (rn_end_in c); [rewrite rt_reset_hit |]; reflexivity.
  - destruct det; reflexivity.
  - destruct (rn_end_out c); [rewrite rt_reset_hit |]; reflexivity.
  - destruct confirm; [| rewrite rt_reset_hit]; reflexivity.
Qed.

(* INVARIANT, for every sequence of events whatsoever: in standby the flag is false *)
Definition flag_inv (st : rt_state) : Prop := fst st = NStandby -> snd st = false.

Lemma flag_inv_step : forall st ev, flag_inv st -> flag_inv (fst (rt_step st ev)).
Proof.
  intros [s fl] ev Hinv. unfold flag_inv in *. cbn [fst snd] in Hinv.
  assert (Hreset : forall from, fst (rt_reset from (s, fl)) = NStandby -> snd (rt_reset from (s, fl)) = false).
  { intros from. destruct (rt_reset_cases from (s, fl)) as [He | He]; rewrite He; cbn [fst snd]; auto. }
  destruct ev as [[c | c det | confirm] | tunnel | c | c]; destruct s; cbn [rt_step fst snd];
    try (intro H; first [discriminate H | exact (Hinv H)]).
  - destruct fl; cbn [fst snd]; intro H; discriminate H.
  - destruct (rn_end_in c); cbn [fst snd]; [apply Hreset | intro H; discriminate H].
  - destruct det; cbn [fst snd]; intro H; [discriminate H | exact (Hinv H)].
  - destruct fl; [destruct det |]; cbn [fst snd]; intro H; discriminate H.
  - destruct (rn_end_out c); cbn [fst snd]; [apply Hreset | intro H; discriminate H].
  - destruct confirm; cbn [fst snd]; [intro H; discriminate H | apply Hreset].
  - destruct (rn_end_tun_in c); cbn [fst snd]; [apply Hreset | intro H; discriminate H].
  - destruct (rn_end_tun_out c); cbn [fst snd]; [apply Hreset | intro H; discriminate H].
Qed.

Lemma rt_final_cons : forall ev evs st, rt_final st (ev :: evs) = rt_final (fst (rt_step st ev)) evs.
Proof.
  intros ev evs st. unfold rt_final. cbn [rt_run]. destruct (rt_step st ev) as [s1 f]. cbn [fst].
  destruct (rt_run s1 evs) as [s2 tr]. reflexivity.
Qed.

Lemma rt_final_app : forall evs1 evs2 st, rt_final st (evs1 ++ evs2) = rt_final (rt_final st evs1) evs2.
Proof.
  induction evs1 as [| ev evs1 IH]; intros evs2 st; [reflexivity |].
  cbn [app]. rewrite !rt_final_cons. apply IH.
Qed.

Theorem flag_false_in_standby : forall evs st, flag_inv st -> flag_inv (rt_final st evs).
Proof.
  induction evs as [| ev evs IH]; intros st Hinv; [exact Hinv |].
  rewrite rt_final_cons. apply IH, flag_inv_step, Hinv.
Qed.

(* hence: whenever the relay is in standby - after any events at all - the next trigger starts
   a handshake in which main-channel data (the client's ACT) is parked, i.e. read, narrowed
   and re-sent by the relay instead of reaching the server as it is *)
Theorem standby_then_parks : forall evs trig act,
  fst (rt_final (NStandby, false) evs) = NStandby ->
  rt_final (NStandby, false) (evs ++ [TMain (NOut trig true)]) = (NHandshaking, false) /\
  rt_step (rt_final (NStandby, false) (evs ++ [TMain (NOut trig true)])) (TMain (NIn act)) =
    ((NHandshaking, false), FParked).
Proof.
  intros evs trig act Hs.
  assert (Hinv : flag_inv (rt_final (NStandby, false) evs)) by (apply flag_false_in_standby; intro; reflexivity).
  rewrite rt_final_app. destruct (rt_final (NStandby, false) evs) as [s fl] eqn:Hst.
  cbn [fst] in Hs. subst s. unfold flag_inv in Hinv. cbn [fst snd] in Hinv. rewrite (Hinv eq_refl).
  split; reflexivity.
Qed.

(* histories of transfers with or without a tunnel *)
Inductive tchunk := KIn (c : list N) | KOut (c : list N) (det : bool) | KTunIn (c : list N) | KTunOut (c : list N).

Definition tev_of (x : tchunk) : rt_event :=
  match x with
  | KIn c => TMain (NIn c) | KOut c det => TMain (NOut c det)
  | KTunIn c => TTunIn c | KTunOut c => TTunOut c
  end.

Definition tends (x : tchunk) : bool :=
  match x with
  | KIn c => rn_end_in c | KOut c _ => rn_end_out c
  | KTunIn c => rn_end_tun_in c | KTunOut c => rn_end_tun_out c
  end.

Record ttransfer := mkTTransfer {
  tt_trigger : list N;
  tt_before : list tchunk;      (* what arrives before the handshake has decoded the ACT *)
  tt_act : option bool;         (* the ACT's tunnel field; None = no ACT was ever decoded *)
  tt_after : list tchunk;       (* what arrives during the rest of the handshake *)
  tt_confirm : bool;            (* flushHandshakeBuffer(confirm) *)
  tt_body : list tchunk;        (* traffic (either channel) without an end sign *)
  tt_final : tchunk }.          (* the chunk with the end sign, on either channel *)

Definition wf_ttransfer (t : ttransfer) : Prop :=
  tt_confirm t = true -> forallb (fun x => negb (tends x)) (tt_body t) = true /\ tends (tt_final t) = true.

Definition tevents_of (t : ttransfer) : list rt_event :=
  TMain (NOut (tt_trigger t) true) :: map tev_of (tt_before t) ++
  (match tt_act t with Some tun => [THsAct tun] | None => [] end) ++ map tev_of (tt_after t) ++
  TMain (NHsEnd (tt_confirm t)) ::
  (if tt_confirm t then map tev_of (tt_body t) ++ [tev_of (tt_final t)] else []).

Definition thistory_events (h : list ttransfer) : list rt_event := concat (map tevents_of h).

Lemma handshaking_stays : forall xs fl, rt_final (NHandshaking, fl) (map tev_of xs) = (NHandshaking, fl).
Proof.
  induction xs as [| x xs IH]; intro fl; [reflexivity |]. cbn [map]. rewrite rt_final_cons.
  destruct x as [c | c det | c | c]; cbn [tev_of rt_step]; try (cbn [fst]; apply IH).
  - destruct fl; cbn [fst]; apply IH.
  - destruct fl; [destruct det |]; cbn [fst]; apply IH.
Qed.

Lemma transferring_stays : forall xs fl, forallb (fun x => negb (tends x)) xs = true ->
  rt_final (NTransferring, fl) (map tev_of xs) = (NTransferring, fl).
Proof.
  induction xs as [| x xs IH]; intros fl H; [reflexivity |].
  cbn [forallb] in H. apply andb_prop in H. destruct H as [Hx Hxs]. apply negb_true_iff in Hx.
  cbn [map]. rewrite rt_final_cons.
  destruct x as [c | c det | c | c]; cbn [tev_of rt_step tends] in *; rewrite Hx; cbn [fst]; apply IH; exact Hxs.
Qed.

Lemma tend_resets : forall x fl, tends x = true -> fst (rt_step (NTransferring, fl) (tev_of x)) = (NStandby, false).
Proof.
  intros [c | c det | c | c] fl H; cbn [tev_of rt_step tends] in *; rewrite H; cbn [fst]; apply rt_reset_hit.
Qed.

Lemma one_ttransfer : forall t, wf_ttransfer t -> rt_final (NStandby, false) (tevents_of t) = (NStandby, false).
Proof.
  intros t Hwf. unfold tevents_of. rewrite rt_final_cons. cbn [rt_step fst].
  rewrite rt_final_app, handshaking_stays.
  assert (Hact : exists fl, rt_final (NHandshaking, false)
            (match tt_act t with Some tun => [THsAct tun] | None => [] end) = (NHandshaking, fl)).
  { destruct (tt_act t) as [tun |]; [exists tun | exists false]; [| reflexivity].
    unfold rt_final. cbn [rt_run rt_step fst]. rewrite handshake_sets_src_ok. reflexivity. }
  destruct Hact as [fl Hact]. rewrite rt_final_app, Hact, rt_final_app, handshaking_stays, rt_final_cons.
  cbn [rt_step]. destruct (tt_confirm t) eqn:Hc; cbn [fst].
  - destruct (Hwf Hc) as [Hbody Hfin].
    rewrite rt_final_app, (transferring_stays _ _ Hbody), rt_final_cons, (tend_resets _ _ Hfin). reflexivity.
  - rewrite rt_reset_hit. reflexivity.
Qed.

Theorem recovers_tunnel_flag : forall h, Forall wf_ttransfer h ->
  rt_final (NStandby, false) (thistory_events h) = (NStandby, false).
Proof.
  induction h as [| t h IH]; intro Hwf; [reflexivity |].
  inversion Hwf as [| t0 h0 Ht Hh]; subst t0 h0.
  unfold thistory_events. cbn [map concat]. rewrite rt_final_app, (one_ttransfer t Ht). apply IH; exact Hh.
Qed.

(* after every history - tunnel transfers, plain ones, refused, failed, interrupted, in any
   order - the next trigger is detected, and the ACT of the handshake it starts is parked *)
Theorem recovers_tunnel_flag_and_parks : forall h trig act, Forall wf_ttransfer h ->
  rt_final (NStandby, false) (thistory_events h) = (NStandby, false) /\
  rt_step (NStandby, false) (TMain (NOut trig true)) = ((NHandshaking, false), FRewritten) /\
  rt_step (NHandshaking, false) (TMain (NIn act)) = ((NHandshaking, false), FParked).
Proof. intros h trig act Hwf. split; [apply recovers_tunnel_flag; exact Hwf | split; reflexivity]. Qed.

(* ------------------------------------------------------------------------------- *)
(* 7. Line framing of the handshake *)

(* the four rules and the order of handshake(), as the model transcribes them *)
Lemma framing_rules_src_ok :
  (* (r.clientIsWindows || r.trigger.winServer) && !r.tunnelConnected.Load() *)
  relayneg_to_client_rule_src =
  [40;114;46;99;108;105;101;110;116;73;115;87;105;110;100;111;119;115;32;124;124;32;114;46;116;114;105;103;103;101;
   114;46;119;105;110;83;101;114;118;101;114;41;32;38;38;32;33;114;46;116;117;110;110;101;108;67;111;110;110;101;
   99;116;101;100;46;76;111;97;100;40;41] /\
  (* r.trigger.winServer && (!r.tunnelConnected.Load() || typ == "ACT") *)
  relayneg_to_server_rule_src =
  [114;46;116;114;105;103;103;101;114;46;119;105;110;83;101;114;118;101;114;32;38;38;32;40;33;114;46;116;117;110;
   110;101;108;67;111;110;110;101;99;116;101;100;46;76;111;97;100;40;41;32;124;124;32;116;121;112;32;61;61;32;
   34;65;67;84;34;41] /\
  (* r.trigger.winServer && !r.tunnelConnected.Load() *)
  relayneg_from_client_rule_src =
  [114;46;116;114;105;103;103;101;114;46;119;105;110;83;101;114;118;101;114;32;38;38;32;33;114;46;116;117;110;110;
   101;108;67;111;110;110;101;99;116;101;100;46;76;111;97;100;40;41] /\
  (* (r.clientIsWindows || r.trigger.winServer) && !r.tunnelConnected.Load() *)
  relayneg_from_server_rule_src =
  [40;114;46;99;108;105;101;110;116;73;115;87;105;110;100;111;119;115;32;124;124;32;114;46;116;114;105;103;103;101;
   114;46;119;105;110;83;101;114;118;101;114;41;32;38;38;32;33;114;46;116;117;110;110;101;108;67;111;110;110;101;
   99;116;101;100;46;76;111;97;100;40;41].
Proof. repeat split; reflexivity. Qed.

(* "recvAction failed? setTunnelConnected setClientIsWindows binaryOff clampProtocol sendAction
    refused? recvConfig failed? junk paneWidth sendConfig confirmed" *)
Lemma handshake_order_src_ok : relayneg_handshake_order =
  [114;101;99;118;65;99;116;105;111;110;32;102;97;105;108;101;100;63;32;115;101;116;84;117;110;110;101;108;67;111;110;
   110;101;99;116;101;100;32;115;101;116;67;108;105;101;110;116;73;115;87;105;110;100;111;119;115;32;98;105;110;97;114;
   121;79;102;102;32;99;108;97;109;112;80;114;111;116;111;99;111;108;32;115;101;110;100;65;99;116;105;111;110;32;114;
   101;102;117;115;101;100;63;32;114;101;99;118;67;111;110;102;105;103;32;102;97;105;108;101;100;63;32;106;117;110;107;
   32;112;97;110;101;87;105;100;116;104;32;115;101;110;100;67;111;110;102;105;103;32;99;111;110;102;105;114;109;101;100].
Proof. reflexivity. Qed.

(* the terminators of the relay and of the client are the same two strings, and the ACT's
   Windows newline is the one the relay recognises a Windows client by *)
Lemma terminators_src_ok :
  relayneg_to_client_win_nl = relayneg_client_line_win_nl /\ relayneg_to_client_nl = relayneg_client_cfg_newline /\
  relayneg_to_server_win_nl = relayneg_to_client_win_nl /\ relayneg_to_server_nl = relayneg_to_client_nl /\
  relayneg_client_act_win_nl = relayneg_client_win_newline /\
  list_eqb relayneg_client_act_nl relayneg_client_win_newline = false.
Proof. repeat split; reflexivity. Qed.

(* "!t.tunnelConnected && (isWindowsEnvironment() || remoteIsWindows)" on the sending side,
   "!t.tunnelConnected && (isWindowsEnvironment() || t.windowsProtocol)" on the reading side *)
Lemma client_rules_src_ok :
  (* !t.tunnelConnected && (isWindowsEnvironment() || remoteIsWindows) *)
  relayneg_client_windows_rule_src =
  [33;116;46;116;117;110;110;101;108;67;111;110;110;101;99;116;101;100;32;38;38;32;40;105;115;87;105;110;100;111;
   119;115;69;110;118;105;114;111;110;109;101;110;116;40;41;32;124;124;32;114;101;109;111;116;101;73;115;87;105;110;
   100;111;119;115;41] /\
  (* !t.tunnelConnected && (isWindowsEnvironment() || t.windowsProtocol) *)
  relayneg_client_reader_rule_src =
  [33;116;46;116;117;110;110;101;108;67;111;110;110;101;99;116;101;100;32;38;38;32;40;105;115;87;105;110;100;111;
   119;115;69;110;118;105;114;111;110;109;101;110;116;40;41;32;124;124;32;116;46;119;105;110;100;111;119;115;80;114;
   111;116;111;99;111;108;41].
Proof. split; reflexivity. Qed.

Definition nl_is_win (nl : rn_str) : bool := list_eqb nl relayneg_to_client_win_nl.

Lemma nl_to_client_cases : forall e cw tun,
  rn_nl_to_client e cw tun = (if (cw || ne_win_server e) && negb tun then relayneg_client_line_win_nl else relayneg_client_cfg_newline).
Proof. intros. unfold rn_nl_to_client. destruct ((cw || ne_win_server e) && negb tun); reflexivity. Qed.

(* what the relay has learnt from the Go client's ACT *)
Lemma client_action_facts : forall c confirm proto lang ver,
  let a := rewrite_action (decode_action_into relay_action_init (rn_client_action c confirm proto lang ver)) in
  na_tunnel a = cl_tunnel c /\ na_confirm a = confirm /\
  list_eqb (na_newline a) relayneg_client_win_newline = rn_client_windows c.
Proof.
  intros c confirm proto lang ver. cbn zeta. unfold rn_client_action, decode_action_into, rewrite_action.
  cbn [nwa_lang nwa_version nwa_confirm nwa_newline nwa_protocol nwa_binary nwa_support_dir nwa_tunnel nwa_fork rn_dflt
       na_lang na_version na_confirm na_newline na_protocol na_binary na_support_dir na_tunnel na_fork].
  repeat split. destruct (rn_client_windows c); reflexivity.
Qed.

(* THEOREM: whatever the relay itself sends to the Go client during a handshake - the edited
   CFG, or FAIL for whatever reason - ends with the terminator that client's reader needs;
   for every client (Windows or not, tunnel or not, Windows server or not), every relay
   (tmux or not), whatever the relay remembered from earlier transfers, whatever the server
   sent or did not send *)
Theorem client_terminator : forall e c cw0 confirm proto lang ver cfg,
  ne_win_server e = cl_remote_win c ->
  Forall (fun m => snd m = rn_client_terminator c)
         (h2_to_client (rn_handshake2 e cw0 (rn_client_act_line c (rn_client_action c confirm proto lang ver)) cfg)).
Proof.
  intros e c cw0 confirm proto lang ver cfg Hwin.
  destruct (client_action_facts c confirm proto lang ver) as (Htun & Hconf & Hnl). cbn zeta in Htun, Hconf, Hnl.
  unfold rn_handshake2, rn_client_act_line. cbn [ln_win ln_body].
  unfold rn_reader_from_client. rewrite Hwin, andb_true_r.
  assert (Hread : rn_read_line (cl_remote_win c) (cl_remote_win c) = RdOk) by (destruct (cl_remote_win c); reflexivity).
  rewrite Hread. cbn zeta. rewrite Htun, Hconf, Hnl.
  assert (Hterm : rn_nl_to_client e (rn_client_windows c) (cl_tunnel c) = rn_client_terminator c).
  { rewrite nl_to_client_cases. unfold rn_client_terminator, rn_client_windows. rewrite Hwin.
    destruct (cl_tunnel c), (cl_env_win c), (cl_remote_win c); reflexivity. }
  destruct confirm; cbn [negb]; [| constructor].
  destruct cfg as [cl |]; [| constructor].
  destruct (rn_read_line _ (ln_win cl)); try (cbn [h2_to_client]; constructor).
  - destruct (ln_body cl) as [wc |]; [destruct (relay_config e (cl_tunnel c) wc) |];
      cbn [h2_to_client rn_hs2_fail]; repeat constructor; cbn [snd]; exact Hterm.
  - cbn [h2_to_client rn_hs2_fail]. repeat constructor; cbn [snd]; exact Hterm.
  - cbn [h2_to_client]. constructor.
Qed.

(* THEOREM: between the Go client and the Go server a relay never misreads a line: it reads
   the ACT, and the server's CFG (framed with the newline of the ACT the server received),
   with the matching reader; so with a decodable CFG without escape table the handshake is
   confirmed and the client gets the edited CFG in its own framing *)
Theorem go_ends_complete : forall e c cw0 proto lang ver wc cc,
  ne_win_server e = cl_remote_win c ->
  nwc_escape wc = None ->
  decode_config_into (rn_client_init (ne_win_server e) (cl_tunnel c)) wc = Some cc ->
  let wa := rn_client_action c true proto lang ver in
  let a := rewrite_action (decode_action_into relay_action_init wa) in
  exists wc',
    rn_handshake2 e cw0 (rn_client_act_line c wa) (Some (rn_server_line a (Some wc))) =
      mkHs2 [(OAct (encode_action a), rn_nl_to_server e (cl_tunnel c) true)]
            [(OCfg wc', rn_client_terminator c)] NTransferring (rn_client_windows c) /\
    decode_config_into (rn_client_init (ne_win_server e) (cl_tunnel c)) wc' = Some (rewrite_config e cc).
Proof.
  intros e c cw0 proto lang ver wc cc Hwin Hesc Hdec. cbn zeta.
  destruct (client_action_facts c true proto lang ver) as (Htun & Hconf & Hnl). cbn zeta in Htun, Hconf, Hnl.
  destruct (relay_config_narrows e (cl_tunnel c) wc cc Hesc Hdec) as [wc' [Hrc Hdc]].
  exists wc'. split; [| exact Hdc].
  unfold rn_handshake2, rn_client_act_line, rn_server_line. cbn [ln_win ln_body].
  unfold rn_reader_from_client. rewrite Hwin, andb_true_r.
  assert (Hread : rn_read_line (cl_remote_win c) (cl_remote_win c) = RdOk) by (destruct (cl_remote_win c); reflexivity).
  rewrite Hread. cbn zeta. rewrite Htun, Hconf, Hnl. cbn [negb].
  assert (Hread2 : rn_read_line (rn_reader_from_server e (rn_client_windows c) (cl_tunnel c)) (rn_client_windows c) = RdOk).
  { unfold rn_reader_from_server, rn_client_windows. rewrite Hwin.
    destruct (cl_tunnel c), (cl_env_win c), (cl_remote_win c); reflexivity. }
  rewrite Hread2, Hrc.
  assert (Hterm : rn_nl_to_client e (rn_client_windows c) (cl_tunnel c) = rn_client_terminator c).
  { rewrite nl_to_client_cases. unfold rn_client_terminator, rn_client_windows. rewrite Hwin.
    destruct (cl_tunnel c), (cl_env_win c), (cl_remote_win c); reflexivity. }
  rewrite Hterm. reflexivity.
Qed.

(* a relay is transparent for the framing: towards its client it writes with exactly the
   framing it expects from its server side, and towards its server the ACT in the framing it
   expects from its client side - so relays in a chain (same Windows-server fact, same ACT
   newline and tunnel field, which no relay changes) read each other's lines *)
Theorem framing_transparent : forall e e' cw tun,
  ne_win_server e' = ne_win_server e ->
  rn_read_line (rn_reader_from_server e' cw tun) (nl_is_win (rn_nl_to_client e cw tun)) = RdOk /\
  rn_read_line (rn_reader_from_client e' false) (nl_is_win (rn_nl_to_server e tun true)) = RdOk.
Proof.
  intros e e' cw tun Hw. unfold rn_reader_from_server, rn_reader_from_client, rn_nl_to_client, rn_nl_to_server. rewrite Hw.
  destruct cw, tun, (ne_win_server e); split; reflexivity.
Qed.

(* with matching framings the contents are those of rn_handshake (section 2) *)
Definition hs2_contents (r : rn_hs2) : list rn_out_msg * list rn_out_msg :=
  (map fst (h2_to_server r), map fst (h2_to_client r)).

Definition hs_contents (r : rn_hs_result) : list rn_out_msg * list rn_out_msg :=
  match r with
  | HsBadAction => ([OFail], [OFail])
  | HsRefused a => ([OAct a], [])
  | HsBadConfig a => ([OAct a; OFail], [OFail])
  | HsDone a c => ([OAct a], [OCfg c])
  end.

Theorem handshake2_refines : forall e cw0 aw act cfgw cfg,
  rn_read_line (rn_reader_from_client e false) aw = RdOk ->
  (forall a, act = Some a ->
     rn_read_line (rn_reader_from_server e
        (list_eqb (na_newline (rewrite_action (decode_action_into relay_action_init a))) relayneg_client_win_newline)
        (na_tunnel (rewrite_action (decode_action_into relay_action_init a)))) cfgw = RdOk) ->
  let r := rn_handshake2 e cw0 (mkRnLine aw act) (Some (mkRnLine cfgw cfg)) in
  hs2_contents r = hs_contents (rn_handshake e act cfg) /\
  h2_status r = status_after_handshake (rn_handshake e act cfg).
Proof.
  intros e cw0 aw act cfgw cfg Ha Hc. cbn zeta. unfold rn_handshake2, rn_handshake. cbn [ln_win ln_body].
  rewrite Ha. destruct act as [wa |]; [| split; reflexivity].
  cbn zeta. specialize (Hc wa eq_refl).
  destruct (na_confirm (rewrite_action (decode_action_into relay_action_init wa))); cbn [negb]; [| split; reflexivity].
  rewrite Hc. destruct cfg as [wc |]; [| split; reflexivity].
  destruct (relay_config e _ wc); split; reflexivity.
Qed.

(* The statement WITHOUT the premise "the client's ACT was readable" is false: when the relay
   cannot decode the ACT it does not know the client and frames its FAIL by what it remembers
   (clientIsWindows of an earlier transfer, false on a fresh relay).  Witness: a fresh relay,
   Unix server, a client on Windows whose ACT payload is damaged: FAIL goes out with "\n",
   which that client's reader (waiting for '!') does not take as a line. *)
Definition client_terminator_any_act : Prop := forall e c cw0 (act : rn_line n_wire_action) cfg,
  ne_win_server e = cl_remote_win c -> ln_win act = cl_remote_win c ->
  Forall (fun m => snd m = rn_client_terminator c) (h2_to_client (rn_handshake2 e cw0 act cfg)).

Theorem client_terminator_any_act_refuted : ~ client_terminator_any_act.
Proof.
  intro H.
  specialize (H (mkNEnv 0 (-1)%Z false) (mkRnClient true false false) false (mkRnLine false None) None eq_refl eq_refl).
  vm_compute in H. inversion H as [| m l Hm Hl]; subst. discriminate Hm.
Qed.

(* resetToStandby starts with `if !r.relayStatus.CompareAndSwap(status, kRelayStandBy) { return }`:
   rt_reset's "only from the expected state" is that guard (the translator reports the shape
   instead of refusing to translate, so that a reset from any state breaks THIS lemma and the
   models stay executable for the search engines of C13) *)
Lemma reset_guard_src_ok : relayneg_reset_guard_is_cas = true.
Proof. reflexivity. Qed.

(* ------------------------------------------------------------------------------- *)
(* 8. The relay's detector in stand-by (section 3c of the model) *)

(* newTrzszDetector(true, true); the tunnel argument of detectTrzsz is "a tunnel connector is
   configured" (value 0), NOT the tunnelConnected flag (false whenever the relay stands by) *)
Lemma relay_detector_src_ok :
  relayneg_detector_relay = true /\ relayneg_detector_tmux = true /\ relayneg_detect_tunnel_arg = 0.
Proof. repeat split; reflexivity. Qed.

Lemma detect_tunnel_arg_ok : forall has_connector flag, rn_detect_tunnel_arg has_connector flag = has_connector.
Proof. intros. unfold rn_detect_tunnel_arg. destruct relay_detector_src_ok as (_ & _ & H). rewrite H. reflexivity. Qed.

(* "r.tunnelConnector.Load() == nil || r.trigger.tunnelPort == 0" and the exchange of
   ":<id>:<port>" for ":<id>:<relay port>" - not of ":<port>" alone *)
Lemma listen_src_ok :
  relayneg_listen_guard_src =
  [114;46;116;117;110;110;101;108;67;111;110;110;101;99;116;111;114;46;76;111;97;100;40;41;32;61;61;32;110;105;
   108;32;124;124;32;114;46;116;114;105;103;103;101;114;46;116;117;110;110;101;108;80;111;114;116;32;61;61;32;48] /\
  relayneg_port_rewrite_src =
  [98;121;116;101;115;46;82;101;112;108;97;99;101;65;108;108;40;98;117;102;44;32;91;93;98;121;116;101;40;102;
   109;116;46;83;112;114;105;110;116;102;40;34;58;37;115;58;37;100;34;44;32;114;46;116;114;105;103;103;101;114;
   46;117;110;105;113;117;101;73;68;44;32;114;46;116;114;105;103;103;101;114;46;116;117;110;110;101;108;80;111;114;
   116;41;41;44;32;91;93;98;121;116;101;40;102;109;116;46;83;112;114;105;110;116;102;40;34;58;37;115;58;37;100;
   34;44;32;114;46;116;114;105;103;103;101;114;46;117;110;105;113;117;101;73;68;44;32;114;46;116;117;110;110;101;
   108;82;101;108;97;121;80;111;114;116;41;41;41].
Proof. split; reflexivity. Qed.

Lemma relay_detector_flags : d_relay rn_relay_detector = true /\ d_tmux rn_relay_detector = true.
Proof. split; reflexivity. Qed.

(* THEOREM: a complete trigger after arbitrary other output in one read of a relay that stands
   by - whatever the framing: none, or tmux control mode (`%output %N ` / `%extended-output %N A : `)
   provided the relay has a tunnel connector and the trigger carries a port - is TAKEN: the
   relay starts the advertised transfer (mode, version, id, port), whatever its tunnelConnected
   flag is, and forwards the re-tagged buffer with "#R" behind the trigger and (tunnel) its own
   port in place of the server's in the trigger's ":<id>:<port>" and nowhere else.
   Premises as in C06_fires, for any relay detector state (any id table). *)
Theorem relay_trigger_taken : forall has_connector flag d relay_port buf pre m txt tail ver,
  d_relay d = true -> d_tmux d = true ->
  let out := rewrite_trigger buf in
  (nlen buf <? Consts.det_min_len) = false ->
  last_index_of marker buf <> None ->
  out = pre ++ txt ++ tail ->
  trigger_text m txt -> greedy_end m tail ->
  last_index_of marker (txt ++ tail) = Some O ->
  (find_tmux out = None \/ (has_connector = true /\ m_port m <> None)) ->
  finished (skipn (N.to_nat Consts.det_finished_offset) (txt ++ tail)) = false ->
  parse_version (m_ver m) = Some ver ->
  (dedup_eligible false (id_value (m_id m)) = true -> map_find (d_map d) (id_value (m_id m)) = None) ->
  let t := {| t_mode := m_mode m; t_version := ver; t_id := id_value (m_id m);
              t_win := win_server (id_value (m_id m)); t_port := port_value (m_port m);
              t_prefix := match find_tmux out with Some p => p | None => [] end |} in
  rn_stand_by_read has_connector flag d relay_port buf =
    (rn_port_rewrite has_connector relay_port t (add_relay_suffix out (length pre)), Some t,
     set_map d (snd (is_repeated false (d_map d) (id_value (m_id m))))).
Proof.
  intros has_connector flag d relay_port buf pre m txt tail ver Hr Ht out Hlen Hmk Hout Htxt Hgr Hlast Htm Hfin Hver Hfresh t.
  unfold rn_stand_by_read. rewrite detect_tunnel_arg_ok.
  pose proof (fires_core false d has_connector buf pre m txt tail ver) as F.
  cbn zeta in F. rewrite Hr, Ht in F. cbn [andb] in F.
  specialize (F Hlen Hmk Hout Htxt Hgr Hlast Htm Hfin Hver Hfresh).
  rewrite F. reflexivity.
Qed.
