(* Lemmas about Model/BufQueue.v (property C03: the queue never loses a chunk). *)
From Trzsz Require Import Base.Bytes Gen.Consts Model.BufQueue.
From Coq Require Import ZArith Lia.

(* what the source says: addBuffer is a plain send (it waits), the queue has room *)
Lemma buffer_queue_src_ok : add_blocks = true /\ (0 < queue_capacity)%nat.
Proof.
  split; [reflexivity|]. unfold queue_capacity.
  assert (P: forall n, (0 < n)%N -> (0 < N.to_nat n)%nat) by (intros n Hn; lia). apply P. reflexivity.
Qed.

Definition q_all (s : qstate) : list (list byte) := q_taken s ++ q_queue s ++ q_todo s.

(* with a producer that waits, one move keeps every chunk, in order, and drops nothing *)
Lemma qstep_conserves cap m s s' :
  qstep cap true m s = Some s' -> q_all s' = q_all s /\ q_dropped s' = q_dropped s.
Proof.
  unfold qstep, q_all. destruct m.
  - destruct (q_todo s) as [|c r] eqn:T; [discriminate|].
    destruct (length (q_queue s) <? cap)%nat; [|discriminate].
    intros H; inversion H; subst; cbn [q_taken q_queue q_todo q_dropped].
    rewrite <- !app_assoc. auto.
  - destruct (q_queue s) as [|c q] eqn:Q; [discriminate|].
    intros H; inversion H; subst; cbn [q_taken q_queue q_todo q_dropped].
    rewrite <- !app_assoc. auto.
Qed.

(* ... hence under EVERY schedule, whatever the delay of the reader *)
Theorem qrun_conserves cap : forall sched s,
  q_all (qrun cap true sched s) = q_all s /\ q_dropped (qrun cap true sched s) = q_dropped s.
Proof.
  induction sched as [|m r IH]; intros s; [auto|].
  cbn [qrun]. destruct (qstep cap true m s) as [s'|] eqn:E; [|apply IH].
  destruct (qstep_conserves _ _ _ _ E) as [A D]. destruct (IH s') as [A' D'].
  rewrite A', D', A, D. auto.
Qed.

(* every move that is made is one move less to make *)
Lemma qstep_measure cap blocking m s s' :
  qstep cap blocking m s = Some s' -> S (q_measure s') = q_measure s \/
                                     (m = QProduce /\ blocking = false /\ S (S (q_measure s')) = q_measure s).
Proof.
  unfold qstep, q_measure. destruct m.
  - destruct (q_todo s) as [|c r] eqn:T; [discriminate|].
    destruct (length (q_queue s) <? cap)%nat.
    + intros H; inversion H; subst; cbn [q_queue q_todo]. rewrite app_length. cbn [length]. left. lia.
    + destruct blocking; [discriminate|].
      intros H; inversion H; subst; cbn [q_queue q_todo length]. right. repeat split. lia.
  - destruct (q_queue s) as [|c q] eqn:Q; [discriminate|].
    intros H; inversion H; subst; cbn [q_queue q_todo length]. left. lia.
Qed.

(* as long as something is left, somebody can move: the two goroutines never wait for each other *)
Theorem q_never_stuck cap blocking s : (0 < cap)%nat -> (0 < q_measure s)%nat ->
  exists m s', qstep cap blocking m s = Some s'.
Proof.
  intros Hc Hm. unfold q_measure in Hm. destruct (q_queue s) as [|c q] eqn:Q.
  - destruct (q_todo s) as [|c r] eqn:T; [cbn [length] in Hm; lia|].
    exists QProduce. unfold qstep. rewrite T, Q. cbn [length].
    destruct (Nat.ltb_spec 0 cap); [eauto|lia].
  - exists QConsume. unfold qstep. rewrite Q. eauto.
Qed.

(* when nothing is left to do, the reader has taken every chunk, in the order of the reads *)
Theorem q_done_all_taken cap sched chunks :
  q_measure (qrun cap true sched (q_init chunks)) = 0%nat ->
  q_taken (qrun cap true sched (q_init chunks)) = chunks /\
  q_dropped (qrun cap true sched (q_init chunks)) = [].
Proof.
  intros H. destruct (qrun_conserves cap sched (q_init chunks)) as [A D].
  unfold q_measure in H. unfold q_all in A. cbn [q_init q_taken q_queue q_todo q_dropped app] in *.
  destruct (q_todo (qrun cap true sched (q_init chunks))); [|cbn [length] in H; lia].
  destruct (q_queue (qrun cap true sched (q_init chunks))); [|cbn [length] in H; lia].
  rewrite !app_nil_r in A. auto.
Qed.

(* at any moment: taken, queued, to do = the reads, in order; so what has been taken is a prefix *)
Theorem q_taken_prefix cap sched chunks :
  exists rest, chunks = q_taken (qrun cap true sched (q_init chunks)) ++ rest.
Proof.
  destruct (qrun_conserves cap sched (q_init chunks)) as [A _]. unfold q_all in A.
  cbn [q_init q_taken q_queue q_todo app] in A. eexists. symmetry. exact A.
Qed.

(* a producer that does not wait loses chunks: capacity 1, two reads, a reader that comes late *)
Theorem q_nonblocking_loses :
  q_taken (qrun 1 false [QProduce; QProduce; QConsume; QConsume] (q_init [[97]; [98]])) = [[97]] /\
  q_dropped (qrun 1 false [QProduce; QProduce; QConsume; QConsume] (q_init [[97]; [98]])) = [[98]].
Proof. split; reflexivity. Qed.
