(* C02 and the resume exchange: with the receiver-side check of fix 75b62fe (announced size = source
   size - the receiver's own offset) no list of answers delivered to the sender can make the two ends
   continue from different offsets and still get a file reported as saved. *)
From Coq Require Import ZArith Lia List.
From Trzsz Require Import Base.Bytes Gen.Consts Model.Resume Model.FaultResume Proofs.Resume.
Import ListNotations.

(* the check is in the source: recvPrefixHash remembers size - matchStep, recvFiles resets it per file
   and refuses any other announced size *)
Lemma resume_rest_check_src_ok : Consts.c02_resume_rest_check = true. Proof. reflexivity. Qed.

Section FaultResumeProofs.
Variable B : N.
Variable H : list byte -> digest.
Hypothesis HB : (0 < B)%N.
Variables src dst : list byte.

(* what any completed run of either variant looks like: the receiver's offset is 0 or a step with equal
   cumulative digests, at most the shorter length; the sender's is whatever the answers made of it *)
Lemma fr_run_gen_shape check delivered o :
  fr_run_gen B H check src dst delivered = Some o ->
  exists m : nat,
    fo_mrecv o = Z.of_nat m /\ (m = O \/ good H src dst m = true) /\ (m <= Nat.min (length src) (length dst))%nat /\
    (0 <= fo_msend o)%Z /\
    (check = true -> fo_msend o = fo_mrecv o) /\
    fo_sent o = skipn (Z.to_nat (fo_msend o)) src /\
    fo_final o = firstn m dst ++ fo_sent o.
Proof.
  unfold fr_run_gen. set (size := Nat.min (length src) (length dst)).
  rewrite (send_spec B H HB src size None size 0 []) by (try reflexivity; unfold size; lia).
  set (l := steps_from B size None size 0).
  destruct (steps_incr B HB size None size 0) as [Hin Hall]; [lia|]. fold l in Hin, Hall.
  assert (Hall' : Forall (fun s => s <= length dst)%nat l).
  { eapply Forall_impl; [|exact Hall]. cbn. intros a Ha. unfold size in Ha. lia. }
  destruct (recv_honest B H HB src dst l 0 [] Hin (steps_gaps B HB size None size 0) Hall') as [st' [Hr [Hm _]]].
  unfold r_init. change (mkR true 0%Z [] 0 []) with (mkR true (Z.of_nat 0) (firstn 0 dst) 0 []).
  rewrite Hr. destruct (recv_hash_acks (Z.of_nat size) delivered) as [ms| |]; try discriminate.
  destruct (ms <? 0)%Z eqn:Neg; [discriminate|]. apply Z.ltb_ge in Neg.
  set (m := last (take_good H src dst l) 0%nat) in *.
  destruct (agreed_good B H HB src dst l size Hall) as [Hg Hle]. fold m in Hg, Hle.
  destruct (check && negb (Z.of_nat (length src) - ms =? Z.of_nat (length src) - r_mstep st')%Z) eqn:Ck; [discriminate|].
  intro E. inversion E; subst o; clear E. cbn [fo_mrecv fo_msend fo_sent fo_final].
  exists m. rewrite Hm, Nat2Z.id. split; [reflexivity|]. split; [exact Hg|]. split; [exact Hle|]. split; [exact Neg|].
  split.
  - intro Ec. rewrite Ec in Ck. cbn [andb] in Ck. apply negb_false_iff in Ck. apply Z.eqb_eq in Ck. rewrite Hm in Ck. lia.
  - split; [reflexivity|]. apply (final_content B HB dst m (r_off st')). unfold size in Hle. lia.
Qed.

(* the code as it is: the two ends continue from the same offset, and (collision-freeness on the
   compared prefixes, as in C08) the destination ends identical to the source - whatever answers
   were delivered *)
Theorem fr_run_identical delivered o :
  collision_free H src dst ->
  fr_run B H src dst delivered = Some o ->
  fo_mrecv o = fo_msend o /\ fo_final o = src.
Proof.
  intros Cf R. unfold fr_run in R. rewrite resume_rest_check_src_ok in R.
  destruct (fr_run_gen_shape true delivered o R) as (m & Em & Hg & _ & _ & Eq & Es & Ef).
  specialize (Eq eq_refl). split; [symmetry; exact Eq|].
  rewrite Ef, Es, Eq, Em, Nat2Z.id. destruct Hg as [->|Hg]; [reflexivity|].
  unfold good in Hg. apply list_eqb_eq in Hg. rewrite <- (Cf m Hg). apply firstn_skipn.
Qed.

End FaultResumeProofs.
