(* C02 and the resume exchange: with the receiver-side check of fix 75b62fe (announced size = source
   size - the receiver's own offset) no list of answers delivered to the sender can make the two ends
   continue from different offsets and still get a file reported as saved. *)
From Coq Require Import ZArith Lia List.
From Trzsz Require Import Base.Bytes Gen.Consts Model.Resume Model.FaultResume Proofs.Resume.
Import ListNotations.

(* the check is in the source: recvPrefixHash remembers size - matchStep, recvFiles resets it per file
   and refuses any other announced size *)
Lemma resume_rest_check_src_ok : Consts.c02_resume_rest_check = true. Proof. reflexivity. Qed.

Section FaultResumeProofs.
Variable B : N.
Variable H : list byte -> digest.
Hypothesis HB : (0 < B)%N.
Variables src dst : list byte.

(* what any completed run of either variant looks like: the receiver's offset is 0 or a step with equal
   cumulative digests, at most the shorter length; the sender's is whatever the answers made of it *)
Lemma fr_run_gen_shape check delivered o :
  fr_run_gen B H check src dst delivered = Some o ->
  exists m : nat,
    fo_mrecv o = Z.of_nat m /\ (m = O \/ good H src dst m = true) /\ (m <= Nat.min (length src) (length dst))%nat /\
    (0 <= fo_msend o)%Z /\
    (check = true -> fo_msend o = fo_mrecv o) /\
    fo_sent o = skipn (Z.to_nat (fo_msend o)) src /\
    fo_final o = firstn m dst ++ fo_sent o.
Proof.
  unfold fr_run_gen. set (size := Nat.min (length src) (length dst)).
  rewrite (send_spec B H HB src size None size 0 []) by (try reflexivity; unfold size; lia).
  set (l := steps_from B size None size 0).
  destruct (steps_incr B HB size None size 0) as [Hin Hall]; [lia|]. fold l in Hin, Hall.
  assert (Hall' : Forall (fun s => s <= length dst)%nat l).
  { eapply Forall_impl; [|exact Hall]. cbn. intros a Ha. unfold size in Ha. lia. }
  destruct (recv_honest B H HB src dst l 0 [] Hin (steps_gaps B HB size None size 0) Hall') as [st' [Hr [Hm _]]].
  unfold r_init. change (mkR true 0%Z [] 0 []) with (mkR true (Z.of_nat 0) (firstn 0 dst) 0 []).
  rewrite Hr. destruct (recv_hash_acks (Z.of_nat size) delivered) as [ms| |]; try discriminate.
  destruct (ms <? 0)%Z eqn:Neg; [discriminate|]. apply Z.ltb_ge in Neg.
  set (m := last (take_good H src dst l) 0%nat) in *.
  destruct (agreed_good B H HB src dst l size Hall) as [Hg Hle]. fold m in Hg, Hle.
  destruct (check && negb (Z.of_nat (length src) - ms =? Z.of_nat (length src) - r_mstep st')%Z) eqn:Ck; [discriminate|].
  intro E. inversion E; subst o; clear E. cbn [fo_mrecv fo_msend fo_sent fo_final].
  exists m. rewrite Hm, Nat2Z.id. split; [reflexivity|]. split; [exact Hg|]. split; [exact Hle|]. split; [exact Neg|].
  split.
  - intro Ec. rewrite Ec in Ck. cbn [andb] in Ck. apply negb_false_iff in Ck. apply Z.eqb_eq in Ck. rewrite Hm in Ck. lia.
  - split; [reflexivity|]. apply (final_content B HB dst m (r_off st')). unfold size in Hle. lia.
Qed.

(* the code as it is: the two ends continue from the same offset, and (collision-freeness on the
   compared prefixes, as in C08) the destination ends identical to the source - whatever answers
   were delivered *)
Theorem fr_run_identical delivered o :
  collision_free H src dst ->
  fr_run B H src dst delivered = Some o ->
  fo_mrecv o = fo_msend o /\ fo_final o = src.
Proof.
  intros Cf R. unfold fr_run in R. rewrite resume_rest_check_src_ok in R.
  destruct (fr_run_gen_shape true delivered o R) as (m & Em & Hg & _ & _ & Eq & Es & Ef).
  specialize (Eq eq_refl). split; [symmetry; exact Eq|].
  rewrite Ef, Es, Eq, Em, Nat2Z.id. destruct Hg as [->|Hg]; [reflexivity|].
  unfold good in Hg. apply list_eqb_eq in Hg. rewrite <- (Cf m Hg). apply firstn_skipn.
Qed.

End FaultResumeProofs.

(* ==========================================================================================
   The whole fault alphabet (Model/FaultResume.v fr_exchange): SIZE line, HASH records, answers. *)
Lemma resume_rest_guard_src_ok : Consts.c02_resume_rest_guard = 2%N. Proof. reflexivity. Qed.
(* the cut at the receiver's offset: unconditional (1, what the pinned source has), or made only when the
   existing file is longer than the size the receiver works with (2): shown below to give the same outcome
   for everything that can be delivered (fr_cut_condition_irrelevant), so either is accepted here *)
Lemma resume_truncates_src_ok : ((Consts.c02_resume_truncates =? 1) || (Consts.c02_resume_truncates =? 2))%N = true.
Proof. reflexivity. Qed.

Section FaultExchange.
Variable B : N.
Variable H : list byte -> digest.
Variables src dst : list byte.

(* the digest hypotheses, as everywhere in C02 / C08:
   - injective where it is compared: a prefix of the source against a prefix of the destination;
   - unforged: every digest a delivered HASH record carries is the digest of SOME prefix of the source
     (the step in front of it may be damaged, records may be lost, doubled, reordered) *)
Definition fx_injective : Prop := forall k m, H (firstn k src) = H (firstn m dst) -> firstn k src = firstn m dst.
Definition fx_unforged (hs : list hmsg) : Prop := forall step h, In (Hash step h) hs -> exists k, h = H (firstn k src).

(* receiver invariant over ANY list of delivered records *)
Definition rinv (st : rstate) : Prop :=
  (0 <= r_mstep st <= Z.of_nat (length dst))%Z /\
  (r_mstep st = 0%Z \/ exists k, H (firstn k src) = H (firstn (Z.to_nat (r_mstep st)) dst)) /\
  (r_match st = true -> r_mstep st = Z.of_nat (r_off st) /\ r_fed st = firstn (r_off st) dst).

Lemma recv_hashes_inv : forall msgs st st', fx_unforged msgs -> rinv st ->
  recv_hashes B H dst msgs st = ROver st' -> rinv st'.
Proof.
  induction msgs as [|m msgs IH]; intros st st' U I0 R; cbn [recv_hashes] in R; [discriminate|].
  destruct m as [hstep h|]; [|inversion R; subst; exact I0].
  assert (U' : fx_unforged msgs) by (intros s' h' In'; apply (U s' h'); right; exact In').
  destruct (negb (r_match st)) eqn:Nm; [exact (IH st st' U' I0 R)|].
  apply negb_false_iff in Nm. destruct I0 as (Bd & Good & Im). destruct (Im Nm) as [Eo Ef].
  rewrite step_guard_src_ok in R. cbn [andb] in R.
  destruct ((hstep - r_mstep st <=? 0)%Z || (Z.of_N B <? hstep - r_mstep st)%Z) eqn:G; [discriminate|].
  apply orb_false_iff in G. destruct G as [G1 _]. apply Z.leb_gt in G1.
  destruct (hstep - r_mstep st <? 0)%Z; [discriminate|].
  destruct (Z.of_nat (r_off st) + (hstep - r_mstep st) <=? Z.of_nat (length dst))%Z eqn:Le; [|discriminate].
  apply Z.leb_le in Le.
  set (n := Z.to_nat (hstep - r_mstep st)) in *.
  assert (Efed : r_fed st ++ firstn n (skipn (r_off st) dst) = firstn (r_off st + n) dst).
  { rewrite Ef. apply firstn_app_skipn. }
  rewrite Efed in R.
  refine (IH _ st' U' _ R). clear R IH.
  assert (En : Z.of_nat (r_off st + n) = hstep) by (unfold n; lia).
  destruct (list_eqb h (H (firstn (r_off st + n) dst))) eqn:M; unfold rinv; cbn [r_mstep r_match r_off r_fed].
  - split; [lia|]. split.
    + right. destruct (U hstep h (or_introl eq_refl)) as [k Ek]. exists k. apply list_eqb_eq in M.
      rewrite <- Ek, M. f_equal. f_equal. lia.
    + intros _. split; [lia | reflexivity].
  - split; [exact Bd|]. split; [exact Good | discriminate].
Qed.

Lemma rinv_init : rinv r_init.
Proof. unfold rinv, r_init. cbn. split; [lia|]. split; [left; reflexivity|]. intros _. split; reflexivity. Qed.

(* what the receiver's offset is worth: the destination and the source agree up to it, and it does not
   exceed the source *)
Lemma rinv_prefix st : fx_injective -> rinv st ->
  firstn (Z.to_nat (r_mstep st)) dst = firstn (Z.to_nat (r_mstep st)) src /\ (r_mstep st <= Z.of_nat (length src))%Z.
Proof.
  intros Inj (Bd & [E0|[k Ek]] & _).
  - rewrite E0. cbn. split; [reflexivity | lia].
  - set (m := Z.to_nat (r_mstep st)) in *. assert (Hm : (m <= length dst)%nat) by (unfold m; lia).
    pose proof (Inj k m Ek) as E. assert (L : length (firstn k src) = m) by (rewrite E, firstn_length; lia).
    rewrite firstn_length in L.
    destruct (Nat.le_ge_cases k (length src)) as [Hk|Hk].
    + rewrite Nat.min_l in L by exact Hk. subst k. split; [symmetry; exact E | unfold m in *; lia].
    + rewrite Nat.min_r in L by exact Hk. split; [|unfold m in *; lia].
      rewrite <- E. rewrite firstn_all2 by exact Hk. rewrite <- L. symmetry. apply firstn_all.
Qed.

Lemma fr_final_cut : forall m off sent, (m <= length dst)%nat ->
  f_data (f_write (f_truncate (f_seek (mkFile dst off) m) m) sent) = firstn m dst ++ sent.
Proof.
  intros m off sent Hm. unfold f_write, f_truncate, f_seek. cbn [f_data f_off].
  replace (m - length dst)%nat with O by lia. cbn [repeat]. rewrite app_nil_r.
  rewrite firstn_firstn, Nat.min_id, firstn_length.
  replace (m - Nat.min m (length dst))%nat with O by lia. cbn [repeat app].
  rewrite skipn_all2 by (rewrite firstn_length; lia). rewrite app_nil_r. reflexivity.
Qed.

(* THE theorem, for the guard ">= 0" and the unconditional cut (what the code has: the two _src_ok
   lemmas above) and EITHER treatment of the hash-phase SIZE line.  Whatever SIZE line, HASH records
   and answers are delivered - for EVERY relation between the existing destination and the source
   (absent / empty: dst = []; proper prefix, identical, longer with the same prefix, longer or shorter
   and diverging: any dst) - if the exchange completes, the destination afterwards IS the source.
   Premise on the size the receiver works with: protocol 4 (NAME record), or the hash-phase SIZE line
   was delivered as sent.  The boundary rest = 0 (the receiver keeps the whole destination) is inside:
   the guard compares whenever the remembered rest is >= 0. *)
Theorem fr_exchange_identical_gen sizeck proto4 d o :
  fx_injective -> fx_unforged (fd_hashes d) ->
  proto4 = true \/ fd_size d = Z.of_nat (length src) ->
  fr_exchange B H 2 1 sizeck proto4 src dst d = Some o ->
  fo_mrecv o = fo_msend o /\ fo_final o = src.
Proof.
  intros Inj U Sz. unfold fr_exchange.
  destruct dst as [|b0 dst0] eqn:Ed.
  - destruct (fr_is_nil (fd_hashes d) && fr_is_nil (fd_answers d)); [|discriminate].
    intro E. inversion E; subst o. cbn [fo_mrecv fo_msend fo_final]. split; [reflexivity|].
    unfold f_write. cbn [f_data f_off firstn length repeat app Nat.sub]. rewrite skipn_nil, app_nil_r. reflexivity.
  - rewrite <- Ed in *.
    assert (Es : (if proto4 then Z.of_nat (length src) else fd_size d) = Z.of_nat (length src)).
    { destruct Sz as [->| ->]; [reflexivity | destruct proto4; reflexivity]. }
    rewrite Es.
    destruct ((sizeck =? 1)%N && negb proto4 && (0 <? Z.of_nat (length src))%Z && negb (Z.of_nat (length src) =? Z.of_nat (length src))%Z);
      [discriminate|].
    destruct (recv_hashes B H dst (fd_hashes d) r_init) as [st| | | |] eqn:R; try discriminate.
    destruct (negb (fr_is_nil (fr_after_over (fd_hashes d)))); [discriminate|].
    destruct (fr_recv_hash_acks (Z.of_nat (Nat.min (length src) (length dst))) (fd_answers d)) as [[ms| |] [|a l]]; try discriminate.
    destruct (ms <? 0)%Z eqn:Neg; [discriminate|]. apply Z.ltb_ge in Neg.
    pose proof (recv_hashes_inv _ _ _ U rinv_init R) as Iv.
    destruct (rinv_prefix st Inj Iv) as [Pf Le]. destruct Iv as (Bd & _ & _).
    destruct ((sizeck =? 1)%N && (Z.of_nat (length src) - r_mstep st <? 0)%Z); [discriminate|].
    cbn [N.eqb Pos.eqb].
    destruct (0 <=? Z.of_nat (length src) - r_mstep st)%Z eqn:Ck; [|apply Z.leb_gt in Ck; lia].
    cbn [andb].
    destruct (Z.of_nat (length src) - ms =? Z.of_nat (length src) - r_mstep st)%Z eqn:Eq; [|discriminate].
    apply Z.eqb_eq in Eq. cbn [negb]. rewrite fr_final_cut by lia. intro E. injection E as <-. cbn [fo_mrecv fo_msend fo_final].
    assert (Em : ms = r_mstep st) by lia. split; [symmetry; exact Em|]. subst ms.
    rewrite Pf. apply firstn_skipn.
Qed.

(* with the SIZE line compared against the NAME record (sizeck = 1) the premise on the size is not needed:
   protocol 3 included, ANY delivered SIZE line *)
Lemma fr_exchange_sizeck_size d o :
  fx_injective -> fx_unforged (fd_hashes d) -> dst <> [] ->
  fr_exchange B H 2 1 1 false src dst d = Some o -> fd_size d = Z.of_nat (length src).
Proof.
  intros Inj U Ne. unfold fr_exchange. destruct dst as [|b0 dst0] eqn:Ed; [contradiction|]. rewrite <- Ed in *.
  cbn [N.eqb Pos.eqb negb andb].
  destruct (0 <? Z.of_nat (length src))%Z eqn:Ps.
  - destruct (Z.eqb_spec (fd_size d) (Z.of_nat (length src))) as [E|_]; [intros _; exact E | discriminate].
  - (* the source is empty: the receiver's offset is 0, the sender announces 0, the guard compares *)
    apply Z.ltb_ge in Ps. cbn [negb andb].
    destruct (recv_hashes B H dst (fd_hashes d) r_init) as [st| | | |] eqn:R; try discriminate.
    destruct (negb (fr_is_nil (fr_after_over (fd_hashes d)))); [discriminate|].
    destruct (fr_recv_hash_acks (Z.of_nat (Nat.min (length src) (length dst))) (fd_answers d)) as [[ms| |] [|a l]] eqn:Ra; try discriminate.
    destruct (ms <? 0)%Z eqn:Neg; [discriminate|]. apply Z.ltb_ge in Neg.
    pose proof (recv_hashes_inv _ _ _ U rinv_init R) as Iv.
    destruct (rinv_prefix st Inj Iv) as [_ Le]. destruct Iv as (Bd & _ & _).
    assert (L0 : length src = O) by lia. rewrite L0 in *. cbn [Nat.min] in Ra.
    unfold fr_recv_hash_acks in Ra. cbn [Z.of_nat Z.eqb] in Ra. inversion Ra; subst ms.
    destruct (fd_size d - r_mstep st <? 0)%Z eqn:Ng; [discriminate|]. apply Z.ltb_ge in Ng.
    destruct (0 <=? fd_size d - r_mstep st)%Z eqn:Ck; [|apply Z.leb_gt in Ck; lia].
    cbn [andb]. destruct (Z.eqb_spec (Z.of_nat 0 - 0) (fd_size d - r_mstep st)) as [E|_]; [|discriminate].
    intros _. cbn in E. lia.
Qed.

Theorem fr_exchange_identical_sizeck proto4 d o :
  fx_injective -> fx_unforged (fd_hashes d) ->
  fr_exchange B H 2 1 1 proto4 src dst d = Some o ->
  fo_mrecv o = fo_msend o /\ fo_final o = src.
Proof.
  intros Inj U R.
  destruct proto4; [exact (fr_exchange_identical_gen 1 true d o Inj U (or_introl eq_refl) R)|].
  destruct dst as [|b0 dst0] eqn:Ed.
  - (* no exchange: the outcome does not depend on what was delivered as the SIZE line *)
    apply (fr_exchange_identical_gen 1 false (mkFrDeliv (Z.of_nat (length src)) (fd_hashes d) (fd_answers d)) o Inj U);
      [right; reflexivity | rewrite Ed; exact R].
  - rewrite <- Ed in *.
    apply (fr_exchange_identical_gen 1 false d o Inj U); [right | exact R].
    apply (fr_exchange_sizeck_size d o Inj U); [rewrite Ed; discriminate | exact R].
Qed.

(* ---- the cut at the receiver's offset: unconditional (the code) or only when the existing file is longer
   than the size the receiver works with.  With the guard on the rest in force (>= 0) the outcome is the SAME
   for everything that can be delivered: when the cut is skipped, the guard has made sure that the data that
   follows reaches at least to the end of the existing file. *)
Lemma fr_recv_acks_upper : forall acks size m0 ms rest, (m0 <= size)%Z ->
  fr_recv_acks size acks m0 = (SDone ms, rest) -> (ms <= size)%Z.
Proof.
  induction acks as [|a acks IH]; intros size m0 ms rest Hm R; cbn [fr_recv_acks] in R; [discriminate|].
  destruct (negb (a_match a)); [inversion R; subst; exact Hm|].
  destruct (Z.eqb_spec (a_step a) size) as [E|Ne]; [inversion R; subst; lia|].
  destruct (Z.ltb_spec size (a_step a)); [discriminate|].
  apply (IH size (a_step a) ms rest); [lia | exact R].
Qed.

Lemma fr_recv_hash_acks_upper size acks ms rest : (0 <= size)%Z ->
  fr_recv_hash_acks size acks = (SDone ms, rest) -> (ms <= size)%Z.
Proof.
  intros Hs. unfold fr_recv_hash_acks. destruct (Z.eqb_spec size 0); [intro R; inversion R; lia|].
  apply fr_recv_acks_upper. lia.
Qed.

Definition rbound (st : rstate) : Prop := (0 <= r_mstep st <= Z.of_nat (length dst))%Z /\ (r_match st = true -> r_mstep st = Z.of_nat (r_off st)).

Lemma recv_hashes_bound : forall msgs st st', rbound st -> recv_hashes B H dst msgs st = ROver st' -> rbound st'.
Proof.
  induction msgs as [|m msgs IH]; intros st st' I0 R; cbn [recv_hashes] in R; [discriminate|].
  destruct m as [hstep h|]; [|inversion R; subst; exact I0].
  destruct (negb (r_match st)) eqn:Nm; [exact (IH st st' I0 R)|].
  apply negb_false_iff in Nm. destruct I0 as (Bd & Im). pose proof (Im Nm) as Eo.
  rewrite step_guard_src_ok in R. cbn [andb] in R.
  destruct ((hstep - r_mstep st <=? 0)%Z || (Z.of_N B <? hstep - r_mstep st)%Z) eqn:G; [discriminate|].
  apply orb_false_iff in G. destruct G as [G1 _]. apply Z.leb_gt in G1.
  destruct (hstep - r_mstep st <? 0)%Z; [discriminate|].
  destruct (Z.of_nat (r_off st) + (hstep - r_mstep st) <=? Z.of_nat (length dst))%Z eqn:Le; [|discriminate].
  apply Z.leb_le in Le. refine (IH _ st' _ R). clear R IH.
  destruct (list_eqb h _); unfold rbound; cbn [r_mstep r_match r_off]; split; try lia; try discriminate; try exact Bd;
    try (intros _; lia).
Qed.

Theorem fr_cut_condition_irrelevant sizeck proto4 d :
  fr_exchange B H 2 2 sizeck proto4 src dst d = fr_exchange B H 2 1 sizeck proto4 src dst d.
Proof.
  unfold fr_exchange. destruct dst as [|b0 dst0] eqn:Ed; [reflexivity|]. rewrite <- Ed in *.
  set (size_r := if proto4 then Z.of_nat (length src) else fd_size d).
  destruct ((sizeck =? 1)%N && negb proto4 && (0 <? Z.of_nat (length src))%Z && negb (size_r =? Z.of_nat (length src))%Z); [reflexivity|].
  destruct (recv_hashes B H dst (fd_hashes d) r_init) as [st| | | |] eqn:R; try reflexivity.
  destruct (negb (fr_is_nil (fr_after_over (fd_hashes d)))); [reflexivity|].
  destruct (fr_recv_hash_acks (Z.of_nat (Nat.min (length src) (length dst))) (fd_answers d)) as [[ms| |] [|a l]] eqn:Ra; try reflexivity.
  destruct (ms <? 0)%Z eqn:Neg; [reflexivity|]. apply Z.ltb_ge in Neg.
  destruct ((sizeck =? 1)%N && (size_r - r_mstep st <? 0)%Z); [reflexivity|].
  cbn [N.eqb Pos.eqb].
  assert (Bd : rbound st).
  { apply (recv_hashes_bound (fd_hashes d) r_init st); [|exact R]. unfold rbound, r_init. cbn. split; [lia | reflexivity]. }
  destruct Bd as [Bd _].
  pose proof (fr_recv_hash_acks_upper _ (fd_answers d) ms [] (Nat2Z.is_nonneg _) Ra) as Ub.
  destruct (0 <=? size_r - r_mstep st)%Z eqn:Ck; cbn [andb].
  - destruct (Z.eqb_spec (Z.of_nat (length src) - ms) (size_r - r_mstep st)) as [Eq|Ne]; [|reflexivity]. cbn [negb].
    destruct (size_r <? Z.of_nat (length dst))%Z eqn:Lt; [reflexivity|]. apply Z.ltb_ge in Lt.
    (* not cut: the data reaches the end of the existing file *)
    f_equal. f_equal.
    set (mr := Z.to_nat (r_mstep st)). set (sent := skipn (Z.to_nat ms) src).
    assert (Ls : length sent = (length src - Z.to_nat ms)%nat) by (unfold sent; apply skipn_length).
    assert (Hm : (mr <= length dst)%nat) by (unfold mr; lia).
    assert (Cover : (length dst <= mr + length sent)%nat) by (rewrite Ls; unfold mr; lia).
    rewrite fr_final_cut by exact Hm.
    unfold f_write, f_seek. cbn [f_data f_off].
    replace (mr - length dst)%nat with O by lia. cbn [repeat app].
    rewrite skipn_all2 by exact Cover. rewrite app_nil_r. reflexivity.
  - (* the rest is negative: the delivered size lies below the receiver's offset, hence below the existing length: cut in both *)
    apply Z.leb_gt in Ck. assert (Lt : (size_r <? Z.of_nat (length dst))%Z = true) by (apply Z.ltb_lt; lia).
    rewrite Lt. reflexivity.
Qed.

(* the code: guard and cut as pinned above, the SIZE line treated as the source says *)
Theorem fr_exchange_code_identical proto4 d o :
  fx_injective -> fx_unforged (fd_hashes d) ->
  proto4 = true \/ fd_size d = Z.of_nat (length src) \/ Consts.c02_resume_size_guard = 1%N ->
  fr_exchange_code B H proto4 src dst d = Some o ->
  fo_mrecv o = fo_msend o /\ fo_final o = src.
Proof.
  intros Inj U Sz. unfold fr_exchange_code. rewrite resume_rest_guard_src_ok.
  pose proof resume_truncates_src_ok as T. apply orb_true_iff in T.
  destruct T as [T|T]; apply N.eqb_eq in T; rewrite T; [|rewrite fr_cut_condition_irrelevant];
  (destruct Sz as [P|[S|G]];
   [apply (fr_exchange_identical_gen _ proto4 d o Inj U); left; exact P
   |apply (fr_exchange_identical_gen _ proto4 d o Inj U); right; exact S
   |rewrite G; apply (fr_exchange_identical_sizeck proto4 d o Inj U)]).
Qed.

End FaultExchange.
