(* C18, download direction, data phase: the composition theorem on the abstract machine [ystep] of
   Model/PauseDown.v. *)
From Trzsz Require Import Base.Bytes Gen.Consts Model.Pause Model.PauseDown Proofs.PauseComp.
From Coq Require Import Lia.
Local Open Scope nat_scope.

Section DownProofs.
Variables T' SL GL n W P : nat.
Let T := S T'.
Let cf := mkCfg T SL GL true.
Hypothesis HW : 1 <= W.
Hypothesis HSL : 1 <= SL.
Hypothesis HGL : 1 <= GL.
Hypothesis HP : P + Nat.max SL GL < T.

Definition kbusy (k : kph) : nat := match k with KIdle => 0 | _ => 1 end.
Definition pabusy (p : rph) : nat := match p with RIdle => 0 | _ => 1 end.

(* our acker can move now, and whatever it does next reaches the peer's ack reader (an acknowledgement, or a
   keep-alive if a pause has begun) *)
Definition kpend (b : bst) : bool :=
  match yK b with
  | KIdle => match yKq b with [] => false | _ => true end
  | KHave _ => true
  | KIn _ SPassed => true
  | _ => false
  end.

(* some goroutine can move now and the chain of moves it starts ends with a DATA frame for our reader *)
Definition dpend (b : bst) : bool :=
  match yPS b with
  | CSGate _ => true
  | CSIn _ _ => true
  | CSPush _ => (yPcnt b <? W)
  | CSDone => false
  end
  || match yPA b with RIdle => (0 <? yPcnt b) | _ => false end
  || match yK b with KIn _ SPassed => true | _ => false end.

Definition ysleeper_ok (e : epi) (j lim : nat) : Prop :=
  1 <= j <= lim /\ match e with EpNone => False | EpPausing _ => True | EpResumed _ i => j + i <= Nat.max SL GL end.

Record BInv (b : bst) : Prop := mkBInv {
  b_bad : yBad b = false;
  b_c1 : yDeliv b ++ yDq b = seq 0 (written n (yPS b));
  b_c2 : yPacked b + length (datas (yPAq b)) + kbusy (yK b) + length (yKq b) = length (yDeliv b);
  b_c3 : pushed n (yPS b) = yPacked b + yPcnt b + pabusy (yPA b);
  b_c4 : forall t, yPA b = RRead t -> yPAq b = [] /\ 1 <= t <= T;
  b_c5 : forall t, yD b = ORead t -> yDq b = [] /\ 1 <= t <= T /\ y_live n b = true;
  b_c6 : forall j, yD b = OGate j -> y_live n b = true;
  b_s1 : match yPS b with CSGate k => k < n | CSIn k p => k < n /\ p = SPassed | CSPush k => k < n | CSDone => True end;
  b_s2 : yPcnt b <= W;
  b_k1 : forall k, yK b <> KIn k SIdle;
  b_p1 : yPausing b = true <-> exists e, yEp b = EpPausing e;
  b_p2k : forall k j, yK b = KIn k (SSleep j) -> ysleeper_ok (yEp b) j GL;
  b_p2d : forall j, yD b = OGate j -> ysleeper_ok (yEp b) j SL;
  b_p3 : match yEp b with EpNone => True | EpPausing e => e <= P | EpResumed e j => e <= P /\ j < Nat.max SL GL end;
  b_tpa : forall t, yPA b = RRead t -> kpend b = false -> T <= elapsed (yEp b) + t;
  b_td : forall t, yD b = ORead t -> dpend b = false -> T <= elapsed (yEp b) + t }.

Lemma ywritten_le : forall b, BInv b -> written n (yPS b) <= n.
Proof. intros b H. pose proof (b_s1 b H) as Hs. destruct (yPS b); cbn; try lia. Qed.

Lemma ypushed_le : forall b, BInv b -> pushed n (yPS b) <= written n (yPS b).
Proof. intros b H. destruct (yPS b); cbn; lia. Qed.

Lemma ydeliv_len : forall b, BInv b -> length (yDeliv b) + length (yDq b) = written n (yPS b).
Proof. intros b H. pose proof (b_c1 b H) as E. apply (f_equal (@length nat)) in E. rewrite app_length, seq_length in E. exact E. Qed.

Ltac yflds := cbn [yPausing yPS yPcnt yD yDq yDeliv yK yKq yPA yPAq yPacked yBad yEp] in *.

Ltac yopen b H :=
  destruct b as [pa ps pcnt dp dq dl kp kq pp pq pk bad ep];
  destruct H as [Hbad C1 C2 C3 C4 C5 C6 S1 S2 K1 P1 P2k P2d P3 Tpa Td];
  yflds.

Ltac yunf := repeat (progress unfold y_setPS, y_setD, y_setK, y_setPA, y_bad, y_flags, y_deliver, y_darrive, y_dcall,
                       y_paarrive, y_pacall, y_kgate in * ).

Lemma yinv_init : BInv (yinit n).
Proof.
  unfold yinit. constructor; yflds; auto; try (intros; discriminate).
  - destruct n eqn:En; cbn; reflexivity.
  - destruct n eqn:En; cbn; try rewrite En; reflexivity.
  - destruct n eqn:En; cbn; auto; lia.
  - lia.
  - split; [discriminate|intros (e & He); discriminate].
Qed.

Lemma ystep_pause : forall b b', BInv b -> ystep cf n W P b YPause = Some b' -> BInv b'.
Proof.
  intros b b' H Hs. yopen b H. cbn in Hs.
  destruct ep as [|e|e j]; inversion Hs; subst; clear Hs; unfold y_flags; constructor; yflds;
    cbn [ep_pause kpend dpend y_live elapsed] in *; auto.
  - split; eauto.
  - intros k j E. destruct (P2k k j E) as (? & []).
  - intros j E. destruct (P2d j E) as (? & []).
  - lia.
  - split; eauto.
Qed.

Lemma ystep_resume : forall b b', BInv b -> ystep cf n W P b YResume = Some b' -> BInv b'.
Proof.
  intros b b' H Hs. yopen b H. cbn in Hs.
  destruct ep as [|e|e j]; try discriminate. destruct pa; inversion Hs; subst; clear Hs; unfold y_flags; constructor; yflds;
    cbn [elapsed kpend dpend y_live] in *; auto.
  - split; [discriminate|intros (e0 & He); discriminate].
  - intros k j E. destruct (P2k k j E) as (? & _). split; [auto|lia].
  - intros j E. destruct (P2d j E) as (? & _). split; [auto|lia].
  - lia.
  - intros t Hr Hp. specialize (Tpa t Hr Hp). lia.
  - intros t Hr Hp. specialize (Td t Hr Hp). lia.
Qed.

Ltac yeqs :=
  repeat match goal with
         | H : OGate _ = OGate _ |- _ => inversion H; subst; clear H
         | H : ORead _ = ORead _ |- _ => inversion H; subst; clear H
         | H : RRead _ = RRead _ |- _ => inversion H; subst; clear H
         | H : KIn _ _ = KIn _ _ |- _ => inversion H; subst; clear H
         | H : KHave _ = KHave _ |- _ => inversion H; subst; clear H
         | H : CSIn _ _ = CSIn _ _ |- _ => inversion H; subst; clear H
         | H : EpPausing _ = EpPausing _ |- _ => inversion H; subst; clear H
         | H : @eq oph _ _ |- _ => discriminate H
         | H : @eq rph _ _ |- _ => discriminate H
         | H : @eq kph _ _ |- _ => discriminate H
         | H : @eq csph _ _ |- _ => discriminate H
         | H : @eq epi _ _ |- _ => discriminate H
         | H : @eq bool _ _ |- _ => discriminate H
         | H : @eq sphase _ _ |- _ => discriminate H
         | H : exists _, _ |- _ => destruct H
         end.

Ltac ypendh :=
  repeat match goal with
         | H : kpend _ = false |- _ => unfold kpend in H; cbn [yK yKq] in H
         | H : dpend _ = false |- _ =>
           unfold dpend in H; cbn [yPS yPcnt yPA yK orb] in H; rewrite ?Bool.orb_true_r, ?Bool.orb_false_r in H; cbn [orb] in H
         end.

Ltac ylt :=
  repeat match goal with
         | H : (_ <? _) = true |- _ => apply Nat.ltb_lt in H
         | H : (_ <? _) = false |- _ => apply Nat.ltb_ge in H
         | H : (_ <=? _) = true |- _ => apply Nat.leb_le in H
         | H : (_ <=? _) = false |- _ => apply Nat.leb_gt in H
         | H : _ || _ = false |- _ => apply Bool.orb_false_iff in H; destruct H
         end.

Ltac yfin :=
  intros; yeqs; repeat split; intros; yeqs;
  first [ solve [auto] | lia | discriminate
        | (unfold y_live; cbn [yDeliv]; apply Nat.ltb_lt; rewrite ?app_length; cbn [length]; lia)
        | (rewrite <- app_assoc; cbn [app]; assumption)
        | (rewrite ?app_length; cbn [length]; lia)
        | (ypendh; yeqs; ylt; first [lia | discriminate | solve [eauto]]) | solve [eauto] | idtac ].

Lemma ystep_pscall : forall b b', BInv b -> ystep cf n W P b YPSCall = Some b' -> BInv b'.
Proof.
  intros b b' H Hs. yopen b H. unfold ystep in Hs; yflds.
  destruct ps as [k|k p|k|]; try discriminate. inversion Hs; subst; clear Hs. yunf; yflds.
  constructor; yflds; cbn [pushed written] in *; auto.
Qed.

Lemma ystep_pspush : forall b b', BInv b -> ystep cf n W P b YPSPush = Some b' -> BInv b'.
Proof.
  intros b b' H Hs. pose proof (ydeliv_len b H) as DL. yopen b H. unfold ystep in Hs; yflds.
  destruct ps as [k|k p|k|]; try discriminate. destruct (pcnt <? W) eqn:Ec; [|discriminate]. apply Nat.ltb_lt in Ec.
  inversion Hs; subst; clear Hs. yunf; yflds.
  destruct (S k <? n) eqn:En; [apply Nat.ltb_lt in En | apply Nat.ltb_ge in En]; constructor; yflds;
    cbn [pushed written] in *; auto; try lia.
  - intros t Hr Hp. discriminate Hp.
  - assert (S k = n) by lia. congruence.
  - intros t Hr Hp. exfalso. destruct (C5 t Hr) as (Hq & _ & Hl). subst dq. unfold y_live in Hl; yflds.
    apply Nat.ltb_lt in Hl. cbn [length] in DL. lia.
Qed.

Lemma ystep_patake : forall b b', BInv b -> ystep cf n W P b YPATake = Some b' -> BInv b'.
Proof.
  intros b b' H Hs. yopen b H. unfold ystep in Hs; yflds.
  destruct pp; try discriminate. destruct pcnt as [|c]; try discriminate.
  inversion Hs; subst; clear Hs. yunf; yflds.
  destruct (first_data pq) as [[k q']|] eqn:Ef.
  - pose proof (first_data_some _ _ _ Ef) as Ed. rewrite Ed in C2. cbn [length] in C2.
    constructor; yflds; cbn [pushed written pabusy] in *; auto; try lia; try (intros; discriminate).
    intros t Hr Hp. ypendh. destruct ps as [k0|k0 p0|k0|]; try discriminate.
    + exfalso. ylt. lia.
    + exfalso. destruct (C5 t Hr) as (Hq & _ & Hl). subst dq. unfold y_live in Hl; yflds. ylt.
      apply (f_equal (@length nat)) in C1. rewrite app_length, seq_length in C1. cbn in C1. lia.
  - pose proof (first_data_none _ Ef) as Ed. rewrite Ed in C2. cbn [length] in C2.
    constructor; yflds; cbn [pushed written pabusy datas length] in *; auto; try lia; try (intros; discriminate).
    + intros t E. inversion E; subst. split; [reflexivity|unfold T; lia].
    + intros t E Hp. inversion E; subst. unfold T. lia.
    + intros t Hr Hp. ypendh. destruct ps as [k0|k0 p0|k0|]; try discriminate.
      * exfalso. ylt. lia.
      * exfalso. destruct (C5 t Hr) as (Hq & _ & Hl). subst dq. unfold y_live in Hl; yflds. ylt.
        apply (f_equal (@length nat)) in C1. rewrite app_length, seq_length in C1. cbn in C1. lia.
Qed.

Lemma ystep_dcall : forall b b', BInv b -> ystep cf n W P b YDCall = Some b' -> BInv b'.
Proof.
  intros b b' H Hs. pose proof (ydeliv_len b H) as DL. pose proof (ywritten_le b H) as WL. yopen b H. unfold ystep in Hs; yflds.
  destruct dp; try discriminate. destruct (y_live n _) eqn:Hlive; [|discriminate].
  inversion Hs; subst; clear Hs. unfold y_live in Hlive; yflds. apply Nat.ltb_lt in Hlive. yunf; yflds.
  destruct pa; [|destruct dq as [|k q]]; yflds; constructor; yflds; cbn [pushed written] in *; auto; try (intros; discriminate).
  - intros j E. unfold y_live; yflds. apply Nat.ltb_lt; lia.
  - intros j E. inversion E; subst. split; [cbn; lia|]. destruct (proj1 P1 eq_refl) as (e & ->). exact I.
  - intros t E. inversion E; subst. repeat split; auto; try (unfold T; lia). unfold y_live; yflds. apply Nat.ltb_lt; lia.
  - intros t E Hp. inversion E; subst. unfold T. lia.
  - rewrite <- app_assoc. exact C1.
  - rewrite !app_length. cbn [length]. lia.
  - intros t Hr Hp. unfold kpend in Hp; yflds. destruct kp as [|k0|k0 [|j|]]; try discriminate.
    + destruct kq; discriminate.
    + exfalso. exact (K1 k0 eq_refl).
    + apply (Tpa t Hr). reflexivity.
Qed.

Lemma ystep_pswrite : forall b b', BInv b -> ystep cf n W P b YPSWrite = Some b' -> BInv b'.
Proof.
  intros b b' H Hs. yopen b H. unfold ystep in Hs; yflds.
  destruct ps as [k|k [|j|]|k|]; try discriminate. inversion Hs; subst; clear Hs. yunf; yflds. cbn [written pushed] in *.
  destruct dp as [|j|t]; yflds; constructor; yflds; cbn [pushed written] in *; auto; try lia; try (intros; discriminate);
    try (rewrite !app_length; cbn [length]; lia);
    try (rewrite app_assoc, C1, seq_snoc; reflexivity).
  - destruct (C5 t eq_refl) as (-> & _). rewrite app_nil_r in *. rewrite C1, seq_snoc. reflexivity.
  - intros t0 Hr Hp. unfold kpend in Hp; yflds. destruct kp as [|k0|k0 [|j|]]; try discriminate.
    + destruct kq; discriminate.
    + exfalso. exact (K1 k0 eq_refl).
    + apply (Tpa t0 Hr). reflexivity.
Qed.

Lemma ystep_ktake : forall b b', BInv b -> ystep cf n W P b YKTake = Some b' -> BInv b'.
Proof.
  intros b b' H Hs. yopen b H. unfold ystep in Hs; yflds.
  destruct kp; try discriminate. destruct kq as [|k q]; try discriminate.
  inversion Hs; subst; clear Hs. yunf; yflds.
  constructor; yflds; cbn [kbusy length] in *; auto; try lia; try (intros; discriminate).
Qed.

Lemma ystep_kcall : forall b b', BInv b -> ystep cf n W P b YKCall = Some b' -> BInv b'.
Proof.
  intros b b' H Hs. yopen b H. unfold ystep in Hs; yflds.
  destruct kp as [|k|k p]; try discriminate.
  inversion Hs; subst; clear Hs. yunf; yflds.
  destruct pa; [destruct pp as [|t]|]; yflds; constructor; yflds; cbn [kbusy pabusy] in *; auto; try lia; try (intros; discriminate).
  - rewrite datas_app. cbn. rewrite app_nil_r. exact C2.
  - intros k0 j E. inversion E; subst. split; [cbn; lia|]. destruct (proj1 P1 eq_refl) as (e & ->). exact I.
  - intros t0 E. inversion E; subst. destruct (C4 t eq_refl) as (? & ?). split; auto; cbn; unfold T; lia.
  - intros k0 j E. inversion E; subst. split; [cbn; lia|]. destruct (proj1 P1 eq_refl) as (e & ->). exact I.
  - intros t0 E Hp. inversion E; subst. cbn. lia.
  - intros t Hr Hp. ypendh. discriminate.
Qed.

Lemma ystep_kwrite : forall b b', BInv b -> ystep cf n W P b YKWrite = Some b' -> BInv b'.
Proof.
  intros b b' H Hs. pose proof (ydeliv_len b H) as DL. yopen b H. unfold ystep in Hs; yflds.
  destruct kp as [|k|k [|j|]]; try discriminate.
  inversion Hs; subst; clear Hs. yunf; yflds.
  destruct pp as [|t]; yflds; constructor; yflds; cbn [kbusy pabusy] in *; auto; try lia; try (intros; discriminate).
  - rewrite datas_app, app_length. cbn. lia.
  - intros t Hr Hp. exfalso. ypendh. destruct (C5 t Hr) as (Hq & _ & Hl). subst dq. unfold y_live in Hl; yflds. ylt. cbn [length] in DL.
    destruct ps as [k0|k0 p0|k0|]; cbn [pushed written] in *; try discriminate; ylt; lia.
  - intros t0 Hr Hp. exfalso. ypendh. destruct (C5 t0 Hr) as (Hq & _ & Hl). subst dq. unfold y_live in Hl; yflds. ylt. cbn [length] in DL.
    destruct ps as [k0|k0 p0|k0|]; cbn [pushed written] in *; try discriminate; ylt; lia.
Qed.

Lemma yquiescent_props : forall b, y_quiescent n W b = true ->
  (match yPS b with CSPush _ => W <= yPcnt b | CSDone => True | _ => False end) /\
  (yPA b = RIdle -> yPcnt b = 0) /\
  (yD b = OIdle -> n <= length (yDeliv b)) /\
  (match yK b with KIdle => yKq b = [] | KIn _ (SSleep _) => True | _ => False end).
Proof.
  intros b H. unfold y_quiescent, y_live in H.
  apply Bool.andb_true_iff in H. destruct H as (H & H4). apply Bool.andb_true_iff in H. destruct H as (H & H3).
  apply Bool.andb_true_iff in H. destruct H as (H1 & H2).
  repeat split.
  - destruct (yPS b) as [k|k p|k|]; try discriminate; auto. apply Nat.leb_le. exact H1.
  - intros E. rewrite E in H2. apply Bool.negb_true_iff in H2. apply Nat.ltb_ge in H2. lia.
  - intros E. rewrite E in H3. apply Bool.negb_true_iff in H3. apply Nat.ltb_ge in H3. exact H3.
  - destruct (yK b) as [|k|k [|j|]]; try discriminate; auto. destruct (yKq b); [reflexivity|discriminate].
Qed.

Ltac ytick_eval Hs :=
  cbv [y_tickK y_tickD y_tickPA y_setPS y_setD y_setK y_setPA y_bad y_flags y_deliver y_darrive y_dcall y_paarrive
       y_pacall y_kgate yPausing yPS yPcnt yD yDq yDeliv yK yKq yPA yPAq yPacked yBad yEp cT cSL cGL cf] in Hs;
  inversion Hs; subst; clear Hs.

Ltac ypa_of_ep pa P1a P1b :=
    destruct pa;
    try (exfalso; destruct (P1a eq_refl) as (? & X); discriminate X);
    try (exfalso; assert (X : false = true) by (apply P1b; eauto); discriminate X).


Ltac yclose Hs :=
  ytick_eval Hs; constructor; yflds; cbn [pushed written datas elapsed kbusy pabusy length kpend dpend] in *;
  repeat match goal with HM : ?M = Nat.max _ _ |- _ => rewrite <- HM; clear HM end; yfin.

(* no episode is open: nobody sleeps, so nobody is blocked *)
Lemma ystep_tick_none : forall b b', BInv b -> yEp b = EpNone -> ystep cf n W P b YTick = Some b' -> BInv b'.
Proof.
  intros b b' H Hep Hs. pose proof (ydeliv_len b H) as DL. pose proof (ywritten_le b H) as WL. pose proof (ypushed_le b H) as PL.
  unfold ystep in Hs.
  destruct (y_quiescent n W b) eqn:Hq; [|discriminate]. cbn [andb] in Hs.
  destruct (yquiescent_props b Hq) as (Q1 & Q2 & Q3 & Q4). clear Hq.
  yopen b H. subst bad.
  unfold ep_tick, slack in Hs. change (cSL cf) with SL in Hs. change (cGL cf) with GL in Hs.
  unfold y_live in *; yflds. unfold ysleeper_ok in *. destruct P1 as [P1a P1b].
  assert (HT2 : 2 <= T) by (unfold T in *; lia).
  pose proof (Nat.le_max_l SL GL) as HM1. pose proof (Nat.le_max_r SL GL) as HM2.
  remember (Nat.max SL GL) as M eqn:HM in *.
  subst ep. ypa_of_ep pa P1a P1b.
  destruct kp as [|k0|k0 [|jk|]]; try contradiction; [subst kq|exfalso; destruct (P2k k0 jk eq_refl) as (_ & [])].
  destruct dp as [|jd|td]; [specialize (Q3 eq_refl)|exfalso; destruct (P2d jd eq_refl) as (_ & [])|].
  - destruct pp as [|tp]; [specialize (Q2 eq_refl)|].
    + destruct ps as [k|k p|k|]; try contradiction; cbn [written pushed] in *; yclose Hs.
    + exfalso. destruct (C4 tp eq_refl) as (Hpq & Ht); subst pq. cbn [kbusy pabusy length datas] in *.
      destruct ps as [k|k p|k|]; try contradiction; cbn [written pushed] in *; lia.
  - exfalso. destruct (C5 td eq_refl) as (Hdq & Htd & Hlv); subst dq; apply Nat.ltb_lt in Hlv.
    destruct pp as [|tp]; [specialize (Q2 eq_refl)|destruct (C4 tp eq_refl) as (Hpq & Ht); subst pq]; cbn [kbusy pabusy length datas] in *;
      destruct ps as [k|k p|k|]; try contradiction; cbn [written pushed] in *; lia.
Qed.

(* the component splits shared by the three cases with an open episode; [E] bounds elapsed + 2 <= T *)
Ltac ysplit_K :=
  match goal with
  | kp : kph, Q4 : match ?kp0 with KIdle => _ | _ => _ end, P2k : forall k j, ?kp0 = KIn k (SSleep j) -> _ |- _ =>
    destruct kp0 as [|k0|k0 [|jk|]]; try contradiction;
    [ match type of Q4 with ?kq = [] => subst kq end
    | let PK := fresh "PK" in pose proof (P2k k0 jk eq_refl) as PK; destruct jk as [|[|jk]]; [exfalso; lia| |] ]
  end.

Ltac ysplit_PA :=
  match goal with
  | Q2 : ?pp0 = RIdle -> _, C4 : forall t, ?pp0 = RRead t -> _, Tpa : forall t, ?pp0 = RRead t -> _ |- _ =>
    destruct pp0 as [|tp];
    [ specialize (Q2 eq_refl)
    | let Hpq := fresh "Hpq" in let Ht := fresh "Ht" in let TbA := fresh "TbA" in
      destruct (C4 tp eq_refl) as (Hpq & Ht); match type of Hpq with ?pq = [] => subst pq end;
      pose proof (Tpa tp eq_refl eq_refl) as TbA; cbn [elapsed] in TbA;
      destruct tp as [|[|tp]]; [exfalso; lia|exfalso; lia|] ]
  end.

Ltac ysplit_D :=
  match goal with
  | Q3 : ?dp0 = OIdle -> _, C5 : forall t, ?dp0 = ORead t -> ?dq0 = [] /\ _, P2d : forall j, ?dp0 = OGate j -> _, Td : forall t, ?dp0 = ORead t -> _ |- _ =>
    destruct dp0 as [|jd|td];
    [ specialize (Q3 eq_refl)
    | let PD := fresh "PD" in pose proof (P2d jd eq_refl) as PD; destruct jd as [|[|jd]]; [exfalso; lia|destruct dq0 as [|d0 dq0]|]
    | let Hdq := fresh "Hdq" in let Htd := fresh "Htd" in let Hlv := fresh "Hlv" in let TbD := fresh "TbD" in
      destruct (C5 td eq_refl) as (Hdq & Htd & Hlv); match type of Hdq with ?dq = [] => subst dq end; apply Nat.ltb_lt in Hlv;
      pose proof (Td td eq_refl) as TbD; unfold dpend in TbD; cbn [yPS yPcnt yPA yK orb elapsed length] in TbD ]
  end.

(* pausing *)
Lemma ystep_tick_pausing : forall b b' e, BInv b -> yEp b = EpPausing e -> ystep cf n W P b YTick = Some b' -> BInv b'.
Proof.
  intros b b' e H Hep Hs. pose proof (ydeliv_len b H) as DL. pose proof (ywritten_le b H) as WL. pose proof (ypushed_le b H) as PL.
  unfold ystep in Hs.
  destruct (y_quiescent n W b) eqn:Hq; [|discriminate]. cbn [andb] in Hs.
  destruct (yquiescent_props b Hq) as (Q1 & Q2 & Q3 & Q4). clear Hq.
  yopen b H. subst bad.
  unfold ep_tick, slack in Hs. change (cSL cf) with SL in Hs. change (cGL cf) with GL in Hs.
  unfold y_live in *; yflds. unfold ysleeper_ok in *. destruct P1 as [P1a P1b].
  assert (HT2 : 2 <= T) by (unfold T in *; lia).
  pose proof (Nat.le_max_l SL GL) as HM1. pose proof (Nat.le_max_r SL GL) as HM2.
  remember (Nat.max SL GL) as M eqn:HM in *.
  subst ep. ypa_of_ep pa P1a P1b.
  destruct (Nat.ltb_spec e P); [|discriminate].
  destruct ps as [k|k p|k|]; try contradiction; cbn [written pushed] in *.
  - ysplit_K; ysplit_PA; ysplit_D; cbn [kbusy pabusy length datas] in *.
    all: try (exfalso; lia).
    all: try (rewrite (proj2 (Nat.ltb_ge _ _)) in TbD by lia; specialize (TbD eq_refl); destruct td as [|[|td]]; [exfalso; lia|exfalso; lia|]).
    all: yclose Hs.
  - ysplit_K; ysplit_PA; ysplit_D; cbn [kbusy pabusy length datas] in *.
    all: try (exfalso; lia).
    all: yclose Hs.
Qed.

(* resumed, the episode stays open: whoever still sleeps will wake up within it *)
Lemma ystep_tick_resumed : forall b b' e i, BInv b -> yEp b = EpResumed e i -> S i < Nat.max SL GL ->
  ystep cf n W P b YTick = Some b' -> BInv b'.
Proof.
  intros b b' e i H Hep Hi Hs. pose proof (ydeliv_len b H) as DL. pose proof (ywritten_le b H) as WL. pose proof (ypushed_le b H) as PL.
  unfold ystep in Hs.
  destruct (y_quiescent n W b) eqn:Hq; [|discriminate]. cbn [andb] in Hs.
  destruct (yquiescent_props b Hq) as (Q1 & Q2 & Q3 & Q4). clear Hq.
  yopen b H. subst bad.
  unfold ep_tick, slack in Hs. change (cSL cf) with SL in Hs. change (cGL cf) with GL in Hs.
  unfold y_live in *; yflds. unfold ysleeper_ok in *. destruct P1 as [P1a P1b].
  assert (HT2 : 2 <= T) by (unfold T in *; lia).
  pose proof (Nat.le_max_l SL GL) as HM1. pose proof (Nat.le_max_r SL GL) as HM2.
  remember (Nat.max SL GL) as M eqn:HM in *.
  subst ep. ypa_of_ep pa P1a P1b.
  destruct (Nat.ltb_spec (S i) M); [|exfalso; lia].
  destruct ps as [k|k p|k|]; try contradiction; cbn [written pushed] in *.
  - ysplit_K; ysplit_PA; ysplit_D; cbn [kbusy pabusy length datas] in *.
    all: try (exfalso; lia).
    all: try (rewrite (proj2 (Nat.ltb_ge _ _)) in TbD by lia; specialize (TbD eq_refl); destruct td as [|[|td]]; [exfalso; lia|exfalso; lia|]).
    all: yclose Hs.
  - ysplit_K; ysplit_PA; ysplit_D; cbn [kbusy pabusy length datas] in *.
    all: try (exfalso; lia).
    all: yclose Hs.
Qed.

(* resumed, last tick of the episode: every sleeper wakes up now *)
Lemma ystep_tick_closing : forall b b' e i, BInv b -> yEp b = EpResumed e i -> Nat.max SL GL <= S i ->
  ystep cf n W P b YTick = Some b' -> BInv b'.
Proof.
  intros b b' e i H Hep Hi Hs. pose proof (ydeliv_len b H) as DL. pose proof (ywritten_le b H) as WL. pose proof (ypushed_le b H) as PL.
  unfold ystep in Hs.
  destruct (y_quiescent n W b) eqn:Hq; [|discriminate]. cbn [andb] in Hs.
  destruct (yquiescent_props b Hq) as (Q1 & Q2 & Q3 & Q4). clear Hq.
  yopen b H. subst bad.
  unfold ep_tick, slack in Hs. change (cSL cf) with SL in Hs. change (cGL cf) with GL in Hs.
  unfold y_live in *; yflds. unfold ysleeper_ok in *. destruct P1 as [P1a P1b].
  assert (HT2 : 2 <= T) by (unfold T in *; lia).
  pose proof (Nat.le_max_l SL GL) as HM1. pose proof (Nat.le_max_r SL GL) as HM2.
  remember (Nat.max SL GL) as M eqn:HM in *.
  subst ep. ypa_of_ep pa P1a P1b.
  destruct (Nat.ltb_spec (S i) M); [exfalso; lia|].
  destruct ps as [k|k p|k|]; try contradiction; cbn [written pushed] in *.
  - ysplit_K; ysplit_PA; ysplit_D; cbn [kbusy pabusy length datas] in *.
    all: try (exfalso; lia).
    all: try (rewrite (proj2 (Nat.ltb_ge _ _)) in TbD by lia; specialize (TbD eq_refl); destruct td as [|[|td]]; [exfalso; lia|exfalso; lia|]).
    all: yclose Hs.
  - ysplit_K; ysplit_PA; ysplit_D; cbn [kbusy pabusy length datas] in *.
    all: try (exfalso; lia).
    all: yclose Hs.
Qed.

Lemma ystep_tick : forall b b', BInv b -> ystep cf n W P b YTick = Some b' -> BInv b'.
Proof.
  intros b b' H Hs. destruct (yEp b) as [|e|e i] eqn:Eep.
  - eapply ystep_tick_none; eauto.
  - eapply ystep_tick_pausing; eauto.
  - destruct (Nat.lt_ge_cases (S i) (Nat.max SL GL)).
    + eapply ystep_tick_resumed; eauto.
    + eapply ystep_tick_closing; eauto.
Qed.

Lemma ystep_inv : forall x b b', BInv b -> ystep cf n W P b x = Some b' -> BInv b'.
Proof.
  intros [] b b' H Hs.
  - eapply ystep_tick; eauto.
  - eapply ystep_pause; eauto.
  - eapply ystep_resume; eauto.
  - eapply ystep_pscall; eauto.
  - eapply ystep_pswrite; eauto.
  - eapply ystep_pspush; eauto.
  - eapply ystep_patake; eauto.
  - eapply ystep_dcall; eauto.
  - eapply ystep_ktake; eauto.
  - eapply ystep_kcall; eauto.
  - eapply ystep_kwrite; eauto.
Qed.

Lemma yrun_inv : forall xs b b', BInv b -> yrun cf n W P b xs = Some b' -> BInv b'.
Proof.
  induction xs as [|x xs IH]; intros b b' H Hr; cbn [yrun] in Hr.
  - inversion Hr; subst; exact H.
  - destruct (ystep cf n W P b x) as [b1|] eqn:E; [|discriminate]. eapply IH; [|exact Hr]. eapply ystep_inv; eauto.
Qed.

(* THE COMPOSITION THEOREM, download direction, data phase (abstract machine).  For every schedule of the
   goroutines' moves, ticks, pause requests and resumes in which every episode of pausing lasts at most P
   ticks, P + one sleep < Timeout: nobody reports an error (neither the peer's ack reader nor our data
   reader times out), our reader has been handed exactly the frames 0, 1, 2, ... in order, and whenever
   nothing can move and no episode is open, all n frames are delivered and the peer has all n
   acknowledgements. *)
Theorem down_short_pause_completes_abs : forall xs b, yrun cf n W P (yinit n) xs = Some b ->
  yBad b = false /\ yDeliv b = seq 0 (length (yDeliv b)) /\ length (yDeliv b) <= n /\
  (y_quiescent n W b = true -> yEp b = EpNone -> yDeliv b = seq 0 n /\ yPacked b = n).
Proof.
  intros xs b Hr. pose proof (yrun_inv xs _ _ yinv_init Hr) as H.
  pose proof (ydeliv_len b H) as DL. pose proof (ywritten_le b H) as WL. pose proof (ypushed_le b H) as PL.
  split; [exact (b_bad b H)|]. split; [exact (prefix_of_seq T' SL GL W P HW HSL HGL HP _ _ _ (b_c1 b H))|]. split; [lia|].
  intros Hq He.
  destruct (yquiescent_props b Hq) as (Q1 & Q2 & Q3 & Q4).
  pose proof (b_c2 b H) as C2. pose proof (b_c3 b H) as C3. pose proof (b_c4 b H) as C4. pose proof (b_c5 b H) as C5.
  pose proof (b_p2k b H) as P2k. pose proof (b_p2d b H) as P2d. rewrite He in P2k, P2d.
  pose proof (b_s1 b H) as S1.
  assert (HK : yK b = KIdle /\ yKq b = []).
  { destruct (yK b) as [|k|k [|j|]] eqn:EK; try contradiction; [auto|]. destruct (P2k k j eq_refl) as (_ & []). }
  destruct HK as (EK & EKq). rewrite EK, EKq in C2. cbn [kbusy length] in C2.
  assert (HD : yD b = OIdle /\ n <= length (yDeliv b)).
  { destruct (yD b) as [|j|t] eqn:ED.
    - split; [reflexivity|]. apply Q3. reflexivity.
    - destruct (P2d j eq_refl) as (_ & []).
    - exfalso. destruct (C5 t eq_refl) as (Hdq & _ & Hl). rewrite Hdq in DL. cbn [length] in DL.
      unfold y_live in Hl. apply Nat.ltb_lt in Hl.
      destruct (yPA b) as [|tp] eqn:EP.
      + specialize (Q2 eq_refl). cbn [pabusy] in C3.
        destruct (yPS b) as [k|k p|k|]; cbn [pushed written] in *; try contradiction; lia.
      + destruct (C4 tp eq_refl) as (Hpq & _). rewrite Hpq in C2. cbn [datas length pabusy] in *.
        destruct (yPS b) as [k|k p|k|]; cbn [pushed written] in *; try contradiction; lia. }
  destruct HD as (ED & Hn).
  assert (Hlen : length (yDeliv b) = n) by lia.
  split.
  - rewrite (prefix_of_seq T' SL GL W P HW HSL HGL HP _ _ _ (b_c1 b H)), Hlen. reflexivity.
  - destruct (yPA b) as [|tp] eqn:EP.
    + specialize (Q2 eq_refl). cbn [pabusy] in C3.
      destruct (yPS b) as [k|k p|k|]; cbn [pushed written] in *; try contradiction; lia.
    + destruct (C4 tp eq_refl) as (Hpq & _). rewrite Hpq in C2. cbn [datas length pabusy] in *.
      destruct (yPS b) as [k|k p|k|]; cbn [pushed written] in *; try contradiction; lia.
Qed.

End DownProofs.
