(* Lemmas about Model/Buffer.v (property C03). *)
From Trzsz Require Import Base.Bytes Gen.Consts Model.Buffer.
From Coq Require Import ZArith Lia.

(* the byte values the model reads from the source, as documented *)
Lemma buffer_consts_src_ok : nl = LF /\ intr = ETX /\ cr = CR.
Proof. repeat split; reflexivity. Qed.

Lemma nl_neq_intr : (intr =? nl) = false.
Proof. reflexivity. Qed.

(* ---- split_at: the list view of IndexByte + slicing ---- *)

Lemma split_at_index b l :
  match index_byte b l with
  | Some i => split_at b l = (firstn i l, Some (skipn (i + 1) l))
  | None => split_at b l = (l, None)
  end.
Proof.
  induction l as [|x t IH]; cbn [index_byte split_at]; [reflexivity|].
  destruct (x =? b); [reflexivity|].
  destruct (index_byte b t) as [i|]; rewrite IH; reflexivity.
Qed.

Lemma split_at_app_none b l1 l2 p :
  split_at b l1 = (p, None) ->
  split_at b (l1 ++ l2) = (let '(p2, r) := split_at b l2 in (p ++ p2, r)).
Proof.
  revert p; induction l1 as [|x t IH]; cbn [split_at app]; intros p H.
  - inversion H; subst. destruct (split_at b l2); reflexivity.
  - destruct (x =? b); [discriminate|].
    destruct (split_at b t) as [p' r'] eqn:E. inversion H; subst.
    rewrite (IH p' eq_refl). destruct (split_at b l2); reflexivity.
Qed.

Lemma split_at_app_some b l1 l2 p r :
  split_at b l1 = (p, Some r) -> split_at b (l1 ++ l2) = (p, Some (r ++ l2)).
Proof.
  revert p; induction l1 as [|x t IH]; cbn [split_at app]; intros p H; [discriminate|].
  destruct (x =? b); [inversion H; subst; reflexivity|].
  destruct (split_at b t) as [p' r'] eqn:E. inversion H; subst.
  rewrite (IH p' eq_refl). reflexivity.
Qed.

Lemma split_at_len b l p r : split_at b l = (p, Some r) -> (length r < length l)%nat.
Proof.
  revert p; induction l as [|x t IH]; cbn [split_at length]; intros p H; [discriminate|].
  destruct (x =? b); [inversion H; subst; lia|].
  destruct (split_at b t) as [p' r'] eqn:E. inversion H; subst.
  specialize (IH p' eq_refl). lia.
Qed.

Lemma split_at_some b l p r :
  split_at b l = (p, Some r) -> l = p ++ b :: r /\ has_byte b p = false.
Proof.
  revert p; induction l as [|x t IH]; cbn [split_at]; intros p H; [discriminate|].
  destruct (x =? b) eqn:X.
  - inversion H; subst. apply N.eqb_eq in X. subst. split; reflexivity.
  - destruct (split_at b t) as [p' r'] eqn:E. inversion H; subst.
    destruct (IH p' eq_refl) as [-> Hp]. split; [reflexivity|].
    cbn [has_byte existsb]. rewrite N.eqb_sym, X. exact Hp.
Qed.

Lemma split_at_none b l p : split_at b l = (p, None) -> p = l /\ has_byte b l = false.
Proof.
  revert p; induction l as [|x t IH]; cbn [split_at]; intros p H.
  - inversion H; split; reflexivity.
  - destruct (x =? b) eqn:X; [discriminate|].
    destruct (split_at b t) as [p' r'] eqn:E. inversion H; subst.
    destruct (IH p' eq_refl) as [-> Hp]. split; [reflexivity|].
    cbn [has_byte existsb]. rewrite N.eqb_sym, X. exact Hp.
Qed.

Lemma split_at_nohit b l : has_byte b l = false -> forall r, split_at b (l ++ b :: r) = (l, Some r).
Proof.
  induction l as [|x t IH]; cbn [has_byte existsb split_at app]; intros H r.
  - rewrite N.eqb_refl. reflexivity.
  - apply orb_false_iff in H. destruct H as [H1 H2]. rewrite N.eqb_sym, H1.
    rewrite (IH H2). reflexivity.
Qed.

Lemma has_byte_app b x y : has_byte b (x ++ y) = has_byte b x || has_byte b y.
Proof. apply existsb_app. Qed.

(* ---- the per-chunk loop ---- *)

Lemma in_chunk_unfold f junk acc buf :
  in_chunk (S f) junk acc buf =
  match split_at nl buf with
  | (pre, Some post) =>
    if has_byte intr pre then CIntr post else
    if junk && ends_cr (acc ++ pre) then
      match post with
      | [] => CMore (removelast (acc ++ pre))
      | _ => in_chunk f junk (removelast (acc ++ pre)) post
      end
    else CLine (acc ++ pre) post
  | (pre, None) => if has_byte intr pre then CIntr [] else CMore (acc ++ pre)
  end.
Proof.
  cbn [in_chunk]. pose proof (split_at_index nl buf) as H.
  destruct (index_byte nl buf) as [i|]; rewrite H; reflexivity.
Qed.

(* enough fuel: the result does not depend on it *)
Lemma in_chunk_fuel junk : forall f1 f2 acc buf,
  (length buf < f1)%nat -> (length buf < f2)%nat ->
  in_chunk f1 junk acc buf = in_chunk f2 junk acc buf.
Proof.
  induction f1 as [|f1 IH]; intros f2 acc buf H1 H2; [lia|].
  destruct f2 as [|f2]; [lia|]. rewrite !in_chunk_unfold.
  destruct (split_at nl buf) as [pre [post|]] eqn:E; [|reflexivity].
  destruct (has_byte intr pre); [reflexivity|].
  destruct (junk && ends_cr (acc ++ pre)); [|reflexivity].
  destruct post as [|b post']; [reflexivity|].
  apply split_at_len in E. apply IH; cbn [length] in *; lia.
Qed.

(* processing c1 ++ c2 in one pass = processing c1 and then c2, as far as the delivered
   line, the unread rest, "need more" and "interrupted" are concerned *)
Definition then_chunk junk (r : cres) (c2 : list byte) : cres :=
  match r with
  | CLine l post => CLine l (post ++ c2)
  | CIntr post => CIntr (post ++ c2)
  | CMore acc' => in_chunk (S (length c2)) junk acc' c2
  end.

Definition same_obs (a b : cres) : Prop :=
  match a, b with
  | CLine l p, CLine l' p' => l = l' /\ p = p'
  | CMore x, CMore y => x = y
  | CIntr _, CIntr _ => True
  | _, _ => False
  end.

Lemma same_obs_refl r : same_obs r r.
Proof. destruct r; cbn; auto. Qed.

Lemma in_chunk_app junk : forall n c1 c2 acc,
  (length c1 <= n)%nat -> c2 <> [] ->
  same_obs (in_chunk (S (length (c1 ++ c2))) junk acc (c1 ++ c2))
           (then_chunk junk (in_chunk (S (length c1)) junk acc c1) c2).
Proof.
  induction n as [|n IH]; intros c1 c2 acc Hn Hc2.
  - destruct c1; [|cbn [length] in Hn; lia].
    change ([] ++ c2) with c2.
    rewrite (in_chunk_unfold (length (@nil byte))). cbn [split_at has_byte existsb then_chunk].
    rewrite app_nil_r. apply same_obs_refl.
  - rewrite (in_chunk_unfold (length (c1 ++ c2))), (in_chunk_unfold (length c1)).
    destruct (split_at nl c1) as [pre [post|]] eqn:E.
    + rewrite (split_at_app_some _ _ c2 _ _ E).
      destruct (has_byte intr pre); [cbn; auto|].
      destruct (junk && ends_cr (acc ++ pre)) eqn:J.
      * destruct post as [|b post'].
        -- cbn [app]. destruct c2 as [|b2 c2']; [congruence|].
           cbn [then_chunk].
           assert (F: in_chunk (length (c1 ++ b2 :: c2')) junk (removelast (acc ++ pre)) (b2 :: c2')
                    = in_chunk (S (length (b2 :: c2'))) junk (removelast (acc ++ pre)) (b2 :: c2')).
           { apply in_chunk_fuel; rewrite ?app_length; cbn [length]; apply split_at_len in E; cbn [length] in E; lia. }
           rewrite F. apply same_obs_refl.
        -- change ((b :: post') ++ c2) with (b :: (post' ++ c2)).
           pose proof (split_at_len _ _ _ _ E) as L.
           assert (F1: in_chunk (length (c1 ++ c2)) junk (removelast (acc ++ pre)) (b :: post' ++ c2)
                     = in_chunk (S (length ((b :: post') ++ c2))) junk (removelast (acc ++ pre)) ((b :: post') ++ c2)).
           { apply in_chunk_fuel; rewrite ?app_length in *; cbn [length app] in *; rewrite ?app_length; lia. }
           assert (F2: in_chunk (length c1) junk (removelast (acc ++ pre)) (b :: post')
                     = in_chunk (S (length (b :: post'))) junk (removelast (acc ++ pre)) (b :: post')).
           { apply in_chunk_fuel; cbn [length] in *; lia. }
           rewrite F1, F2.
           apply IH; [cbn [length] in *; lia|exact Hc2].
      * cbn [then_chunk]. cbn; auto.
    + rewrite (split_at_app_none _ _ c2 _ E).
      destruct (has_byte intr pre) eqn:X.
      * destruct (split_at nl c2) as [p2 r2]. rewrite has_byte_app, X. cbn [orb].
        destruct r2; cbn; auto.
      * cbn [then_chunk]. rewrite (in_chunk_unfold (length c2)).
        destruct (split_at nl c2) as [p2 [post2|]] eqn:E2.
        -- rewrite has_byte_app, X. cbn [orb].
           destruct (has_byte intr p2); [cbn; auto|].
           rewrite app_assoc.
           destruct (junk && ends_cr ((acc ++ pre) ++ p2)).
           ++ destruct post2 as [|b post2']; [cbn; auto|].
              assert (F: in_chunk (length (c1 ++ c2)) junk (removelast ((acc ++ pre) ++ p2)) (b :: post2')
                       = in_chunk (length c2) junk (removelast ((acc ++ pre) ++ p2)) (b :: post2')).
              { apply in_chunk_fuel; apply split_at_len in E2; rewrite ?app_length; cbn [length] in *; lia. }
              rewrite F. apply same_obs_refl.
           ++ cbn; auto.
        -- rewrite has_byte_app, X. cbn [orb].
           destruct (has_byte intr p2); [cbn; auto|]. rewrite app_assoc. cbn; auto.
Qed.

(* ---- observations: what a caller can see of a read, on the flat stream ---- *)
Definition obs_of (r : rres) : fres :=
  match r with
  | Done d p => FDone d (concat p)
  | Blocked => FBlocked
  | Interrupted _ => FInterrupted
  end.

Definition obs_c (r : cres) : fres :=
  match r with
  | CLine l post => FDone l post
  | CIntr _ => FInterrupted
  | CMore _ => FBlocked
  end.

Lemma same_obs_c a b : same_obs a b -> obs_c a = obs_c b.
Proof. destruct a, b; cbn; intros H; try contradiction; try reflexivity. destruct H; subst; reflexivity. Qed.

Lemma read_line_empties junk : forall pend acc, concat pend = [] -> read_line junk acc pend = Blocked.
Proof.
  induction pend as [|c rest IH]; intros acc H; [reflexivity|].
  cbn [concat] in H. apply app_eq_nil in H. destruct H as [-> H].
  cbn [read_line length]. rewrite in_chunk_unfold. cbn [split_at has_byte existsb].
  apply IH, H.
Qed.

(* reading a line from any pending list = one pass over the flat stream *)
Theorem read_line_flat junk : forall pend acc,
  obs_of (read_line junk acc pend) =
  obs_c (in_chunk (S (length (concat pend))) junk acc (concat pend)).
Proof.
  induction pend as [|c rest IH]; intros acc.
  - cbn [read_line concat length obs_of]. rewrite in_chunk_unfold. reflexivity.
  - cbn [read_line concat].
    destruct (list_eq_dec N.eq_dec (concat rest) []) as [Hr|Hr].
    + rewrite Hr, app_nil_r.
      destruct (in_chunk (S (length c)) junk acc c) as [l post|post|acc'] eqn:E1; cbn [obs_of obs_c].
      * cbn [concat]. rewrite Hr, app_nil_r. reflexivity.
      * reflexivity.
      * rewrite (read_line_empties junk rest acc' Hr). reflexivity.
    + pose proof (in_chunk_app junk (length c) c (concat rest) acc (le_n _) Hr) as H.
      apply same_obs_c in H. rewrite H.
      destruct (in_chunk (S (length c)) junk acc c) as [l post|post|acc'] eqn:E1;
        cbn [then_chunk obs_of obs_c concat]; try reflexivity.
      apply IH.
Qed.

(* ---- the flat pass is the reference parse ---- *)

Lemma ref_line_ok s : obs_c (in_chunk (S (length s)) false [] s) = ref_line s.
Proof.
  rewrite in_chunk_unfold. unfold ref_line.
  destruct (split_at nl s) as [pre [post|]]; destruct (has_byte intr pre); reflexivity.
Qed.

Lemma ref_junk_line_ok : forall f s acc, (length s < f)%nat ->
  obs_c (in_chunk f true acc s) = ref_junk_line f acc s.
Proof.
  induction f as [|f IH]; intros s acc Hf; [lia|].
  rewrite in_chunk_unfold. cbn [ref_junk_line andb].
  destruct (split_at nl s) as [pre [post|]] eqn:E.
  - destruct (has_byte intr pre); [reflexivity|].
    destruct (ends_cr (acc ++ pre)); [|reflexivity].
    destruct post as [|b post'].
    + destruct f; reflexivity.
    + apply IH. apply split_at_len in E. lia.
  - destruct (has_byte intr pre); reflexivity.
Qed.

(* ---- binary ---- *)
Lemma read_binary_flat : forall pend left acc, (0 < left)%nat ->
  obs_of (read_binary left acc pend) =
  if (left <=? length (concat pend))%nat
  then FDone (acc ++ firstn left (concat pend)) (skipn left (concat pend)) else FBlocked.
Proof.
  induction pend as [|c rest IH]; intros left acc Hl.
  - cbn [read_binary concat length obs_of]. destruct (Nat.leb_spec left 0); [lia|reflexivity].
  - cbn [read_binary concat]. rewrite app_length.
    destruct (Nat.leb_spec left (length c)) as [Hc|Hc].
    + destruct (Nat.leb_spec left (length c + length (concat rest))); [|lia].
      cbn [obs_of concat]. rewrite firstn_app, skipn_app.
      replace (left - length c)%nat with 0%nat by lia. cbn [firstn skipn]. rewrite app_nil_r. reflexivity.
    + rewrite IH by lia.
      destruct (Nat.leb_spec (left - length c) (length (concat rest)));
      destruct (Nat.leb_spec left (length c + length (concat rest))); try lia; [|reflexivity].
      rewrite firstn_app, skipn_app, (firstn_all2 c), (skipn_all2 c) by lia.
      rewrite <- app_assoc. reflexivity.
Qed.

Lemma read_binary_op_flat size pend : obs_of (read_binary_op size pend) = ref_binary size (concat pend).
Proof.
  unfold read_binary_op, ref_binary. destruct (Z.to_nat size) as [|n] eqn:E.
  - reflexivity.
  - apply read_binary_flat. lia.
Qed.

Theorem step_flat o pend : obs_of (step o pend) = ref_step o (concat pend).
Proof.
  destruct o as [[|]|size]; cbn [step ref_step].
  - rewrite read_line_flat. apply ref_junk_line_ok. lia.
  - rewrite read_line_flat. apply ref_line_ok.
  - apply read_binary_op_flat.
Qed.

(* ---- sequences of reads ---- *)
Theorem run_st_flat : forall ops pend,
  fst (run_st ops pend) = fst (ref_run_st ops (concat pend)) /\
  concat (snd (run_st ops pend)) = snd (ref_run_st ops (concat pend)).
Proof.
  induction ops as [|o r IH]; intros pend; [split; reflexivity|].
  cbn [run_st ref_run_st]. pose proof (step_flat o pend) as H.
  destruct (step o pend) as [d p'| |p']; cbn [obs_of] in H; rewrite <- H; try (split; reflexivity).
  destruct (IH p') as [I1 I2].
  destruct (run_st r p') as [rs e], (ref_run_st r (concat p')) as [rs' e'].
  cbn [fst snd] in *. subst. split; reflexivity.
Qed.

Theorem run_flat ops pend : run ops pend = ref_run ops (concat pend).
Proof. apply run_st_flat. Qed.

Theorem run_two_chunkings ops pend1 pend2 :
  concat pend1 = concat pend2 ->
  run ops pend1 = run ops pend2 /\
  concat (snd (run_st ops pend1)) = concat (snd (run_st ops pend2)).
Proof.
  intros H. unfold run. destruct (run_st_flat ops pend1) as [A1 A2], (run_st_flat ops pend2) as [B1 B2].
  rewrite A1, A2, B1, B2, H. split; reflexivity.
Qed.

(* ---- promptness ---- *)
Theorem run_prompt ops pend i d :
  nth_error (ref_run ops (concat pend)) i = Some (RData d) ->
  nth_error (run ops pend) i = Some (RData d).
Proof. rewrite run_flat. auto. Qed.

Lemma read_line_more junk more : forall pend acc d p',
  read_line junk acc pend = Done d p' -> read_line junk acc (pend ++ more) = Done d (p' ++ more).
Proof.
  induction pend as [|c rest IH]; intros acc d p' H; [discriminate|].
  cbn [read_line app] in *.
  destruct (in_chunk (S (length c)) junk acc c) as [l post|post|acc']; try discriminate.
  - inversion H; subst. reflexivity.
  - apply IH, H.
Qed.

Lemma read_binary_more more : forall pend left acc d p',
  read_binary left acc pend = Done d p' -> read_binary left acc (pend ++ more) = Done d (p' ++ more).
Proof.
  induction pend as [|c rest IH]; intros left acc d p' H; [discriminate|].
  cbn [read_binary app] in *.
  destruct (left <=? length c)%nat.
  - inversion H; subst. reflexivity.
  - apply IH, H.
Qed.

Lemma step_more o pend more d p' :
  step o pend = Done d p' -> step o (pend ++ more) = Done d (p' ++ more).
Proof.
  destruct o as [junk|size]; cbn [step].
  - apply read_line_more.
  - unfold read_binary_op. destruct (Z.to_nat size).
    + intros H; inversion H; subst; reflexivity.
    + apply read_binary_more.
Qed.

Lemma run_more more : forall ops pend i d,
  nth_error (run ops pend) i = Some (RData d) ->
  nth_error (run ops (pend ++ more)) i = Some (RData d).
Proof.
  unfold run. induction ops as [|o r IH]; intros pend i d H.
  - destruct i; discriminate.
  - cbn [run_st] in *.
    destruct (step o pend) as [d0 p'| |p'] eqn:E.
    + rewrite (step_more _ _ more _ _ E).
      specialize (IH p'). destruct (run_st r p') as [rs e], (run_st r (p' ++ more)) as [rs' e'].
      cbn [fst] in *. destruct i as [|i]; [exact H|]. cbn [nth_error] in *. apply IH, H.
    + destruct i as [|[|i]]; cbn in H; discriminate.
    + destruct i as [|[|i]]; cbn in H; discriminate.
Qed.

(* a result that is complete on the bytes that have arrived is not changed by later bytes *)
Theorem ref_run_prefix_stable ops s extra i d :
  nth_error (ref_run ops s) i = Some (RData d) ->
  nth_error (ref_run ops (s ++ extra)) i = Some (RData d).
Proof.
  intros H.
  replace (s ++ extra) with (concat ([s] ++ [extra])) by (cbn [concat app]; rewrite app_nil_r; reflexivity).
  rewrite <- run_flat. apply run_more. rewrite run_flat. cbn [concat]. rewrite app_nil_r. exact H.
Qed.

(* ---- conservation ---- *)
Lemma ref_junk_line_accounts : forall f s acc d rest,
  ref_junk_line f acc s = FDone d rest ->
  exists raw, s = raw ++ rest /\ unwrap acc raw d /\ has_byte intr raw = false.
Proof.
  induction f as [|f IH]; intros s acc d rest H; [discriminate|].
  cbn [ref_junk_line] in H.
  destruct (split_at nl s) as [pre [post|]] eqn:E.
  - destruct (has_byte intr pre) eqn:X; [discriminate|].
    destruct (split_at_some _ _ _ _ E) as [-> Hn].
    destruct (ends_cr (acc ++ pre)) eqn:C.
    + destruct (IH _ _ _ _ H) as (raw & -> & U & I).
      exists (pre ++ nl :: raw). repeat split.
      * rewrite <- app_assoc. reflexivity.
      * apply unwrap_wrap; assumption.
      * rewrite has_byte_app, X. cbn [has_byte existsb orb]. rewrite nl_neq_intr. exact I.
    + inversion H; subst. exists (pre ++ [nl]). repeat split.
      * rewrite <- app_assoc. reflexivity.
      * apply unwrap_end; assumption.
      * rewrite has_byte_app, X. cbn [has_byte existsb orb]. rewrite nl_neq_intr. reflexivity.
  - destruct (has_byte intr pre); discriminate.
Qed.

Lemma ref_step_accounts o s d rest :
  ref_step o s = FDone d rest -> exists raw, s = raw ++ rest /\ accounts o d raw.
Proof.
  destruct o as [[|]|size]; cbn [ref_step accounts]; intros H.
  - destruct (ref_junk_line_accounts _ _ _ _ _ H) as (raw & E & U & I). exists raw. auto.
  - unfold ref_line in H. destruct (split_at nl s) as [pre [post|]] eqn:E.
    + destruct (has_byte intr pre) eqn:X; [discriminate|]. inversion H; subst.
      destruct (split_at_some _ _ _ _ E) as [-> Hn]. exists (d ++ [nl]).
      rewrite <- app_assoc. auto.
    + destruct (has_byte intr pre); discriminate.
  - unfold ref_binary in H. destruct (Nat.leb_spec (Z.to_nat size) (length s)); [|discriminate].
    inversion H; subst. exists (firstn (Z.to_nat size) s). rewrite firstn_skipn, firstn_length_le by lia. auto.
Qed.

Theorem ref_run_conservation : forall ops s,
  exists raws, accounted ops (ref_run ops s) raws /\ concat raws ++ snd (ref_run_st ops s) = s.
Proof.
  unfold ref_run. induction ops as [|o r IH]; intros s.
  - exists []. split; [constructor|reflexivity].
  - cbn [ref_run_st]. destruct (ref_step o s) as [d s'| |] eqn:E.
    + destruct (ref_step_accounts _ _ _ _ E) as (raw & -> & A).
      destruct (IH s') as (raws & Acc & C).
      destruct (ref_run_st r s') as [rs e]. cbn [fst snd] in *.
      exists (raw :: raws). split; [constructor; assumption|].
      cbn [concat]. rewrite <- app_assoc, C. reflexivity.
    + exists []. split; [constructor|reflexivity].
    + exists []. split; [constructor|reflexivity].
Qed.

Theorem run_conservation ops pend :
  exists raws, accounted ops (run ops pend) raws /\
               concat raws ++ concat (snd (run_st ops pend)) = concat pend.
Proof.
  destruct (ref_run_conservation ops (concat pend)) as (raws & A & C).
  exists raws. rewrite run_flat. destruct (run_st_flat ops pend) as [_ ->]. auto.
Qed.

(* the accounting relation determines the delivered data: nothing can be merged *)
Lemma unwrap_inv acc raw l : unwrap acc raw l ->
  exists seg r, raw = seg ++ nl :: r /\ has_byte nl seg = false /\
    ((r = [] /\ ends_cr (acc ++ seg) = false /\ l = acc ++ seg) \/
     (ends_cr (acc ++ seg) = true /\ unwrap (removelast (acc ++ seg)) r l)).
Proof.
  destruct 1 as [acc seg Hn Hc|acc seg raw line Hn Hc U].
  - exists seg, []. auto 10.
  - exists seg, raw. auto 10.
Qed.

Lemma unwrap_fun : forall acc raw l1, unwrap acc raw l1 -> forall l2, unwrap acc raw l2 -> l1 = l2.
Proof.
  assert (Hsplit: forall seg r seg' r', has_byte nl seg = false -> has_byte nl seg' = false ->
            seg ++ nl :: r = seg' ++ nl :: r' -> seg = seg' /\ r = r').
  { intros seg r seg' r' H1 H2 E.
    pose proof (split_at_nohit nl seg H1 r) as S1. pose proof (split_at_nohit nl seg' H2 r') as S2.
    rewrite E in S1. rewrite S1 in S2. inversion S2; auto. }
  induction 1 as [acc seg Hn Hc|acc seg raw line Hn Hc U IH]; intros l2 U2;
    destruct (unwrap_inv _ _ _ U2) as (seg' & r' & Eraw & Hn' & [(-> & Hc' & ->)|(Hc' & U')]);
    apply Hsplit in Eraw; auto; destruct Eraw as [<- Er]; try congruence.
  subst r'. apply IH, U'.
Qed.

Theorem accounts_fun o raw d1 d2 : accounts o d1 raw -> accounts o d2 raw -> d1 = d2.
Proof.
  destruct o as [[|]|size]; cbn [accounts].
  - intros [U1 _] [U2 _]. eapply unwrap_fun; eassumption.
  - intros [E1 _] [E2 _]. subst. apply app_inv_tail in E2. auto.
  - intros [E1 _] [E2 _]. congruence.
Qed.

(* ---- popBuffer ---- *)
Lemma pop_all_empty_head : forall f q, (length q < f)%nat -> concat (pop_all f ([] :: q)) = concat q.
Proof.
  induction f as [|f IH]; intros q H; [lia|].
  destruct q as [|c q]; [reflexivity|].
  cbn [pop_all pop_buffer concat]. rewrite IH by (cbn [length] in H; lia). reflexivity.
Qed.

Theorem pop_all_conserves st : concat (pop_all (pop_all_fuel st) st) = unread st.
Proof.
  unfold pop_all_fuel, unread. destruct st as [|[|b c] q].
  - reflexivity.
  - apply (pop_all_empty_head (S (length ([] :: q))) q). cbn [length]. lia.
  - change (pop_all (S (length ((b :: c) :: q))) ((b :: c) :: q))
      with ((b :: c) :: pop_all (length ((b :: c) :: q)) ([] :: q)).
    cbn [concat]. rewrite pop_all_empty_head by (cbn [length]; lia). reflexivity.
Qed.

(* ---- where the guarantee stops: the cursor after an interrupt depends on chunking ---- *)
Definition interrupt_witness_a : pending := [[97; intr]; [98; nl]; [99; nl]].
Definition interrupt_witness_b : pending := [[97; intr; 98; nl]; [99; nl]].
Definition interrupt_witness_ops : list op := [OpLine false; OpLine false].

Theorem interrupt_state_depends_on_chunking :
  concat interrupt_witness_a = concat interrupt_witness_b /\
  run interrupt_witness_ops interrupt_witness_a = [RInterrupted] /\
  run interrupt_witness_ops interrupt_witness_b = [RInterrupted] /\
  fst (run_cont interrupt_witness_ops interrupt_witness_a) = [RInterrupted; RData [98]] /\
  fst (run_cont interrupt_witness_ops interrupt_witness_b) = [RInterrupted; RData [99]].
Proof. vm_compute. repeat split. Qed.
