(* C10: what stop-and-delete removes (deleteCreatedFiles over the abstract file system of
   Model/Fs.v and Model/Names.v), and the source tie for the stop flag. *)
From Coq Require Import String.
From Trzsz Require Import Base.Bytes Model.Path Model.Fs Model.Names Proofs.PathFs Gen.Skel_stop.

(* ---- the stop flag in the source ---- *)
Lemma stop_checks_everywhere : forallb snd Skel_stop.stop_check_first = true.
Proof. reflexivity. Qed.
Lemma stop_check_functions : map fst Skel_stop.stop_check_first =
  ["trzszTransfer.sendData"; "trzszTransfer.recvLine"; "trzszTransfer.sendDataV2";
   "trzszTransfer.recvCheckV2"; "trzszTransfer.pipelineSendAck"; "trzszTransfer.checkStopAndPause"]%string.
Proof. reflexivity. Qed.
Lemma check_stop_src_ok : Skel_stop.text_check_stop =
  "{ if t.stopAndDelete.Load() { return errStoppedAndDeleted } if t.stopped.Load() { return errStopped } return nil }"%string.
Proof. reflexivity. Qed.
Lemma stop_sets_then_wakes_src_ok : Skel_stop.stop_first_statements =
  ["if !t.stopped.CompareAndSwap(false, true) { return }"; "t.stopAndDelete.Store(stopAndDelete)";
   "t.buffer.stopBuffer()"]%string.
Proof. reflexivity. Qed.
Lemma stop_buffer_src_ok : Skel_stop.text_stop_buffer = "{ select { case b.stopCh <- true: default: } }"%string.
Proof. reflexivity. Qed.
Lemma blocked_reader_wakes_src_ok : Skel_stop.next_buffer_stop_arm = true.
Proof. reflexivity. Qed.

(* ---- deleteCreatedFiles ---- *)
Definition under_some (ps : list path) (q : path) : bool := existsb (fun p => is_prefix p q) ps.

Lemma lookup_filter_other f p q : is_prefix p q = false ->
  lookup (filter (fun kv => negb (is_prefix p (fst kv))) f) q = lookup f q.
Proof.
  intros H. induction f as [|[k n] f IH]; [reflexivity|]. cbn [filter fst lookup].
  destruct (is_prefix p k) eqn:E; cbn [negb].
  - destruct (path_eqb k q) eqn:K; [|exact IH].
    exfalso. assert (k = q) by (apply path_eqb_eq; exact K). subst k. congruence.
  - cbn [lookup]. destruct (path_eqb k q); [reflexivity|exact IH].
Qed.

Lemma remove_all_effects f p e : In e (snd (remove_all f p)) ->
  exists q, e = ERemove q /\ is_prefix p q = true.
Proof.
  unfold remove_all. cbn [snd]. intros H. apply in_map_iff in H as ((k & n) & <- & H).
  apply filter_In in H as [_ H]. exists k. split; [reflexivity|exact H].
Qed.

Lemma delete_paths_spec : forall ps f f' es del, delete_paths ps f = (f', es, del) ->
  (forall p, In p del -> In p ps) /\
  (forall e, In e es -> exists q, e = ERemove q /\ under_some ps q = true) /\
  (forall q, under_some ps q = false -> lookup f' q = lookup f q).
Proof.
  induction ps as [|p ps IH]; intros f f' es del H; cbn [delete_paths] in H.
  - injection H as <- <- <-. repeat split; intros; try contradiction; reflexivity.
  - destruct (stat f p) as [nd| |].
    + destruct (remove_all f p) as [f1 es1] eqn:R.
      destruct (delete_paths ps f1) as [[f2 es2] d2] eqn:D. injection H as <- <- <-.
      destruct (IH f1 f2 es2 d2 D) as (I1 & I2 & I3). repeat split.
      * intros x [<-|Hx]; [left; reflexivity|right; exact (I1 x Hx)].
      * intros e He. apply in_app_or in He as [He|He].
        -- assert (He' : In e (snd (remove_all f p))) by (rewrite R; exact He).
           destruct (remove_all_effects f p e He') as (q & -> & Hq).
           exists q. split; [reflexivity|]. cbn [under_some existsb]. rewrite Hq. reflexivity.
        -- destruct (I2 e He) as (q & -> & Hq). exists q. split; [reflexivity|].
           cbn [under_some existsb]. unfold under_some in Hq. rewrite Hq. apply orb_true_r.
      * intros q Hq. cbn [under_some existsb] in Hq. apply orb_false_iff in Hq as [Hp Hq].
        rewrite (I3 q Hq). unfold remove_all in R. injection R as <- _.
        apply lookup_filter_other. exact Hp.
    + destruct (IH f f' es del H) as (I1 & I2 & I3). repeat split.
      * intros x Hx. right. exact (I1 x Hx).
      * intros e He. destruct (I2 e He) as (q & -> & Hq). exists q. split; [reflexivity|].
        cbn [under_some existsb]. unfold under_some in Hq. rewrite Hq. apply orb_true_r.
      * intros q Hq. cbn [under_some existsb] in Hq. apply orb_false_iff in Hq as [_ Hq]. exact (I3 q Hq).
    + destruct (IH f f' es del H) as (I1 & I2 & I3). repeat split.
      * intros x Hx. right. exact (I1 x Hx).
      * intros e He. destruct (I2 e He) as (q & -> & Hq). exists q. split; [reflexivity|].
        cbn [under_some existsb]. unfold under_some in Hq. rewrite Hq. apply orb_true_r.
      * intros q Hq. cbn [under_some existsb] in Hq. apply orb_false_iff in Hq as [_ Hq]. exact (I3 q Hq).
Qed.

(* stop-and-delete removes only what this transfer recorded as created (or, with overwrite,
   opened for replacing) and what lies below such a path; every other path keeps its node *)
Theorem delete_created_exact st st' del : delete_created st = (st', del) ->
  (forall p, In p del -> In p (st_created st)) /\
  (exists es, st_log st' = (st_log st ++ es)%list /\
     forall e, In e es -> exists q, e = ERemove q /\ under_some (st_created st) q = true) /\
  (forall q, under_some (st_created st) q = false -> lookup (st_fs st') q = lookup (st_fs st) q) /\
  st_created st' = st_created st.
Proof.
  unfold delete_created. destruct (delete_paths (st_created st) (st_fs st)) as [[f' es] d] eqn:D.
  intros H. injection H as <- <-. destruct (delete_paths_spec _ _ _ _ _ D) as (I1 & I2 & I3).
  cbn. repeat split; auto. exists es. split; [reflexivity|exact I2].
Qed.

(* a plain stop runs no deletion step at all: the final state is the state after the last
   message that was processed *)
Theorem plain_stop_keeps decode cfg dest ms f0 :
  o_final (recv_names decode cfg dest ms false f0) = o_mid (recv_names decode cfg dest ms false f0) /\
  o_deleted (recv_names decode cfg dest ms false f0) = [].
Proof.
  unfold recv_names, recv_names_gen. destruct (recv_msgs decode code_checks cfg dest ms (init_state f0)) as [rs st1].
  split; reflexivity.
Qed.
