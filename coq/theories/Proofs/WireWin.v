(* Lemmas about Model/WireWin.v: every DATA message of every sending path carries the
   negotiated terminator, and under the Windows-console framing the receiver's reader
   (C16's model of readLineOnWindows, every chunking) gets the frames back. *)
From Trzsz Require Import Base.Bytes Gen.Consts Model.Buffer Model.Noise Model.Escape Model.Base64 Model.Wire Model.WireWin.
From Trzsz Require Import Proofs.Buffer Proofs.Noise Proofs.NoiseWin Proofs.Escape Proofs.Base64 Proofs.Wire.
From Coq Require Import Lia.

(* the terminator the sender announces/adopts for a Windows console is the one the reader looks for *)
Lemma windows_newline_src_ok :
  Consts.windows_newline = [Consts.win_terminator; Consts.win_after_terminator] /\ Consts.windows_newline = [BANG; LF].
Proof. split; reflexivity. Qed.

(* ---- every message ends its line with the negotiated newline ---- *)
Theorem piece_terminated binary nl (p : bool * list byte) :
  exists body, ww_line_part binary (length (snd p)) (wire_render_piece binary nl p) = body ++ nl /\
    body = Consts.deliver_data_prefix ++ (if binary then wire_dec (N.of_nat (length (snd p))) else snd p).
Proof.
  rewrite wire_render_piece_eq, wire_data_frame_eq. unfold ww_line_part. destruct binary.
  - exists (Consts.deliver_data_prefix ++ wire_dec (N.of_nat (length (snd p)))). split; [|reflexivity].
    change [35; 68; 65; 84; 65; 58] with Consts.deliver_data_prefix.
    set (A := Consts.deliver_data_prefix ++ wire_dec (N.of_nat (length (snd p)))).
    replace (Consts.deliver_data_prefix ++ wire_dec (N.of_nat (length (snd p))) ++ nl ++ snd p)
      with ((A ++ nl) ++ snd p) by (subst A; rewrite <- !app_assoc; reflexivity).
    rewrite app_length, Nat.add_sub, firstn_app, firstn_all, Nat.sub_diag. cbn [firstn]. apply app_nil_r.
  - exists (Consts.deliver_data_prefix ++ snd p). split; [|reflexivity]. rewrite <- app_assoc. reflexivity.
Qed.

(* the other lines (sendLine and its users, keep-alives, acks) *)
Theorem line_terminated typ payload nl :
  wire_line typ payload nl = ([35] ++ typ ++ [58] ++ payload) ++ nl /\
  wire_pause_line typ nl = ([35] ++ typ ++ [58; 61]) ++ nl.
Proof. rewrite wire_line_eq, wire_pause_line_eq. split; rewrite <- !app_assoc; reflexivity. Qed.

(* ---- a line of protocol letters, rendered without any console noise, possibly behind the
   LF of the previous line's "!\n" ---- *)
Lemma clean_noisy e : forallb proto_letter e = true -> forall acc, win_noisy false acc e e.
Proof.
  induction e as [|c e IH]; intros H acc.
  - exact (wn_end false acc [] eq_refl).
  - cbn [forallb] in H. apply andb_prop in H as [Hc He].
    exact (wn_char false acc [] c e e eq_refl eq_refl Hc eq_refl (IH He (acc ++ [c]))).
Qed.

Lemma clean_noisy_lf c e : proto_letter c = true -> forallb proto_letter e = true ->
  win_noisy false [] (c :: e) (LF :: c :: e).
Proof.
  intros Hc He.
  exact (wn_char false [] [ANewline] c e e eq_refl eq_refl Hc eq_refl (clean_noisy e He ([] ++ [c]))).
Qed.

Lemma b64_proto_letter c : is_b64_byte c = true -> proto_letter c = true.
Proof. apply (b64_byte_lift proto_letter). vm_compute. reflexivity. Qed.

Lemma b64_not_hash c : is_b64_byte c = true -> negb (c =? HASH) = true.
Proof. apply (b64_byte_lift (fun c => negb (c =? HASH))). vm_compute. reflexivity. Qed.

Definition data_line (pl : list byte) : list byte := HASH :: wire_DATA ++ COLON :: pl.

Lemma data_line_letters pl : forallb is_b64_byte pl = true -> forallb proto_letter (data_line pl) = true.
Proof.
  intros H. unfold data_line, wire_DATA. cbn [app forallb]. 
  assert (P : forallb proto_letter pl = true).
  { apply forallb_forall. intros c Hc. rewrite forallb_forall in H. apply b64_proto_letter, H, Hc. }
  rewrite P. vm_compute. reflexivity.
Qed.

Lemma data_line_no_hash pl : forallb is_b64_byte pl = true ->
  forallb (fun b => negb (b =? HASH)) (wire_DATA ++ COLON :: pl) = true.
Proof.
  intros H. unfold wire_DATA. cbn [app forallb].
  assert (P : forallb (fun b => negb (b =? HASH)) pl = true).
  { apply forallb_forall. intros c Hc. rewrite forallb_forall in H. apply b64_not_hash, H, Hc. }
  rewrite P. vm_compute. reflexivity.
Qed.

Lemma render_piece_windows (p : bool * list byte) :
  wire_render_piece false Consts.windows_newline p = data_line (snd p) ++ [BANG; LF].
Proof.
  rewrite wire_render_piece_eq, wire_data_frame_eq. unfold data_line, wire_DATA. cbn [app]. reflexivity.
Qed.

(* one DATA line read by the Windows reader: [lead] is [] or the LF left over from the previous
   line's terminator; every chunking [pend], every cursor [off] *)
Lemma recv_one lead pl more off pend :
  (lead = [] \/ lead = [LF]) -> forallb is_b64_byte pl = true ->
  concat pend = lead ++ data_line pl ++ BANG :: LF :: more ->
  exists o p' lead', recv_line_windows wire_DATA off pend = WDone (data_line pl) o p' /\
    (lead' = [] \/ lead' = [LF]) /\ concat p' = lead' ++ more.
Proof.
  intros Hl Hb Hc.
  assert (W : win_noisy false [] ([] ++ data_line pl) (lead ++ data_line pl)).
  { cbn [app]. destruct Hl as [-> | ->].
    - apply clean_noisy, data_line_letters, Hb.
    - pose proof (data_line_letters pl Hb) as L. unfold data_line in *. cbn [forallb] in L.
      apply andb_prop in L as [L1 L2]. apply clean_noisy_lf; assumption. }
  rewrite app_assoc in Hc.
  destruct (windows_recovered wire_DATA pl [] (lead ++ data_line pl) off pend (LF :: more)
              (data_line_no_hash pl Hb) W Hc) as (o & p' & R & Q).
  exists o, p'. destruct Q as [Q|(b & Q)].
  - exists [LF]. repeat split; auto.
  - exists []. injection Q as _ Q. repeat split; auto.
Qed.

Lemma check_data_line pl : wire_check wire_DATA (data_line pl) = Some pl.
Proof. reflexivity. Qed.

(* the frames of one file, assembled or re-split, under "!\n": read back by the Windows
   reader for every chunking of the connection and every cursor position; what is left
   unread is the rest of the stream, possibly behind the LF of the last terminator *)
Theorem frames_parse_windows : forall (ps : list (bool * list byte)) lead more off pend fuel,
  forallb (fun p => frame_ok false (snd p)) ps = true -> (length ps < fuel)%nat ->
  (lead = [] \/ lead = [LF]) ->
  concat pend = lead ++ ww_wire false Consts.windows_newline (ps ++ [(true, [])]) ++ more ->
  exists o p' lead', ww_recv fuel off pend = Some (map snd ps, (o, p')) /\
    (lead' = [] \/ lead' = [LF]) /\ concat p' = lead' ++ more.
Proof.
  unfold ww_wire.
  induction ps as [|p ps IH]; intros lead more off pend fuel Hok Hf Hl Hc; (destruct fuel as [|fuel]; [lia|]).
  - cbn [app map concat] in Hc. rewrite app_nil_r, render_piece_windows in Hc. cbn [snd] in Hc.
    rewrite <- app_assoc in Hc. cbn [app] in Hc.
    destruct (recv_one lead [] more off pend Hl eq_refl Hc) as (o & p' & lead' & R & Hl' & Q).
    exists o, p', lead'. cbn [ww_recv]. rewrite R, check_data_line. cbn [map]. repeat split; auto.
  - cbn [forallb] in Hok. apply andb_prop in Hok as [Hp Hok]. unfold frame_ok in Hp. apply andb_prop in Hp as [Hne Hb].
    cbn [orb] in Hb.
    cbn [app map concat] in Hc. rewrite render_piece_windows in Hc. rewrite <- !app_assoc in Hc. cbn [app] in Hc.
    destruct (recv_one lead (snd p) _ off pend Hl Hb Hc) as (o & p' & lead' & R & Hl' & Q).
    destruct (IH lead' more o p' fuel Hok ltac:(cbn [length] in Hf; lia) Hl' Q) as (o2 & p2 & lead2 & R2 & Hl2 & Q2).
    exists o2, p2, lead2. cbn [ww_recv map]. rewrite R, check_data_line.
    destruct (snd p) as [|x xs] eqn:E; [discriminate|]. rewrite R2. repeat split; auto.
Qed.

(* L1 over a Windows-framed connection: base64 stacks, frames of any sizes, cut again by
   pipelineSendData with any sizes, written with "!\n", chunked by the transport in any way,
   read by the Windows reader, decoded: the file content *)
Section WinStack.
Variable zcomp : list (list byte) -> list (list byte).
Variable zdecomp : list byte -> option (list byte).
Hypothesis z_roundtrip : forall cs, zdecomp (concat (zcomp cs)) = Some (concat cs).
Hypothesis z_bytes : forall cs, bytes_ok (concat (zcomp cs)) = true.

Theorem L1_roundtrip_windows compress t chunks sizes dflt ssizes rsizes rdflt more off pend :
  bytes_ok (concat chunks) = true ->
  Forall (fun s => 1 <= s)%nat rsizes -> (1 <= rdflt)%nat ->
  let ps := wire_resplit (wire_frames sizes dflt (wire_encode zcomp false compress t chunks)) ssizes dflt in
  concat pend = ww_wire false Consts.windows_newline (ps ++ [(true, [])]) ++ more ->
  exists fs o p', ww_recv (S (length ps)) off pend = Some (fs, (o, p')) /\
    wire_decode zdecomp false compress t fs rsizes rdflt = Some (concat chunks) /\
    (concat p' = more \/ concat p' = LF :: more).
Proof.
  intros Hd Hrs Hrd ps Hc.
  assert (Hne : all_nonempty (map snd ps) = true) by (apply resplit_nonempty, frames_nonempty).
  assert (Hcat : concat (map snd ps) = wire_encode zcomp false compress t chunks)
    by (unfold ps; rewrite resplit_concat; apply frames_concat).
  assert (Hok : forallb (fun p => frame_ok false (snd p)) ps = true).
  { pose proof (frames_ok_send zcomp false compress t chunks (map snd ps) Hne Hcat) as F.
    rewrite forallb_forall in F. apply forallb_forall. intros p Hp. apply F, in_map, Hp. }
  destruct (frames_parse_windows ps [] more off pend (S (length ps)) Hok ltac:(lia) (or_introl eq_refl) Hc)
    as (o & p' & lead' & R & Hl & Q).
  exists (map snd ps), o, p'. split; [exact R|]. split.
  - (* base64 mode: the escape table plays no part *)
    change (wire_decode zdecomp false compress t (map snd ps) rsizes rdflt)
      with (wire_decode zdecomp false compress [] (map snd ps) rsizes rdflt).
    apply (L1_roundtrip_frames zcomp zdecomp z_roundtrip z_bytes); auto.
  - destruct Hl as [-> | ->]; [left|right]; exact Q.
Qed.
End WinStack.
