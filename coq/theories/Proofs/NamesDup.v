(* Proofs about checkDuplicateNames (C09 / C08 / the premise tr_wf of C01). *)
From Trzsz Require Import Base.Bytes Gen.Consts Model.Path Model.NamesDup Proofs.PathFs.

(* the model's reading of the function and of its call sites is what the translator found *)
Lemma names_dup_src_ok :
  names_dup_key_is_relpath = true /\ names_dup_check_shape_ok = true /\
  names_dup_guard_tsz = true /\ names_dup_guard_upload = true.
Proof. repeat split; reflexivity. Qed.

Lemma nd_mem_in p seen : nd_mem p seen = true <-> In p seen.
Proof.
  unfold nd_mem. rewrite existsb_exists. split.
  - intros (x & Hx & E). apply list_eqb_eq in E. subst. exact Hx.
  - intro H. exists p. split; [exact H | apply list_eqb_refl].
Qed.

Lemma nd_check_from_none : forall es seen, nd_check_from seen es = None <->
  NoDup (map (fun e => nd_join (nd_rel e)) es) /\ (forall e, In e es -> ~ In (nd_join (nd_rel e)) seen).
Proof.
  induction es as [|e es IH]; intro seen; cbn [nd_check_from map].
  - split; [intros _; split; [constructor | intros e []] | reflexivity].
  - destruct (nd_mem (nd_join (nd_rel e)) seen) eqn:E.
    + apply nd_mem_in in E. split; [discriminate|]. intros [_ H]. exfalso. apply (H e (or_introl eq_refl)). exact E.
    + assert (Hn : ~ In (nd_join (nd_rel e)) seen) by (intro Hin; apply nd_mem_in in Hin; congruence).
      rewrite IH. split.
      * intros [Hnd Hs]. split.
        -- constructor; [|exact Hnd]. intro Hin. apply in_map_iff in Hin as (e' & Ee & He').
           apply (Hs e' He'). left. symmetry. exact Ee.
        -- intros e' [<-|He']; [exact Hn|]. intro Hin. apply (Hs e' He'). right. exact Hin.
      * intros [Hnd Hs]. inversion Hnd as [|? ? Hx Hnd']; subst. split; [exact Hnd'|].
        intros e' He' [Hin|Hin]; [|apply (Hs e' (or_intror He')); exact Hin].
        apply Hx. apply in_map_iff. exists e'. split; [symmetry; exact Hin | exact He'].
Qed.

(* accepted <-> the destination-relative names are pairwise distinct *)
Theorem nd_check_accepts es : nd_check es = None <-> NoDup (map (fun e => nd_join (nd_rel e)) es).
Proof.
  unfold nd_check. rewrite nd_check_from_none. split; [intros [H _]; exact H | intro H; split; [exact H | intros e _ []]].
Qed.

(* a refusal names a destination-relative name that two entries share: the first repeated one *)
Lemma nd_check_from_some : forall es seen p, nd_check_from seen es = Some p ->
  exists pre e post, es = pre ++ e :: post /\ p = nd_join (nd_rel e) /\
    (In p seen \/ exists e0, In e0 pre /\ nd_join (nd_rel e0) = p) /\
    nd_check_from seen pre = None.
Proof.
  induction es as [|e es IH]; intros seen p H; cbn [nd_check_from] in H; [discriminate|].
  destruct (nd_mem (nd_join (nd_rel e)) seen) eqn:E.
  - inversion H; subst. exists [], e, es. apply nd_mem_in in E. repeat split; auto.
  - destruct (IH _ _ H) as (pre & e1 & post & -> & -> & Hd & Hp). exists (e :: pre), e1, post.
    split; [reflexivity|]. split; [reflexivity|]. split.
    + destruct Hd as [[Hd|Hd]|(e0 & He0 & Ee0)].
      * right. exists e. split; [left; reflexivity | exact Hd].
      * left. exact Hd.
      * right. exists e0. split; [right; exact He0 | exact Ee0].
    + cbn [nd_check_from]. rewrite E. exact Hp.
Qed.

Theorem nd_check_refuses es p : nd_check es = Some p ->
  exists pre e post e0, es = pre ++ e :: post /\ In e0 pre /\
    nd_join (nd_rel e0) = p /\ nd_join (nd_rel e) = p /\
    NoDup (map (fun x => nd_join (nd_rel x)) pre).
Proof.
  intro H. destruct (nd_check_from_some es [] p H) as (pre & e & post & -> & -> & [[]|(e0 & He0 & Ee0)] & Hp).
  exists pre, e, post, e0. repeat split; auto. apply nd_check_accepts. exact Hp.
Qed.

(* single path components: the joined name determines the list *)
Lemma nd_join_inj : forall a b, Forall good a -> Forall good b -> nd_join a = nd_join b -> a = b.
Proof.
  assert (Hsplit : forall (c c' : name) r r', ~ In slash c -> ~ In slash c' -> c ++ slash :: r = c' ++ slash :: r' -> c = c' /\ r = r').
  { induction c as [|x c IH]; intros c' r r' Hc Hc' H.
    - destruct c' as [|y c']; [inversion H; auto|]. cbn in H. inversion H; subst. exfalso. apply Hc'. left. reflexivity.
    - destruct c' as [|y c']; cbn in H; inversion H; subst; [exfalso; apply Hc; left; reflexivity|].
      destruct (IH c' r r') as [-> ->]; auto; intro Hin; [apply Hc | apply Hc']; right; exact Hin. }
  assert (Hnos : forall l, Forall good l -> l <> [] -> forall c, nd_join l = c -> ~ In slash c -> exists x, l = [x]).
  { intros l Hl Hne c E Hc. destruct l as [|x [|y l]]; [congruence | exists x; reflexivity|].
    exfalso. apply Hc. rewrite <- E. cbn [nd_join]. apply in_or_app. right. left. reflexivity. }
  induction a as [|x a IH]; intros b Ha Hb H.
  - destruct b as [|y [|z b]]; [reflexivity | |].
    + cbn in H. inversion Hb as [|? ? Hy _]; subst. destruct Hy as (Hy & _). congruence.
    + cbn [nd_join] in H. destruct y; discriminate H.
  - inversion Ha as [|? ? Hx Ha']; subst. destruct Hx as (Hx1 & _ & _ & Hx4).
    destruct b as [|y b].
    + destruct a as [|z a]; cbn [nd_join] in H; [congruence | destruct x; discriminate H].
    + inversion Hb as [|? ? Hy Hb']; subst. destruct Hy as (Hy1 & _ & _ & Hy4).
      destruct a as [|a1 a], b as [|b1 b].
      * cbn in H. congruence.
      * exfalso. apply Hx4. cbn [nd_join] in H. rewrite H. apply in_or_app. right. left. reflexivity.
      * exfalso. apply Hy4. cbn [nd_join] in H. rewrite <- H. apply in_or_app. right. left. reflexivity.
      * change (nd_join (x :: a1 :: a)) with (x ++ slash :: nd_join (a1 :: a)) in H.
        change (nd_join (y :: b1 :: b)) with (y ++ slash :: nd_join (b1 :: b)) in H.
        destruct (Hsplit x y _ _ Hx4 Hy4 H) as [-> E]. f_equal. apply IH; assumption.
Qed.

(* accepted, names that are single path components: no two entries share a destination path *)
Theorem nd_distinct_dest dest es : nd_check es = None -> (forall e, In e es -> Forall good (nd_rel e)) ->
  NoDup (map nd_rel es) /\ NoDup (map (fun e => join dest (nd_rel e)) es).
Proof.
  intros H Hg. apply nd_check_accepts in H.
  assert (H1 : NoDup (map nd_rel es)).
  { clear -H. induction es as [|e es IH]; cbn [map] in *; [constructor|]. inversion H; subst. constructor; [|apply IH; assumption].
    intro Hin. apply in_map_iff in Hin as (e' & E & He'). match goal with Hx : ~ In _ _ |- _ => apply Hx end.
    apply in_map_iff. exists e'. split; [rewrite E; reflexivity | exact He']. }
  split; [exact H1|].
  clear H. induction es as [|e es IH]; cbn [map] in *; [constructor|]. inversion H1; subst.
  constructor; [|apply IH; [intros e' He'; apply Hg; right; exact He' | assumption]].
  intro Hin. apply in_map_iff in Hin as (e' & E & He'). match goal with Hx : ~ In _ _ |- _ => apply Hx end.
  apply in_map_iff. exists e'. split; [|exact He'].
  assert (G1 : Forall good (nd_rel e')) by (apply Hg; right; exact He').
  assert (G2 : Forall good (nd_rel e)) by (apply Hg; left; reflexivity).
  rewrite (join_good _ dest G1), (join_good _ dest G2) in E. apply app_inv_head in E. exact E.
Qed.

(* the call sites: a refusal hands nothing to sendFiles; what is handed on with overwrite
   requested has pairwise distinct destination-relative names *)
Theorem nd_guard_spec overwrite es :
  match nd_guard overwrite es with
  | NdRefused p => overwrite = true /\ nd_check es = Some p
  | NdSend es' => es' = es /\ (overwrite = true -> NoDup (map (fun e => nd_join (nd_rel e)) es))
  end.
Proof.
  unfold nd_guard. destruct overwrite.
  - destruct (nd_check es) as [p|] eqn:E; [auto|]. split; [reflexivity|]. intros _. apply nd_check_accepts. exact E.
  - split; [reflexivity | discriminate].
Qed.
