(* C18: the SIMULATION between the composition that runs the reader machine [rstep] on both sides
   ([cstep]) and the abstract composition [astep] for which Proofs/PauseComp.v proves the theorem:
   every enabled [cstep] move from a state satisfying the concrete invariant [CInv] is matched by the
   same [astep] move from its abstraction [abs_of], and unless the abstract machine reports an error the
   successor states are again related and the invariant holds.  With the abstract theorem (which shows
   that no error is ever reported) this transfers the composition theorem to [cstep]. *)
From Trzsz Require Import Base.Bytes Gen.Consts Model.Pause Proofs.Pause Proofs.PauseComp.
From Coq Require Import Lia.
Local Open Scope nat_scope.

Section Sim.
Variables T' SL GL n W P : nat.
Let T := S T'.
Let cf := mkCfg T SL GL true.

(* ---------- what is needed of the two concrete readers ---------- *)

(* the peer never pauses, resumes or stops *)
Definition peer_core (c : rcore) : Prop :=
  pausing c = false /\ pidx c = 0 /\ stopped c = false /\ ntmo c = None /\ rbt c = false.

Definition okR (r : rstate wline) : Prop :=
  peer_core (core r) /\
  match ph r with
  | PIdle => True
  | PGate _ _ => False
  | PRead _ => queue r = [] /\ exists t, tmo (core r) = Some t
  end.

Definition okA (a : rstate nat) : Prop :=
  stopped (core a) = false /\ match ph a with PRead _ => queue a = [] | _ => True end.

Definition CInv (s : cstate) : Prop := okA (cA s) /\ okR (cR s) /\ cErrA s = false /\ cErrR s = false.

Definition absA (a : rstate nat) : aph :=
  match ph a with PIdle => AIdle | PGate _ j => AGate j | PRead _ => ARead end.
Definition absR (r : rstate wline) : rph :=
  match ph r with PRead _ => RRead (match tmo (core r) with Some t => t | None => O end) | _ => RIdle end.

Ltac p3 := change (cP3 cf) with true in *; change (cSL cf) with SL in *; change (cGL cf) with GL in *;
  change (cT cf) with T in *.

(* ---------- our reader (lines are acknowledgements: always CGood) ---------- *)

Lemma rdA : forall q e c a' o, stopped c = false -> (forall snap, e <> GotLine snap) ->
  rd nat cls_a cf q e c = (a', o) ->
  okA a' /\ pausing (core a') = pausing c /\
  if pausing c then o = None /\ absA a' = AGate SL /\ queue a' = q
  else match q with
       | [] => o = None /\ absA a' = ARead /\ queue a' = []
       | k :: q' => (exists b, o = Some (ODelivered k b)) /\ absA a' = AIdle /\ queue a' = q'
       end.
Proof.
  intros q e c a' o Hst He H.
  assert (Hpre : pre nat cf e c = gate_check nat cf c (match e with AtTop => pidx c | AfterGate s0 => s0 | GotLine s0 => s0 end)).
  { destruct e as [|s0|s0]; [reflexivity|reflexivity|exfalso; eapply He; reflexivity]. }
  destruct q as [|k q']; cbn [rd] in H; rewrite Hpre in H; unfold gate_check in H; p3; cbn [andb] in H;
    rewrite Hst in H; destruct (pausing c) eqn:Ep; cbn [cls_a] in H.
  - inversion H; subst; clear H. unfold okA, absA; cbn. auto.
  - inversion H; subst; clear H. unfold okA, absA; cbn. auto.
  - inversion H; subst; clear H. unfold okA, absA; cbn. auto.
  - destruct (rbt (arm cf c)); cbn [andb] in H; inversion H; subst; clear H; unfold okA, absA; cbn; repeat split; auto; eexists; reflexivity.
Qed.

Lemma A_call : forall a a' o, okA a -> ph a = PIdle -> rstep nat cls_a cf a ECall = (a', o) ->
  okA a' /\ pausing (core a') = pausing (core a) /\
  if pausing (core a) then o = None /\ absA a' = AGate SL /\ queue a' = queue a
  else match queue a with
       | [] => o = None /\ absA a' = ARead /\ queue a' = []
       | k :: q' => (exists b, o = Some (ODelivered k b)) /\ absA a' = AIdle /\ queue a' = q'
       end.
Proof.
  intros [c q p] a' o (Hst & _) Hp H; cbn [core queue ph] in *. subst p. cbn [rstep ph core queue] in H.
  exact (rdA q AtTop (upd_pflag c false) a' o Hst ltac:(discriminate) H).
Qed.

Lemma A_arrive : forall a k a' o, okA a -> rstep nat cls_a cf a (EArrive k) = (a', o) ->
  okA a' /\ pausing (core a') = pausing (core a) /\
  match ph a with
  | PRead _ => (exists b, o = Some (ODelivered k b)) /\ absA a' = AIdle /\ queue a' = []
  | _ => o = None /\ absA a' = absA a /\ queue a' = queue a ++ [k]
  end.
Proof.
  intros [c q p] k a' o (Hst & Hq) H; cbn [core queue ph] in *. cbn [rstep core queue ph] in H. rewrite Hst in H.
  destruct p as [|snap j|snap].
  - inversion H; subst; clear H. unfold okA, absA; cbn. auto.
  - inversion H; subst; clear H. unfold okA, absA; cbn. auto.
  - subst q. cbn [app rd pre cls_a] in H. p3; cbn [andb] in H.
    destruct (rbt c); inversion H; subst; clear H; unfold okA, absA; cbn; repeat split; auto; eexists; reflexivity.
Qed.

Lemma A_tick : forall a a' o, okA a -> (forall snap, ph a <> PRead snap) -> rstep nat cls_a cf a ETick = (a', o) ->
  okA a' /\ pausing (core a') = pausing (core a) /\
  match ph a with
  | PIdle => o = None /\ absA a' = AIdle /\ queue a' = queue a
  | PGate _ (S (S j)) => o = None /\ absA a' = AGate (S j) /\ queue a' = queue a
  | _ =>
    if pausing (core a) then o = None /\ absA a' = AGate SL /\ queue a' = queue a
    else match queue a with
         | [] => o = None /\ absA a' = ARead /\ queue a' = []
         | k :: q' => (exists b, o = Some (ODelivered k b)) /\ absA a' = AIdle /\ queue a' = q'
         end
  end.
Proof.
  intros [c q p] a' o (Hst & Hq) Hnr H; cbn [core queue ph] in *. cbn [rstep] in H. unfold rtick in H; cbn [core queue ph] in H.
  destruct p as [|snap j|snap]; [| |exfalso; eapply Hnr; reflexivity].
  - inversion H; subst; clear H. unfold okA, absA; cbn. auto.
  - destruct j as [|[|j]];
      try (inversion H; subst; clear H; unfold okA, absA; cbn; auto; fail);
      exact (rdA q (AfterGate snap) (upd_timers c (dec (tmo c)) (dec (ntmo c))) a' o Hst ltac:(discriminate) H).
Qed.

Lemma A_pause : forall a, okA a ->
  let a' := mkR (do_pause (core a)) (queue a) (ph a) in
  okA a' /\ pausing (core a') = true /\ absA a' = absA a.
Proof. intros [c q p] (Hst & Hq); cbn [core queue ph]. unfold okA, absA, do_pause; destruct (pbt c); cbn; auto. Qed.

Lemma A_resume : forall a b, okA a ->
  let a' := mkR (do_resume cf (core a) b) (queue a) (ph a) in
  okA a' /\ pausing (core a') = false /\ absA a' = absA a.
Proof. intros [c q p] b (Hst & Hq); cbn [core queue ph]. unfold okA, absA, do_resume; cbn; auto. Qed.

(* ---------- the peer's reader ---------- *)

Lemma peer_core_pflag : forall c b, peer_core c -> peer_core (upd_pflag c b).
Proof. intros c b H. exact H. Qed.

Lemma peer_core_arm : forall c, peer_core c -> peer_core (arm cf c).
Proof. intros c (H1 & H2 & H3 & H4 & H5). unfold peer_core, arm; cbn. auto. Qed.

Lemma rdR : forall q e c r' o, peer_core c -> (forall snap, e <> GotLine snap) ->
  rd wline cls_w cf q e c = (r', o) ->
  okR r' /\
  match first_data q with
  | None => o = None /\ absR r' = RRead T /\ queue r' = []
  | Some (k, q') => (exists b, o = Some (ODelivered (WLData k) b)) /\ absR r' = RIdle /\ queue r' = q'
  end.
Proof.
  induction q as [|l q IH]; intros e c r' o Hc He H.
  - assert (Hpre : pre wline cf e c = PGo wline (arm cf c) (match e with AtTop => pidx c | AfterGate s0 => s0 | GotLine s0 => s0 end)).
    { destruct Hc as (Hp & _ & Hs & _).
      destruct e as [|s0|s0]; [| |exfalso; eapply He; reflexivity]; unfold pre, gate_check; rewrite Hp, Hs; reflexivity. }
    cbn [rd] in H. rewrite Hpre in H. inversion H; subst; clear H.
    cbn [first_data]. unfold okR, absR; cbn [core ph queue]. split.
    + split; [apply peer_core_arm; exact Hc|]. split; [reflexivity|]. exists T. reflexivity.
    + auto.
  - assert (Hpre : pre wline cf e c = PGo wline (arm cf c) (match e with AtTop => pidx c | AfterGate s0 => s0 | GotLine s0 => s0 end)).
    { destruct Hc as (Hp & _ & Hs & _).
      destruct e as [|s0|s0]; [| |exfalso; eapply He; reflexivity]; unfold pre, gate_check; rewrite Hp, Hs; reflexivity. }
    cbn [rd] in H. rewrite Hpre in H. destruct l as [|k]; cbn [cls_w first_data] in *.
    + p3. apply (IH AtTop (upd_pflag (arm cf c) true) r' o); [apply peer_core_pflag, peer_core_arm, Hc|discriminate|exact H].
    + assert (Hr : rbt (arm cf c) = false) by reflexivity. rewrite Hr in H. p3; cbn [andb] in H.
      inversion H; subst; clear H. unfold okR, absR; cbn [core ph queue]. split.
      * split; [apply peer_core_arm; exact Hc|exact I].
      * eauto.
Qed.

Lemma R_call : forall r r' o, okR r -> ph r = PIdle -> rstep wline cls_w cf r ECall = (r', o) ->
  okR r' /\
  match first_data (queue r) with
  | None => o = None /\ absR r' = RRead T /\ queue r' = []
  | Some (k, q') => (exists b, o = Some (ODelivered (WLData k) b)) /\ absR r' = RIdle /\ queue r' = q'
  end.
Proof.
  intros [c q p] r' o (Hc & _) Hp H; cbn [core queue ph] in *. subst p. cbn [rstep ph core queue] in H.
  exact (rdR q AtTop (upd_pflag c false) r' o (peer_core_pflag c false Hc) ltac:(discriminate) H).
Qed.

Lemma R_arrive : forall r l r' o, okR r -> rstep wline cls_w cf r (EArrive l) = (r', o) ->
  okR r' /\
  match ph r with
  | PRead _ =>
    match l with
    | WLKeep => o = None /\ absR r' = RRead T /\ queue r' = []
    | WLData k => (exists b, o = Some (ODelivered (WLData k) b)) /\ absR r' = RIdle /\ queue r' = []
    end
  | _ => o = None /\ absR r' = RIdle /\ queue r' = queue r ++ [l]
  end.
Proof.
  intros [c q p] l r' o (Hc & Hp) H; cbn [core queue ph] in *. cbn [rstep core queue ph] in H.
  pose proof Hc as (Hpa & Hpi & Hst & Hnt & Hrb). rewrite Hst in H.
  destruct p as [|snap j|snap]; [|contradiction|].
  - inversion H; subst; clear H. unfold okR, absR; cbn [core queue ph]. auto.
  - destruct Hp as (-> & t & Ht). cbn [app rd pre] in H. destruct l as [|k]; cbn [cls_w] in H.
    + p3.
      destruct (rdR [] AtTop (upd_pflag c true) r' o (peer_core_pflag c true Hc) ltac:(discriminate) H) as (Hok & Hres).
      cbn [first_data] in Hres. auto.
    + rewrite Hrb in H. p3; cbn [andb] in H. inversion H; subst; clear H.
      unfold okR, absR; cbn [core queue ph]. split; [auto|eauto].
Qed.

(* a tick: an idle reader stays idle; a blocked read with more than one tick left stays blocked with one
   tick less; otherwise the timer expires and (nobody having paused on that side) the read fails *)
Lemma R_tick : forall r r' o, okR r -> rstep wline cls_w cf r ETick = (r', o) ->
  match absR r with
  | RIdle => okR r' /\ o = None /\ absR r' = RIdle /\ queue r' = queue r
  | RRead (S (S t)) => okR r' /\ o = None /\ absR r' = RRead (S t) /\ queue r' = queue r
  | RRead _ => exists b, o = Some (OTimeout b)
  end.
Proof.
  intros [c q p] r' o (Hc & Hp) H; cbn [core queue ph] in *. cbn [rstep] in H. unfold rtick in H; cbn [core queue ph] in H.
  pose proof Hc as (Hpa & Hpi & Hst & Hnt & Hrb).
  unfold absR; cbn [ph core].
  destruct p as [|snap j|snap]; [|contradiction|].
  - inversion H; subst; clear H. unfold okR, absR, peer_core; cbn. rewrite Hnt. auto 10.
  - destruct Hp as (-> & t & Ht). rewrite Ht in *. rewrite Hnt in H. cbn [dec] in H.
    destruct t as [|[|t]]; cbn [dec upd_timers tmo ntmo fired] in H.
    + unfold on_timeout in H. cbn [stopped pidx upd_timers] in H. rewrite Hst, Hpi in H. p3. cbn [andb Nat.ltb Nat.leb] in H. inversion H; eauto.
    + unfold on_timeout in H. cbn [stopped pidx upd_timers] in H. rewrite Hst, Hpi in H. p3. cbn [andb Nat.ltb Nat.leb] in H. inversion H; eauto.
    + inversion H; subst; clear H. unfold okR, absR, peer_core; cbn. split; [|auto]. split; [auto|]. eauto.
Qed.

(* ---------- the composition ---------- *)

Ltac cflds := cbn [cA cAcked cS cCnt cR cDeliv cErrA cErrR cEp] in *.
Ltac xflds := cbn [xPausing xA xAq xAcked xS xCnt xR xRq xDeliv xBad xEp] in *.

Lemma abs_of_eq : forall s, abs_of s =
  mkA (pausing (core (cA s))) (absA (cA s)) (length (queue (cA s))) (cAcked s) (cS s) (cCnt s)
      (absR (cR s)) (queue (cR s)) (cDeliv s) (cErrA s || cErrR s) (cEp s).
Proof. reflexivity. Qed.

Lemma abs_set_A : forall s a' acked err, abs_of (set_A s a' acked err) =
  mkA (pausing (core a')) (absA a') (length (queue a')) acked (cS s) (cCnt s)
      (absR (cR s)) (queue (cR s)) (cDeliv s) (err || cErrR s) (cEp s).
Proof. reflexivity. Qed.

Lemma CInv_set_A : forall s a' acked, CInv s -> okA a' -> CInv (set_A s a' acked (cErrA s)).
Proof. intros s a' acked (HA & HR & EA & ER) H. unfold CInv, set_A; cflds. auto. Qed.

(* an acknowledgement reaches our side *)
Lemma sim_feedA_arrive : forall s k, CInv s ->
  CInv (feedA cf s (EArrive k)) /\ abs_of (feedA cf s (EArrive k)) = x_ack (abs_of s).
Proof.
  intros s k Hinv. pose proof Hinv as (HA & HR & EA & ER). unfold feedA.
  destruct (rstep nat cls_a cf (cA s) (EArrive k)) as [a' o] eqn:E.
  destruct (A_arrive _ _ _ _ HA E) as (HA' & Hpa & Hres).
  unfold x_ack. change (xA (abs_of s)) with (absA (cA s)).
  destruct (ph (cA s)) as [|snap j|snap] eqn:Eph.
  - destruct Hres as (-> & Ha & Hq). split; [apply CInv_set_A; auto|].
    rewrite abs_set_A, Hpa, Ha, Hq, app_length, (abs_of_eq s); xflds. unfold absA; rewrite Eph. cbn [length]. f_equal. lia.
  - destruct Hres as (-> & Ha & Hq). split; [apply CInv_set_A; auto|].
    rewrite abs_set_A, Hpa, Ha, Hq, app_length, (abs_of_eq s); xflds. unfold absA; rewrite Eph. cbn [length]. f_equal. lia.
  - destruct Hres as ((b & ->) & Ha & Hq). split; [apply CInv_set_A; auto|].
    rewrite abs_set_A, Hpa, Ha, Hq, (abs_of_eq s); xflds. unfold absA; rewrite Eph.
    destruct HA as (_ & Hq0). rewrite Eph in Hq0. rewrite Hq0. reflexivity.
Qed.

(* our reader leaves (or skips) the pausing loop and reads *)
Lemma sim_wake : forall s a' o, CInv s -> okA a' -> pausing (core a') = pausing (core (cA s)) ->
  (if pausing (core (cA s)) then o = None /\ absA a' = AGate SL /\ queue a' = queue (cA s)
   else match queue (cA s) with
        | [] => o = None /\ absA a' = ARead /\ queue a' = []
        | k :: q' => (exists b, o = Some (ODelivered k b)) /\ absA a' = AIdle /\ queue a' = q'
        end) ->
  let s' := match o with
            | Some (ODelivered _ _) => set_A s a' (S (cAcked s)) (cErrA s)
            | Some _ => set_A s a' (cAcked s) true
            | None => set_A s a' (cAcked s) (cErrA s)
            end in
  CInv s' /\ abs_of s' = x_acall cf (abs_of s).
Proof.
  intros s a' o Hinv HA' Hpa Hw. cbn zeta. unfold x_acall, x_aread, x_setA. p3.
  change (xPausing (abs_of s)) with (pausing (core (cA s))). change (xAq (abs_of s)) with (length (queue (cA s))).
  destruct (pausing (core (cA s))) eqn:Epa.
  - destruct Hw as (-> & Ha & Hq). split; [apply CInv_set_A; auto|].
    rewrite abs_set_A, Hpa, Ha, Hq. reflexivity.
  - destruct (queue (cA s)) as [|k q'] eqn:Eq.
    + destruct Hw as (-> & Ha & Hq). split; [apply CInv_set_A; auto|].
      rewrite abs_set_A, Hpa, Ha, Hq. reflexivity.
    + destruct Hw as ((b & ->) & Ha & Hq). split; [apply CInv_set_A; auto|].
      rewrite abs_set_A, Hpa, Ha, Hq. reflexivity.
Qed.

Lemma sim_feedA_call : forall s, CInv s -> ph (cA s) = PIdle ->
  CInv (feedA cf s ECall) /\ abs_of (feedA cf s ECall) = x_acall cf (abs_of s).
Proof.
  intros s Hinv Hp. pose proof Hinv as (HA & HR & EA & ER). unfold feedA.
  destruct (rstep nat cls_a cf (cA s) ECall) as [a' o] eqn:E.
  destruct (A_call _ _ _ HA Hp E) as (HA' & Hpa & Hres).
  exact (sim_wake s a' o Hinv HA' Hpa Hres).
Qed.

Lemma sim_feedA_tick : forall s, CInv s -> (forall snap, ph (cA s) <> PRead snap) ->
  CInv (feedA cf s ETick) /\ abs_of (feedA cf s ETick) = x_tickA cf (abs_of s).
Proof.
  intros s Hinv Hp. pose proof Hinv as (HA & HR & EA & ER). unfold feedA.
  destruct (rstep nat cls_a cf (cA s) ETick) as [a' o] eqn:E.
  destruct (A_tick _ _ _ HA Hp E) as (HA' & Hpa & Hres).
  unfold x_tickA. change (xA (abs_of s)) with (absA (cA s)).
  destruct (ph (cA s)) as [|snap j|snap] eqn:Eph.
  - assert (Hab : absA (cA s) = AIdle) by (unfold absA; rewrite Eph; reflexivity). rewrite Hab.
    destruct Hres as (-> & Ha & Hq). split; [apply CInv_set_A; auto|].
    rewrite abs_set_A, Hpa, Ha, Hq, (abs_of_eq s); xflds. rewrite Hab. reflexivity.
  - assert (Hab : absA (cA s) = AGate j) by (unfold absA; rewrite Eph; reflexivity). rewrite Hab.
    destruct j as [|[|j]].
    + exact (sim_wake s a' o Hinv HA' Hpa Hres).
    + exact (sim_wake s a' o Hinv HA' Hpa Hres).
    + destruct Hres as (-> & Ha & Hq). split; [apply CInv_set_A; auto|].
      unfold x_setA. rewrite abs_set_A, Hpa, Ha, Hq, (abs_of_eq s); xflds. reflexivity.
  - exfalso. eapply Hp. reflexivity.
Qed.

Lemma sim_feedA_pause : forall s, CInv s ->
  CInv (feedA cf s EPause) /\ abs_of (feedA cf s EPause) = x_flags (abs_of s) true (cEp s).
Proof.
  intros s (HA & HR & EA & ER). unfold feedA. cbn [rstep].
  destruct (A_pause _ HA) as (HA' & Hpa & Ha). cbn zeta in *.
  rewrite !abs_of_eq. unfold x_flags, set_A, CInv; cflds; xflds. rewrite Hpa, Ha. cbn [queue]. auto.
Qed.

Lemma sim_feedA_resume : forall s, CInv s ->
  CInv (feedA cf s EResume) /\ abs_of (feedA cf s EResume) = x_flags (abs_of s) false (cEp s).
Proof.
  intros s (HA & HR & EA & ER). unfold feedA. cbn [rstep].
  destruct (A_resume _ (is_read (ph (cA s))) HA) as (HA' & Hpa & Ha). cbn zeta in *.
  rewrite !abs_of_eq. unfold x_flags, set_A, CInv; cflds; xflds. rewrite Hpa, Ha. cbn [queue]. auto.
Qed.

(* a line from our sender reaches the peer *)
Lemma sim_feedR_arrive : forall s l, CInv s ->
  CInv (feedR cf s (EArrive l)) /\ abs_of (feedR cf s (EArrive l)) = x_rarrive cf (abs_of s) l.
Proof.
  intros s l Hinv. pose proof Hinv as (HA & HR & EA & ER). unfold feedR.
  destruct (rstep wline cls_w cf (cR s) (EArrive l)) as [r' o] eqn:E.
  destruct (R_arrive _ _ _ _ HR E) as (HR' & Hres).
  unfold x_rarrive. rewrite (abs_of_eq s) at 1. cbn [xR]. unfold absR at 1. unfold x_setR, x_deliver.
  destruct (ph (cR s)) as [|snap j|snap] eqn:Eph.
  - destruct Hres as (-> & Ha & Hq). rewrite !abs_of_eq. unfold CInv; cflds; xflds. rewrite Ha, Hq. auto.
  - destruct HR as (_ & HR). rewrite Eph in HR. contradiction.
  - destruct l as [|k].
    + destruct Hres as (-> & Ha & Hq). rewrite !abs_of_eq. unfold CInv; cflds; xflds. rewrite Ha, Hq. p3.
      destruct HR as (_ & HR). rewrite Eph in HR. destruct HR as (HR & _). rewrite HR. auto.
    + destruct Hres as ((b & ->) & Ha & Hq).
      set (s1 := mkC (cA s) (cAcked s) (cS s) (cCnt s) r' (cDeliv s ++ [k]) (cErrA s) (cErrR s) (cEp s)).
      assert (H1 : CInv s1) by (unfold CInv, s1; cflds; auto).
      destruct (sim_feedA_arrive s1 k H1) as (Hc & He). split; [exact Hc|]. rewrite He. f_equal.
      rewrite !abs_of_eq. unfold s1; cflds; xflds. rewrite Ha, Hq.
      destruct HR as (_ & HR). rewrite Eph in HR. destruct HR as (HR & _). rewrite HR. reflexivity.
Qed.

Lemma sim_feedR_call : forall s, CInv s -> ph (cR s) = PIdle ->
  CInv (feedR cf s ECall) /\ abs_of (feedR cf s ECall) = x_rcall cf (abs_of s).
Proof.
  intros s Hinv Hp. pose proof Hinv as (HA & HR & EA & ER). unfold feedR.
  destruct (rstep wline cls_w cf (cR s) ECall) as [r' o] eqn:E.
  destruct (R_call _ _ _ HR Hp E) as (HR' & Hres).
  unfold x_rcall. rewrite (abs_of_eq s) at 1. cbn [xRq]. unfold x_setR, x_deliver.
  destruct (first_data (queue (cR s))) as [[k q']|] eqn:Ef.
  - destruct Hres as ((b & ->) & Ha & Hq).
    set (s1 := mkC (cA s) (cAcked s) (cS s) (cCnt s) r' (cDeliv s ++ [k]) (cErrA s) (cErrR s) (cEp s)).
    assert (H1 : CInv s1) by (unfold CInv, s1; cflds; auto).
    destruct (sim_feedA_arrive s1 k H1) as (Hc & He). split; [exact Hc|]. rewrite He. f_equal.
    rewrite !abs_of_eq. unfold s1; cflds; xflds. rewrite Ha, Hq. reflexivity.
  - destruct Hres as (-> & Ha & Hq). rewrite !abs_of_eq. unfold CInv; cflds; xflds. rewrite Ha, Hq. auto.
Qed.

Lemma sim_feedR_tick : forall s, CInv s -> xBad (x_tickR (abs_of s)) = false ->
  CInv (feedR cf s ETick) /\ abs_of (feedR cf s ETick) = x_tickR (abs_of s).
Proof.
  intros s Hinv Hb. pose proof Hinv as (HA & HR & EA & ER). unfold feedR.
  destruct (rstep wline cls_w cf (cR s) ETick) as [r' o] eqn:E.
  pose proof (R_tick _ _ _ HR E) as Hres.
  unfold x_tickR in *. rewrite (abs_of_eq s) in Hb at 1. rewrite (abs_of_eq s) at 1. cbn [xR] in *. unfold x_setR, x_bad in *.
  destruct (absR (cR s)) as [|t] eqn:Ea.
  - destruct Hres as (HR' & -> & Ha & Hq). rewrite !abs_of_eq. unfold CInv; cflds; xflds. rewrite Ha, Hq, Ea. auto.
  - destruct t as [|[|t]]; try (cbn [xBad] in Hb; discriminate).
    destruct Hres as (HR' & -> & Ha & Hq). rewrite !abs_of_eq. unfold CInv; cflds; xflds. rewrite Ha, Hq. auto.
Qed.

(* field updates commute with the abstraction *)
Lemma abs_set_S : forall s p, abs_of (set_S s p) = x_setS (abs_of s) p. Proof. reflexivity. Qed.
Lemma abs_set_cnt : forall s c, abs_of (set_cnt s c) = x_setCnt (abs_of s) c. Proof. reflexivity. Qed.
Lemma abs_set_ep : forall s e, abs_of (set_ep s e) = x_flags (abs_of s) (xPausing (abs_of s)) e. Proof. reflexivity. Qed.
Lemma CInv_set_S : forall s p, CInv s -> CInv (set_S s p). Proof. intros s p H; exact H. Qed.
Lemma CInv_set_cnt : forall s c, CInv s -> CInv (set_cnt s c). Proof. intros s c H; exact H. Qed.
Lemma CInv_set_ep : forall s e, CInv s -> CInv (set_ep s e). Proof. intros s e H; exact H. Qed.

(* the abstract updates that do not touch a field *)
Lemma x_setS_rarrive : forall a p l, x_rarrive cf (x_setS a p) l = x_setS (x_rarrive cf a l) p.
Proof.
  intros a p l. unfold x_rarrive, x_setS, x_setR, x_deliver, x_ack; xflds.
  destruct (xR a); [reflexivity|]. destruct l; [reflexivity|]. destruct (xA a); reflexivity.
Qed.

Lemma okA_pausing_abs : forall s, our_pausing s = xPausing (abs_of s). Proof. reflexivity. Qed.

(* the gate, entered from its loop condition for frame k *)
Lemma sim_gate : forall s k p e, CInv s ->
  (p = SIdle /\ e = SCall) \/ (exists j, p = SSleep j /\ j <= 1 /\ e = STick) ->
  CInv (s_move cf s k p e) /\ abs_of (s_move cf s k p e) = x_gate cf (abs_of s) k.
Proof.
  intros s k p e Hinv Hpe. pose proof Hinv as (HA & HR & EA & ER). unfold s_move.
  assert (Hst : our_stopped s = false) by (destruct HA as (HA & _); exact HA).
  assert (Hstep : sphase_step cf (our_pausing s) (our_stopped s) p e = gate_enter cf (our_pausing s) false).
  { rewrite Hst. destruct Hpe as [(-> & ->)|(j & -> & Hj & ->)]; [reflexivity|]. destruct j as [|[|j]]; [reflexivity|reflexivity|lia]. }
  rewrite Hstep. unfold gate_enter, x_gate. p3; cbn [andb]. rewrite (okA_pausing_abs s).
  destruct (xPausing (abs_of s)) eqn:Epa.
  - cbn [emit]. destruct (sim_feedR_arrive s WLKeep Hinv) as (Hc & He).
    assert (Hm : match e with SWrite => False | _ => True end) by (destruct Hpe as [(_ & ->)|(j & _ & _ & ->)]; exact I).
    destruct e; try contradiction; (split; [apply CInv_set_S; exact Hc|]); rewrite abs_set_S, He, x_setS_rarrive; reflexivity.
  - cbn [emit].
    assert (Hm : match e with SWrite => False | _ => True end) by (destruct Hpe as [(_ & ->)|(j & _ & _ & ->)]; exact I).
    destruct e; try contradiction; (split; [apply CInv_set_S; exact Hinv|]); rewrite abs_set_S; reflexivity.
Qed.

Lemma quiescent_abs : forall s, CInv s -> quiescent n W s = x_quiescent n W (abs_of s).
Proof.
  intros s (HA & (_ & HR) & _). unfold quiescent, x_quiescent, r_live, x_live. rewrite (abs_of_eq s); xflds.
  unfold absR, absA. destruct (ph (cR s)); [|contradiction|]; destruct (ph (cA s)); reflexivity.
Qed.

(* xBad is only ever set *)
Lemma xBad_x_ack : forall a, xBad (x_ack a) = xBad a.
Proof. intros a. unfold x_ack. destruct (xA a); reflexivity. Qed.
Lemma xBad_x_rarrive : forall a l, xBad (x_rarrive cf a l) = xBad a.
Proof. intros a l. unfold x_rarrive, x_setR, x_deliver. destruct (xR a); [reflexivity|]. destruct l; [reflexivity|]. rewrite xBad_x_ack. reflexivity. Qed.
Lemma xBad_x_gate : forall a k, xBad (x_gate cf a k) = xBad a.
Proof. intros a k. unfold x_gate. destruct (xPausing a); [rewrite xBad_x_rarrive|]; reflexivity. Qed.
Lemma xBad_x_tickS : forall a, xBad (x_tickS cf a) = xBad a.
Proof. intros a. unfold x_tickS. destruct (xS a) as [|k [|[|[|j]]|]| |]; try reflexivity; apply xBad_x_gate. Qed.
Lemma xBad_x_acall : forall a, xBad (x_acall cf a) = xBad a.
Proof. intros a. unfold x_acall, x_aread, x_setA. destruct (xPausing a); [reflexivity|]. destruct (xAq a); reflexivity. Qed.
Lemma xBad_x_tickA : forall a, xBad (x_tickA cf a) = false -> xBad a = false /\ xA a <> ARead.
Proof.
  intros a H. unfold x_tickA in H. destruct (xA a) as [|[|[|j]]|] eqn:E; try rewrite xBad_x_acall in H;
    try (split; [exact H|discriminate]). cbn in H. discriminate.
Qed.

(* THE SIMULATION, one step *)
Theorem sim_step : forall s x s', CInv s -> cstep cf n W P s x = Some s' ->
  exists a', astep cf n W P (abs_of s) x = Some a' /\ (xBad a' = false -> a' = abs_of s' /\ CInv s').
Proof.
  intros s x s' Hinv Hs. pose proof Hinv as (HA & HR & EA & ER).
  destruct x; unfold cstep in Hs; unfold astep.
  - (* tick *)
    rewrite <- (quiescent_abs s Hinv).
    change (xEp (abs_of s)) with (cEp s).
    destruct (quiescent n W s && match cEp s with EpPausing e => e <? P | _ => true end); [|discriminate].
    inversion Hs; subst; clear Hs. eexists. split; [reflexivity|]. intros Hb. cbn [xBad x_flags] in Hb.
    rewrite xBad_x_tickS in Hb. destruct (xBad_x_tickA _ Hb) as (Hb1 & Hna).
    destruct (sim_feedR_tick s Hinv Hb1) as (Hc1 & He1).
    assert (Hna1 : forall snap, ph (cA (feedR cf s ETick)) <> PRead snap).
    { intros snap Hp. apply Hna. rewrite <- He1. rewrite abs_of_eq. cbn [xA]. unfold absA. rewrite Hp. reflexivity. }
    destruct (sim_feedA_tick _ Hc1 Hna1) as (Hc2 & He2).
    set (s1 := feedA cf (feedR cf s ETick) ETick) in *.
    assert (HS : CInv (match cS s1 with CSIn k (SSleep j) => s_move cf s1 k (SSleep j) STick | _ => s1 end) /\
                 abs_of (match cS s1 with CSIn k (SSleep j) => s_move cf s1 k (SSleep j) STick | _ => s1 end) = x_tickS cf (abs_of s1)).
    { unfold x_tickS. change (xS (abs_of s1)) with (cS s1).
      destruct (cS s1) as [k|k [|j|]|k|] eqn:ES; try (split; [exact Hc2|reflexivity]).
      destruct j as [|[|j]].
      - apply sim_gate; [exact Hc2|right; exists 0; auto].
      - apply sim_gate; [exact Hc2|right; exists 1; auto].
      - unfold s_move. cbn [sphase_step emit]. split; [apply CInv_set_S; exact Hc2|]. rewrite abs_set_S. reflexivity. }
    destruct HS as (Hc3 & He3). split; [|apply CInv_set_ep; exact Hc3].
    rewrite abs_set_ep, He3, He2, He1. reflexivity.
  - (* pause *)
    change (xEp (abs_of s)) with (cEp s). destruct (cEp s) as [|e|e j] eqn:Eep; try discriminate;
      inversion Hs; subst; clear Hs; (eexists; split; [reflexivity|]); intros _;
      destruct (sim_feedA_pause s Hinv) as (Hc & He); (split; [|apply CInv_set_ep; exact Hc]);
      rewrite abs_set_ep, He; unfold x_flags; xflds; reflexivity.
  - (* resume *)
    change (xEp (abs_of s)) with (cEp s). change (xPausing (abs_of s)) with (our_pausing s).
    destruct (cEp s) as [|e|e j] eqn:Eep; try discriminate. destruct (our_pausing s); [|discriminate].
    inversion Hs; subst; clear Hs. eexists; split; [reflexivity|]. intros _.
    destruct (sim_feedA_resume s Hinv) as (Hc & He). split; [|apply CInv_set_ep; exact Hc].
    rewrite abs_set_ep, He. unfold x_flags; xflds. reflexivity.
  - (* the sender calls sendDataV2 *)
    change (xS (abs_of s)) with (cS s). destruct (cS s) as [k|k p|k|]; try discriminate.
    inversion Hs; subst; clear Hs. eexists; split; [reflexivity|]. intros _.
    destruct (sim_gate s k SIdle SCall Hinv (or_introl (conj eq_refl eq_refl))) as (Hc & He). auto.
  - (* the sender writes its frame *)
    change (xS (abs_of s)) with (cS s). destruct (cS s) as [k|k [|j|]|k|]; try discriminate.
    inversion Hs; subst; clear Hs. eexists; split; [reflexivity|]. intros _.
    unfold s_move. cbn [sphase_step emit].
    destruct (sim_feedR_arrive s (WLData k) Hinv) as (Hc & He).
    split; [|apply CInv_set_S; exact Hc]. rewrite abs_set_S, He, x_setS_rarrive. reflexivity.
  - (* the sender pushes the acknowledgement slot *)
    change (xS (abs_of s)) with (cS s). change (xCnt (abs_of s)) with (cCnt s).
    destruct (cS s) as [k|k p|k|]; try discriminate. destruct (cCnt s <? W); [|discriminate].
    inversion Hs; subst; clear Hs. eexists; split; [reflexivity|]. intros _. split; [reflexivity|exact Hinv].
  - (* the peer's reader is called *)
    assert (Hx : xR (abs_of s) = absR (cR s)) by reflexivity. rewrite Hx. unfold absR.
    destruct (ph (cR s)) as [|snap j|snap] eqn:Eph; try discriminate.
    change (x_live n (abs_of s)) with (r_live n s). destruct (r_live n s); [|discriminate].
    inversion Hs; subst; clear Hs. eexists; split; [reflexivity|]. intros _.
    destruct (sim_feedR_call s Hinv Eph) as (Hc & He). auto.
  - (* our ack reader takes a slot and reads *)
    assert (Hx : xA (abs_of s) = absA (cA s)) by reflexivity. rewrite Hx. unfold absA.
    change (xCnt (abs_of s)) with (cCnt s).
    destruct (ph (cA s)) as [|snap j|snap] eqn:Eph; try discriminate. destruct (cCnt s) as [|c] eqn:Ec; try discriminate.
    inversion Hs; subst; clear Hs. eexists; split; [reflexivity|]. intros _.
    destruct (sim_feedA_call (set_cnt s c) (CInv_set_cnt s c Hinv) Eph) as (Hc & He). split; [|exact Hc].
    rewrite He. reflexivity.
Qed.

Lemma CInv_init : CInv (cinit n) /\ abs_of (cinit n) = ainit n.
Proof. unfold CInv, okA, okR, peer_core, cinit, rinit; cbn. auto 12. Qed.

(* hypotheses of the abstract theorem *)
Hypothesis HW : 1 <= W.
Hypothesis HSL : 1 <= SL.
Hypothesis HGL : 1 <= GL.
Hypothesis HP : P + Nat.max SL GL < T.

Theorem sim_run : forall xs s, crun cf n W P (cinit n) xs = Some s ->
  arun cf n W P (ainit n) xs = Some (abs_of s) /\ CInv s.
Proof.
  assert (G : forall xs s0 s, CInv s0 -> AInv T' SL GL n W P (abs_of s0) -> crun cf n W P s0 xs = Some s ->
            arun cf n W P (abs_of s0) xs = Some (abs_of s) /\ CInv s).
  { induction xs as [|x xs IH]; intros s0 s Hc Ha Hr; cbn [crun arun] in *.
    - inversion Hr; subst. auto.
    - destruct (cstep cf n W P s0 x) as [s1|] eqn:E; [|discriminate].
      destruct (sim_step s0 x s1 Hc E) as (a' & Hs & Hrel). fold cf in Hs. rewrite Hs.
      pose proof (step_inv T' SL GL n W P HW HSL HGL HP x _ _ Ha Hs) as Ha'.
      destruct (Hrel (i_bad _ _ _ _ _ _ _ Ha')) as (-> & Hc1).
      apply IH; auto. }
  intros xs s Hr. destruct CInv_init as (Hc & He). rewrite <- He. apply G; auto.
  rewrite He. apply inv_init; assumption.
Qed.

(* THE COMPOSITION THEOREM for [cstep]: the composition that runs the reader machine itself on both sides *)
Theorem short_pause_completes_conc : forall xs s, crun cf n W P (cinit n) xs = Some s ->
  cErrA s = false /\ cErrR s = false /\ cDeliv s = seq 0 (length (cDeliv s)) /\ length (cDeliv s) <= n /\
  (quiescent n W s = true -> cEp s = EpNone -> cDeliv s = seq 0 n /\ cAcked s = n).
Proof.
  intros xs s Hr. destruct (sim_run xs s Hr) as (Ha & Hc).
  destruct (short_pause_completes_abs T' SL GL n W P HW HSL HGL HP xs _ Ha) as (Hb & Hd & Hl & Hq).
  destruct Hc as (HA & HR & EA & ER). repeat split; auto.
  - apply Hq; [|exact H0]. rewrite <- quiescent_abs; [exact H|]. unfold CInv; auto.
  - apply Hq; [|exact H0]. rewrite <- quiescent_abs; [exact H|]. unfold CInv; auto.
Qed.

End Sim.
