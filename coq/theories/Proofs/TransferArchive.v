(* The archive stream inside the whole-transfer model (C01, Model/Transfer.v), composed from
   Model/Archive.v and the lemmas behind C15 (Proofs/Archive.v): reader_ok = C15_reader,
   size_ok = C15_size, writer_ok = C15_writer.

   - the sender's "file" of an archive item is the entry stream, of the announced size;
   - the receiver's writer accepts that stream cut in any way and builds exactly the tree of the
     SubFiles;
   - that tree planted below the archive's local name ([tr_graft]): what a look-up sees. *)
From Coq Require Import ZArith Lia.
From Trzsz Require Import Base.Bytes Gen.Consts Model.Path Model.Fs Model.Names Model.Wire Model.Archive Model.Transfer
  Proofs.PathFs Proofs.Names Proofs.Wire Proofs.Archive.

(* ---------- the planted tree ---------- *)
Lemma path_eqb_apath (p : path) : forall q, path_eqb p q = apath_eqb p q.
Proof. reflexivity. Qed.

Lemma path_eqb_app_l (b p q : path) : path_eqb (b ++ p) (b ++ q) = apath_eqb p q.
Proof.
  induction b as [|x b IH]; cbn [app path_eqb]; [apply path_eqb_apath|].
  rewrite (PathFs.list_eqb_refl x). exact IH.
Qed.

Lemma path_eqb_not_prefix (b p q : path) : is_prefix b q = false -> path_eqb (b ++ p) q = false.
Proof.
  intro Hn. apply path_eqb_neq. intros <-. rewrite is_prefix_app in Hn. discriminate.
Qed.

Lemma graft_cons f base p n t : tr_graft f base ((p, n) :: t) = set (tr_graft f base t) (base ++ p) (tr_anode n).
Proof. reflexivity. Qed.

Lemma graft_lookup_out f base t q : is_prefix base q = false -> lookup (tr_graft f base t) q = lookup f q.
Proof.
  intro Hn. induction t as [|[p n] t IH]; [reflexivity|].
  rewrite graft_cons, lookup_set, (path_eqb_not_prefix base p q Hn). exact IH.
Qed.

Lemma graft_lookup_in f base t p : lookup (tr_graft f base t) (base ++ p) =
  match afs_lookup t p with Some n => Some (tr_anode n) | None => lookup f (base ++ p) end.
Proof.
  induction t as [|[p0 n0] t IH]; [reflexivity|].
  rewrite graft_cons, lookup_set, path_eqb_app_l. cbn [afs_lookup]. destruct (apath_eqb p0 p); [reflexivity | exact IH].
Qed.

Lemma graft_present f base t q : lookup f q <> None -> lookup (tr_graft f base t) q <> None.
Proof.
  intro Hq. induction t as [|[p n] t IH]; [exact Hq|].
  rewrite graft_cons, lookup_set. destruct (path_eqb (base ++ p) q); [discriminate | exact IH].
Qed.

Lemma in_firstn {A} n : forall (l : list A) x, In x (firstn n l) -> In x l.
Proof.
  induction n as [|n IH]; intros l x Hx; [destruct Hx|]. destruct l as [|y l]; [destruct Hx|].
  cbn [firstn] in Hx. destruct Hx as [<-|Hx]; [left; reflexivity | right; apply IH, Hx].
Qed.

Lemma set_fs_map st f : st_map (tr_set_fs st f) = st_map st.
Proof. reflexivity. Qed.
Lemma set_fs_fs st f : st_fs (tr_set_fs st f) = f.
Proof. reflexivity. Qed.

(* ---------- the entries of an item as Archive.v sees them ---------- *)
Lemma aentry_ok_tr s : aentry_ok (tr_aentry s) = true.
Proof.
  unfold aentry_ok, tr_aentry, tr_ameta, ae_dir, te_size. cbn [ae_meta am_dir am_size ae_data].
  destruct (te_isdir s); [reflexivity|]. cbn [orb]. apply andb_true_iff. split; [apply Z.leb_le; lia | apply Z.leb_le; lia].
Qed.

Lemma aentry_exact_tr s : aentry_exact (tr_aentry s) = true.
Proof.
  unfold aentry_exact, tr_aentry, tr_ameta, ae_dir, te_size. cbn [ae_meta am_dir am_size ae_data].
  destruct (te_isdir s); [reflexivity|]. cbn [orb]. apply Z.eqb_eq. lia.
Qed.

Lemma Forall_map_tr {P : aentry -> Prop} (l : list tr_entry) : (forall s, P (tr_aentry s)) -> Forall P (map tr_aentry l).
Proof. intro Hp. induction l; cbn [map]; constructor; auto. Qed.

Lemma anode_of_tr s : tr_anode (anode_of (tr_aentry s)) = tr_node s.
Proof.
  unfold anode_of, tr_node, apayload, ae_dir, tr_aentry, tr_ameta, te_size. cbn [ae_meta am_dir am_size ae_data].
  destruct (te_isdir s); [reflexivity|]. cbn [tr_anode].
  replace (Z.to_nat (Z.of_N (N.of_nat (length (te_data s))))) with (length (te_data s)) by lia. rewrite firstn_all. reflexivity.
Qed.

(* with no path twice, the tree of the entries holds every entry at its path *)
Lemma find_self (es : list aentry) a : NoDup (map ae_path es) -> In a es ->
  find (fun e => apath_eqb (ae_path e) (ae_path a)) es = Some a.
Proof.
  induction es as [|x es IH]; intros Hn Hin; [destruct Hin|]. cbn [find map] in *. inversion Hn as [|? ? Hx Hn']; subst.
  destruct Hin as [->|Hin]; [rewrite apath_eqb_refl; reflexivity|].
  destruct (apath_eqb (ae_path x) (ae_path a)) eqn:E; [|apply IH; assumption].
  apply apath_eqb_eq in E. exfalso. apply Hx. rewrite E. apply in_map. exact Hin.
Qed.

Lemma aspec_member (es : list aentry) a : awf_tree es -> In a es -> aspec_tree es (ae_path a) = Some (anode_of a).
Proof.
  intros (Hn & Hne & _) Hin. unfold aspec_tree. pose proof (Hne a Hin) as Hp.
  destruct (ae_path a) as [|x p] eqn:E; [congruence|]. rewrite <- E, (find_self es a Hn Hin). reflexivity.
Qed.

Section TransferArchive.
Variable ahdr : src -> Z -> list byte.
Variable aparse : list byte -> option (src * Z).

Notation hdr_of := (tr_hdr_of ahdr).
Notation parse_of := (tr_parse_of aparse).
Notation arch_hdr := (tr_arch_hdr ahdr).

(* ---------- the header coding of Transfer.v meets Archive.v's hypothesis ---------- *)
Lemma hdr_ok_tr e s : tr_subs_wf e -> In s (te_subs e) -> tr_hdr_ok1 ahdr aparse s ->
  hdr_ok (arch_hdr e) (parse_of (te_id e)) (tr_aentry s).
Proof.
  intros (Hs & _) Hin (Hp & Hnl & Hv & _). destruct (Hs s Hin) as (Hid & _ & Hhd & Hrel).
  destruct (te_rel s) as [|r0 rest] eqn:Er; [congruence|]. cbn [hd] in Hhd.
  assert (Eh : arch_hdr e (ae_meta (tr_aentry s)) = ahdr (tr_src s) (Z.of_N (te_size s))).
  { unfold tr_arch_hdr, tr_hdr_of, tr_aentry, tr_ameta, tr_src. cbn [ae_meta am_path am_dir am_size].
    rewrite Er, <- Hhd, <- Hid. reflexivity. }
  unfold hdr_ok. rewrite Eh. split; [|exact Hnl].
  unfold tr_parse_of. rewrite Hp. unfold tr_src at 1. cbn [s_rel]. rewrite Er.
  rewrite Hv. cbn [negb]. rewrite andb_false_r.
  unfold tr_src. cbn [s_id s_archive s_isdir]. rewrite Hid, Z.eqb_refl. cbn [negb andb].
  unfold tr_aentry, tr_ameta. cbn [ae_meta]. rewrite Er. reflexivity.
Qed.

Lemma hdrs_ok_tr e : tr_subs_wf e -> (forall s, In s (te_subs e) -> tr_hdr_ok1 ahdr aparse s) ->
  Forall (hdr_ok (arch_hdr e) (parse_of (te_id e))) (tr_arch_entries e).
Proof.
  intros Hwf Hh. unfold tr_arch_entries. apply Forall_forall. intros a Ha. apply in_map_iff in Ha as (s & <- & Hs).
  apply hdr_ok_tr; auto.
Qed.

(* ---------- the sender: the archive "file" (C15_reader, C15_size) ---------- *)
Lemma arch_entry_ok e sc : exists f, tr_arch_entry ahdr e sc = Some f /\
  te_data f = astream (arch_hdr e) (tr_arch_entries e) /\ te_isdir f = false /\ te_subs f = [] /\
  te_id f = te_id e /\ te_rel f = te_rel e /\
  te_size f = Z.to_N (tr_arch_size ahdr e).
Proof.
  unfold tr_arch_entry.
  assert (Hs : Forall (fun s => 1 <= s)%nat (map S (sc_rsizes sc))).
  { apply Forall_forall. intros x Hx. apply in_map_iff in Hx as (y & <- & _). lia. }
  destruct (reader_ok (arch_hdr e) (tr_arch_entries e) (map S (sc_rsizes sc)) (S (sc_rdflt sc))
              (Forall_map_tr _ aentry_ok_tr) Hs ltac:(lia)) as (outs & st' & -> & Hc & _).
  eexists. split; [reflexivity|]. cbn [te_isdir te_subs te_id te_rel]. unfold te_data at 1. cbn [te_chunks].
  split; [exact Hc|]. repeat (split; [reflexivity|]).
  unfold te_size, te_data. cbn [te_isdir te_chunks]. unfold tr_arch_size.
  rewrite (size_ok (arch_hdr e) (tr_arch_entries e) (Forall_map_tr _ aentry_exact_tr)), Hc. lia.
Qed.

(* the stream consists of bytes when the contents and the encoded headers do *)
Lemma arch_stream_bytes e : tr_subs_wf e -> (forall s, In s (te_subs e) -> tr_hdr_ok1 ahdr aparse s) ->
  Forall (fun s => bytes_ok (te_data s) = true) (te_subs e) ->
  bytes_ok (astream (arch_hdr e) (tr_arch_entries e)) = true.
Proof.
  intros (Hs & _) Hh Hb. unfold tr_arch_entries, astream. rewrite Forall_forall in Hb.
  unfold bytes_ok. apply forallb_forall. intros x Hx. apply in_flat_map in Hx as (a & Ha & Hx).
  apply in_map_iff in Ha as (s & <- & Hin). destruct (Hs s Hin) as (Hid & _ & Hhd & Hrel).
  destruct (Hh s Hin) as (_ & _ & _ & Hbh).
  assert (Eh : arch_hdr e (ae_meta (tr_aentry s)) = ahdr (tr_src s) (Z.of_N (te_size s))).
  { destruct (te_rel s) as [|r0 rest] eqn:Er; [congruence|]. cbn [hd] in Hhd.
    unfold tr_arch_hdr, tr_hdr_of, tr_aentry, tr_ameta, tr_src. cbn [ae_meta am_path am_dir am_size].
    rewrite Er, <- Hhd, <- Hid. reflexivity. }
  unfold astream1 in Hx. rewrite Eh in Hx. apply in_app_or in Hx as [Hx|[<-|Hx]].
  - unfold bytes_ok in Hbh. rewrite forallb_forall in Hbh. apply Hbh, Hx.
  - reflexivity.
  - unfold apayload in Hx. destruct (ae_dir (tr_aentry s)); [destruct Hx|]. apply in_firstn in Hx.
    cbn [tr_aentry ae_data] in Hx. specialize (Hb s Hin). unfold bytes_ok in Hb. rewrite forallb_forall in Hb. apply Hb, Hx.
Qed.

(* ---------- the receiver: the writer on the stream, cut in any way (C15_writer) ---------- *)
Lemma unarchive_ok e sc : tr_subs_wf e -> (forall s, In s (te_subs e) -> tr_hdr_ok1 ahdr aparse s) ->
  exists t, tr_unarchive aparse (te_id e) sc (astream (arch_hdr e) (tr_arch_entries e)) = Some t /\
    forall p, afs_lookup t p = aspec_tree (tr_arch_entries e) p.
Proof.
  intros Hwf Hh. unfold tr_unarchive.
  destruct (writer_ok (arch_hdr e) (parse_of (te_id e)) true (tr_arch_entries e)
              (wire_frames (sc_wsizes sc) (sc_wdflt sc) (astream (arch_hdr e) (tr_arch_entries e)))
              (proj2 Hwf) (Forall_map_tr _ aentry_ok_tr) (hdrs_ok_tr e Hwf Hh) (frames_concat _ _ _)) as (st & -> & Ht).
  eexists. split; [reflexivity | exact Ht].
Qed.

(* what a look-up below the archive's name sees, member by member *)
Lemma unarchive_member e s t : tr_subs_wf e -> In s (te_subs e) ->
  (forall p, afs_lookup t p = aspec_tree (tr_arch_entries e) p) ->
  afs_lookup t (tl (te_rel s)) = Some (anode_of (tr_aentry s)).
Proof.
  intros (_ & Hwf) Hin Ht. rewrite Ht.
  change (tl (te_rel s)) with (ae_path (tr_aentry s)). apply aspec_member; [exact Hwf|].
  unfold tr_arch_entries. apply in_map. exact Hin.
Qed.

Lemma graft_member f base e s t : tr_subs_wf e -> In s (te_subs e) ->
  (forall p, afs_lookup t p = aspec_tree (tr_arch_entries e) p) ->
  lookup (tr_graft f base t) (base ++ tl (te_rel s)) = Some (tr_node s).
Proof.
  intros Hwf Hin Ht. rewrite graft_lookup_in, (unarchive_member e s t Hwf Hin Ht), anode_of_tr. reflexivity.
Qed.

Lemma graft_root f base e t : (forall p, afs_lookup t p = aspec_tree (tr_arch_entries e) p) ->
  lookup (tr_graft f base t) base = Some Dir.
Proof.
  intro Ht. rewrite <- (app_nil_r base) at 2. rewrite graft_lookup_in, Ht. reflexivity.
Qed.

End TransferArchive.
