(* Proofs about the receiver's name handling (C07, C09). *)
From Coq Require Import ZArith.
From Trzsz Require Import Base.Bytes Gen.Consts Model.Path Model.Fs Model.Names Proofs.PathFs.

(* The model's reading of checkFileName / unmarshalSourceFile / createFile / getNewName's
   format is pinned to what the translator found in the source. *)
Lemma names_src_ok :
  names_reject_exact = [[]; [dot]; [dot; dot]] /\ names_reject_bytes = [slash] /\
  names_check_in_unmarshal = true /\ names_check_in_create_file = true /\
  names_candidate_format = [37; 115; dot; 37; 100] (* "%s.%d" *).
Proof. repeat split; reflexivity. Qed.

(* getNewName builds a candidate with ONE Sprintf whose format is a literal of the source and whose
   arguments are (name, i), and tests existence with os.Stat(filepath.Join(path, candidate)) /
   os.IsNotExist: the peer's name never is (part of) a format, [candidate] below is what it computes *)
Lemma names_getnewname_src_ok : names_getnewname_shape_ok = true.
Proof. reflexivity. Qed.

(* the probing loop is `for i := 0; i < N; i++ { candidate; if free { return candidate } }` directly
   followed by the error return: the only way out of an exhausted series is the error *)
Lemma names_getnewname_loop_src_ok : names_getnewname_loop_ok = true.
Proof. reflexivity. Qed.

Lemma code_checks_on : chk_unmarshal code_checks = true /\ chk_create_file code_checks = true.
Proof. destruct names_src_ok as (_ & _ & H1 & H2 & _). split; assumption. Qed.

(* ---------- checkFileName ---------- *)
Lemma valid_name_good nm : valid_name nm = true -> good nm.
Proof.
  unfold valid_name. destruct names_src_ok as (-> & -> & _).
  intro H. apply andb_true_iff in H as [H1 H2]. apply negb_true_iff in H1, H2.
  cbn [existsb] in H1. rewrite !orb_false_iff in H1. destruct H1 as (E1 & E2 & E3 & _).
  apply list_eqb_neq in E1, E2, E3. repeat split; try assumption.
  intro Hin. assert (existsb (fun b => existsb (N.eqb b) [slash]) nm = true); [|congruence].
  apply existsb_exists. exists slash. split; [exact Hin|]. reflexivity.
Qed.

Definition hostile (nm : name) : Prop := nm = [] \/ nm = [dot] \/ nm = [dot; dot] \/ In slash nm.

Lemma hostile_invalid nm : hostile nm -> valid_name nm = false.
Proof.
  intro H. destruct (valid_name nm) eqn:E; [|reflexivity]. apply valid_name_good in E.
  destruct E as (E1 & E2 & E3 & E4). destruct H as [H|[H|[H|H]]]; contradiction.
Qed.

Lemma forallb_valid_good l : forallb valid_name l = true -> Forall good l.
Proof.
  intro H. apply Forall_forall. intros x Hx. apply valid_name_good.
  rewrite forallb_forall in H. apply H. exact Hx.
Qed.

(* ---------- decimal, candidates ---------- *)
Definition digit (b : N) : Prop := 48 <= b <= 57.

Lemma dec_aux_spec : forall fuel n acc, exists pre, dec_aux fuel n acc = pre ++ acc /\ Forall digit pre /\
  (fuel <> O -> pre <> []).
Proof.
  induction fuel as [|fuel IH]; intros n acc.
  - exists []. repeat split; [constructor | congruence].
  - cbn [dec_aux]. assert (Hd : digit (48 + n mod 10)).
    { unfold digit. pose proof (N.mod_lt n 10 ltac:(discriminate)) as Hm. revert Hm. generalize (n mod 10). intros m Hm. lia. }
    destruct (n <? 10).
    + exists [48 + n mod 10]. repeat split; [constructor; [exact Hd | constructor] | discriminate].
    + destruct (IH (n / 10) ((48 + n mod 10) :: acc)) as (pre & E & F & _).
      exists (pre ++ [48 + n mod 10]). rewrite E, <- app_assoc. repeat split.
      * apply Forall_app; split; [exact F | constructor; [exact Hd | constructor]].
      * destruct pre; discriminate.
Qed.

Lemma decimal_spec n : decimal n <> [] /\ Forall digit (decimal n).
Proof.
  unfold decimal. destruct (dec_aux_spec (S (N.size_nat n)) n []) as (pre & E & F & Hne).
  rewrite E, app_nil_r. split; [apply Hne; discriminate | exact F].
Qed.

Lemma candidate_good nm i : nm <> [] -> ~ In slash nm -> good (candidate nm i).
Proof.
  intros Hne Hs. unfold candidate. destruct (decimal_spec i) as [Hd Hf].
  destruct nm as [|x nm]; [congruence|]. destruct (decimal i) as [|d0 ds] eqn:Ed; [congruence|].
  repeat split.
  - discriminate.
  - cbn. intro H. inversion H. destruct nm; discriminate.
  - cbn. intro H. inversion H. destruct nm as [|y nm]; [discriminate|]. destruct nm; discriminate.
  - intro Hin. apply in_app_or in Hin as [Hin|Hin]; [contradiction|].
    cbn in Hin. destruct Hin as [Hin|Hin]; [discriminate Hin|].
    rewrite Forall_forall in Hf. apply Hf in Hin. unfold digit, slash in Hin. lia.
Qed.

(* ---------- getNewName as "first absent candidate" ---------- *)
Definition absent (f : fs) (d : path) (c : name) : bool :=
  match stat f (join d [c]) with SNotExist => true | _ => false end.

Definition numbered (nm : name) (i : N) (k : nat) : list name :=
  map (fun j => candidate nm (i + N.of_nat j)) (seq 0 k).

(* name, name.0, name.1, ..., name.(max_tries-1) *)
Definition candidates (nm : name) : list name := nm :: numbered nm 0 (N.to_nat names_max_tries).

Lemma find_fresh_find f d nm : forall k i, find_fresh f d nm i k = find (absent f d) (numbered nm i k).
Proof.
  induction k as [|k IH]; intro i; [reflexivity|].
  unfold numbered. rewrite <- cons_seq, <- seq_shift. cbn [find_fresh map find]. rewrite map_map.
  unfold absent at 1. cbn [N.of_nat]. rewrite N.add_0_r.
  destruct (stat f (join d [candidate nm i])) as [nd| |] eqn:E; try reflexivity;
    rewrite IH; unfold numbered; f_equal; apply map_ext; intro j; f_equal; lia.
Qed.

Lemma get_new_name_find f d nm : get_new_name f d nm =
  if names_max_len <? name_len nm then None else find (absent f d) (candidates nm).
Proof.
  unfold get_new_name, candidates. destruct (names_max_len <? name_len nm); [reflexivity|].
  cbn [find]. unfold absent at 1. rewrite find_fresh_find.
  destruct (stat f (join d [nm])) as [nd| |]; reflexivity.
Qed.

Lemma find_first {A} (p : A -> bool) l x : find p l = Some x <->
  exists pre post, l = pre ++ x :: post /\ p x = true /\ forall y, In y pre -> p y = false.
Proof.
  induction l as [|a l IH]; cbn [find].
  - split; [discriminate | intros (pre & post & E & _); destruct pre; discriminate].
  - destruct (p a) eqn:Ea.
    + split.
      * intro H; inversion H; subst. exists [], l. repeat split; [exact Ea | intros y []].
      * intros (pre & post & E & Hx & Hpre). destruct pre as [|b pre].
        -- cbn in E. injection E as Hab Hl. subst x. reflexivity.
        -- cbn in E. injection E as Hab Hl. subst b. rewrite (Hpre a (or_introl eq_refl)) in Ea. discriminate.
    + rewrite IH. split.
      * intros (pre & post & -> & Hx & Hpre). exists (a :: pre), post. repeat split; auto.
        intros y [<-|Hy]; auto.
      * intros (pre & post & E & Hx & Hpre). destruct pre as [|b pre].
        -- cbn in E. injection E as Hab Hl. subst x. congruence.
        -- cbn in E. injection E as Hab Hl. subst b l. exists pre, post. repeat split; auto.
           intros y Hy. apply Hpre. right; exact Hy.
Qed.

Theorem fresh_shape f d nm ln : get_new_name f d nm = Some ln <->
  name_len nm <= names_max_len /\
  exists pre post, candidates nm = pre ++ ln :: post /\ stat f (join d [ln]) = SNotExist /\
    forall c, In c pre -> stat f (join d [c]) <> SNotExist.
Proof.
  rewrite get_new_name_find. destruct (names_max_len <? name_len nm) eqn:El.
  - apply N.ltb_lt in El. split; [discriminate | intros [H _]; lia].
  - apply N.ltb_ge in El. rewrite find_first. split.
    + intros (pre & post & E & Hx & Hpre). split; [exact El|]. exists pre, post. repeat split; [exact E | |].
      * unfold absent in Hx. destruct (stat f (join d [ln])); congruence.
      * intros c Hc Hs. specialize (Hpre c Hc). unfold absent in Hpre. rewrite Hs in Hpre. discriminate.
    + intros (_ & pre & post & E & Hx & Hpre). exists pre, post. repeat split; [exact E | |].
      * unfold absent. rewrite Hx. reflexivity.
      * intros c Hc. specialize (Hpre c Hc). unfold absent. destruct (stat f (join d [c])); congruence.
Qed.

Theorem exhausted f d nm : (forall c, In c (candidates nm) -> stat f (join d [c]) <> SNotExist) ->
  get_new_name f d nm = None.
Proof.
  intro H. rewrite get_new_name_find. destruct (names_max_len <? name_len nm); [reflexivity|].
  destruct (find (absent f d) (candidates nm)) as [x|] eqn:E; [|reflexivity].
  apply find_some in E as [Hin Hx]. specialize (H x Hin). unfold absent in Hx.
  destruct (stat f (join d [x])); congruence.
Qed.

Lemma get_new_name_good f d nm ln : good nm -> get_new_name f d nm = Some ln ->
  good ln /\ stat f (d ++ [ln]) = SNotExist.
Proof.
  intros Hg H. apply fresh_shape in H as (_ & pre & post & E & Hs & _).
  assert (Hl : good ln).
  { assert (Hin : In ln (candidates nm)) by (rewrite E; apply in_or_app; right; left; reflexivity).
    unfold candidates in Hin. destruct Hin as [<-|Hin]; [exact Hg|].
    unfold numbered in Hin. apply in_map_iff in Hin as (j & <- & _).
    destruct Hg as (H1 & _ & _ & H4). apply candidate_good; assumption. }
  split; [exact Hl|]. rewrite join_good in Hs; [exact Hs | constructor; [exact Hl | constructor]].
Qed.

(* ---------- state frames ---------- *)
Definition under (d : path) (ln : name) (q : path) : Prop := exists r, q = d ++ ln :: r.

Definition sframe (P : path -> Prop) (st st' : state) : Prop :=
  (forall q, ~ P q -> lookup (st_fs st') q = lookup (st_fs st) q) /\
  (exists es, st_log st' = st_log st ++ es /\ forall e, In e es -> P (effect_path e)) /\
  (exists cs, st_created st' = st_created st ++ cs /\ forall c, In c cs -> P c).

Lemma sframe_refl P st : sframe P st st.
Proof.
  split; [reflexivity|]. split; exists []; rewrite app_nil_r; (split; [reflexivity | intros ? []]).
Qed.

Lemma sframe_trans P a b c : sframe P a b -> sframe P b c -> sframe P a c.
Proof.
  intros (A1 & (e1 & A2 & A3) & (c1 & A4 & A5)) (B1 & (e2 & B2 & B3) & (c2 & B4 & B5)).
  split; [intros q Hq; rewrite B1, A1; auto|]. split.
  - exists (e1 ++ e2). rewrite B2, A2, app_assoc. split; [reflexivity|].
    intros e He. apply in_app_or in He as [He|He]; auto.
  - exists (c1 ++ c2). rewrite B4, A4, app_assoc. split; [reflexivity|].
    intros x Hx. apply in_app_or in Hx as [Hx|Hx]; auto.
Qed.

Lemma sframe_set_map P st m : sframe P st (set_map st m).
Proof.
  split; [reflexivity|]. split; exists []; cbn; rewrite app_nil_r; (split; [reflexivity | intros ? []]).
Qed.

Lemma under_not_prefix d ln a b : d = a ++ b -> ~ under d ln a.
Proof.
  intros -> [r Hr]. apply (f_equal (@length name)) in Hr. rewrite !app_length in Hr. cbn in Hr. lia.
Qed.

Lemma chain_sframe d ln st st' : chain (st_fs st) d -> sframe (under d ln) st st' -> chain (st_fs st') d.
Proof.
  intros Hc (F & _) a b Hab. specialize (Hc a b Hab). unfold get in *. destruct a as [|x a]; [reflexivity|].
  rewrite F; [exact Hc|]. apply (under_not_prefix d ln _ b Hab).
Qed.

Lemma do_create_file_spec (P : path -> Prop) p t pl st ok st' : do_create_file p t pl st = (ok, st') -> P p ->
  sframe P st st' /\ st_map st' = st_map st /\ (ok = false -> st' = st) /\
  (ok = true -> lookup (st_fs st') p <> None).
Proof.
  unfold do_create_file. destruct (open_create (st_fs st) p t pl) as [[f' es]|] eqn:E; intros H HP; inversion H; subst; clear H.
  - pose proof (open_create_present _ _ _ _ _ _ E) as Hp.
    apply open_create_frame in E as [F1 F2].
    split; [|split; [reflexivity | split; [intro Hx; discriminate Hx | intros _; exact Hp]]].
    split; [|split]; cbn.
    + intros q Hq. apply F1. congruence.
    + exists es. split; [reflexivity|]. intros e He. rewrite <- (F2 e He). exact HP.
    + exists [p]. split; [reflexivity|]. intros c [<-|[]]. exact HP.
  - split; [apply sframe_refl | split; [reflexivity | split; [reflexivity | intro Hx; discriminate Hx]]].
Qed.

Lemma do_create_directory_spec d ln mids st ok st' : chain (st_fs st) d ->
  do_create_directory (d ++ ln :: mids) st = (ok, st') ->
  sframe (under d ln) st st' /\ st_map st' = st_map st /\
  (ok = true -> lookup (st_fs st') (d ++ ln :: mids) <> None).
Proof.
  intros Hc. unfold do_create_directory. set (p := d ++ ln :: mids).
  destruct (stat (st_fs st) p) as [[old|]| |] eqn:Es.
  - intro H; inversion H; subst. split; [apply sframe_refl | split; [reflexivity | intro Hx; discriminate Hx]].
  - intro H; inversion H; subst. split; [apply sframe_refl | split; [reflexivity |]].
    intros _. unfold stat in Es. destruct (bad_path p); [discriminate|].
    (* found as a directory: present *)
    clear H. subst p.
    assert (Hgen : forall rest pre0, rest <> [] -> walk (st_fs st') pre0 rest = SFound Dir -> lookup (st_fs st') (pre0 ++ rest) <> None).
    { induction rest as [|c rest IH]; intros pre0 Hne Hw; [congruence|]. cbn [walk] in Hw.
      destruct (get (st_fs st') pre0) as [[|]|]; try discriminate.
      destruct (name_max <? name_len c); [discriminate|]. destruct rest as [|c2 rest].
      - cbn [walk] in Hw. unfold get in Hw. destruct (pre0 ++ [c]) as [|x0 p0] eqn:E0; [destruct pre0; discriminate|].
        destruct (lookup (st_fs st') (x0 :: p0)); [discriminate | discriminate].
      - specialize (IH (pre0 ++ [c])). rewrite <- app_assoc in IH. apply IH; [discriminate | exact Hw]. }
    apply (Hgen (d ++ ln :: mids) []); [destruct d; discriminate | exact Es].
  - destruct (mkdir_all (st_fs st) p) as [[ok1 f1] es1] eqn:Em. intro H; inversion H; subst; clear H.
    unfold mkdir_all in Em.
    assert (Hgen : forall rest pre f ok0 f2 es2, rest <> [] -> mk_down f pre rest = (ok0, f2, es2) -> ok0 = true ->
              lookup f2 (pre ++ rest) <> None).
    { induction rest as [|c rest IH]; intros pre f ok0 f2 es2 Hne Em0 Hok; [congruence|].
      cbn [mk_down] in Em0. destruct (has_nul c || (name_max <? name_len c)); [inversion Em0; congruence|].
      destruct rest as [|c2 rest].
      - destruct (lookup f (pre ++ [c])) as [[old|]|] eqn:El.
        + inversion Em0; congruence.
        + cbn [mk_down] in Em0. inversion Em0; subst. rewrite El. discriminate.
        + cbn [mk_down] in Em0. inversion Em0; subst. rewrite lookup_set, path_eqb_refl. discriminate.
      - destruct (lookup f (pre ++ [c])) as [[old|]|] eqn:El.
        + inversion Em0; congruence.
        + specialize (IH (pre ++ [c]) f ok0 f2 es2 ltac:(discriminate) Em0 Hok). rewrite <- app_assoc in IH. exact IH.
        + destruct (mk_down (set f (pre ++ [c]) Dir) (pre ++ [c]) (c2 :: rest)) as [[ok3 f3] es3] eqn:E3.
          inversion Em0; subst. specialize (IH (pre ++ [c]) _ _ _ _ ltac:(discriminate) E3 eq_refl).
          rewrite <- app_assoc in IH. exact IH. }
    assert (Hpres : ok = true -> lookup f1 p <> None).
    { intro Hok. apply (Hgen p [] (st_fs st) ok f1 es1); [subst p; destruct d; discriminate | exact Em | exact Hok]. }
    clear Hgen.
    apply mk_down_frame in Em. destruct Em as [F1 F2].
    assert (HU : forall q, (exists a b, a <> [] /\ p = a ++ b /\ q = [] ++ a /\ lookup (st_fs st) q = None) -> under d ln q).
    { intros q (a & b & Ha & Hab & -> & Hl). cbn [app] in *. subst p.
      destruct (Nat.le_gt_cases (length a) (length d)) as [Hle|Hgt].
      - symmetry in Hab. destruct (app_eq_app_le a b d (ln :: mids) Hab Hle) as (e & He & _).
        specialize (Hc a e He). unfold get in Hc. destruct a; [congruence|]. congruence.
      - destruct (app_eq_app_le d (ln :: mids) a b Hab) as (e & He & He2); [lia|].
        destruct e as [|x e]; [rewrite app_nil_r in He; subst; lia|].
        cbn in He2. inversion He2; subst. exists e. reflexivity. }
    split; [|split; [reflexivity | exact Hpres]]. split; [|split]; cbn.
    + intros q Hq. apply F1. intro Hx. apply Hq. apply HU. exact Hx.
    + exists es1. split; [reflexivity|]. intros e He. apply HU. apply F2. exact He.
    + destruct ok.
      * exists [p]. split; [reflexivity|]. intros c [<-|[]]. exists mids. reflexivity.
      * exists []. rewrite app_nil_r. split; [reflexivity | intros ? []].
  - intro H; inversion H; subst. split; [apply sframe_refl | split; [reflexivity | intro Hx; discriminate Hx]].
Qed.

(* ---------- createDirOrFile / createFile / one message ---------- *)
Lemma create_leaf_spec d ln r s t pl st res st' : chain (st_fs st) d ->
  create_leaf s (d ++ ln :: r) t pl ln st = (res, st') ->
  sframe (under d ln) st st' /\ st_map st' = st_map st /\ (forall ln', res = NOk ln' -> ln' = ln).
Proof.
  intros Hc. unfold create_leaf.
  assert (HD : forall ok st1, do_create_directory (d ++ ln :: r) st = (ok, st1) ->
    (if ok then (NOk ln, st1) else (NErr, st1)) = (res, st') ->
    sframe (under d ln) st st' /\ st_map st' = st_map st /\ (forall ln', res = NOk ln' -> ln' = ln)).
  { intros ok st1 E H. destruct (do_create_directory_spec d ln r st ok st1 Hc E) as (F & M & _).
    destruct ok; inversion H; subst; (split; [exact F | split; [exact M | intros ln' Hl; congruence]]). }
  destruct (s_archive s).
  - destruct (negb (s_isdir s)).
    + intro H; inversion H; subst. split; [apply sframe_refl | split; [reflexivity | intros ? Hx; discriminate Hx]].
    + destruct (do_create_directory (d ++ ln :: r) st) as [ok st1] eqn:E. intro H. apply (HD ok st1 eq_refl).
      destruct ok; exact H.
  - destruct (s_isdir s).
    + destruct (do_create_directory (d ++ ln :: r) st) as [ok st1] eqn:E. intro H. apply (HD ok st1 eq_refl).
      destruct ok; exact H.
    + destruct (do_create_file (d ++ ln :: r) t pl st) as [ok st1] eqn:E. intro H.
      destruct (do_create_file_spec (under d ln) _ _ _ _ _ _ E) as (F & M & _); [exists r; reflexivity|].
      destruct ok; inversion H; subst; (split; [exact F | split; [exact M | intros ln' Hl; congruence]]).
Qed.

Lemma forall_good_split rest : rest <> [] -> Forall good rest ->
  Forall good (removelast rest) /\ good (last rest []).
Proof.
  intros Hne H. rewrite (app_removelast_last [] Hne) in H. apply Forall_app in H as [H1 H2].
  split; [exact H1 | inversion H2; assumption].
Qed.

(* the JSON record a message is decoded to, if it is decoded at all *)
Definition msg_src (decode : list N -> option src) (cfg : config) (m : msg) : option src :=
  match m with
  | MName raw _ => if v3 cfg || directory cfg then decode raw else None
  | MEntry raw _ => decode raw
  end.

Section Step.
  Variable G : name -> Prop.

  Definition map_ok (m : list (Z * name)) : Prop := forall id v, map_get m id = Some v -> good v /\ G v.

  Lemma cdof_spec cfg d s r0 rest t pl st res st' :
    chain (st_fs st) d -> Forall good (r0 :: rest) -> map_ok (st_map st) ->
    (overwrite cfg = true -> forall n, G n) ->
    (overwrite cfg = false -> forall n, stat (st_fs st) (d ++ [n]) = SNotExist -> G n) ->
    create_dir_or_file cfg d s r0 rest t pl st = (res, st') ->
    (st' = st /\ res = NErr) \/
    exists ln, good ln /\ G ln /\ sframe (under d ln) st st' /\ (forall ln', res = NOk ln' -> ln' = ln) /\
      map_ok (st_map st') /\
      (forall id v, map_get (st_map st) id = Some v -> map_get (st_map st') id = Some v) /\
      (overwrite cfg = false -> map_get (st_map st') (s_id s) = Some ln) /\
      (overwrite cfg = true -> ln = r0).
  Proof.
    intros Hc Hg Hm Hover Hfresh. unfold create_dir_or_file.
    inversion Hg as [|? ? Hg0 Hgr]; subst.
    (* the chosen local name and the state after recording it *)
    set (chosen := if overwrite cfg then Some (r0, st) else _).
    assert (Hch : chosen = None \/ exists ln st1, chosen = Some (ln, st1) /\ good ln /\ G ln /\
              st_fs st1 = st_fs st /\ st_log st1 = st_log st /\ st_created st1 = st_created st /\
              map_ok (st_map st1) /\
              (forall id v, map_get (st_map st) id = Some v -> map_get (st_map st1) id = Some v) /\
              (overwrite cfg = false -> map_get (st_map st1) (s_id s) = Some ln) /\
              (overwrite cfg = true -> ln = r0)).
    { subst chosen. destruct (overwrite cfg) eqn:Eo.
      - right. exists r0, st. split; [reflexivity|]. split; [exact Hg0|]. split; [apply Hover; reflexivity|].
        repeat (split; [reflexivity|]). split; [exact Hm|]. split; [auto|]. split; [intro Hx; discriminate Hx | reflexivity].
      - destruct (map_get (st_map st) (s_id s)) as [v|] eqn:Em.
        + right. exists v, st. destruct (Hm _ _ Em) as [Hv1 Hv2]. split; [reflexivity|]. split; [exact Hv1|]. split; [exact Hv2|].
          repeat (split; [reflexivity|]). split; [exact Hm|]. split; [auto|]. split; [intros _; exact Em | intro Hx; discriminate Hx].
        + destruct (get_new_name (st_fs st) d r0) as [ln|] eqn:En; [|left; reflexivity].
          right. destruct (get_new_name_good _ _ _ _ Hg0 En) as [Hl Hs].
          exists ln, (set_map st ((s_id s, ln) :: st_map st)). cbn.
          split; [reflexivity|]. split; [exact Hl|]. split; [apply Hfresh; [reflexivity | exact Hs]|].
          repeat (split; [reflexivity|]). split; [|split; [|split; [|intro Hx; discriminate Hx]]].
          * intros id v. cbn. destruct (Z.eqb (s_id s) id); [intro H; inversion H; subst; auto | apply Hm].
          * intros id v Hv. cbn. destruct (Z.eqb (s_id s) id) eqn:Ez; [|exact Hv].
            apply Z.eqb_eq in Ez. subst id. congruence.
          * intros _. cbn. rewrite Z.eqb_refl. reflexivity. }
    destruct Hch as [->|(ln & st1 & -> & Hl & HG & E1 & E2 & E3 & Hm1 & Hp1 & Hid & Hov)];
      [intro H; inversion H; left; auto|].
    assert (Hc1 : chain (st_fs st1) d) by (rewrite E1; exact Hc).
    assert (F01 : sframe (under d ln) st st1).
    { split; [intros; rewrite E1; reflexivity|]. split; exists []; rewrite app_nil_r; (split; [congruence | intros ? []]). }
    intro H. right. exists ln.
    destruct rest as [|c rest].
    - rewrite join_good in H by (constructor; [exact Hl | constructor]).
      destruct (create_leaf_spec d ln [] s t pl st1 res st' Hc1 H) as (F & M & R).
      split; [exact Hl|]. split; [exact HG|]. split; [eapply sframe_trans; eassumption|].
      split; [exact R|]. rewrite M. auto.
    - destruct (forall_good_split (c :: rest) ltac:(discriminate) Hgr) as [Hmid Hlast].
      set (mids := removelast (c :: rest)) in *. set (lst := last (c :: rest) []) in *.
      rewrite (join_good (ln :: mids)) in H by (constructor; assumption).
      destruct (do_create_directory (d ++ ln :: mids) st1) as [ok st2] eqn:Ed.
      destruct (do_create_directory_spec d ln mids st1 ok st2 Hc1 Ed) as (F12 & M12 & _).
      destruct ok.
      + rewrite join_good in H by (constructor; [exact Hlast | constructor]).
        rewrite <- app_assoc in H. cbn [app] in H.
        assert (Hc2 : chain (st_fs st2) d) by (eapply chain_sframe; eassumption).
        destruct (create_leaf_spec d ln (mids ++ [lst]) s t pl st2 res st' Hc2 H) as (F & M & R).
        split; [exact Hl|]. split; [exact HG|].
        split; [eapply sframe_trans; [exact F01|]; eapply sframe_trans; eassumption|].
        split; [exact R|]. rewrite M, M12. auto.
      + inversion H; subst.
        split; [exact Hl|]. split; [exact HG|]. split; [eapply sframe_trans; eassumption|].
        split; [intros ? Hx; discriminate Hx|]. rewrite M12. auto.
  Qed.

  Lemma create_file_spec ck cfg d nm t pl st res st' :
    chk_create_file ck = true -> chain (st_fs st) d ->
    (overwrite cfg = true -> forall n, G n) ->
    (overwrite cfg = false -> forall n, stat (st_fs st) (d ++ [n]) = SNotExist -> G n) ->
    create_file ck cfg d nm t pl st = (res, st') ->
    (st' = st /\ res = NErr) \/
    exists ln, good ln /\ G ln /\ sframe (under d ln) st st' /\ (forall ln', res = NOk ln' -> ln' = ln) /\
      st_map st' = st_map st.
  Proof.
    intros Hck Hc Hover Hfresh. unfold create_file. rewrite Hck. cbn [andb].
    destruct (valid_name nm) eqn:Ev; cbn [negb]; [|intro H; inversion H; left; auto].
    apply valid_name_good in Ev.
    assert (Hch : (if overwrite cfg then Some nm else get_new_name (st_fs st) d nm) = None \/
              exists ln, (if overwrite cfg then Some nm else get_new_name (st_fs st) d nm) = Some ln /\ good ln /\ G ln).
    { destruct (overwrite cfg) eqn:Eo; [right; exists nm; auto|].
      destruct (get_new_name (st_fs st) d nm) as [ln|] eqn:En; [|left; reflexivity].
      destruct (get_new_name_good _ _ _ _ Ev En) as [Hl Hs]. right. exists ln. auto. }
    destruct Hch as [->|(ln & -> & Hl & HG)]; [intro H; inversion H; left; auto|].
    rewrite join_good by (constructor; [exact Hl | constructor]).
    destruct (do_create_file (d ++ [ln]) t pl st) as [ok st1] eqn:E. intro H.
    destruct (do_create_file_spec (under d ln) _ _ _ _ _ _ E) as (F & M & _); [exists []; reflexivity|].
    right. exists ln. destruct ok; inversion H; subst;
      (split; [exact Hl | split; [exact HG | split; [exact F | split; [intros ln' Hx; congruence | exact M]]]]).
  Qed.

  Variable decode : list N -> option src.

  (* one message: either refused without any effect, or everything it does lies under
     dest/ln for one clean name ln that satisfies G *)
  Lemma step_spec ck cfg d m st res st' :
    chk_unmarshal ck = true -> chk_create_file ck = true ->
    chain (st_fs st) d -> map_ok (st_map st) ->
    (overwrite cfg = true -> forall n, G n) ->
    (overwrite cfg = false -> forall n, stat (st_fs st) (d ++ [n]) = SNotExist -> G n) ->
    step decode ck cfg d m st = (res, st') ->
    (st' = st /\ res = NErr) \/
    exists ln, good ln /\ G ln /\ sframe (under d ln) st st' /\ (forall ln', res = NOk ln' -> ln' = ln) /\
      map_ok (st_map st') /\
      (forall id v, map_get (st_map st) id = Some v -> map_get (st_map st') id = Some v) /\
      (overwrite cfg = false -> forall s, msg_src decode cfg m = Some s -> map_get (st_map st') (s_id s) = Some ln).
  Proof.
    intros Hu Hcf Hc Hm Hover Hfresh.
    assert (HJ : forall dd t pl, recv_json ck cfg d dd t pl st = (res, st') ->
      (st' = st /\ res = NErr) \/
      exists ln, good ln /\ G ln /\ sframe (under d ln) st st' /\ (forall ln', res = NOk ln' -> ln' = ln) /\
        map_ok (st_map st') /\
        (forall id v, map_get (st_map st) id = Some v -> map_get (st_map st') id = Some v) /\
        (overwrite cfg = false -> forall s, dd = Some s -> map_get (st_map st') (s_id s) = Some ln)).
    { intros dd t pl. unfold recv_json. destruct dd as [s|]; [|intro H; inversion H; left; auto].
      destruct (s_rel s) as [|r0 rest]; [intro H; inversion H; left; auto|].
      rewrite Hu. cbn [andb]. destruct (forallb valid_name (r0 :: rest)) eqn:Ev; cbn [negb];
        [|intro H; inversion H; left; auto].
      apply forallb_valid_good in Ev. intro H.
      destruct (cdof_spec cfg d s r0 rest t pl st res st' Hc Ev Hm Hover Hfresh H) as [?|(ln & A & B & C & D & E & F & K & _)];
        [left; assumption|]. right. exists ln. repeat (split; [assumption|]).
      intros Ho s' Hs'. inversion Hs'; subst s'. apply K. exact Ho. }
    unfold step, msg_src. destruct m as [raw pl|raw pl].
    - destruct (v3 cfg); [cbn [orb]; apply HJ|]. destruct (directory cfg); [cbn [orb]; apply HJ|].
      intro H. destruct (create_file_spec ck cfg d raw true pl st res st' Hcf Hc Hover Hfresh H)
        as [?|(ln & A & B & C & D & E)]; [left; assumption|].
      right. exists ln. rewrite E. repeat (split; [assumption|]). split; [auto|]. cbn [orb]. intros _ s' Hs'; discriminate Hs'.
    - apply HJ.
  Qed.
End Step.

(* ---------- the whole receive ---------- *)
Lemma frame_trans (P : path -> Prop) f f1 f2 es1 es2 : frame P f f1 es1 -> frame P f1 f2 es2 -> frame P f f2 (es1 ++ es2).
Proof.
  intros [A1 A2] [B1 B2]. split; [intros q Hq; rewrite B1, A1; auto|].
  intros e He. apply in_app_or in He as [He|He]; auto.
Qed.

Section Run.
  Variables (decode : list N -> option src) (ck : checks) (cfg : config) (d : path) (f0 : fs) (G : name -> Prop).
  Hypothesis Hu : chk_unmarshal ck = true.
  Hypothesis Hcf : chk_create_file ck = true.

  (* below a top-level name of the destination that satisfies G *)
  Definition underG (q : path) : Prop := exists ln r, q = d ++ ln :: r /\ G ln.

  Definition Inv (st : state) : Prop :=
    chain (st_fs st) d /\
    (forall q, ~ underG q -> lookup (st_fs st) q = lookup f0 q) /\
    (forall e, In e (st_log st) -> underG (effect_path e)) /\
    (forall c, In c (st_created st) -> underG c) /\
    map_ok G (st_map st).

  Hypothesis Hover : overwrite cfg = true -> forall n, G n.
  Hypothesis Hfresh : overwrite cfg = false -> forall st n, Inv st ->
    stat (st_fs st) (d ++ [n]) = SNotExist -> G n.

  Lemma underG_not_prefix a b : d = a ++ b -> ~ underG a.
  Proof. intros Hab (ln & r & Hq & _). apply (under_not_prefix d ln a b Hab). exists r. exact Hq. Qed.

  Lemma sframe_inv st st' ln : G ln -> Inv st -> sframe (under d ln) st st' -> map_ok G (st_map st') -> Inv st'.
  Proof.
    intros HG (I1 & I2 & I3 & I4 & I5) F Hm.
    assert (HU : forall q, under d ln q -> underG q) by (intros q [r Hr]; exists ln, r; auto).
    pose proof (chain_sframe d ln st st' I1 F) as Hc.
    destruct F as (F1 & (es & F2 & F3) & (cs & F4 & F5)).
    split; [exact Hc|]. split; [|split; [|split; [|exact Hm]]].
    - intros q Hq. rewrite F1; [apply I2; exact Hq | intro Hx; apply Hq; apply HU; exact Hx].
    - intros e He. rewrite F2 in He. apply in_app_or in He as [He|He]; [apply I3; exact He | apply HU, F3; exact He].
    - intros c Hin. rewrite F4 in Hin. apply in_app_or in Hin as [Hin|Hin]; [apply I4; exact Hin | apply HU, F5; exact Hin].
  Qed.

  Lemma step_inv m st res st' : Inv st -> step decode ck cfg d m st = (res, st') ->
    Inv st' /\
    ((st' = st /\ res = NErr) \/
     exists ln, good ln /\ G ln /\ sframe (under d ln) st st' /\ (forall ln', res = NOk ln' -> ln' = ln) /\
       (forall id v, map_get (st_map st) id = Some v -> map_get (st_map st') id = Some v) /\
       (overwrite cfg = false -> forall s, msg_src decode cfg m = Some s -> map_get (st_map st') (s_id s) = Some ln)).
  Proof.
    intros HI H. pose proof HI as (I1 & I2 & I3 & I4 & I5).
    destruct (step_spec G decode ck cfg d m st res st' Hu Hcf I1 I5 Hover) as [[-> ->]|(ln & A & B & C & D & E & F & K)];
      [intros Ho n Hs; apply (Hfresh Ho st n HI Hs) | exact H | split; [exact HI | left; auto] |].
    split; [eapply sframe_inv; eassumption|]. right. exists ln. repeat (split; [assumption|]). assumption.
  Qed.

  Lemma recv_msgs_inv : forall ms st rs st', Inv st -> recv_msgs decode ck cfg d ms st = (rs, st') -> Inv st'.
  Proof.
    induction ms as [|m ms IH]; intros st rs st' HI H; cbn [recv_msgs] in H; [inversion H; subst; exact HI|].
    destruct (step decode ck cfg d m st) as [r st1] eqn:E1.
    destruct (recv_msgs decode ck cfg d ms st1) as [rs1 st2] eqn:E2. inversion H; subst.
    destruct (step_inv m st r st1 HI E1) as [HI1 _]. eapply IH; eassumption.
  Qed.

  Lemma delete_paths_frame : forall ps f f' es dl, (forall p, In p ps -> underG p) ->
    delete_paths ps f = (f', es, dl) -> frame underG f f' es.
  Proof.
    induction ps as [|p ps IH]; intros f f' es dl Hps H; cbn [delete_paths] in H.
    - inversion H; subst. split; [reflexivity | intros ? []].
    - assert (Hrest : forall q, In q ps -> underG q) by (intros q Hq; apply Hps; right; exact Hq).
      destruct (stat f p) as [nd| |]; try (eapply IH; eassumption).
      destruct (remove_all f p) as [f1 es1] eqn:Er.
      destruct (delete_paths ps f1) as [[f2 es2] dl2] eqn:Ed. inversion H; subst.
      apply remove_all_frame in Er. eapply frame_trans; [|eapply IH; eassumption].
      eapply frame_weaken; [|exact Er]. cbn beta. intros q Hq.
      apply is_prefix_spec in Hq as [r ->]. destruct (Hps p (or_introl eq_refl)) as (ln & r0 & -> & HG).
      exists ln, (r0 ++ r). split; [|exact HG]. rewrite <- app_assoc. reflexivity.
  Qed.

  Lemma delete_inv st st' dl : Inv st -> delete_created st = (st', dl) -> Inv st'.
  Proof.
    intros (I1 & I2 & I3 & I4 & I5). unfold delete_created.
    destruct (delete_paths (st_created st) (st_fs st)) as [[f' es] dl'] eqn:E. intro H; inversion H; subst; clear H.
    apply delete_paths_frame in E; [|exact I4].
    split; [|split; [|split; [|split]]]; cbn.
    - eapply chain_frame; [exact I1 | exact E |]. intros a b Hab. apply (underG_not_prefix a b Hab).
    - destruct E as [E1 _]. intros q Hq. rewrite E1; auto.
    - destruct E as [_ E2]. intros e He. apply in_app_or in He as [He|He]; auto.
    - exact I4.
    - exact I5.
  Qed.

  Lemma skipn_app_exact {A} (a b : list A) : skipn (length a) (a ++ b) = b.
  Proof. induction a; [reflexivity | exact IHa]. Qed.

  (* per message: its effects lie under ONE clean top-level name satisfying G, which is the
     name returned when the message is accepted *)
  Definition msg_ok (re : result * list effect) : Prop :=
    snd re = [] \/
    exists ln, good ln /\ G ln /\ (forall e, In e (snd re) -> under d ln (effect_path e)) /\
               (forall ln', fst re = NOk ln' -> ln' = ln).

  Lemma recv_msgs_results : forall ms st rs st', Inv st -> recv_msgs decode ck cfg d ms st = (rs, st') ->
    Forall msg_ok rs.
  Proof.
    induction ms as [|m ms IH]; intros st rs st' HI H; cbn [recv_msgs] in H; [inversion H; constructor|].
    destruct (step decode ck cfg d m st) as [r st1] eqn:E1.
    destruct (recv_msgs decode ck cfg d ms st1) as [rs1 st2] eqn:E2. inversion H; subst.
    destruct (step_inv m st r st1 HI E1) as [HI1 Hs]. constructor; [|eapply IH; eassumption].
    destruct Hs as [[-> _]|(ln & A & B & (_ & (es & C1 & C2) & _) & D & _)].
    - left. cbn. rewrite <- (app_nil_r (st_log st)) at 2. apply skipn_app_exact.
    - right. exists ln. cbn. rewrite C1, skipn_app_exact. auto.
  Qed.

  (* fileNameMap: entries persist, and an accepted JSON record got the name its path id maps to *)
  Lemma recv_msgs_ids : overwrite cfg = false -> forall ms st rs st', Inv st ->
    recv_msgs decode ck cfg d ms st = (rs, st') ->
    (forall id v, map_get (st_map st) id = Some v -> map_get (st_map st') id = Some v) /\
    (forall m r es ln s, In (m, (r, es)) (combine ms rs) -> r = NOk ln -> msg_src decode cfg m = Some s ->
       map_get (st_map st') (s_id s) = Some ln).
  Proof.
    intro Ho. induction ms as [|m ms IH]; intros st rs st' HI H; cbn [recv_msgs] in H.
    - inversion H; subst. split; [auto | intros ? ? ? ? ? []].
    - destruct (step decode ck cfg d m st) as [r st1] eqn:E1.
      destruct (recv_msgs decode ck cfg d ms st1) as [rs1 st2] eqn:E2. inversion H; subst.
      destruct (step_inv m st r st1 HI E1) as [HI1 Hs]. destruct (IH st1 rs1 st' HI1 E2) as [P1 P2].
      assert (Hpers : forall id v, map_get (st_map st) id = Some v -> map_get (st_map st1) id = Some v).
      { destruct Hs as [[-> _]|(ln & _ & _ & _ & _ & Pm & _)]; auto. }
      split; [intros id v Hv; apply P1, Hpers, Hv|].
      intros m0 r0 es0 ln0 s0 Hin Hr Hsrc. cbn [combine] in Hin. destruct Hin as [Hin|Hin]; [|eapply P2; eassumption].
      inversion Hin; subst. destruct Hs as [[_ Hx]|(ln & _ & _ & _ & D & _ & K)]; [discriminate Hx|].
      rewrite (D ln0 eq_refl). apply P1. apply K; assumption.
  Qed.

  (* a top-level name that appears was the local name of one of the messages *)
  Lemma recv_msgs_new_names n : forall ms st rs st', Inv st -> recv_msgs decode ck cfg d ms st = (rs, st') ->
    lookup (st_fs st) (d ++ [n]) = None -> lookup (st_fs st') (d ++ [n]) <> None ->
    exists re, In re rs /\ (forall ln', fst re = NOk ln' -> ln' = n) /\ G n.
  Proof.
    induction ms as [|m ms IH]; intros st rs st' HI H Hn Hp; cbn [recv_msgs] in H; [inversion H; subst; contradiction|].
    destruct (step decode ck cfg d m st) as [r st1] eqn:E1.
    destruct (recv_msgs decode ck cfg d ms st1) as [rs1 st2] eqn:E2. inversion H; subst.
    destruct (step_inv m st r st1 HI E1) as [HI1 Hs].
    assert (Hnext : lookup (st_fs st1) (d ++ [n]) = None -> exists re, In re ((r, skipn (length (st_log st)) (st_log st1)) :: rs1) /\
              (forall ln', fst re = NOk ln' -> ln' = n) /\ G n).
    { intro Hn1. destruct (IH st1 rs1 st' HI1 E2 Hn1 Hp) as (re & Hin & Hre). exists re. split; [right; exact Hin | exact Hre]. }
    destruct Hs as [[-> _]|(ln & _ & B & (C & _) & D & _)]; [apply Hnext; exact Hn|].
    destruct (list_eq_dec N.eq_dec ln n) as [->|Hne].
    - exists (r, skipn (length (st_log st)) (st_log st1)). split; [left; reflexivity | split; [exact D | exact B]].
    - apply Hnext. rewrite C; [exact Hn|]. intros [r0 Hr0]. apply app_inv_head in Hr0. inversion Hr0. congruence.
  Qed.

  Theorem run_inv ms del : Inv (init_state f0) ->
    Inv (o_mid (recv_names_gen decode ck cfg d ms del f0)) /\ Inv (o_final (recv_names_gen decode ck cfg d ms del f0)).
  Proof.
    intro H0. unfold recv_names_gen.
    destruct (recv_msgs decode ck cfg d ms (init_state f0)) as [rs st1] eqn:E.
    pose proof (recv_msgs_inv ms _ rs st1 H0 E) as H1.
    destruct del; [|split; exact H1].
    destruct (delete_created st1) as [st2 dl] eqn:Ed. cbn. split; [exact H1|]. eapply delete_inv; eassumption.
  Qed.
End Run.

Lemma init_inv d f0 (G : name -> Prop) : stat f0 d = SFound Dir -> Inv d f0 G (init_state f0).
Proof.
  intro H. split; [apply stat_dir_chain; exact H|]. split; [reflexivity|].
  split; [intros ? []|]. split; [intros ? []|]. intros id v Hv. discriminate Hv.
Qed.

(* ---------- C09 ---------- *)
Theorem confined decode cfg d f0 ms del : stat f0 d = SFound Dir ->
  forall e, In e (st_log (o_final (recv_names decode cfg d ms del f0))) -> inside d (effect_path e) = true.
Proof.
  intros Hd e He. destruct code_checks_on as [Hu Hcf].
  destruct (run_inv decode code_checks cfg d f0 (fun _ => True) Hu Hcf (fun _ _ => I) (fun _ _ _ _ _ => I) ms del
              (init_inv d f0 _ Hd)) as [_ (_ & _ & I3 & _)].
  destruct (I3 e He) as (ln & r & -> & _). apply inside_spec. exists ln, r. reflexivity.
Qed.

(* the recorded paths (what deleteCreatedFiles will remove) are inside as well *)
Theorem created_confined decode cfg d f0 ms del : stat f0 d = SFound Dir ->
  forall p, In p (st_created (o_final (recv_names decode cfg d ms del f0))) -> inside d p = true.
Proof.
  intros Hd p Hp. destruct code_checks_on as [Hu Hcf].
  destruct (run_inv decode code_checks cfg d f0 (fun _ => True) Hu Hcf (fun _ _ => I) (fun _ _ _ _ _ => I) ms del
              (init_inv d f0 _ Hd)) as [_ (_ & _ & _ & I4 & _)].
  destruct (I4 p Hp) as (ln & r & -> & _). apply inside_spec. exists ln, r. reflexivity.
Qed.

(* nothing outside the destination changes *)
Theorem outside_unchanged decode cfg d f0 ms del : stat f0 d = SFound Dir ->
  forall q, inside d q = false -> lookup (st_fs (o_final (recv_names decode cfg d ms del f0))) q = lookup f0 q.
Proof.
  intros Hd q Hq. destruct code_checks_on as [Hu Hcf].
  destruct (run_inv decode code_checks cfg d f0 (fun _ => True) Hu Hcf (fun _ _ => I) (fun _ _ _ _ _ => I) ms del
              (init_inv d f0 _ Hd)) as [_ (_ & I2 & _)].
  apply I2. intros (ln & r & -> & _). assert (inside d (d ++ ln :: r) = true) by (apply inside_spec; eauto). congruence.
Qed.

Theorem reject_or_harmless decode cfg d st :
  (forall nm pl, hostile nm -> v3 cfg = false -> directory cfg = false ->
     step decode code_checks cfg d (MName nm pl) st = (NErr, st)) /\
  (forall raw s pl, decode raw = Some s -> (exists n, In n (s_rel s) /\ hostile n) ->
     (v3 cfg = true \/ directory cfg = true -> step decode code_checks cfg d (MName raw pl) st = (NErr, st)) /\
     step decode code_checks cfg d (MEntry raw pl) st = (NErr, st)).
Proof.
  destruct code_checks_on as [Hu Hcf]. split.
  - intros nm pl Hh H3 Hdir. unfold step. rewrite H3, Hdir. unfold create_file.
    rewrite Hcf, (hostile_invalid nm Hh). reflexivity.
  - intros raw s pl Hdec (n & Hin & Hh).
    assert (HJ : forall t, recv_json code_checks cfg d (Some s) t pl st = (NErr, st)).
    { intro t. unfold recv_json. destruct (s_rel s) as [|r0 rest] eqn:Er; [reflexivity|]. rewrite Hu.
      assert (Hf : forallb valid_name (r0 :: rest) = false).
      { destruct (forallb valid_name (r0 :: rest)) eqn:Ef; [|reflexivity].
        rewrite forallb_forall in Ef. specialize (Ef n Hin).
        rewrite (hostile_invalid n Hh) in Ef. discriminate Ef. }
      rewrite Hf. reflexivity. }
    split.
    + intros Hmode. unfold step. rewrite Hdec. destruct (v3 cfg); [apply HJ|].
      destruct (directory cfg); [apply HJ|]. destruct Hmode; discriminate.
    + unfold step. rewrite Hdec. apply HJ.
Qed.

(* ---------- the code before checkFileName: refuted ---------- *)
Definition ex_dest : path := [[100]].                                   (* /d *)
Definition ex_fs : fs := [([[100]], Dir); ([[120]], File [1; 2; 3])].  (* /d and /x *)
Definition ex_dec (s : src) : list N -> option src := fun _ => Some s.
Definition dd : name := [dot; dot].

Theorem unfixed_refuted :
  exists decode cfg d f0 ms del, stat f0 d = SFound Dir /\
    exists e, In e (st_log (o_final (recv_names_unfixed decode cfg d ms del f0))) /\ inside d (effect_path e) = false.
Proof.
  exists (fun _ => None), {| overwrite := true; directory := false; v3 := false |}, ex_dest, ex_fs,
    [MName [dot; dot; slash; 120] [9]], false.
  split; [reflexivity|]. exists (ETrunc [[120]]). split; vm_compute; auto.
Qed.

(* the three confirmed inputs: "../x" as a plain name, ["..","x"] and ["a","..","..","x"] as
   JSON path lists; overwrite on; each truncates /x, which is outside /d *)
Lemma unfixed_witnesses :
  let cfgp := {| overwrite := true; directory := false; v3 := false |} in
  let cfgj := {| overwrite := true; directory := true; v3 := false |} in
  let s1 := {| s_id := 0; s_rel := [dd; [120]]; s_isdir := false; s_archive := false |} in
  let s2 := {| s_id := 0; s_rel := [[97]; dd; dd; [120]]; s_isdir := false; s_archive := false |} in
  st_log (o_final (recv_names_unfixed (fun _ => None) cfgp ex_dest [MName [dot; dot; slash; 120] [9]] false ex_fs)) = [ETrunc [[120]]] /\
  st_log (o_final (recv_names_unfixed (ex_dec s1) cfgj ex_dest [MName [] [9]] false ex_fs)) = [ETrunc [[120]]] /\
  st_log (o_final (recv_names_unfixed (ex_dec s2) cfgj ex_dest [MName [] [9]] false ex_fs)) = [ETrunc [[120]]] /\
  (* overwrite off: "../x" becomes "../x.0", created outside *)
  st_log (o_final (recv_names_unfixed (fun _ => None) {| overwrite := false; directory := false; v3 := false |}
                     ex_dest [MName [dot; dot; slash; 120] [9]] false ex_fs)) = [ECreate [[120; dot; 48]]] /\
  inside ex_dest [[120]] = false /\ inside ex_dest [[120; dot; 48]] = false.
Proof. vm_compute. repeat split. Qed.

(* ---------- C07 ---------- *)
(* every entry has its parent directory in the list (the root needs no entry) *)
Definition parent_closedb (f : fs) : bool :=
  forallb (fun kv => match removelast (fst kv) with
                     | [] => true
                     | par => match lookup f par with Some Dir => true | _ => false end
                     end) f.

Lemma lookup_in f p nd : lookup f p = Some nd -> In (p, nd) f.
Proof.
  induction f as [|[k n] f IH]; cbn [lookup]; [discriminate|].
  destruct (path_eqb k p) eqn:E; [|intro H; right; apply IH; exact H].
  apply path_eqb_eq in E. subst k. intro H; inversion H; subst. left; reflexivity.
Qed.

Lemma parent_closed_step f a c nd : parent_closedb f = true -> a <> [] -> lookup f (a ++ [c]) = Some nd ->
  lookup f a = Some Dir.
Proof.
  intros Hpc Ha Hl. apply lookup_in in Hl. unfold parent_closedb in Hpc. rewrite forallb_forall in Hpc.
  specialize (Hpc _ Hl). cbn [fst] in Hpc. rewrite removelast_last in Hpc.
  destruct a as [|x a]; [congruence|]. destruct (lookup f (x :: a)) as [[|]|]; congruence.
Qed.

Lemma parent_closed_prefix f a : parent_closedb f = true -> a <> [] -> forall r, lookup f (a ++ r) <> None ->
  lookup f a <> None.
Proof.
  intros Hpc Ha r. induction r as [|c r IH] using rev_ind; [rewrite app_nil_r; auto|].
  intro H. apply IH. destruct (lookup f (a ++ r ++ [c])) as [nd|] eqn:E; [|congruence].
  rewrite app_assoc in E. rewrite (parent_closed_step f (a ++ r) c nd Hpc); [discriminate | destruct a; [congruence | discriminate] | exact E].
Qed.

Section Fresh.
  Variables (decode : list N -> option src) (cfg : config) (d : path) (f0 : fs).
  Hypothesis Ho : overwrite cfg = false.
  Hypothesis Hd : stat f0 d = SFound Dir.

  (* top-level names of the destination that did not exist before the transfer *)
  Definition G0 (n : name) : Prop := lookup f0 (d ++ [n]) = None.

  Lemma G0_over : overwrite cfg = true -> forall n, G0 n.
  Proof. rewrite Ho. discriminate. Qed.

  Lemma G0_fresh : overwrite cfg = false -> forall st n, Inv d f0 G0 st ->
    stat (st_fs st) (d ++ [n]) = SNotExist -> G0 n.
  Proof.
    intros _ st n (I1 & I2 & _) Hs. apply (stat_notexist_lookup _ _ _ I1) in Hs.
    unfold G0. destruct (lookup f0 (d ++ [n])) as [nd|] eqn:E; [|reflexivity].
    rewrite I2 in Hs; [congruence|]. intros (ln & r & Hq & HG). apply app_inv_head in Hq.
    inversion Hq; subst. unfold G0 in HG. congruence.
  Qed.

  Lemma existing_not_own p : parent_closedb f0 = true -> lookup f0 p <> None -> ~ underG d G0 p.
  Proof.
    intros Hpc Hp (ln & r & -> & HG). unfold G0 in HG.
    apply (parent_closed_prefix f0 (d ++ [ln]) Hpc) with (r := r); [destruct d; discriminate | | exact HG].
    rewrite <- app_assoc. exact Hp.
  Qed.

  Let o ms del := recv_names decode cfg d ms del f0.

  Lemma fresh_inv ms del : Inv d f0 G0 (o_mid (o ms del)) /\ Inv d f0 G0 (o_final (o ms del)).
  Proof.
    destruct code_checks_on as [Hu Hcf].
    apply (run_inv decode code_checks cfg d f0 G0 Hu Hcf G0_over G0_fresh ms del (init_inv d f0 _ Hd)).
  Qed.

  Theorem preserves ms del : parent_closedb f0 = true -> forall p nd, lookup f0 p = Some nd ->
    lookup (st_fs (o_final (o ms del))) p = Some nd /\
    (forall e, In e (st_log (o_final (o ms del))) -> effect_path e <> p).
  Proof.
    intros Hpc p nd Hp. destruct (fresh_inv ms del) as [_ (_ & I2 & I3 & _)].
    assert (Hno : ~ underG d G0 p) by (apply existing_not_own; [exact Hpc | congruence]).
    split; [rewrite I2; assumption|]. intros e He Heq. apply Hno. rewrite <- Heq. apply I3. exact He.
  Qed.

  Lemma results_eq ms del : recv_msgs decode code_checks cfg d ms (init_state f0) = (o_results (o ms del), o_mid (o ms del)).
  Proof.
    unfold o, recv_names, recv_names_gen. destruct (recv_msgs decode code_checks cfg d ms (init_state f0)) as [rs st1].
    destruct del; [destruct (delete_created st1)|]; reflexivity.
  Qed.

  (* every message's effects lie under one clean top-level name that did not exist before;
     an accepted message returns that name *)
  Theorem consistent_effects ms del : forall r es, In (r, es) (o_results (o ms del)) ->
    es = [] \/ exists ln, good ln /\ lookup f0 (d ++ [ln]) = None /\
      (forall e, In e es -> exists rest, effect_path e = d ++ ln :: rest) /\ (forall ln', r = NOk ln' -> ln' = ln).
  Proof.
    intros r es Hin. destruct code_checks_on as [Hu Hcf].
    pose proof (recv_msgs_results decode code_checks cfg d f0 G0 Hu Hcf G0_over G0_fresh ms _ _ _ (init_inv d f0 _ Hd) (results_eq ms del)) as HF.
    rewrite Forall_forall in HF. exact (HF _ Hin).
  Qed.

  (* one name per path id: every accepted JSON record (NAME message or archive entry) got the
     name the final fileNameMap has for its path id *)
  Theorem consistent_ids ms del : forall m r es ln s,
    In (m, (r, es)) (combine ms (o_results (o ms del))) -> r = NOk ln -> msg_src decode cfg m = Some s ->
    map_get (st_map (o_mid (o ms del))) (s_id s) = Some ln.
  Proof.
    destruct code_checks_on as [Hu Hcf].
    destruct (recv_msgs_ids decode code_checks cfg d f0 G0 Hu Hcf G0_over G0_fresh Ho ms _ _ _ (init_inv d f0 _ Hd) (results_eq ms del)) as [_ H].
    exact H.
  Qed.

  (* every top-level name of the destination that is new after the messages was returned
     for one of them (all accepted) *)
  Theorem consistent_names ms del : (forall r es, In (r, es) (o_results (o ms del)) -> r <> NErr) ->
    forall n, lookup f0 (d ++ [n]) = None -> lookup (st_fs (o_mid (o ms del))) (d ++ [n]) <> None ->
    exists es, In (NOk n, es) (o_results (o ms del)).
  Proof.
    intros Hall n Hn Hp. destruct code_checks_on as [Hu Hcf].
    destruct (recv_msgs_new_names decode code_checks cfg d f0 G0 Hu Hcf G0_over G0_fresh n ms _ _ _ (init_inv d f0 _ Hd)
                (results_eq ms del) Hn Hp) as ([r es] & Hin & Hr & _).
    exists es. cbn [fst] in Hr. destruct r as [ln|]; [|exfalso; eapply Hall; [exact Hin | reflexivity]].
    rewrite (Hr ln eq_refl) in Hin. exact Hin.
  Qed.

  (* and a returned name is always one that did not exist before *)
  Theorem returned_fresh ms del : forall n es, In (NOk n, es) (o_results (o ms del)) -> es <> [] ->
    lookup f0 (d ++ [n]) = None.
  Proof.
    intros n es Hin Hne. destruct (consistent_effects ms del _ _ Hin) as [->|(ln & _ & HG & _ & Hr)]; [congruence|].
    rewrite (Hr n eq_refl). exact HG.
  Qed.
End Fresh.

(* getNewName fails, and createFile with it, without touching anything *)
Theorem exhausted_no_effect decode cfg d nm pl st :
  overwrite cfg = false -> v3 cfg = false -> directory cfg = false ->
  (forall c, In c (candidates nm) -> stat (st_fs st) (join d [c]) <> SNotExist) ->
  get_new_name (st_fs st) d nm = None /\ step decode code_checks cfg d (MName nm pl) st = (NErr, st).
Proof.
  intros Ho H3 Hdir H. pose proof (exhausted _ _ _ H) as E. split; [exact E|].
  unfold step. rewrite H3, Hdir. unfold create_file. rewrite Ho, E.
  destruct (chk_create_file code_checks && negb (valid_name nm)); reflexivity.
Qed.

(* the candidate list is name, name.0, ..., name.999 in this order *)
Lemma candidates_shape : length (candidates [120]) = 1001%nat /\
  firstn 4 (candidates [120]) = [[120]; [120; 46; 48]; [120; 46; 49]; [120; 46; 50]] /\
  nth 11 (candidates [120]) [] = [120; 46; 49; 48] /\
  nth 1000 (candidates [120]) [] = [120; 46; 57; 57; 57].
Proof. vm_compute. repeat split. Qed.

(* decimal is Coq's own decimal printer on every index getNewName uses *)
Fixpoint uint_bytes (u : Decimal.uint) : list N :=
  match u with
  | Decimal.Nil => []
  | Decimal.D0 u => 48 :: uint_bytes u | Decimal.D1 u => 49 :: uint_bytes u | Decimal.D2 u => 50 :: uint_bytes u
  | Decimal.D3 u => 51 :: uint_bytes u | Decimal.D4 u => 52 :: uint_bytes u | Decimal.D5 u => 53 :: uint_bytes u
  | Decimal.D6 u => 54 :: uint_bytes u | Decimal.D7 u => 55 :: uint_bytes u | Decimal.D8 u => 56 :: uint_bytes u
  | Decimal.D9 u => 57 :: uint_bytes u
  end.

Lemma decimal_matches_stdlib : forall i, (i < N.to_nat names_max_tries)%nat ->
  decimal (N.of_nat i) = uint_bytes (N.to_uint (N.of_nat i)).
Proof.
  assert (H : forallb (fun i => list_eqb (decimal (N.of_nat i)) (uint_bytes (N.to_uint (N.of_nat i))))
                (seq 0 (N.to_nat names_max_tries)) = true) by (vm_compute; reflexivity).
  rewrite forallb_forall in H. intros i Hi. apply list_eqb_eq. apply H. apply in_seq. lia.
Qed.

(* ---------- the fresh name is a function of the validated name and the counter only ---------- *)
(* whatever bytes the name consists of ('%' and fmt verbs included): the name itself or
   name "." decimal(i) with i below the number of tries, and again a single clean path element *)
Theorem fresh_name_form f d nm ln : valid_name nm = true -> get_new_name f d nm = Some ln ->
  good ln /\ (ln = nm \/ exists i, (i < N.to_nat names_max_tries)%nat /\ ln = nm ++ [dot] ++ decimal (N.of_nat i) /\
                                  Forall digit (decimal (N.of_nat i))).
Proof.
  intros Hv H. pose proof (valid_name_good nm Hv) as Hg.
  destruct (get_new_name_good f d nm ln Hg H) as [Hl _]. split; [exact Hl|].
  apply fresh_shape in H as (_ & pre & post & E & _ & _).
  assert (Hin : In ln (candidates nm)) by (rewrite E; apply in_or_app; right; left; reflexivity).
  unfold candidates in Hin. destruct Hin as [<-|Hin]; [left; reflexivity|]. right.
  unfold numbered in Hin. apply in_map_iff in Hin as (j & <- & Hj). apply in_seq in Hj.
  exists j. split; [lia|]. rewrite N.add_0_l. split; [reflexivity | apply decimal_spec].
Qed.

(* ---------- exhaustion of the series fails, a gap is used ---------- *)
(* JSON path lists / directories / archive records: a record with a path id that has no name yet whose
   top-level name and all numbered alternatives are there is refused with the state unchanged *)
Theorem exhausted_no_effect_json decode cfg d m s r0 rest st :
  overwrite cfg = false -> msg_src decode cfg m = Some s -> s_rel s = r0 :: rest ->
  map_get (st_map st) (s_id s) = None ->
  (forall c, In c (candidates r0) -> stat (st_fs st) (join d [c]) <> SNotExist) ->
  step decode code_checks cfg d m st = (NErr, st).
Proof.
  intros Ho Hsrc Hrel Hmap Hex. pose proof (exhausted _ _ _ Hex) as E.
  assert (HJ : forall t pl, recv_json code_checks cfg d (Some s) t pl st = (NErr, st)).
  { intros t pl. unfold recv_json. rewrite Hrel.
    destruct (chk_unmarshal code_checks && negb (forallb valid_name (r0 :: rest))); [reflexivity|].
    unfold create_dir_or_file. rewrite Ho, Hmap, E. reflexivity. }
  unfold msg_src in Hsrc. unfold step. destruct m as [raw pl|raw pl].
  - destruct (v3 cfg); [cbn [orb] in Hsrc; rewrite Hsrc; apply HJ|].
    destruct (directory cfg); [cbn [orb] in Hsrc; rewrite Hsrc; apply HJ | discriminate Hsrc].
  - rewrite Hsrc. apply HJ.
Qed.

(* one gap anywhere in name, name.0, ..., name.(max-1): exactly the first gap is chosen *)
Theorem gap_used f d nm pre g post : name_len nm <= names_max_len ->
  candidates nm = pre ++ g :: post -> stat f (join d [g]) = SNotExist ->
  (forall c, In c pre -> stat f (join d [c]) <> SNotExist) ->
  get_new_name f d nm = Some g.
Proof.
  intros Hl E Hg Hpre. apply fresh_shape. split; [exact Hl|]. exists pre, post. auto.
Qed.
