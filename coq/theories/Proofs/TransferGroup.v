(* archiveSourceFiles as modelled ([tr_group], Model/Transfer.v): the items it makes stand for exactly
   the entries it was given - every entry is a member (the item itself or one of its SubFiles) of
   some item, and every member of an item is one of the entries. *)
From Coq Require Import ZArith Lia.
From Trzsz Require Import Base.Bytes Model.Path Model.Transfer.

Lemma with_subs_nil e : te_subs e = [] -> tr_with_subs e [] = e.
Proof. destruct e as [i r dd ch su]. cbn. intros ->. reflexivity. Qed.

Lemma filter_length_le {A} (f : A -> bool) l : (length (filter f l) <= length l)%nat.
Proof. induction l as [|x l IH]; cbn; [lia|]. destruct (f x); cbn; lia. Qed.

Lemma group_go_members : forall n ess, (length ess <= n)%nat -> (forall es, In es ess -> te_subs (fst es) = []) ->
  forall e, In e (map fst ess) <-> exists it, In it (map fst (tr_group_go n ess)) /\ In e (tr_members it).
Proof.
  induction n as [|n IH]; intros ess Hlen Hflat e.
  - destruct ess; [|cbn in Hlen; lia]. cbn. split; [intros [] | intros (it & [] & _)].
  - destruct ess as [|[e0 sc0] r]; [cbn; split; [intros [] | intros (it & [] & _)]|].
    cbn [tr_group_go map fst]. cbn [length] in Hlen.
    assert (H0 : te_subs e0 = []) by (apply (Hflat (e0, sc0)); left; reflexivity).
    set (same := filter (tr_same_id e0) r). set (other := filter (fun x => negb (tr_same_id e0 x)) r).
    assert (Hlo : (length other <= n)%nat) by (pose proof (filter_length_le (fun x => negb (tr_same_id e0 x)) r); unfold other; lia).
    assert (Hfo : forall es, In es other -> te_subs (fst es) = []).
    { intros es Hes. apply Hflat. right. apply filter_In in Hes. tauto. }
    assert (Hmem : tr_members (tr_with_subs e0 (te_subs e0 ++ map fst same)) = e0 :: map fst same).
    { unfold tr_members. cbn [te_subs tr_with_subs te_id te_rel te_isdir te_chunks]. rewrite H0. cbn [app].
      f_equal. apply (with_subs_nil e0 H0). }
    split.
    + intros [<-|Hin].
      * eexists. split; [left; reflexivity|]. rewrite Hmem. left; reflexivity.
      * apply in_map_iff in Hin as ([e1 sc1] & <- & Hin). cbn [fst]. destruct (tr_same_id e0 (e1, sc1)) eqn:Es.
        -- eexists. split; [left; reflexivity|]. rewrite Hmem. right. apply in_map_iff. exists (e1, sc1). split; [reflexivity|].
           apply filter_In. split; assumption.
        -- assert (Ho : In e1 (map fst other)).
           { apply in_map_iff. exists (e1, sc1). split; [reflexivity|]. apply filter_In. split; [exact Hin | rewrite Es; reflexivity]. }
           apply (IH other Hlo Hfo e1) in Ho as (it & Hit & Hm). exists it. split; [right; exact Hit | exact Hm].
    + intros (it & [<-|Hit] & Hm).
      * rewrite Hmem in Hm. destruct Hm as [<-|Hm]; [left; reflexivity|]. right.
        apply in_map_iff in Hm as (x & <- & Hx). apply in_map. apply filter_In in Hx. tauto.
      * right. assert (Ho : In e (map fst other)) by (apply (IH other Hlo Hfo e); eauto).
        apply in_map_iff in Ho as (x & <- & Hx). apply in_map. apply filter_In in Hx. tauto.
Qed.

(* every source entry is a member of an item sendFiles loops over, and nothing else is *)
Theorem group_members c ess : (forall es, In es ess -> te_subs (fst es) = []) ->
  forall e, In e (map fst ess) <-> exists it, In it (map fst (tr_group c ess)) /\ In e (tr_members it).
Proof.
  intros Hflat e. unfold tr_group. destruct (tr_archive_mode c); [apply group_go_members; [lia | exact Hflat]|].
  split.
  - intro Hin. exists e. split; [exact Hin|]. unfold tr_members. left.
    apply in_map_iff in Hin as (es & <- & Hes). apply with_subs_nil, Hflat, Hes.
  - intros (it & Hit & Hm). apply in_map_iff in Hit as (es & <- & Hes). unfold tr_members in Hm.
    rewrite (Hflat es Hes) in Hm. destruct Hm as [<-|[]]. rewrite (with_subs_nil _ (Hflat es Hes)). apply in_map, Hes.
Qed.

(* without the archive mode the list is left alone *)
Lemma group_plain c ess : tr_archive_mode c = false -> tr_group c ess = ess.
Proof. unfold tr_group. intros ->. reflexivity. Qed.
