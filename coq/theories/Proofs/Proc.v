(* Generic theorems about the process-network language of Model/Proc.v.
   A  (bounded):      in a cancelled world every step of a goroutine strictly decreases the
                      truncated measure, whatever the channels hold;
   B  (never stuck):  a reachable cancelled state of a well-formed net in which nothing can
                      move has every goroutine exited;
   A + B:             from a reachable cancelled state every execution has at most
                      [total g] steps, and where it stops every goroutine has exited. *)
From Coq Require Import List Arith Bool Lia.
Import ListNotations.
From Trzsz Require Import Model.Proc.

(* ------------------------------------------------------------------------------- *)
(* unfolding lemmas for the nested fixpoints *)

Lemma exitsS_branch a b : exitsS (Branch a b) = exitsL a && exitsL b.
Proof. reflexivity. Qed.
Lemma exitsS_sel cs : exitsS (Sel cs) = exitsC cs.
Proof.
  cbn [exitsS]. unfold exitsC.
  induction cs as [|[a bd] r IH]; [reflexivity|]. cbn [forallb snd]. rewrite <- IH. reflexivity.
Qed.
Lemma exitsC_in cs a bd : exitsC cs = true -> In (a, bd) cs -> exitsL bd = true.
Proof.
  unfold exitsC. intros H I. rewrite forallb_forall in H. exact (H _ I).
Qed.

Section MeasureLemmas.
Variable D : nat.
Lemma mS_branch a b : mS D (Branch a b) = 1 + mL D a + mL D b.
Proof. reflexivity. Qed.
Lemma mS_range c bd : mS D (LoopRange c bd) = 3 + mL D bd.
Proof. reflexivity. Qed.
Lemma mS_data bd : mS D (LoopData bd) = 2 + D * (1 + mL D bd).
Proof. reflexivity. Qed.
Lemma mS_ioe kd h : mS D (IoE kd h) = 1 + mL D h.
Proof. reflexivity. Qed.
Lemma mS_sel cs : mS D (Sel cs) = 1 + mC D cs.
Proof.
  cbn [mS]. f_equal. unfold mC.
  induction cs as [|[a bd] r IH]; [reflexivity|]. cbn [fold_right snd]. rewrite <- IH. reflexivity.
Qed.
Lemma mC_in cs a bd : In (a, bd) cs -> mL D bd <= mC D cs.
Proof.
  unfold mC. induction cs as [|c r IH]; intros I; [contradiction|].
  cbn [fold_right]. destruct I as [->|I]; [cbn [snd]; lia|]. specialize (IH I). lia.
Qed.

Lemma M_lift_app l k :
  M D (lift l ++ k) <= mL D l + (if exitsL l then 0 else M D k).
Proof.
  induction l as [|s l IH]; [cbn; lia|].
  unfold exitsL in *. cbn [lift map app M mI exitsI mL fold_right existsb].
  fold (lift l). fold (mL D l).
  destruct (exitsS s); cbn [orb]; [lia|].
  destruct (existsb exitsS l); lia.
Qed.
Lemma M_lift_app_le l k : M D (lift l ++ k) <= mL D l + M D k.
Proof. pose proof (M_lift_app l k). destruct (exitsL l); lia. Qed.
End MeasureLemmas.

(* ------------------------------------------------------------------------------- *)
(* well-formedness of continuations *)

Section OkLemmas.
Variable N : net.

Definition okI (me : pid) (f : bool) (i : item) : bool :=
  match i with
  | IStmt s => okS N me f s
  | IHeadCtx bd => okL N me f bd
  | IHeadRange c bd => closer_ok N me c && exitsL bd && okL N me f bd
  | IHeadData bd _ => okL N me f bd
  end.
Definition okK me f (k : list item) : bool := forallb (okI me f) k.

Lemma okS_sel me f cs : okS N me f (Sel cs) = checkb N me f (Sel cs) && okC N me f cs.
Proof.
  cbn [okS]. f_equal. unfold okC.
  induction cs as [|[a bd] r IH]; [reflexivity|]. cbn [forallb snd]. rewrite <- IH. reflexivity.
Qed.
Lemma okS_branch me f a b : okS N me f (Branch a b) = checkb N me f (Branch a b) && (okL N me f a && okL N me f b).
Proof. reflexivity. Qed.
Lemma okS_ctx me f bd : okS N me f (LoopCtx bd) = checkb N me f (LoopCtx bd) && okL N me f bd.
Proof. reflexivity. Qed.
Lemma okS_range me f c bd : okS N me f (LoopRange c bd) = checkb N me f (LoopRange c bd) && okL N me f bd.
Proof. reflexivity. Qed.
Lemma okS_data me f bd : okS N me f (LoopData bd) = checkb N me f (LoopData bd) && okL N me f bd.
Proof. reflexivity. Qed.
Lemma okS_ioe me f kd h : okS N me f (IoE kd h) = checkb N me f (IoE kd h) && okL N me f h.
Proof. reflexivity. Qed.
Lemma okS_check me f s : okS N me f s = true -> checkb N me f s = true.
Proof. destruct s; cbn [okS]; intro H; apply andb_true_iff in H; tauto. Qed.
Lemma okC_in me f cs a bd : okC N me f cs = true -> In (a, bd) cs -> okL N me f bd = true.
Proof. unfold okC. intros H I. rewrite forallb_forall in H. exact (H _ I). Qed.

Lemma okK_lift me f l : okK me f (lift l) = okL N me f l.
Proof. unfold okK, okL, lift. induction l; cbn; congruence. Qed.
Lemma okK_app me f a b : okK me f (a ++ b) = okK me f a && okK me f b.
Proof. apply forallb_app. Qed.

Lemma check_range me f c bd : checkb N me f (LoopRange c bd) = true -> closer_ok N me c = true /\ exitsL bd = true.
Proof.
  unfold checkb, check. destruct (closer_ok N me c); cbn; [|discriminate].
  destruct (exitsL bd); cbn; [auto|discriminate].
Qed.
End OkLemmas.

(* ------------------------------------------------------------------------------- *)
(* Theorem A: one goroutine in a cancelled world, channel state abstracted away: any
   blocking statement MAY proceed.  Every real post-cancellation step is such a step. *)

Inductive outcome := Cont (k : list item) | Exit.

Section A.
Variable N : net.
Variable D : nat.

Inductive cstep : list item -> outcome -> Prop :=
| c_sel cs a bd k : In (a, bd) cs -> cstep (IStmt (Sel cs) :: k) (Cont (lift bd ++ k))
| c_io kd k : cstep (IStmt (Io kd) :: k) (Cont k)
| c_ioe_ok kd h k : cstep (IStmt (IoE kd h) :: k) (Cont k)
| c_ioe_fail kd h k : cstep (IStmt (IoE kd h) :: k) (Cont (lift h ++ k))
| c_cancel k : cstep (IStmt Cancel :: k) (Cont k)
| c_ifctx k : cstep (IStmt IfCtxExit :: k) Exit
| c_return k : cstep (IStmt Return :: k) Exit
| c_recvclose c k : cstep (IStmt (RecvClose c) :: k) (Cont k)
| c_sendonce c k : cstep (IStmt (SendOnce c) :: k) Exit
| c_join q k : cstep (IStmt (Join q) :: k) (Cont k)
| c_wgwait w k : cstep (IStmt (WgWait w) :: k) (Cont k)
| c_wgadd w k : cstep (IStmt (WgAdd w) :: k) (Cont k)
| c_wgdone w k : cstep (IStmt (WgDone w) :: k) (Cont k)
| c_branch_l a b k : cstep (IStmt (Branch a b) :: k) (Cont (lift a ++ k))
| c_branch_r a b k : cstep (IStmt (Branch a b) :: k) (Cont (lift b ++ k))
| c_loopctx bd k : cstep (IStmt (LoopCtx bd) :: k) (Cont (IHeadCtx bd :: k))
| c_headctx bd k : cstep (IHeadCtx bd :: k) (Cont k)
| c_looprange c bd k : cstep (IStmt (LoopRange c bd) :: k) (Cont (IHeadRange c bd :: k))
| c_range_item c bd k : cstep (IHeadRange c bd :: k) (Cont (lift bd ++ IHeadRange c bd :: k))
| c_range_closed c bd k : cstep (IHeadRange c bd :: k) (Cont k)
| c_loopdata bd n k : n <= D -> cstep (IStmt (LoopData bd) :: k) (Cont (IHeadData bd n :: k))
| c_data_iter bd n k : cstep (IHeadData bd (S n) :: k) (Cont (lift bd ++ IHeadData bd n :: k))
| c_data_out bd n k : cstep (IHeadData bd n :: k) (Cont k)
| c_end : cstep [] Exit.

Definition size (o : outcome) : nat := match o with Cont k => S (M D k) | Exit => 0 end.

Ltac okhead W :=
  cbn [okK forallb okI] in W; apply andb_true_iff in W; destruct W as [Wi Wk].

Theorem cstep_decreases me f k o :
  okK N me f k = true -> cstep k o ->
  size o < size (Cont k) /\ (forall k', o = Cont k' -> okK N me f k' = true).
Proof.
  intros W H. inversion H; subst; cbn [size M mI exitsI]; try okhead W.
  - (* sel *)
    rewrite exitsS_sel, mS_sel. rewrite okS_sel in Wi. apply andb_true_iff in Wi. destruct Wi as [_ Wc].
    pose proof (mC_in D _ _ _ H0) as B1. pose proof (M_lift_app D bd k0) as B2.
    split.
    + destruct (exitsC cs) eqn:E.
      * rewrite (exitsC_in _ _ _ E H0) in B2. lia.
      * destruct (exitsL bd); lia.
    + intros k' E; inversion E; subst. rewrite okK_app, okK_lift, (okC_in _ _ _ _ _ _ Wc H0). exact Wk.
  - split; [cbn; lia|intros k' E; inversion E; subst; exact Wk].
  - (* ioe ok *) rewrite mS_ioe. split; [cbn [exitsS]; lia|intros k' E; inversion E; subst; exact Wk].
  - (* ioe fail *)
    rewrite mS_ioe. pose proof (M_lift_app_le D h k0) as B.
    rewrite okS_ioe in Wi. apply andb_true_iff in Wi. destruct Wi as [_ Wh].
    split; [cbn [exitsS]; lia|].
    intros k' E; inversion E; subst. rewrite okK_app, okK_lift, Wh. exact Wk.
  - split; [cbn; lia|intros k' E; inversion E; subst; exact Wk].
  - split; [cbn; lia|intros k' E; discriminate].
  - split; [cbn; lia|intros k' E; discriminate].
  - split; [cbn; lia|intros k' E; inversion E; subst; exact Wk].
  - split; [cbn; lia|intros k' E; discriminate].
  - split; [cbn; lia|intros k' E; inversion E; subst; exact Wk].
  - split; [cbn; lia|intros k' E; inversion E; subst; exact Wk].
  - split; [cbn; lia|intros k' E; inversion E; subst; exact Wk].
  - split; [cbn; lia|intros k' E; inversion E; subst; exact Wk].
  - (* branch left *)
    rewrite exitsS_branch, mS_branch. pose proof (M_lift_app D a k0).
    rewrite okS_branch in Wi. apply andb_true_iff in Wi. destruct Wi as [_ Wab].
    apply andb_true_iff in Wab. destruct Wab as [Wa Wb].
    split.
    + destruct (exitsL a), (exitsL b); cbn [andb]; lia.
    + intros k' E; inversion E; subst. rewrite okK_app, okK_lift, Wa. exact Wk.
  - (* branch right *)
    rewrite exitsS_branch, mS_branch. pose proof (M_lift_app D b k0).
    rewrite okS_branch in Wi. apply andb_true_iff in Wi. destruct Wi as [_ Wab].
    apply andb_true_iff in Wab. destruct Wab as [Wa Wb].
    split.
    + destruct (exitsL a), (exitsL b); cbn [andb]; lia.
    + intros k' E; inversion E; subst. rewrite okK_app, okK_lift, Wb. exact Wk.
  - (* loopctx *)
    rewrite okS_ctx in Wi. apply andb_true_iff in Wi. destruct Wi as [_ Wb].
    split; [cbn; lia|]. intros k' E; inversion E; subst. cbn [okK forallb okI]. rewrite Wb. exact Wk.
  - (* headctx *) split; [cbn; lia|intros k' E; inversion E; subst; exact Wk].
  - (* looprange *)
    rewrite mS_range. rewrite okS_range in Wi. apply andb_true_iff in Wi. destruct Wi as [Wc Wb].
    apply check_range in Wc. destruct Wc as [Wc We].
    split; [cbn; lia|]. intros k' E; inversion E; subst. cbn [okK forallb okI]. rewrite Wc, We, Wb. exact Wk.
  - (* range item: the body certainly exits *)
    apply andb_true_iff in Wi. destruct Wi as [Wce Wb]. apply andb_true_iff in Wce. destruct Wce as [Wc We].
    pose proof (M_lift_app D bd (IHeadRange c bd :: k0)) as B. rewrite We in B.
    split; [cbn [M mI exitsI]; lia|].
    intros k' E; inversion E; subst. rewrite okK_app, okK_lift, Wb. cbn [okK forallb okI andb]. rewrite Wc, We, Wb. exact Wk.
  - (* range closed *) split; [cbn; lia|intros k' E; inversion E; subst; exact Wk].
  - (* loopdata *)
    rewrite mS_data. rewrite okS_data in Wi. apply andb_true_iff in Wi. destruct Wi as [_ Wb].
    split.
    + cbn [exitsS]. assert (n * (1 + mL D bd) <= D * (1 + mL D bd)) by (apply Nat.mul_le_mono_r; lia). lia.
    + intros k' E; inversion E; subst. cbn [okK forallb okI]. rewrite Wb. exact Wk.
  - (* data iteration *)
    pose proof (M_lift_app_le D bd (IHeadData bd n :: k0)) as B. cbn [M mI exitsI] in B.
    split; [lia|].
    intros k' E; inversion E; subst. rewrite okK_app, okK_lift, Wi. cbn [okK forallb okI andb]. rewrite Wi. exact Wk.
  - (* data out *) split; [lia|intros k' E; inversion E; subst; exact Wk].
  - (* end *) split; [cbn; lia|intros k' E; discriminate].
Qed.

(* any run of a cancelled goroutine from continuation k is at most  S (M k)  steps long *)
Inductive crun : outcome -> nat -> Prop :=
| run_stop o : crun o 0
| run_step k o n : cstep k o -> crun o n -> crun (Cont k) (S n).

Theorem crun_bounded me f : forall n o,
  (match o with Cont k => okK N me f k = true | Exit => True end) ->
  crun o n -> n <= size o.
Proof.
  induction n as [|n IH]; intros o W R; [lia|].
  inversion R; subst.
  destruct (cstep_decreases me f k o0 W H0) as [Hlt Hwf].
  assert (n <= size o0).
  { apply IH; [|assumption]. destruct o0; [apply Hwf; reflexivity|exact I]. }
  lia.
Qed.
End A.

(* ------------------------------------------------------------------------------- *)
(* The interleaving semantics: projection of a global step onto the moving goroutine *)

Lemma set_proc_same f p v : set_proc f p v p = v.
Proof. unfold set_proc. rewrite Nat.eqb_refl. reflexivity. Qed.
Lemma set_proc_other f p v q : q <> p -> set_proc f p v q = f q.
Proof. unfold set_proc. intro Hn. destruct (Nat.eqb_spec q p); [contradiction|reflexivity]. Qed.

Section B.
Variable N : net.
Variable D : nat.
Variable io_ret : iokind -> bool.
Hypothesis Hwf : wf N = true.

Notation gstep := (gstep N D io_ret).
Notation lstep := (lstep N D io_ret).

Lemma static_ok p : p < nprocs N ->
  okL N p false (body (info N p)) = true /\ okL N p true (finally (info N p)) = true.
Proof.
  intro Hp. unfold wf in Hwf. apply andb_true_iff in Hwf. destruct Hwf as [Hall _].
  rewrite forallb_forall in Hall. specialize (Hall p).
  assert (I : In p (seq 0 (nprocs N))) by (apply in_seq; lia).
  specialize (Hall I). unfold ok_proc in Hall. apply andb_true_iff in Hall. exact Hall.
Qed.

Inductive pstep (p : pid) (c : bool) : pstate -> pstate -> Prop :=
| ps_cont f k k' : cstep D k (Cont k') -> pstep p c (Running f k) (Running f k')
| ps_exit_body k : cstep D k Exit -> pstep p c (Running false k) (Running true (lift (finally (info N p))))
| ps_exit_fin k : cstep D k Exit -> pstep p c (Running true k) Exited
| ps_ifgo f k : c = false -> pstep p c (Running f (IStmt IfCtxExit :: k)) (Running f k)
| ps_headin f bd k : c = false -> pstep p c (Running f (IHeadCtx bd :: k)) (Running f (lift bd ++ IHeadCtx bd :: k)).

Lemma lstep_proj p g g' : lstep p g g' ->
  pstep p (cancelled g) (procs g p) (procs g' p) /\ forall q, q <> p -> procs g' q = procs g q.
Proof.
  intro S. destruct S.
  all: split; [| intros q0 Hq0; unfold exit_of; try destruct f; cbn; apply set_proc_other; assumption].
  all: match goal with H : procs _ _ = Running _ _ |- _ => rewrite H end.
  all: unfold exit_of; try (destruct f; cbn; rewrite set_proc_same;
         first [ apply ps_exit_body; constructor | apply ps_exit_fin; constructor ]; fail).
  all: cbn; rewrite set_proc_same.
  all: try (apply ps_ifgo; assumption).
  all: try (apply ps_headin; assumption).
  all: apply ps_cont; try (constructor; assumption); try constructor.
  eapply c_sel; eassumption.
Qed.

Lemma gstep_proj g g' : gstep g g' ->
  exists p, pstep p (cancelled g) (procs g p) (procs g' p) /\ forall q, q <> p -> procs g' q = procs g q.
Proof. intros [p S]. exists p. apply lstep_proj. exact S. Qed.

Definition okP (p : pid) (s : pstate) : Prop :=
  match s with Running f k => okK N p f k = true | Exited => True end.

Lemma pstep_ok p c s s' : p < nprocs N -> okP p s -> pstep p c s s' -> okP p s'.
Proof.
  intros Hp W S. destruct S; cbn [okP] in *.
  - destruct (cstep_decreases N D p f k _ W H) as [_ Hk]. apply Hk. reflexivity.
  - rewrite okK_lift. apply (static_ok p Hp).
  - exact I.
  - cbn [okK forallb] in W. apply andb_true_iff in W. tauto.
  - pose proof W as W'. cbn [okK forallb okI] in W'. apply andb_true_iff in W'. destruct W' as [Wb Wk].
    rewrite okK_app, okK_lift, Wb. exact W.
Qed.

Lemma pstep_dec p s s' : okP p s -> pstep p true s s' -> psize N D p s' < psize N D p s.
Proof.
  intros W S. destruct S; cbn [okP psize] in *; try discriminate.
  - destruct (cstep_decreases N D p f k _ W H) as [Hlt _]. cbn [size] in Hlt. destruct f; lia.
  - lia.
  - lia.
Qed.

(* ---- the invariant ---- *)
Record Inv (g : gstate) : Prop := {
  inv_ok : forall p f k, procs g p = Running f k -> okK N p f k = true;
  inv_closed : forall q c, procs g q = Exited -> q < nprocs N -> In c (defer_close (info N q)) ->
               closed (chans g c) = true;
  inv_once : forall c p k, sender N c = Some p -> procs g p = Running false k -> len (chans g c) = 0;
  inv_dead : forall p, nprocs N <= p -> procs g p = Exited;
}.

Lemma inv_init : Inv (init N).
Proof.
  constructor; unfold init; cbn [procs chans cancelled len closed].
  - intros p f k E. destruct (Nat.ltb p (nprocs N)) eqn:Hl; [|discriminate].
    apply Nat.ltb_lt in Hl. inversion E; subst. rewrite okK_lift. apply (static_ok p Hl).
  - intros q c E Hq. apply Nat.ltb_lt in Hq. rewrite Hq in E. discriminate.
  - reflexivity.
  - intros p Hp. destruct (Nat.ltb p (nprocs N)) eqn:Hl; [apply Nat.ltb_lt in Hl; lia|reflexivity].
Qed.

Ltac crush_ch :=
  repeat (match goal with
          | |- context [Nat.eqb ?a ?b] => destruct (Nat.eqb_spec a b); subst
          | |- context [if existsb ?f ?l then _ else _] => destruct (existsb f l) eqn:?
          end; cbn); auto.

Lemma closed_mono g g' c : gstep g g' -> closed (chans g c) = true -> closed (chans g' c) = true.
Proof.
  intros [p0 S] Hc. destruct S; unfold exit_of; try destruct f; cbn; try assumption.
  all: try (destruct a; cbn).
  all: unfold inc_len, dec_len, set_chan, close_all; crush_ch.
Qed.

Lemma len_close_all f cs x : len (close_all f cs x) = len (f x).
Proof. unfold close_all. destruct (existsb (Nat.eqb x) cs); reflexivity. Qed.

Lemma close_all_in f cs x : In x cs -> closed (close_all f cs x) = true.
Proof.
  intro I. unfold close_all.
  assert (E : existsb (Nat.eqb x) cs = true).
  { apply existsb_exists. exists x. split; [assumption|apply Nat.eqb_refl]. }
  rewrite E. reflexivity.
Qed.

Lemma exit_closes g g' p f k c : gstep g g' -> procs g p = Running f k -> procs g' p = Exited ->
  In c (defer_close (info N p)) -> closed (chans g' c) = true.
Proof.
  intros [p0 S] R E I. destruct S.
  all: unfold exit_of in *; try destruct f0; cbn in *.
  all: match goal with H : procs _ ?p1 = Running _ _ |- _ =>
         destruct (Nat.eq_dec p p1) as [->|Hne];
         [ rewrite set_proc_same in E
         | rewrite set_proc_other in E by assumption; try congruence ] end.
  all: try discriminate.
  all: apply close_all_in; assumption.
Qed.

Lemma check_sendonce me f c : checkb N me f (SendOnce c) = true ->
  f = false /\ sender N c = Some me /\ 0 < capof N c.
Proof.
  unfold checkb, check. intro H.
  destruct (negb f && opt_pid_eqb (sender N c) (Some me) && Nat.ltb 0 (capof N c)) eqn:E; [|discriminate].
  apply andb_true_iff in E. destruct E as [E E3]. apply andb_true_iff in E. destruct E as [E1 E2].
  apply Nat.ltb_lt in E3. destruct f; [discriminate|].
  destruct (sender N c) as [q|]; cbn in E2; [|discriminate].
  apply Nat.eqb_eq in E2. subst. auto.
Qed.

Lemma check_sel_alt me f cs a bd : checkb N me f (Sel cs) = true -> In (a, bd) cs ->
  has_wake cs = true /\ alt_ok N a = true.
Proof.
  unfold checkb, check. intros H I. destruct (has_wake cs); cbn in *; [|discriminate].
  destruct (forallb (fun c => alt_ok N (fst c)) cs) eqn:E; cbn in *; [|discriminate].
  rewrite forallb_forall in E. split; [reflexivity|exact (E _ I)].
Qed.

Lemma head_ok g p f i k : Inv g -> procs g p = Running f (i :: k) -> okI N p f i = true.
Proof.
  intros HI E. pose proof (inv_ok g HI _ _ _ E) as W. cbn [okK forallb] in W.
  apply andb_true_iff in W. tauto.
Qed.

(* lengths of once-channels: untouched by everyone but their sender *)
Lemma once_len g g' c p0 k0 : Inv g -> gstep g g' ->
  sender N c = Some p0 -> procs g' p0 = Running false k0 -> len (chans g' c) = 0.
Proof.
  intros HI S Hs E.
  assert (Keep : forall k, procs g p0 = Running false k -> len (chans g c) = 0)
    by (intros k Ek; eapply inv_once; eassumption).
  destruct S as [p1 S]. destruct S.
  all: try (pose proof (head_ok _ _ _ _ _ HI H) as Hh; cbn [okI] in Hh).
  all: unfold exit_of in *; try destruct f; cbn in E |- *.
  all: match goal with H : procs _ ?p1 = Running _ _ |- _ =>
         destruct (Nat.eq_dec p0 p1) as [->|Hne];
         [ rewrite set_proc_same in E; try discriminate; try (inversion E; subst)
         | rewrite set_proc_other in E by assumption ] end.
  all: try (rewrite len_close_all).
  all: try solve [ eapply Keep; eassumption ].
  all: try match goal with Ha : alt_enabled _ _ ?a |- _ =>
         apply okS_check in Hh;
         match goal with Hin : In (a, _) _ |- _ => destruct (check_sel_alt _ _ _ _ _ Hh Hin) as [_ Hao] end;
         destruct a; cbn in Hao |- * end.
  all: try solve [ eapply Keep; eassumption ].
  all: unfold inc_len, dec_len, set_chan; cbn.
  all: try (destruct (Nat.eqb_spec c c0); subst; cbn).
  all: try solve [ eapply Keep; eassumption ].
  all: try solve [ erewrite Keep by eassumption; reflexivity ].
  all: try solve [ rewrite Hs in Hao; discriminate ].
  all: try solve [ apply okS_check in Hh; apply check_sendonce in Hh; destruct Hh as [_ [Hs' _]]; congruence ].
Qed.

Lemma step_inv g g' : Inv g -> gstep g g' -> Inv g'.
Proof.
  intros HI S. destruct (gstep_proj _ _ S) as [p [Hp Hoth]].
  assert (Hlt : p < nprocs N).
  { destruct (Nat.lt_ge_cases p (nprocs N)) as [|Hge]; [assumption|].
    rewrite (inv_dead g HI p Hge) in Hp. inversion Hp. }
  constructor.
  - intros q f k E. destruct (Nat.eq_dec q p) as [->|Hne].
    + assert (W : okP p (procs g' p)).
      { eapply pstep_ok; [exact Hlt| |exact Hp].
        destruct (procs g p) as [f0 k0|] eqn:E0; cbn; [eapply inv_ok; eassumption|exact I]. }
      rewrite E in W. exact W.
    + rewrite (Hoth q Hne) in E. eapply inv_ok; eassumption.
  - intros q c E Hq Ic. destruct (procs g q) as [f0 k0|] eqn:E0.
    + eapply exit_closes; eassumption.
    + eapply closed_mono; [exact S|]. eapply inv_closed; eassumption.
  - intros c p0 k0 Hs E. eapply once_len; eassumption.
  - intros q Hq. destruct (Nat.eq_dec q p) as [->|Hne]; [lia|].
    rewrite (Hoth q Hne). apply (inv_dead g HI q Hq).
Qed.

Lemma reach_inv g : reach N D io_ret g -> Inv g.
Proof. induction 1; [apply inv_init|eapply step_inv; eassumption]. Qed.

Lemma cancelled_mono g g' : gstep g g' -> cancelled g = true -> cancelled g' = true.
Proof.
  intros [p0 S] C. destruct S; unfold exit_of; try destruct f; cbn; try assumption; try reflexivity.
  all: rewrite C; reflexivity.
Qed.

(* ---- A lifted to the net: the summed measure decreases with every step ---- *)
Lemma sum_same (l : list nat) (f f' : nat -> nat) :
  (forall q, In q l -> f' q = f q) -> list_sum (map f' l) = list_sum (map f l).
Proof.
  induction l as [|x r IH]; intro H; [reflexivity|]. simpl.
  rewrite (H x (or_introl eq_refl)), IH; [reflexivity|]. intros q I. apply H. right. exact I.
Qed.

Lemma sum_dec (l : list nat) (f f' : nat -> nat) p :
  NoDup l -> In p l -> f' p < f p -> (forall q, q <> p -> f' q = f q) ->
  list_sum (map f' l) < list_sum (map f l).
Proof.
  induction l as [|x r IH]; intros ND I Hlt Hoth; [contradiction|].
  inversion ND as [|? ? Hnin ND']; subst. simpl.
  destruct I as [->|I].
  - rewrite (sum_same r f f'); [lia|]. intros q Iq. apply Hoth. intro; subst. contradiction.
  - specialize (IH ND' I Hlt Hoth). rewrite (Hoth x); [lia|]. intro; subst. contradiction.
Qed.

Lemma total_dec g g' : Inv g -> cancelled g = true -> gstep g g' -> total N D g' < total N D g.
Proof.
  intros HI C S. destruct (gstep_proj _ _ S) as [p [Hp Hoth]]. rewrite C in Hp.
  assert (Hlt : p < nprocs N).
  { destruct (Nat.lt_ge_cases p (nprocs N)) as [|Hge]; [assumption|].
    rewrite (inv_dead g HI p Hge) in Hp. inversion Hp. }
  unfold total. apply (sum_dec _ _ _ p).
  - apply seq_NoDup.
  - apply in_seq. lia.
  - apply pstep_dec; [|exact Hp].
    destruct (procs g p) as [f0 k0|] eqn:E0; cbn; [eapply inv_ok; eassumption|exact I].
  - intros q Hq. rewrite (Hoth q Hq). reflexivity.
Qed.

Lemma steps_inv n g g' : steps N D io_ret n g g' -> Inv g -> cancelled g = true ->
  Inv g' /\ cancelled g' = true.
Proof.
  induction 1 as [g|n g g1 g2 S _ IH]; intros HI C; [auto|].
  apply IH; [eapply step_inv; eassumption|eapply cancelled_mono; eassumption].
Qed.

Theorem steps_bounded n g g' : steps N D io_ret n g g' -> Inv g -> cancelled g = true ->
  n + total N D g' <= total N D g.
Proof.
  induction 1 as [g|n g g1 g2 S _ IH]; intros HI C; [lia|].
  pose proof (total_dec _ _ HI C S).
  assert (n + total N D g2 <= total N D g1)
    by (apply IH; [eapply step_inv; eassumption|eapply cancelled_mono; eassumption]).
  lia.
Qed.

(* ---- Theorem B ---- *)
Hypothesis Hio : forall kd, kd <> Unknown -> io_ret kd = true.

Lemma has_wake_enabled g cs : cancelled g = true -> has_wake cs = true ->
  exists a bd, In (a, bd) cs /\ alt_enabled N g a.
Proof.
  intros C H. unfold has_wake in H. apply existsb_exists in H. destruct H as [[a bd] [Ia Ha]].
  exists a, bd. split; [assumption|]. destruct a; cbn in *; try discriminate; auto.
Qed.

Lemma closer_ok_ex me c : closer_ok N me c = true ->
  exists q, q < nprocs N /\ rank (info N q) < rank (info N me) /\ In c (defer_close (info N q)).
Proof.
  unfold closer_ok. intro H. apply existsb_exists in H. destruct H as [q [Iq H]].
  apply andb_true_iff in H. destruct H as [Hr Hc]. apply Nat.ltb_lt in Hr.
  apply existsb_exists in Hc. destruct Hc as [x [Ix Ex]]. apply Nat.eqb_eq in Ex. subst x.
  apply in_seq in Iq. exists q. repeat split; [lia|assumption|assumption].
Qed.

Lemma check_recvclose me f c : checkb N me f (RecvClose c) = true -> closer_ok N me c = true.
Proof. unfold checkb, check. destruct (closer_ok N me c); [reflexivity|discriminate]. Qed.
Lemma check_join me f q : checkb N me f (Join q) = true -> rank (info N q) < rank (info N me).
Proof.
  unfold checkb, check. destruct (Nat.ltb (rank (info N q)) (rank (info N me))) eqn:E; cbn.
  - intros _. apply Nat.ltb_lt. exact E.
  - discriminate.
Qed.
Lemma check_io me f kd : checkb N me f (Io kd) = true -> kd <> Unknown.
Proof. destruct kd; cbn; intros H E; discriminate. Qed.
Lemma check_ioe me f kd h : checkb N me f (IoE kd h) = true -> kd <> Unknown.
Proof. destruct kd; cbn; intros H E; discriminate. Qed.

Theorem never_stuck g :
  Inv g -> cancelled g = true -> stuck N D io_ret g -> forall p, procs g p = Exited.
Proof.
  intros HI C St.
  assert (H : forall n p, rank (info N p) < n -> procs g p = Exited).
  { induction n as [|n IH]; intros p Hr; [lia|].
    destruct (procs g p) as [f k|] eqn:E; [|reflexivity]. exfalso.
    assert (Low : forall q, rank (info N q) < rank (info N p) -> procs g q = Exited).
    { intros q Hq. apply IH. lia. }
    assert (Closed : forall c, closer_ok N p c = true -> closed (chans g c) = true).
    { intros c Hc. destruct (closer_ok_ex _ _ Hc) as [q [Hq [Hrk Ic]]].
      eapply inv_closed; [exact HI|apply Low; exact Hrk|exact Hq|exact Ic]. }
    destruct k as [|i k].
    - eapply St; eexists; eapply g_end; eassumption.
    - pose proof (head_ok _ _ _ _ _ HI E) as Hi.
      destruct i as [s|bd|c bd|bd n0]; cbn [okI] in Hi.
      + pose proof (okS_check _ _ _ _ Hi) as Hc. destruct s.
        * destruct (has_wake cs) eqn:Hw.
          -- destruct (has_wake_enabled g cs C Hw) as [a [bd [Ia Ea]]].
             eapply St; eexists; eapply g_sel; eassumption.
          -- unfold checkb, check in Hc. rewrite Hw in Hc. discriminate.
        * eapply St; eexists; eapply g_io; [eassumption|]. apply Hio. eapply check_io; eassumption.
        * eapply St; eexists; eapply g_ioe_ok; [eassumption|]. apply Hio. eapply check_ioe; eassumption.
        * eapply St; eexists; eapply g_cancel; eassumption.
        * eapply St; eexists; eapply g_ifctx_exit; eassumption.
        * eapply St; eexists; eapply g_return; eassumption.
        * apply check_recvclose in Hc. apply Closed in Hc.
          destruct (len (chans g c)) eqn:L.
          -- eapply St; eexists; eapply g_recv_closed; eassumption.
          -- eapply St; eexists; eapply g_recv_item; [eassumption|lia].
        * apply check_sendonce in Hc. destruct Hc as [Hf [Hs Hcap]]. subst f.
          pose proof (inv_once g HI _ _ _ Hs E) as L0.
          destruct (closed (chans g c)) eqn:Cl.
          -- eapply St; eexists; eapply g_send_closed; eassumption.
          -- eapply St; eexists; eapply g_send_once; [eassumption|assumption|lia].
        * apply check_join in Hc. eapply St; eexists; eapply g_join; [eassumption|]. apply Low. assumption.
        * discriminate.
        * eapply St; eexists; eapply g_wgadd; eassumption.
        * eapply St; eexists; eapply g_wgdone; eassumption.
        * eapply St; eexists; eapply g_branch_l; eassumption.
        * eapply St; eexists; eapply g_loopctx; eassumption.
        * eapply St; eexists; eapply g_looprange; eassumption.
        * eapply St; eexists; eapply g_loopdata with (n := 0); [eassumption|lia].
      + eapply St; eexists; eapply g_headctx_out; eassumption.
      + apply andb_true_iff in Hi. destruct Hi as [Hce _]. apply andb_true_iff in Hce. destruct Hce as [Hc _].
        apply Closed in Hc.
        destruct (len (chans g c)) eqn:L.
        * eapply St; eexists; eapply g_range_closed; eassumption.
        * eapply St; eexists; eapply g_range_item; [eassumption|lia].
      + eapply St; eexists; eapply g_data_out; eassumption. }
  intro p. apply (H (S (rank (info N p)))). lia.
Qed.

(* ---- A + B ---- *)
Theorem cancelled_terminates g :
  reach N D io_ret g -> cancelled g = true ->
  (forall n g', steps N D io_ret n g g' -> n <= total N D g) /\
  (forall n g', steps N D io_ret n g g' -> stuck N D io_ret g' -> forall p, procs g' p = Exited).
Proof.
  intros R C. pose proof (reach_inv g R) as HI. split.
  - intros n g' S. pose proof (steps_bounded _ _ _ S HI C). lia.
  - intros n g' S St. destruct (steps_inv _ _ _ S HI C) as [HI' C']. apply never_stuck; assumption.
Qed.
End B.

(* the form used by the instances: the assumptions on Io spelled out *)
Theorem wf_net_terminates N (Hwf : wf N = true) D io_ret :
  io_assumptions io_ret true ->
  forall g, reach N D io_ret g -> cancelled g = true ->
  (forall n g', steps N D io_ret n g g' -> n <= total N D g) /\
  (forall n g', steps N D io_ret n g g' -> stuck N D io_ret g' -> forall p, procs g' p = Exited).
Proof.
  intros [Hr [Hw [Hp [Hf Hc]]]]. apply cancelled_terminates; [exact Hwf|].
  intros kd Hk. destruct kd; auto; exfalso; apply Hk; reflexivity.
Qed.

(* from the start: if the net is cancelled before anything ran the bound is static *)
Lemma total_init N D : total N D (init N) =
  list_sum (map (fun p => S (M D (lift (body (info N p)))) + S (M D (lift (finally (info N p))))) (seq 0 (nprocs N))).
Proof.
  unfold total. apply sum_same. intros q Iq. apply in_seq in Iq. unfold init. cbn [procs].
  destruct (Nat.ltb q (nprocs N)) eqn:E; [reflexivity|]. apply Nat.ltb_ge in E. lia.
Qed.

(* success channel: while its only sender is still in its body nothing has been sent on it *)
Theorem once_chan_empty N (Hwf : wf N = true) D io_ret g c p k :
  reach N D io_ret g -> sender N c = Some p -> procs g p = Running false k -> len (chans g c) = 0.
Proof. intros R. exact (inv_once N g (reach_inv N D io_ret Hwf g R) c p k). Qed.
