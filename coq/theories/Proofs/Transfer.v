(* Proofs about the whole-transfer model (C01, Model/Transfer.v): the composition of the
   sender and the receiver machine over perfect FIFO queues. *)
From Coq Require Import ZArith Lia.
From Trzsz Require Import Base.Bytes Gen.Consts Model.Path Model.Fs Model.Names Model.Escape Model.Base64
  Model.Wire Model.Transfer Proofs.PathFs Proofs.Names Proofs.Wire Proofs.TransferArchive Proofs.TransferResume
  Proofs.TransferFs Proofs.TransferProgress.
From Trzsz Require Model.Resume Model.Archive Proofs.Resume.

(* The model's reading of the source is pinned to what the translator found.  isCompressFixed is
   INTERPRETED from the regenerated decision list (so changed thresholds are followed, not refused);
   what is pinned is that every rule is of a kind the interpreter knows.  The ORDER of the wire
   operations, which the machines hard-code, is pinned call by call. *)
Lemma transfer_rules_wf :
  forallb (fun r => match r with (k, _, _, cv) => (k <? 3) && (cv <? 3) end) Consts.tr_compress_rules = true /\
  (snd Consts.tr_compress_default <? 3) = true /\ Consts.tr_resume_skipped_for_empty_target = true /\
  (* the two ends of the resume exchange read one protocol switch for the unechoed SIZE, and it is not below
     the version at which the exchange exists *)
  (Consts.tr_proto_json_names <=? Consts.tr_proto_resume_nosize) = true.
Proof. repeat split; reflexivity. Qed.

Lemma transfer_calls_src_ok :
  (* archiveSourceFiles sendFileNum sendFileNameV3 sendFileName sendFileSize sendFileDataV2 sendFileData sendFileMD5 *)
  Consts.tr_send_files_calls = [[97; 114; 99; 104; 105; 118; 101; 83; 111; 117; 114; 99; 101; 70; 105; 108; 101; 115]; [115; 101; 110; 100; 70; 105; 108; 101; 78; 117; 109]; [115; 101; 110; 100; 70; 105; 108; 101; 78; 97; 109; 101; 86; 51]; [115; 101; 110; 100; 70; 105; 108; 101; 78; 97; 109; 101]; [115; 101; 110; 100; 70; 105; 108; 101; 83; 105; 122; 101]; [115; 101; 110; 100; 70; 105; 108; 101; 68; 97; 116; 97; 86; 50]; [115; 101; 110; 100; 70; 105; 108; 101; 68; 97; 116; 97]; [115; 101; 110; 100; 70; 105; 108; 101; 77; 68; 53]] /\
  (* recvFileNum recvFileNameV3 recvFileName recvFileSize recvFileDataV2 recvFileData recvFileMD5 *)
  Consts.tr_recv_files_calls = [[114; 101; 99; 118; 70; 105; 108; 101; 78; 117; 109]; [114; 101; 99; 118; 70; 105; 108; 101; 78; 97; 109; 101; 86; 51]; [114; 101; 99; 118; 70; 105; 108; 101; 78; 97; 109; 101]; [114; 101; 99; 118; 70; 105; 108; 101; 83; 105; 122; 101]; [114; 101; 99; 118; 70; 105; 108; 101; 68; 97; 116; 97; 86; 50]; [114; 101; 99; 118; 70; 105; 108; 101; 68; 97; 116; 97]; [114; 101; 99; 118; 70; 105; 108; 101; 77; 68; 53]] /\
  (* sendCompressFlag *)
  Consts.tr_send_data_first_call = [[115; 101; 110; 100; 67; 111; 109; 112; 114; 101; 115; 115; 70; 108; 97; 103]] /\
  (* recvCompressFlag *)
  Consts.tr_recv_data_first_call = [[114; 101; 99; 118; 67; 111; 109; 112; 114; 101; 115; 115; 70; 108; 97; 103]] /\
  (* sendInteger checkInteger *)
  Consts.tr_calls_send_num = [[115; 101; 110; 100; 73; 110; 116; 101; 103; 101; 114]; [99; 104; 101; 99; 107; 73; 110; 116; 101; 103; 101; 114]] /\
  (* recvInteger sendInteger *)
  Consts.tr_calls_recv_num = [[114; 101; 99; 118; 73; 110; 116; 101; 103; 101; 114]; [115; 101; 110; 100; 73; 110; 116; 101; 103; 101; 114]] /\
  (* sendString recvString *)
  Consts.tr_calls_send_name = [[115; 101; 110; 100; 83; 116; 114; 105; 110; 103]; [114; 101; 99; 118; 83; 116; 114; 105; 110; 103]] /\
  (* recvString createDirOrFile createFile sendString *)
  Consts.tr_calls_recv_name = [[114; 101; 99; 118; 83; 116; 114; 105; 110; 103]; [99; 114; 101; 97; 116; 101; 68; 105; 114; 79; 114; 70; 105; 108; 101]; [99; 114; 101; 97; 116; 101; 70; 105; 108; 101]; [115; 101; 110; 100; 83; 116; 114; 105; 110; 103]] /\
  (* sendString recvString newArchiveReader sendPrefixHash *)
  Consts.tr_calls_send_name_v3 = [[115; 101; 110; 100; 83; 116; 114; 105; 110; 103]; [114; 101; 99; 118; 83; 116; 114; 105; 110; 103]; [110; 101; 119; 65; 114; 99; 104; 105; 118; 101; 82; 101; 97; 100; 101; 114]; [115; 101; 110; 100; 80; 114; 101; 102; 105; 120; 72; 97; 115; 104]] /\
  (* recvString createDirOrFile sendString recvPrefixHash *)
  Consts.tr_calls_recv_name_v3 = [[114; 101; 99; 118; 83; 116; 114; 105; 110; 103]; [99; 114; 101; 97; 116; 101; 68; 105; 114; 79; 114; 70; 105; 108; 101]; [115; 101; 110; 100; 83; 116; 114; 105; 110; 103]; [114; 101; 99; 118; 80; 114; 101; 102; 105; 120; 72; 97; 115; 104]] /\
  (* sendInteger checkInteger *)
  Consts.tr_calls_send_size = [[115; 101; 110; 100; 73; 110; 116; 101; 103; 101; 114]; [99; 104; 101; 99; 107; 73; 110; 116; 101; 103; 101; 114]] /\
  (* recvInteger sendInteger *)
  Consts.tr_calls_recv_size = [[114; 101; 99; 118; 73; 110; 116; 101; 103; 101; 114]; [115; 101; 110; 100; 73; 110; 116; 101; 103; 101; 114]] /\
  (* sendBinary checkBinary *)
  Consts.tr_calls_send_md5 = [[115; 101; 110; 100; 66; 105; 110; 97; 114; 121]; [99; 104; 101; 99; 107; 66; 105; 110; 97; 114; 121]] /\
  (* recvBinary sendBinary *)
  Consts.tr_calls_recv_md5 = [[114; 101; 99; 118; 66; 105; 110; 97; 114; 121]; [115; 101; 110; 100; 66; 105; 110; 97; 114; 121]] /\
  (* sendData checkInteger *)
  Consts.tr_calls_send_data_v1 = [[115; 101; 110; 100; 68; 97; 116; 97]; [99; 104; 101; 99; 107; 73; 110; 116; 101; 103; 101; 114]] /\
  (* recvData sendInteger *)
  Consts.tr_calls_recv_data_v1 = [[114; 101; 99; 118; 68; 97; 116; 97]; [115; 101; 110; 100; 73; 110; 116; 101; 103; 101; 114]].
Proof. repeat split; reflexivity. Qed.

Ltac norm_app := repeat first [ progress (repeat rewrite <- app_assoc) | progress (cbn [app]) ].

Ltac norm_log := unfold tr_tag_out; repeat first [ progress (repeat rewrite map_app) | progress (cbn [map]) ]; norm_app.

Section TransferProofs.
Variable digest : Type.
Variable H : list byte -> digest.
Variable deq : digest -> digest -> bool.
Variable zcomp : list (list byte) -> list (list byte).
Variable zdecomp : list byte -> option (list byte).
Variable zl : list byte -> list byte.
Variable unzl : list byte -> option (list byte).
Variable hx : list byte -> Resume.digest.
Variable ahdr : src -> Z -> list byte.
Variable aparse : list byte -> option (src * Z).

Notation msg := (tr_msg digest).
Notation sender := (tr_sender digest H deq zcomp zl hx ahdr).
Notation receiver := (tr_receiver digest H deq zdecomp unzl hx aparse).
Notation stepc := (tr_step digest H deq zcomp zdecomp zl unzl hx ahdr aparse).
Notation runf := (tr_run_from digest H deq zcomp zdecomp zl unzl hx ahdr aparse).
Notation spec_entry := (tr_spec_entry hx ahdr aparse).
Notation spec := (tr_spec hx ahdr aparse).
Notation s_next := (tr_s_next digest).
Notation r_next := (tr_r_next digest).
Notation frames := (tr_frames digest zcomp).
Notation compress := (tr_compress digest).
Notation tag_out := (@tr_tag_out digest).
Notation conf := (tr_conf digest).

(* ---------- running ---------- *)
Lemma run_stuck c d (cf : conf) n : stepc c d cf = None -> runf n c d cf = cf.
Proof. intro E. destruct n; cbn [tr_run_from]; [reflexivity | rewrite E; reflexivity]. Qed.

Lemma run_add c d a : forall b (cf : conf), runf (a + b) c d cf = runf b c d (runf a c d cf).
Proof.
  induction a as [|a IH]; intros b cf; [reflexivity|].
  cbn [plus tr_run_from]. destruct (stepc c d cf) as [cf'|] eqn:E; [apply IH|].
  symmetry. apply run_stuck. exact E.
Qed.

Lemma run_one c d (cf cf' : conf) : stepc c d cf = Some cf' -> runf 1 c d cf = cf'.
Proof. intro E. cbn [tr_run_from]. rewrite E. reflexivity. Qed.

Lemma run_S c d n (cf cf' : conf) : stepc c d cf = Some cf' -> runf (S n) c d cf = runf n c d cf'.
Proof. intro E. cbn [tr_run_from]. rewrite E. reflexivity. Qed.

(* delivering to the receiver / to the sender *)
Lemma step_recv c d s r m q r2s log r' outs :
  receiver c d r m = (r', outs) ->
  stepc c d (mkConf digest s r (m :: q) r2s log) = Some (mkConf digest s r' q (r2s ++ outs) (log ++ tag_out false outs)).
Proof. intro E. unfold tr_step. cbn [cf_s2r cf_r cf_s cf_r2s cf_log]. rewrite E. reflexivity. Qed.

Lemma step_send c d s r m q log s' outs :
  sender c s m = (s', outs) ->
  stepc c d (mkConf digest s r [] (m :: q) log) = Some (mkConf digest s' r outs q (log ++ tag_out true outs)).
Proof. intro E. unfold tr_step. cbn [cf_s2r cf_r cf_s cf_r2s cf_log]. rewrite E. reflexivity. Qed.

Lemma step_recv' c d s r m q r2s log :
  stepc c d (mkConf digest s r (m :: q) r2s log) =
  Some (mkConf digest s (fst (receiver c d r m)) q (r2s ++ snd (receiver c d r m)) (log ++ tag_out false (snd (receiver c d r m)))).
Proof. destruct (receiver c d r m) as [r' outs] eqn:E. apply step_recv. exact E. Qed.

Lemma step_send' c d s r m q log :
  stepc c d (mkConf digest s r [] (m :: q) log) =
  Some (mkConf digest (fst (sender c s m)) r (snd (sender c s m)) q (log ++ tag_out true (snd (sender c s m)))).
Proof. destruct (sender c s m) as [s' outs] eqn:E. apply step_send. exact E. Qed.

Lemma tag_out_app dir (a b : list msg) : tag_out dir (a ++ b) = tag_out dir a ++ tag_out dir b.
Proof. unfold tr_tag_out. apply map_app. Qed.

(* ---------- transitions of the sender, one lemma per protocol step ---------- *)
Lemma snd_num c todo names :
  sender c (mkSS SpNum todo names) (TrSuccInt digest (N.of_nat (length todo))) = s_next c todo names.
Proof. unfold tr_sender. cbn [ss_phase ss_todo ss_names]. rewrite N.eqb_refl. reflexivity. Qed.

Definition name_reply (c : tr_cfg) (ln : name) (tsize : N) : msg :=
  if tr_json_names c then TrSuccTarget digest ln tsize else TrSuccName digest ln.

Lemma snd_name c e sc rest names nm sz :
  sender c (mkSS SpName ((e, sc) :: rest) names) (name_reply c nm sz) =
  tr_s_named digest hx ahdr c (mkSS SpName ((e, sc) :: rest) names) e sc rest nm (if tr_json_names c then sz else 0).
Proof. unfold tr_sender, name_reply. cbn [ss_phase ss_todo ss_names]. destruct (tr_json_names c); reflexivity. Qed.

Lemma snd_size c e sc rest names :
  sender c (mkSS SpSize ((e, sc) :: rest) names) (TrSuccInt digest (te_size e)) =
  tr_s_data digest H zcomp zl c (mkSS SpSize ((e, sc) :: rest) names) e sc.
Proof. unfold tr_sender. cbn [ss_phase ss_todo ss_names]. rewrite N.eqb_refl. reflexivity. Qed.

Lemma snd_ack c todo names l ls step :
  sender c (mkSS (SpAcks (l :: ls)) todo names) (TrSuccAck digest l step) =
  (mkSS (match ls with [] => SpFinal | _ => SpAcks ls end) todo names, []).
Proof. unfold tr_sender. cbn [ss_phase ss_todo ss_names]. rewrite N.eqb_refl. reflexivity. Qed.

Lemma snd_prefinal c e sc rest names step : step <? te_size e = true ->
  sender c (mkSS SpFinal ((e, sc) :: rest) names) (TrSuccInt digest step) = (mkSS SpFinal ((e, sc) :: rest) names, []).
Proof.
  intro Hlt. unfold tr_sender. cbn [ss_phase ss_todo ss_names].
  apply N.ltb_lt in Hlt.
  assert (E1 : te_size e <? step = false) by (apply N.ltb_ge; lia).
  assert (E2 : step =? te_size e = false) by (apply N.eqb_neq; lia).
  rewrite E1, E2. reflexivity.
Qed.

Lemma snd_final c e sc rest names :
  sender c (mkSS SpFinal ((e, sc) :: rest) names) (TrSuccInt digest (te_size e)) =
  (mkSS SpMd5 ((e, sc) :: rest) names, [TrMd5 digest (H (te_data e))]).
Proof.
  unfold tr_sender. cbn [ss_phase ss_todo ss_names]. rewrite N.ltb_irrefl, N.eqb_refl. reflexivity.
Qed.

Lemma snd_v1 c e sc rest names chs n :
  sender c (mkSS (SpV1 chs n) ((e, sc) :: rest) names) (TrSuccInt digest n) =
  match chs with
  | [] => (mkSS SpMd5 ((e, sc) :: rest) names, [TrMd5 digest (H (te_data e))])
  | ch :: chs' => (mkSS (SpV1 chs' (tr_blen ch)) ((e, sc) :: rest) names, [TrData digest (tr_v1_payload zl c ch)])
  end.
Proof. unfold tr_sender. cbn [ss_phase ss_todo ss_names]. rewrite N.eqb_refl. destruct chs; reflexivity. Qed.

Hypothesis deq_refl : forall a, deq a a = true.

Lemma snd_md5 c e sc rest names :
  sender c (mkSS SpMd5 ((e, sc) :: rest) names) (TrSuccDigest digest (H (te_data e))) = s_next c rest names.
Proof. unfold tr_sender. cbn [ss_phase ss_todo ss_names]. rewrite deq_refl. reflexivity. Qed.

Lemma snd_exit c todo names ns :
  sender c (mkSS SpExit todo names) (TrExit digest ns) = (mkSS SpDone todo names, []).
Proof. reflexivity. Qed.

(* ---------- transitions of the receiver ---------- *)
Lemma rcv_num c d st names sch n :
  receiver c d (mkRS RpNum O st names sch) (TrNum digest n) =
  (fst (r_next c (N.to_nat n) st names sch), TrSuccInt digest n :: snd (r_next c (N.to_nat n) st names sch)).
Proof.
  unfold tr_receiver. cbn [rs_phase rs_st rs_names rs_sched]. destruct (r_next c (N.to_nat n) st names sch). reflexivity.
Qed.

Lemma rcv_name c d left st names sch p :
  receiver c d (mkRS RpName left st names sch) (TrName digest p) = tr_r_name digest c d (mkRS RpName left st names sch) p.
Proof. reflexivity. Qed.

Lemma rcv_size c d left st names sch op p n :
  receiver c d (mkRSx (RpSize p) left st names sch op) (TrSize digest n) = tr_r_size digest c (mkRSx (RpSize p) left st names sch op) p n.
Proof. reflexivity. Qed.

Lemma rcv_comp c d left st names sch op p size b :
  receiver c d (mkRSx (RpComp p size) left st names sch op) (TrComp digest b) =
  (mkRSx (RpData p size b [] (sc_steps (tr_cur_sched (mkRSx (RpComp p size) left st names sch op)))) left st names sch op, []).
Proof. reflexivity. Qed.

Lemma rcv_frame c d left st names sch op p size cp acc steps f :
  receiver c d (mkRSx (RpData p size cp acc steps) left st names sch op) (TrData digest f) =
  tr_r_frame digest zdecomp aparse c (mkRSx (RpData p size cp acc steps) left st names sch op) p size cp acc steps f.
Proof. reflexivity. Qed.

Lemma rcv_v1 c d left st names sch p size w pl :
  receiver c d (mkRS (RpV1 p size w) left st names sch) (TrData digest pl) =
  tr_r_v1 digest unzl c (mkRS (RpV1 p size w) left st names sch) p size w pl.
Proof. reflexivity. Qed.

Lemma rcv_md5 c d left st names sch op p w dg :
  receiver c d (mkRSx (RpMd5 p w) left st names sch op) (TrMd5 digest dg) =
  tr_r_md5 digest H deq aparse c d (mkRSx (RpMd5 p w) left st names sch op) p w dg.
Proof. reflexivity. Qed.

Lemma rcv_exit c d left st names sch ns :
  receiver c d (mkRS RpExit left st names sch) (TrExit digest ns) = (mkRS RpDone left st names sch, []).
Proof. reflexivity. Qed.

(* ---------- the configuration between two entries ---------- *)
(* both loops are at their top: the sender has emitted the next NAME (or, after the last
   entry, the client has emitted EXIT), the receiver waits for it *)
Definition between (c : tr_cfg) (ess : list (tr_entry * tr_sched)) (st : state) (names : list name)
    (L : list (bool * msg)) : conf :=
  let sn := s_next c ess names in
  let rn := r_next c (length ess) st names (map snd ess) in
  mkConf digest (fst sn) (fst rn) (snd sn) (snd rn) (L ++ tag_out false (snd rn) ++ tag_out true (snd sn)).

Lemma between_cons c e sc ess st names L :
  between c ((e, sc) :: ess) st names L =
  mkConf digest (mkSS SpName ((e, sc) :: ess) names) (mkRS RpName (S (length ess)) st names (sc :: map snd ess))
    [TrName digest (tr_payload c e)] [] (L ++ [(true, TrName digest (tr_payload c e))]).
Proof. reflexivity. Qed.

(* the acks the receiver writes for a run of non-empty frames, and the steps left over *)
Fixpoint acks_go (fs : list (list byte)) (steps : list N) : list msg * list N :=
  match fs with
  | [] => ([], steps)
  | f :: r =>
    let '(a, s') := acks_go r (tl steps) in
    (TrSuccAck digest (tr_blen f) (match steps with s :: _ => s | [] => 0 end) :: a, s')
  end.

Lemma acks_go_length fs : forall steps, length (fst (acks_go fs steps)) = length fs.
Proof.
  induction fs as [|f r IH]; intro steps; [reflexivity|]. cbn [acks_go].
  specialize (IH (tl steps)). destruct (acks_go r (tl steps)). cbn in *. congruence.
Qed.

Lemma nonempty_cons {A} (f : list A) : nonempty f = true -> exists x r, f = x :: r.
Proof. destruct f; [discriminate | eauto]. Qed.

(* the receiver takes a run of non-empty frames *)
Lemma recv_frames c d p size cp left st names sch op : forall fs s acc steps q r2s log,
  all_nonempty fs = true ->
  runf (length fs) c d
    (mkConf digest s (mkRSx (RpData p size cp acc steps) left st names sch op) (map (TrData digest) fs ++ q) r2s log) =
  mkConf digest s (mkRSx (RpData p size cp (acc ++ fs) (snd (acks_go fs steps))) left st names sch op) q
    (r2s ++ fst (acks_go fs steps)) (log ++ tag_out false (fst (acks_go fs steps))).
Proof.
  induction fs as [|f r IH]; intros s acc steps q r2s log Hne.
  - cbn. rewrite !app_nil_r. reflexivity.
  - cbn [all_nonempty forallb] in Hne. apply andb_true_iff in Hne as [Hf Hr].
    destruct (nonempty_cons f Hf) as (x & fr & ->).
    cbn [length map app]. erewrite run_S; [|apply step_recv; rewrite rcv_frame; reflexivity].
    cbn [tr_r_phase rs_left rs_st rs_names rs_sched].
    rewrite (IH s (acc ++ [x :: fr]) (tl steps) q _ _ Hr). cbn [acks_go].
    destruct (acks_go r (tl steps)) as [a s'] eqn:E. cbn [fst snd].
    repeat rewrite <- app_assoc. cbn [app]. unfold tr_tag_out. cbn [map]. repeat rewrite <- app_assoc. reflexivity.
Qed.

(* the sender takes the matching acks *)
Lemma send_acks c d todo names r : forall fs steps more q log,
  more <> [] ->
  runf (length fs) c d
    (mkConf digest (mkSS (SpAcks (map tr_blen fs ++ more)) todo names) r [] (fst (acks_go fs steps) ++ q) log) =
  mkConf digest (mkSS (SpAcks more) todo names) r [] q log.
Proof.
  induction fs as [|f fr IH]; intros steps more q log Hm; [reflexivity|].
  cbn [length map app acks_go]. destruct (acks_go fr (tl steps)) as [a s'] eqn:E. cbn [fst app].
  erewrite run_S; [|apply step_send; apply snd_ack].
  assert (Hn : map tr_blen fr ++ more <> []) by (destruct fr; [exact Hm | discriminate]).
  destruct (map tr_blen fr ++ more) as [|l ls] eqn:El; [congruence|]. rewrite <- El.
  unfold tr_tag_out. cbn [map]. rewrite app_nil_r.
  specialize (IH (tl steps) more q log Hm). rewrite E in IH. cbn [fst] in IH. exact IH.
Qed.

Lemma send_prefinal c d e sc rest names r : forall (pf : list N) q log,
  Forall (fun s => s <? te_size e = true) pf ->
  runf (length pf) c d
    (mkConf digest (mkSS SpFinal ((e, sc) :: rest) names) r [] (map (TrSuccInt digest) pf ++ q) log) =
  mkConf digest (mkSS SpFinal ((e, sc) :: rest) names) r [] q log.
Proof.
  induction pf as [|x pf IH]; intros q log Hf; [reflexivity|].
  inversion Hf; subst. cbn [length map app].
  erewrite run_S; [|apply step_send; apply snd_prefinal; assumption].
  unfold tr_tag_out. cbn [map]. rewrite app_nil_r. apply IH. assumption.
Qed.

Lemma filter_Forall {A} (f : A -> bool) l : Forall (fun x => f x = true) (filter f l).
Proof.
  induction l as [|x l IH]; cbn; [constructor|]. destruct (f x) eqn:E; [constructor; assumption | assumption].
Qed.

(* ---------- what the specification says about one entry ---------- *)
Lemma payload_isdir c e : (te_isdir e && negb (tr_json c)) = false -> tr_p_isdir (tr_payload c e) = te_isdir e.
Proof.
  unfold tr_payload. destruct (tr_json c); cbn [tr_p_isdir s_isdir]; [reflexivity|].
  destruct (te_isdir e); [discriminate | reflexivity].
Qed.

Lemma payload_archive c e : tr_p_archive (tr_payload c e) = tr_json c && tr_has_subs e.
Proof. unfold tr_payload. destruct (tr_json c); reflexivity. Qed.

Lemma payload_aid c e : tr_json c = true -> tr_p_aid (tr_payload c e) = te_id e.
Proof. unfold tr_payload. intros ->. reflexivity. Qed.

(* an entry without SubFiles: a directory, a file that is resumed, or a file that is written whole *)
Lemma spec_plain_inv c d e sc st ln st' : tr_has_subs e = false -> spec_entry c d e sc st = Some (ln, st') ->
  (te_isdir e && negb (tr_json c)) = false /\
  exists st1, tr_create c d (tr_payload c e) [] st = (NOk ln, st1) /\
    if te_isdir e then st' = st1
    else if tr_json_names c && (0 <? tr_target_size d ln (tr_payload c e) st1)
         then exists o, tr_resume_run hx c e sc (tr_old_content st1 (tr_leaf d ln (tr_payload c e))) = Resume.Done o /\
                st' = tr_set_file st1 (tr_leaf d ln (tr_payload c e)) (Resume.o_final o)
         else exists ln2, tr_create c d (tr_payload c e) (te_data e) st = (NOk ln2, st').
Proof.
  intro Hsub. unfold tr_spec_entry. rewrite Hsub. destruct (te_isdir e && negb (tr_json c)) eqn:E0; [discriminate|].
  destruct (tr_create c d (tr_payload c e) [] st) as [[l1|] st1] eqn:E1; [|discriminate].
  destruct (te_isdir e).
  - intro Hx; inversion Hx; subst. split; [reflexivity|]. exists st'. split; reflexivity.
  - destruct (tr_json_names c && (0 <? tr_target_size d l1 (tr_payload c e) st1)) eqn:E2.
    + destruct (tr_resume_run hx c e sc _) as [o| | | |] eqn:Er; try discriminate.
      intro Hx; inversion Hx; subst. split; [reflexivity|]. exists st1. split; [reflexivity|]. rewrite E2. exists o. split; [exact Er | reflexivity].
    + destruct (tr_create c d (tr_payload c e) (te_data e) st) as [[l2|] st2] eqn:E3; [|discriminate].
      intro Hx; inversion Hx; subst. split; [reflexivity|]. exists st1. split; [reflexivity|]. rewrite E2. exists l2. reflexivity.
Qed.

(* ---------- a directory entry: NAME, reply ---------- *)
Definition dir_log (c : tr_cfg) (e : tr_entry) (ln : name) : list (bool * msg) :=
  [(true, TrName digest (tr_payload c e)); (false, name_reply c ln 0)].

Lemma r_name_dir c d e k st names sc sch ln st' :
  tr_has_subs e = false -> te_isdir e = true -> (te_isdir e && negb (tr_json c)) = false ->
  tr_create c d (tr_payload c e) [] st = (NOk ln, st') ->
  tr_r_name digest c d (mkRS RpName (S k) st names (sc :: sch)) (tr_payload c e) =
  (fst (r_next c k st' (tr_add_name names ln) sch), name_reply c ln 0 :: snd (r_next c k st' (tr_add_name names ln) sch)).
Proof.
  intros Hsub Hd E0 E1.
  unfold tr_r_name. cbn [rs_st rs_names rs_phase rs_left rs_sched rs_open]. rewrite E1, payload_archive, Hsub, andb_false_r, (payload_isdir _ _ E0), Hd.
  cbn [orb]. unfold tr_r_done. cbn [rs_left rs_names rs_sched pred tl].
  destruct (r_next c k st' (tr_add_name names ln) sch) as [rn ro]. reflexivity.
Qed.

Lemma entry_dir c d e sc ess st names L ln st' :
  tr_has_subs e = false -> te_isdir e = true -> (te_isdir e && negb (tr_json c)) = false ->
  tr_create c d (tr_payload c e) [] st = (NOk ln, st') ->
  runf 2 c d (between c ((e, sc) :: ess) st names L) =
  between c ess st' (tr_add_name names ln) (L ++ dir_log c e ln).
Proof.
  intros Hsub Hd E0 E1. rewrite between_cons.
  rewrite (run_S _ _ _ _ _ (step_recv' _ _ _ _ _ _ _ _)), rcv_name, (r_name_dir c d e (length ess) st names sc (map snd ess) ln st' Hsub Hd E0 E1).
  cbn [fst snd app].
  rewrite (run_one _ _ _ _ (step_send' _ _ _ _ _ _ _)), snd_name.
  unfold tr_s_named. rewrite Hsub, andb_false_r, Hd. cbn [ss_names].
  unfold between, dir_log.
  destruct (r_next c (length ess) st' (tr_add_name names ln) (map snd ess)) as [rn ro].
  destruct (s_next c ess (tr_add_name names ln)) as [sn so]. cbn [fst snd].
  unfold tr_tag_out; cbn [map app]; repeat rewrite <- app_assoc; reflexivity.
Qed.

(* ---------- the data of a file, pipelined exchange (protocol >= 2): SIZE .. MD5 ---------- *)
Hypothesis z_roundtrip : forall cs, zdecomp (concat (zcomp cs)) = Some (concat cs).
Hypothesis z_bytes : forall cs, bytes_ok (concat (zcomp cs)) = true.
Hypothesis zl_roundtrip : forall d, unzl (zl d) = Some d.
Hypothesis zl_bytes : forall d, bytes_ok (zl d) = true.

Notation table_ok := tr_table_ok.

Lemma size_file e : te_isdir e = false -> te_size e = tr_blen (te_data e).
Proof. unfold te_size. intros ->. reflexivity. Qed.

(* the phase the receiver is in after the SIZE echo *)
Definition after_size (c : tr_cfg) (p : tr_npayload) (e : tr_entry) (sc : tr_sched) : tr_rphase :=
  match tr_is_compress_fixed c (te_size e) with
  | (true, cp) => RpData p (te_size e) cp [] (sc_steps sc)
  | (false, _) => RpComp p (te_size e)
  end.

Lemma r_size_v2 c p e left st names sc sch op : tr_pipeline c = true ->
  tr_r_size digest c (mkRSx (RpSize p) left st names (sc :: sch) op) p (te_size e) =
  (mkRSx (after_size c p e sc) left st names (sc :: sch) op, [TrSuccInt digest (te_size e)]).
Proof.
  intro Hp. unfold tr_r_size, after_size. rewrite Hp. destruct (tr_is_compress_fixed c (te_size e)) as [[|] cp]; reflexivity.
Qed.

Lemma recv_comp c d p e sc s left st names sch op q r2s log :
  runf (length (snd (compress c e sc))) c d
    (mkConf digest s (mkRSx (after_size c p e sc) left st names (sc :: sch) op) (snd (compress c e sc) ++ q) r2s log) =
  mkConf digest s (mkRSx (RpData p (te_size e) (fst (compress c e sc)) [] (sc_steps sc)) left st names (sc :: sch) op)
    q r2s log.
Proof.
  unfold after_size, tr_compress. destruct (tr_is_compress_fixed c (te_size e)) as [[|] cp]; cbn [fst snd length app]; [reflexivity|].
  rewrite (run_one _ _ _ _ (step_recv' _ _ _ _ _ _ _ _)), rcv_comp. cbn [fst snd]. rewrite !app_nil_r. reflexivity.
Qed.

Definition finish_ack (fs : list (list byte)) (steps : list N) : msg :=
  TrSuccAck digest 0 (match snd (acks_go fs steps) with s :: _ => s | [] => 0 end).

Lemma snd_finish_ack c todo names fs steps :
  sender c (mkSS (SpAcks [0]) todo names) (finish_ack fs steps) = (mkSS SpFinal todo names, []).
Proof. unfold finish_ack. apply snd_ack. Qed.

Definition prefinal_of (e : tr_entry) (sc : tr_sched) : list N := filter (fun s => s <? te_size e) (sc_prefinal sc).

(* [p] names the entry, [e] is the FILE whose data goes over the wire: the entry itself, the rest of it
   (resume), or the archive stream.  If [p] is an archive, the writer accepts the stream. *)
Lemma r_finish c p e left st names sc sch op : table_ok c -> bytes_ok (te_data e) = true -> te_isdir e = false ->
  (tr_p_archive p = true -> exists t, tr_unarchive aparse (tr_p_aid p) sc (te_data e) = Some t) ->
  tr_r_frame digest zdecomp aparse c
    (mkRSx (RpData p (te_size e) (fst (compress c e sc)) ([] ++ frames c e sc) (snd (acks_go (frames c e sc) (sc_steps sc))))
       left st names (sc :: sch) op)
    p (te_size e) (fst (compress c e sc)) ([] ++ frames c e sc) (snd (acks_go (frames c e sc) (sc_steps sc))) [] =
  (mkRSx (RpMd5 p (te_data e)) left st names (sc :: sch) op,
   [finish_ack (frames c e sc) (sc_steps sc)] ++ map (TrSuccInt digest) (prefinal_of e sc) ++ [TrSuccInt digest (te_size e)]).
Proof.
  intros Ht Hb Hd Ha. unfold tr_r_frame. cbn [app].
  unfold tr_frames at 1.
  rewrite (L1_roundtrip zcomp zdecomp z_roundtrip z_bytes (tc_binary c) (fst (compress c e sc)) (tc_table c) (te_chunks e)
             (sc_sizes sc) (sc_dflt sc) [] tr_rdflt Ht Hb (Forall_nil _) (le_n 1)).
  assert (Es : tr_blen (concat (te_chunks e)) =? te_size e = true) by (rewrite (size_file e Hd); apply N.eqb_refl).
  rewrite Es. fold (te_data e). unfold tr_cur_sched. cbn [rs_sched].
  destruct (tr_p_archive p) eqn:Ea; [|reflexivity]. destruct (Ha eq_refl) as (t & ->). reflexivity.
Qed.

(* SIZE, echo, [COMP], frames, finish flag, acks, final acks; the sender has emitted MD5 *)
Definition tail_log (c : tr_cfg) (e : tr_entry) (sc : tr_sched) : list (bool * msg) :=
  let fs := frames c e sc in
  [(false, TrSuccInt digest (te_size e))]
  ++ tag_out true (snd (compress c e sc) ++ map (TrData digest) fs ++ [TrData digest []])
  ++ tag_out false (fst (acks_go fs (sc_steps sc)) ++ [finish_ack fs (sc_steps sc)]
                    ++ map (TrSuccInt digest) (prefinal_of e sc) ++ [TrSuccInt digest (te_size e)])
  ++ [(true, TrMd5 digest (H (te_data e)))].

Definition tail_steps (c : tr_cfg) (e : tr_entry) (sc : tr_sched) : nat :=
  1 + (1 + (length (snd (compress c e sc)) + (length (frames c e sc) + (1 + (length (frames c e sc) +
  (1 + (length (prefinal_of e sc) + 1))))))).

Lemma file_tail_v2 c d p e sc rest snames left st rnames sch op L :
  tr_pipeline c = true -> table_ok c -> bytes_ok (te_data e) = true -> te_isdir e = false ->
  (tr_p_archive p = true -> exists t, tr_unarchive aparse (tr_p_aid p) sc (te_data e) = Some t) ->
  runf (tail_steps c e sc) c d
    (mkConf digest (mkSS SpSize ((e, sc) :: rest) snames) (mkRSx (RpSize p) left st rnames (sc :: sch) op)
       [TrSize digest (te_size e)] [] L) =
  mkConf digest (mkSS SpMd5 ((e, sc) :: rest) snames) (mkRSx (RpMd5 p (te_data e)) left st rnames (sc :: sch) op)
    [TrMd5 digest (H (te_data e))] [] (L ++ tail_log c e sc).
Proof.
  intros Hp Ht Hb Hd Ha. unfold tail_steps.
  (* SIZE -> echo *)
  rewrite run_add, (run_one _ _ _ _ (step_recv' _ _ _ _ _ _ _ _)), rcv_size, (r_size_v2 c p e _ _ _ sc _ _ Hp). cbn [fst snd app].
  (* echo -> [COMP] frames finish *)
  rewrite run_add, (run_one _ _ _ _ (step_send' _ _ _ _ _ _ _)), snd_size.
  unfold tr_s_data. rewrite Hp. cbn [ss_names ss_todo fst snd].
  (* [COMP] *)
  rewrite run_add, recv_comp.
  (* frames *)
  rewrite run_add, recv_frames by apply frames_nonempty.
  (* finish flag *)
  rewrite run_add, (run_one _ _ _ _ (step_recv' _ _ _ _ _ _ _ _)), rcv_frame, (r_finish c p e _ _ _ sc _ _ Ht Hb Hd Ha). cbn [fst snd].
  (* the acks *)
  rewrite <- !app_assoc. cbn [app].
  rewrite run_add, send_acks by discriminate.
  rewrite run_add, (run_one _ _ _ _ (step_send' _ _ _ _ _ _ _)).
  rewrite !snd_finish_ack. cbn [fst snd].
  rewrite run_add, send_prefinal by apply filter_Forall.
  rewrite (run_one _ _ _ _ (step_send' _ _ _ _ _ _ _)), snd_final. cbn [fst snd].
  unfold tail_log. f_equal. rewrite !tag_out_app. norm_log. reflexivity.
Qed.

(* MD5 -> digest reply -> the next entry *)
Lemma md5_steps c d p e sc rest k st names sch op L st' :
  tr_complete aparse c d (mkRSx (RpMd5 p (te_data e)) (S k) st names (sc :: sch) op) p (te_data e) = Some st' ->
  length rest = k -> map snd rest = sch ->
  runf 2 c d
    (mkConf digest (mkSS SpMd5 ((e, sc) :: rest) names) (mkRSx (RpMd5 p (te_data e)) (S k) st names (sc :: sch) op)
       [TrMd5 digest (H (te_data e))] [] L) =
  between c rest st' names (L ++ [(false, TrSuccDigest digest (H (te_data e)))]).
Proof.
  intros Hc <- <-.
  rewrite (run_S _ _ _ _ _ (step_recv' _ _ _ _ _ _ _ _)), rcv_md5. unfold tr_r_md5. rewrite deq_refl, Hc.
  unfold tr_r_done. cbn [rs_left rs_names rs_sched pred tl].
  destruct (r_next c (length rest) st' names (map snd rest)) as [rn ro] eqn:Ern. cbn [fst snd app].
  rewrite (run_one _ _ _ _ (step_send' _ _ _ _ _ _ _)), snd_md5.
  unfold between. rewrite Ern.
  destruct (s_next c rest names) as [sn so]. cbn [fst snd].
  f_equal. norm_log. reflexivity.
Qed.

Lemma tail_steps_eq c e sc : tr_pipeline c = true -> tr_tail_steps digest zcomp c e sc = (tail_steps c e sc + 2)%nat.
Proof. intro Hp. unfold tr_tail_steps, tail_steps, prefinal_of. rewrite Hp. lia. Qed.

(* ---------- a file entry written whole, pipelined exchange ---------- *)
Lemma r_name_file c d e k st names sc sch ln st1 :
  tr_has_subs e = false -> te_isdir e = false -> (te_isdir e && negb (tr_json c)) = false ->
  tr_create c d (tr_payload c e) [] st = (NOk ln, st1) ->
  tr_json_names c && (0 <? tr_target_size d ln (tr_payload c e) st1) = false ->
  tr_r_name digest c d (mkRS RpName (S k) st names (sc :: sch)) (tr_payload c e) =
  (mkRS (RpSize (tr_payload c e)) (S k) st (tr_add_name names ln) (sc :: sch), [name_reply c ln 0]).
Proof.
  intros Hsub Hd E0 E1 E2.
  unfold tr_r_name. cbn [rs_st rs_names rs_phase rs_left rs_sched rs_open]. rewrite E1, payload_archive, Hsub, andb_false_r, (payload_isdir _ _ E0), Hd.
  cbn [orb]. rewrite E2.
  unfold tr_r_phase, name_reply. cbn [rs_st rs_names rs_phase rs_left rs_sched rs_open].
  destruct (tr_json_names c) eqn:Ej; [|reflexivity].
  cbn [andb] in E2. apply N.ltb_ge in E2. apply N.le_0_r in E2. rewrite E2. reflexivity.
Qed.

Definition file_log_v2 (c : tr_cfg) (e : tr_entry) (sc : tr_sched) (ln : name) : list (bool * msg) :=
  [(true, TrName digest (tr_payload c e)); (false, name_reply c ln 0); (true, TrSize digest (te_size e))]
  ++ tail_log c e sc ++ [(false, TrSuccDigest digest (H (te_data e)))].

Lemma entry_file_v2 c d e sc ess st names L ln st1 ln2 st' :
  tr_pipeline c = true -> table_ok c -> bytes_ok (te_data e) = true ->
  tr_has_subs e = false -> te_isdir e = false -> (te_isdir e && negb (tr_json c)) = false ->
  tr_create c d (tr_payload c e) [] st = (NOk ln, st1) ->
  tr_json_names c && (0 <? tr_target_size d ln (tr_payload c e) st1) = false ->
  tr_create c d (tr_payload c e) (te_data e) st = (NOk ln2, st') ->
  runf (2 + (tail_steps c e sc + 2)) c d (between c ((e, sc) :: ess) st names L) =
  between c ess st' (tr_add_name names ln) (L ++ file_log_v2 c e sc ln).
Proof.
  intros Hp Ht Hb Hsub Hd E0 E1 E2 E3. rewrite between_cons.
  (* NAME -> reply *)
  rewrite run_add. cbn [tr_run_from].
  rewrite (step_recv' _ _ _ _ _ _ _ _), rcv_name, (r_name_file c d e (length ess) st names sc (map snd ess) ln st1 Hsub Hd E0 E1 E2). cbn [fst snd app].
  (* reply -> SIZE *)
  rewrite (step_send' _ _ _ _ _ _ _), snd_name.
  replace (if tr_json_names c then 0 else 0) with 0 by (destruct (tr_json_names c); reflexivity).
  unfold tr_s_named. rewrite Hsub, andb_false_r, Hd, N.ltb_irrefl. cbn [ss_names ss_todo fst snd].
  rewrite run_add, (file_tail_v2 c d (tr_payload c e) e sc ess _ _ _ _ _ None _ Hp Ht Hb Hd).
  2:{ rewrite payload_archive, Hsub, andb_false_r. discriminate. }
  rewrite (md5_steps c d (tr_payload c e) e sc ess (length ess) st _ (map snd ess) None _ st' ); [|  | reflexivity | reflexivity].
  - unfold file_log_v2. f_equal. norm_log. reflexivity.
  - unfold tr_complete. cbn [rs_open rs_st]. rewrite payload_archive, Hsub, andb_false_r, E3. reflexivity.
Qed.
(* ---------- a file entry, legacy exchange (protocol 1): stop and wait ---------- *)
Fixpoint dbl (n : nat) : nat := match n with O => O | S m => S (S (dbl m)) end.
Lemma dbl_spec n : dbl n = (2 * n)%nat.
Proof. induction n; cbn [dbl]; lia. Qed.

Fixpoint v1_log (c : tr_cfg) (e : tr_entry) (ch : list byte) (chs : list (list byte)) : list (bool * msg) :=
  (false, TrSuccInt digest (tr_blen ch)) ::
  match chs with
  | [] => [(true, TrMd5 digest (H (te_data e)))]
  | ch' :: chs' => (true, TrData digest (tr_v1_payload zl c ch')) :: v1_log c e ch' chs'
  end.

Lemma bytes_ok_app a b : bytes_ok (a ++ b) = bytes_ok a && bytes_ok b.
Proof. apply forallb_app. Qed.

Lemma blen_app a b : tr_blen (a ++ b) = tr_blen a + tr_blen b.
Proof. unfold tr_blen. rewrite app_length. lia. Qed.

Lemma r_v1_ok c left st names sch p size w ch : table_ok c -> bytes_ok ch = true ->
  tr_r_v1 digest unzl c (mkRS (RpV1 p size w) left st names sch) p size w (tr_v1_payload zl c ch) =
  (mkRS (if tr_blen (w ++ ch) <? size then RpV1 p size (w ++ ch) else RpMd5 p (w ++ ch)) left st names sch,
   [TrSuccInt digest (tr_blen ch)]).
Proof.
  intros Ht Hb. unfold tr_r_v1, tr_v1_payload.
  rewrite (v1_roundtrip zl unzl zl_roundtrip zl_bytes (tc_binary c) (tc_table c) ch Ht Hb). reflexivity.
Qed.

Lemma v1_loop c d e sc rest names p left st rnames sch : table_ok c -> te_isdir e = false ->
  forall chs ch w log, bytes_ok (te_data e) = true -> all_nonempty (ch :: chs) = true ->
  w ++ ch ++ concat chs = te_data e ->
  runf (dbl (length (ch :: chs))) c d
    (mkConf digest (mkSS (SpV1 chs (tr_blen ch)) ((e, sc) :: rest) names) (mkRS (RpV1 p (te_size e) w) left st rnames sch)
       [TrData digest (tr_v1_payload zl c ch)] [] log) =
  mkConf digest (mkSS SpMd5 ((e, sc) :: rest) names) (mkRS (RpMd5 p (te_data e)) left st rnames sch)
    [TrMd5 digest (H (te_data e))] [] (log ++ v1_log c e ch chs).
Proof.
  intros Ht Hd. induction chs as [|ch2 chs IH]; intros ch w log Hb Hne Hw.
  - cbn [length dbl concat] in *. rewrite app_nil_r in Hw.
    assert (Hbc : bytes_ok ch = true).
    { rewrite <- Hw, bytes_ok_app in Hb. apply andb_true_iff in Hb. tauto. }
    rewrite (run_S _ _ _ _ _ (step_recv' _ _ _ _ _ _ _ _)), rcv_v1, (r_v1_ok c _ _ _ _ _ _ _ ch Ht Hbc). cbn [fst snd app].
    rewrite Hw, (size_file e Hd), N.ltb_irrefl.
    rewrite (run_one _ _ _ _ (step_send' _ _ _ _ _ _ _)), snd_v1. cbn [fst snd v1_log].
    norm_log. reflexivity.
  - cbn [length dbl] in *. cbn [concat] in Hw.
    cbn [all_nonempty forallb] in Hne. apply andb_true_iff in Hne as [Hn1 Hn2].
    assert (Hbc : bytes_ok ch = true).
    { rewrite <- Hw, !bytes_ok_app in Hb. repeat (apply andb_true_iff in Hb as [Hb ?]). rewrite !andb_true_iff in *. tauto. }
    rewrite (run_S _ _ _ _ _ (step_recv' _ _ _ _ _ _ _ _)), rcv_v1, (r_v1_ok c _ _ _ _ _ _ _ ch Ht Hbc). cbn [fst snd app].
    assert (Hlt : tr_blen (w ++ ch) <? te_size e = true).
    { apply N.ltb_lt. rewrite (size_file e Hd), <- Hw. rewrite app_assoc, (blen_app (w ++ ch)), blen_app.
      cbn [forallb] in Hn2. apply andb_true_iff in Hn2 as [Hn2 _]. destruct ch2; [discriminate|].
      assert (0 < tr_blen ((b :: ch2) ++ concat chs)) by (unfold tr_blen; cbn [app length]; lia). lia. }
    rewrite Hlt.
    rewrite (run_S _ _ _ _ _ (step_send' _ _ _ _ _ _ _)), snd_v1. cbn [fst snd].
    rewrite (IH ch2 (w ++ ch) _ Hb Hn2) by (rewrite <- app_assoc; exact Hw).
    cbn [v1_log]. norm_log. reflexivity.
Qed.

Lemma wire_frames_nil sizes dflt : wire_frames sizes dflt [] = [].
Proof. unfold wire_frames. destruct (next_size sizes dflt). reflexivity. Qed.

Definition v1_data_log (c : tr_cfg) (e : tr_entry) (sc : tr_sched) : list (bool * msg) :=
  match tr_v1_chunks e sc with
  | [] => [(true, TrMd5 digest (H (te_data e)))]
  | ch :: chs => (true, TrData digest (tr_v1_payload zl c ch)) :: v1_log c e ch chs
  end.

Definition file_log_v1 (c : tr_cfg) (e : tr_entry) (sc : tr_sched) (ln : name) : list (bool * msg) :=
  [(true, TrName digest (tr_payload c e)); (false, name_reply c ln 0);
   (true, TrSize digest (te_size e)); (false, TrSuccInt digest (te_size e))]
  ++ v1_data_log c e sc ++ [(false, TrSuccDigest digest (H (te_data e)))].

Lemma r_size_v1 c e left st names sch : tr_pipeline c = false ->
  tr_r_size digest c (mkRS (RpSize (tr_payload c e)) left st names sch) (tr_payload c e) (te_size e) =
  (mkRS (if 0 <? te_size e then RpV1 (tr_payload c e) (te_size e) [] else RpMd5 (tr_payload c e) []) left st names sch,
   [TrSuccInt digest (te_size e)]).
Proof. intro Hp. unfold tr_r_size. rewrite Hp. destruct (0 <? te_size e); reflexivity. Qed.

Definition steps_v1 (e : tr_entry) (sc : tr_sched) : nat :=
  1 + (1 + (1 + (1 + (dbl (length (tr_v1_chunks e sc)) + 2)))).

Lemma entry_file_v1 c d e sc ess st names L ln st1 ln2 st' :
  tr_pipeline c = false -> table_ok c -> bytes_ok (te_data e) = true ->
  tr_has_subs e = false -> te_isdir e = false -> (te_isdir e && negb (tr_json c)) = false ->
  tr_create c d (tr_payload c e) [] st = (NOk ln, st1) ->
  tr_json_names c && (0 <? tr_target_size d ln (tr_payload c e) st1) = false ->
  tr_create c d (tr_payload c e) (te_data e) st = (NOk ln2, st') ->
  runf (steps_v1 e sc) c d (between c ((e, sc) :: ess) st names L) =
  between c ess st' (tr_add_name names ln) (L ++ file_log_v1 c e sc ln).
Proof.
  intros Hp Ht Hb Hsub Hd E0 E1 E2 E3. rewrite between_cons. unfold steps_v1.
  assert (Hcomp : tr_complete aparse c d (mkRS (RpMd5 (tr_payload c e) (te_data e)) (S (length ess)) st (tr_add_name names ln) (sc :: map snd ess))
                    (tr_payload c e) (te_data e) = Some st').
  { unfold tr_complete. cbn [rs_open rs_st]. rewrite payload_archive, Hsub, andb_false_r, E3. reflexivity. }
  rewrite run_add, (run_one _ _ _ _ (step_recv' _ _ _ _ _ _ _ _)), rcv_name,
    (r_name_file c d e (length ess) st names sc (map snd ess) ln st1 Hsub Hd E0 E1 E2). cbn [fst snd app].
  rewrite run_add, (run_one _ _ _ _ (step_send' _ _ _ _ _ _ _)), snd_name.
  replace (if tr_json_names c then 0 else 0) with 0 by (destruct (tr_json_names c); reflexivity).
  unfold tr_s_named. rewrite Hsub, andb_false_r, Hd, N.ltb_irrefl. cbn [ss_names ss_todo fst snd].
  rewrite run_add, (run_one _ _ _ _ (step_recv' _ _ _ _ _ _ _ _)), rcv_size, (r_size_v1 c e _ _ _ _ Hp). cbn [fst snd app].
  rewrite run_add, (run_one _ _ _ _ (step_send' _ _ _ _ _ _ _)), snd_size.
  unfold tr_s_data. rewrite Hp. unfold file_log_v1, v1_data_log.
  pose proof (frames_concat (sc_sizes sc) (sc_dflt sc) (te_data e)) as Hcat.
  pose proof (frames_nonempty (sc_sizes sc) (sc_dflt sc) (te_data e)) as Hne.
  fold (tr_v1_chunks e sc) in Hcat, Hne.
  destruct (tr_v1_chunks e sc) as [|ch chs] eqn:Ech.
  - (* empty file: MD5 at once *)
    cbn [concat] in Hcat. cbn [length dbl plus].
    assert (Hz : 0 <? te_size e = false) by (rewrite (size_file e Hd), <- Hcat; reflexivity).
    rewrite Hz. unfold tr_s_md5. cbn [fst snd ss_todo ss_names].
    rewrite Hcat.
    rewrite (md5_steps c d (tr_payload c e) e sc ess (length ess) st _ (map snd ess) None _ st' Hcomp eq_refl eq_refl).
    f_equal. norm_log. reflexivity.
  - assert (Hz : 0 <? te_size e = true).
    { apply N.ltb_lt. rewrite (size_file e Hd), <- Hcat. cbn [all_nonempty forallb] in Hne.
      apply andb_true_iff in Hne as [Hn _]. destruct ch; [discriminate|]. unfold tr_blen. cbn [concat app length]. lia. }
    rewrite Hz. cbn [fst snd ss_todo ss_names].
    rewrite run_add, (v1_loop c d e sc ess (tr_add_name names ln) _ _ _ _ _ Ht Hd chs ch [] _ Hb Hne Hcat).
    rewrite (md5_steps c d (tr_payload c e) e sc ess (length ess) st _ (map snd ess) None _ st' Hcomp eq_refl eq_refl).
    f_equal. norm_log. reflexivity.
Qed.

(* ---------- a file entry resumed (protocol >= 3, a non-empty file in the way) ---------- *)
Notation B := tr_hash_B.
Notation hmsg_of := (tr_hmsg digest).
Notation hack_of := (tr_hack digest).

Lemma rcv_hsize c d left st names sch op p leaf old n :
  receiver c d (mkRSx (RpHSize p leaf old) left st names sch op) (TrSize digest n) =
  (mkRSx (RpHash p leaf old Resume.r_init) left st names sch op, []).
Proof. reflexivity. Qed.

Lemma rcv_hash c d left st names sch op p leaf old r s h :
  receiver c d (mkRSx (RpHash p leaf old r) left st names sch op) (TrHash digest s h) =
  tr_r_hash digest hx (mkRSx (RpHash p leaf old r) left st names sch op) p leaf old r s h.
Proof. reflexivity. Qed.

Lemma rcv_over c d left st names sch op p leaf old r :
  receiver c d (mkRSx (RpHash p leaf old r) left st names sch op) (TrHashOver digest) =
  tr_r_over digest (mkRSx (RpHash p leaf old r) left st names sch op) p leaf old r.
Proof. reflexivity. Qed.

Lemma skipn_app_len {A} (a b : list A) : skipn (length a) (a ++ b) = b.
Proof. induction a as [|x a IH]; [reflexivity | exact IH]. Qed.

Lemma skipn_len_nil {A} (a : list A) : skipn (length a) a = [].
Proof. induction a as [|x a IH]; [reflexivity | exact IH]. Qed.

(* the receiver takes a run of HASH records: one step of Resume.recv_hashes each, the answers it appends *)
Lemma recv_hash_loop c d p leaf old left st names sch op : forall hs s r r' q r2s log,
  Resume.recv_hashes B hx old hs r = Resume.RBlocked r' ->
  runf (length hs) c d
    (mkConf digest s (mkRSx (RpHash p leaf old r) left st names sch op) (map hmsg_of hs ++ q) r2s log) =
  mkConf digest s (mkRSx (RpHash p leaf old r') left st names sch op) q
    (r2s ++ map hack_of (skipn (length (Resume.r_acks r)) (Resume.r_acks r')))
    (log ++ tag_out false (map hack_of (skipn (length (Resume.r_acks r)) (Resume.r_acks r')))).
Proof.
  induction hs as [|m hs IH]; intros s r r' q r2s log Hr.
  - cbn in Hr. inversion Hr; subst r'. rewrite skipn_len_nil. cbn. rewrite !app_nil_r. reflexivity.
  - destruct m as [hs0 h|]; [|cbn in Hr; discriminate].
    change (Resume.Hash hs0 h :: hs) with ([Resume.Hash hs0 h] ++ hs) in Hr. rewrite recv_hashes_app in Hr.
    destruct (Resume.recv_hashes B hx old [Resume.Hash hs0 h] r) as [rx|r1| | |] eqn:E1; try discriminate.
    cbn [length map app tr_hmsg].
    rewrite (run_S _ _ _ _ _ (step_recv' _ _ _ _ _ _ _ _)), rcv_hash. unfold tr_r_hash. rewrite E1.
    cbn [fst snd tr_r_phase rs_left rs_st rs_names rs_sched rs_open].
    rewrite (IH s r1 r' q _ _ Hr).
    destruct (recv_acks_grow B hx old [Resume.Hash hs0 h] r r1 (or_introl E1)) as (e1 & He1).
    destruct (recv_acks_grow B hx old hs r1 r' (or_introl Hr)) as (e2 & He2).
    rewrite He2, He1, <- app_assoc, !skipn_app_len.
    rewrite <- (app_assoc (Resume.r_acks r)), skipn_app_len, map_app, tag_out_app. norm_app. reflexivity.
Qed.


(* the sender takes the answers, as Resume.recv_acks does: on an honest receiver's answers to the
   announced steps it consumes them all, and has the verdict exactly when they contain it *)
Lemma snd_hack c e sc rest names size mstep step m :
  sender c (mkSS (SpHash size mstep) ((e, sc) :: rest) names) (TrSuccHack digest step m) =
  tr_s_hack digest (mkSS (SpHash size mstep) ((e, sc) :: rest) names) size mstep step m.
Proof. reflexivity. Qed.

Definition after_hacks (e : tr_entry) (sc : tr_sched) (rest : list (tr_entry * tr_sched)) (names : list name)
    (r : tr_rstate) (size : nat) (verdict : bool) (m : nat) (q : list msg) (log : list (bool * msg)) : conf :=
  if verdict then
    mkConf digest (mkSS SpSize ((tr_rem_entry e (Z.of_nat m), sc) :: rest) names) r
      [TrSize digest (te_size (tr_rem_entry e (Z.of_nat m)))] q
      (log ++ [(true, TrSize digest (te_size (tr_rem_entry e (Z.of_nat m))))])
  else mkConf digest (mkSS (SpHash (Z.of_nat size) (Z.of_nat m)) ((e, sc) :: rest) names) r [] q log.

Lemma send_hacks c d e sc rest names r src old size : forall l cur q log,
  Proofs.Resume.incr cur l -> Forall (fun s => s <= size)%nat l ->
  runf (length (Proofs.Resume.acks_of hx src old l)) c d
    (mkConf digest (mkSS (SpHash (Z.of_nat size) (Z.of_nat cur)) ((e, sc) :: rest) names) r []
       (map hack_of (Proofs.Resume.acks_of hx src old l) ++ q) log) =
  after_hacks e sc rest names r size (Proofs.Resume.verdict hx src old size l)
    (last (Proofs.Resume.take_good hx src old l) cur) q log.
Proof.
  induction l as [|s l IH]; intros cur q log Hin Hall; [reflexivity|].
  cbn [Proofs.Resume.incr] in Hin. destruct Hin as [Hcs Hin]. inversion Hall as [|? ? Hs Hall']; subst.
  cbn [Proofs.Resume.acks_of Proofs.Resume.verdict Proofs.Resume.take_good]. destruct (Proofs.Resume.good hx src old s) eqn:Hg.
  - cbn [length map app tr_hack Resume.a_step Resume.a_match].
    unfold tr_hack at 1. cbn [Resume.a_step Resume.a_match].
    rewrite (run_S _ _ _ _ _ (step_send' _ _ _ _ _ _ _)), snd_hack. unfold tr_s_hack. cbn [ss_todo negb ss_names].
    rewrite Proofs.Resume.last_cons_default.
    destruct (Z.eqb_spec (Z.of_nat s) (Z.of_nat size)) as [He|Hne].
    + assert (s = size) by lia. subst s. rewrite Nat.eqb_refl. cbn [orb].
      destruct l as [|s2 l]; [|cbn [Proofs.Resume.incr] in Hin; inversion Hall'; subst; lia].
      cbn [Proofs.Resume.acks_of length map app tr_run_from Proofs.Resume.take_good last fst snd].
      unfold after_hacks, tr_s_size. cbn [fst snd]. unfold tr_tag_out. cbn [map]. reflexivity.
    + destruct (Nat.eqb_spec s size); [lia|]. cbn [orb].
      destruct (Z.ltb_spec (Z.of_nat size) (Z.of_nat s)); [lia|]. cbn [fst snd].
      unfold tr_tag_out. cbn [map]. rewrite app_nil_r. apply IH; assumption.
  - cbn [length map app last]. unfold tr_hack at 1. cbn [Resume.a_step Resume.a_match].
    rewrite (run_one _ _ _ _ (step_send' _ _ _ _ _ _ _)), snd_hack. unfold tr_s_hack. cbn [ss_todo negb ss_names fst snd].
    unfold after_hacks, tr_s_size. cbn [fst snd]. unfold tr_tag_out. cbn [map]. reflexivity.
Qed.

Lemma bytes_ok_skipn n : forall l, bytes_ok l = true -> bytes_ok (skipn n l) = true.
Proof.
  induction n as [|n IH]; intros l Hl; [exact Hl|]. destruct l as [|x l]; [reflexivity|].
  cbn [skipn]. apply IH. cbn [bytes_ok forallb] in Hl. apply andb_true_iff in Hl. tauto.
Qed.

Definition resume_log (c : tr_cfg) (e : tr_entry) (sc : tr_sched) (ln : name) (tsize : N) (o : Resume.outcome) : list (bool * msg) :=
  let f := tr_rem_entry e (Resume.o_msend o) in
  [(true, TrName digest (tr_payload c e)); (false, name_reply c ln tsize)]
  ++ tag_out true (tr_resume_pre digest c e ++ map hmsg_of (Resume.o_hashes o))
  ++ tag_out false (map hack_of (Resume.o_acks o))
  ++ [(true, TrSize digest (te_size f))]
  ++ tail_log c f sc ++ [(false, TrSuccDigest digest (H (te_data f)))].

Definition resume_steps (c : tr_cfg) (e : tr_entry) (sc : tr_sched) (o : Resume.outcome) : nat :=
  1 + (1 + (length (tr_resume_pre digest c e) + (length (Resume.o_hashes o) + (length (Resume.o_acks o)
  + (tail_steps c (tr_rem_entry e (Resume.o_msend o)) sc + 2))))).

(* what the receiver found when it opened the file *)
Lemma target_size_pos d ln p st1 : (0 <? tr_target_size d ln p st1) = true ->
  tr_old_content st1 (tr_leaf d ln p) <> [] /\ tr_target_size d ln p st1 = tr_blen (tr_old_content st1 (tr_leaf d ln p)).
Proof.
  unfold tr_target_size, tr_old_content. destruct (lookup (st_fs st1) (tr_leaf d ln p)) as [[old|]|]; try discriminate.
  intro Hp. split; [|reflexivity]. destruct old; [discriminate Hp | discriminate].
Qed.

Lemma pipeline_of_json_names c : tr_json_names c = true -> tr_pipeline c = true.
Proof.
  unfold tr_json_names, tr_pipeline. intro Hj. apply N.leb_le in Hj. destruct proto_order_src_ok as [H1 _]. apply N.leb_le in H1.
  apply N.leb_le. lia.
Qed.

Lemma json_of_json_names c : tr_json_names c = true -> tr_json c = true.
Proof. unfold tr_json. intros ->. reflexivity. Qed.

Lemma snd_name_target c e sc rest names nm sz : tr_json_names c = true ->
  sender c (mkSS SpName ((e, sc) :: rest) names) (TrSuccTarget digest nm sz) =
  tr_s_named digest hx ahdr c (mkSS SpName ((e, sc) :: rest) names) e sc rest nm sz.
Proof. intro Hj. unfold tr_sender. cbn [ss_phase ss_todo ss_names]. rewrite Hj. reflexivity. Qed.

Lemma entry_resume c d e sc ess st names L ln st1 o :
  table_ok c -> bytes_ok (te_data e) = true -> tr_json_names c = true ->
  tr_has_subs e = false -> te_isdir e = false -> (te_isdir e && negb (tr_json c)) = false ->
  tr_create c d (tr_payload c e) [] st = (NOk ln, st1) ->
  (0 <? tr_target_size d ln (tr_payload c e) st1) = true ->
  tr_resume_run hx c e sc (tr_old_content st1 (tr_leaf d ln (tr_payload c e))) = Resume.Done o ->
  runf (resume_steps c e sc o) c d (between c ((e, sc) :: ess) st names L) =
  between c ess (tr_set_file st1 (tr_leaf d ln (tr_payload c e)) (Resume.o_final o)) (tr_add_name names ln)
    (L ++ resume_log c e sc ln (tr_target_size d ln (tr_payload c e) st1) o).
Proof.
  intros Ht Hb Hj Hsub Hd E0 E1 Hts Hrun.
  pose proof (pipeline_of_json_names c Hj) as Hp.
  set (leaf := tr_leaf d ln (tr_payload c e)) in *.
  destruct (target_size_pos d ln (tr_payload c e) st1 Hts) as [Hold Etsz]. fold leaf in Hold, Etsz.
  set (old := tr_old_content st1 leaf) in *. set (src := te_data e) in *.
  (* the exchange, taken apart and in closed form *)
  destruct (resume_run_inv hx c e sc old o Hj Hold Hrun) as (hs & rst & ms & Hsend & Hrecv & Hacks & Ho).
  pose proof (resume_run_cases hx c e sc old Hj Hold) as Hcases. cbv zeta in Hcases. fold src in Hcases, Hsend, Ho.
  set (size := Nat.min (length src) (length old)) in *. set (l := rs_steps sc src old) in *.
  set (m := last (Proofs.Resume.take_good hx src old l) O) in *.
  rewrite Hrun in Hcases.
  destruct ((size =? 0)%nat || Proofs.Resume.verdict hx src old size l) eqn:Hv; [|discriminate].
  assert (Hhs : hs = map (Proofs.Resume.mk hx src) l ++ [Resume.Over]).
  { pose proof (send_hashes_steps hx sc src old) as Hx. cbv zeta in Hx. fold size l in Hx. rewrite Hsend in Hx. inversion Hx. reflexivity. }
  injection Hcases as Ho2. rewrite Ho in Ho2.
  assert (Ea : Resume.r_acks rst = Proofs.Resume.acks_of hx src old l) by (apply (f_equal Resume.o_acks) in Ho2; exact Ho2).
  assert (Emr : Resume.r_mstep rst = Z.of_nat m) by (apply (f_equal Resume.o_mrecv) in Ho2; exact Ho2).
  assert (Ems : ms = Z.of_nat m) by (apply (f_equal Resume.o_msend) in Ho2; exact Ho2).
  clear Ho2.
  destruct (rs_steps_props sc src old) as [Hincr Hall]. fold l size in Hincr, Hall.
  (* the receiver's loop on the records *)
  assert (Hloop : Resume.recv_hashes B hx old (map (Proofs.Resume.mk hx src) l) Resume.r_init = Resume.RBlocked rst).
  { rewrite Hhs, recv_hashes_app in Hrecv.
    destruct (Resume.recv_hashes B hx old (map (Proofs.Resume.mk hx src) l) Resume.r_init) as [rx|r1| | |] eqn:E; try discriminate.
    - exfalso. apply (recv_hashes_no_over B hx old _ Resume.r_init rx) in E; [exact E|].
      intros x Hx. apply in_map_iff in Hx as (y & <- & _). discriminate.
    - cbn in Hrecv. inversion Hrecv. reflexivity. }
  (* the quantities of the outcome *)
  assert (Eoh : Resume.o_hashes o = map (Proofs.Resume.mk hx src) l ++ [Resume.Over]) by (rewrite Ho, <- Hhs; reflexivity).
  assert (Eoa : Resume.o_acks o = Proofs.Resume.acks_of hx src old l) by (rewrite Ho; cbn [Resume.o_acks]; exact Ea).
  assert (Eom : Resume.o_msend o = Z.of_nat m) by (rewrite Ho; cbn [Resume.o_msend]; exact Ems).
  assert (Eof : Resume.o_final o =
     Resume.f_data (Resume.f_write (Resume.f_truncate (Resume.f_seek (Resume.mkFile old (Resume.r_off rst)) (Z.to_nat (Resume.r_mstep rst)))
                                      (Z.to_nat (Resume.r_mstep rst))) (te_data (tr_rem_entry e (Z.of_nat m))))).
  { rewrite Ho. cbn [Resume.o_final]. rewrite rem_entry_data, Ems. reflexivity. }
  unfold resume_steps, resume_log. cbv zeta. rewrite Eoh, Eoa, Eom, Eof. clear Eoh Eoa Eom Eof.
  set (f := tr_rem_entry e (Z.of_nat m)).
  rewrite between_cons.
  (* NAME -> reply with the size of what is there *)
  rewrite run_add, (run_one _ _ _ _ (step_recv' _ _ _ _ _ _ _ _)), rcv_name.
  unfold tr_r_name. cbn [rs_st rs_names rs_phase rs_left rs_sched rs_open].
  rewrite E1, payload_archive, Hsub, andb_false_r, (payload_isdir _ _ E0), Hd.
  cbn [orb]. rewrite Hj, Hts. cbn [andb fst snd app]. fold leaf. fold old.
  unfold tr_r_phase. cbn [rs_st rs_names rs_phase rs_left rs_sched rs_open].
  (* reply -> [SIZE] HASH records *)
  rewrite run_add, (run_one _ _ _ _ (step_send' _ _ _ _ _ _ _)).
  rewrite (snd_name_target c e sc ess names ln _ Hj).
  unfold tr_s_named. rewrite Hsub, andb_false_r, Hd, Hts. cbn [ss_names].
  unfold tr_s_resume. rewrite Etsz, (resume_size_min e old). fold src size. rewrite Hsend, Hhs.
  rewrite map_app. cbn [map tr_hmsg].
  assert (Hpre : forall (ph : tr_rphase) rl rn rs q r2s lg,
    runf (length (tr_resume_pre digest c e)) c d
      (mkConf digest rs
         (mkRSx (if tc_proto c <? Consts.tr_proto_resume_nosize then RpHSize (tr_payload c e) leaf old else RpHash (tr_payload c e) leaf old Resume.r_init) rl st rn (sc :: map snd ess) None)
         (tr_resume_pre digest c e ++ q) r2s lg) =
    mkConf digest rs (mkRSx (RpHash (tr_payload c e) leaf old Resume.r_init) rl st rn (sc :: map snd ess) None) q r2s lg).
  { intros _ rl rn rs q r2s lg. unfold tr_resume_pre. destruct (tc_proto c <? Consts.tr_proto_resume_nosize); [|reflexivity].
    cbn [length app]. rewrite (run_one _ _ _ _ (step_recv' _ _ _ _ _ _ _ _)), rcv_hsize. cbn [fst snd]. rewrite !app_nil_r. reflexivity. }
  assert (Hacksrst : Resume.r_acks rst = Proofs.Resume.acks_of hx src old l) by exact Ea.
  assert (Hmrst : Z.to_nat (Resume.r_mstep rst) = m) by (rewrite Emr; lia).
  destruct (Nat.eqb_spec size 0) as [Hz|Hnz].
  - (* nothing to compare: Over and the SIZE of the whole file at once *)
    assert (Hl : l = []).
    { unfold l, rs_steps. fold size. rewrite Hz. reflexivity. }
    assert (Hm0 : m = O) by (unfold m; rewrite Hl; reflexivity).
    assert (Hf0 : tr_rem_entry e 0 = f) by (unfold f; rewrite Hm0; reflexivity).
    rewrite Hl in Hloop |- *. cbn [map app length Proofs.Resume.acks_of].
    cbn [fst snd]. rewrite <- !app_assoc.
    rewrite run_add, (Hpre RpNum). cbn [app].
    change (0 + (tail_steps c f sc + 2))%nat with (tail_steps c f sc + 2)%nat.
    rewrite run_add, (run_one _ _ _ _ (step_recv' _ _ _ _ _ _ _ _)), rcv_over. unfold tr_r_over.
    cbn [fst snd rs_left rs_st rs_names rs_sched]. cbn in Hloop. inversion Hloop as [Hrst]. rewrite <- Hrst in *.
    rewrite app_nil_r, Hf0.
    rewrite run_add, (file_tail_v2 c d (tr_payload c e) f sc ess _ _ _ _ _ _ _ Hp Ht); [| apply (eq_trans (f_equal bytes_ok (rem_entry_data e _))), bytes_ok_skipn, Hb | reflexivity|].
    2:{ rewrite payload_archive, Hsub, andb_false_r. discriminate. }
    erewrite (md5_steps c d (tr_payload c e) f sc ess (length ess) st _ (map snd ess)); [| | reflexivity | reflexivity].
    + unfold name_reply. rewrite Hj. f_equal. rewrite !tag_out_app. norm_log. reflexivity.
    + unfold tr_complete. cbn [rs_open rs_st]. rewrite E1. reflexivity.
  - (* the records, the answers, the verdict *)
    cbn [fst snd]. rewrite <- !app_assoc.
    rewrite run_add, (Hpre RpNum).
    rewrite app_length. cbn [length]. rewrite map_length.
    replace (length l + 1 + (length (Proofs.Resume.acks_of hx src old l) + (tail_steps c f sc + 2)))%nat
      with (length (map (Proofs.Resume.mk hx src) l) + (1 + (length (Proofs.Resume.acks_of hx src old l) + (tail_steps c f sc + 2))))%nat
      by (rewrite map_length; lia).
    rewrite run_add, (recv_hash_loop c d (tr_payload c e) leaf old _ _ _ _ _ _ _ _ rst _ _ _ Hloop).
    cbn [Resume.r_init Resume.r_acks length skipn]. rewrite Hacksrst. cbn [app].
    rewrite run_add, (run_one _ _ _ _ (step_recv' _ _ _ _ _ _ _ _)), rcv_over. unfold tr_r_over.
    cbn [fst snd rs_left rs_st rs_names rs_sched]. rewrite app_nil_r.
    assert (Hverd : Proofs.Resume.verdict hx src old size l = true).
    { apply orb_true_iff in Hv as [Hv|Hv]; [discriminate Hv | exact Hv]. }
    rewrite run_add.
    rewrite <- (app_nil_r (map hack_of (Proofs.Resume.acks_of hx src old l))) at 1.
    change 0%Z with (Z.of_nat 0).
    rewrite (send_hacks c d e sc ess _ _ src old size l 0 [] _ Hincr Hall), Hverd. unfold after_hacks. fold m f.
    rewrite Hmrst.
    rewrite run_add, (file_tail_v2 c d (tr_payload c e) f sc ess _ _ _ _ _ _ _ Hp Ht); [| apply (eq_trans (f_equal bytes_ok (rem_entry_data e _))), bytes_ok_skipn, Hb | reflexivity|].
    2:{ rewrite payload_archive, Hsub, andb_false_r. discriminate. }
    erewrite (md5_steps c d (tr_payload c e) f sc ess (length ess) st _ (map snd ess)); [| | reflexivity | reflexivity].
    + unfold name_reply. rewrite Hj. f_equal. rewrite !tag_out_app. norm_log. reflexivity.
    + unfold tr_complete. cbn [rs_open rs_st]. rewrite E1. reflexivity.
Qed.

(* the hash sender stopped before the verdict: the ack reader waits for an answer that never comes;
   neither side ever reports success *)
Lemma entry_blocked c d e sc ess st names L ln st1 hs acks :
  tr_json_names c = true ->
  tr_has_subs e = false -> te_isdir e = false -> (te_isdir e && negb (tr_json c)) = false ->
  tr_create c d (tr_payload c e) [] st = (NOk ln, st1) ->
  (0 <? tr_target_size d ln (tr_payload c e) st1) = true ->
  tr_resume_run hx c e sc (tr_old_content st1 (tr_leaf d ln (tr_payload c e))) = Resume.SenderBlocked hs acks ->
  let cf := runf (1 + (1 + (length (tr_resume_pre digest c e) + (length hs + length acks)))) c d (between c ((e, sc) :: ess) st names L) in
  stepc c d cf = None /\ tr_sender_ok digest cf = false /\ tr_receiver_ok digest cf = false.
Proof.
  intros Hj Hsub Hd E0 E1 Hts Hrun.
  set (leaf := tr_leaf d ln (tr_payload c e)) in *.
  destruct (target_size_pos d ln (tr_payload c e) st1 Hts) as [Hold Etsz]. fold leaf in Hold, Etsz.
  set (old := tr_old_content st1 leaf) in *. set (src := te_data e) in *.
  pose proof (resume_run_cases hx c e sc old Hj Hold) as Hcases. cbv zeta in Hcases. fold src in Hcases.
  set (size := Nat.min (length src) (length old)) in *. set (l := rs_steps sc src old) in *.
  rewrite Hrun in Hcases.
  destruct ((size =? 0)%nat || Proofs.Resume.verdict hx src old size l) eqn:Hv; [discriminate|].
  apply orb_false_iff in Hv as [Hnz Hverd]. apply Nat.eqb_neq in Hnz.
  injection Hcases as Ehs Eacks. subst hs acks.
  destruct (recv_honest_steps hx sc src old) as (rst & Hrecv & _ & Hacksrst). fold l in Hrecv, Hacksrst.
  destruct (rs_steps_props sc src old) as [Hincr Hall]. fold l size in Hincr, Hall.
  assert (Hloop : Resume.recv_hashes B hx old (map (Proofs.Resume.mk hx src) l) Resume.r_init = Resume.RBlocked rst).
  { rewrite recv_hashes_app in Hrecv.
    destruct (Resume.recv_hashes B hx old (map (Proofs.Resume.mk hx src) l) Resume.r_init) as [rx|r1| | |] eqn:E; try discriminate.
    - exfalso. apply (recv_hashes_no_over B hx old _ Resume.r_init rx) in E; [exact E|].
      intros x Hx. apply in_map_iff in Hx as (y & <- & _). discriminate.
    - cbn in Hrecv. inversion Hrecv. reflexivity. }
  pose proof (send_hashes_steps hx sc src old) as Hsend. cbv zeta in Hsend. fold size l in Hsend.
  assert (Hfin : exists sz ms rr lg,
    runf (1 + (1 + (length (tr_resume_pre digest c e) + (length (map (Proofs.Resume.mk hx src) l ++ [Resume.Over]) + length (Proofs.Resume.acks_of hx src old l))))) c d
      (between c ((e, sc) :: ess) st names L) =
    mkConf digest (mkSS (SpHash sz ms) ((e, sc) :: ess) (tr_add_name names ln))
      (mkRSx (RpSize (tr_payload c e)) (S (length ess)) st (tr_add_name names ln) (sc :: map snd ess) rr) [] [] lg);
  [|destruct Hfin as (sz & ms & rr & lg & Hfin); cbv zeta; rewrite Hfin; split; [reflexivity | split; reflexivity]].
  do 4 eexists. rewrite between_cons.
  rewrite run_add, (run_one _ _ _ _ (step_recv' _ _ _ _ _ _ _ _)), rcv_name.
  unfold tr_r_name. cbn [rs_st rs_names rs_phase rs_left rs_sched rs_open].
  rewrite E1, payload_archive, Hsub, andb_false_r, (payload_isdir _ _ E0), Hd.
  cbn [orb]. rewrite Hj, Hts. cbn [andb fst snd app]. fold leaf. fold old.
  unfold tr_r_phase. cbn [rs_st rs_names rs_phase rs_left rs_sched rs_open].
  rewrite run_add, (run_one _ _ _ _ (step_send' _ _ _ _ _ _ _)).
  rewrite (snd_name_target c e sc ess names ln _ Hj).
  unfold tr_s_named. rewrite Hsub, andb_false_r, Hd, Hts. cbn [ss_names].
  unfold tr_s_resume. rewrite Etsz, (resume_size_min e old). fold src size. rewrite Hsend.
  destruct (Nat.eqb_spec size 0) as [Hz|_]; [contradiction|].
  rewrite map_app. cbn [map tr_hmsg fst snd]. rewrite <- !app_assoc.
  assert (Hpre : forall rl rn rs q r2s lg,
    runf (length (tr_resume_pre digest c e)) c d
      (mkConf digest rs
         (mkRSx (if tc_proto c <? Consts.tr_proto_resume_nosize then RpHSize (tr_payload c e) leaf old else RpHash (tr_payload c e) leaf old Resume.r_init) rl st rn (sc :: map snd ess) None)
         (tr_resume_pre digest c e ++ q) r2s lg) =
    mkConf digest rs (mkRSx (RpHash (tr_payload c e) leaf old Resume.r_init) rl st rn (sc :: map snd ess) None) q r2s lg).
  { intros rl rn rs q r2s lg. unfold tr_resume_pre. destruct (tc_proto c <? Consts.tr_proto_resume_nosize); [|reflexivity].
    cbn [length app]. rewrite (run_one _ _ _ _ (step_recv' _ _ _ _ _ _ _ _)), rcv_hsize. cbn [fst snd]. rewrite !app_nil_r. reflexivity. }
  rewrite run_add, Hpre.
  rewrite app_length. cbn [length]. rewrite map_length.
  replace (length l + 1 + length (Proofs.Resume.acks_of hx src old l))%nat
    with (length (map (Proofs.Resume.mk hx src) l) + (1 + length (Proofs.Resume.acks_of hx src old l)))%nat
    by (rewrite map_length; lia).
  rewrite run_add, (recv_hash_loop c d (tr_payload c e) leaf old _ _ _ _ _ _ _ _ rst _ _ _ Hloop).
  cbn [Resume.r_init Resume.r_acks length skipn]. rewrite Hacksrst. cbn [app].
  rewrite run_add, (run_one _ _ _ _ (step_recv' _ _ _ _ _ _ _ _)), rcv_over. unfold tr_r_over.
  cbn [fst snd rs_left rs_st rs_names rs_sched]. rewrite app_nil_r.
  rewrite <- (app_nil_r (map hack_of (Proofs.Resume.acks_of hx src old l))) at 1.
  change 0%Z with (Z.of_nat 0).
  rewrite (send_hacks c d e sc ess _ _ src old size l 0 [] _ Hincr Hall), Hverd. unfold after_hacks.
  reflexivity.
Qed.

(* ---------- an archive: NAME (archive:true), reply, then the entry stream as a file ---------- *)
Definition arch_log (c : tr_cfg) (e : tr_entry) (sc : tr_sched) (ln : name) (f : tr_entry) : list (bool * msg) :=
  [(true, TrName digest (tr_payload c e)); (false, name_reply c ln 0); (true, TrSize digest (te_size f))]
  ++ tail_log c f sc ++ [(false, TrSuccDigest digest (H (te_data f)))].

Lemma entry_arch c d e sc ess st names L ln st1 f t :
  table_ok c -> tr_json_names c = true -> tr_has_subs e = true -> (te_isdir e && negb (tr_json c)) = false ->
  tr_create c d (tr_payload c e) [] st = (NOk ln, st1) ->
  tr_arch_entry ahdr e sc = Some f -> te_isdir f = false -> te_size f = Z.to_N (tr_arch_size ahdr e) ->
  bytes_ok (te_data f) = true ->
  tr_unarchive aparse (te_id e) sc (te_data f) = Some t ->
  runf (2 + (tail_steps c f sc + 2)) c d (between c ((e, sc) :: ess) st names L) =
  between c ess (tr_graft_st st1 (d ++ [ln]) t) (tr_add_name names ln) (L ++ arch_log c e sc ln f).
Proof.
  intros Ht Hj Hsub E0 E1 Ef Hdf Hsz Hb Hun.
  pose proof (pipeline_of_json_names c Hj) as Hp. pose proof (json_of_json_names c Hj) as Hjs.
  assert (Hpa : tr_p_archive (tr_payload c e) = true) by (rewrite payload_archive, Hjs, Hsub; reflexivity).
  rewrite between_cons.
  rewrite run_add. cbn [tr_run_from].
  rewrite (step_recv' _ _ _ _ _ _ _ _), rcv_name.
  unfold tr_r_name. cbn [rs_st rs_names rs_phase rs_left rs_sched rs_open]. rewrite E1, Hpa, orb_true_r, Hj.
  unfold tr_r_phase. cbn [rs_st rs_names rs_phase rs_left rs_sched rs_open fst snd app].
  rewrite (step_send' _ _ _ _ _ _ _), (snd_name_target c e sc ess names ln _ Hj).
  unfold tr_s_named. rewrite Hj, Hsub, Ef. cbn [andb ss_names]. unfold tr_s_size. rewrite <- Hsz. cbn [fst snd].
  rewrite run_add, (file_tail_v2 c d (tr_payload c e) f sc ess _ _ _ _ _ None _ Hp Ht Hb Hdf).
  2:{ intros _. rewrite (payload_aid c e Hjs). eauto. }
  erewrite (md5_steps c d (tr_payload c e) f sc ess (length ess) st _ (map snd ess)); [| | reflexivity | reflexivity].
  - unfold arch_log, name_reply. rewrite Hj. f_equal. norm_log. reflexivity.
  - unfold tr_complete. cbn [rs_open rs_st]. rewrite Hpa, E1, (payload_aid c e Hjs). unfold tr_cur_sched. cbn [rs_sched].
    rewrite Hun. reflexivity.
Qed.

(* ---------- all entries ---------- *)
(* the messages of one item, by the way it is received (the specification decides which) *)
Definition entry_log (c : tr_cfg) (d : path) (e : tr_entry) (sc : tr_sched) (st : state) (ln : name) : list (bool * msg) :=
  match tr_create c d (tr_payload c e) [] st with
  | (NErr, _) => []
  | (NOk _, st1) =>
    if tr_has_subs e then match tr_arch_entry ahdr e sc with Some f => arch_log c e sc ln f | None => [] end
    else if te_isdir e then dir_log c e ln
    else if tr_json_names c && (0 <? tr_target_size d ln (tr_payload c e) st1) then
      match tr_resume_run hx c e sc (tr_old_content st1 (tr_leaf d ln (tr_payload c e))) with
      | Resume.Done o => resume_log c e sc ln (tr_target_size d ln (tr_payload c e) st1) o
      | _ => []
      end
    else if tr_pipeline c then file_log_v2 c e sc ln else file_log_v1 c e sc ln
  end.

Fixpoint all_log (c : tr_cfg) (d : path) (ess : list (tr_entry * tr_sched)) (st : state) (per : list name) : list (bool * msg) :=
  match ess, per with
  | (e, sc) :: ess', ln :: per' =>
    entry_log c d e sc st ln ++
    match spec_entry c d e sc st with Some (_, st') => all_log c d ess' st' per' | None => [] end
  | _, _ => []
  end.

Fixpoint esteps (c : tr_cfg) (d : path) (ess : list (tr_entry * tr_sched)) (st : state) : nat :=
  match ess with
  | [] => 0
  | (e, sc) :: r =>
    tr_entry_steps digest zcomp hx ahdr c d e sc st +
    match spec_entry c d e sc st with Some (_, st') => esteps c d r st' | None => 0 end
  end.

(* what is assumed of one item: contents are bytes; SubFiles only in archive mode and well-formed;
   their headers decode *)
Definition item_ok (c : tr_cfg) (e : tr_entry) : Prop :=
  Forall (fun m => bytes_ok (te_data m) = true) (tr_members e) /\
  (te_subs e <> [] -> tr_archive_mode c = true /\ tr_subs_wf e) /\
  (forall s, In s (te_subs e) -> tr_hdr_ok1 ahdr aparse s).

Lemma has_subs_ne e : tr_has_subs e = true -> te_subs e <> [].
Proof. unfold tr_has_subs. destruct (te_subs e); [discriminate | discriminate]. Qed.

Lemma item_bytes c e : item_ok c e -> bytes_ok (te_data e) = true.
Proof. intros (Hb & _). inversion Hb; assumption. Qed.

(* the archive "file" of an item that is in order *)
Lemma arch_item c e sc : item_ok c e -> tr_has_subs e = true ->
  exists f t, tr_arch_entry ahdr e sc = Some f /\ te_isdir f = false /\ te_size f = Z.to_N (tr_arch_size ahdr e) /\
    bytes_ok (te_data f) = true /\ tr_unarchive aparse (te_id e) sc (te_data f) = Some t.
Proof.
  intros (Hb & Hw & Hh) Hsub. destruct (Hw (has_subs_ne e Hsub)) as [_ Hwf].
  destruct (arch_entry_ok ahdr e sc) as (f & Ef & Hdata & Hdf & _ & _ & _ & Hsz).
  destruct (unarchive_ok ahdr aparse e sc Hwf Hh) as (t & Et & _).
  exists f, t. split; [exact Ef|]. split; [exact Hdf|]. split; [exact Hsz|]. rewrite Hdata. split; [|exact Et].
  apply (arch_stream_bytes ahdr aparse e Hwf Hh). inversion Hb; assumption.
Qed.

Lemma entry_run c d e sc ess st names L ln st' : table_ok c -> item_ok c e ->
  spec_entry c d e sc st = Some (ln, st') ->
  runf (tr_entry_steps digest zcomp hx ahdr c d e sc st) c d (between c ((e, sc) :: ess) st names L) =
  between c ess st' (tr_add_name names ln) (L ++ entry_log c d e sc st ln).
Proof.
  intros Ht Hok Hs. pose proof (item_bytes c e Hok) as Hb. destruct (tr_has_subs e) eqn:Hsub.
  - (* an archive *)
    destruct Hok as (Hb' & Hw & Hh). destruct (Hw (has_subs_ne e Hsub)) as [Ham _].
    destruct (archive_mode_facts c Ham) as (_ & Hj & Hjs & Hp).
    destruct (arch_item c e sc (conj Hb' (conj Hw Hh)) Hsub) as (f & t & Ef & Hdf & Hsz & Hbf & Et).
    unfold tr_spec_entry in Hs. destruct (te_isdir e && negb (tr_json c)) eqn:E0; [discriminate|].
    unfold tr_entry_steps, entry_log.
    destruct (tr_create c d (tr_payload c e) [] st) as [[l1|] st1] eqn:E1; [|discriminate].
    rewrite Hsub, Ef, Et in Hs. inversion Hs; subst l1 st'. clear Hs.
    rewrite Hj, Hsub, Ef. cbn [andb]. rewrite (tail_steps_eq c f sc Hp).
    apply (entry_arch c d e sc ess st names L ln st1 f t Ht Hj Hsub E0 E1 Ef Hdf Hsz Hbf Et).
  - destruct (spec_plain_inv c d e sc st ln st' Hsub Hs) as (E0 & st1 & E1 & Hrest).
    unfold tr_entry_steps, entry_log. rewrite E1, Hsub, andb_false_r.
    destruct (te_isdir e) eqn:Hd.
    + subst st'. assert (E0' : te_isdir e && negb (tr_json c) = false) by (rewrite Hd; exact E0).
      apply (entry_dir c d e sc ess st names L ln st1 Hsub Hd E0' E1).
    + assert (E0' : te_isdir e && negb (tr_json c) = false) by (rewrite Hd; exact E0). clear E0. rename E0' into E0.
      destruct (tr_json_names c && (0 <? tr_target_size d ln (tr_payload c e) st1)) eqn:E2.
      * destruct Hrest as (o & Er & ->). rewrite Er. apply andb_true_iff in E2 as [Hj Hts].
        replace (2 + (length (tr_resume_pre digest c e) + length (Resume.o_hashes o) + length (Resume.o_acks o)
                      + tr_tail_steps digest zcomp c (tr_rem_entry e (Resume.o_msend o)) sc))%nat
          with (resume_steps c e sc o) by (unfold resume_steps; rewrite (tail_steps_eq c _ sc (pipeline_of_json_names c Hj)); lia).
        apply (entry_resume c d e sc ess st names L ln st1 o Ht Hb Hj Hsub Hd E0 E1 Hts Er).
      * destruct Hrest as (ln2 & E3). destruct (tr_pipeline c) eqn:Hp.
        -- rewrite (tail_steps_eq c e sc Hp).
           apply (entry_file_v2 c d e sc ess st names L ln st1 ln2 st' Hp Ht Hb Hsub Hd E0 E1 E2 E3).
        -- replace (2 + tr_tail_steps digest zcomp c e sc)%nat with (steps_v1 e sc)
             by (unfold tr_tail_steps, steps_v1; rewrite Hp, dbl_spec; lia).
           apply (entry_file_v1 c d e sc ess st names L ln st1 ln2 st' Hp Ht Hb Hsub Hd E0 E1 E2 E3).
Qed.

Lemma run_entries_prefix c d rest : table_ok c -> forall ess st names L per all stf,
  Forall (fun es => item_ok c (fst es)) ess ->
  spec c d ess st names = Some (per, all, stf) ->
  runf (esteps c d ess st) c d (between c (ess ++ rest) st names L) = between c rest stf all (L ++ all_log c d ess st per).
Proof.
  intros Ht. induction ess as [|[e sc] ess IH]; intros st names L per all stf Hb Hs.
  - cbn in Hs. inversion Hs; subst. cbn [esteps tr_run_from all_log app]. rewrite app_nil_r. reflexivity.
  - cbn [tr_spec] in Hs. destruct (spec_entry c d e sc st) as [[ln st1]|] eqn:Ee; [|discriminate].
    destruct (spec c d ess st1 (tr_add_name names ln)) as [[[per' all'] stf']|] eqn:Er; [|discriminate].
    inversion Hs; subst. inversion Hb as [|? ? Hb1 Hb2]; subst. cbn [fst] in Hb1.
    cbn [esteps all_log app]. rewrite Ee, run_add.
    rewrite (entry_run c d e sc (ess ++ rest) st names L ln st1 Ht Hb1 Ee).
    rewrite (IH _ _ _ _ _ _ Hb2 Er), <- app_assoc. reflexivity.
Qed.

Lemma run_entries c d : table_ok c -> forall ess st names L per all stf,
  Forall (fun es => item_ok c (fst es)) ess ->
  spec c d ess st names = Some (per, all, stf) ->
  runf (esteps c d ess st) c d (between c ess st names L) = between c [] stf all (L ++ all_log c d ess st per).
Proof.
  intros Ht ess st names L per all stf Hb Hs.
  pose proof (run_entries_prefix c d [] Ht ess st names L per all stf Hb Hs) as Hr. rewrite app_nil_r in Hr. exact Hr.
Qed.

(* ---------- the whole run ---------- *)
Definition full_log (c : tr_cfg) (d : path) (ess : list (tr_entry * tr_sched)) (f0 : fs) (per all : list name) : list (bool * msg) :=
  [(true, TrNum digest (N.of_nat (length ess))); (false, TrSuccInt digest (N.of_nat (length ess)))]
  ++ all_log c d ess (init_state f0) per ++ [(tc_upload c, TrExit digest all)].

Notation fuel_go := (tr_fuel_go digest zcomp hx ahdr aparse).
Notation fuel_items := (tr_fuel_items digest zcomp hx ahdr aparse).

Lemma fuel_ok c d : forall ess st names per all stf, spec c d ess st names = Some (per, all, stf) ->
  fuel_go c d ess st = (esteps c d ess st + 1)%nat.
Proof.
  induction ess as [|[e sc] ess IH]; intros st names per all stf Hs; [reflexivity|].
  cbn [tr_spec] in Hs. cbn [tr_fuel_go esteps]. destruct (spec_entry c d e sc st) as [[ln st1]|]; [|discriminate].
  destruct (spec c d ess st1 (tr_add_name names ln)) as [[[per' all'] stf']|] eqn:Er; [|discriminate].
  rewrite (IH _ _ _ _ _ Er). lia.
Qed.

Lemma init_two_steps c d ess f0 :
  runf 2 c d (tr_init digest c ess f0) =
  between c ess (init_state f0) []
    [(true, TrNum digest (N.of_nat (length ess))); (false, TrSuccInt digest (N.of_nat (length ess)))].
Proof.
  unfold tr_init, tr_sender_init, tr_receiver_init.
  rewrite (run_S _ _ _ _ _ (step_recv' _ _ _ _ _ _ _ _)), rcv_num, Nat2N.id. cbn [fst snd app].
  rewrite (run_one _ _ _ _ (step_send' _ _ _ _ _ _ _)), snd_num.
  unfold between.
  destruct (r_next c (length ess) (init_state f0) [] (map snd ess)) as [rn ro].
  destruct (s_next c ess []) as [sn so]. cbn [fst snd]. f_equal; norm_log; reflexivity.
Qed.

Definition final_conf (c : tr_cfg) (stf : state) (all : list name) (log : list (bool * msg)) : conf :=
  mkConf digest (mkSS SpDone [] all) (mkRS RpDone O stf all []) [] [] log.

Lemma last_step c d stf all L :
  runf 1 c d (between c [] stf all L) = final_conf c stf all (L ++ [(tc_upload c, TrExit digest all)]).
Proof.
  unfold between, final_conf. cbn [tr_s_next tr_r_next length map]. destruct (tc_upload c) eqn:Hu; cbn [fst snd].
  - rewrite (run_one _ _ _ _ (step_recv' _ _ _ _ _ _ _ _)), rcv_exit. cbn [fst snd]. f_equal; norm_log; rewrite ?app_nil_r; reflexivity.
  - rewrite (run_one _ _ _ _ (step_send' _ _ _ _ _ _ _)), snd_exit. cbn [fst snd]. f_equal; norm_log; rewrite ?app_nil_r; reflexivity.
Qed.

Lemma final_stuck c d stf all log : stepc c d (final_conf c stf all log) = None.
Proof. reflexivity. Qed.

Notation run_items := (tr_run_items digest H deq zcomp zdecomp zl unzl hx ahdr aparse).

Theorem run_complete c d ess f0 per all stf : table_ok c ->
  Forall (fun es => item_ok c (fst es)) ess ->
  spec c d ess (init_state f0) [] = Some (per, all, stf) ->
  forall fuel, (fuel_items c d ess f0 <= fuel)%nat ->
  run_items fuel c d ess f0 = final_conf c stf all (full_log c d ess f0 per all).
Proof.
  intros Ht Hb Hs fuel Hf. unfold tr_run_items. unfold tr_fuel_items in Hf. rewrite (fuel_ok c d ess _ _ _ _ _ Hs) in Hf.
  replace fuel with (2 + (esteps c d ess (init_state f0) + (1 + (fuel - 3 - esteps c d ess (init_state f0)))))%nat by lia.
  rewrite run_add, init_two_steps, run_add, (run_entries c d Ht ess _ _ _ per all stf Hb Hs), run_add, last_step.
  rewrite run_stuck by apply final_stuck. unfold full_log. norm_app. reflexivity.
Qed.

(* ---------- the receiver refuses an entry, or the resume exchange does not complete ---------- *)
Lemma entry_fail c d e sc ess st names L :
  item_ok c e -> (te_isdir e = true -> tr_json c = true) -> spec_entry c d e sc st = None ->
  let cf := runf (tr_entry_steps digest zcomp hx ahdr c d e sc st) c d (between c ((e, sc) :: ess) st names L) in
  stepc c d cf = None /\ tr_sender_ok digest cf = false /\ tr_receiver_ok digest cf = false.
Proof.
  intros Hok Hdj Hs.
  assert (E0 : te_isdir e && negb (tr_json c) = false).
  { destruct (te_isdir e); [rewrite (Hdj eq_refl); reflexivity | reflexivity]. }
  unfold tr_entry_steps. pose proof Hs as Hs0. unfold tr_spec_entry in Hs. rewrite E0 in Hs.
  destruct (tr_create c d (tr_payload c e) [] st) as [[ln|] st1] eqn:E1.
  - destruct (tr_has_subs e) eqn:Hsub.
    + (* an archive in order is never refused *)
      exfalso. destruct (arch_item c e sc Hok Hsub) as (f & t & Ef & _ & _ & _ & Et). rewrite Ef, Et in Hs. discriminate.
    + rewrite andb_false_r. destruct (te_isdir e) eqn:Hd; [discriminate|].
      assert (E0' : te_isdir e && negb (tr_json c) = false) by (rewrite Hd; exact E0). clear E0. rename E0' into E0.
      destruct (tr_json_names c && (0 <? tr_target_size d ln (tr_payload c e) st1)) eqn:E2.
      * apply andb_true_iff in E2 as [Hj Hts].
        destruct (target_size_pos d ln (tr_payload c e) st1 Hts) as [Hold _].
        pose proof (resume_run_cases hx c e sc _ Hj Hold) as Hc. cbv zeta in Hc.
        destruct (tr_resume_run hx c e sc (tr_old_content st1 (tr_leaf d ln (tr_payload c e)))) as [o|hs acks| | |] eqn:Er;
          try (destruct (_ || _) in Hc; discriminate Hc).
        -- discriminate.
        -- replace (2 + (length (tr_resume_pre digest c e) + length hs + length acks))%nat
             with (1 + (1 + (length (tr_resume_pre digest c e) + (length hs + length acks))))%nat by lia.
           apply (entry_blocked c d e sc ess st names L ln st1 hs acks Hj Hsub Hd E0 E1 Hts Er).
      * exfalso. pose proof (tr_create_indep c d (tr_payload c e) [] (te_data e) st) as Hi. rewrite E1 in Hi. cbn [fst] in Hi.
        destruct (tr_create c d (tr_payload c e) (te_data e) st) as [[l2|] st2]; discriminate.
  - cbv zeta. rewrite between_cons. cbn [plus].
    rewrite (run_S _ _ _ _ _ (step_recv' _ _ _ _ _ _ _ _)), rcv_name. unfold tr_r_name. cbn [rs_st]. rewrite E1.
    unfold tr_r_fail. cbn [fst snd app rs_st rs_names rs_phase rs_left rs_sched rs_open].
    rewrite (run_one _ _ _ _ (step_send' _ _ _ _ _ _ _)). cbn [tr_sender ss_phase fst snd]. repeat split.
Qed.

Lemma spec_none_split c d : forall (ess : list (tr_entry * tr_sched)) st names, spec c d ess st names = None ->
  exists pre e sc post per all st1, ess = pre ++ (e, sc) :: post /\
    spec c d pre st names = Some (per, all, st1) /\ spec_entry c d e sc st1 = None.
Proof.
  induction ess as [|[e sc] ess IH]; intros st names Hs; [discriminate|].
  cbn [tr_spec] in Hs. destruct (spec_entry c d e sc st) as [[ln st1]|] eqn:Ee.
  - destruct (spec c d ess st1 (tr_add_name names ln)) as [[[per' all'] stf']|] eqn:Er; [discriminate|].
    destruct (IH _ _ Er) as (pre & e2 & sc2 & post & per & all & st2 & -> & Hp & He).
    exists ((e, sc) :: pre), e2, sc2, post, (ln :: per), all, st2. split; [reflexivity|]. split; [|exact He].
    cbn [tr_spec]. rewrite Ee, Hp. reflexivity.
  - exists [], e, sc, ess, [], names, st. repeat split. exact Ee.
Qed.

Lemma fuel_fail c d : forall pre e sc post st names per all st1,
  spec c d pre st names = Some (per, all, st1) -> spec_entry c d e sc st1 = None ->
  fuel_go c d (pre ++ (e, sc) :: post) st = (esteps c d pre st + tr_entry_steps digest zcomp hx ahdr c d e sc st1)%nat.
Proof.
  induction pre as [|[e0 sc0] pre IH]; intros e sc post st names per all st1 Hp He.
  - cbn in Hp. inversion Hp; subst. cbn [app tr_fuel_go esteps]. rewrite He. lia.
  - cbn [tr_spec] in Hp. cbn [app tr_fuel_go esteps]. destruct (spec_entry c d e0 sc0 st) as [[ln st2]|]; [|discriminate].
    destruct (spec c d pre st2 (tr_add_name names ln)) as [[[per' all'] stf']|] eqn:Er; [|discriminate].
    inversion Hp; subst. rewrite (IH e sc post st2 _ _ _ _ Er He). lia.
Qed.

Theorem run_incomplete c d ess f0 : table_ok c ->
  Forall (fun es => item_ok c (fst es)) ess ->
  Forall (fun es => te_isdir (fst es) = true -> tr_json c = true) ess ->
  spec c d ess (init_state f0) [] = None ->
  forall fuel, (fuel_items c d ess f0 <= fuel)%nat ->
  tr_sender_ok digest (run_items fuel c d ess f0) = false /\
  tr_receiver_ok digest (run_items fuel c d ess f0) = false.
Proof.
  intros Ht Hb Hdj Hs fuel Hf.
  destruct (spec_none_split c d ess _ _ Hs) as (pre & e & sc & post & per & all & st1 & -> & Hp & He).
  apply Forall_app in Hb as [Hb1 Hb2]. inversion Hb2 as [|? ? Hbe _]; subst. cbn [fst] in Hbe.
  apply Forall_app in Hdj as [_ Hdj]. inversion Hdj as [|? ? Hdj1 _]; subst. cbn [fst] in Hdj1.
  unfold tr_fuel_items in Hf. rewrite (fuel_fail c d pre e sc post _ _ _ _ _ Hp He) in Hf.
  unfold tr_run_items.
  set (n1 := esteps c d pre (init_state f0)) in *. set (n2 := tr_entry_steps digest zcomp hx ahdr c d e sc st1) in *.
  replace fuel with (2 + (n1 + (n2 + (fuel - 2 - n1 - n2))))%nat by lia.
  rewrite run_add, init_two_steps, run_add, (run_entries_prefix c d ((e, sc) :: post) Ht pre _ _ _ per all st1 Hb1 Hp), run_add.
  match goal with |- context [between c ((e, sc) :: post) st1 all ?L] =>
    destruct (entry_fail c d e sc post st1 all L Hbe Hdj1 He) as (A & B & C) end.
  fold n2 in A, B, C. rewrite run_stuck by exact A. split; assumption.
Qed.
End TransferProofs.
